/-
C11 — arithmetic on equilibria keeps the constant consistent with the stoichiometry.

Property theorems only (helper lemmas: Proofs/Equilibria.lean; executable model: Model/Equilibria.lean).
`Equil α` is an `Equilibrium` (four containers as stored + `param`), `rmul n e` is `n * e` / `e * n`,
`add`/`sub`/`neg` are `+`/`-`/unary minus, `EqExpr` is any expression built from them, `Except.ok r`
means "the Python expression returned `r`" (the other outcomes are the exceptions the real code raises:
`ValueError` when no net effect is left, `ZeroDivisionError` for `0 ** negative`, `TypeError` for
`K * None`).  The equilibrium constant lives in an arbitrary field `α` with decidable equality
(ℚ in the correspondence runs).  `r.net k` is `r.net_stoich([k])[0]`.
-/
import ChemModel.Proofs.Equilibria
import Mathlib.Algebra.Field.Rat

namespace ChemModel.C11
open ChemModel.Equilibria
set_option linter.unusedSectionVars false

variable {α : Type} [Field α] [DecidableEq α]

/-! ### scaling -/

/-- `n * e` has `n` times the net stoichiometry of `e` — for every integer `n` the code accepts
    (all `n ≠ 0`, see `rmul_zero`), negative ones included. -/
theorem net_rmul {n : Int} {e r : Equil α} (h : rmul n e = .ok r) (k : String) :
    r.net k = n * e.net k := net_rmul' h k

/-- `0 * e` is refused by the real code for every `e` (`ValueError`: all coefficients become 0 and
    `check_any_effect` fails); so `net_rmul`/`K_rmul` quantify over exactly the accepted multipliers. -/
theorem rmul_zero (e : Equil α) : rmul 0 e = .error "ValueError" := rmul_zero' e

/-- the constant of `n * e` is `K ^ n` (integer power in the field, `K⁻¹ ^ |n|` for `n < 0`); no constant stays
    no constant.  A negative power of `K = 0` is never returned (`ZeroDivisionError`). -/
theorem K_rmul {n : Int} {e r : Equil α} (h : rmul n e = .ok r) :
    r.K = e.K.map (fun K => K ^ n) ∧ (∀ K, e.K = some K → n < 0 → K ≠ 0) := K_rmul' h

/-- negative scaling reverses the reaction: the sides are swapped and scaled by `|n|`; positive scaling keeps them.
    Listed coefficients stay positive. -/
theorem rmul_sides {n : Int} {e r : Equil α} (h : rmul n e = .ok r) :
    (0 < n → ∀ k, get r.reac k = get e.reac k * n.natAbs ∧ get r.prod k = get e.prod k * n.natAbs) ∧
    (n < 0 → ∀ k, get r.reac k = get e.prod k * n.natAbs ∧ get r.prod k = get e.reac k * n.natAbs) ∧
    (e.Positive → r.Positive) := by
  obtain ⟨param, _, hr, _⟩ := rmul_ok h
  refine ⟨?_, ?_, rmul_positive h⟩
  · intro hn k
    rw [if_neg (by omega)] at hr
    subst hr
    simp only [get_sortByKey, get_scale, and_self]
  · intro hn k
    rw [if_pos hn] at hr
    subst hr
    simp only [get_sortByKey, get_scale, and_self]

/-! ### sums and differences -/

/-- `a + b`: net stoichiometry is the sum of the operands' (active) net stoichiometries;
    for operands without inactive parts that is `a.net k + b.net k` (`net_eq_activeNet`). -/
theorem net_add {a b r : Equil α} (h : add a b = .ok r) (k : String) :
    r.net k = a.activeNet k + b.activeNet k := net_add' h k

theorem net_add_noInact {a b r : Equil α} (h : add a b = .ok r) (ha : a.NoInact) (hb : b.NoInact) (k : String) :
    r.net k = a.net k + b.net k := by
  rw [net_add' h, net_eq_activeNet ha, net_eq_activeNet hb]

/-- `a - b`: difference of the net stoichiometries -/
theorem net_sub {a b r : Equil α} (h : sub a b = .ok r) (k : String) :
    r.net k = a.activeNet k - b.activeNet k := net_sub' h k

/-- the constant of `a + b` is `K_a * K_b` (both without constant: none; mixed: the code raises `TypeError`) -/
theorem K_add {a b r : Equil α} (h : add a b = .ok r) :
    (a.K = none ∧ b.K = none ∧ r.K = none) ∨
    (∃ x y, a.K = some x ∧ b.K = some y ∧ r.K = some (x * y)) := K_add' h

/-- the constant of `a - b` is `K_a * K_b⁻¹` (and `K_b ≠ 0`) -/
theorem K_sub {a b r : Equil α} (h : sub a b = .ok r) :
    (a.K = none ∧ b.K = none ∧ r.K = none) ∨
    (∃ x y, a.K = some x ∧ b.K = some y ∧ y ≠ 0 ∧ r.K = some (x * y⁻¹)) := by
  obtain ⟨nb, h1, h2⟩ := sub_ok h
  obtain ⟨hK, hne⟩ := K_rmul' h1
  rcases K_add' h2 with ⟨ha, hb, hr⟩ | ⟨x, y', ha, hb, hr⟩
  · left
    refine ⟨ha, ?_, hr⟩
    rw [hK] at hb
    cases hbK : b.K with
    | none => rfl
    | some y => rw [hbK] at hb; cases hb
  · right
    rw [hK] at hb
    cases hbK : b.K with
    | none => rw [hbK] at hb; cases hb
    | some y =>
      rw [hbK] at hb
      simp only [Option.map_some, Option.some.injEq] at hb
      refine ⟨x, y, ha, rfl, hne y hbK (by omega), ?_⟩
      rw [hr, ← hb, zpow_neg_one]

/-- sums are returned in netted form: listed coefficients positive, no species on both sides, a species is
    listed exactly on the side given by the sign of its net coefficient (cancelled species nowhere), each species
    once, no inactive parts. -/
theorem netted_form {a b r : Equil α} (h : add a b = .ok r) : NettedSum a b r := netted_add h

/-- the same for differences (`a - b = a + (-1)*b`): netted with respect to `a` and the reversed `b` -/
theorem netted_form_sub {a b r : Equil α} (h : sub a b = .ok r) :
    ∃ nb, rmul (-1) b = .ok nb ∧ (∀ k, nb.activeNet k = - b.activeNet k) ∧ NettedSum a nb r := by
  obtain ⟨nb, h1, h2⟩ := sub_ok h
  exact ⟨nb, h1, fun k => by rw [activeNet_rmul h1]; ring, netted_add h2⟩

/-- results of arithmetic are stored as the constructor stores plain dicts: every container sorted by key
    (code-point order), whatever the order of the operands' containers was -/
theorem results_sorted {n : Int} {e a b r : Equil α} (h : rmul n e = .ok r ∨ add a b = .ok r ∨ sub a b = .ok r) :
    SortedKeys r.reac ∧ SortedKeys r.prod ∧ SortedKeys r.inactReac ∧ SortedKeys r.inactProd := by
  have hadd : ∀ {x y : Equil α}, add x y = .ok r →
      SortedKeys r.reac ∧ SortedKeys r.prod ∧ SortedKeys r.inactReac ∧ SortedKeys r.inactProd := by
    intro x y h'
    obtain ⟨_, _, hr, _⟩ := add_ok h'
    subst hr
    exact ⟨sorted_sortByKey _, sorted_sortByKey _, List.Pairwise.nil, List.Pairwise.nil⟩
  rcases h with h | h | h
  · obtain ⟨_, _, hr, _⟩ := rmul_ok h
    by_cases hn : n < 0
    · rw [if_pos hn] at hr; subst hr
      exact ⟨sorted_sortByKey _, sorted_sortByKey _, sorted_sortByKey _, sorted_sortByKey _⟩
    · rw [if_neg hn] at hr; subst hr
      exact ⟨sorted_sortByKey _, sorted_sortByKey _, sorted_sortByKey _, sorted_sortByKey _⟩
  · exact hadd h
  · obtain ⟨nb, _, h2⟩ := sub_ok h
    exact hadd h2

/-! ### every expression tree (the "histories" quantifier) -/

/-- For **every** expression `t` built from equilibria without inactive parts by integer scaling (`n * x`, `x * n`),
    negation, addition and subtraction: if the real evaluation returns `r`, then
    * the net stoichiometry of `r` is the integer combination `Σ nᵢ · net eᵢ` of the operands' net stoichiometries,
      where `t.terms` lists every operand occurrence `eᵢ` with the total integer `nᵢ` it is multiplied by;
    * `r` has no inactive parts;
    * either no operand has a constant and neither has `r`, or all have and `K_r = ∏ Kᵢ ^ nᵢ`
      (integer powers in the field; no operand constant needs to be non-zero for this form of the statement, because
      the evaluation itself refuses `0 ** negative`; grouping several occurrences of the same operand into one
      power `K^(n+m) = K^n * K^m` needs that operand's `K ≠ 0`: lemma `Equilibria.Kpow_group` in Proofs). -/
theorem combo_spec (t : EqExpr α) (r : Equil α) (h : t.eval = .ok r)
    (hl : ∀ p ∈ t.terms, p.1.NoInact) :
    (∀ k, r.net k = (t.terms.map (fun p => p.2 * p.1.net k)).sum) ∧
    r.NoInact ∧
    (((∀ p ∈ t.terms, p.1.K = none) ∧ r.K = none) ∨
     ((∀ p ∈ t.terms, p.1.K ≠ none) ∧ r.K = some ((t.terms.map (fun p => Kof p.1 ^ p.2)).prod))) := by
  obtain ⟨h1, h2, h3⟩ := combo_eval t r h hl
  exact ⟨h1, h2, h3⟩

/-- Positivity of the listed coefficients of the result of ANY expression, zero coefficients included (the real
    constructor accepts a coefficient 0, `check_all_positive` only rejects `< 0`):
    * as soon as the expression contains a sum or a difference (`t.core = none`) every listed coefficient of the result is
      positive, whatever the operands list — the sum nets, later scalings preserve positivity;
    * otherwise the expression is a scaled/negated operand `e` and the result is positive **iff** `e` is: scaling neither
      removes nor creates zero coefficients (`rmul_keeps_zero`: `2 * ({A: 0, B: 1} = {C: 1})` still lists `A: 0`).
    So the clause "every listed coefficient positive" holds for all results iff it holds for the bare operands that are
    only scaled. -/
theorem combo_positive_iff (t : EqExpr α) (r : Equil α) (h : t.eval = .ok r) :
    r.Positive ↔ match t.core with | none => True | some e => e.Positive := positive_eval_iff t r h

/-- a listed zero coefficient stays listed (with 0) under scaling, on the side its side became -/
theorem rmul_keeps_zero {n : Int} {e r : Equil α} (h : rmul n e = .ok r) (k : String) :
    ((k, 0) ∈ e.reac → (k, 0) ∈ (if n < 0 then r.prod else r.reac)) ∧
    ((k, 0) ∈ e.prod → (k, 0) ∈ (if n < 0 then r.reac else r.prod)) := Equilibria.rmul_keeps_zero h k

/-! ### success: when does the real code return an equilibrium (and not raise)? -/

/-- `n * e` returns an equilibrium **iff** `n ≠ 0`, `e` has a net effect and no `0 ** negative` is needed -/
theorem rmul_ok_iff (n : Int) (e : Equil α) :
    (∃ r, rmul n e = .ok r) ↔ n ≠ 0 ∧ (∃ k, e.net k ≠ 0) ∧ (n < 0 → e.K ≠ some 0) := rmul_isOk n e

/-- `m * e` / `e * m` for an ARBITRARY Python object `m`, described by what `__rmul__` inspects of it (`PyMul`: its `is_integer`
    attribute — missing, a callable with its result, or a plain value —, `isinstance(m, int)`, its numeric value) and telling the
    truth about itself (`Sound`: accepted ⇒ integral value): an equilibrium is returned **iff** the code's `other_is_int` test accepts
    `m` (`PyMul.accepted`: missing → `isinstance int`; callable → its result; else its truthiness), its integer value is not 0,
    `e` has a net effect and no `0 ** negative` is needed; everything else is refused. -/
theorem scaling_by_object_ok_iff (m : PyMul) (e : Equil α) (hs : m.Sound) :
    (∃ r, rmulMul m e = .ok r) ↔
      m.accepted = true ∧ m.val.num ≠ 0 ∧ (∃ k, e.net k ≠ 0) ∧ (m.val.num < 0 → e.K ≠ some 0) := rmulMul_isOk m e hs

/-- and then the multiplier IS an integer `n`, the stoichiometry is scaled by `n` and the constant raised to the same `n`
    (the consistency that `2.5 * e` = "stoichiometry ×2, K^2.5" violated before /repo 02113cf) -/
theorem scaling_by_object_result (m : PyMul) (e r : Equil α) (hs : m.Sound) (h : rmulMul m e = .ok r) :
    (m.val : Rat) = (m.val.num : Rat) ∧ (∀ k, r.net k = m.val.num * e.net k) ∧ r.K = e.K.map (fun K => K ^ m.val.num) :=
  rmulMul_result m e r hs h

/-- the constructor with its default checks returns an equilibrium **iff** no coefficient is negative (0 is accepted) and
    some species has a non-zero net coefficient (inactive parts included) -/
theorem constructor_ok_iff (d : Bool) (r p ir ip : List (String × Int)) (K : Option α) :
    (∃ e, mkEqChecks d r p ir ip K none none = .ok e) ↔
      (∀ kv ∈ r ++ p ++ ir ++ ip, 0 ≤ kv.2) ∧ ∃ k, getI p k - getI r k + getI ip k - getI ir k ≠ 0 :=
  mkEqChecks_default d r p ir ip K

/-- the constructor with ANY `checks` / `dont_check` arguments (coefficients ≥ 0): returns **iff** not both arguments are given,
    every requested check exists, and — when `any_effect` is among the checks run (`checkNames` = `checks`, or the defaults
    with `dont_check` toggled) — some species has a non-zero net coefficient -/
theorem constructor_checks_ok_iff (d : Bool) (r p ir ip : List (String × Int)) (K : Option α) (cs dc : Option (List String))
    (hall : ∀ kv ∈ r ++ p ++ ir ++ ip, 0 ≤ kv.2) :
    (∃ e, mkEqChecks d r p ir ip K cs dc = .ok e) ↔
      ¬ (cs.isSome = true ∧ dc.isSome = true) ∧ (∀ c ∈ checkNames cs dc, c ∈ defaultChecks) ∧
      ("any_effect" ∈ checkNames cs dc → ∃ k, getI p k - getI r k + getI ip k - getI ir k ≠ 0) :=
  mkEqChecks_isOk d r p ir ip K cs dc hall

/-- the model's one artificial outcome `!negative-unchecked` (Python stores a negative coefficient there, the model's containers
    cannot) occurs exactly when the arguments are otherwise accepted, `all_positive` is not among the checks run and some
    coefficient is negative; everywhere else (in particular under the hypothesis of `constructor_checks_ok_iff`) it is never used -/
theorem negative_unchecked_region (d : Bool) (r p ir ip : List (String × Int)) (K : Option α) (cs dc : Option (List String)) :
    mkEqChecks d r p ir ip K cs dc = .error "!negative-unchecked" ↔
      ¬ (cs.isSome = true ∧ dc.isSome = true) ∧ (∀ c ∈ checkNames cs dc, c ∈ defaultChecks) ∧
      "all_positive" ∉ checkNames cs dc ∧ ∃ kv ∈ r ++ p ++ ir ++ ip, kv.2 < 0 :=
  negative_unchecked_iff d r p ir ip K cs dc

/-- `a + b` returns an equilibrium **iff** both or neither operand has a constant and some species does not cancel -/
theorem add_ok_iff (a b : Equil α) :
    (∃ r, add a b = .ok r) ↔ (a.K = none ↔ b.K = none) ∧ ∃ k, a.activeNet k + b.activeNet k ≠ 0 := add_isOk a b

/-- `a - b` returns an equilibrium **iff** `b` can be reversed (net effect, constant not 0), both or neither have a
    constant, and some species does not cancel -/
theorem sub_ok_iff (a b : Equil α) :
    (∃ r, sub a b = .ok r) ↔
      (∃ k, b.net k ≠ 0) ∧ b.K ≠ some 0 ∧ (a.K = none ↔ b.K = none) ∧ ∃ k, a.activeNet k - b.activeNet k ≠ 0 :=
  sub_isOk a b

/-- Every expression over operands without inactive parts evaluates to an equilibrium **iff** the closed-form condition
    `EqExpr.Okay` on its operands holds (Proofs/Equilibria.lean): at every scaling node `n ≠ 0`, the integer combination
    `Σ nᵢ·net eᵢ` below the node is not identically zero and, for `n < 0`, no operand constant below is 0; at every sum /
    difference none or all operands have a constant and the combination does not vanish (for a difference the subtrahend
    must also be reversible). Together with `combo_spec` this says: the expression yields an equilibrium exactly then,
    and that equilibrium is the stated combination. -/
theorem expr_ok_iff (t : EqExpr α) (hl : ∀ p ∈ t.terms, p.1.NoInact) :
    (∃ r, t.eval = .ok r) ↔ t.Okay := eval_isOk t hl

/-! ### histories that use the same objects again -/

/-- Histories `v_k := n*v_i | -v_i | v_i + v_j | v_i - v_j` over a pool of operand objects, every statement free to use any operand
    and any earlier result again: whatever a statement returns is the integer combination / constant product of the operands
    of the expression tree it denotes (`combo_spec` transferred through the bridging lemma `runHistory_unfold`, which is
    let-inlining in the pure model). That the REAL objects are not changed by being used is not a theorem
    (`clauses_without_theorem`: `history` correspondence + the oracle's object-unchanged check). -/
theorem history_combo (pool : List (Equil α)) (steps : List Step) (ts : List (EqExpr α))
    (h : unfoldHistory (pool.map EqExpr.leaf) steps = some ts) (i : Nat) (t : EqExpr α) (r : Equil α)
    (ht : ts[i]? = some t) (hr : (runHistory (pool.map Except.ok) steps)[i]? = some (.ok r))
    (hl : ∀ p ∈ t.terms, p.1.NoInact) :
    (∀ k, r.net k = (t.terms.map (fun p => p.2 * p.1.net k)).sum) ∧
    (((∀ p ∈ t.terms, p.1.K = none) ∧ r.K = none) ∨
     ((∀ p ∈ t.terms, p.1.K ≠ none) ∧ r.K = some ((t.terms.map (fun p => Kof p.1 ^ p.2)).prod))) := by
  have hrun := runHistory_unfold steps (pool.map EqExpr.leaf) ts h
  have hmap : (pool.map EqExpr.leaf).map EqExpr.eval = pool.map Except.ok := by
    simp [List.map_map, Function.comp_def, EqExpr.eval]
  rw [hmap] at hrun
  rw [hrun, List.getElem?_map, ht] at hr
  simp only [Option.map_some, Option.some.injEq] at hr
  obtain ⟨h1, _, h3⟩ := combo_eval t r hr hl
  exact ⟨h1, h3⟩

/-! ### eliminate -/

/-- `primeFactors` (the model of `sympy.primefactors`' result) is exactly the set of primes dividing `n` -/
theorem primeFactors_spec (n p : Nat) : p ∈ primeFactors n ↔ p.Prime ∧ p ∣ n ∧ n ≠ 0 := mem_primeFactors n p

/-- `primeFactors` is strictly ascending (sorted, no repetition), as `sympy.primefactors` returns its list -/
theorem primeFactors_ascending (n : Nat) : (primeFactors n).Pairwise (· < ·) := primeFactors_sorted n

/-- the (not least) common multiple `∏ f^max|v//f|` computed by `eliminate` is a positive multiple of every non-zero `|v|` -/
theorem rcd_common_multiple (viol : List Int) :
    0 < rcdOf (factorsOf viol) ∧ ∀ v ∈ viol, v ≠ 0 → v.natAbs ∣ rcdOf (factorsOf viol) :=
  ⟨rcdOf_pos _ (factorsOf_keys_pos _), fun v hv h0 => natAbs_dvd_rcd viol v hv h0⟩

/-- For two equilibria with non-zero net coefficients of `wrt` (any signs, any magnitudes, ±1 included):
    `eliminate` returns two non-zero integers `m₁, m₂` with `m₁·ν₁ + m₂·ν₂ = 0`; and whenever
    `m₁*e₁ + m₂*e₂` evaluates (operands without inactive parts), `wrt` has net coefficient 0 and is listed on
    neither side of the result. -/
theorem eliminate_spec (e1 e2 : Equil α) (wrt : String) (h1 : e1.net wrt ≠ 0) (h2 : e2.net wrt ≠ 0) :
    ∃ m1 m2 : Int, eliminate [e1, e2] wrt = .ok [m1, m2] ∧ m1 ≠ 0 ∧ m2 ≠ 0 ∧
      m1 * e1.net wrt + m2 * e2.net wrt = 0 ∧
      ∀ r1 r2 r, e1.NoInact → e2.NoInact → rmul m1 e1 = .ok r1 → rmul m2 e2 = .ok r2 → add r1 r2 = .ok r →
        r.net wrt = 0 ∧ wrt ∉ keysOf r.reac ∧ wrt ∉ keysOf r.prod ∧ wrt ∉ r.keys := by
  obtain ⟨m1, m2, he, hm1, hm2, hz⟩ := eliminate_pair e1 e2 wrt h1 h2
  exact ⟨m1, m2, he, hm1, hm2, hz, fun r1 r2 r hn1 hn2 hr1 hr2 hr =>
    eliminate_combination hz hn1 hn2 hr1 hr2 hr⟩

/-- `eliminate` returns multipliers **iff** it gets at least one equilibrium and each has a non-zero net coefficient of the species
    (`IndexError` for none, `ZeroDivisionError` otherwise) -/
theorem eliminate_ok_iff (rs : List (Equil α)) (wrt : String) :
    (∃ ms, eliminate rs wrt = .ok ms) ↔ rs ≠ [] ∧ ∀ e ∈ rs, e.net wrt ≠ 0 := eliminate_isOk rs wrt

/-- any number of equilibria: one non-zero integer each, and the first combined with any other removes the species -/
theorem eliminate_n (e0 : Equil α) (es : List (Equil α)) (wrt : String)
    (h0 : e0.net wrt ≠ 0) (h : ∀ e ∈ es, e.net wrt ≠ 0) :
    ∃ (m0 : Int) (ms : List Int), eliminate (e0 :: es) wrt = .ok (m0 :: ms) ∧ m0 ≠ 0 ∧
      List.Forall₂ (fun m e => m ≠ 0 ∧ m0 * e0.net wrt + m * e.net wrt = 0) ms es := eliminate_many e0 es wrt h0 h

/-- when does the combination `m₁*e₁ + m₂*e₂` with the multipliers of `eliminate` evaluate (the condition under which the last
    clause of `eliminate_spec` speaks)? Exactly when no zero constant is put under a negative power, both or neither operand has
    a constant, and the two equilibria do not cancel completely. -/
theorem eliminate_combination_ok_iff (e1 e2 : Equil α) (wrt : String) (m1 m2 : Int)
    (h1 : e1.net wrt ≠ 0) (h2 : e2.net wrt ≠ 0) (he : eliminate [e1, e2] wrt = .ok [m1, m2]) :
    (∃ r1 r2 r, rmul m1 e1 = .ok r1 ∧ rmul m2 e2 = .ok r2 ∧ add r1 r2 = .ok r) ↔
      (m1 < 0 → e1.K ≠ some 0) ∧ (m2 < 0 → e2.K ≠ some 0) ∧ (e1.K = none ↔ e2.K = none) ∧
      ∃ k, m1 * e1.activeNet k + m2 * e2.activeNet k ≠ 0 := by
  obtain ⟨m1', m2', he', hm1, hm2, _⟩ := eliminate_pair e1 e2 wrt h1 h2
  rw [he] at he'
  injection he' with he'
  injection he' with e1' e2'
  injection e2' with e2' _
  subst e1'; subst e2'
  exact combination_isOk e1 e2 m1 m2 hm1 hm2 ⟨wrt, h1⟩ ⟨wrt, h2⟩

/-! ### cancel / intdiv, as_reactions -/

/-- `intdiv` rounds toward zero: it is truncated division, so `|q·r| ≤ |p|`, the remainder has the sign of `p`
    and is smaller than `|q|`. -/
theorem intdiv_spec (p q : Int) (hq : q ≠ 0) :
    intdiv p q = Int.tdiv p q ∧
    (intdiv p q * q + Int.tmod p q = p ∧ (Int.tmod p q).natAbs < q.natAbs ∧ (0 ≤ p → 0 ≤ Int.tmod p q) ∧ (p ≤ 0 → Int.tmod p q ≤ 0)) := by
  rw [intdiv_eq_tdiv p q hq]
  refine ⟨rfl, Int.tdiv_mul_add_tmod p q, ?_, fun hp => Int.tmod_nonneg q hp, fun hp => ?_⟩
  · rw [Int.natAbs_tmod]
    exact Nat.mod_lt _ (by omega)
  · have := Int.tmod_nonneg q (show 0 ≤ -p by omega)
    rw [Int.neg_tmod] at this
    omega

/-- `cancel` (supporting, not part of the property text): for the iteration order `ks` of `rxn.keys()` the result is
    `intdiv(-ν_self(k), ν_rxn(k))` for some key `k`, of least absolute value among all keys (so its absolute value does
    not depend on the set order; its sign can, on ties); `inf` (`none`) exactly for an empty key set; a key of `rxn`
    with net coefficient 0 makes the real code raise `ZeroDivisionError` instead. -/
theorem cancel_spec {self rxn : Equil α} {ks : List String} {c : Option Int}
    (h : cancelWith self rxn ks = .ok c) :
    (∀ k ∈ ks, rxn.net k ≠ 0) ∧ (c = none ↔ ks = []) ∧
    (∀ r, c = some r → (∃ k ∈ ks, r = intdiv (-(self.net k)) (rxn.net k)) ∧
        ∀ k ∈ ks, r.natAbs ≤ (intdiv (-(self.net k)) (rxn.net k)).natAbs) := cancelWith_ok h

/-- `cancel` returns (does not raise `ZeroDivisionError`) **iff** every species of `rxn` has a non-zero net coefficient in `rxn` -/
theorem cancel_ok_iff (self rxn : Equil α) (ks : List String) :
    (∃ c, cancelWith self rxn ks = .ok c) ↔ ∀ k ∈ ks, rxn.net k ≠ 0 := cancelWith_isOk self rxn ks

/-- `cancel` iterates over the SET `rxn.keys()`: neither whether it returns nor the magnitude of what it returns depends on the
    iteration order (two orders = a permutation); only the sign can differ, on ties (notes finding 3) -/
theorem cancel_order_independent (self rxn : Equil α) {ks ks' : List String} (hp : ks.Perm ks') :
    ((∃ c, cancelWith self rxn ks = .ok c) ↔ ∃ c, cancelWith self rxn ks' = .ok c) ∧
    ∀ c c', cancelWith self rxn ks = .ok c → cancelWith self rxn ks' = .ok c' → c.map Int.natAbs = c'.map Int.natAbs :=
  ⟨cancelWith_isOk_perm self rxn hp, fun _ _ h h' => cancelWith_natAbs_perm hp h h'⟩

/-- `as_reactions` returns the pair **iff**: a rate constant with units comes with a `units` module; exactly one of `kf`, `kb`
    is given; the equilibrium has a constant `K`; `c0 ** (nb − nf)` is defined (`c0 ≠ 0` for a negative exponent `deltaN e`); the
    divisor `K · c0^(nb−nf)` is non-zero when `kf` is the given one; and the equilibrium has a net effect. -/
theorem asReactions_ok_iff (e : Equil α) (kf kb : Option α) (unitsGiven rateHasUnits : Bool) (c0 : α) :
    (∃ p, asReactionsPy e kf kb unitsGiven rateHasUnits c0 = .ok p) ↔
      (unitsGiven = true ∨ rateHasUnits = false) ∧ (kf.isSome = !kb.isSome) ∧
      (∃ K, e.K = some K ∧ (deltaN e < 0 → c0 ≠ 0) ∧ (kf.isSome = true → K * c0 ^ deltaN e ≠ 0)) ∧
      ∃ k, e.net k ≠ 0 := by
  unfold asReactionsPy
  by_cases h : (!unitsGiven && rateHasUnits) = true
  · rw [if_pos h]
    have h' : unitsGiven = false ∧ rateHasUnits = true := by simpa using h
    constructor
    · rintro ⟨p, hp⟩; cases hp
    · rintro ⟨h1 | h1, _⟩
      · rw [h'.1] at h1; cases h1
      · rw [h'.2] at h1; cases h1
  · rw [if_neg h, asReactions_isOk]
    have h' : unitsGiven = true ∨ rateHasUnits = false := by
      cases unitsGiven <;> cases rateHasUnits <;> simp at h ⊢
    exact ⟨fun hx => ⟨h', hx⟩, fun hx => hx.2⟩

/-- `as_reactions`: the pair is the forward and the backward direction of the equilibrium (inactive parts
    included) and the rate constants satisfy `kf = kb · K · c₀^(nb − nf)`, the given one being kept. -/
theorem asReactions_spec {e : Equil α} {kf kb : Option α} {c0 : α} {f b : Rxn α}
    (h : asReactions e kf kb c0 = .ok (f, b)) :
    (f.reac = e.reac ∧ f.prod = e.prod ∧ f.inactReac = e.inactReac ∧ f.inactProd = e.inactProd) ∧
    (b.reac = e.prod ∧ b.prod = e.reac ∧ b.inactReac = e.inactProd ∧ b.inactProd = e.inactReac) ∧
    ∃ K, e.K = some K ∧
      f.k = b.k * (K * c0 ^ (((sumVals e.prod : Nat) : Int) - ((sumVals e.reac : Nat) : Int))) ∧
      ((kf = some f.k ∧ kb = none ∧ K * c0 ^ (((sumVals e.prod : Nat) : Int) - ((sumVals e.reac : Nat) : Int)) ≠ 0)
        ∨ (kf = none ∧ kb = some b.k)) := asReactions_ok h

/-! ### non-vacuity: the hypotheses are satisfiable, and the generic theorems apply to the ℚ-instance the driver runs -/

section examples
/-- 4 Cd+2 + 4 H2O = Cd4(OH)4+4 + 4 H+ ; K = 3/2 -/
def exA : Equil Rat := ⟨[("Cd+2", 4), ("H2O", 4)], [("Cd4(OH)4+4", 1), ("H+", 4)], [], [], some (3/2 : Rat)⟩
/-- Cd(OH)2(s) = Cd+2 + 2 OH- ; K = 5/7 -/
def exB : Equil Rat := ⟨[("Cd(OH)2(s)", 1)], [("Cd+2", 1), ("OH-", 2)], [], [], some (5/7 : Rat)⟩
/-- H2O = H+ + OH- ; K = 1/10^14 -/
def exW : Equil Rat := ⟨[("H2O", 1)], [("H+", 1), ("OH-", 1)], [], [], some (1/100000000000000 : Rat)⟩
def errOf {β : Type} : Except String β → Option String
  | .ok _ => none
  | .error s => some s
def isOk {β : Type} : Except String β → Bool
  | .ok _ => true
  | .error _ => false

example : isOk (rmul (-2) exA) = true := by decide +kernel
example : isOk (add exA exB) = true ∧ isOk (sub exA exW) = true := by decide +kernel
example : exA.NoInact ∧ exB.NoInact := ⟨⟨rfl, rfl⟩, ⟨rfl, rfl⟩⟩
/-- the README history `1*e1 + 4*e2 - 4*w` evaluates -/
example : isOk (EqExpr.eval (.sub (.add (.scale 1 (.leaf exA)) (.scale 4 (.leaf exB))) (.scale 4 (.leaf exW)))) = true := by
  decide +kernel
example : eliminate [exA, exB] "Cd+2" = .ok [1, 4] := by decide +kernel
example : exA.net "Cd+2" ≠ 0 ∧ exB.net "Cd+2" ≠ 0 := by decide +kernel
/-- all coefficients ±1 (the case that used to raise `TypeError`) -/
example : eliminate [(⟨[("A", 1)], [("B", 1)], [], [], some 2⟩ : Equil Rat), ⟨[("B", 1)], [("C", 1)], [], [], some 3⟩] "B"
    = .ok [-1, -1] := by decide +kernel
example : isOk (asReactions exA (some 3) none (1 : Rat)) = true ∧ isOk (asReactions exA none (some 3) (3/2 : Rat)) = true := by
  decide +kernel
/-- the generic theorems instantiate at ℚ with the instances the driver runs -/
example (r : Equil Rat) (h : rmul (-2) exA = .ok r) : r.net "H+" = -8 := by
  rw [net_rmul h "H+"]; decide +kernel
/-- zero coefficients are accepted by the constructor and survive scaling: `2 * ({A: 0, B: 1} = {C: 1})` lists `A: 0` -/
example : (rmul 2 (⟨[("A", 0), ("B", 1)], [("C", 1)], [], [], some 3⟩ : Equil Rat)).toOption.map (·.reac)
    = some [("A", 0), ("B", 2)] := by decide +kernel
/-- a history re-using objects: s = a + b; t = s - a  (the second statement uses `a` again) -/
example : (runHistory [.ok exA, .ok exB] [.add 0 1, .sub 2 0]).map isOk = [true, true, true, true] := by decide +kernel
/-- an operand without net effect exists (built with `checks=()`); scaling it is refused (the "net effect" clause of `rmul_ok_iff` is not vacuous) -/
example : (mkEqChecks true [("A", 1)] [("A", 1)] [] [] (some (2 : Rat)) (some []) none).toOption.map (fun e => (isOk (rmul 3 e), e.anyEffect))
    = some (false, false) := by decide +kernel
/-- constructor refusals: negative coefficient, no effect, `checks` and `dont_check` together, unknown check name -/
example : errOf (mkEqChecks true [("A", -1)] [("B", 1)] [] [] (some (2 : Rat)) none none) = some "ValueError" ∧
    errOf (mkEqChecks true [("A", 1)] [("A", 1)] [] [] (some (2 : Rat)) none none) = some "ValueError" ∧
    errOf (mkEqChecks true [("A", 1)] [("B", 1)] [] [] (some (2 : Rat)) (some []) (some [])) = some "ValueError" ∧
    errOf (mkEqChecks true [("A", 1)] [("B", 1)] [] [] (some (2 : Rat)) none (some ["spelling"])) = some "AttributeError" ∧
    errOf (mkEqChecks true [("A", 0), ("B", 1)] [("C", 1)] [] [] (some (2 : Rat)) none none) = none := by decide +kernel
/-- a multiplier that is not an integer is refused; a rate constant with units without a `units` module too -/
example : errOf (rmulPy none exA) = some "TypeError" ∧ errOf (asReactionsPy exA (some 3) none false true (1 : Rat)) = some "ValueError" ∧
    errOf (asReactionsPy exA (some 3) none true true (1 : Rat)) = none := by decide +kernel
/-- expressions that are refused (`expr_ok_iff` is not vacuous on its negative side): complete cancellation, a zero constant reversed -/
example : errOf (EqExpr.eval (.sub (.leaf exA) (.leaf exA))) = some "ValueError" ∧
    errOf (EqExpr.eval (.neg (.leaf (⟨[("A", 1)], [("B", 1)], [], [], some 0⟩ : Equil Rat)))) = some "ZeroDivisionError" := by decide +kernel
example : ¬ (EqExpr.Okay (.sub (.leaf exA) (.leaf exA))) := by
  intro h
  obtain ⟨r, hr⟩ := (expr_ok_iff (.sub (.leaf exA) (.leaf exA)) (by intro p hp; simp [EqExpr.terms] at hp; rcases hp with hp | hp <;> (rw [hp]; exact ⟨rfl, rfl⟩))).2 h
  have : errOf (EqExpr.eval (.sub (.leaf exA) (.leaf exA))) = some "ValueError" := by decide +kernel
  rw [hr] at this; cases this
/-- three equilibria, and refusals of eliminate -/
example : eliminate [exA, exB, exA] "Cd+2" = .ok [1, 4, -1] ∧ errOf (eliminate ([] : List (Equil Rat)) "X") = some "IndexError" ∧
    errOf (eliminate [exA, exW] "Cd+2") = some "ZeroDivisionError" := by decide +kernel
/-- `as_reactions` refusals on the negative side of `asReactions_ok_iff`: both constants, none, no constant K, `0 ** negative`, division by K·c0^Δ = 0 -/
example : errOf (asReactionsPy exA (some 3) (some 4) true false (1 : Rat)) = some "ValueError" ∧
    errOf (asReactionsPy exA none none true false (1 : Rat)) = some "ValueError" ∧
    errOf (asReactionsPy { exA with K := (none : Option Rat) } none (some 3) true false (1 : Rat)) = some "TypeError" ∧
    errOf (asReactionsPy (⟨[("A", 2)], [("B", 1)], [], [], some (2 : Rat)⟩) (some 3) none true false (0 : Rat)) = some "ZeroDivisionError" ∧
    errOf (asReactionsPy { exA with K := some (0 : Rat) } (some 3) none true false (1 : Rat)) = some "ZeroDivisionError" := by decide +kernel
/-- checks arguments: explicit subset accepted without net effect; the unrepresentable region -/
example : errOf (mkEqChecks true [("A", 1)] [("A", 1)] [] [] (some (2 : Rat)) (some ["all_positive"]) none) = none ∧
    errOf (mkEqChecks true [("A", -1)] [("B", 1)] [] [] (some (2 : Rat)) none (some ["all_positive"])) = some "!negative-unchecked" := by
  decide +kernel
/-- multipliers as Python objects: `2`, `True`, `numpy.int64(-3)`, `2.0`, `Fraction(4, 2)` (callable `is_integer` returning True),
    `sympy.Integer(2)` (attribute True) are accepted; `2.5`, `Fraction(5, 2)` (callable, False), `sympy.Rational(5, 2)` (False),
    `sympy.Symbol` (None), `'2'` / `None` / `Decimal` (no attribute, not an int) are refused; the unfixed reading of `2.5`
    (a callable taken as truthy) is not `Sound` -/
example : ((⟨.method true, true, 2⟩ : PyMul).accepted ∧ (⟨.method true, false, 2⟩ : PyMul).accepted ∧ (⟨.value (some true), false, 2⟩ : PyMul).accepted) ∧
    (¬ (⟨.method false, false, 5/2⟩ : PyMul).accepted ∧ ¬ (⟨.value (some false), false, 5/2⟩ : PyMul).accepted ∧
     ¬ (⟨.value none, false, 0⟩ : PyMul).accepted ∧ ¬ (⟨.missing, false, 0⟩ : PyMul).accepted) := by decide +kernel
example : (⟨.method true, false, -2⟩ : PyMul).Sound ∧ ¬ (⟨.method true, false, 5/2⟩ : PyMul).Sound := by
  constructor
  · intro _; decide +kernel
  · intro h; exact absurd (h (by decide +kernel)) (by decide +kernel)
example : isOk (rmulMul ⟨.method true, false, -2⟩ exA) = true ∧ errOf (rmulMul ⟨.method false, false, 5/2⟩ exA) = some "TypeError" := by decide +kernel
example : (primeFactors 360 = [2, 3, 5]) ∧ isOk (cancelWith exA exW ["H2O", "H+", "OH-"]) = true := by decide +kernel
example : intdiv (-7) 2 = -3 ∧ intdiv 7 (-2) = -3 ∧ intdiv (-7) (-2) = 3 := by decide +kernel
end examples

end ChemModel.C11
