/-
C09 — unit conversion is exact, reversible, and refuses incompatible dimensions.

Property theorems only (helper lemmas: Proofs/Units.lean; model: Model/Units.lean; generated tables: Gen/Units.lean).
All theorems hold for EVERY field `α` (ℚ, ℝ, …), every magnitude, every unit with non-zero factor and a
7-entry integer exponent vector, every registry whose entry `i` is a non-zero multiple of a unit of base dimension `i`.

Vocabulary: `v.si` = magnitude × unit factor (the physical value in SI), `v.dims` = exponent vector;
a plain Python number is dimensionless with factor 1.  `PyVal.WF`: the unit's factor is non-zero and its exponent
vector has 7 entries (no condition on a plain number).
-/
import ChemModel.Proofs.Units
import ChemModel.Proofs.UnitsHelpers
import ChemModel.Proofs.UnitsReal

set_option linter.unusedSectionVars false

namespace ChemModel.C09
open ChemModel ChemModel.Units

variable {α : Type} [Field α] [DecidableEq α]

/-! ## to_unitless -/

/-- **Exact ratio.** `to_unitless(q, u)` returns the magnitude times the exact ratio of the two units,
    `q.si / u.si = mag(q)·factor(q) / (mag(u)·factor(u))`, when the exponent vectors agree, and raises ValueError otherwise. -/
theorem toUnitless_spec (q u : PyVal α) (hq : q.WF) (hu : u.WF) (_hu0 : u.si ≠ 0) :
    toUnitlessScalar q u = if q.dims = u.dims then .ok (q.si / u.si) else .error .valueError :=
  toUnitlessScalar_eq q u hq hu

/-- **A target of magnitude 0 is not a unit** (`0*metre`): Python computes `inf`/`nan` without raising.  The model's entry point
    `to_unitless(value, new_unit)` answers with the explicit token `nonFinite` — never with a number (in particular never with
    the `x/0 = 0` of field division) — and is the element-wise conversion for every other target (`None` = `pq.dimensionless`).
    This is why every theorem about the conversion carries `u.si ≠ 0` (magnitude and unit factor non-zero). -/
theorem zero_magnitude_target_is_not_a_number (v : Val α) (u : PyVal α) :
    (u.magnitude = 0 → (∀ r, toUnitlessOpt v (some u) ≠ .ok r) ∧
      (∀ r, toUnitless v u = .ok r → toUnitlessOpt v (some u) = .error .nonFinite) ∧
      (∀ e, toUnitless v u = .error e → toUnitlessOpt v (some u) = .error e)) ∧
    (u.magnitude ≠ 0 → toUnitlessOpt v (some u) = toUnitless v u) ∧
    toUnitlessOpt v none = toUnitless v (.qty Quantity.dimensionless) ∧
    (u.WF → (u.si ≠ 0 ↔ u.magnitude ≠ 0)) := by
  refine ⟨?_, ?_, ?_, ?_⟩
  · intro h
    cases hr : toUnitless v u <;> simp [toUnitlessOpt, targetNonDegenerate, h, hr]
  · intro h
    cases hr : toUnitless v u <;> simp [toUnitlessOpt, targetNonDegenerate, h, hr]
  · cases hr : toUnitless v (.qty (Quantity.dimensionless : Quantity α)) <;>
      simp [toUnitlessOpt, targetNonDegenerate, Quantity.dimensionless, PyVal.magnitude, hr] <;>
      simp [Quantity.dimensionless] at hr <;> simp [hr]
  · intro hu
    cases u with
    | num x => simp [PyVal.magnitude]
    | qty q => simp [PyVal.magnitude, hu.factor_ne]

/-- **Refusal.** A number is returned iff the target is dimensionally compatible; otherwise the call raises (ValueError),
    it never returns a number. -/
theorem refuses_iff_incompatible (q u : PyVal α) (hq : q.WF) (hu : u.WF) (_hu0 : u.si ≠ 0) :
    (toUnitlessScalar q u = .error .valueError ↔ q.dims ≠ u.dims) ∧
    ((∃ x, toUnitlessScalar q u = .ok x) ↔ q.dims = u.dims) := by
  rw [toUnitlessScalar_eq q u hq hu]
  by_cases h : q.dims = u.dims <;> simp [h]

/-- **Round trip.** Multiplying the unitless number back by the target unit reproduces the original quantity
    (same physical value, same dimension). -/
theorem roundtrip (q u : PyVal α) (hq : q.WF) (hu : u.WF) (hu0 : u.si ≠ 0) (x : α)
    (h : toUnitlessScalar q u = .ok x) :
    (timesUnit x u).si = q.si ∧ (timesUnit x u).dims = q.dims := by
  obtain ⟨hd, rfl⟩ := (toUnitlessScalar_ok_iff hq hu x).mp h
  refine ⟨?_, by rw [timesUnit_dims, hd]⟩
  rw [timesUnit_si]; field_simp

/-- **Composition.** Converting `q` to `u` and `u` to `w` multiplies to converting `q` to `w` directly. -/
theorem compose (q u w : PyVal α) (hq : q.WF) (hu : u.WF) (hw : w.WF) (hu0 : u.si ≠ 0) (a b : α)
    (h1 : toUnitlessScalar q u = .ok a) (h2 : toUnitlessScalar u w = .ok b) :
    toUnitlessScalar q w = .ok (a * b) := by
  obtain ⟨hd1, rfl⟩ := (toUnitlessScalar_ok_iff hq hu a).mp h1
  obtain ⟨hd2, rfl⟩ := (toUnitlessScalar_ok_iff hu hw b).mp h2
  refine (toUnitlessScalar_ok_iff hq hw _).mpr ⟨hd1.trans hd2, ?_⟩
  field_simp

/-- **Linearity.** Scaling the quantity scales the result; the result of a sum (as `quantities` adds: in the unit of the
    left operand) is the sum of the results. -/
theorem linear (q q' u : PyVal α) (hq : q.WF) (hq' : q'.WF) (hu : u.WF) (_hu0 : u.si ≠ 0) (c x x' : α)
    (h : toUnitlessScalar q u = .ok x) (h' : toUnitlessScalar q' u = .ok x') :
    toUnitlessScalar ((PyVal.num c).mul q) u = .ok (c * x) ∧
    ∀ s, addLike (· + ·) q q' = .ok s → toUnitlessScalar s u = .ok (x + x') := by
  obtain ⟨hd, rfl⟩ := (toUnitlessScalar_ok_iff hq hu x).mp h
  obtain ⟨hd', rfl⟩ := (toUnitlessScalar_ok_iff hq' hu x').mp h'
  constructor
  · refine (toUnitlessScalar_ok_iff (scale_wf c hq) hu _).mpr ⟨by rw [scale_dims, hd], ?_⟩
    rw [scale_si]; ring
  · intro s hs
    obtain ⟨_, hsd, hss, hsw⟩ := addLike_ok hq hq' hs (fun x y c => by ring)
    refine (toUnitlessScalar_ok_iff hsw hu _).mpr ⟨by rw [hsd, hd], ?_⟩
    rw [hss]; ring

/-- **Element-wise (lists, tuples, arrays, dicts, nesting).** `to_unitless` of a flat container succeeds with `xs` iff every
    element converts to the corresponding entry of `xs`, and fails with the exception of the FIRST failing element (iteration order); at every level of
    a nested container a list converts iff each member converts (same order), a dict iff each value converts (same keys, same
    order).  (The four defining equations of the recursion — atom, str → ValueError, list, dict — are `toUnitless_atom`, `_str`,
    `_list`, `_dict` in Proofs/UnitsHelpers.) -/
theorem elementwise_containers (u : PyVal α) :
    (∀ (l : List (PyVal α)) xs, toUnitlessFlat l u = .ok xs ↔ List.Forall₂ (fun v x => toUnitlessScalar v u = .ok x) l xs) ∧
    (∀ (l : List (PyVal α)) e, toUnitlessFlat l u = .error e → ∃ v ∈ l, toUnitlessScalar v u = .error e) ∧
    (∀ (pre post : List (PyVal α)) v e, (∀ a ∈ pre, ∃ x, toUnitlessScalar a u = .ok x) → toUnitlessScalar v u = .error e →
      toUnitlessFlat (pre ++ v :: post) u = .error e) ∧
    (∀ l rs, toUnitlessList l u = .ok rs ↔ List.Forall₂ (fun v r => toUnitless v u = .ok r) l rs) ∧
    (∀ d rs, toUnitlessDict d u = .ok rs ↔
      List.Forall₂ (fun (p : String × Val α) (r : String × Res α) => p.1 = r.1 ∧ toUnitless p.2 u = .ok r.2) d rs) :=
  ⟨fun l => toUnitlessFlat_ok_iff l u, fun _ _ h => toUnitlessFlat_error h,
   fun pre post v e hpre hv => toUnitlessFlat_first_error pre post v u e hpre hv, toUnitlessList_ok_iff u, toUnitlessDict_ok_iff u⟩

/-- **Composition and linearity, element-wise.** For a flat container (list, tuple, array): converting to `u` and multiplying by the
    conversion of `u` to `w` is converting to `w` directly; scaling every element by `c` scales every result by `c`. -/
theorem compose_linear_containers (l : List (PyVal α)) (u w : PyVal α) (hl : ∀ a ∈ l, a.WF) (hu : u.WF) (hw : w.WF) (hu0 : u.si ≠ 0)
    (xs : List α) (h1 : toUnitlessFlat l u = .ok xs) :
    (∀ b, toUnitlessScalar u w = .ok b → toUnitlessFlat l w = .ok (xs.map (· * b))) ∧
    (∀ c, toUnitlessFlat (l.map fun a => (PyVal.num c).mul a) u = .ok (xs.map (c * ·))) :=
  ⟨fun b h2 => toUnitlessFlat_compose l u w hl hu hw hu0 xs b h1 h2, fun c => toUnitlessFlat_scale l u hl hu c xs h1⟩

/-- **Plain numeric arrays** (after fix 005cbe4). A plain `np.ndarray` is converted exactly like the list of its elements, for
    EVERY target: each element `x` becomes `x / u.si` when `u` is dimensionless (scaled ratios such as cm/m, km/m included),
    and the call raises ValueError when `u` carries a dimension (non-empty array).  The `return value` shortcut is taken only
    when `u.si = 1`, where it coincides with the element-wise result. -/
theorem elementwise_ndarray (xs : List α) (u : PyVal α) (hu : u.WF) (_hu0 : u.si ≠ 0) :
    toUnitless (.ndarray xs) u = (toUnitlessFlat (xs.map .num) u).map (fun ys => Res.list (ys.map .num)) ∧
    (u.dims = Dims.zero → toUnitless (.ndarray xs) u = .ok (.list (xs.map fun x => .num (x / u.si)))) ∧
    (u.dims ≠ Dims.zero → xs ≠ [] → toUnitless (.ndarray xs) u = .error .valueError) := by
  have h := toUnitless_ndarray xs u hu
  have hw : ∀ a ∈ xs.map (PyVal.num (α := α)), a.WF := by
    intro a ha; obtain ⟨x, _, rfl⟩ := List.mem_map.mp ha; trivial
  obtain ⟨f1, f2⟩ := toUnitlessFlat_spec (xs.map .num) u hw hu
  refine ⟨h, ?_, ?_⟩
  · intro hd
    rw [h, f1 (by intro a ha; obtain ⟨x, _, rfl⟩ := List.mem_map.mp ha; simp [hd])]
    simp [Except.map, List.map_map, Function.comp]
  · intro hd hne
    obtain ⟨x, r, rfl⟩ := List.exists_cons_of_ne_nil hne
    rw [h, f2 ⟨.num x, by simp, by simpa using fun h' => hd h'.symm⟩]
    rfl

/-- **Object-dtype arrays** (any dimension ≥ 1; rows of a 2-D object array are object arrays again). They are NEVER handed back
    untouched: the array converts iff every element converts (same order, nesting preserved) and fails with a failing element's
    exception; for an object array of scalars every element becomes `si / u.si` when all elements have the dimension of the
    target `u` — whatever `u` is, including `1`, `None`/`pq.dimensionless` and scaled ratios such as cm/m — and one element of
    another dimension makes the call raise ValueError (so `[1 m, 2 km]` against `None` is refused, `[3 cm/m, 250 mm/m]` gives
    `[0.03, 0.25]`). -/
theorem elementwise_object_array (u : PyVal α) (hu : u.WF) (_hu0 : u.si ≠ 0) :
    (∀ (l : List (Val α)) r, toUnitless (.objarray l) u = .ok r ↔
      ∃ rs, r = .list rs ∧ List.Forall₂ (fun v x => toUnitless v u = .ok x) l rs) ∧
    (∀ (l : List (PyVal α)), (∀ a ∈ l, a.WF) →
      ((∀ a ∈ l, a.dims = u.dims) →
        toUnitless (.objarray (l.map Val.atom)) u = .ok (.list (l.map fun a => Res.num (a.si / u.si)))) ∧
      ((∃ a ∈ l, a.dims ≠ u.dims) → toUnitless (.objarray (l.map Val.atom)) u = .error .valueError)) :=
  ⟨toUnitless_objarray_ok_iff u, fun l hl => toUnitless_objarray_atoms l u hl hu⟩

/-- **0-d arrays** (after fix d893461). A zero-dimensional array — numeric, or object-dtype holding a quantity — is converted exactly
    like the scalar it holds: the same number for a compatible target (`x·factor ratio`), the same ValueError for an
    incompatible one.  (A numeric 0-d array holds a plain number: hypothesis `hnum`.) -/
theorem elementwise_zero_dimensional_array (isObject : Bool) (a u : PyVal α) (ha : a.WF) (hu : u.WF) (_hu0 : u.si ≠ 0)
    (hnum : isObject = false → ∃ x, a = .num x) :
    toUnitless (.zerod isObject a) u = (toUnitlessScalar a u).map Res.num ∧
    (a.dims = u.dims → toUnitless (.zerod isObject a) u = .ok (.num (a.si / u.si))) ∧
    (a.dims ≠ u.dims → toUnitless (.zerod isObject a) u = .error .valueError) := by
  have h := toUnitless_zerod isObject a u ha hu hnum
  refine ⟨h, ?_, ?_⟩
  · intro hd; rw [h, (toUnitlessScalar_ok_iff ha hu _).mpr ⟨hd, rfl⟩]; rfl
  · intro hd; rw [h, (toUnitlessScalar_error_iff ha hu _).mpr ⟨hd, rfl⟩]; rfl

/-- the seeded inputs: an object array of scaled ratios against `pq.dimensionless` is converted (0.03, 0.25), one of lengths is refused -/
example :
    let dl : PyVal ℚ := .qty Quantity.dimensionless
    (match toUnitless (.objarray [.atom (.qty ⟨3, ⟨1/100, Dims.zero⟩⟩), .atom (.qty ⟨250, ⟨1/1000, Dims.zero⟩⟩)]) dl with
      | .ok (.list [.num x, .num y]) => some (x, y) | _ => none) = some (3/100, 1/4) ∧
    (match toUnitless (.objarray [.atom (.qty ⟨1, ⟨1, Dims.basis 0⟩⟩), .atom (.qty ⟨2, ⟨1000, Dims.basis 0⟩⟩)]) dl with
      | .error .valueError => true | _ => false) = true := by
  decide +kernel

/-- the input on which the pinned code used to return the array unconverted (`to_unitless(np.array([790.]), cm/m)`): now 79000,
    as for the scalar and the list -/
example :
    let pct : PyVal ℚ := .qty ⟨1, ⟨1/100, Dims.zero⟩⟩
    (match toUnitless (.ndarray [790]) pct with | .ok (.list [.num x]) => some x | _ => none) = some 79000 ∧
    toUnitlessScalar (.num 790) pct = .ok 79000 ∧
    (match toUnitless (.ndarray [790]) (.qty ⟨1, ⟨1, Dims.zero⟩⟩ : PyVal ℚ) with | .ok (.list [.num x]) => some x | _ => none) = some 790 := by
  decide +kernel

/-! ## dimensionality, registries, derived units -/

/-- `get_physical_dimensionality` reports exactly the non-zero exponents of the quantity's dimension; `{}` iff it is unitless.
    For a list/tuple/array of quantities of ONE dimension it reports that dimension (mixed dimensions → ValueError).  For a dict
    the code only supports the unitless case (`{}`); a dimensional dict is an AttributeError (mirrored, not a property clause). -/
theorem physical_dimensionality_spec :
    (∀ (v : PyVal α), v.WF →
      getPhysicalDimensionality (.scalar v) = .ok (dimItems 0 v.dims) ∧
      (dimItems 0 v.dims = [] ↔ v.dims = Dims.zero) ∧ (isUnitless (.atom v) = true ↔ v.dims = Dims.zero)) ∧
    (∀ (h : PyVal α) (t : List (PyVal α)), (∀ a ∈ h :: t, a.WF) →
      ((∀ a ∈ t, a.dims = h.dims) → getPhysicalDimensionality (.list (h :: t)) = .ok (dimItems 0 h.dims)) ∧
      ((∃ a ∈ t, a.dims ≠ h.dims) → getPhysicalDimensionality (.list (h :: t)) = .error .valueError)) ∧
    (∀ (d : List (String × PyVal α)),
      ((∀ p ∈ d, p.2.dims = Dims.zero) → getPhysicalDimensionality (.dict d) = .ok []) ∧
      ((∃ p ∈ d, p.2.dims ≠ Dims.zero) → getPhysicalDimensionality (.dict d) = .error .attributeError)) :=
  ⟨getPhysicalDimensionality_scalar, getPhysicalDimensionality_list, getPhysicalDimensionality_dict⟩

/-- **Registry consistency.** For EVERY base-unit registry (entry `i` a non-zero multiple of a unit of base dimension `i`) and every
    quantity: the default unit exists, has the quantity's dimension and the SI value `∏ registry[i].si ^ dims[i]`
    (`regProd`); `unitless_in_registry` never refuses and returns `q.si` divided by that value; multiplying the two
    back reproduces the quantity. -/
theorem registry_consistent (reg : Registry α) (hreg : RegistryWF reg) (q : PyVal α) (hq : q.WF) :
    ∃ U x, defaultUnitInRegistry (.scalar q) reg = .ok U ∧ U.WF ∧
      U.dims = q.dims ∧ U.si = regProd reg q.dims ∧ U.si ≠ 0 ∧
      unitlessInRegistry (.scalar q) reg = .ok (.num x) ∧ x = q.si / U.si ∧
      (timesUnit x U).si = q.si ∧ (timesUnit x U).dims = q.dims :=
  registry_consistent_scalar reg hreg q hq

/-- **Registry consistency, element-wise.** For a list/tuple/array of quantities of one dimension: ONE default unit (as for a
    scalar of that dimension), every element divided by its SI value, and multiplying back reproduces every element; an
    element of another dimension makes both functions raise ValueError. -/
theorem registry_consistent_containers (reg : Registry α) (hreg : RegistryWF reg) (h : PyVal α) (t : List (PyVal α))
    (hw : ∀ a ∈ h :: t, a.WF) :
    ((∀ a ∈ t, a.dims = h.dims) →
      ∃ U, defaultUnitInRegistry (.list (h :: t)) reg = .ok U ∧ U.WF ∧ U.dims = h.dims ∧ U.si = regProd reg h.dims ∧ U.si ≠ 0 ∧
        unitlessInRegistry (.list (h :: t)) reg = .ok (.list ((h :: t).map fun a => Res.num (a.si / U.si))) ∧
        ((h :: t).map fun a => (timesUnit (a.si / U.si) U).si) = (h :: t).map PyVal.si) ∧
    ((∃ a ∈ t, a.dims ≠ h.dims) →
      defaultUnitInRegistry (.list (h :: t)) reg = .error .valueError ∧
      unitlessInRegistry (.list (h :: t)) reg = .error .valueError) :=
  registry_consistent_list reg hreg h t hw

/-- the exponent vector a derived key NAMES, as a physical quantity (specification; order: length, mass, time, current,
    temperature, luminous intensity, amount).  diffusivity m²/s; electrical mobility m²/(V·s) = A·s²/kg;
    permittivity F/m = A²·s⁴/(kg·m³); charge A·s; energy kg·m²/s²; concentration mol/m³; density kg/m³;
    radiolytic yield mol/J; dose rate Gy/s = m²/s³; linear energy transfer J/m = kg·m/s². -/
def derivedSpec : List (String × Dims) := [
  ("diffusivity", [2, 0, -1, 0, 0, 0, 0]), ("diffusion", [2, 0, -1, 0, 0, 0, 0]),
  ("electrical_mobility", [0, -1, 2, 1, 0, 0, 0]), ("permittivity", [-3, -1, 4, 2, 0, 0, 0]),
  ("charge", [0, 0, 1, 1, 0, 0, 0]), ("energy", [2, 1, -2, 0, 0, 0, 0]), ("concentration", [-3, 0, 0, 0, 0, 0, 1]),
  ("density", [-3, 1, 0, 0, 0, 0, 0]), ("radiolytic_yield", [-2, -1, 2, 0, 0, 0, 1]), ("doserate", [2, 0, -3, 0, 0, 0, 0]),
  ("linear_energy_transfer", [1, 1, -2, 0, 0, 0, 0])]

/-- the extracted `derived` dict of `get_derived_unit` carries, key by key, the physical dimension the key names
    (and has no other keys) -/
theorem derived_table_is_physical :
    (∀ p ∈ Gen.Units.derivedTable, derivedSpec.lookup p.1 = some p.2) ∧
    (∀ p ∈ derivedSpec, Gen.Units.derivedTable.lookup p.1 = some p.2) := by
  refine ⟨by decide +kernel, by decide +kernel⟩

/-- source guard: the keys of `SI_base_registry` are the seven base quantities in the order every exponent vector of the model assumes -/
theorem registry_keys_guard :
    Gen.Units.registryKeys = ["length", "mass", "time", "current", "temperature", "luminous_intensity", "amount"] := by
  decide +kernel

/-- **Derived units.** In every base-unit registry, each derived key yields a unit with the physical dimension it names and
    the SI value `∏ registry[i].si ^ e_i`; a base key yields the registry entry itself.  (`registry=None` yields 1 by definition, units.py 180-181.) -/
theorem derived_unit_dims (reg : Registry α) (hreg : RegistryWF reg) :
    (∀ key e, derivedSpec.lookup key = some e →
      ∃ U, getDerivedUnit (some reg) key = .ok U ∧ U.WF ∧ U.dims = e ∧ U.si = regProd reg e ∧ U.si ≠ 0) ∧
    (∀ key i, Gen.Units.derivedTable.lookup key = none → keyIndex? key = some i →
      ∃ h : i < reg.length, getDerivedUnit (some reg) key = .ok reg[i] ∧ reg[i].dims = Dims.basis i) := by
  refine ⟨?_, ?_⟩
  · intro key e he
    have hmem : Gen.Units.derivedTable.lookup key = some e :=
      derived_table_is_physical.2 (key, e) (mem_of_lookup _ _ _ he)
    exact getDerivedUnit_derived reg hreg key e hmem
  · intro key i hk hi
    exact getDerivedUnit_base reg hreg key i hk hi

/-- `SI_base_registry` (extracted) is a well-formed registry: entry `i` is exactly the SI unit of base dimension `i`. -/
theorem si_registry_wf :
    (siRegistry : Registry ℚ) = (List.range nDims).map fun i => PyVal.qty ⟨1, ⟨1, Dims.basis i⟩⟩ := by
  decide +kernel

/-- source guard: `_quantities_mapping` of `get_physical_dimensionality` names every registry key exactly once, in registry order
    (no base dimension can be dropped from, or duplicated in, the reported dimensionality) -/
theorem quantities_mapping_guard :
    Gen.Units.quantitiesMapping.map (·.2) = Gen.Units.registryKeys ∧ (Gen.Units.quantitiesMapping.map (·.1)).Nodup := by
  refine ⟨by decide +kernel, by decide +kernel⟩

/-- the ArithmeticDict dimension constants of units.py agree with the derived table and the base keys -/
theorem dim_constants_consistent :
    Gen.Units.dimConstants.lookup "energy" = Gen.Units.derivedTable.lookup "energy" ∧
    Gen.Units.dimConstants.lookup "concentration" = Gen.Units.derivedTable.lookup "concentration" ∧
    Gen.Units.dimConstants.lookup "volume" = some (Dims.smul 3 (Dims.basis 0)) ∧
    (∀ k ∈ ["length", "mass", "time", "current", "temperature", "amount"],
      Gen.Units.dimConstants.lookup k = (keyIndex? k).map Dims.basis) := by
  refine ⟨by decide +kernel, by decide +kernel, by decide +kernel, by decide +kernel⟩

/-- physical definitions of chempy's own units (specification): name, factor relative to SI, exponent vector.
    `per100eV` is checked for its dimension (mol/J) only: its factor 1/(100·eV·N_A) uses two constants of `quantities`. -/
def ownSpec : List (String × Rat × Dims) := [
  ("dm", 1/10, [1,0,0,0,0,0,0]), ("decimetre", 1/10, [1,0,0,0,0,0,0]),
  ("m3", 1, [3,0,0,0,0,0,0]), ("dm3", 1/1000, [3,0,0,0,0,0,0]), ("cm3", 1/1000000, [3,0,0,0,0,0,0]),
  ("molar", 1000, [-3,0,0,0,0,0,1]), ("millimolar", 1, [-3,0,0,0,0,0,1]), ("micromolar", 1/1000, [-3,0,0,0,0,0,1]),
  ("nanomolar", 1/1000000, [-3,0,0,0,0,0,1]), ("molal", 1, [0,-1,0,0,0,0,1]),
  ("micromole", 1/1000000, [0,0,0,0,0,0,1]), ("nanomole", 1/1000000000, [0,0,0,0,0,0,1]), ("umol", 1/1000000, [0,0,0,0,0,0,1]),
  ("kilojoule", 1000, [2,1,-2,0,0,0,0]), ("kilogray", 1000, [2,0,-2,0,0,0,0]),
  ("perMolar_perSecond", 1/1000, [3,0,-1,0,0,0,-1]), ("umol_per_J", 1/1000000, [-2,-1,2,0,0,0,1])]

/-- chempy's own unit definitions (extracted from units.py) have the factor and dimension of their physical definition;
    every one is a well-formed unit (positive factor, 7 exponents) -/
theorem own_units_physical :
    (∀ r ∈ ownSpec, (ownUnit? r.1 : Option (Units.Unit ℚ)) = some ⟨r.2.1, r.2.2⟩) ∧
    ((ownUnit? "per100eV" : Option (Units.Unit ℚ)).map (·.dims) = some [-2,-1,2,0,0,0,1]) ∧
    (∀ r ∈ Gen.Units.ownUnits, 0 < (fracOf r.2.1 : ℚ) ∧ r.2.2.1.length = nDims) := by
  refine ⟨by decide +kernel, by decide +kernel, by decide +kernel⟩

/-- **`unit_of(x, simplified=True)`** is the same physical unit as `unit_of(x)` — same SI value, the dimension of `x` — written in
    SI base units (unit factor exactly 1, the scale moved into the magnitude); `simplified=False` is `unit_of(x)`. -/
theorem unit_of_simplified_spec (v : PyVal α) (hv : v.WF) :
    (unitOfScalarS true v).si = (unitOfScalar v).si ∧ (unitOfScalarS true v).dims = v.dims ∧ (unitOfScalarS true v).WF ∧
    (∀ q, unitOfScalarS true v = .qty q → q.unit.factor = 1) ∧ unitOfScalarS false v = unitOfScalar v :=
  unitOfScalarS_spec v hv

/-- **`unit_of` of a list/tuple** is the unit of its first element (the detour through `uniform` changes nothing), provided all elements
    share its dimension; otherwise the call raises ValueError. -/
theorem unit_of_container_spec (h : PyVal α) (t : List (PyVal α)) (hw : ∀ a ∈ h :: t, a.WF) :
    ((∀ a ∈ t, a.dims = h.dims) → unitOf (.list (h :: t)) = .ok (unitOfScalar h)) ∧
    ((∃ a ∈ t, a.dims ≠ h.dims) → unitOf (.list (h :: t)) = .error .valueError) :=
  unitOf_list h t hw

/-- SI definitions of the named derived units (specification, hand-written): name, factor relative to SI, exponent vector -/
def namedSpec : List (String × Rat × Dims) := [
  ("L", 1/1000, [3,0,0,0,0,0,0]), ("mL", 1/1000000, [3,0,0,0,0,0,0]),
  ("J", 1, [2,1,-2,0,0,0,0]), ("cal", 4184/1000, [2,1,-2,0,0,0,0]), ("N", 1, [1,1,-2,0,0,0,0]),
  ("Pa", 1, [-1,1,-2,0,0,0,0]), ("kPa", 1000, [-1,1,-2,0,0,0,0]), ("bar", 100000, [-1,1,-2,0,0,0,0]),
  ("W", 1, [2,1,-3,0,0,0,0]), ("C", 1, [0,0,1,1,0,0,0]), ("V", 1, [2,1,-3,-1,0,0,0]), ("mV", 1/1000, [2,1,-3,-1,0,0,0]),
  ("Hz", 1, [0,0,-1,0,0,0,0]), ("mK", 1/1000, [0,0,0,0,1,0,0])]

/-- **The named derived units of `quantities`** that chempy's `.simplified`-based functions rely on (extracted on every run) are the SI ones: factor and
    exponent vector of litre, joule, calorie, newton, pascal, bar, watt, coulomb, volt, hertz, … equal the hand spec, and they satisfy the defining
    relations J = N·m, Pa = N/m², W = J/s, V = W/A, C = A·s, Hz = 1/s, L = dm³ (chempy's own `dm3`), with joule/coulomb carrying the exponents of
    the `energy`/`charge` rows of `get_derived_unit`. -/
theorem named_units_match_si_definitions :
    (∀ r ∈ namedSpec, (namedUnit? r.1 : Option (Units.Unit ℚ)) = some ⟨r.2.1, r.2.2⟩) ∧
    Gen.Units.namedUnits.map (·.1) = namedSpec.map (·.1) ∧
    (let base (i : Nat) : Units.Unit ℚ := ⟨1, Dims.basis i⟩
     let nu (n : String) : Units.Unit ℚ := (namedUnit? n).getD ⟨0, []⟩
     nu "J" = (nu "N").mul (base 0) ∧ nu "Pa" = (nu "N").div ((base 0).pow 2) ∧ nu "W" = (nu "J").div (base 2) ∧
     nu "V" = (nu "W").div (base 3) ∧ nu "C" = (base 3).mul (base 2) ∧ nu "Hz" = (Units.Unit.one).div (base 2) ∧
     some (nu "L") = (ownUnit? "dm3" : Option (Units.Unit ℚ)) ∧
     some (nu "J").dims = Gen.Units.derivedTable.lookup "energy" ∧ some (nu "C").dims = Gen.Units.derivedTable.lookup "charge") := by
  refine ⟨by decide +kernel, by decide +kernel, by decide +kernel⟩

example : (namedUnit? "bar" : Option (Units.Unit ℚ)) = some ⟨100000, [-1, 1, -2, 0, 0, 0, 0]⟩ := by decide +kernel

/-! ## registry ↔ human readable -/

/-- **Human-readable round trip (general form, parser as a parameter).** For a registry whose entries are the int `1` or `factor × (one unit object)` whose plain
    `symbol` the unit-string parser of `quantities` resolves to a unit of the same value — every standard prefixed unit,
    micro-prefixed ones included ('um', 'umol'), and chempy's own `micromole` (which comes back as quantities' `umol`) —
    deserialising the serialised registry succeeds and gives back a registry with the same quantity in every entry; when
    the parser returns the very same unit objects the registry itself is reproduced. -/
theorem human_readable_roundtrip (lookup : String → Option (List (SymUnit α × Int))) (reg : List (RegEntry α))
    (h : ∀ e ∈ reg, e = .num 1 ∨
      ∃ mag u u', e = .q mag [(u, 1)] ∧ lookup u.symbol = some [(u', 1)] ∧ u'.unit = u.unit) :
    ∃ hs reg', toHuman reg = .ok hs ∧ fromHuman lookup hs = .ok reg' ∧
      reg'.map RegEntry.value = reg.map RegEntry.value ∧
      ((∀ e ∈ reg, e = .num 1 ∨ ∃ mag u, e = .q mag [(u, 1)] ∧ lookup u.symbol = some [(u, 1)]) → reg' = reg) :=
  human_roundtrip lookup reg h

/-- the SI meaning of the standard prefixed units (specification, hand-written): registry key index, symbol, factor relative to the SI base unit
    (prefixes d 10⁻¹, c 10⁻², m 10⁻³, u 10⁻⁶, n 10⁻⁹, k 10³; min = 60 s, h = 3600 s, d = 86400 s; the SI base unit of mass is the kilogram) -/
def standardSpec : List (Nat × String × Rat) := [
  (0, "m", 1), (0, "dm", 1/10), (0, "cm", 1/100), (0, "mm", 1/1000), (0, "um", 1/1000000), (0, "nm", 1/1000000000), (0, "km", 1000),
  (1, "kg", 1), (1, "g", 1/1000), (1, "mg", 1/1000000),
  (2, "s", 1), (2, "ms", 1/1000), (2, "us", 1/1000000), (2, "ns", 1/1000000000), (2, "min", 60), (2, "h", 3600), (2, "d", 86400),
  (3, "A", 1), (3, "mA", 1/1000), (3, "uA", 1/1000000), (3, "nA", 1/1000000000),
  (4, "K", 1), (4, "mK", 1/1000), (4, "uK", 1/1000000), (5, "cd", 1),
  (6, "mol", 1), (6, "mmol", 1/1000), (6, "umol", 1/1000000)]

/-- **The unit table of `quantities` for the standard prefixed units** (extracted on every run: `x.simplified` of the installed package) is the SI one:
    each unit has the factor its prefix names and exactly the base dimension of its registry key — a wrong prefix factor or dimension in the
    third-party table is a failing proof obligation, not only a correspondence disagreement. -/
theorem standard_units_match_si_prefixes :
    (standardUnits : List (Nat × SymUnit ℚ)) =
      standardSpec.map fun r => (r.1, (⟨r.2.1, ⟨r.2.2, Dims.basis r.1⟩⟩ : SymUnit ℚ)) := by
  decide +kernel

/-- **Human-readable round trip of a registry of standard prefixed units — closed.** The unit-string parser is no longer a hypothesis: on the
    extracted parse table (`hrLookup`, what `pq.Quantity(0, symbol).dimensionality` returns for every standard symbol) every registry whose
    entries are the int `1` or `factor ×` a standard prefixed unit (any factor; micro-prefixed units included) serialises and deserialises to
    ITSELF; every such unit lies in the base dimension of its key with a positive factor. -/
theorem human_readable_roundtrip_standard (reg : List (RegEntry ℚ))
    (h : ∀ e ∈ reg, e = .num 1 ∨ ∃ mag p, p ∈ (standardUnits : List (Nat × SymUnit ℚ)) ∧ e = .q mag [(p.2, 1)]) :
    (∃ hs, toHuman reg = .ok hs ∧ fromHuman hrLookup hs = .ok reg) ∧
    (∀ p ∈ (standardUnits : List (Nat × SymUnit ℚ)), hrLookup p.2.symbol = some [(p.2, 1)] ∧
      p.2.unit.dims = Dims.basis p.1 ∧ 0 < p.2.unit.factor ∧ p.1 < nDims) :=
  ⟨human_roundtrip_standard reg h, fun p hp => ⟨hrLookup_standard p hp, standardUnits_wf p hp⟩⟩

/-- a full registry (km, g, min, mA, mK, cd, 0.001 µmol) and one with a `1` entry: serialised, parsed back, identical -/
example :
    let u (i : Nat) : SymUnit ℚ := ((standardUnits : List (Nat × SymUnit ℚ))[i]?.map (·.2)).getD ⟨"?", ⟨1, Dims.zero⟩⟩
    let reg : List (RegEntry ℚ) := [.q 1 [(u 6, 1)], .q 1 [(u 8, 1)], .q 1 [(u 14, 1)], .q 1 [(u 18, 1)], .q (5/2) [(u 22, 1)],
      .q 1 [(u 24, 1)], .q (1/1000) [(u 27, 1)]]
    ((u 6).symbol, (u 27).symbol, (u 27).unit.factor) = ("km", "umol", 1/1000000) ∧
    (toHuman reg).toOption.bind (fun hs => (fromHuman hrLookup hs).toOption) = some reg ∧
    (toHuman (RegEntry.num 1 :: reg.tail)).toOption.bind (fun hs => (fromHuman hrLookup hs).toOption) = some (RegEntry.num 1 :: reg.tail) := by
  decide +kernel

/-- the repaired serialisation of micro-prefixed units: micrometre is written as 'um' and read back as micrometre;
    chempy's `micromole` (symbol 'micromole') is read back as quantities' `umol`, the same quantity -/
example :
    let um : SymUnit ℚ := ⟨"um", ⟨1/1000000, Dims.basis 0⟩⟩
    let micromole : SymUnit ℚ := ⟨"micromole", ⟨1/1000000, Dims.basis 6⟩⟩
    let umol : SymUnit ℚ := ⟨"umol", ⟨1/1000000, Dims.basis 6⟩⟩
    let lookup : String → Option (List (SymUnit ℚ × Int)) := fun s =>
      if s = "um" then some [(um, 1)] else if s = "micromole" ∨ s = "umol" then some [(umol, 1)] else none
    (toHuman [RegEntry.q 1 [(um, 1)], RegEntry.q 1 [(micromole, 1)]]).toOption.bind (fun hs => (fromHuman lookup hs).toOption)
      = some [RegEntry.q 1 [(um, 1)], RegEntry.q 1 [(umol, 1)]] := by
  decide +kernel

/-- **Deserialisation accepts / refuses.** An entry `(factor, 1)` gives the plain number `factor * 1` (`(1, 1)`: the int `1`); an entry `(factor, symbol)` is accepted iff the symbol
    parses to exactly ONE unit object `u` (result `factor × u`); an unparseable symbol is a LookupError, a symbol that parses to a
    compound or to no unit ('m/s', 'N*m', 'dimensionless') a TypeError.  `None` round-trips to `None` (`toHumanOpt`, `fromHumanOpt`). -/
theorem from_human_readable_accepts_iff (lookup : String → Option (List (SymUnit α × Int))) :
    (∀ e r, fromHumanEntry lookup e = .ok r ↔
      (∃ f, e = .one f ∧ r = .num (f * 1)) ∨ ∃ f sym u k, e = .fs f sym ∧ lookup sym = some [(u, k)] ∧ r = .q f [(u, 1)]) ∧
    (∀ f sym, (fromHumanEntry lookup (.fs f sym) = .error .lookupError ↔ lookup sym = none) ∧
      (fromHumanEntry lookup (.fs f sym) = .error .typeError ↔ ∃ l, lookup sym = some l ∧ l.length ≠ 1)) ∧
    toHumanOpt (none : Option (List (RegEntry α))) = .ok none ∧ fromHumanOpt lookup none = .ok none :=
  ⟨fromHumanEntry_ok_iff lookup, fromHumanEntry_error_iff lookup, rfl, rfl⟩

/-- DEFECT (outside "standard prefixed units"): `unit_registry_to_human_readable` checks only that ONE unit object occurs and drops its
    exponent — `m**2` is serialised as `(1.0, 'm')` and comes back as `m`. -/
theorem human_readable_power_defect_witness :
    let m : SymUnit ℚ := ⟨"m", ⟨1, Dims.basis 0⟩⟩
    let lookup : String → Option (List (SymUnit ℚ × Int)) := fun s => if s = "m" then some [(m, 1)] else none
    (toHuman [RegEntry.q 1 [(m, 2)]]).toOption.bind (fun hs => (fromHuman lookup hs).toOption) = some [RegEntry.q 1 [(m, 1)]] := by
  decide +kernel

/-! ## Backend wrapper -/

/-- **Backend refuses dimensional arguments.** The wrapped function is reached iff every argument is dimensionless, and then it
    receives the plain physical values (scale factors such as km/m folded in); if any argument carries a dimension the call
    raises ValueError and the wrapped function is not evaluated. -/
theorem backend_refuses_dimensional_args {β : Type} (f : List α → β) (args : List (PyVal α)) (hargs : ∀ a ∈ args, a.WF) :
    ((∀ a ∈ args, a.dims = Dims.zero) → backendCall f args = .ok (f (args.map PyVal.si))) ∧
    ((∃ a ∈ args, a.dims ≠ Dims.zero) → backendCall f args = .error .valueError) :=
  backend_spec f args hargs

/-- **Backend / `patched_numpy` with container arguments.** The wrapped function is reached iff EVERY positional argument — scalar, list, array, dict,
    nested — converts to plain numbers against `pq.dimensionless`, and it receives exactly those results in order; a list/array argument converts
    element-wise when all its elements are dimensionless (scale factors folded in) and raises ValueError as soon as one carries a dimension; a
    failing argument fails the call with its exception when the arguments before it convert. -/
theorem backend_container_arguments {β : Type} (f : List (Res α) → β) :
    (∀ (args : List (Val α)) y, backendCallV f args = .ok y ↔
      ∃ rs, List.Forall₂ (fun v r => toUnitless v (.qty Quantity.dimensionless) = .ok r) args rs ∧ y = f rs) ∧
    (∀ (l : List (PyVal α)), (∀ a ∈ l, a.WF) →
      ((∀ a ∈ l, a.dims = Dims.zero) →
        toUnitless (.list (l.map Val.atom)) (.qty Quantity.dimensionless) = .ok (.list (l.map fun a => Res.num a.si))) ∧
      ((∃ a ∈ l, a.dims ≠ Dims.zero) → toUnitless (.list (l.map Val.atom)) (.qty Quantity.dimensionless) = .error .valueError)) ∧
    (∀ (pre post : List (Val α)) v e, (∀ a ∈ pre, ∃ r, toUnitless a (.qty Quantity.dimensionless) = .ok r) →
      toUnitless v (.qty Quantity.dimensionless) = .error e → backendCallV f (pre ++ v :: post) = .error e) :=
  ⟨backendCallV_ok_iff f, toUnitless_list_atoms_dimensionless, fun pre post v e => backendCallV_error f pre post v e⟩

/-- `be.sum([[1000 m/km, 1], [3, 4]])`: the wrapped function sees `[[1000·(1/1000), 1], [3, 4]]`; with a metre inside the call raises -/
example :
    let r (x : ℚ) : Val ℚ := .atom (.qty ⟨x, ⟨1/1000, Dims.zero⟩⟩)
    let n (x : ℚ) : Val ℚ := .atom (.num x)
    (match backendCallV id [Val.list [.list [r 1000, n 1], .list [n 3, n 4]]] with
      | .ok [.list [.list [.num a, .num b], .list [.num c, .num d]]] => some [a, b, c, d] | _ => none) = some [1, 1, 3, 4] ∧
    (match backendCallV id [Val.list [.atom (.qty ⟨1, ⟨1, Dims.basis 0⟩⟩), n 1]] with | .error .valueError => true | _ => false) = true := by
  decide +kernel

/-! ## unit-aware array helpers -/

/-- **`uniform` itself.** List/tuple: every element is re-expressed in the unit of the FIRST element — same physical value, the
    dimension of the first element, and literally that unit (`unit_of` of every result element is `unit_of(container[0])`); an element of
    another dimension raises ValueError; an empty container is an IndexError.  Dict: the same with the unit of the first VALUE,
    keys kept in order.  (The underlying conversion of a flat container to a GIVEN unit is `toUnitlessFlat_spec` + `map_timesUnit_si`.) -/
theorem helpers_uniform :
    (∀ (h : PyVal α) (t : List (PyVal α)), (∀ a ∈ h :: t, a.WF) →
      ((∀ a ∈ t, a.dims = h.dims) →
        uniformList (h :: t) = .ok ((h :: t).map fun a => timesUnit (a.si / (unitOfScalar h).si) (unitOfScalar h)) ∧
        ((h :: t).map fun a => timesUnit (a.si / (unitOfScalar h).si) (unitOfScalar h)).map PyVal.si = (h :: t).map PyVal.si ∧
        ∀ e ∈ (h :: t).map (fun a => timesUnit (a.si / (unitOfScalar h).si) (unitOfScalar h)),
          e.dims = h.dims ∧ unitOfScalar e = unitOfScalar h) ∧
      ((∃ a ∈ t, a.dims ≠ h.dims) → uniformList (h :: t) = .error .valueError)) ∧
    uniformList ([] : List (PyVal α)) = .error .indexError ∧
    (∀ (k0 : String) (v0 : PyVal α) (d : List (String × PyVal α)), (∀ p ∈ (k0, v0) :: d, p.2.WF) →
      ((∀ p ∈ d, p.2.dims = v0.dims) →
        uniform (.dict ((k0, v0) :: d)) =
          .ok (.dict (((k0, v0) :: d).map fun p => (p.1, timesUnit (p.2.si / (unitOfScalar v0).si) (unitOfScalar v0))))) ∧
      ((∃ p ∈ d, p.2.dims ≠ v0.dims) → uniform (.dict ((k0, v0) :: d)) = .error .valueError)) ∧
    uniform (.dict ([] : List (String × PyVal α))) = .error .indexError :=
  ⟨fun h t hw => ⟨(uniformList_spec h t hw).1, (uniformList_spec h t hw).2.1⟩, rfl,
   fun k0 v0 d hw => ⟨(uniformDict_spec k0 v0 d hw).1, (uniformDict_spec k0 v0 d hw).2.1⟩, rfl⟩

/-- **`linspace` equivariant.** It equals `np.linspace` on the magnitudes expressed in the unit of `start`, times that unit;
    consequently (homogeneity of degree 1) its physical values are `np.linspace` of the physical end points, independent of
    the units the end points were given in; incompatible end points raise. -/
theorem helpers_equivariant_linspace (start stop : PyVal α) (hs : start.WF) (he : stop.WF) (n : ℕ) :
    (start.dims = stop.dims →
      linspace start stop n = .ok ((plainLinspace (start.si / (unitOfScalar start).si) (stop.si / (unitOfScalar start).si) n).map
        (timesUnit · (unitOfScalar start))) ∧
      ∀ r, linspace start stop n = .ok r →
        r.map PyVal.si = plainLinspace start.si stop.si n ∧ ∀ v ∈ r, v.dims = start.dims) ∧
    (start.dims ≠ stop.dims → linspace start stop n = .error .valueError) :=
  linspace_spec start stop hs he n

/-- **`tile` equivariant** (the same argument gives `concatenate`, whose model is the same conversion followed by `++`):
    `np.tile` on the magnitudes in the first element's unit, times that unit; physical values = `np.tile` of the physical
    values; mixed dimensions raise; an empty array is an IndexError. -/
theorem helpers_equivariant_tile (elem : PyVal α) (rest : List (PyVal α)) (reps : ℕ) (hw : ∀ a ∈ elem :: rest, a.WF) :
    ((∀ a ∈ rest, a.dims = elem.dims) →
      tile (elem :: rest) reps = .ok ((plainTile ((elem :: rest).map fun a => a.si / (unitOfScalar elem).si) reps).map
        (timesUnit · (unitOfScalar elem))) ∧
      ∀ r, tile (elem :: rest) reps = .ok r → r.map PyVal.si = plainTile ((elem :: rest).map PyVal.si) reps) ∧
    ((∃ a ∈ rest, a.dims ≠ elem.dims) → tile (elem :: rest) reps = .error .valueError) ∧
    tile ([] : List (PyVal α)) reps = .error .indexError :=
  tile_spec elem rest reps hw

/-- **polynomial coefficients.** The unit given to coefficient `i` (highest power first) of a degree-`deg` polynomial by `polyfit`
    and required of it by `polyval` is `u_y / u_x^(deg−i)`: SI value `u_y.si · u_x.si^(i−deg)`, dimension `dims u_y + (i−deg)·dims u_x`. -/
theorem helpers_polynomial_coefficient_units (ux uy : PyVal α) (hx : ux.WF) (hy : uy.WF) (deg i : ℕ) :
    (coeffUnit ux uy deg i).WF ∧
    (coeffUnit ux uy deg i).si = uy.si * ux.si ^ ((i : ℤ) - (deg : ℤ)) ∧
    (coeffUnit ux uy deg i).dims = uy.dims.add (Dims.smul ((i : ℤ) - (deg : ℤ)) ux.dims) :=
  coeffUnit_spec ux uy hx hy deg i

/-- **`concatenate` equivariant.** `np.concatenate` on the magnitudes in the unit of the very first element, times that unit;
    the physical values are the concatenation of the physical values; an element of another dimension raises ValueError;
    no first element is an IndexError. -/
theorem helpers_equivariant_concatenate (h : PyVal α) (t : List (PyVal α)) (rest : List (List (PyVal α)))
    (hw : ∀ arr ∈ (h :: t) :: rest, ∀ a ∈ arr, a.WF) :
    ((∀ arr ∈ (h :: t) :: rest, ∀ a ∈ arr, a.dims = h.dims) →
      concatenate ((h :: t) :: rest) =
        .ok (((((h :: t) :: rest).flatten).map fun a => a.si / (unitOfScalar h).si).map (timesUnit · (unitOfScalar h))) ∧
      ∀ r, concatenate ((h :: t) :: rest) = .ok r → r.map PyVal.si = (((h :: t) :: rest).flatten).map PyVal.si) ∧
    ((∃ arr ∈ (h :: t) :: rest, ∃ a ∈ arr, a.dims ≠ h.dims) → concatenate ((h :: t) :: rest) = .error .valueError) ∧
    concatenate ([] : List (List (PyVal α))) = .error .indexError ∧
    concatenate (([] : List (PyVal α)) :: rest) = .error .indexError :=
  concatenate_spec h t rest hw

/-- **`polyval` equivariant (Horner homogeneity).** With `u_x` the unit of `x` and `u_y` the unit of the constant coefficient:
    `polyval` accepts exactly the coefficient lists with `dims p[i] = dims u_y + (i−deg)·dims u_x` (`coeffsCompat`), evaluates
    `np.polyval` on the unitless coefficients `p[i]/(u_y/u_x^(deg−i))` at `x/u_x` and multiplies by `u_y`; the physical value
    of the result is the polynomial of the PHYSICAL coefficients at the PHYSICAL argument, `Σ p[i].si · x.si^(deg−i)`
    (`plainPolyval`), whatever units were used; any other coefficient list raises ValueError; an empty one IndexError. -/
theorem helpers_equivariant_polyval (p0 : PyVal α) (ps : List (PyVal α)) (x : PyVal α) (hp : ∀ v ∈ p0 :: ps, v.WF) (hx : x.WF) :
    (coeffsCompat (unitOfScalar x) (unitOfScalar ((p0 :: ps).getLast (by simp))) ps.length 0 (p0 :: ps) →
      ∃ r, polyval (p0 :: ps) (.scalar x) = .ok [r] ∧ r.si = plainPolyval ((p0 :: ps).map PyVal.si) x.si ∧
        r.dims = ((p0 :: ps).getLast (by simp)).dims) ∧
    (¬ coeffsCompat (unitOfScalar x) (unitOfScalar ((p0 :: ps).getLast (by simp))) ps.length 0 (p0 :: ps) →
      polyval (p0 :: ps) (.scalar x) = .error .valueError) ∧
    polyval ([] : List (PyVal α)) (.scalar x) = .error .indexError :=
  polyval_scalar_spec p0 ps x hp hx

/-- **`polyval` on a list/array of arguments.** Every element is evaluated like a scalar: with coefficients of the right dimension and abscissae
    of one dimension the physical values of the result are the polynomial of the PHYSICAL coefficients at each PHYSICAL argument
    (unit independent), all in the dimension of the constant coefficient; abscissae of mixed dimension, or a coefficient of the wrong
    dimension, raise ValueError. -/
theorem helpers_equivariant_polyval_array (p0 : PyVal α) (ps : List (PyVal α)) (x0 : PyVal α) (xt : List (PyVal α))
    (hp : ∀ v ∈ p0 :: ps, v.WF) (hxw : ∀ a ∈ x0 :: xt, a.WF) :
    (coeffsCompat (unitOfScalar x0) (unitOfScalar ((p0 :: ps).getLast (by simp))) ps.length 0 (p0 :: ps) →
      ((∀ a ∈ xt, a.dims = x0.dims) →
        ∃ r, polyval (p0 :: ps) (.list (x0 :: xt)) = .ok r ∧
          r.map PyVal.si = (x0 :: xt).map (fun x => plainPolyval ((p0 :: ps).map PyVal.si) x.si) ∧
          ∀ v ∈ r, v.dims = ((p0 :: ps).getLast (by simp)).dims) ∧
      ((∃ a ∈ xt, a.dims ≠ x0.dims) → polyval (p0 :: ps) (.list (x0 :: xt)) = .error .valueError)) ∧
    (¬ coeffsCompat (unitOfScalar x0) (unitOfScalar ((p0 :: ps).getLast (by simp))) ps.length 0 (p0 :: ps) →
      polyval (p0 :: ps) (.list (x0 :: xt)) = .error .valueError) :=
  polyval_list_spec p0 ps x0 xt hp hxw

/-- `1 km/s · x + 2 km` at `x = [1 s, 1 min]` in metres: 3000 m and 62000 m, whatever units were used -/
example :
    let p : List (PyVal ℚ) := [.qty ⟨1, ⟨1000, [1, 0, -1, 0, 0, 0, 0]⟩⟩, .qty ⟨2, ⟨1000, Dims.basis 0⟩⟩]
    ((polyval p (.list [.qty ⟨1, ⟨1, Dims.basis 2⟩⟩, .qty ⟨1, ⟨60, Dims.basis 2⟩⟩])).toOption.map (·.map PyVal.si)) = some [3000, 62000] := by
  decide +kernel

/-- **`polyfit` equivariant.** `np.polyfit` (`fit`, third party: a parameter) is run on the magnitudes in the units of `x[0]`, `y[0]`;
    coefficient `i` of its result is returned times `u_y/u_x^(deg−i)`; abscissae of mixed dimension raise ValueError.
    (That the PHYSICAL coefficients do not depend on the units additionally needs the scaling covariance of least squares,
    `fit (a·x) (b·y) deg [i] = b/a^(deg−i) · fit x y deg [i]`, a property of NumPy checked by the oracle, not proved.) -/
theorem helpers_equivariant_polyfit (fit : List α → List α → ℕ → List α) (x0 y0 : PyVal α) (xt yt : List (PyVal α)) (deg : ℕ)
    (hxw : ∀ a ∈ x0 :: xt, a.WF) (hyw : ∀ a ∈ y0 :: yt, a.WF) :
    ((∀ a ∈ xt, a.dims = x0.dims) → (∀ a ∈ yt, a.dims = y0.dims) →
      ∃ r, polyfit fit (x0 :: xt) (y0 :: yt) deg = .ok r ∧
        let cs := fit ((x0 :: xt).map fun a => a.si / (unitOfScalar x0).si) ((y0 :: yt).map fun a => a.si / (unitOfScalar y0).si) deg
        r.length = cs.length ∧
        ∀ i (h1 : i < r.length) (h2 : i < cs.length),
          r[i].si = cs[i] * ((unitOfScalar y0).si * (unitOfScalar x0).si ^ ((i : ℤ) - (deg : ℤ))) ∧
          r[i].dims = y0.dims.add (Dims.smul ((i : ℤ) - (deg : ℤ)) x0.dims)) ∧
    ((∃ a ∈ xt, a.dims ≠ x0.dims) → polyfit fit (x0 :: xt) (y0 :: yt) deg = .error .valueError) :=
  polyfit_spec fit x0 y0 xt yt deg hxw hyw

/-- **`allclose` is unit independent** (`atol=None`, any ordered field): quantities of different dimension are never close (False, no
    exception); otherwise the answer is the plain test `|a − b| ≤ |a|·rtol` on the physical values, so it cannot depend on
    the units in which `a` and `b` are expressed (scale invariance). -/
theorem helpers_allclose_unit_independent {β : Type} [Field β] [LinearOrder β] [IsStrictOrderedRing β]
    (a b : PyVal β) (ha : a.WF) (hb : b.WF) (rtol : β) :
    (a.dims = b.dims → allcloseScalar a b rtol none = .ok (decide (|a.si - b.si| ≤ |a.si| * rtol))) ∧
    (a.dims ≠ b.dims → allcloseScalar a b rtol none = .ok false) :=
  allcloseScalar_none a b ha hb rtol

/-- **`logspace_from_lin` equivariant** (over ℝ, positive end points, unit of `start` with positive factor): the plain routine
    `exp2(linspace(log2 s, log2 e, n))` on the magnitudes in the unit of `start`, times that unit; by its degree-1 homogeneity
    the physical values are the plain routine applied to the physical end points; end points of different dimension raise. -/
theorem helpers_equivariant_logspace [DecidableEq ℝ] (start stop : PyVal ℝ) (hs : start.WF) (he : stop.WF) (n : ℕ) :
    let _ := realLog
    let _ := realExp
    (start.dims = stop.dims → 0 < (unitOfScalar start).si → 0 < start.si → 0 < stop.si →
      ∃ r, logspaceFromLin start stop n = .ok r ∧
        r = (logspaceCore (start.si / (unitOfScalar start).si) (stop.si / (unitOfScalar start).si) n).map
              (timesUnit · (unitOfScalar start)) ∧
        r.map PyVal.si = logspaceCore start.si stop.si n ∧ ∀ v ∈ r, v.dims = start.dims) ∧
    (start.dims ≠ stop.dims → logspaceFromLin start stop n = .error .valueError) :=
  logspaceFromLin_spec start stop hs he n

/-- **`polyfit` is unit independent, given NumPy's scaling covariance.** If the fitting routine satisfies
    `fit (a·x) (b·y) deg [i] = b·a^(i−deg) · fit x y deg [i]` (true of least squares; a property of `np.polyfit`, third party,
    exercised by the oracle), then the physical coefficients `polyfit` returns are the fit of the physical data, whatever
    units the data were given in. -/
theorem helpers_polyfit_unit_independent (fit : List α → List α → ℕ → List α)
    (hcov : ∀ (xs ys : List α) (a b : α) (deg i : ℕ), a ≠ 0 → b ≠ 0 →
      (fit (xs.map (· * a)) (ys.map (· * b)) deg)[i]? = ((fit xs ys deg)[i]?).map (· * (b * a ^ ((i : ℤ) - (deg : ℤ)))))
    (x0 y0 : PyVal α) (xt yt : List (PyVal α)) (deg : ℕ)
    (hxw : ∀ a ∈ x0 :: xt, a.WF) (hyw : ∀ a ∈ y0 :: yt, a.WF)
    (hx : ∀ a ∈ xt, a.dims = x0.dims) (hy : ∀ a ∈ yt, a.dims = y0.dims) :
    ∃ r, polyfit fit (x0 :: xt) (y0 :: yt) deg = .ok r ∧
      r.map PyVal.si = fit ((x0 :: xt).map PyVal.si) ((y0 :: yt).map PyVal.si) deg :=
  polyfit_unit_independent fit hcov x0 y0 xt yt deg hxw hyw hx hy

/-- **`allclose` with an absolute tolerance** (three quantities, unit of `a` with positive factor, `a`,`b` of one dimension):
    an `atol` of another dimension raises ValueError; otherwise the answer is the plain test `|a − b| ≤ |a|·rtol + atol` on the
    physical values. -/
theorem helpers_allclose_atol {β : Type} [Field β] [LinearOrder β] [IsStrictOrderedRing β]
    (p q t : Quantity β) (hp : (PyVal.qty p).WF) (hpos : 0 < p.unit.factor) (rtol : β) (hd : p.unit.dims = q.unit.dims) :
    (p.unit.dims = t.unit.dims →
      allcloseScalar (.qty p) (.qty q) rtol (some (.qty t)) =
        .ok (decide (|(PyVal.qty p).si - (PyVal.qty q).si| ≤ |(PyVal.qty p).si| * rtol + (PyVal.qty t).si))) ∧
    (p.unit.dims ≠ t.unit.dims → allcloseScalar (.qty p) (.qty q) rtol (some (.qty t)) = .error .valueError) :=
  allcloseScalar_atol p q t hp hpos rtol hd

/-- **`allclose` on quantity arrays, with NumPy broadcasting of `a`, `b` and an array `atol` to one common shape** (after fixes 32ccfa8, e80401e, dadaf52).  Shapes that cannot be broadcast, and operands of different dimension, give False
    (`allcloseTriples = none`).  Otherwise the comparison runs over EVERY triple `(a_i, b_i, atol_i)` of the broadcast shape (`allcloseTriples`): when no pair
    raises, the answer is True iff every triple is close — by `helpers_allclose_unit_independent` / `helpers_allclose_atol` the plain
    element-wise test `|a_i − b_i| ≤ |a_i|·rtol (+ atol_i)` on the physical values.  An `UncertainQuantity` argument is replaced by its
    nominal quantity first (`allcloseU`, by definition). -/
theorem helpers_allclose_arrays {β : Type} [Field β] [LinearOrder β] [IsStrictOrderedRing β]
    (rtol : β) (a b : ArrArg β) (atol : Option (ArrArg β)) :
    (allcloseTriples a b atol = none → allcloseArrays a b rtol atol = .ok false) ∧
    (∀ ts, allcloseTriples a b atol = some (.ok ts) →
      (∀ t ∈ ts, ∃ r, allcloseScalar t.1 t.2.1 rtol t.2.2 = .ok r) →
      ∃ r, allcloseArrays a b rtol atol = .ok r ∧ (r = true ↔ ∀ t ∈ ts, allcloseScalar t.1 t.2.1 rtol t.2.2 = .ok true)) :=
  allcloseArrays_spec rtol a b atol

/-- **The broadcast shape of `allclose`**: arrays of equal length are paired element-wise; a length-1 array or a scalar is paired with
    EVERY element of the other operand (the defect fixed by 32ccfa8 compared only the first pair when `a` was the short one). -/
theorem helpers_allclose_broadcast_shape {β : Type} [Field β] [LinearOrder β] [IsStrictOrderedRing β]
    (x : PyVal β) (l : List (PyVal β)) (hl : l.length ≠ 1) (hd : ∀ y ∈ l, y.dims = x.dims) :
    allcloseTriples (.arr l) (.arr l) none = some (.ok (l.zip (l.zip (List.replicate l.length none)))) ∧
    allcloseTriples (.arr [x]) (.arr l) none = some (.ok ((List.replicate l.length x).zip (l.zip (List.replicate l.length none)))) ∧
    allcloseTriples (.scalar x) (.arr l) none = some (.ok ((List.replicate l.length x).zip (l.zip (List.replicate l.length none)))) ∧
    allcloseTriples (.arr l) (.arr [x]) none = some (.ok (l.zip ((List.replicate l.length x).zip (List.replicate l.length none)))) :=
  allcloseTriples_shapes x l hl hd

/-- **Three-operand broadcast** (fixes e80401e, dadaf52): an array `atol` longer than both operands (two length-1 arrays, or two scalars)
    is compared element by element against the repeated operands — every element of `atol` takes part, none is skipped. -/
theorem helpers_allclose_atol_broadcast {β : Type} [Field β] [LinearOrder β] [IsStrictOrderedRing β]
    (x y : PyVal β) (ts : List (PyVal β)) (hts : ts.length ≠ 1) (hd : x.dims = y.dims) :
    allcloseTriples (.arr [x]) (.arr [y]) (some (.arr ts)) =
      some (.ok ((List.replicate ts.length x).zip ((List.replicate ts.length y).zip (ts.map some)))) ∧
    allcloseTriples (.scalar x) (.scalar y) (some (.arr ts)) =
      some (.ok ((List.replicate ts.length x).zip ((List.replicate ts.length y).zip (ts.map some)))) :=
  allcloseTriples_atol_longer x y ts hts hd

/-- the fixed input: `[1 km]` against `[1000 m, 5000 m, 9000 m]` is NOT close (all three pairs are compared) -/
example :
    let km (x : ℚ) : PyVal ℚ := .qty ⟨x, ⟨1000, Dims.basis 0⟩⟩
    let m (x : ℚ) : PyVal ℚ := .qty ⟨x, ⟨1, Dims.basis 0⟩⟩
    allcloseArrays (.arr [km 1]) (.arr [m 1000, m 5000, m 9000]) (1/100000000) none = .ok false ∧
    allcloseArrays (.arr [km 1]) (.arr [m 1000, m 1000, m 1000]) (1/100000000) none = .ok true ∧
    allcloseArrays (.arr [km 1, km 2]) (.arr [m 1000, m 2000, m 3000]) (1/100000000) none = .ok false ∧
    -- an array atol is broadcast too: longer than both operands (fix dadaf52), longer than `a` (fix e80401e), two scalars
    allcloseArrays (.arr [km 1]) (.arr [m 1001]) (1/100000000) (some (.arr [m 2, m (1/2)])) = .ok false ∧
    allcloseArrays (.scalar (km 1)) (.arr [m 1001, m 1001]) (1/100000000) (some (.arr [m 2, m 2])) = .ok true ∧
    allcloseArrays (.scalar (km 1)) (.scalar (m 1001)) (1/100000000) (some (.arr [m 2, m 5])) = .ok true ∧
    allcloseArrays (.arr [km 1, km 2]) (.arr [m 1001]) (1/100000000) (some (.arr [m 2, m 2, m 2])) = .error .valueError := by
  decide +kernel

/-- **`allclose` on plain numbers** (no units anywhere; the NumPy-like use): the plain test, with or without `atol`. -/
theorem helpers_allclose_plain_numbers {β : Type} [Field β] [LinearOrder β] [IsStrictOrderedRing β] (x y rtol t : β) :
    allcloseScalar (.num x) (.num y) rtol none = .ok (decide (|x - y| ≤ |x| * rtol)) ∧
    allcloseScalar (.num x) (.num y) rtol (some (.num t)) = .ok (decide (|x - y| ≤ |x| * rtol + t)) :=
  allcloseScalar_plain x y rtol t

/-- **`compare_equality`** on two quantities is physical equality: True iff same dimension and same SI value (different
    dimensions → False, no exception); on two plain numbers it is `==`.  (Quantity against plain number: see the quirk witness.) -/
theorem compare_equality_spec (p q : Quantity α) (hp : (PyVal.qty p).WF) (x y : α) :
    (compareEquality (.qty p) (.qty q) = true ↔ p.unit.dims = q.unit.dims ∧ (PyVal.qty p).si = (PyVal.qty q).si) ∧
    (compareEquality (.num x) (.num y) = true ↔ x = y) :=
  ⟨compareEquality_qty p q hp, compareEquality_num x y⟩

/-- **`patched_numpy.log/log10/log2/log1p/exp/expm1/logaddexp/logaddexp2`** (`_wrap_numpy`): the NumPy function is reached iff every
    argument is dimensionless and then receives the plain physical values; a dimensional argument raises ValueError. -/
theorem patched_numpy_refuses_dimensional_args {β : Type} (f : List α → β) (args : List (PyVal α)) (hargs : ∀ a ∈ args, a.WF) :
    ((∀ a ∈ args, a.dims = Dims.zero) → wrapNumpy f args = .ok (f (args.map PyVal.si))) ∧
    ((∃ a ∈ args, a.dims ≠ Dims.zero) → wrapNumpy f args = .error .valueError) :=
  backend_spec f args hargs

/-
helpers_equivariant — what remains outside the theorems: the scaling covariance of `np.polyfit` itself (third party, a parameter of
the model; exercised by the oracle), `polyval` for a LIST argument x (element-wise application of the scalar theorem; model and
correspondence cover it), and `allclose` with `atol` where a plain number is involved (correspondence and oracle). See `clauses_without_theorem` in tools/harness/c09.py.
-/

/-! ## documented quirks of the pinned code (mirrored by the model) -/

/-- QUIRK: `rescale(3, metre)` returns 3 instead of raising: the fallback test `unit == 1` is True for every unit of magnitude 1. -/
theorem rescale_plain_number_defect_witness :
    rescale (PyVal.num (3 : ℚ)) (.qty ⟨1, ⟨1, Dims.basis 0⟩⟩) = .ok (.num 3) := by decide +kernel

/-- QUIRK: `compare_equality(3*km/m, 3000)` is False although both denote 3000 (`Quantity.__eq__` compares the bare magnitude
    with a plain number), while `compare_equality(3*km/m, 3)` is True. -/
theorem compare_equality_defect_witness :
    let q : PyVal ℚ := .qty ⟨3, ⟨1000, Dims.zero⟩⟩
    q.si = 3000 ∧ compareEquality q (.num 3000) = false ∧ compareEquality q (.num 3) = true := by decide +kernel

/-! ## non-vacuity -/

/-- 3 km in metres, in 2-metre units, in seconds -/
example : toUnitlessScalar (.qty ⟨3, ⟨1000, Dims.basis 0⟩⟩ : PyVal ℚ) (.qty ⟨1, ⟨1, Dims.basis 0⟩⟩) = .ok 3000 ∧
    toUnitlessScalar (.qty ⟨3, ⟨1000, Dims.basis 0⟩⟩ : PyVal ℚ) (.qty ⟨2, ⟨1, Dims.basis 0⟩⟩) = .ok 1500 ∧
    toUnitlessScalar (.qty ⟨3, ⟨1000, Dims.basis 0⟩⟩ : PyVal ℚ) (.qty ⟨1, ⟨1, Dims.basis 2⟩⟩) = .error .valueError := by
  decide +kernel

/-- 3 M·m/s in the registry (km, kg, min, A, K, cd, 0.001 mol): default unit 0.001 mol/(km²·min), magnitude 1.8e14 -/
example :
    let reg : Registry ℚ := [.qty ⟨1, ⟨1000, Dims.basis 0⟩⟩, .qty ⟨1, ⟨1, Dims.basis 1⟩⟩, .qty ⟨1, ⟨60, Dims.basis 2⟩⟩,
      .qty ⟨1, ⟨1, Dims.basis 3⟩⟩, .qty ⟨1, ⟨1, Dims.basis 4⟩⟩, .qty ⟨1, ⟨1, Dims.basis 5⟩⟩, .qty ⟨1/1000, ⟨1, Dims.basis 6⟩⟩]
    (match unitlessInRegistry (.scalar (.qty ⟨3, ⟨1000, [-2, 0, -1, 0, 0, 0, 1]⟩⟩)) reg with
      | .ok (.num x) => some x | _ => none) = some 180000000000000 := by
  decide +kernel

example : (getDerivedUnit (some (siRegistry : Registry ℚ)) "energy").toOption.map PyVal.dims = some [2, 1, -2, 0, 0, 0, 0] := by
  decide +kernel

end ChemModel.C09
