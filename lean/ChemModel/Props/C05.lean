import ChemModel.Model.Kinetics
namespace ChemModel.C05
theorem placeholder : True := trivial
end ChemModel.C05
