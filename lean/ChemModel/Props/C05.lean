/-
C05 — only balanced reactions are admitted and their elements and charge are conserved.

Property theorems only; helper lemmas live in Proofs/Kinetics.lean, the executable model (mirroring
`ReactionSystem.check_balance`, `Reaction.composition_violation`, `Substance.composition_keys`,
`ReactionSystem.composition_balance_vectors`, the analytic solver of `get_odesys(...)[1]['linear_dependencies']` and the
mass/charge violation helpers) in Model/Kinetics.lean.

Notation.  `subs : Substances σ A` is the ordered dict of the system's substances with their `composition`
(`none` = `None`), composition amounts in a commutative ring `A` with decidable equality (ℤ, ℚ);
`compAt sc key` is `sc.composition.get(key, 0)`;
`compSum r key subs = Σ_{s ∈ subs} comp s key · net r s` — the net production of composition key `key` (atomic number,
`0` = charge) by reaction `r`, summed over the substances *of the system*, which is what chempy computes.

Not claimed here (runtime behaviour of the delegated integrator, sampled by C06): that a numerical integration keeps
the invariants at their initial values to solver tolerance.
-/
import ChemModel.Proofs.Kinetics
import ChemModel.Props.C04

set_option linter.unusedSectionVars false

namespace ChemModel.C05
open ChemModel.Kinetics

variable {σ ρ : Type} [DecidableEq σ] {A : Type} [CommRing A] [DecidableEq A]

/-- **Accepted iff balanced.**  When every substance carries a composition, `check_balance` (strict or not) accepts
    exactly when every reaction leaves every composition key — each element and the charge key `0`, in fact *every*
    integer key — unchanged.
    (`subs ≠ [] ∨ rs = []`: with an empty substance dict `composition_violation` cannot even unpack
    `zip(*substances.items())`, see `empty_substances_defect_witness`.) -/
theorem accept_iff_balanced (subs : Substances σ A) (rs : List (Reaction σ ρ)) (strict : Bool)
    (hall : ∀ sc ∈ subs, ∃ comp, sc.2 = some comp) (hne : subs ≠ [] ∨ rs = []) :
    checkBalance subs rs strict = .ok ↔
      ∀ r ∈ rs, ∀ key : ℤ, (subs.map fun sc => compAt sc key * ((netStoich r sc.1 : ℤ) : A)).sum = 0 := by
  have hnone := firstWithoutComposition_eq_none_iff.mpr hall
  unfold checkBalance
  rw [hnone]
  simp only
  rcases hne with hne | rfl
  · rw [checkRxns_ok_iff hne hnone]
    constructor
    · intro h r hr key
      by_cases hk : key ∈ compositionKeys subs
      · exact h r hr key hk
      · exact compSum_eq_zero_of_not_mem r hk
    · intro h r hr key _
      exact h r hr key
  · simp [checkRxns]

/-- **A rejection names a violated key.**  When every substance carries a composition and the check does not accept,
    the outcome is the `ValueError` "Composition violation (key: net) in reaction" for the *first* unbalanced reaction
    `rs[i]`: the reported `net` is that reaction's net production of the reported `key`, it is non-zero, `key` is a
    composition key of the system, and all earlier reactions are balanced. -/
theorem rejection_names_violated_key (subs : Substances σ A) (rs : List (Reaction σ ρ)) (strict : Bool)
    (hall : ∀ sc ∈ subs, ∃ comp, sc.2 = some comp) (hne : subs ≠ [])
    (hrej : checkBalance subs rs strict ≠ .ok) :
    ∃ i key net r, checkBalance subs rs strict = .violation i key net ∧ rs[i]? = some r ∧
      key ∈ compositionKeys subs ∧
      net = (subs.map fun sc => compAt sc key * ((netStoich r sc.1 : ℤ) : A)).sum ∧ net ≠ 0 ∧
      ∀ j < i, ∀ r', rs[j]? = some r' → ∀ key' : ℤ, compSum r' key' subs = 0 := by
  have hnone := firstWithoutComposition_eq_none_iff.mpr hall
  unfold checkBalance at hrej ⊢
  rw [hnone] at hrej ⊢
  simp only at hrej ⊢
  have hnr := checkRxns_not_raised_or_noComposition (ρ := ρ) hne hnone rs 0
  cases hres : checkRxns subs rs 0 with
  | ok => exact absurd hres hrej
  | noComposition s => exact absurd hres (hnr.2 s)
  | raised e => exact absurd hres (hnr.1 e)
  | violation i key net =>
    obtain ⟨r, _, h1, h2, h3, h4, h5⟩ := checkRxns_violation hne hnone rs 0 hres
    refine ⟨i, key, net, r, rfl, by simpa using h1, h2, h3, h4, ?_⟩
    intro j hj r' hr' key'
    by_cases hk : key' ∈ compositionKeys subs
    · exact h5 j (by simpa using hj) r' hr' key' hk
    · exact compSum_eq_zero_of_not_mem r' hk

/-- **Accepted by the constructor iff balanced** (`ReactionSystem(rxns, substances)` with the default checks
    `{balance, substance_keys, duplicate, duplicate_names}`; all are run with `throw=True`, so construction succeeds iff all
    pass).  When every substance carries a composition, the constructor accepts exactly when
    (1) every key of every reaction is a substance of the system (`check_substance_keys`),
    (2) there are no duplicate reactions / duplicate names (`dupOk`, the outcome of the two checks not modelled here), and
    (3) every reaction leaves every composition key unchanged.
    So a balanced system can still be refused — only for reason (1) or (2); and under (1) the balance sum over the
    substances of the system is the sum over the reaction's own species: nothing a reaction mentions is ignored.
    ("a substance without composition ⇒ the balance check accepts" is `Kinetics.checkBalance_of_missing`.) -/
theorem constructor_accept_iff (subs : Substances σ A) (rs : List (Reaction σ ρ)) (dupOk : Bool)
    (hall : ∀ sc ∈ subs, ∃ comp, sc.2 = some comp) (hne : subs ≠ [] ∨ rs = []) :
    (constructorAccepts subs rs dupOk = true ↔
      (∀ r ∈ rs, ∀ k ∈ rxnKeys r, k ∈ dkeys subs) ∧ dupOk = true ∧
        ∀ r ∈ rs, ∀ key : ℤ, (subs.map fun sc => compAt sc key * ((netStoich r sc.1 : ℤ) : A)).sum = 0) ∧
    (∀ (r : Reaction σ ρ) (key : ℤ), (subs.map fun sc => compAt sc key * ((netStoich r sc.1 : ℤ) : A)).sum =
        ((subs.filter fun sc => decide (sc.1 ∈ rxnKeys r)).map fun sc => compAt sc key * ((netStoich r sc.1 : ℤ) : A)).sum) := by
  constructor
  · have hb := accept_iff_balanced subs rs false hall hne
    unfold constructorAccepts
    rw [Bool.and_eq_true, Bool.and_eq_true, checkSubstanceKeys_iff]
    constructor
    · rintro ⟨⟨h1, h2⟩, h3⟩
      refine ⟨h1, h2, hb.mp ?_⟩
      cases hres : checkBalance subs rs false <;> simp [hres] at h3
      rfl
    · rintro ⟨h1, h2, h3⟩
      refine ⟨⟨h1, h2⟩, ?_⟩
      rw [hb.mpr h3]
  · intro r key
    apply sum_map_filter_of_zero
    intro sc _ hp
    have : sc.1 ∉ rxnKeys r := by simpa using hp
    simp [netStoich_eq_zero_of_not_mem this]

/-- The `zip(*substances.items())` of `composition_violation` fails on an empty substance dict: a system without
    substances and with a (necessarily trivially balanced) reaction is *not* accepted but raises `ValueError`
    ("not enough values to unpack").  Reachable only with `Reaction(..., checks=())`, since a reaction without
    substances fails `check_any_effect`. -/
theorem empty_substances_defect_witness :
    checkBalance ([] : Substances String ℤ) [({ reac := [], prod := [], param := (1 : ℤ) } : Reaction String ℤ)] false
      = .raised .valueError := by
  rfl

section Invariants
variable {R : Type} [CommRing R]

/-- **The reported composition vectors are exact linear invariants of the kinetic right-hand side.**
    For every accepted system whose substances all carry compositions, `composition_balance_vectors()` succeeds with
    one row per composition key, and for every row `B_k`, EVERY concentration function `c` in any commutative ring `R`
    (compositions mapped into `R` by any ring homomorphism `φ`, e.g. `ℤ → R` or `ℚ → ℝ`), and both ways of asking for the
    rates (`substance_keys=None` or the system's substance order):  `Σ_s B_k[s] · rates(c)[s] = 0`. -/
theorem invariants_exact (φ : A →+* R) (subs : Substances σ A) (rs : List (Reaction σ R))
    (hall : ∀ sc ∈ subs, ∃ comp, sc.2 = some comp) (hne : subs ≠ [])
    (hacc : checkBalance subs rs false = .ok) :
    ∃ B ck, compositionBalanceVectors subs = .ok (B, ck) ∧ ck = compositionKeys subs ∧ B.length = ck.length ∧
      ∀ row ∈ B, ∀ (c : σ → R) (keys? : Option (List σ)), (keys? = none ∨ keys? = some (dkeys subs)) →
        (List.zipWith (fun b s => φ b * valueAt (sysRates c rs keys? none) s) row (dkeys subs)).sum = 0 := by
  have hnone := firstWithoutComposition_eq_none_iff.mpr hall
  have hbal := (accept_iff_balanced subs rs false hall (Or.inl hne)).mp hacc
  refine ⟨_, _, compositionBalanceVectors_eq subs hnone, rfl, by simp, ?_⟩
  intro row hrow c keys? hkeys
  obtain ⟨key, _, rfl⟩ := List.mem_map.mp hrow
  have hz : (List.zipWith (fun b s => φ b * valueAt (sysRates c rs keys? none) s)
      (subs.map fun sc => compAt sc key) (dkeys subs)) =
      subs.map fun sc => φ (compAt sc key) * (rs.map fun r => contribution c r sc.1).sum := by
    unfold dkeys
    rw [List.zipWith_map, List.zipWith_self]
    apply List.map_congr_left
    intro sc hsc
    congr 1
    simp only [sysRates]
    apply valueAt_sysRatesNoFeed_contribution
    intro ks hks
    rcases hkeys with h | h
    · rw [h] at hks; cases hks
    · rw [h] at hks
      cases hks
      exact List.mem_map_of_mem (f := Prod.fst) hsc
  rw [hz, weighted_rates_eq]
  apply List.sum_eq_zero
  intro x hx
  obtain ⟨r, hr, rfl⟩ := List.mem_map.mp hx
  have : compSum r key subs = 0 := hbal r hr key
  simp [this]

end Invariants

section Elimination
variable {K : Type} [Field K]

/-- **One offered expression reproduces its row.**  For a row with `row idx = 1` (what the solver's pivot step
    establishes), the expression offered for `y idx`, `y₀ idx − Σ_{di < ny, di ≠ idx} row di · (y di − y₀ di)`, mentions
    neither `y idx` nor any `y di` whose coefficient vanishes, and any state `y` whose component `idx` equals it satisfies
    `row · (y − y₀) = 0`. -/
theorem elimination_reproduces_row (row y0 y : ℕ → K) (ny idx : ℕ) (h2 : idx < ny) (hone : row idx = 1) :
    (∀ y', (∀ di, di < ny → di ≠ idx → row di ≠ 0 → y di = y' di) →
        elimExpr row y0 y ny idx = elimExpr row y0 y' ny idx) ∧
      (y idx = elimExpr row y0 y ny idx →
        ((List.range ny).map fun di => row di * (y di - y0 di)).sum = 0) :=
  ⟨fun y' h => elimExpr_congr row y0 y y' ny idx h, elim_row row y0 y ny idx h2 hone⟩

variable [DecidableEq K]

/-- **Every elimination the analytic solver offers is explicit and reproduces the invariants** (repaired solver,
    fix 16e59b0).  For any matrix `M` (`m` rows, `ny` columns; chempy passes the reduced composition matrix), any
    `preferred` list and the pairs `(ri, idx)` recorded by phase 1 together with the final matrix `Mf`:
    (a) the row of one eliminated concentration has coefficient `0` on every *other* eliminated concentration, so
        (a') the offered expressions depend only on the concentrations that are not eliminated;
    (b) a state whose eliminated component equals its offered expression satisfies that row's invariant;
    (c) the rows of `Mf` annihilate exactly the vectors annihilated by the rows of `M`: nothing is lost or invented. -/
theorem offered_eliminations_sound (m ny : ℕ) (names : ℕ → σ) (npiv : ℕ) (M : Mat K) (preferred? : Option (List σ))
    (hnp : npiv ≤ m) :
    let res := elimPlan m ny names npiv M preferred?
    let Mf := res.1
    let chosen := res.2.1
    (∀ rc ∈ chosen, ∀ rc' ∈ chosen, rc ≠ rc' → entry Mf rc.1 rc'.2 = 0) ∧
    (∀ rc ∈ chosen, ∀ y0 y y' : ℕ → K, (∀ di, di < ny → (∀ rc' ∈ chosen, rc'.2 ≠ di) → y di = y' di) →
        elimExpr (entry Mf rc.1) y0 y ny rc.2 = elimExpr (entry Mf rc.1) y0 y' ny rc.2) ∧
    (∀ rc ∈ chosen, ∀ y0 y : ℕ → K, y rc.2 = elimExpr (entry Mf rc.1) y0 y ny rc.2 →
        ((List.range ny).map fun di => entry Mf rc.1 di * (y di - y0 di)).sum = 0) ∧
    (∀ v : ℕ → K, (∀ rj, rj < m → rowDot Mf ny rj v = 0) ↔ (∀ rj, rj < m → rowDot M ny rj v = 0)) := by
  intro res Mf chosen
  obtain ⟨hker, hunit, hpw, _⟩ := elimLoop_spec m ny names npiv 0 M preferred? (by omega)
  have hgen : ∀ (l : List (ℕ × ℕ)), (l.Pairwise fun a b => a.1 < b.1) →
      ∀ a ∈ l, ∀ b ∈ l, a ≠ b → a.1 ≠ b.1 := by
    intro l
    induction l with
    | nil => intro _ a ha; simp at ha
    | cons x t ih =>
      intro hl a ha b hb hne
      rw [List.pairwise_cons] at hl
      rcases List.mem_cons.mp ha with ea | ha' <;> rcases List.mem_cons.mp hb with eb | hb'
      · exact absurd (ea.trans eb.symm) hne
      · rw [ea]; exact Nat.ne_of_lt (hl.1 b hb')
      · rw [eb]; exact (Nat.ne_of_lt (hl.1 a ha')).symm
      · exact ih hl.2 a ha' b hb' hne
  have hrows : ∀ rc ∈ chosen, ∀ rc' ∈ chosen, rc ≠ rc' → rc.1 ≠ rc'.1 := hgen chosen hpw
  have ha : ∀ rc ∈ chosen, ∀ rc' ∈ chosen, rc ≠ rc' → entry Mf rc.1 rc'.2 = 0 := by
    intro rc hrc rc' hrc' hne
    obtain ⟨_, hlt, _, _⟩ := hunit rc hrc
    obtain ⟨_, _, _, hu⟩ := hunit rc' hrc'
    exact hu.2 rc.1 (by omega) (hrows rc hrc rc' hrc' hne)
  refine ⟨ha, ?_, ?_, hker⟩
  · intro rc hrc y0 y y' hfree
    apply elimExpr_congr
    intro di hdi hne hnz
    by_cases hex : ∃ rc' ∈ chosen, rc'.2 = di
    · obtain ⟨rc', hrc', rfl⟩ := hex
      have : rc ≠ rc' := fun e => hne (e ▸ rfl)
      exact absurd (ha rc hrc rc' hrc' this) hnz
    · exact hfree di hdi (fun rc' hrc' e => hex ⟨rc', hrc', e⟩)
  · intro rc hrc y0 y hy
    obtain ⟨_, _, hc, hu⟩ := hunit rc hrc
    exact elim_row (entry Mf rc.1) y0 y ny rc.2 hc hu.1 hy

/-- **All invariants are reproduced** when every row of the final matrix is served or zero (always the case for
    `preferred=None`, where each non-zero row gets a column): a state satisfying all offered eliminations satisfies
    every invariant `M[rj, :] · (y − y₀) = 0` of the original matrix. -/
theorem all_invariants_reproduced (m ny : ℕ) (names : ℕ → σ) (npiv : ℕ) (M : Mat K) (preferred? : Option (List σ))
    (hnp : npiv ≤ m) (y0 y : ℕ → K) :
    let res := elimPlan m ny names npiv M preferred?
    (∀ rj, rj < m → (∃ rc ∈ res.2.1, rc.1 = rj) ∨ ∀ di, di < ny → entry res.1 rj di = 0) →
    (∀ rc ∈ res.2.1, y rc.2 = elimExpr (entry res.1 rc.1) y0 y ny rc.2) →
    ∀ rj, rj < m → rowDot M ny rj (fun di => y di - y0 di) = 0 := by
  intro res hcover hall
  obtain ⟨_, _, hb, hc⟩ := offered_eliminations_sound m ny names npiv M preferred? hnp
  apply (hc (fun di => y di - y0 di)).mp
  intro rj hrj
  rcases hcover rj hrj with ⟨rc, hrc, rfl⟩ | hz
  · exact hb rc hrc y0 y (hall rc hrc)
  · unfold rowDot
    apply List.sum_eq_zero
    intro x hx
    obtain ⟨di, hdi, rfl⟩ := List.mem_map.mp hx
    have h0 : entry (elimPlan m ny names npiv M preferred?).1 rj di = 0 := hz di (List.mem_range.mp hdi)
    rw [h0]
    simp

/-- **For `preferred=None` the coverage hypothesis always holds**: if the rows of `M` from `npiv` on are zero (they are,
    for the reduced matrix: `npiv = len(pivots)` is its rank), then after phase 1 every row is served or zero.  Together with
    `all_invariants_reproduced`: with `preferred=None` a state satisfying all offered eliminations satisfies EVERY invariant. -/
theorem preferred_none_covers (m ny : ℕ) (names : ℕ → σ) (npiv : ℕ) (M : Mat K) (hnp : npiv ≤ m)
    (hzero : ∀ rj, npiv ≤ rj → rj < m → ∀ di, di < ny → entry M rj di = 0) :
    let res := elimPlan m ny names npiv M (none : Option (List σ))
    ∀ rj, rj < m → (∃ rc ∈ res.2.1, rc.1 = rj) ∨ ∀ di, di < ny → entry res.1 rj di = 0 := by
  intro res rj hrj
  obtain ⟨h1, h2⟩ := elimLoop_cover m ny names npiv 0 M (by omega)
  by_cases hlt : rj < npiv
  · exact h2 rj (by omega) (by omega)
  · exact Or.inr (h1 rj hrj (hzero rj (by omega) hrj))

theorem all_invariants_reproduced_preferred_none (m ny : ℕ) (names : ℕ → σ) (npiv : ℕ) (M : Mat K) (hnp : npiv ≤ m)
    (hzero : ∀ rj, npiv ≤ rj → rj < m → ∀ di, di < ny → entry M rj di = 0) (y0 y : ℕ → K) :
    let res := elimPlan m ny names npiv M (none : Option (List σ))
    (∀ rc ∈ res.2.1, y rc.2 = elimExpr (entry res.1 rc.1) y0 y ny rc.2) →
    ∀ rj, rj < m → rowDot M ny rj (fun di => y di - y0 di) = 0 :=
  fun hall => all_invariants_reproduced m ny names npiv M none hnp y0 y
    (preferred_none_covers m ny names npiv M hnp hzero) hall

/-- the input on which the solver before fix 16e59b0 offered `H2O` in terms of itself: reduced composition matrix of
    H2, O2, H2O, H+, OH-, H2O2 with `preferred = ["H2O", "OH-"]`.  The repaired loop serves H2O from row 0 and OH- from
    row 2, and both expressions are free of the other eliminated concentration. -/
def exRows : Mat ℚ := [[1, 0, 1, 0, 1, 1], [0, 1, 1/2, 0, 1/2, 1], [0, 0, 0, 1, -1, 0]]
def exNames : ℕ → String := fun i => ["H2", "O2", "H2O", "H+", "OH-", "H2O2"].getD i ""

example : (elimPlan 3 6 exNames 3 exRows (some ["H2O", "OH-"])).2.1 = [(0, 2), (2, 4)] ∧
    (elimPlan 3 6 exNames 3 exRows (some ["H2O", "OH-"])).2.2 = some [] ∧
    (elimPlan 3 6 exNames 3 exRows (some ["H2O", "OH-"])).1 =
      [[1, 0, 1, 1, 0, 1], [-1/2, 1, 0, 0, 0, 1/2], [0, 0, 0, -1, 1, 0]] := by decide +kernel

/-- coverage instantiated: `preferred=None` on the same matrix serves all three rows (pivot columns 0, 1, 3) -/
example : (elimPlan 3 6 exNames 3 exRows (none : Option (List String))).2.1 = [(0, 0), (1, 1), (2, 3)] ∧
    ∀ rj, rj < 3 → (∃ rc ∈ (elimPlan 3 6 exNames 3 exRows (none : Option (List String))).2.1, rc.1 = rj) ∨
      ∀ di, di < 6 → entry (elimPlan 3 6 exNames 3 exRows (none : Option (List String))).1 rj di = 0 := by decide +kernel

end Elimination

/-- **`composition_keys(skip_keys=…)` and the argument check of `linear_dependencies(preferred)`.**
    The keys returned with `skip_keys` are exactly the composition keys that are not skipped; a `preferred` list is refused
    (`ValueError`) exactly when it is empty, at least as long as the substance list, or names an unknown substance — and
    `preferred=None` is never refused. -/
theorem helper_specs (skip : List ℤ) (subs : Substances σ A) (x : ℤ) (pref keys : List σ) :
    (x ∈ compositionKeysSkipping skip subs ↔ x ∈ compositionKeys subs ∧ x ∉ skip) ∧
      (checkPreferred (some pref) keys = false ↔ pref = [] ∨ keys.length ≤ pref.length ∨ ∃ k ∈ pref, k ∉ keys) ∧
      checkPreferred (none : Option (List σ)) keys = true :=
  ⟨mem_compositionKeysSkipping skip subs x, checkPreferred_eq_false_iff pref keys, rfl⟩

omit [DecidableEq A] in
/-- **Violation helpers** (`mass_balance_violation`, `charge_neutrality_violation`): the helper sums
    `attr(s) · net r s`; for an attribute that is a linear combination `Σ_key w key · comp s key` of the composition
    (charge: `w 0 = 1`; mass: atomic weights, `w 0 = −mₑ`) it equals `Σ_key w key · (net production of key)`, hence it
    vanishes for a balanced reaction. -/
theorem violation_helpers (r : Reaction σ ρ) (subs : Substances σ A) (ks : List ℤ) (w : ℤ → A) :
    let attr := fun sc : σ × Option (Comp A) => (ks.map fun key => w key * compAt sc key).sum
    attrViolation r (subs.map fun sc => (sc.1, attr sc)) = (ks.map fun key => w key * compSum r key subs).sum ∧
      ((∀ key ∈ ks, compSum r key subs = 0) → attrViolation r (subs.map fun sc => (sc.1, attr sc)) = 0) := by
  intro attr
  have h := attrViolation_of_linear r subs ks w
  refine ⟨h, fun hz => ?_⟩
  rw [h]
  apply List.sum_eq_zero
  intro x hx
  obtain ⟨key, hk, rfl⟩ := List.mem_map.mp hx
  simp [hz key hk]

section GeneratedRhs
/-! ### C04 ∘ C05: the GENERATED ODE right-hand side conserves the reported composition vectors

`invariants_exact` is about `ReactionSystem.rates`; this is the same statement for the expressions `get_odesys` builds
(C04's model `buildRhs`, theorem `C04.rhs_is_kinetic_model`): for every accepted build without CSTR of a system whose
substances all carry compositions and whose reactions are balanced, every reported composition row `B_k` annihilates the vector
of generated expressions under EVERY binding `env` of the symbols: `Σ_i φ(B_k[i]) · ev env exprs[i] = 0` — i.e. `B·exprs ≡ 0`
as polynomials evaluated anywhere, for every parameter mode of the builder (inlined, free, substituted). -/
open ChemModel.OdeBuild

variable {A : Type} [CommRing A] [DecidableEq A] {R : Type} [CommRing R] [Algebra ℚ R]

/-- the reaction of C04's model as a reaction of the kinetics model, with the rate constant it has under `env` -/
def kinOf (subs : List (String × ℚ)) (env : String → R) (r : Rxn) : Reaction String R :=
  { reac := r.reac, prod := r.prod, inactReac := r.inactReac, inactProd := r.inactProd, param := kOf subs env r.param }

/-- the stoichiometry of a reaction of C04's model, without any rate parameter: all that `check_balance` reads -/
def stoichOf (r : Rxn) : Reaction String Unit :=
  { reac := r.reac, prod := r.prod, inactReac := r.inactReac, inactProd := r.inactProd, param := () }

theorem kineticRhs_eq_sum (subs : List (String × ℚ)) (env : String → R) (rxns : List Rxn) (s : String) :
    kineticRhs subs false env rxns s = ((rxns.map (kinOf subs env)).map fun r => contribution env r s).sum := by
  unfold kineticRhs
  simp only [Bool.false_eq_true, if_false, add_zero, List.map_map]
  congr 1

/-- **The generated ODE right-hand side conserves the reported composition vectors** (C04 ∘ C05). -/
theorem generated_rhs_conserves (φ : A →+* R) (comps : Substances String A) (cfg : Cfg) (sys : Sys) (o : OdeSys)
    (hkeys : dkeys comps = sys.subst) (hnd : sys.subst.Nodup) (hsub : (dkeys cfg.subs).Nodup)
    (hcstr : cfg.cstr = false)
    (h : buildRhs cfg sys = .ok o) (hnc : noCapture sys (dkeys cfg.subs) cfg.cstr = true) (env : String → R)
    (hbind : cfg.includeParams = false → ∀ r ∈ sys.rxns, ∀ uk k, r.param = .named uk k → uk ∉ dkeys cfg.subs →
      env uk = algebraMap ℚ R k)
    (hall : ∀ sc ∈ comps, ∃ comp, sc.2 = some comp) (hne : comps ≠ [])
    (hacc : checkBalance comps (sys.rxns.map stoichOf) false = .ok) :
    ∃ B ck, compositionBalanceVectors comps = .ok (B, ck) ∧
      ∀ row ∈ B, (List.zipWith (fun b e => φ b * ev env e) row o.exprs).sum = 0 := by
  obtain ⟨hnames, hlen, _, hexpr⟩ := ChemModel.C04.rhs_is_kinetic_model cfg sys o hnd hsub h hnc env hbind
  have hnone := firstWithoutComposition_eq_none_iff.mpr hall
  have hacc' : checkBalance comps (sys.rxns.map (kinOf cfg.subs env)) false = .ok := by
    rw [checkBalance_congr (kinOf cfg.subs env) stoichOf (fun _ _ => rfl)]; exact hacc
  have hbal := (accept_iff_balanced comps (sys.rxns.map (kinOf cfg.subs env)) false hall (Or.inl hne)).mp hacc'
  refine ⟨_, _, compositionBalanceVectors_eq comps hnone, ?_⟩
  intro row hrow
  obtain ⟨key, _, rfl⟩ := List.mem_map.mp hrow
  -- the expressions evaluate to the kinetic model, substance by substance
  have hev : o.exprs.map (ev env) = comps.map fun sc => kineticRhs cfg.subs false env sys.rxns sc.1 := by
    apply List.ext_getElem?
    intro i
    simp only [List.getElem?_map]
    have hs : sys.subst[i]? = (comps[i]?).map Prod.fst := by rw [← hkeys]; simp [dkeys]
    cases hc : comps[i]? with
    | none =>
      have : o.exprs[i]? = none := by
        rw [List.getElem?_eq_none_iff, hlen, ← hkeys]
        simpa [dkeys] using List.getElem?_eq_none_iff.mp hc
      simp [this]
    | some sc =>
      rw [hc] at hs
      obtain ⟨e, he, hv⟩ := hexpr i sc.1 (by simpa using hs)
      rw [he, hcstr] at *
      simp [hv]
  have hz : List.zipWith (fun b e => φ b * ev env e) (comps.map fun sc => compAt sc key) o.exprs =
      comps.map fun sc => φ (compAt sc key) * ((sys.rxns.map (kinOf cfg.subs env)).map fun r => contribution env r sc.1).sum := by
    have : List.zipWith (fun b e => φ b * ev env e) (comps.map fun sc => compAt sc key) o.exprs =
        List.zipWith (fun b v => φ b * v) (comps.map fun sc => compAt sc key) (o.exprs.map (ev env)) := by
      rw [List.zipWith_map_right]
    rw [this, hev, List.zipWith_map, List.zipWith_self]
    apply List.map_congr_left
    intro sc _
    rw [kineticRhs_eq_sum]
  rw [hz, weighted_rates_eq]
  apply List.sum_eq_zero
  intro x hx
  obtain ⟨r, hr, rfl⟩ := List.mem_map.mp hx
  have : compSum r key comps = 0 := hbal r hr key
  simp [this]

/-- `A2 -> 2 A` (k = 3) and `2 A -> A2` (named `kb = 5`), compositions `A2 = {1: 2}`, `A = {1: 1}` -/
def exDimer : Sys :=
  { subst := ["A2", "A"],
    rxns := [{ reac := [("A2", 1)], prod := [("A", 2)], param := .raw 3 },
             { reac := [("A", 2)], prod := [("A2", 1)], param := .named "kb" 5 }] }
def exDimerComps : Substances String ℚ := [("A2", some [(1, 2)]), ("A", some [(1, 1)])]

/-- the hypotheses of `generated_rhs_conserves` are satisfiable: both builds (inlined and free parameters) of the dimerisation
    system are accepted, the hydrogen row `[2, 1]` is reported and annihilates the generated expressions under EVERY binding -/
example (env : String → ℚ) : ∃ o, buildRhs {} exDimer = .ok o ∧ ∃ B ck, compositionBalanceVectors exDimerComps = .ok (B, ck) ∧
    B = [[2, 1]] ∧ ∀ row ∈ B, (List.zipWith (fun b e => (RingHom.id ℚ) b * ev env e) row o.exprs).sum = 0 := by
  refine ⟨_, rfl, ?_⟩
  obtain ⟨B, ck, hB, hrow⟩ := generated_rhs_conserves (RingHom.id ℚ) exDimerComps {} exDimer _ rfl (by decide) (by decide) rfl rfl
    (by decide +kernel) env (by intro h; cases h) (firstWithoutComposition_eq_none_iff.mp (by decide)) (by decide)
    (by decide +kernel)
  refine ⟨B, ck, hB, ?_, hrow⟩
  have : compositionBalanceVectors exDimerComps = .ok ([[2, 1]], [1]) := by decide +kernel
  rw [this] at hB
  cases hB
  rfl

example (env : String → ℚ) (hk : env "kb" = 5) : ∃ o, buildRhs { includeParams := false } exDimer = .ok o ∧
    ∃ B ck, compositionBalanceVectors exDimerComps = .ok (B, ck) ∧
      ∀ row ∈ B, (List.zipWith (fun b e => (RingHom.id ℚ) b * ev env e) row o.exprs).sum = 0 := by
  refine ⟨_, rfl, ?_⟩
  exact generated_rhs_conserves (RingHom.id ℚ) exDimerComps { includeParams := false } exDimer _ rfl (by decide) (by decide) rfl rfl
    (by decide +kernel) env
    (by
      intro _ r hr uk k hp _
      simp only [exDimer, List.mem_cons, List.mem_singleton, List.not_mem_nil, or_false] at hr
      rcases hr with rfl | rfl
      · cases hp
      · cases hp; simpa using hk)
    (firstWithoutComposition_eq_none_iff.mp (by decide)) (by decide) (by decide +kernel)

end GeneratedRhs

/-! ### The hypotheses are satisfiable: water formation / autoprotolysis -/

/-- H2, O2, H2O, H+, OH- with compositions (1 = H, 8 = O, 0 = charge) -/
def exSubs : Substances String ℤ :=
  [("H2", some [(1, 2)]), ("O2", some [(8, 2)]), ("H2O", some [(1, 2), (8, 1)]),
   ("H+", some [(0, 1), (1, 1)]), ("OH-", some [(0, -1), (1, 1), (8, 1)])]

def exRxns : List (Reaction String ℚ) :=
  [{ reac := [("H2", 2), ("O2", 1)], prod := [("H2O", 2)], param := 3 },
   { reac := [("H2O", 1)], prod := [("H+", 1), ("OH-", 1)], param := 1/2 }]

example : checkBalance exSubs exRxns false = .ok := by decide +kernel
example : compositionBalanceVectors exSubs = .ok ([[0, 0, 0, 1, -1], [2, 0, 2, 1, 1], [0, 2, 1, 0, 1]], [0, 1, 8]) := by
  decide +kernel
/-- unbalanced in charge ONLY: `Fe+3 -> Fe+2` with an explicit electron in the system (iron is conserved, the charge is not) -/
def exRedoxSubs : Substances String ℤ :=
  [("Fe+3", some [(0, 3), (26, 1)]), ("Fe+2", some [(0, 2), (26, 1)]), ("e-", some [(0, -1)]), ("hv", some [])]
def exChargeOnly : Reaction String ℚ := { reac := [("Fe+3", 1)], prod := [("Fe+2", 1)], inactProd := [("hv", 1)], param := 1 }
example : checkBalance exRedoxSubs [exChargeOnly] false = .violation 0 0 (-1) ∧
    compositionViolation exChargeOnly exRedoxSubs none = .ok ([-1, 0], [0, 26]) := by decide +kernel
/-- the same with the electron written out is accepted, also by the constructor -/
example : constructorAccepts exRedoxSubs
    [({ reac := [("Fe+3", 1), ("e-", 1)], prod := [("Fe+2", 1)], param := 1 } : Reaction String ℚ)] true = true := by decide +kernel
/-- a balanced reaction naming a species outside the system is refused by the constructor although `check_balance` accepts it -/
example : checkBalance exSubs [({ reac := [("H2O", 1)], prod := [("H+", 1), ("OH-", 1), ("X", 1)], param := 1 } : Reaction String ℚ)] false = .ok ∧
    constructorAccepts exSubs [({ reac := [("H2O", 1)], prod := [("H+", 1), ("OH-", 1), ("X", 1)], param := 1 } : Reaction String ℚ)] true = false := by
  decide +kernel
/-- unbalanced in hydrogen only, second reaction -/
example : checkBalance exSubs (exRxns ++ [{ reac := [("H2", 1)], prod := [], param := 1 }]) true = .violation 2 1 (-2) := by
  decide +kernel

example : compositionKeysSkipping [0] exSubs = [1, 8] ∧ compositionKeys exSubs = [0, 1, 8] ∧
    checkPreferred (some ([] : List String)) ["A", "B"] = false ∧ checkPreferred (some ["A", "B"]) ["A", "B"] = false ∧
    checkPreferred (some ["Q"]) ["A", "B"] = false ∧ checkPreferred (some ["B"]) ["A", "B"] = true := by decide +kernel

end ChemModel.C05
