/-
C13 — LaTeX, Unicode and HTML names show the same formula that was given.

Objects (Model/FormulaFormat.lean, Model/FormulaSpec.lean):
* `formulaToLatex / formulaToUnicode / formulaToHtml : List Char → Except FErr (List Char)` — the executable model of
  chempy's `formula_to_latex / _unicode / _html` (regex substitution on the raw text, as the code does it);
* `present P f` — the SPECIFICATION of a presentation of the formula AST `f`: mapped prefixes, every written count as
  `P.sub count`, hydrate separator as `P.infx`, leading hydrate count printed unless 1, the charge as
  `P.sup (magnitude ++ sign)` with magnitude 1 omitted, brackets and suffix verbatim; `latexPres / unicodePres / htmlPres`
  are built from the generated tables;
* `unLatex / unUnicode / unHtml` — the explicit inverse presentation maps (prefix symbols back to their keys, then a
  token scanner: `_{n}` ↦ `n`, `^{3+}` ↦ `+3`, `\cdot ` ↦ `..`, `\{` ↦ `{`, … and the HTML / Unicode analogues);
* `canon f` — `f` up to the presentation-only normalisations: separator written `..`, a hydrate count / charge magnitude
  `1` not written, no leading zeros in hydrate counts and charge magnitude, a zero charge token dropped.  Nothing else changes.
* `Formula.WF` — the (decidable) grammar of C01; `zeroCharge f` — a charge token is written and its value is zero (`+0`, `-00`):
  such a token gets no superscript (fix 5273246), `canon` drops it, and the composition of the undone text differs from the original
  only by the absent entry `0 ↦ 0`.

All theorems hold for every well-formed AST: unbounded nesting depth, length, digits.
LaTeX and `{ }` groups: `formula_to_latex` escapes the braces of the WHOLE text before splitting it; peeling, splitting and the
leading integer commute with that escaping (Proofs/FormulaFormatLatex.lean), so the LaTeX theorems cover all brackets as well.
-/
import ChemModel.Proofs.FormulaFormatCustom

namespace ChemModel.C13
open ChemModel.Formula ChemModel.FormulaFormat ChemModel.Gen

/-! ### guards: the hand-modelled shapes are the ones in the source -/

theorem digit_run_regex_guard : Render.digitRunRegex = "([0-9]+\\.[0-9]+|[0-9]+)" := by decide
/-- the replacement callback, in canonical form (lambda parameters alpha-renamed, printed by `ast.unparse`) -/
theorem digit_run_repl_guard : Render.digitRunRepl = "lambda _a0: sub(_a0.group(1))" := by decide
/-- the expression `formula_to_latex` passes as `formula` (canonical form): braces of the whole text escaped -/
theorem latex_formula_arg_guard :
    Render.latexFormulaArg = "re.sub('([{}])', '\\\\\\\\\\\\1', formula) if re.search('[{}]', formula) else formula" := by decide
theorem other_formula_args_guard : Render.unicodeFormulaArg = "formula" ∧ Render.htmlFormulaArg = "formula" := by decide
theorem infix_source_guard : Render.infixSource = ['.', '.'] := by decide
theorem default_tables_guard :
    Render.latexDefaultPrefixes = "_latex_mapping" ∧ Render.latexDefaultInfixes = "_latex_infix_mapping" ∧
    Render.unicodeDefaultPrefixes = "_unicode_mapping" ∧ Render.unicodeDefaultInfixes = "_unicode_infix_mapping" ∧
    Render.htmlDefaultPrefixes = "_html_mapping" ∧ Render.htmlDefaultInfixes = "_html_infix_mapping" := by decide
theorem callbacks_guard :
    Render.latexSubIsTemplate = true ∧ Render.latexSupIsTemplate = true ∧ Render.htmlSubIsTemplate = true ∧
    Render.htmlSupIsTemplate = true ∧ Render.unicodeSubIsTemplate = false ∧ Render.unicodeSupIsTemplate = false ∧
    Render.unicodeSubTable = "_unicode_sub" ∧ Render.unicodeSupTable = "_unicode_sup" := by decide
/-- the suffix lists of `_formula_to_format`, `formula_to_composition` and `Species.from_formula` (default phases) coincide -/
theorem suffix_lists_guard :
    Render.formatSuffixesL = suffixesL ∧ speciesSuffixesL = suffixesL ∧
    speciesPhases.map String.toList = suffixesL.take 3 ∧ speciesExtraSuffixes = [['(', 'a', 'q', ')']] := by decide
theorem printer_name_attrs_guard :
    Render.texNameAttr = "latex_name" ∧ Render.prettyNameAttr = "unicode_name" ∧ Render.webNameAttr = "html_name" := by decide

/-! ### tables -/

/-- sub / superscript tables are injective (no two characters share a sub / superscript), and cover all digits and signs -/
theorem sub_sup_tables_injective :
    (Render.unicodeSub.map Prod.snd).Nodup ∧ (Render.unicodeSup.map Prod.snd).Nodup ∧
    (∀ d ∈ digitChars, (Render.unicodeSub.lookup d).isSome = true ∧ (Render.unicodeSup.lookup d).isSome = true) ∧
    (Render.unicodeSup.lookup '+').isSome = true ∧ (Render.unicodeSup.lookup '-').isSome = true ∧
    (∀ kv ∈ Render.unicodeSub, ∀ kw ∈ Render.unicodeSup, kv.2 ≠ kw.2) := by decide

/-- the three prefix maps have exactly the default prefixes as keys, and are injective -/
theorem prefix_maps_injective :
    Render.latexMap.map Prod.fst = prefixesL ∧ Render.unicodeMap.map Prod.fst = prefixesL ∧ Render.htmlMap.map Prod.fst = prefixesL ∧
    (Render.latexMap.map Prod.snd).Nodup ∧ (Render.unicodeMap.map Prod.snd).Nodup ∧ (Render.htmlMap.map Prod.snd).Nodup := by
  decide +kernel

/-- no prefix symbol is an initial segment of another one (so a run of prefix symbols splits in one way only) -/
theorem prefix_symbols_prefix_free :
    (Render.latexMap.map Prod.snd).Pairwise PrefIncomp ∧ (Render.unicodeMap.map Prod.snd).Pairwise PrefIncomp ∧
    (Render.htmlMap.map Prod.snd).Pairwise PrefIncomp :=
  ⟨latexUnSpec.vals_incomp, unicodeUnSpec.vals_incomp, htmlUnSpec.vals_incomp⟩

/-- every greek prefix is shown as ITS OWN letter (regression for the repaired `_subs` overlap: `beta-`, `zeta-`, `theta-`):
    for the i-th greek name `g` and the i-th greek letter `u`: Unicode `g-` ↦ `u-`, HTML `g-` ↦ `&g;-`, LaTeX `g-` ↦ `\g-` except
    `\varepsilon-` for epsilon and a plain `o-` for omicron; the radical dot has its own symbol per format -/
theorem greek_prefixes_own_letter :
    Render.greekLetters.length = 24 ∧ Render.greekU.length = 24 ∧
    (List.range 24).all (fun i =>
      match Render.greekLetters[i]?, Render.greekU[i]? with
      | some g, some u =>
        decide (Render.unicodeMap.lookup (g ++ ['-']) = some [u, '-'] ∧
          Render.htmlMap.lookup (g ++ ['-']) = some ('&' :: (g ++ [';', '-'])) ∧
          Render.latexMap.lookup (g ++ ['-']) =
            some (if g = "epsilon".toList then "\\varepsilon-".toList else if g = "omicron".toList then "o-".toList
                  else '\\' :: (g ++ ['-'])))
      | _, _ => false) = true ∧
    Render.latexMap.lookup ['.'] = some "^\\bullet ".toList ∧ Render.unicodeMap.lookup ['.'] = some ['⋅'] ∧
    Render.htmlMap.lookup ['.'] = some "&sdot;".toList := by
  decide +kernel

/-- the greek names and letters are the reference alphabet (the property: "greek prefixes map to their symbols"); this is the one place
    where a table is compared with a literal, because here the literal is the specification -/
theorem greek_reference :
    Render.greekLetters = ["alpha", "beta", "gamma", "delta", "epsilon", "zeta", "eta", "theta", "iota", "kappa", "lambda", "mu", "nu", "xi",
      "omicron", "pi", "rho", "sigma", "tau", "upsilon", "phi", "chi", "psi", "omega"].map String.toList ∧
    Render.greekU = "αβγδεζηθικλμνξοπρστυφχψω".toList := by decide

/-- the hydrate separator symbol of each format (what `_subs("..", infixes)` evaluates to): `\\cdot `, `·` (U+00B7), `&sdot;` -/
theorem infix_reference :
    subs Render.infixSource Render.latexInfixMap = "\\cdot ".toList ∧
    subs Render.infixSource Render.unicodeInfixMap = ['·'] ∧
    subs Render.infixSource Render.htmlInfixMap = "&sdot;".toList ∧
    latexPres.infx = "\\cdot ".toList ∧ unicodePres.infx = ['·'] ∧ htmlPres.infx = "&sdot;".toList := by decide

/-! ### the charge token -/

/-- **magnitude-then-sign, 1 omitted**: for a written charge of value `v ≠ 0` the superscript text is the decimal digits of `|v|`
    (nothing when `|v| = 1`, no leading zeros) followed by exactly one sign character -/
theorem charge_magnitude_then_sign (c : Charge) (h : c.val ≠ 0) :
    chargeToken c.val = some (chargeTok c) ∧
    chargeTok c = (if c.val.natAbs = 1 then [] else natStr c.val.natAbs) ++ [if c.val < 0 then '-' else '+'] := by
  refine ⟨chargeToken_val c h, ?_⟩
  obtain ⟨neg, mag⟩ := c
  cases mag with
  | none => cases neg <;> simp [chargeTok, Charge.val]
  | some ds =>
    have hm : digitsVal ds ≠ 0 := by intro e; apply h; simp [Charge.val, e]
    cases neg with
    | false =>
      have h1 : ¬ ((digitsVal ds : Nat) : Int) < 0 := by omega
      simp [chargeTok, Charge.val, h1]
    | true =>
      have h1 : (-1 : Int) * ((digitsVal ds : Nat) : Int) < 0 := by omega
      have h2 : ((-1 : Int) * ((digitsVal ds : Nat) : Int)).natAbs = digitsVal ds := by omega
      simp only [chargeTok, Charge.val, if_true, h1, h2]

/-- **which charge texts `_get_charge` accepts** (the refusal half of the charge clause): exactly a sign followed by nothing (magnitude 1)
    or by a sign-free text that `int()` accepts (ASCII digits, as modelled by C01's `pyInt` also with surrounding blanks / single underscores).
    Hence a magnitude in front of the sign (`3+`), text on both sides (`1+2`), both signs (`+-`), a repeated sign (`++`) and a text
    without sign are all refused (ValueError). -/
theorem get_charge_ok_iff (t : Str) :
    (∃ q, getCharge t = .ok q) ↔
      ∃ sg rest, t = sg :: rest ∧ (sg = '+' ∨ sg = '-') ∧
        (rest = [] ∨ ('+' ∉ rest ∧ '-' ∉ rest ∧ (pyInt rest).isSome = true)) :=
  getCharge_ok_iff t

/-! ### presentation only: what the three functions return on a written formula -/

/-- **Unicode.** For every well-formed formula the real function returns exactly the presentation of the AST:
    prefixes as their symbols, EVERY written count as one run of subscript digits (a decimal count keeps all its digits and
    its point), nothing else subscripted, the hydrate separator as `·`, the leading hydrate count printed iff it is not 1, the charge
    as one superscript magnitude-then-sign, brackets / states / marks / suffix verbatim. -/
theorem presentation_only_unicode (f : Formula) (h : f.WF) :
    formulaToUnicode f.render = .ok (present unicodePres f) := by
  unfold formulaToUnicode toUnicode
  rw [suffix_lists_guard.1]
  exact formulaToFormat_render unicodeFmtSpec f h (fun q _ => termsBrAll_true q.terms) _ (sfxOK_default f (Formula.wfd f h))

/-- **HTML.** The same with `<sub>n</sub>`, `<sup>q</sup>`, `&sdot;`, `&alpha;-` … -/
theorem presentation_only_html (f : Formula) (h : f.WF) :
    formulaToHtml f.render = .ok (present htmlPres f) := by
  unfold formulaToHtml toHtml
  rw [suffix_lists_guard.1]
  exact formulaToFormat_render htmlFmtSpec f h (fun q _ => termsBrAll_true q.terms) _ (sfxOK_default f (Formula.wfd f h))

/-- **LaTeX** (`_{n}`, `^{q}`, `\\cdot `, `\\alpha-` …; `{ }` groups shown as `\\{ … \\}`): all brackets, any depth. -/
theorem presentation_only_latex (f : Formula) (h : f.WF) :
    formulaToLatex f.render = .ok (present latexPres f) := by
  unfold formulaToLatex
  rw [suffix_lists_guard.1]
  exact toLatex_render f h _ (sfxOK_default f (Formula.wfd f h))

/-- **phase suffixes are kept verbatim — for ANY suffix tuple** (`suffixes=` of `formula_to_latex/_unicode/_html`, hence also the
    `tuple(phases) + ("(aq)",)` of `Species.from_formula` with custom phases such as `(cr)`), stated directly on the text, no AST needed:
    let the text be `s ++ t` with `t` one of the suffixes handed over, distinct suffixes not ending one another, no prefix key straddling
    the boundary between `s` and `t`, and what is left of `s` after its prefixes not itself ending in one of the suffixes.  Then formatting
    `s ++ t` is formatting `s` and appending `t` unchanged — the same text when `s` formats, the same exception when it does not
    (so this is also the success characterisation: `s ++ t` is accepted iff `s` is). -/
theorem suffix_kept_verbatim (F : Fmt) (sfx : List Str) (s t : Str)
    (ht : t ∈ sfx)
    (hinc : ∀ a ∈ sfx, ∀ b ∈ sfx, a ≠ b → ¬ a <:+ b)
    (hpre : ∀ p ∈ F.prefixes.map Prod.fst, ∀ a ∈ tailsOf s, p <+: a ++ t → p <+: a)
    (hends : ∀ u ∈ sfx, ¬ u <:+ (stripPrefixes (F.prefixes.map Prod.fst) s).2) :
    formulaToFormat F sfx (s ++ t) = (formulaToFormat F sfx s).map (· ++ t) ∧
    ((∃ r, formulaToFormat F sfx (s ++ t) = .ok r) ↔ (∃ r, formulaToFormat F sfx s = .ok r)) := by
  have h := formulaToFormat_suffix F sfx s t ht hinc hpre hends
  refine ⟨h, ?_⟩
  rw [h]
  cases formulaToFormat F sfx s with
  | error e => simp [Except.map]
  | ok r => simp [Except.map]

/-- the same for `formula_to_latex` (whose brace escaping leaves a brace-free suffix alone) and the other two public functions -/
theorem suffix_kept_verbatim_public (sfx : List Str) (s t : Str)
    (ht : t ∈ sfx) (hinc : ∀ a ∈ sfx, ∀ b ∈ sfx, a ≠ b → ¬ a <:+ b) (htb : NoBrace t)
    (hpre : ∀ p ∈ prefixesL, ∀ a ∈ tailsOf (escapeBraces s), p <+: a ++ t → p <+: a)
    (hpre' : ∀ p ∈ prefixesL, ∀ a ∈ tailsOf s, p <+: a ++ t → p <+: a)
    (hends : ∀ u ∈ sfx, ¬ u <:+ (stripPrefixes prefixesL (escapeBraces s)).2)
    (hends' : ∀ u ∈ sfx, ¬ u <:+ (stripPrefixes prefixesL s).2) :
    toLatex sfx (s ++ t) = (toLatex sfx s).map (· ++ t) ∧
    toUnicode sfx (s ++ t) = (toUnicode sfx s).map (· ++ t) ∧
    toHtml sfx (s ++ t) = (toHtml sfx s).map (· ++ t) := by
  refine ⟨?_, ?_, ?_⟩
  · unfold toLatex
    rw [E_append, escapeBraces_noBrace htb]
    exact formulaToFormat_suffix latexFmt sfx _ t ht hinc (by rw [latexFmtSpec.keys]; exact hpre) (by rw [latexFmtSpec.keys]; exact hends)
  · exact formulaToFormat_suffix unicodeFmt sfx s t ht hinc (by rw [unicodeFmtSpec.keys]; exact hpre') (by rw [unicodeFmtSpec.keys]; exact hends')
  · exact formulaToFormat_suffix htmlFmt sfx s t ht hinc (by rw [htmlFmtSpec.keys]; exact hpre') (by rw [htmlFmtSpec.keys]; exact hends')

/-- **presentation of a formula written with ANY suffix, for ANY suffix tuple** (outside the vocabulary `(s) (l) (g) (aq)`: `(cr)`, custom
    strings).  Let `f` be written with the suffix `w` (`f.suffix = some w`, `w` arbitrary text), `f` without that suffix well-formed, and let
    the tuple fit (`SfxFits`: it contains `w`, distinct entries do not end one another, no entry ends the text before the suffix; entries free
    of braces / backslash for LaTeX).  Then all three functions succeed and return exactly the presentation of the AST — `w` verbatim at the end. -/
theorem presentation_only_custom_suffix (f : Formula) (w : Str) (hs : f.suffix = some w) (h0 : (noSuffix f).WF)
    (sfx : List Str) (hok : SfxFits sfx f w) (hsp : ∀ s ∈ sfx, ∀ c ∈ s, spB c = true) :
    toLatex sfx f.render = .ok (present latexPres f) ∧
    toUnicode sfx f.render = .ok (present unicodePres f) ∧
    toHtml sfx f.render = .ok (present htmlPres f) :=
  ⟨toLatex_custom f w hs h0 sfx hok hsp,
   formulaToFormat_custom unicodeFmtSpec f w hs h0 (fun q _ => termsBrAll_true q.terms) sfx hok,
   formulaToFormat_custom htmlFmtSpec f w hs h0 (fun q _ => termsBrAll_true q.terms) sfx hok⟩

/-! ### undoing the presentation -/

/-- the inverse map of each format, applied to the presentation of ANY well-formed formula (all brackets, any depth), gives back
    the formula text up to `canon` -/
theorem unLatex_present (f : Formula) (h : f.WF) : unLatex (present latexPres f) = (canon f).render :=
  unFormat_present latexUnSpec f h
theorem unUnicode_present (f : Formula) (h : f.WF) : unUnicode (present unicodePres f) = (canon f).render :=
  unFormat_present unicodeUnSpec f h
theorem unHtml_present (f : Formula) (h : f.WF) : unHtml (present htmlPres f) = (canon f).render :=
  unFormat_present htmlUnSpec f h

/-- a charge written with value zero is not shown: the presentation is that of the formula without the token -/
theorem zero_charge_not_shown (P : Pres) (f : Formula) (hz : zeroCharge f = true) :
    present P f = present P { f with charge := none } := by
  unfold zeroCharge at hz
  cases hc : f.charge with
  | none => rw [hc] at hz; exact absurd hz (by decide)
  | some c =>
    rw [hc] at hz
    have : c.val = 0 := by simpa using hz
    simp [present, presCharge, hc, this]

/-- **`canon` is presentation-only**: same prefixes, same suffix, same term lists, the same element occurrences (hence the same amount
    of every element), the same value of the charge (`denote f 0`; a zero charge token is dropped, value 0 either way); the composition
    dict is the same, except that a charge written with value zero no longer contributes the entry `0 ↦ 0`.  Its text differs from the
    original only in the separator (`..`), in a hydrate count / charge magnitude `1` (not written), in leading zeros of those, and
    in a dropped `+0`.  It is again well-formed (for a dropped zero charge: provided the last term does not end in a phase-like state
    such as `H2O(aq)+0`, whose `(aq)` would then read as the suffix). -/
theorem canon_same_formula (f : Formula) (h : f.WF) :
    (canon f).prefixes = f.prefixes ∧ (canon f).suffix = f.suffix ∧
    (canon f).occurrences = f.occurrences ∧ (∀ k, (canon f).denote k = f.denote k) ∧
    (canon f).composition = (if zeroCharge f = true then mergeComp f.occurrences else f.composition) ∧
    (zeroCharge f = true → f.composition = setKey 0 0 (mergeComp f.occurrences)) ∧
    (canon f).parts.map Part.terms = f.parts.map Part.terms ∧
    ((canon f).charge.isSome = (f.charge.isSome && !zeroCharge f)) ∧
    ((zeroCharge f = true → lastFinalOK f.parts = true) → (canon f).WF) :=
  ⟨rfl, rfl, canon_occurrences f, canon_denote f, canon_composition f, zero_composition f,
   by simp [canon, canonPart, Function.comp_def],
   by
    cases hc : f.charge with
    | none => simp [canon, hc, zeroCharge]
    | some c => by_cases hz : c.val = 0 <;> simp [canon, hc, zeroCharge, canonChargeOpt, hz],
   canon_wf f h⟩

/-- a formula already in canonical writing is left alone: then `unX (toX text) = text` literally -/
theorem canon_fixed (f : Formula) (hs : f.sep = .dots) (hz : zeroCharge f = false)
    (hp : ∀ p ∈ f.parts, ∀ ds, p.n = some ds → digitsVal ds ≠ 1 ∧ natStr (digitsVal ds) = ds)
    (hc : ∀ c, f.charge = some c → ∀ ds, c.mag = some ds → digitsVal ds ≠ 1 ∧ natStr (digitsVal ds) = ds) :
    (canon f).render = f.render := by
  have h1 : f.parts.map canonPart = f.parts := by
    conv => rhs; rw [← List.map_id f.parts]
    apply List.map_congr_left
    intro p hpm
    obtain ⟨n, ts⟩ := p
    cases n with
    | none => rfl
    | some ds =>
      obtain ⟨a, b⟩ := hp _ hpm ds rfl
      simp [canonPart, canonN, a, b]
  have h2 : f.charge.bind canonChargeOpt = f.charge := by
    cases hch : f.charge with
    | none => rfl
    | some c =>
      have hv : c.val ≠ 0 := by
        intro e; simp [zeroCharge, hch, e] at hz
      obtain ⟨neg, mag⟩ := c
      cases mag with
      | none => simp [canonChargeOpt, hv, canonCharge, canonN]
      | some ds =>
        obtain ⟨a, b⟩ := hc _ hch ds rfl
        simp [canonChargeOpt, hv, canonCharge, canonN, a, b]
  simp [Formula.render, canon, Formula.renderStoich, h1, h2, hs]

/-- **Unicode round trip**: undoing the presentation of the real output gives the canonical text of the formula given -/
theorem unUnicode_toUnicode (f : Formula) (h : f.WF) :
    ∃ out, formulaToUnicode f.render = .ok out ∧ unUnicode out = (canon f).render :=
  ⟨_, presentation_only_unicode f h, unUnicode_present f h⟩

/-- **HTML round trip** -/
theorem unHtml_toHtml (f : Formula) (h : f.WF) :
    ∃ out, formulaToHtml f.render = .ok out ∧ unHtml out = (canon f).render :=
  ⟨_, presentation_only_html f h, unHtml_present f h⟩

/-- **LaTeX round trip** -/
theorem unLatex_toLatex (f : Formula) (h : f.WF) :
    ∃ out, formulaToLatex f.render = .ok out ∧ unLatex out = (canon f).render :=
  ⟨_, presentation_only_latex f h, unLatex_present f h⟩

/-- **same composition, charge, prefixes, suffix**: the text obtained by undoing any of the three presentations parses (C01's
    `parse_render`) to a dict that is exactly the denotation of the ORIGINAL formula: no duplicate keys; its keys are the written elements,
    plus 0 iff a charge with a NON-ZERO value is written (the only difference a presentation can make: `Fe+0` comes back as `Fe`, i.e. without
    the entry `0 ↦ 0`); every value is the written amount / the signed charge; and the text carries the original prefixes and suffix. -/
theorem undone_parses_same (f : Formula) (h : f.WF) (hz : zeroCharge f = true → lastFinalOK f.parts = true) :
    ∃ c, formulaToCompositionL (canon f).render = .ok c ∧ (Comp.keys c).Nodup ∧
      (∀ k, k ∈ Comp.keys c ↔ (k ∈ Comp.keys f.occurrences ∨ (k = 0 ∧ f.charge.isSome = true ∧ zeroCharge f = false))) ∧
      (∀ k ∈ Comp.keys c, Comp.get? c k = some (f.denote k)) ∧ (∀ k, k ∉ Comp.keys c → Comp.get? c k = none) ∧
      (canon f).prefixes = f.prefixes ∧ (canon f).suffix = f.suffix := by
  obtain ⟨c, hc, ha⟩ := parse_render' (canon f) (canon_wf f h hz)
  refine ⟨c, hc, ha.nodup, ?_, ?_, ha.absent, rfl, rfl⟩
  · intro k
    have hsome : (canon f).charge.isSome = (f.charge.isSome && !zeroCharge f) := (canon_same_formula f h).2.2.2.2.2.2.2.1
    rw [ha.keys k, canon_occurrences, hsome]
    simp
  · intro k hk
    rw [ha.value k hk, canon_denote]

/-! ### substances and species -/

/-- `phaseIdx` (the `p_i` computation of `Species.from_formula`) on a written formula: for ANY `phases` over the suffix vocabulary
    `(s) (l) (g) (aq)` — sequence (position + 1) or dict (its value), any order — and any default, the index is the one the WRITTEN SUFFIX
    selects (`selectIdx`: first entry equal to the suffix), whatever precedes the suffix; the default when it selects nothing. -/
theorem phase_idx_spec (f : Formula) (h : f.WF) (phases : Phases) (dflt : Option Int)
    (hsub : ∀ s ∈ phases.keys, s ∈ suffixesL) :
    phaseIdx phases dflt f.render = (match selectIdx phases f.suffix with | some i => some i | none => dflt) :=
  phaseIdx_render f (Formula.wfd f h) phases hsub dflt

/-- **a substance or species created from a written formula carries the three names, that composition, and the phase index its suffix
    selects** — jointly.  For every well-formed `f`, every `phases` (sequence or dict) over the vocabulary `(s) (l) (g) (aq)` that lists the
    suffix `f` is written with (`(aq)` is always admitted: the repaired `Species.from_formula` strips `tuple(phases) + ("(aq)",)`), and every
    `default_phase_idx`:
    * there is a dict `c` — the model of `formula_to_composition` on the text — that agrees with the denotation of `f` (C01);
    * `Substance.from_formula` succeeds with name = the text, the three names = the three presentations of `f`, composition `c`;
    * `Species.from_formula` raises ValueError exactly when the suffix selects no index and the default is None; otherwise it succeeds with the
      same names and composition and `phase_idx` = the selected index (else the default). -/
theorem species_spec (f : Formula) (h : f.WF) (phases : Phases) (dflt : Option Int)
    (hsub : ∀ s ∈ phases.keys, s ∈ suffixesL)
    (hmem : ∀ s, f.suffix = some s → s ∈ phases.keys ∨ s = ['(', 'a', 'q', ')']) :
    ∃ c, formulaToCompositionL f.render = .ok c ∧ Agrees f c ∧
      substanceFromFormula f.render
        = .ok ⟨f.render, present latexPres f, present unicodePres f, present htmlPres f, c, none⟩ ∧
      speciesFromFormula phases dflt f.render =
        (match (match selectIdx phases f.suffix with | some i => some i | none => dflt) with
         | none => .error "ValueError"
         | some i => .ok ⟨f.render, present latexPres f, present unicodePres f, present htmlPres f, c, some i⟩) := by
  obtain ⟨c, hc, ha⟩ := parse_render' f h
  refine ⟨c, hc, ha, substanceFromFormula_render f h c hc, speciesFromFormula_render f h phases dflt hsub ?_ c hc⟩
  intro s hs
  rcases hmem s hs with h1 | h1
  · exact List.mem_append.mpr (Or.inl h1)
  · exact List.mem_append.mpr (Or.inr (by rw [suffix_lists_guard.2.2.2, h1]; simp))

/-- **an explicit `phase_idx` keyword wins**: `Species.from_formula(text, phases, default, phase_idx=i)` carries exactly `i` — whatever
    the suffix would select, whatever the default (also `None`: nothing is refused on account of the phase) — together with the same three
    names and the same composition as in `species_spec`. -/
theorem species_explicit_idx_spec (f : Formula) (h : f.WF) (phases : Phases) (i : Int)
    (hsub : ∀ s ∈ phases.keys, s ∈ suffixesL)
    (hmem : ∀ s, f.suffix = some s → s ∈ phases.keys ∨ s = ['(', 'a', 'q', ')']) :
    ∃ c, formulaToCompositionL f.render = .ok c ∧ Agrees f c ∧
      speciesFromFormulaIdx phases i f.render
        = .ok ⟨f.render, present latexPres f, present unicodePres f, present htmlPres f, c, some i⟩ := by
  obtain ⟨c, hc, ha⟩ := parse_render' f h
  refine ⟨c, hc, ha, speciesFromFormulaIdx_render f h phases i hsub ?_ c hc⟩
  intro s hs
  rcases hmem s hs with h1 | h1
  · exact List.mem_append.mpr (Or.inl h1)
  · exact List.mem_append.mpr (Or.inr (by rw [suffix_lists_guard.2.2.2, h1]; simp))

/-- **species with custom phases** (`phases` — sequence or dict — over ANY strings, e.g. `("(cr)", "(am)")`; the written suffix `w` arbitrary):
    if `phases ++ ("(aq)",)` fits the formula (`SfxFits`), then there is a dict `c` agreeing with the denotation of the formula (C01), and
    `Species.from_formula` raises ValueError exactly when `w` selects no index and the default is None, else succeeds with the three
    presentations (suffix verbatim), composition `c`, and `phase_idx` = the index `w` selects in `phases` (else the default). -/
theorem species_custom_spec (f : Formula) (w : Str) (hs : f.suffix = some w) (h0 : (noSuffix f).WF)
    (phases : Phases) (dflt : Option Int)
    (hok : SfxFits (phases.keys ++ speciesExtraSuffixes) f w)
    (hsp : ∀ s ∈ phases.keys ++ speciesExtraSuffixes, ∀ c ∈ s, spB c = true) :
    ∃ c, formulaToCompositionL (noSuffix f).render = .ok c ∧ Agrees (noSuffix f) c ∧
      speciesFromFormula phases dflt f.render =
        (match (match selectIdx phases (some w) with | some i => some i | none => dflt) with
         | none => .error "ValueError"
         | some i => .ok ⟨f.render, present latexPres f, present unicodePres f, present htmlPres f, c, some i⟩) := by
  obtain ⟨c, hc, ha⟩ := parse_render' (noSuffix f) h0
  exact ⟨c, hc, ha, speciesFromFormula_custom f w hs h0 phases dflt hok hsp c hc⟩

/-! ### printed reactions -/

/-- the arrow of each printer (reaction / equilibrium) -/
def arrowText : Printer → Bool → Str
  | .str, false => "->".toList | .str, true => "=".toList
  | .latex, false => "\\rightarrow".toList | .latex, true => "\\rightleftharpoons".toList
  | .unicode, false => "→".toList | .unicode, true => "⇌".toList
  | .html, false => "&rarr;".toList | .html, true => "&harr;".toList

/-- an inactive group: ` + ( a + b)` when it has terms -/
def groupText (l : List Str) : Str := if l = [] then [] else " + ( ".toList ++ (joinStrs " + ".toList l ++ [')'])

/-- **a printed reaction / equilibrium shows, side by side in stored order, each coefficient (omitted when 1) and the RENDERED name of its
    species around that format's arrow.**  Let every species be written as a formula that is either absent from `substances` (its key is then
    shown as it is) or well-formed and listed there with the substance `Substance.from_formula` makes of it (`Known` / `Listed`; mixed tables allowed).  Then the text printed by the str / LaTeX / Unicode / HTML printer is:
    the reactant terms joined by ` + `, the inactive reactants as ` + ( … )`, a blank, that printer's arrow (`arrowText`), a blank, the product
    terms, the inactive products; where each term (`sideTexts`) is `str(coefficient)` and a blank — nothing when the coefficient equals 1, so
    `1/2` IS printed — followed by `shownName`: the raw key for an unlisted species, else the formula's text (str printer) resp. its LaTeX / Unicode / HTML PRESENTATION `present … f`; a term whose
    coefficient is 0 is not shown; the order is the stored order. -/
theorem reaction_print_spec (p : Printer) (eq : Bool) (S : List (Str × Substance)) (reac prod ir ip : List (Formula × Rat))
    (hS : ∀ fq ∈ reac ++ (prod ++ (ir ++ ip)), Known S fq.1) :
    printReaction p eq S (keyed reac) (keyed prod) (keyed ir) (keyed ip) =
      joinStrs " + ".toList (sideTexts p S reac) ++ (groupText (sideTexts p S ir) ++ ([' '] ++ (arrowText p eq ++ ([' '] ++
      (joinStrs " + ".toList (sideTexts p S prod) ++ groupText (sideTexts p S ip)))))) := by
  have h1 := printSide_formulas p S reac (fun x hx => hS x (by simp [hx]))
  have h2 := printSide_formulas p S prod (fun x hx => hS x (by simp [hx]))
  have h3 := printSide_formulas p S ir (fun x hx => hS x (by simp [hx]))
  have h4 := printSide_formulas p S ip (fun x hx => hS x (by simp [hx]))
  have hg : ∀ l, inactText Printing.inactOpen Printing.inactJoin Printing.inactClose l = groupText l := by
    intro l; cases l <;> rfl
  have hg' : ∀ l, inactText Printing.inactOpenProd Printing.inactJoinProd Printing.inactCloseProd l = groupText l := by
    intro l; cases l <;> rfl
  unfold printReaction
  rw [h1, h2, h3, h4, hg, hg']
  cases p <;> cases eq <;> rfl

/-! ### non-vacuity: concrete instances of the hypotheses and of the functions -/

private def el (z : Nat) (n : Cnt := .omitted) : Term := .elem z n none []

/-- `beta-.Ca2.832(OH)2·01H2O-012(s)`: two prefixes, a decimal count, a group, a hydrate part written `01`, a charge written `-012`, a suffix -/
private def f0 : Formula :=
  { prefixes := ["beta-".toList, ['.']], sep := .cdot,
    parts := [⟨none, Terms.ofList [el 20 (.dec ['2'] ['8', '3', '2']), .group .paren (Terms.ofList [el 8, el 1]) (.int ['2']) none []]⟩,
              ⟨some ['0', '1'], Terms.ofList [el 1 (.int ['2']), el 8]⟩],
    charge := some ⟨true, some ['0', '1', '2']⟩, suffix := some "(s)".toList }

example : f0.WF ∧ zeroCharge f0 = false ∧ noCurly f0 = true := by decide
example : f0.render = "beta-.Ca2.832(OH)2·01H2O-012(s)".toList := by decide
example : (canon f0).render = "beta-.Ca2.832(OH)2..H2O-12(s)".toList := by decide
example : (formulaToLatex f0.render).toOption = some "\\beta-^\\bullet Ca_{2.832}(OH)_{2}\\cdot H_{2}O^{12-}(s)".toList := by decide +kernel
example : (formulaToUnicode f0.render).toOption = some "β-⋅Ca₂.₈₃₂(OH)₂·H₂O¹²⁻(s)".toList := by decide +kernel
example : (formulaToHtml f0.render).toOption = some "&beta;-&sdot;Ca<sub>2.832</sub>(OH)<sub>2</sub>&sdot;H<sub>2</sub>O<sup>12-</sup>(s)".toList := by
  decide +kernel
example : (formulaToLatex "C{N}2..3H2O-2(aq)".toList).toOption = some "C\\{N\\}_{2}\\cdot 3H_{2}O^{2-}(aq)".toList := by decide +kernel
example : (formulaToUnicode "Fe+0".toList).toOption = some "Fe".toList ∧ (formulaToHtml "H2O-0(aq)".toList).toOption = some "H<sub>2</sub>O(aq)".toList := by
  decide +kernel
example : unLatex "\\theta-[Fe(CN)_{6}]\\{X\\}^{3+}(aq)".toList = "theta-[Fe(CN)6]{X}+3(aq)".toList := by decide +kernel
example : unUnicode "θ-Na₂CO₃·7H₂O⁻".toList = "theta-Na2CO3..7H2O-".toList := by decide +kernel
example : phaseIdx (.seq (speciesPhases.map String.toList)) (some 0) f0.render = some 1 ∧
    selectIdx (.dict [("(g)".toList, 7), ("(s)".toList, -2)]) f0.suffix = some (-2) := by decide +kernel
example : printReaction .latex false [] [("H2O".toList, 2)] [("H+".toList, 1), ("OH-".toList, 1), ("X".toList, 0)]
    = "2 H2O \\rightarrow H+ + OH-".toList := by decide +kernel
example : printReaction .unicode true [] [("A".toList, 1 / 2), ("B".toList, 3 / 2)] [("C".toList, 1)]
    = "1/2 A + 3/2 B ⇌ C".toList := by decide +kernel
example : printReaction .html false [] [("A".toList, 1 / 2)] [("C".toList, 1)] [("M".toList, 1), ("N".toList, 2)] []
    = "1/2 A + ( M + 2 N) &rarr; C".toList := by decide +kernel
/-- the hypotheses of `species_spec` and `reaction_print_spec` are satisfiable: `f0` with the default phases, listed in a table -/
example : ∃ S, Listed S f0 ∧ Known S f0 := by
  obtain ⟨c, _, _, hs, _⟩ := species_spec f0 (by decide) (.seq (suffixesL.take 3)) (some 0) (by decide) (by decide)
  have hL : Listed [(f0.render, ⟨f0.render, present latexPres f0, present unicodePres f0, present htmlPres f0, c, none⟩)] f0 :=
    ⟨by decide, _, by simp [List.lookup], hs⟩
  exact ⟨_, hL, Or.inr hL⟩
/-- … and a species absent from the table is `Known` too (shown as its raw key) -/
example : Known [] f0 := Or.inl rfl
example : (match speciesFromFormulaIdx (.seq (suffixesL.take 3)) 7 f0.render with | .ok s => s.phaseIdx | .error _ => none) = some 7 := by
  decide +kernel
/-- `suffix_kept_verbatim_public` on a suffix tuple OUTSIDE the default vocabulary: `alpha-Fe2O3` ++ `(cr)` with `suffixes=("(xyz)", "(cr)")` -/
example : (toLatex ["(xyz)".toList, "(cr)".toList] ("alpha-Fe2O3".toList ++ "(cr)".toList)).toOption = some "\\alpha-Fe_{2}O_{3}(cr)".toList ∧
    (toLatex ["(xyz)".toList, "(cr)".toList] "alpha-Fe2O3".toList).toOption = some "\\alpha-Fe_{2}O_{3}".toList := by decide +kernel
example : toLatex ["(xyz)".toList, "(cr)".toList] ("alpha-Fe2O3".toList ++ "(cr)".toList)
    = (toLatex ["(xyz)".toList, "(cr)".toList] "alpha-Fe2O3".toList).map (· ++ "(cr)".toList) :=
  (suffix_kept_verbatim_public ["(xyz)".toList, "(cr)".toList] "alpha-Fe2O3".toList "(cr)".toList
    (by decide) (by decide) (by unfold NoBrace; decide) (by decide +kernel) (by decide +kernel) (by decide +kernel) (by decide +kernel)).1
example : (getCharge "-12".toList).toOption = some (-12) ∧ (getCharge "3+".toList).toOption = none ∧ (getCharge "1+2".toList).toOption = none ∧
    (getCharge "+-".toList).toOption = none ∧ (getCharge "++".toList).toOption = none ∧ (getCharge "12".toList).toOption = none := by decide +kernel
/-- a formula written with the non-vocabulary suffix `(cr)`, a tuple / phases that fit: hypotheses satisfiable, results computed -/
private def fcr : Formula := { f0 with charge := none, suffix := some "(cr)".toList }
example : (noSuffix fcr).WF ∧ SfxFits ["(am)".toList, "(cr)".toList] fcr "(cr)".toList ∧
    SfxFits ((Phases.seq ["(am)".toList, "(cr)".toList]).keys ++ speciesExtraSuffixes) fcr "(cr)".toList := by
  refine ⟨by decide, ⟨by decide, by decide, by decide +kernel⟩, ⟨by decide, by decide, by decide +kernel⟩⟩
example : toUnicode ["(am)".toList, "(cr)".toList] fcr.render = .ok (present unicodePres fcr) :=
  (presentation_only_custom_suffix fcr "(cr)".toList rfl (by decide) _ ⟨by decide, by decide, by decide +kernel⟩ (by decide)).2.1
example : (match speciesFromFormula (.seq ["(am)".toList, "(cr)".toList]) none fcr.render with | .ok s => s.phaseIdx | .error _ => none) = some 2 ∧
    (present unicodePres fcr) = "β-⋅Ca₂.₈₃₂(OH)₂·H₂O(cr)".toList := by decide +kernel
example : coefStr (1 / 2) = "1/2".toList ∧ coefStr 12 = "12".toList ∧ coefStr (-3 / 4) = "-3/4".toList := by decide +kernel

end ChemModel.C13
