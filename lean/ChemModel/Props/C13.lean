/-
C13 — LaTeX, Unicode and HTML names show the same formula that was given.

Objects (Model/FormulaFormat.lean, Model/FormulaSpec.lean):
* `formulaToLatex / formulaToUnicode / formulaToHtml : List Char → Except FErr (List Char)` — the executable model of
  chempy's `formula_to_latex / _unicode / _html` (regex substitution on the raw text, as the code does it);
* `present P f` — the SPECIFICATION of a presentation of the formula AST `f`: mapped prefixes, every written count as
  `P.sub count`, hydrate separator as `P.infx`, leading hydrate count printed unless 1, the charge as
  `P.sup (magnitude ++ sign)` with magnitude 1 omitted, brackets and suffix verbatim; `latexPres / unicodePres / htmlPres`
  are built from the generated tables;
* `unLatex / unUnicode / unHtml` — the explicit inverse presentation maps (prefix symbols back to their keys, then a
  token scanner: `_{n}` ↦ `n`, `^{3+}` ↦ `+3`, `\cdot ` ↦ `..`, `\{` ↦ `{`, … and the HTML / Unicode analogues);
* `canon f` — `f` up to the presentation-only normalisations: separator written `..`, a hydrate count / charge magnitude
  `1` not written, no leading zeros in hydrate counts and charge magnitude, a zero charge token dropped.  Nothing else changes.
* `Formula.WF` — the (decidable) grammar of C01; `zeroCharge f` — a charge token is written and its value is zero (`+0`, `-00`):
  such a token gets no superscript (fix 5273246), `canon` drops it, and the composition of the undone text differs from the original
  only by the absent entry `0 ↦ 0`.

All theorems hold for every well-formed AST: unbounded nesting depth, length, digits.
LaTeX and `{ }` groups: `formula_to_latex` escapes the braces of the WHOLE text before splitting it; peeling, splitting and the
leading integer commute with that escaping (Proofs/FormulaFormatLatex.lean), so the LaTeX theorems cover all brackets as well.
-/
import ChemModel.Proofs.FormulaFormatLatex
import ChemModel.Props.C01

namespace ChemModel.C13
open ChemModel.Formula ChemModel.FormulaFormat ChemModel.Gen

/-! ### guards: the hand-modelled shapes are the ones in the source -/

theorem digit_run_regex_is : Render.digitRunRegex = "([0-9]+\\.[0-9]+|[0-9]+)" := by decide
theorem digit_run_repl_is : Render.digitRunRepl = "lambda m: sub(m.group(1))" := by decide
theorem latex_formula_arg_is :
    Render.latexFormulaArg = "re.sub(r\"([{}])\", r\"\\\\\\1\", formula) if re.search(r\"[{}]\", formula) else formula" := by decide
theorem other_formula_args_are : Render.unicodeFormulaArg = "formula" ∧ Render.htmlFormulaArg = "formula" := by decide
theorem infix_source_is : Render.infixSource = ['.', '.'] := by decide
theorem default_tables_are :
    Render.latexDefaultPrefixes = "_latex_mapping" ∧ Render.latexDefaultInfixes = "_latex_infix_mapping" ∧
    Render.unicodeDefaultPrefixes = "_unicode_mapping" ∧ Render.unicodeDefaultInfixes = "_unicode_infix_mapping" ∧
    Render.htmlDefaultPrefixes = "_html_mapping" ∧ Render.htmlDefaultInfixes = "_html_infix_mapping" := by decide
theorem callbacks_are :
    Render.latexSubIsTemplate = true ∧ Render.latexSupIsTemplate = true ∧ Render.htmlSubIsTemplate = true ∧
    Render.htmlSupIsTemplate = true ∧ Render.unicodeSubIsTemplate = false ∧ Render.unicodeSupIsTemplate = false ∧
    Render.unicodeSubTable = "_unicode_sub" ∧ Render.unicodeSupTable = "_unicode_sup" := by decide
/-- the suffix lists of `_formula_to_format`, `formula_to_composition` and `Species.from_formula` (default phases) coincide -/
theorem suffix_lists_agree :
    Render.formatSuffixesL = suffixesL ∧ speciesSuffixesL = suffixesL ∧
    speciesPhases.map String.toList = suffixesL.take 3 ∧ speciesExtraSuffixes = [['(', 'a', 'q', ')']] := by decide
theorem printer_name_attrs_are :
    Render.texNameAttr = "latex_name" ∧ Render.prettyNameAttr = "unicode_name" ∧ Render.webNameAttr = "html_name" := by decide

/-! ### tables -/

/-- sub / superscript tables are injective (no two characters share a sub / superscript), and cover all digits and signs -/
theorem sub_sup_tables_injective :
    (Render.unicodeSub.map Prod.snd).Nodup ∧ (Render.unicodeSup.map Prod.snd).Nodup ∧
    (∀ d ∈ digitChars, (Render.unicodeSub.lookup d).isSome = true ∧ (Render.unicodeSup.lookup d).isSome = true) ∧
    (Render.unicodeSup.lookup '+').isSome = true ∧ (Render.unicodeSup.lookup '-').isSome = true ∧
    (∀ kv ∈ Render.unicodeSub, ∀ kw ∈ Render.unicodeSup, kv.2 ≠ kw.2) := by decide

/-- the three prefix maps have exactly the default prefixes as keys, and are injective -/
theorem prefix_maps_injective :
    Render.latexMap.map Prod.fst = prefixesL ∧ Render.unicodeMap.map Prod.fst = prefixesL ∧ Render.htmlMap.map Prod.fst = prefixesL ∧
    (Render.latexMap.map Prod.snd).Nodup ∧ (Render.unicodeMap.map Prod.snd).Nodup ∧ (Render.htmlMap.map Prod.snd).Nodup := by
  decide +kernel

/-- no prefix symbol is an initial segment of another one (so a run of prefix symbols splits in one way only) -/
theorem prefix_symbols_prefix_free :
    (Render.latexMap.map Prod.snd).Pairwise PrefIncomp ∧ (Render.unicodeMap.map Prod.snd).Pairwise PrefIncomp ∧
    (Render.htmlMap.map Prod.snd).Pairwise PrefIncomp :=
  ⟨latexUnSpec.vals_incomp, unicodeUnSpec.vals_incomp, htmlUnSpec.vals_incomp⟩

/-- every greek prefix is shown as ITS OWN letter (regression for the repaired `_subs` overlap: `beta-`, `zeta-`, `theta-`):
    for the i-th greek name `g` and the i-th greek letter `u`: Unicode `g-` ↦ `u-`, HTML `g-` ↦ `&g;-`, LaTeX `g-` ↦ `\g-` except
    `\varepsilon-` for epsilon and a plain `o-` for omicron; the radical dot has its own symbol per format -/
theorem greek_prefixes_own_letter :
    Render.greekLetters.length = 24 ∧ Render.greekU.length = 24 ∧
    (List.range 24).all (fun i =>
      match Render.greekLetters[i]?, Render.greekU[i]? with
      | some g, some u =>
        decide (Render.unicodeMap.lookup (g ++ ['-']) = some [u, '-'] ∧
          Render.htmlMap.lookup (g ++ ['-']) = some ('&' :: (g ++ [';', '-'])) ∧
          Render.latexMap.lookup (g ++ ['-']) =
            some (if g = "epsilon".toList then "\\varepsilon-".toList else if g = "omicron".toList then "o-".toList
                  else '\\' :: (g ++ ['-'])))
      | _, _ => false) = true ∧
    Render.latexMap.lookup ['.'] = some "^\\bullet ".toList ∧ Render.unicodeMap.lookup ['.'] = some ['⋅'] ∧
    Render.htmlMap.lookup ['.'] = some "&sdot;".toList := by
  decide +kernel

/-- the greek names and letters are the reference alphabet (the property: "greek prefixes map to their symbols"); this is the one place
    where a table is compared with a literal, because here the literal is the specification -/
theorem greek_reference :
    Render.greekLetters = ["alpha", "beta", "gamma", "delta", "epsilon", "zeta", "eta", "theta", "iota", "kappa", "lambda", "mu", "nu", "xi",
      "omicron", "pi", "rho", "sigma", "tau", "upsilon", "phi", "chi", "psi", "omega"].map String.toList ∧
    Render.greekU = "αβγδεζηθικλμνξοπρστυφχψω".toList := by decide

/-! ### the charge token -/

/-- **magnitude-then-sign, 1 omitted**: for a written charge of value `v ≠ 0` the superscript text is the decimal digits of `|v|`
    (nothing when `|v| = 1`, no leading zeros) followed by exactly one sign character -/
theorem charge_magnitude_then_sign (c : Charge) (h : c.val ≠ 0) :
    chargeToken c.val = some (chargeTok c) ∧
    chargeTok c = (if c.val.natAbs = 1 then [] else natStr c.val.natAbs) ++ [if c.val < 0 then '-' else '+'] := by
  refine ⟨chargeToken_val c h, ?_⟩
  obtain ⟨neg, mag⟩ := c
  cases mag with
  | none => cases neg <;> simp [chargeTok, Charge.val]
  | some ds =>
    have hm : digitsVal ds ≠ 0 := by intro e; apply h; simp [Charge.val, e]
    cases neg with
    | false =>
      have h1 : ¬ ((digitsVal ds : Nat) : Int) < 0 := by omega
      simp [chargeTok, Charge.val, h1]
    | true =>
      have h1 : (-1 : Int) * ((digitsVal ds : Nat) : Int) < 0 := by omega
      have h2 : ((-1 : Int) * ((digitsVal ds : Nat) : Int)).natAbs = digitsVal ds := by omega
      simp only [chargeTok, Charge.val, if_true, h1, h2]

/-! ### presentation only: what the three functions return on a written formula -/

/-- **Unicode.** For every well-formed formula the real function returns exactly the presentation of the AST:
    prefixes as their symbols, EVERY written count as one run of subscript digits (a decimal count keeps all its digits and
    its point), nothing else subscripted, the hydrate separator as `·`, the leading hydrate count printed iff it is not 1, the charge
    as one superscript magnitude-then-sign, brackets / states / marks / suffix verbatim. -/
theorem presentation_only_unicode (f : Formula) (h : f.WF) :
    formulaToUnicode f.render = .ok (present unicodePres f) := by
  unfold formulaToUnicode toUnicode
  rw [suffix_lists_agree.1]
  exact formulaToFormat_render unicodeFmtSpec f h (fun q _ => termsBrAll_true q.terms)

/-- **HTML.** The same with `<sub>n</sub>`, `<sup>q</sup>`, `&sdot;`, `&alpha;-` … -/
theorem presentation_only_html (f : Formula) (h : f.WF) :
    formulaToHtml f.render = .ok (present htmlPres f) := by
  unfold formulaToHtml toHtml
  rw [suffix_lists_agree.1]
  exact formulaToFormat_render htmlFmtSpec f h (fun q _ => termsBrAll_true q.terms)

/-- **LaTeX** (`_{n}`, `^{q}`, `\\cdot `, `\\alpha-` …; `{ }` groups shown as `\\{ … \\}`): all brackets, any depth. -/
theorem presentation_only_latex (f : Formula) (h : f.WF) :
    formulaToLatex f.render = .ok (present latexPres f) := by
  unfold formulaToLatex
  rw [suffix_lists_agree.1]
  exact toLatex_render f h

/-! ### undoing the presentation -/

/-- the inverse map of each format, applied to the presentation of ANY well-formed formula (all brackets, any depth), gives back
    the formula text up to `canon` -/
theorem unLatex_present (f : Formula) (h : f.WF) : unLatex (present latexPres f) = (canon f).render :=
  unFormat_present latexUnSpec f h
theorem unUnicode_present (f : Formula) (h : f.WF) : unUnicode (present unicodePres f) = (canon f).render :=
  unFormat_present unicodeUnSpec f h
theorem unHtml_present (f : Formula) (h : f.WF) : unHtml (present htmlPres f) = (canon f).render :=
  unFormat_present htmlUnSpec f h

/-- a charge written with value zero is not shown: the presentation is that of the formula without the token -/
theorem zero_charge_not_shown (P : Pres) (f : Formula) (hz : zeroCharge f = true) :
    present P f = present P { f with charge := none } := by
  unfold zeroCharge at hz
  cases hc : f.charge with
  | none => rw [hc] at hz; exact absurd hz (by decide)
  | some c =>
    rw [hc] at hz
    have : c.val = 0 := by simpa using hz
    simp [present, presCharge, hc, this]

/-- **`canon` is presentation-only**: same prefixes, same suffix, same term lists, the same element occurrences (hence the same amount
    of every element), the same value of the charge (`denote f 0`; a zero charge token is dropped, value 0 either way); the composition
    dict is the same, except that a charge written with value zero no longer contributes the entry `0 ↦ 0`.  Its text differs from the
    original only in the separator (`..`), in a hydrate count / charge magnitude `1` (not written), in leading zeros of those, and
    in a dropped `+0`.  It is again well-formed (for a dropped zero charge: provided the last term does not end in a phase-like state
    such as `H2O(aq)+0`, whose `(aq)` would then read as the suffix). -/
theorem canon_same_formula (f : Formula) (h : f.WF) :
    (canon f).prefixes = f.prefixes ∧ (canon f).suffix = f.suffix ∧
    (canon f).occurrences = f.occurrences ∧ (∀ k, (canon f).denote k = f.denote k) ∧
    (canon f).composition = (if zeroCharge f = true then mergeComp f.occurrences else f.composition) ∧
    (zeroCharge f = true → f.composition = setKey 0 0 (mergeComp f.occurrences)) ∧
    (canon f).parts.map Part.terms = f.parts.map Part.terms ∧
    ((canon f).charge.isSome = (f.charge.isSome && !zeroCharge f)) ∧
    ((zeroCharge f = true → lastFinalOK f.parts = true) → (canon f).WF) :=
  ⟨rfl, rfl, canon_occurrences f, canon_denote f, canon_composition f, zero_composition f,
   by simp [canon, canonPart, Function.comp_def],
   by
    cases hc : f.charge with
    | none => simp [canon, hc, zeroCharge]
    | some c => by_cases hz : c.val = 0 <;> simp [canon, hc, zeroCharge, canonChargeOpt, hz],
   canon_wf f h⟩

/-- a formula already in canonical writing is left alone: then `unX (toX text) = text` literally -/
theorem canon_fixed (f : Formula) (hs : f.sep = .dots) (hz : zeroCharge f = false)
    (hp : ∀ p ∈ f.parts, ∀ ds, p.n = some ds → digitsVal ds ≠ 1 ∧ natStr (digitsVal ds) = ds)
    (hc : ∀ c, f.charge = some c → ∀ ds, c.mag = some ds → digitsVal ds ≠ 1 ∧ natStr (digitsVal ds) = ds) :
    (canon f).render = f.render := by
  have h1 : f.parts.map canonPart = f.parts := by
    conv => rhs; rw [← List.map_id f.parts]
    apply List.map_congr_left
    intro p hpm
    obtain ⟨n, ts⟩ := p
    cases n with
    | none => rfl
    | some ds =>
      obtain ⟨a, b⟩ := hp _ hpm ds rfl
      simp [canonPart, canonN, a, b]
  have h2 : f.charge.bind canonChargeOpt = f.charge := by
    cases hch : f.charge with
    | none => rfl
    | some c =>
      have hv : c.val ≠ 0 := by
        intro e; simp [zeroCharge, hch, e] at hz
      obtain ⟨neg, mag⟩ := c
      cases mag with
      | none => simp [canonChargeOpt, hv, canonCharge, canonN]
      | some ds =>
        obtain ⟨a, b⟩ := hc _ hch ds rfl
        simp [canonChargeOpt, hv, canonCharge, canonN, a, b]
  simp [Formula.render, canon, Formula.renderStoich, h1, h2, hs]

/-- **Unicode round trip**: undoing the presentation of the real output gives the canonical text of the formula given -/
theorem unUnicode_toUnicode (f : Formula) (h : f.WF) :
    ∃ out, formulaToUnicode f.render = .ok out ∧ unUnicode out = (canon f).render :=
  ⟨_, presentation_only_unicode f h, unUnicode_present f h⟩

/-- **HTML round trip** -/
theorem unHtml_toHtml (f : Formula) (h : f.WF) :
    ∃ out, formulaToHtml f.render = .ok out ∧ unHtml out = (canon f).render :=
  ⟨_, presentation_only_html f h, unHtml_present f h⟩

/-- **LaTeX round trip** -/
theorem unLatex_toLatex (f : Formula) (h : f.WF) :
    ∃ out, formulaToLatex f.render = .ok out ∧ unLatex out = (canon f).render :=
  ⟨_, presentation_only_latex f h, unLatex_present f h⟩

/-- **same composition, charge, prefixes, suffix**: the text obtained by undoing any of the three presentations parses (C01's
    `parse_render`) to a dict that is exactly the denotation of the ORIGINAL formula: no duplicate keys; its keys are the written elements,
    plus 0 iff a charge with a NON-ZERO value is written (the only difference a presentation can make: `Fe+0` comes back as `Fe`, i.e. without
    the entry `0 ↦ 0`); every value is the written amount / the signed charge; and the text carries the original prefixes and suffix. -/
theorem undone_parses_same (f : Formula) (h : f.WF) (hz : zeroCharge f = true → lastFinalOK f.parts = true) :
    ∃ c, formulaToCompositionL (canon f).render = .ok c ∧ (Comp.keys c).Nodup ∧
      (∀ k, k ∈ Comp.keys c ↔ (k ∈ Comp.keys f.occurrences ∨ (k = 0 ∧ f.charge.isSome = true ∧ zeroCharge f = false))) ∧
      (∀ k ∈ Comp.keys c, Comp.get? c k = some (f.denote k)) ∧ (∀ k, k ∉ Comp.keys c → Comp.get? c k = none) ∧
      (canon f).prefixes = f.prefixes ∧ (canon f).suffix = f.suffix := by
  obtain ⟨c, hc, ha⟩ := C01.parse_render (canon f) (canon_wf f h hz)
  refine ⟨c, by simpa [formulaToComposition, Formula.renderStr] using hc, ha.nodup, ?_, ?_, ha.absent, rfl, rfl⟩
  · intro k
    have hsome : (canon f).charge.isSome = (f.charge.isSome && !zeroCharge f) := (canon_same_formula f h).2.2.2.2.2.2.2.1
    rw [ha.keys k, canon_occurrences, hsome]
    simp
  · intro k hk
    rw [ha.value k hk, canon_denote]

/-! ### substances and species -/

/-- `Substance.from_formula` on a written formula: the three names are the three presentations and the composition is the written one -/
theorem substance_names_spec (f : Formula) (h : f.WF) :
    ∃ s, substanceFromFormula f.render = .ok s ∧ s.name = f.render ∧
      s.latexName = present latexPres f ∧ s.unicodeName = present unicodePres f ∧ s.htmlName = present htmlPres f ∧
      Agrees f s.composition ∧ s.phaseIdx = none := by
  obtain ⟨c, hc, ha⟩ := C01.parse_render f h
  have hc' : formulaToCompositionL f.render = .ok c := by simpa [formulaToComposition, Formula.renderStr] using hc
  refine ⟨⟨f.render, present latexPres f, present unicodePres f, present htmlPres f, c, none⟩, ?_, rfl, rfl, rfl, rfl, ha, rfl⟩
  simp [substanceFromFormula, presentation_only_latex f h, presentation_only_unicode f h,
    presentation_only_html f h, hc']

/-- `findPhaseSeq`: the first phase (in order) the text ends with decides; its 1-based position is the index -/
theorem findPhaseSeq_hit (pre : List Str) (p : Str) (post : List Str) (k : Nat) (s : Str)
    (hpre : ∀ q ∈ pre, ¬ q <:+ s) (hp : p <:+ s) :
    findPhaseSeq (pre ++ p :: post) k s = some (k + pre.length + 1) := by
  induction pre generalizing k with
  | nil => simp [findPhaseSeq, List.isSuffixOf_iff_suffix.mpr hp]
  | cons q qs ih =>
    have hq : q.isSuffixOf s = false := isSuffixOf_false (hpre q (by simp))
    simp only [List.cons_append, findPhaseSeq, hq]
    rw [ih (k + 1) (fun x hx => hpre x (by simp [hx]))]
    simp; omega

theorem findPhaseSeq_miss (l : List Str) (k : Nat) (s : Str) (h : ∀ q ∈ l, ¬ q <:+ s) : findPhaseSeq l k s = none := by
  induction l generalizing k with
  | nil => rfl
  | cons q qs ih =>
    simp only [findPhaseSeq, isSuffixOf_false (h q (by simp))]
    exact ih (k + 1) (fun x hx => h x (by simp [hx]))

/-- **the phase index is the one the suffix selects** (default phases `(s) (l) (g)`, default index 0):
    `(s)` ↦ 1, `(l)` ↦ 2, `(g)` ↦ 3, `(aq)` or no suffix ↦ 0 — for every well-formed formula, whatever precedes the suffix -/
theorem phase_idx_spec (f : Formula) (h : f.WF) :
    phaseIdx (.seq (speciesPhases.map String.toList)) (some 0) f.render =
      some (match f.suffix with
            | some ['(', 's', ')'] => 1
            | some ['(', 'l', ')'] => 2
            | some ['(', 'g', ')'] => 3
            | _ => 0) := by
  have hd := Formula.wfd f h
  rw [suffix_lists_agree.2.2.1]
  have hiff := suffix_of_render_iff f hd
  have hs : (['(', 's', ')'] : Str) ∈ suffixesL := by decide
  have hl : (['(', 'l', ')'] : Str) ∈ suffixesL := by decide
  have hg : (['(', 'g', ')'] : Str) ∈ suffixesL := by decide
  show phaseIdx (.seq [['(', 's', ')'], ['(', 'l', ')'], ['(', 'g', ')']]) (some 0) f.render = _
  unfold phaseIdx
  simp only
  cases hsx : f.suffix with
  | none =>
    have hm : ∀ q ∈ [['(', 's', ')'], ['(', 'l', ')'], ['(', 'g', ')']], ¬ q <:+ f.render := by
      intro q hq hsuf
      have hq' : q ∈ suffixesL := by
        simp only [List.mem_cons, List.not_mem_nil, or_false] at hq
        rcases hq with e | e | e <;> subst e <;> decide
      have := (hiff q hq').mp hsuf
      rw [hsx] at this; exact absurd this (by simp)
    rw [findPhaseSeq_miss _ 0 _ hm]
  | some sx =>
    have hmem := hd.suffix sx hsx
    have hne : ∀ q ∈ suffixesL, q ≠ sx → ¬ q <:+ f.render := by
      intro q hq hne hsuf
      have := (hiff q hq).mp hsuf
      rw [hsx] at this
      exact hne (Option.some.inj this).symm
    have hyes : sx <:+ f.render := (hiff sx hmem).mpr hsx
    have hcases : sx = ['(', 's', ')'] ∨ sx = ['(', 'l', ')'] ∨ sx = ['(', 'g', ')'] ∨ sx = ['(', 'a', 'q', ')'] := by
      have : ∀ x ∈ suffixesL, x = ['(', 's', ')'] ∨ x = ['(', 'l', ')'] ∨ x = ['(', 'g', ')'] ∨ x = ['(', 'a', 'q', ')'] := by decide
      exact this sx hmem
    rcases hcases with e | e | e | e <;> subst e
    · have e := findPhaseSeq_hit [] ['(', 's', ')'] [['(', 'l', ')'], ['(', 'g', ')']] 0 f.render (by simp) hyes
      simp only [List.nil_append] at e
      rw [e]; rfl
    · have e := findPhaseSeq_hit [['(', 's', ')']] ['(', 'l', ')'] [['(', 'g', ')']] 0 f.render (by
        intro q hq; simp at hq; subst hq; exact hne _ hs (by decide)) hyes
      simp only [List.cons_append, List.nil_append] at e
      rw [e]; rfl
    · have e := findPhaseSeq_hit [['(', 's', ')'], ['(', 'l', ')']] ['(', 'g', ')'] [] 0 f.render (by
        intro q hq; simp at hq; rcases hq with e | e <;> subst e
        · exact hne _ hs (by decide)
        · exact hne _ hl (by decide)) hyes
      simp only [List.cons_append, List.nil_append] at e
      rw [e]; rfl
    · rw [findPhaseSeq_miss _ 0 _ (by
        intro q hq; simp at hq; rcases hq with e | e | e <;> subst e
        · exact hne _ hs (by decide)
        · exact hne _ hl (by decide)
        · exact hne _ hg (by decide))]
      rfl

/-! ### printed reactions -/

/-- the arrow of each printer (reaction / equilibrium) -/
def arrowText : Printer → Bool → Str
  | .str, false => "->".toList | .str, true => "=".toList
  | .latex, false => "\\rightarrow".toList | .latex, true => "\\rightleftharpoons".toList
  | .unicode, false => "→".toList | .unicode, true => "⇌".toList
  | .html, false => "&rarr;".toList | .html, true => "&harr;".toList

/-- one printed term: the coefficient (`str` of the int / Fraction: `3`, `1/2`) followed by a blank, omitted iff it equals 1, then the name -/
def termText (p : Printer) (S : List (Str × Substance)) (kv : Str × Rat) : Str :=
  (if kv.2 = 1 then [] else coefStr kv.2 ++ [' ']) ++ printKey p S kv.1

/-- **a printed reaction / equilibrium**: the reactant terms in stored order (zero coefficients are not shown) joined by ` + `, one blank,
    that printer's arrow, one blank, the product terms in stored order joined by ` + `; every term is `termText` — in particular
    a coefficient strictly between 0 and 1 (`1/2`) is shown, only a coefficient equal to 1 is omitted and only one equal to 0 drops the term. -/
theorem reaction_print_spec (p : Printer) (eq : Bool) (S : List (Str × Substance)) (reac prod : List (Str × Rat)) :
    printReaction p eq S reac prod =
      joinStrs [' ', '+', ' '] ((reac.filter (fun kv => kv.2 ≠ 0)).map (termText p S)) ++ ([' '] ++ (arrowText p eq ++ ([' '] ++
      joinStrs [' ', '+', ' '] ((prod.filter (fun kv => kv.2 ≠ 0)).map (termText p S))))) := by
  have ht : printTerm p S = termText p S := by
    funext kv
    cases p <;> (simp only [printTerm, termText, Printer.coeffSpace, ite_not]; rfl)
  cases p <;> cases eq <;> (simp only [printReaction, printSide, ht]; rfl)

/-- **the name shown for a species**: the plain printer shows the key's own name, the LaTeX / Unicode / HTML printers the corresponding
    name of the substance (falling back to the plain name when that name is empty); a key without a substance is shown as it is -/
theorem printed_name_spec (S : List (Str × Substance)) (k : Str) :
    (S.lookup k = none → ∀ p, printKey p S k = k) ∧
    (∀ s, S.lookup k = some s →
      printKey .str S k = s.name ∧
      printKey .latex S k = (if s.latexName = [] then s.name else s.latexName) ∧
      printKey .unicode S k = (if s.unicodeName = [] then s.name else s.unicodeName) ∧
      printKey .html S k = (if s.htmlName = [] then s.name else s.htmlName)) := by
  refine ⟨fun h p => by simp [printKey, h], fun s h => ?_⟩
  simp only [printKey, h, Printer.nameOf]
  refine ⟨?_, ?_, ?_, ?_⟩ <;> first | trivial | rfl

/-! ### non-vacuity: concrete instances of the hypotheses and of the functions -/

private def el (z : Nat) (n : Cnt := .omitted) : Term := .elem z n none []

/-- `beta-.Ca2.832(OH)2·01H2O-012(s)`: two prefixes, a decimal count, a group, a hydrate part written `01`, a charge written `-012`, a suffix -/
private def f0 : Formula :=
  { prefixes := ["beta-".toList, ['.']], sep := .cdot,
    parts := [⟨none, Terms.ofList [el 20 (.dec ['2'] ['8', '3', '2']), .group .paren (Terms.ofList [el 8, el 1]) (.int ['2']) none []]⟩,
              ⟨some ['0', '1'], Terms.ofList [el 1 (.int ['2']), el 8]⟩],
    charge := some ⟨true, some ['0', '1', '2']⟩, suffix := some "(s)".toList }

example : f0.WF ∧ zeroCharge f0 = false ∧ noCurly f0 = true := by decide
example : f0.render = "beta-.Ca2.832(OH)2·01H2O-012(s)".toList := by decide
example : (canon f0).render = "beta-.Ca2.832(OH)2..H2O-12(s)".toList := by decide
example : (formulaToLatex f0.render).toOption = some "\\beta-^\\bullet Ca_{2.832}(OH)_{2}\\cdot H_{2}O^{12-}(s)".toList := by decide +kernel
example : (formulaToUnicode f0.render).toOption = some "β-⋅Ca₂.₈₃₂(OH)₂·H₂O¹²⁻(s)".toList := by decide +kernel
example : (formulaToHtml f0.render).toOption = some "&beta;-&sdot;Ca<sub>2.832</sub>(OH)<sub>2</sub>&sdot;H<sub>2</sub>O<sup>12-</sup>(s)".toList := by
  decide +kernel
example : (formulaToLatex "C{N}2..3H2O-2(aq)".toList).toOption = some "C\\{N\\}_{2}\\cdot 3H_{2}O^{2-}(aq)".toList := by decide +kernel
example : (formulaToUnicode "Fe+0".toList).toOption = some "Fe".toList ∧ (formulaToHtml "H2O-0(aq)".toList).toOption = some "H<sub>2</sub>O(aq)".toList := by
  decide +kernel
example : unLatex "\\theta-[Fe(CN)_{6}]\\{X\\}^{3+}(aq)".toList = "theta-[Fe(CN)6]{X}+3(aq)".toList := by decide +kernel
example : unUnicode "θ-Na₂CO₃·7H₂O⁻".toList = "theta-Na2CO3..7H2O-".toList := by decide +kernel
example : phaseIdx (.seq (speciesPhases.map String.toList)) (some 0) f0.render = some 1 := by decide +kernel
example : printReaction .latex false [] [("H2O".toList, 2)] [("H+".toList, 1), ("OH-".toList, 1), ("X".toList, 0)]
    = "2 H2O \\rightarrow H+ + OH-".toList := by decide +kernel
example : printReaction .unicode true [] [("A".toList, 1 / 2), ("B".toList, 3 / 2)] [("C".toList, 1)]
    = "1/2 A + 3/2 B ⇌ C".toList := by decide +kernel
example : coefStr (1 / 2) = "1/2".toList ∧ coefStr 12 = "12".toList ∧ coefStr (-3 / 4) = "-3/4".toList := by decide +kernel

end ChemModel.C13
