/-
C19 — physical-chemistry relations give unit-independent values in their valid ranges.

Objects: the functions of `Gen/FnProps.lean` are the TRANSLATION of the current source text of
`chempy/properties/*.py`, `henry.py`, `electrochemistry/nernst.py`, `einstein_smoluchowski.py`
(`waterDensity` = `units=None` branch, `waterDensityU` = `units=<object>` branch of the same text, `…Warns` = range checks);
`sulfuricAcidDensity`, `lgSolubilityRatio`, `densityFromConcentration`, `Henry` are the hand models of
`Model/PhysProps.lean` over extracted tables.

Reading of a unit-mode text in the theorems `…_unit_mode_agrees` (scale-factor semantics, "L1"): the number type is ℝ,
every unit symbol `units.X` is an arbitrary non-zero real (its scale factor relative to SI), an input of magnitude `τ`
in unit `K` is the real `τ * K`.  The statement `fU (τ * K) … = f τ * unit` for ALL scale factors says at once
(a) the magnitude of the unit-mode result in the documented unit is the plain-number result, and
(b) the result is dimensionally homogeneous with the dimension of `unit` (an expression that scales like `unit` under
    every independent rescaling of the base units has that dimension; adding terms of different dimensions or
    attaching a unit factor to the wrong coefficient breaks the identity).
What this reading does not see is the representation-level behaviour of the third-party package (`float(q)` on an
unsimplified quantity, "must be dimensionless" errors): that is the L2 quantity algebra `PhysProps.UV`, exercised
by the correspondence check and by the concrete `example`s / witnesses below.
-/
import ChemModel.Proofs.PhysProps
set_option linter.unusedSimpArgs false

namespace ChemModel.C19
open ChemModel ChemModel.Gen ChemModel.PhysProps

/-! ## 1. unit mode agrees with plain-number mode (all scale factors) -/

/-- water_density: for a temperature of `τ` kelvin-units given with ANY units object (scale factors `K`, `m`, `kg`),
    the unit-mode value is the plain value times `kg / m³`. -/
theorem water_density_unit_mode_agrees (τ K m kg : ℝ) (hK : K ≠ 0) :
    waterDensityU (τ * K) K kg m = waterDensity τ * (kg / m ^ 3) := by
  rw [waterDensityU_eq _ _ _ _ hK, mul_div_cancel_right₀ _ hK]

/-- the same for an input in ANY compatible unit: only the SI value `Tsi` of the input matters, the plain function is
    evaluated at the magnitude `Tsi / K` of that temperature in the documented unit. -/
theorem water_density_any_compatible_unit (Tsi K m kg : ℝ) (hK : K ≠ 0) :
    waterDensityU Tsi K kg m = waterDensity (Tsi / K) * (kg / m ^ 3) :=
  waterDensityU_eq Tsi K m kg hK

/-- water_viscosity (as repaired: the constants carry K): result in `units.centipoise` -/
theorem water_viscosity_unit_mode_agrees (τ cP K : ℝ) (hK : K ≠ 0) :
    waterViscosityU (τ * K) cP K = waterViscosity τ * cP :=
  waterViscosityU_eq τ cP K hK

/-- water_self_diffusion_coefficient: result in `meter² / second` -/
theorem water_diffusivity_unit_mode_agrees (τ K m s : ℝ) (hK : K ≠ 0) :
    waterDiffusivityU (τ * K) K m s = waterDiffusivity τ * (m ^ 2 / s) :=
  waterDiffusivityU_eq τ K m s hK

/-- water_permittivity: temperature in `units.kelvin`, pressure in `units.bar`, the result is a pure number -/
theorem water_permittivity_unit_mode_agrees (τ p K bar : ℝ) (hK : K ≠ 0) (hb : bar ≠ 0) :
    waterPermittivityU (τ * K) (p * bar) bar K = waterPermittivity τ p :=
  waterPermittivityU_eq τ p K bar hK hb

/-- sulfuric_acid_density (as repaired: `t_K = to_unitless(t / K)` before `float`): result in `kilogram / meter³` -/
theorem sulfuric_acid_density_unit_mode_agrees (w τ K m kg : ℝ) (hK : K ≠ 0) :
    sulfuricAcidDensityU w (τ * K) K kg m = sulfuricAcidDensity w τ * (kg / m ^ 3) :=
  sulfuricAcidDensityU_eq w τ K m kg hK

/-- inputs in ANY compatible unit (mK, degR, Pa, atm …): only the SI values `Tsi`, `Psi` of the inputs enter; the plain function
    is evaluated at their magnitudes `Tsi / K`, `Psi / bar` in the documented units.  (For viscosity, permittivity, Henry and
    sulfuric acid this is what the four `to_unitless` repairs of the source establish.) -/
theorem any_compatible_unit (Tsi Psi w cP K m kg s bar H θ : ℝ) (hK : K ≠ 0) (hb : bar ≠ 0) :
    waterViscosityU Tsi cP K = waterViscosity (Tsi / K) * cP ∧
    waterDiffusivityU Tsi K m s = waterDiffusivity (Tsi / K) * (m ^ 2 / s) ∧
    waterPermittivityU Tsi Psi bar K = waterPermittivity (Tsi / K) (Psi / bar) ∧
    sulfuricAcidDensityU w Tsi K kg m = sulfuricAcidDensity w (Tsi / K) * (kg / m ^ 3) ∧
    henryHAtTDefaultU Tsi H θ K = henryHAtTDefault (Tsi / K) H (θ / K) := by
  have hT : Tsi / K * K = Tsi := div_mul_cancel₀ Tsi hK
  have hP : Psi / bar * bar = Psi := div_mul_cancel₀ Psi hb
  have hθ : θ / K * K = θ := div_mul_cancel₀ θ hK
  refine ⟨?_, ?_, ?_, ?_, ?_⟩
  · simpa only [hT] using waterViscosityU_eq (Tsi / K) cP K hK
  · simpa only [hT] using waterDiffusivityU_eq (Tsi / K) K m s hK
  · simpa only [hT, hP] using waterPermittivityU_eq (Tsi / K) (Psi / bar) K bar hK hb
  · simpa only [hT] using sulfuricAcidDensityU_eq w (Tsi / K) K m kg hK
  · simpa only [hT, hθ] using henryHAtTDefaultU_eq (Tsi / K) H (θ / K) K hK

/-- lg_solubility_ratio: concentrations `v` (in molar) given as `v * M` with `M` the scale factor of `units.molar`;
    the result is the same pure number, the same KeyError for unknown keys -/
theorem lg_solubility_ratio_unit_mode_agrees (M : ℝ) (hM : M ≠ 0) (gas : String) (l : List (String × ℝ)) :
    lgSolubilityRatio M (l.map fun p => (p.1, p.2 * M)) gas = lgSolubilityRatio 1 l gas := by
  unfold lgSolubilityRatio
  rw [lgTerms_scale M hM]

/-- Henry_H_at_T with the default reference temperature `298.15 * units.Kelvin`: temperature and `Tderiv` in kelvin-units;
    the value keeps the unit of `H` (no unit symbol is multiplied onto it) -/
theorem henry_unit_mode_agrees (τ H θ τ0 K : ℝ) (hK : K ≠ 0) :
    henryHAtTDefaultU (τ * K) H (θ * K) K = henryHAtTDefault τ H θ ∧
    henryHAtTU (τ * K) H (θ * K) (τ0 * K) K = henryHAtT τ H θ τ0 :=
  ⟨henryHAtTDefaultU_eq τ H θ K hK, henryHAtTU_eq τ H θ τ0 K hK⟩

/-- `Henry` / `HenryWithUnits` OBJECTS (constructor parameters Hcp, Tderiv, T0 default or not): with `Tderiv`, `T0` given in the unit
    `K` and the temperature in that unit, `HenryWithUnits.__call__` (= `Henry.__call__` with the units object) returns what the plain
    object returns, so do the two helpers; at the instance's reference temperature the tabulated constant itself is returned. -/
theorem henry_object_unit_mode_agrees (h : Henry ℝ) (τ x K : ℝ) (hK : K ≠ 0) :
    (h.inUnit K).callWithUnits (τ * K) K = h.call τ ∧
    (h.inUnit K).getCU (τ * K) x K = h.getC τ x ∧ (h.inUnit K).getPU (τ * K) x K = h.getP τ x ∧
    (h.inUnit K).callWithUnits (h.T0.getD 298.15 * K) K = h.Hcp := by
  have e := fun τ => Henry.callU_inUnit h τ K hK
  refine ⟨e τ, ?_, ?_, ?_⟩
  · simp only [Henry.getCU, Henry.getC, e]
  · simp only [Henry.getPU, Henry.getP, e]
  · simp only [Henry.callWithUnits, e, Henry.at_T0]

/-- a units object passed although every argument is a plain number in the documented unit (explicit reference temperature): the value is the
    plain one whatever the units object is (L1), `to_unitless` of a plain number is that number (L2), and the deprecated alias `get_kH_at_T` is `__call__` -/
theorem henry_plain_arguments_with_units_object (T H θ T0 K k : ℝ) (h : Henry ℝ) :
    henryHAtTU T H θ T0 K = henryHAtT T H θ T0 ∧
    henryHAtTU (α := UV ℝ) (UV.num T) (UV.num H) (UV.num θ) (UV.num T0) (UV.mk 1 k Tdim') = UV.num (henryHAtT T H θ T0) ∧
    h.getKHAtT T = h.call T := by
  refine ⟨?_, ?_, rfl⟩
  · simp only [henryHAtTU, henryHAtT, NumReal.exp_def, toUnitless_def]
  · simp only [henryHAtTU, henryHAtT, UVL.sub_def, UVL.mul_def, UVL.div_def, UVL.nat_def, UVL.tu_def, UVL.exp_def, UV.div, UV.mul, UV.addLike,
      UV.toUnitless, UV.transc, NumReal.exp_def]

/-- water_self_diffusion_coefficient with the documented `err_mult` option (D0, TS perturbed by multiples of their uncertainties):
    unit mode agrees for every perturbation, and no perturbation is the plain correlation -/
theorem water_diffusivity_err_mult_unit_mode_agrees (τ e0 e1 K m s : ℝ) (hK : K ≠ 0) :
    waterDiffusivityErrU (τ * K) e0 e1 K m s = waterDiffusivityErr τ e0 e1 * (m ^ 2 / s) ∧
    waterDiffusivityErr τ 0 0 = waterDiffusivity τ :=
  ⟨waterDiffusivityErrU_eq τ e0 e1 K m s hK, waterDiffusivityErr_zero τ⟩

/-- nernst_potential (as repaired: the ratio is converted with `to_unitless`): concentrations in ANY common-dimension
    unit `x` (mM, M, mol/m³ …: only the ratio of SI values enters), result in `joule / coulomb` -/
theorem nernst_unit_mode_agrees (a b z τ C mol J K x : ℝ) (hK : K ≠ 0) (hmol : mol ≠ 0) (hx : x ≠ 0) :
    nernstPotentialU (a * x) (b * x) z (τ * K) C J K mol = nernstPotential a b z τ * (J / C) :=
  nernstPotentialU_eq a b z τ C mol J K x hK hmol hx

/-- electrical_mobility_from_D (as repaired: kB in J/K): diffusion coefficient in any unit `d`, result in `d * coulomb / joule`
    (= m²/(V s) for `d` = m²/s): no spurious `mol` -/
theorem mobility_unit_mode_agrees (δ z τ J K C d : ℝ) (hK : K ≠ 0) :
    mobilityU (δ * d) z (τ * K) C J K = mobility δ z τ * (d * C / J) :=
  mobilityU_eq δ z τ J K C d hK

/-! ## 1b. the same in the quantity algebra (L2): what `to_unitless` is there for
`UV ℝ` / `UVm ℝ` (Model/PhysProps.lean): plain number | quantity = magnitude × (factor, dimension vector) | exception, with the arithmetic of
`quantities` (numpy functions refuse a quantity that is not dimensionless with factor 1; `math.log(q)` = log of the RAW magnitude; `float(q)` =
raw magnitude).  `UVraw` / `UVmraw` are the same algebras in which `to_unitless` does nothing, i.e. the generated text with the `to_unitless` calls
removed (the text before the repairs).  In each pair below the first theorem says: WITH the code's `to_unitless` the result depends only on the SI
values of the inputs (whatever units they are expressed in), the `…_needs_to_unitless_witness` says: WITHOUT it, it does not. -/

/-- nernst_potential(c_out, c_in, z, T, constants): concentrations `a` in a unit of factor `x` and `b` in a unit of factor `y` (145 mM, 0.015 M),
    temperature `τ` in a unit of factor `k`: the SI value of the result is the plain-number Nernst potential of the SI values, dimension of `T`·R/F. -/
theorem nernst_quantity_algebra_unit_independent (a x b y z τ k F R : ℝ) (d Td : Units.Dims) :
    UV.si (nernstPotentialCU (α := UVm ℝ) (UV.mk a x d) (UV.mk b y d) (UV.num z) (UV.mk τ k Td) (UV.num F) (UV.num R))
      = some (nernstPotentialC (a * x) (b * y) z (τ * k) F R, Td) := by
  rw [nernstCU_L2_si, nernstC_eq]

/-- mixed prefixes: the same two concentrations written as (145 mM, 0.015 M) or (0.145 M, 15 mM) or … give the same potential -/
theorem nernst_mixed_concentration_units (a x b y a' x' b' y' z τ k F R : ℝ) (d Td : Units.Dims)
    (ha : a * x = a' * x') (hb : b * y = b' * y') :
    UV.si (nernstPotentialCU (α := UVm ℝ) (UV.mk a x d) (UV.mk b y d) (UV.num z) (UV.mk τ k Td) (UV.num F) (UV.num R))
    = UV.si (nernstPotentialCU (α := UVm ℝ) (UV.mk a' x' d) (UV.mk b' y' d) (UV.num z) (UV.mk τ k Td) (UV.num F) (UV.num R)) := by
  rw [nernst_quantity_algebra_unit_independent, nernst_quantity_algebra_unit_independent, ha, hb]

/-- the defect named in the property text is expressible: without `to_unitless`, `math.log` takes the raw magnitude of `mM / M`, and
    145 mM / 0.015 M gives a different potential than 0.145 M / 0.015 M (off by ln 1000 · RT/zF) -/
theorem nernst_needs_to_unitless_witness :
    UV.si (nernstPotentialCU (α := UVmraw ℝ) (UV.mk 145 1 cdim) (UV.mk 0.015 1000 cdim) (UV.num 1) (UV.mk 310 1 Tdim') (UV.num 96485.3399) (UV.num 8.314472))
    ≠ UV.si (nernstPotentialCU (α := UVmraw ℝ) (UV.mk 0.145 1000 cdim) (UV.mk 0.015 1000 cdim) (UV.num 1) (UV.mk 310 1 Tdim') (UV.num 96485.3399) (UV.num 8.314472)) :=
  nernst_raw_witness

/-- water_viscosity with a units object in the quantity algebra: temperature `x` in ANY temperature unit (factor `f`), `units.kelvin` of factor `k`,
    `units.centipoise` of factor `c`: the result is the quantity (plain value at the temperature's magnitude in `units.kelvin`) × centipoise -/
theorem water_viscosity_quantity_algebra_agrees (x f c k : ℝ) (hf : f ≠ 0) (hk : k ≠ 0) :
    waterViscosityU (α := UV ℝ) (UV.mk x f Tdim') (UV.mk 1 c Pdim) (UV.mk 1 k Tdim') = UV.mk (waterViscosity (x * f / k)) c Pdim :=
  viscU_L2 x f c k hf hk

/-- without `to_unitless` the exponent `K/mK` is refused ("exponent must be dimensionless"): 300000 mK gives no value (ℚ; the power function is a
    placeholder that is never reached, `UV.transc_err`) -/
theorem water_viscosity_needs_to_unitless_witness :
    (letI : HasRPow Rat := ⟨fun x _ => ratPlaceholder x⟩
     UV.si (waterViscosityU (α := UVraw Rat) (UV.mk 300000 (1/1000) Tdim') (UV.mk 1 (1/1000) Pdim) (UV.mk 1 1 Tdim'))) = none :=
  visc_raw_witness

/-- Henry_H_at_T with a units object in the quantity algebra: `T` in a unit of factor `f`, `Tderiv` in a unit of factor `g`, `units.Kelvin` of factor
    `k`: a plain-number exponent that depends only on the SI values `τ·f`, `θ·g` -/
theorem henry_quantity_algebra_unit_independent (τ f H θ g k : ℝ) (hf : f ≠ 0) (hk : k ≠ 0) :
    henryHAtTDefaultU (α := UV ℝ) (UV.mk τ f Tdim') (UV.num H) (UV.mk θ g Tdim') (UV.mk 1 k Tdim')
      = UV.num (henryHAtTDefault (τ * f / k) H (θ * g / k)) := by
  rw [henryDefaultU_L2, henryHAtTDefault_eq, henryHAtT_eq]
  congr 3
  by_cases hτ : τ = 0
  · subst hτ; simp; field_simp
  · field_simp

/-- Henry_H_at_T with an EXPLICIT reference temperature (a `Henry` / `HenryWithUnits` object tabulated at T0): `T`, `Tderiv`, `T0` each in its own temperature unit
    (factors f, g, f0): the value is the plain one at the SI values; the unit of `units.Kelvin` does not enter -/
theorem henry_explicit_T0_quantity_algebra_unit_independent (τ f H θ g τ0 f0 k : ℝ) (hf : f ≠ 0) (hf0 : f0 ≠ 0) :
    henryHAtTU (α := UV ℝ) (UV.mk τ f Tdim') (UV.num H) (UV.mk θ g Tdim') (UV.mk τ0 f0 Tdim') (UV.mk 1 k Tdim')
      = UV.num (henryHAtT (τ * f) H (θ * g) (τ0 * f0)) :=
  henryT0U_L2 τ f H θ g τ0 f0 k hf hf0

/-- non-vacuity: 300000 mK, Tderiv 1800 K, T0 = 527.67 °R (= 293.15 K): the plain value at (300, 1800, 293.15) -/
example : henryHAtTU (α := UV ℝ) (UV.mk 300000 (1/1000) Tdim') (UV.num 1.2e-3) (UV.mk 1800 1 Tdim') (UV.mk 527.67 (5/9) Tdim') (UV.mk 1 1 Tdim')
    = UV.num (henryHAtT (300000 * (1/1000)) 1.2e-3 (1800 * 1) (527.67 * (5/9))) :=
  henry_explicit_T0_quantity_algebra_unit_independent _ _ _ _ _ _ _ _ (by norm_num) (by norm_num)

/-- water_density with a units object in the quantity algebra: temperature `x` in any temperature unit (factor f), `units.Kelvin` (k), `units.kilogram` (g, Md),
    `units.meter` (m, Ld): SI value = plain value at the temperature's magnitude in `units.Kelvin` times g/m³; dimension = mass·length⁻³ (the temperature part cancels) -/
theorem water_density_quantity_algebra_agrees (x f k g m : ℝ) (Md Ld : Units.Dims) (hf : f ≠ 0) (hk : k ≠ 0) :
    UV.si (waterDensityU (α := UV ℝ) (UV.mk x f Tdim') (UV.mk 1 k Tdim') (UV.mk 1 g Md) (UV.mk 1 m Ld))
      = some (waterDensity (x * f / k) * (g / m ^ 3),
              (Md.sub ((Ld.add Ld).add Ld)).add (((Tdim'.add Tdim').add Tdim').sub ((Tdim'.add Tdim').add Tdim'))) :=
  waterDensityU_L2 x f k g m Md Ld hf hk

/-- the dimension vector above with SI mass / length: kg·m⁻³ -/
example : (Units.Dims.sub [0, 1, 0, 0, 0, 0, 0] ((Units.Dims.add [1, 0, 0, 0, 0, 0, 0] [1, 0, 0, 0, 0, 0, 0]).add [1, 0, 0, 0, 0, 0, 0])).add
    (((Tdim'.add Tdim').add Tdim').sub ((Tdim'.add Tdim').add Tdim')) = [-3, 1, 0, 0, 0, 0, 0] := by decide

/-- water_self_diffusion_coefficient with a units object in the quantity algebra, on the domain where the Python power is real (positive scale factors, temperature
    at or above the singular temperature TS = 215.05 K — below it `(T/TS − 1) ** 2.063` is a complex number in Python): SI value = plain value × m²/s, dimension length²·time⁻¹ -/
theorem water_diffusivity_quantity_algebra_agrees (x f k m sc : ℝ) (Ld Sd : Units.Dims) (hf : 0 < f) (hk : 0 < k) (hbase : 215.05 ≤ x * f / k) :
    UV.si (waterDiffusivityU (α := UV ℝ) (UV.mk x f Tdim') (UV.mk 1 k Tdim') (UV.mk 1 m Ld) (UV.mk 1 sc Sd))
      = some (waterDiffusivity (x * f / k) * (m ^ 2 / sc),
              ((Ld.add Ld).add (Units.Dims.smul (-1) Sd)).add (Tdim'.sub Tdim')) :=
  waterDiffusivityU_L2 x f k m sc Ld Sd hf hk hbase

/-- non-vacuity: 298150 mK with cm and ms satisfies the hypotheses -/
example : (0 : ℝ) < 1/1000 ∧ (0 : ℝ) < 1 ∧ (215.05 : ℝ) ≤ 298150 * (1/1000) / 1 := by norm_num

/-- without `to_unitless`, `np.exp` of the unsimplified `K/mK` exponent is refused (ValueError) -/
theorem henry_needs_to_unitless_witness :
    (letI : HasExp Rat := ⟨ratPlaceholder⟩
     UV.si (henryHAtTDefaultU (α := UVraw Rat) (UV.mk 300000 (1/1000) Tdim') (UV.num (12/10000)) (UV.mk 1800 1 Tdim') (UV.mk 1 1 Tdim'))) = none :=
  henry_raw_witness

/-- sulfuric_acid_density: the number handed to `float()` is the reduced temperature computed from SI values, for `T` in any temperature unit -/
theorem sulfuric_float_tK_quantity_algebra_unit_independent (w x f k m g : ℝ) (Ld Md : Units.Dims) (hf : f ≠ 0) (hk : k ≠ 0) :
    UV.float (sulfuricTU (α := UV ℝ) (UV.num w) (UV.mk x f Tdim') (UV.mk 1 k Tdim') (UV.mk 1 g Md) (UV.mk 1 m Ld))
      = .ok (sulfuricT w (x * f / k)) := by
  rw [sulfuricTU_L2]
  simp only [UV.float, sulfuricT, NumReal.dec_eq, Int.cast_ofNat, Nat.cast_one]
  congr 1
  field_simp
  norm_num
  ring

/-- without `to_unitless`, `float(t / K)` is the raw magnitude: 300000 mK and 300 K give different densities (3.04e12 vs 1392.76 kg/m³) — and
    with it they agree -/
theorem sulfuric_needs_to_unitless_witness :
    UV.si (sulfuricAcidDensityUVraw (1/2 : Rat) (UV.mk 300000 (1/1000) Tdim') (UV.mk 1 1 Tdim') (UV.mk 1 1 [0,1,0,0,0,0,0]) (UV.mk 1 1 [1,0,0,0,0,0,0]))
      ≠ UV.si (sulfuricAcidDensityUVraw (1/2 : Rat) (UV.mk 300 1 Tdim') (UV.mk 1 1 Tdim') (UV.mk 1 1 [0,1,0,0,0,0,0]) (UV.mk 1 1 [1,0,0,0,0,0,0]))
    ∧ UV.si (sulfuricAcidDensityUV (1/2 : Rat) (UV.mk 300000 (1/1000) Tdim') (UV.mk 1 1 Tdim') (UV.mk 1 1 [0,1,0,0,0,0,0]) (UV.mk 1 1 [1,0,0,0,0,0,0]))
      = UV.si (sulfuricAcidDensityUV (1/2 : Rat) (UV.mk 300 1 Tdim') (UV.mk 1 1 Tdim') (UV.mk 1 1 [0,1,0,0,0,0,0]) (UV.mk 1 1 [1,0,0,0,0,0,0])) :=
  ⟨sulfuric_raw_witness, sulfuric_L2_example⟩

/-- nernst_potential(c_out, c_in, z, T, constants=None, units=u) in the quantity algebra (math backend): concentrations in units (x, d), (y, d) — possibly
    different prefixes —, temperature in (k, Td), the unit symbols coulomb (c, Cd), joule (j, Jd), kelvin (kk, Kd), mol (mo, Md) arbitrary quantities:
    the SI value of the result is the scale-factor (L1) value of the SI values of the inputs — in particular the logarithm is taken of the ratio of the SI
    concentrations, not of the raw magnitudes — and the dimension is that of `joule/kelvin/mol · T / (coulomb/mol)` -/
theorem nernst_units_object_quantity_algebra (a x b y z τ k c j kk mo : ℝ) (d Td Cd Jd Kd Md : Units.Dims) :
    UV.si (nernstPotentialU (α := UVm ℝ) (UV.mk a x d) (UV.mk b y d) (UV.num z) (UV.mk τ k Td)
            (UV.mk 1 c Cd) (UV.mk 1 j Jd) (UV.mk 1 kk Kd) (UV.mk 1 mo Md))
      = some (nernstPotentialU (a * x) (b * y) z (τ * k) c j kk mo,
              Units.Dims.sub (Units.Dims.add (Units.Dims.sub (Units.Dims.sub Jd Kd) Md) Td) (Units.Dims.sub Cd Md)) :=
  nernstU_L2 a x b y z τ k c j kk mo d Td Cd Jd Kd Md

/-- the same with a `constants` object whose Faraday and gas constants are QUANTITIES (`quantities.constants` / `default_constants`: unit constants of
    magnitude 1 and scale factors `fF`, `rR`) and `units` left None: SI value = plain Nernst potential of the SI values with `F = fF`, `R = rR`,
    dimension `R·T/F` -/
theorem nernst_quantity_constants_quantity_algebra (a x b y z τ k fF rR : ℝ) (d Td Fd Rd : Units.Dims) :
    UV.si (nernstPotentialCU (α := UVm ℝ) (UV.mk a x d) (UV.mk b y d) (UV.num z) (UV.mk τ k Td) (UV.mk 1 fF Fd) (UV.mk 1 rR Rd))
      = some (nernstPotentialC (a * x) (b * y) z (τ * k) fF rR, Units.Dims.sub (Units.Dims.add Rd Td) Fd) :=
  nernstCU_qconst_L2 a x b y z τ k fF rR d Td Fd Rd

/-- non-vacuity: 145 mM outside, 0.015 M inside, 310 K, default units (all scale factors 1): volt = kg·m²·s⁻³·A⁻¹ -/
example : UV.si (nernstPotentialU (α := UVm ℝ) (UV.mk 145 1 cdim) (UV.mk 0.015 1000 cdim) (UV.num 1) (UV.mk 310 1 Tdim')
      (UV.mk 1 1 [0, 0, 1, 1, 0, 0, 0]) (UV.mk 1 1 [2, 1, -2, 0, 0, 0, 0]) (UV.mk 1 1 Tdim') (UV.mk 1 1 [0, 0, 0, 0, 0, 0, 1]))
    = some (nernstPotentialU (145 * 1) (0.015 * 1000) 1 (310 * 1) 1 1 1 1, [2, 1, -3, -1, 0, 0, 0]) := by
  rw [nernst_units_object_quantity_algebra]; rfl

/-- electrical_mobility_from_D with a units object in the quantity algebra: diffusion coefficient `δ` in a unit (f, Dd), temperature in (k, Td), the unit
    symbols coulomb (c, Cd), joule (j, Jd), kelvin (kk, Kd): the SI value is the L1 value of the SI values, and the DIMENSION of the result is
    `D · coulomb / (joule / kelvin · T)` — no other unit symbol (in particular no `mol`) enters -/
theorem mobility_quantity_algebra (δ f z τ k c j kk : ℝ) (Dd Cd Jd Kd Td : Units.Dims) :
    UV.si (mobilityU (α := UV ℝ) (UV.mk δ f Dd) (UV.num z) (UV.mk τ k Td) (UV.mk 1 c Cd) (UV.mk 1 j Jd) (UV.mk 1 kk Kd))
      = some (mobilityU (δ * f) z (τ * k) c j kk,
              Units.Dims.sub (Units.Dims.add Dd Cd) (Units.Dims.add (Units.Dims.sub Jd Kd) Td)) :=
  mobilityU_L2 δ f z τ k c j kk Dd Cd Jd Kd Td

/-- with SI dimensions (m²/s, A·s, kg·m²/s², K): m²/(V·s) = kg⁻¹·s²·A, amount-of-substance exponent 0 (no spurious `mol`) -/
theorem mobility_dimension_no_mol :
    Units.Dims.sub (Units.Dims.add [2, 0, -1, 0, 0, 0, 0] [0, 0, 1, 1, 0, 0, 0])
      (Units.Dims.add (Units.Dims.sub [2, 1, -2, 0, 0, 0, 0] [0, 0, 0, 0, 1, 0, 0]) [0, 0, 0, 0, 1, 0, 0]) = [0, -1, 2, 1, 0, 0, 0] := by decide

/-! ## 2. warnings: emitted iff outside the documented range
Reference ranges (docstrings / messages of the source, papers): water density 0–40 °C (Tanaka 2001), viscosity 0–100 °C
(Korson 1969), self-diffusion 0–100 °C (Holz 2000), permittivity 0–350 °C (Bradley & Pitzer 1979), sulfuric acid
0–50 °C and 0.1 ≤ w ≤ 0.9 (Myhre 1998); 0 °C = 273.15 K. -/

theorem water_density_warn_iff_outside_range (T : ℝ) :
    waterDensityWarns T = true ↔ (T < 273.15 ∨ 313.15 < T) := waterDensityWarns_iff T

theorem water_viscosity_warn_iff_outside_range (T : ℝ) :
    waterViscosityWarns T = true ↔ (T < 273.15 ∨ 373.15 < T) := waterViscosityWarns_iff T

theorem water_diffusivity_warn_iff_outside_range (T : ℝ) :
    waterDiffusivityWarns T = true ↔ (T < 273.15 ∨ 373.15 < T) := waterDiffusivityWarns_iff T

/-- permittivity, as coded: outside 0–350 °C, or above 70 °C together with more than 2000 bar.
    (The nested `P > 5000 bar` test of the source sits in the `else` of `P > 2000 bar` and can never fire.) -/
theorem water_permittivity_warn_iff (T P : ℝ) :
    waterPermittivityWarns T P = true ↔ (T < 273.15 ∨ 623.15 < T ∨ (343.15 < T ∧ 2000 < P)) :=
  waterPermittivityWarns_iff T P

/-- the clause of the property: a warning whenever the temperature is outside its range, none when temperature and
    pressure (≤ 2000 bar) are inside -/
theorem water_permittivity_warn_temperature (T P : ℝ) :
    ((T < 273.15 ∨ 623.15 < T) → waterPermittivityWarns T P = true) ∧
    (273.15 ≤ T → T ≤ 623.15 → P ≤ 2000 → waterPermittivityWarns T P = false) := by
  constructor
  · intro h
    rw [waterPermittivityWarns_iff]
    rcases h with h | h
    · exact Or.inl h
    · exact Or.inr (Or.inl h)
  · intro h0 h1 h2
    rw [Bool.eq_false_iff, Ne, waterPermittivityWarns_iff]
    rintro (h | h | ⟨_, h⟩) <;> linarith

theorem sulfuric_acid_density_warn_iff_outside_range (w T : ℝ) :
    sulfuricTWarns w T = true ↔ (T < 273.15 ∨ 323.15 < T ∨ w < 0.1 ∨ 0.9 < w) := sulfuricWarns_iff w T

/-- the range check in unit mode is the plain one (positive scale factor of `units.Kelvin`) -/
theorem water_density_warn_unit_mode (τ K m kg : ℝ) (hK : 0 < K) :
    waterDensityUWarns (τ * K) K kg m = waterDensityWarns τ := by
  rw [Bool.eq_iff_iff, waterDensityWarns_iff]
  simp only [waterDensityUWarns, PyFn.warnGate, PyFn.anyS, Bool.true_and, NumReal.npow_eq_pow, NumReal.dec_eq, Int.cast_ofNat, Nat.cast_ofNat, Nat.cast_one,
    Int.cast_neg, Bool.or_eq_true, decide_eq_true_eq, Nat.cast_zero]
  constructor
  · rintro (h | h)
    · left; nlinarith
    · right; nlinarith
  · rintro (h | h)
    · left; nlinarith
    · right; nlinarith

/-- the range checks of the other correlations in unit mode are the plain ones (positive scale factors) -/
theorem water_viscosity_warn_unit_mode (τ cP K : ℝ) (hK : 0 < K) :
    waterViscosityUWarns (τ * K) cP K = waterViscosityWarns τ := by
  rw [Bool.eq_iff_iff, waterViscosityWarns_iff]
  simp only [waterViscosityUWarns, PyFn.warnGate, PyFn.anyS, Bool.true_and, NumReal.npow_eq_pow, NumReal.dec_eq, Int.cast_ofNat, Nat.cast_ofNat,
    Nat.cast_one, Int.cast_neg, Bool.or_eq_true, decide_eq_true_eq, Nat.cast_zero]
  constructor
  · rintro (h | h)
    · left; nlinarith
    · right; nlinarith
  · rintro (h | h)
    · left; nlinarith
    · right; nlinarith

theorem water_diffusivity_warn_unit_mode (τ K m s : ℝ) (hK : 0 < K) :
    waterDiffusivityUWarns (τ * K) K m s = waterDiffusivityWarns τ := by
  rw [Bool.eq_iff_iff, waterDiffusivityWarns_iff]
  simp only [waterDiffusivityUWarns, PyFn.warnGate, PyFn.anyS, Bool.true_and, NumReal.npow_eq_pow, NumReal.dec_eq, Int.cast_ofNat, Nat.cast_ofNat,
    Nat.cast_one, Int.cast_neg, Bool.or_eq_true, decide_eq_true_eq, Nat.cast_zero]
  constructor
  · rintro (h | h)
    · left; nlinarith
    · right; nlinarith
  · rintro (h | h)
    · left; nlinarith
    · right; nlinarith

theorem sulfuric_acid_density_warn_unit_mode (w τ K kg m : ℝ) (hK : 0 < K) :
    sulfuricTUWarns w (τ * K) K kg m = sulfuricTWarns w τ := by
  rw [Bool.eq_iff_iff, sulfuricWarns_iff]
  simp only [sulfuricTUWarns, PyFn.warnGate, PyFn.anyS, Bool.true_and, NumReal.npow_eq_pow, NumReal.dec_eq, Int.cast_ofNat, Nat.cast_ofNat,
    Nat.cast_one, Int.cast_neg, Bool.or_eq_true, decide_eq_true_eq, Nat.cast_zero]
  constructor
  · rintro ((h | h) | (h | h))
    · left; nlinarith
    · right; left; nlinarith
    · right; right; left; linarith
    · right; right; right; linarith
  · rintro (h | h | h | h)
    · left; left; nlinarith
    · left; right; nlinarith
    · right; left; linarith
    · right; right; linarith

/-- water_permittivity: temperature AND pressure checks in unit mode are the plain ones (positive scale factors of `units.kelvin`, `units.bar`) -/
theorem water_permittivity_warn_unit_mode (τ p K bar : ℝ) (hK : 0 < K) (hb : 0 < bar) :
    waterPermittivityUWarns (τ * K) (p * bar) bar K = waterPermittivityWarns τ p :=
  waterPermittivityUWarns_eq τ p K bar hK hb

/-- lg_solubility_ratio warns iff fluoride is among the electrolytes -/
theorem lg_solubility_ratio_warn_iff (l : List (String × ℝ)) :
    lgSolubilityWarns l = true ↔ ∃ p ∈ l, p.1 = "F-" := by
  simp [lgSolubilityWarns]

/-! ## 3. anchors (values printed in the repository's tests / docstrings, within the printed tolerance) -/

/-- Tanaka's table as quoted in test_water_density (kg/m³ at 0, 4, 10, 15, 20, 22, 25, 30, 40 °C) -/
theorem water_density_anchor_values :
    |waterDensity (273.15 + 0 : ℝ) - 999.8395| < 0.004 ∧ |waterDensity (273.15 + 4 : ℝ) - 999.9720| < 0.003 ∧
    |waterDensity (273.15 + 10 : ℝ) - 999.7026| < 0.0003 ∧ |waterDensity (273.15 + 15 : ℝ) - 999.1026| < 0.0001 ∧
    |waterDensity (273.15 + 20 : ℝ) - 998.2071| < 0.0005 ∧ |waterDensity (273.15 + 22 : ℝ) - 997.7735| < 0.0007 ∧
    |waterDensity (273.15 + 25 : ℝ) - 997.0479| < 0.0009 ∧ |waterDensity (273.15 + 30 : ℝ) - 995.6502| < 0.0016 ∧
    |waterDensity (273.15 + 40 : ℝ) - 992.2| < 0.02 := by
  simp only [waterDensity_eq, abs_lt]
  norm_num

/-- docstring example: `'%.2f' % water_density(277.13)` is `999.97` -/
theorem water_density_anchor_docstring : 999.965 ≤ waterDensity (277.13 : ℝ) ∧ waterDensity (277.13 : ℝ) < 999.975 := by
  rw [waterDensity_eq]; norm_num

/-- Korson's table: exactly 1.0020 cP at 20 °C (the exponent vanishes) -/
theorem water_viscosity_anchor_20C : waterViscosity (293.15 : ℝ) = 1.002 := anchor_viscosity_20

/-- Korson's Table II as quoted in test_water_viscosity (21 temperatures, tolerance 5e-4 cP; 6e-4 at 95 °C, 2e-3 at 100 °C), stated on the
    EXPONENT of the correlation, which is rational: `η = 1.002 · 10^e(T)` (`waterViscosity_eq`), and `|η − v| < tol` iff
    `log10((v − tol)/1.002) < e(T) < log10((v + tol)/1.002)`; the decimal bounds below are these logarithms rounded outwards to 6 places
    (computed in tools, trusted arithmetic).  Depends on A, B and C: a changed digit of any of them moves `e` out of an interval. -/
theorem water_viscosity_exponent_anchor_values :
    (0.252252 < viscExponent (273.15 + 0) ∧ viscExponent (273.15 + 0) < 0.252495) ∧
    (0.180604 < viscExponent (273.15 + 5) ∧ viscExponent (273.15 + 5) < 0.180891) ∧
    (0.115208 < viscExponent (273.15 + 10) ∧ viscExponent (273.15 + 10) < 0.115541) ∧
    (0.055160 < viscExponent (273.15 + 15) ∧ viscExponent (273.15 + 15) < 0.055542) ∧
    (-0.000217 < viscExponent (273.15 + 20) ∧ viscExponent (273.15 + 20) < 0.000217) ∧
    (-0.051576 < viscExponent (273.15 + 25) ∧ viscExponent (273.15 + 25) < -0.051087) ∧
    (-0.099410 < viscExponent (273.15 + 30) ∧ viscExponent (273.15 + 30) < -0.098864) ∧
    (-0.144139 < viscExponent (273.15 + 35) ∧ viscExponent (273.15 + 35) < -0.143535) ∧
    (-0.186155 < viscExponent (273.15 + 40) ∧ viscExponent (273.15 + 40) < -0.185489) ∧
    (-0.225768 < viscExponent (273.15 + 45) ∧ viscExponent (273.15 + 45) < -0.225038) ∧
    (-0.263199 < viscExponent (273.15 + 50) ∧ viscExponent (273.15 + 50) < -0.262404) ∧
    (-0.298696 < viscExponent (273.15 + 55) ∧ viscExponent (273.15 + 55) < -0.297834) ∧
    (-0.332389 < viscExponent (273.15 + 60) ∧ viscExponent (273.15 + 60) < -0.331457) ∧
    (-0.364481 < viscExponent (273.15 + 65) ∧ viscExponent (273.15 + 65) < -0.363478) ∧
    (-0.395132 < viscExponent (273.15 + 70) ∧ viscExponent (273.15 + 70) < -0.394056) ∧
    (-0.424527 < viscExponent (273.15 + 75) ∧ viscExponent (273.15 + 75) < -0.423375) ∧
    (-0.452725 < viscExponent (273.15 + 80) ∧ viscExponent (273.15 + 80) < -0.451496) ∧
    (-0.479992 < viscExponent (273.15 + 85) ∧ viscExponent (273.15 + 85) < -0.478684) ∧
    (-0.506296 < viscExponent (273.15 + 90) ∧ viscExponent (273.15 + 90) < -0.504907) ∧
    (-0.532078 < viscExponent (273.15 + 95) ∧ viscExponent (273.15 + 95) < -0.530310) ∧
    (-0.559487 < viscExponent (273.15 + 100) ∧ viscExponent (273.15 + 100) < -0.553244) := by
  simp only [viscExponent]
  norm_num

/-- the link from the exponent intervals to the viscosity itself (monotonicity of `10^x`): an exponent in `(lo, hi)` puts the viscosity in
    `(1.002·10^lo, 1.002·10^hi)`; e.g. at 25 °C (table 0.8903 ± 5e-4 cP) -/
theorem water_viscosity_anchor_interval_link {T lo hi : ℝ} (h1 : lo < viscExponent T) (h2 : viscExponent T < hi) :
    1.002 * (10 : ℝ) ^ lo < waterViscosity T ∧ waterViscosity T < 1.002 * (10 : ℝ) ^ hi :=
  waterViscosity_between h1 h2

example : 1.002 * (10 : ℝ) ^ (-0.051576 : ℝ) < waterViscosity (273.15 + 25) ∧ waterViscosity (273.15 + 25) < 1.002 * (10 : ℝ) ^ (-0.051087 : ℝ) := by
  apply water_viscosity_anchor_interval_link <;> (simp only [viscExponent]; norm_num)

/-- the viscosity IS `1.002 · 10^e(T)` with that exponent (ties the anchors above to the translated function) -/
theorem water_viscosity_closed_form (T : ℝ) : waterViscosity T = 1.002 * (10 : ℝ) ^ viscExponent T := waterViscosity_eq T

/-- test_lg_solubility_ratio: N2O in 0.05 M NaBr; the hand value `(−0.0110 + 0.0137)·0.05 + (−0.0110 + 0.1171)·0.05 = 0.00544` (exact, ℚ) -/
theorem lg_solubility_ratio_anchor_value :
    lgSolubilityRatio (1 : Rat) [("Br-", 5/100), ("Na+", 5/100)] "N2O" = .ok (544/100000) := by decide +kernel

/-- values of the Myhre table at five (w, T) to 1e-9 kg/m³ (reference values of the unchanged `_data`; a changed digit of the table that moves the
    density by more than that at these points is detected) -/
theorem sulfuric_acid_density_table_anchor_values :
    |sulfuricAcidDensity (1/10 : Rat) (27315/100) - 10733191493868799/10000000000000| < 1/1000000000 ∧
    |sulfuricAcidDensity (3/10 : Rat) (28315/100) - 12255658926335814/10000000000000| < 1/1000000000 ∧
    |sulfuricAcidDensity (5/10 : Rat) (29315/100) - 13959236664874945/10000000000000| < 1/1000000000 ∧
    |sulfuricAcidDensity (7/10 : Rat) (30315/100) - 16109077539287246/10000000000000| < 1/1000000000 ∧
    |sulfuricAcidDensity (9/10 : Rat) (32315/100) - 19044226931401354/10000000000000| < 1/1000000000 := by
  decide +kernel

/-- docstring `'%d' % sulfuric_acid_density(.5, 293)` = `1396`; test: `|1063.8 - rho(0.1, 298)| < 0.1` -/
theorem sulfuric_acid_density_anchor_values :
    ((1396 : Rat) ≤ sulfuricAcidDensity (1/2 : Rat) 293 ∧ sulfuricAcidDensity (1/2 : Rat) 293 < 1397) ∧
    ((10637 : Rat) / 10 < sulfuricAcidDensity (1/10 : Rat) 298 ∧ sulfuricAcidDensity (1/10 : Rat) 298 < 10639 / 10) :=
  ⟨anchor_sulfuric_doc, anchor_sulfuric_test⟩

/-- test_electrical_mobility_from_D: `mu = -2 * 1.60217657e-19 * 3 / 1.3806488e-23 / 100` within rtol 1e-5 -/
theorem mobility_anchor_value :
    |mobility (3 : ℝ) (-2) 100 - (-2 * 1.60217657e-19 * 3 / 1.3806488e-23 / 100)| ≤ 1e-5 * |(-2 * 1.60217657e-19 * 3 / 1.3806488e-23 / 100 : ℝ)| := by
  rw [mobility_eq]
  norm_num [abs_le]

/-! ## 4. qualitative shape -/

/-- water is densest at 3.983035 °C, which lies in (3.9, 4.1) °C: on the whole validity range the density is at most the
    value there, with equality only there -/
theorem water_density_maximum_near_4C :
    (273.15 + 3.9 < (277.133035 : ℝ) ∧ (277.133035 : ℝ) < 273.15 + 4.1) ∧
    ∀ T : ℝ, 273.15 ≤ T → T ≤ 313.15 →
      waterDensity T ≤ waterDensity 277.133035 ∧ (waterDensity T = waterDensity 277.133035 → T = 277.133035) :=
  ⟨by norm_num, fun T h0 h1 => waterDensity_le_max T h0 h1⟩

/-- viscosity falls strictly with temperature over 0–100 °C -/
theorem water_viscosity_strictly_decreasing {T1 T2 : ℝ} (h0 : 273.15 ≤ T1) (h12 : T1 < T2) (h2 : T2 ≤ 373.15) :
    waterViscosity T2 < waterViscosity T1 := waterViscosity_strictAnti h0 h12 h2

/-- PARTIAL: permittivity falls strictly with temperature over 0–350 °C AT THE REFERENCE PRESSURE 1000 bar ONLY, where the logarithmic pressure
    term is `C · log 1 = 0` (`B + 1000 ≠ 0` on the range is not needed: `Real.log` is total, and at 1000 bar the argument is 1 or 0/0).
    GAP: the default pressure of the function is 1 bar; the full statement (strictly decreasing in T at every fixed pressure of the range,
    in particular at 1 bar) is NOT proved here — it is sampled by the oracle on the real code (grid at 1 bar). -/
theorem water_permittivity_strictly_decreasing_partial {T1 T2 : ℝ} (h0 : 273.15 ≤ T1) (h12 : T1 < T2) (h2 : T2 ≤ 623.15) :
    waterPermittivity T2 1000 < waterPermittivity T1 1000 := waterPermittivity_1000_strictAnti h0 h12 h2

/-! ## 5. closed-form relations and their inverses -/

/-- (domain: `T ≠ 0`, `T0 ≠ 0` — Python raises ZeroDivisionError there; Lean's `1/0 = 0` would make the statement hold for the wrong reason)
    `Henry.__call__` is the van 't Hoff form `Hcp · exp(Tderiv · (1/T − 1/T0))`, T0 = 298.15 unless given -/
theorem vant_hoff_spec (h : Henry ℝ) (T : ℝ) (_hT : T ≠ 0) (_hT0 : h.T0.getD 298.15 ≠ 0) :
    h.call T = h.Hcp * Real.exp (h.Tderiv * (1 / T - 1 / (h.T0.getD 298.15))) := Henry.call_eq h T

/-- `d ln H / d(1/T) = Tderiv`: `ln (H(T) / Hcp)` is linear in `1/T` with slope `Tderiv`, and `H(T0) = Hcp` -/
theorem vant_hoff_slope (h : Henry ℝ) (T : ℝ) (hH : 0 < h.Hcp) (_hT : T ≠ 0) (_hT0 : h.T0.getD 298.15 ≠ 0) :
    Real.log (h.call T / h.Hcp) = h.Tderiv * (1 / T - 1 / (h.T0.getD 298.15)) ∧ h.call (h.T0.getD 298.15) = h.Hcp :=
  ⟨Henry.vant_hoff h T hH, Henry.at_T0 h⟩

/-- pressure → concentration → pressure and concentration → pressure → concentration -/
theorem henry_inverse (h : Henry ℝ) (T x : ℝ) (hH : h.Hcp ≠ 0) :
    h.getP T (h.getC T x) = x ∧ h.getC T (h.getP T x) = x :=
  ⟨Henry.getP_getC h T x hH, Henry.getC_getP h T x hH⟩

/-- Nernst equation `E = R T / (z F) · ln(c_out / c_in)` with the constants of the source (or the given ones), on the domain on which the Python
    returns a number (positive concentrations, non-zero charge; `math.log` raises ValueError otherwise, `/` ZeroDivisionError); exchanging the
    two sides changes the sign, equal concentrations give 0 -/
theorem nernst_spec (a b z T F R : ℝ) (ha : 0 < a) (hb : 0 < b) (hz : z ≠ 0) (hF : F ≠ 0) :
    nernstPotential a b z T = (8.3144598 * T) / (z * 96485.33289) * Real.log (a / b) ∧
    nernstPotentialC a b z T F R = (R * T) / (z * F) * Real.log (a / b) ∧
    nernstPotential b a z T = - nernstPotential a b z T ∧ nernstPotential a a z T = 0 ∧
    nernstPotentialC a b z T F R * (z * F) = R * T * (Real.log a - Real.log b) := by
  refine ⟨nernst_eq a b z T, nernstC_eq a b z T F R, nernst_antisymm a b z T, nernst_equal_conc a z T ha.ne', ?_⟩
  rw [nernstC_eq, Real.log_div ha.ne' hb.ne']
  field_simp

/-- Einstein–Smoluchowski `μ = D z e / (kB T)`, i.e. `μ kB T = D z e` -/
theorem mobility_spec (D z T kB e : ℝ) (hk : kB ≠ 0) (hT : T ≠ 0) :
    mobility D z T = D * z * 1.60217662e-19 / (1.38064852e-23 * T) ∧
    mobilityC D z T kB e = D * z * e / (kB * T) ∧
    mobilityC D z T kB e * (kB * T) = D * z * e :=
  ⟨mobility_eq D z T, mobilityC_eq D z T kB e, mobility_einstein D z T kB e hk hT⟩

/-- density_from_concentration inverts "concentration from density": whenever it returns `ρ` (no NoConvergence), `ρ` is
    the density `rho_cb(w)` at the mass fraction `w = conc · M / ρ'` of an iterate `ρ'` within `atol` of `ρ`
    (an `atol`-approximate fixed point of `ρ ↦ rho_cb(conc · M / ρ)`), for every callback, tolerance and `maxiter` -/
theorem density_from_concentration_fixed_point (rhoCb : ℝ → ℝ) (conc M atol rho0 : ℝ) (maxiter : Nat) (ρ : ℝ)
    (h : densityFromConcentrationWith rhoCb conc M atol rho0 maxiter = .ok ρ) :
    ∃ ρ' : ℝ, ρ = rhoCb (conc * M / ρ') ∧ |ρ - ρ'| ≤ atol :=
  dfcIter_ok _ _ _ _ h

/-- success characterisation (exact): with ρ₀ the start value and ρₖ₊₁ = rho_cb(conc·M/ρₖ) (`dfcSeq`), if `n` (1 ≤ n ≤ maxiter) is the FIRST index
    with |ρₙ − ρₙ₋₁| ≤ atol, the function returns ρₙ; with `maxiter = 0` it always raises NoConvergence.  (Realistic: the docstring call
    `density_from_concentration(400, 293)` has n = 5; more than `maxiter` non-converged passes ⇒ NoConvergence is `dfcIter`'s other branch.) -/
theorem density_from_concentration_success (rhoCb : ℝ → ℝ) (conc M atol rho0 : ℝ) (maxiter n : Nat) (h1 : 1 ≤ n) (hn : n ≤ maxiter)
    (hbefore : ∀ m, 1 ≤ m → m < n → atol < |dfcSeq rhoCb conc M rho0 m - dfcSeq rhoCb conc M rho0 (m - 1)|)
    (hat : |dfcSeq rhoCb conc M rho0 n - dfcSeq rhoCb conc M rho0 (n - 1)| ≤ atol) :
    densityFromConcentrationWith rhoCb conc M atol rho0 maxiter = .ok (dfcSeq rhoCb conc M rho0 n) ∧
    densityFromConcentrationWith rhoCb conc M atol rho0 0 = .error "NoConvergence" := by
  constructor
  · exact dfcIter_first_convergence hn hbefore hat (n - 1) 0 (maxiter + 1) (by omega) (by omega)
  · simp [densityFromConcentrationWith, dfcIter]

/-- the first loop test `atol < abs(inf)`: for `atol = inf` / `nan` (`entered = false`) the start value is returned untouched -/
theorem density_from_concentration_not_entered (rhoCb : ℝ → ℝ) (conc M atol rho0 : ℝ) (maxiter : Nat) :
    densityFromConcentrationPy false rhoCb conc M atol rho0 maxiter = .ok rho0 ∧
    densityFromConcentrationPy true rhoCb conc M atol rho0 maxiter = densityFromConcentrationWith rhoCb conc M atol rho0 maxiter := ⟨rfl, rfl⟩

/-- the hand model of `sulfuric_acid_density` is the double power sum `Σ_i w^i Σ_j data[i][j] t^j` of Myhre's equation (2) -/
theorem sulfuric_acid_density_is_power_sum (wi t : ℝ) (row : List ℝ) (j : Nat) :
    rowSum wi t row j = wi * ((row.zipIdx j).map (fun p => p.1 * t ^ p.2)).sum := rowSum_eq wi t row j

/-! ## source-text guards of the hand-modelled parts (a changed text opens the obligation; the hand model may be stale) -/

/-- guard: the tail of `sulfuric_acid_density` that `tableSum` mirrors -/
theorem sulfuric_tail_src_guard : sulfuricTailSrc =
    ["t_arr = np.array([float(t_K) ** j for j in range(5)]).reshape((1, 5))",
     "w_arr = np.array([w ** i for i in range(11)]).reshape((11, 1))",
     "return np.sum(t_arr * w_arr * _data) * kg / m3"] := by decide

/-- guard: `_data` is an 11 × 5 array (the ranges `range(11)`, `range(5)` of the source) -/
theorem sulfuric_data_shape_guard : (sulfuric_data (α := Rat)).map List.length = List.replicate 11 5 := by decide

theorem schumpe_body_src_guard : schumpeBodySrc =
    ["if units is None:\n    M = 1\nelse:\n    M = units.molar",
     "if warn and 'F-' in electrolytes:\n    warnings.warn('In Schumpe 1993: data for fluoride uncertain.')",
     "return sum([(p_gas_rM[gas] / M + p_ion_rM[k] / M) * v for k, v in electrolytes.items()])"] := by decide

theorem dfc_loop_src_guard : dfcLoopSrc =
    "while atol < abs(delta_rho):\n    new_rho = rho_cb(conc * molar_mass / rho, T, units=units, warn=warn, **kwargs)\n    delta_rho = new_rho - rho\n    rho = new_rho\n    iter_idx += 1\n    if iter_idx > maxiter:\n        raise NoConvergence('maxiter exceeded')" := rfl

theorem henry_call_src_guard : henryCallSrc =
    ("Henry_H_at_T(T, self.Hcp, self.Tderiv, self.T0, units=units, backend=backend)", ["self", "T", "units", "backend"]) := by decide

theorem henry_get_kH_src_guard : henryGetKHSrc = ("self(*args, **kwargs)", ["self"]) := by decide
theorem henry_getC_src_guard : henryGetCSrc = ("P * self(T, **kwargs)", ["self", "T", "P"]) := by decide

theorem henry_getP_src_guard : henryGetPSrc = ("c / self(T, **kwargs)", ["self", "T", "c"]) := by decide

theorem henry_with_units_call_src_guard : henryWithUnitsCallSrc =
    ("super(HenryWithUnits, self).__call__(T, units, backend)", ["self", "T", "units", "backend"]) := by decide

/-! ## signature guards (defaults of the Python parameters, backend, warn flag: records emitted by the translator) -/

theorem water_density_sig_guard :
    sigGet waterDensitySig "T" = some "None" ∧ sigGet waterDensitySig "T0" = some "None" ∧ sigGet waterDensitySig "units" = some "None" ∧
    sigGet waterDensitySig "a" = some "None" ∧ sigGet waterDensitySig "just_return_a" = some "False" ∧ sigGet waterDensitySig "warn" = some "True" := by
  decide
theorem water_viscosity_sig_guard :
    sigGet waterViscositySig "T" = some "None" ∧ sigGet waterViscositySig "eta20" = some "None" ∧ sigGet waterViscositySig "units" = some "None" ∧
    sigGet waterViscositySig "warn" = some "True" := by decide
theorem water_diffusivity_sig_guard :
    sigGet waterDiffusivitySig "T" = some "None" ∧ sigGet waterDiffusivitySig "units" = some "None" ∧ sigGet waterDiffusivitySig "warn" = some "True" ∧
    sigGet waterDiffusivitySig "err_mult" = some "None" := by decide
theorem water_permittivity_sig_guard :
    sigGet waterPermittivitySig "T" = some "None" ∧ sigGet waterPermittivitySig "P" = some "None" ∧ sigGet waterPermittivitySig "units" = some "None" ∧
    sigGet waterPermittivitySig "U" = some "None" ∧ sigGet waterPermittivitySig "just_return_U" = some "False" ∧
    sigGet waterPermittivitySig "warn" = some "True" ∧ sigGet waterPermittivitySig "backend" = some "None" ∧
    sigGet waterPermittivitySig "@backend" = some "get_backend(backend) ; be = get_backend(backend) ; be.exp ; be.log" := by decide
theorem sulfuric_acid_density_sig_guard :
    sigGet sulfuricTSig "T" = some "None" ∧ sigGet sulfuricTSig "T0" = some "None" ∧ sigGet sulfuricTSig "units" = some "None" ∧
    sigGet sulfuricTSig "warn" = some "True" := by decide
theorem henry_sig_guard :
    sigGet henryHAtTDefaultSig "T0" = some "None" ∧ sigGet henryHAtTDefaultSig "units" = some "None" ∧ sigGet henryHAtTDefaultSig "backend" = some "None" := by
  decide
theorem nernst_sig_guard :
    sigGet nernstPotentialSig "constants" = some "None" ∧ sigGet nernstPotentialSig "units" = some "None" ∧
    sigGet nernstPotentialSig "backend" = some "math" ∧ sigGet nernstPotentialSig "@backend" = some "backend.log" := by decide
theorem mobility_sig_guard :
    sigGet mobilitySig "constants" = some "None" ∧ sigGet mobilitySig "units" = some "None" := by decide

/-! ## non-vacuity / L2 examples (quantity algebra over ℚ, kernel-evaluated) -/

def Tdim : Units.Dims := [0, 0, 0, 0, 1, 0, 0]
def Ldim : Units.Dims := [1, 0, 0, 0, 0, 0, 0]
def Mdim : Units.Dims := [0, 1, 0, 0, 0, 0, 0]

/-- 300000 mK with `meter = cm`, `kilogram = g`: SI value = plain value × 1000 (g/cm³ → kg/m³), dimension mass·length⁻³ -/
example : (waterDensityU (UV.mk (300000 : Rat) (1/1000) Tdim) (UV.mk 1 1 Tdim) (UV.mk 1 (1/1000) Mdim) (UV.mk 1 (1/100) Ldim)).si
    = some (waterDensity (300 : Rat) * 1000, [-3, 1, 0, 0, 0, 0, 0]) := by decide +kernel

/-- a pressure where a temperature is expected is refused (ValueError), not computed -/
example : (waterDensityU (UV.mk (300 : Rat) 1 [-1, 1, -2, 0, 0, 0, 0]) (UV.mk 1 1 Tdim) (UV.mk 1 1 Mdim) (UV.mk 1 1 Ldim)).si = none := by
  decide +kernel

/-- sulfuric acid in the quantity algebra (as repaired): 300000 mK gives the plain value at 300 K, dimension mass·length⁻³ -/
example : (sulfuricAcidDensityUV (1/2 : Rat) (UV.mk 300000 (1/1000) Tdim) (UV.mk 1 1 Tdim) (UV.mk 1 1 Mdim) (UV.mk 1 1 Ldim)).si
    = some (sulfuricAcidDensity (1/2 : Rat) 300, [-3, 1, 0, 0, 0, 0, 0]) := by decide +kernel

/-- a Henry constant tabulated at 20 °C (T0 = 293.15 K), quantities in mK: unit-mode value at T0 is the tabulated constant -/
example : ((⟨1.3e-3, 1500, some 293.15⟩ : Henry ℝ).inUnit (1/1000)).callWithUnits (293.15 * (1/1000)) (1/1000) = 1.3e-3 := by
  have := (henry_object_unit_mode_agrees ⟨1.3e-3, 1500, some 293.15⟩ 293.15 1 (1/1000) (by norm_num)).2.2.2
  simpa using this

/-- the hypotheses of the inverse theorem are satisfiable: O2 in water (test_henry) -/
example : (⟨1.2e-3, 1800, none⟩ : Henry ℝ).Hcp ≠ 0 := by norm_num

end ChemModel.C19
