/-
C19 — physical-chemistry relations give unit-independent values in their valid ranges.

Objects: the functions of `Gen/FnProps.lean` are the TRANSLATION of the current source text of
`chempy/properties/*.py`, `henry.py`, `electrochemistry/nernst.py`, `einstein_smoluchowski.py`
(`waterDensity` = `units=None` branch, `waterDensityU` = `units=<object>` branch of the same text, `…Warns` = range checks);
`sulfuricAcidDensity`, `lgSolubilityRatio`, `densityFromConcentration`, `Henry` are the hand models of
`Model/PhysProps.lean` over extracted tables.

Reading of a unit-mode text in the theorems `…_unit_mode_agrees` (scale-factor semantics, "L1"): the number type is ℝ,
every unit symbol `units.X` is an arbitrary non-zero real (its scale factor relative to SI), an input of magnitude `τ`
in unit `K` is the real `τ * K`.  The statement `fU (τ * K) … = f τ * unit` for ALL scale factors says at once
(a) the magnitude of the unit-mode result in the documented unit is the plain-number result, and
(b) the result is dimensionally homogeneous with the dimension of `unit` (an expression that scales like `unit` under
    every independent rescaling of the base units has that dimension; adding terms of different dimensions or
    attaching a unit factor to the wrong coefficient breaks the identity).
What this reading does not see is the representation-level behaviour of the third-party package (`float(q)` on an
unsimplified quantity, "must be dimensionless" errors): that is the L2 quantity algebra `PhysProps.UV`, exercised
by the correspondence check and by the concrete `example`s / witnesses below.
-/
import ChemModel.Proofs.PhysProps
set_option linter.unusedSimpArgs false

namespace ChemModel.C19
open ChemModel ChemModel.Gen ChemModel.PhysProps

/-! ## 1. unit mode agrees with plain-number mode (all scale factors) -/

/-- water_density: for a temperature of `τ` kelvin-units given with ANY units object (scale factors `K`, `m`, `kg`),
    the unit-mode value is the plain value times `kg / m³`. -/
theorem water_density_unit_mode_agrees (τ K m kg : ℝ) (hK : K ≠ 0) :
    waterDensityU (τ * K) K m kg = waterDensity τ * (kg / m ^ 3) := by
  rw [waterDensityU_eq _ _ _ _ hK, mul_div_cancel_right₀ _ hK]

/-- the same for an input in ANY compatible unit: only the SI value `Tsi` of the input matters, the plain function is
    evaluated at the magnitude `Tsi / K` of that temperature in the documented unit. -/
theorem water_density_any_compatible_unit (Tsi K m kg : ℝ) (hK : K ≠ 0) :
    waterDensityU Tsi K m kg = waterDensity (Tsi / K) * (kg / m ^ 3) :=
  waterDensityU_eq Tsi K m kg hK

/-- water_viscosity (as repaired: the constants carry K): result in `units.centipoise` -/
theorem water_viscosity_unit_mode_agrees (τ cP K : ℝ) (hK : K ≠ 0) :
    waterViscosityU (τ * K) cP K = waterViscosity τ * cP :=
  waterViscosityU_eq τ cP K hK

/-- water_self_diffusion_coefficient: result in `meter² / second` -/
theorem water_diffusivity_unit_mode_agrees (τ K m s : ℝ) (hK : K ≠ 0) :
    waterDiffusivityU (τ * K) K m s = waterDiffusivity τ * (m ^ 2 / s) :=
  waterDiffusivityU_eq τ K m s hK

/-- water_permittivity: temperature in `units.kelvin`, pressure in `units.bar`, the result is a pure number -/
theorem water_permittivity_unit_mode_agrees (τ p K bar : ℝ) (hK : K ≠ 0) (hb : bar ≠ 0) :
    waterPermittivityU (τ * K) (p * bar) K bar = waterPermittivity τ p :=
  waterPermittivityU_eq τ p K bar hK hb

/-- sulfuric_acid_density (as repaired: `t_K = to_unitless(t / K)` before `float`): result in `kilogram / meter³` -/
theorem sulfuric_acid_density_unit_mode_agrees (w τ K m kg : ℝ) (hK : K ≠ 0) :
    sulfuricAcidDensityU w (τ * K) K m kg = sulfuricAcidDensity w τ * (kg / m ^ 3) :=
  sulfuricAcidDensityU_eq w τ K m kg hK

/-- inputs in ANY compatible unit (mK, degR, Pa, atm …): only the SI values `Tsi`, `Psi` of the inputs enter; the plain function
    is evaluated at their magnitudes `Tsi / K`, `Psi / bar` in the documented units.  (For viscosity, permittivity, Henry and
    sulfuric acid this is what the four `to_unitless` repairs of the source establish.) -/
theorem any_compatible_unit (Tsi Psi w cP K m kg s bar H θ : ℝ) (hK : K ≠ 0) (hb : bar ≠ 0) :
    waterViscosityU Tsi cP K = waterViscosity (Tsi / K) * cP ∧
    waterDiffusivityU Tsi K m s = waterDiffusivity (Tsi / K) * (m ^ 2 / s) ∧
    waterPermittivityU Tsi Psi K bar = waterPermittivity (Tsi / K) (Psi / bar) ∧
    sulfuricAcidDensityU w Tsi K m kg = sulfuricAcidDensity w (Tsi / K) * (kg / m ^ 3) ∧
    henryHAtTDefaultU Tsi H θ K = henryHAtTDefault (Tsi / K) H (θ / K) := by
  have hT : Tsi / K * K = Tsi := div_mul_cancel₀ Tsi hK
  have hP : Psi / bar * bar = Psi := div_mul_cancel₀ Psi hb
  have hθ : θ / K * K = θ := div_mul_cancel₀ θ hK
  refine ⟨?_, ?_, ?_, ?_, ?_⟩
  · simpa only [hT] using waterViscosityU_eq (Tsi / K) cP K hK
  · simpa only [hT] using waterDiffusivityU_eq (Tsi / K) K m s hK
  · simpa only [hT, hP] using waterPermittivityU_eq (Tsi / K) (Psi / bar) K bar hK hb
  · simpa only [hT] using sulfuricAcidDensityU_eq w (Tsi / K) K m kg hK
  · simpa only [hT, hθ] using henryHAtTDefaultU_eq (Tsi / K) H (θ / K) K hK

/-- lg_solubility_ratio: concentrations `v` (in molar) given as `v * M` with `M` the scale factor of `units.molar`;
    the result is the same pure number, the same KeyError for unknown keys -/
theorem lg_solubility_ratio_unit_mode_agrees (M : ℝ) (hM : M ≠ 0) (gas : String) (l : List (String × ℝ)) :
    lgSolubilityRatio M (l.map fun p => (p.1, p.2 * M)) gas = lgSolubilityRatio 1 l gas := by
  unfold lgSolubilityRatio
  rw [lgTerms_scale M hM]

/-- Henry_H_at_T with the default reference temperature `298.15 * units.Kelvin`: temperature and `Tderiv` in kelvin-units;
    the value keeps the unit of `H` (no unit symbol is multiplied onto it) -/
theorem henry_unit_mode_agrees (τ H θ τ0 K : ℝ) (hK : K ≠ 0) :
    henryHAtTDefaultU (τ * K) H (θ * K) K = henryHAtTDefault τ H θ ∧
    henryHAtTU (τ * K) H (θ * K) (τ0 * K) K = henryHAtT τ H θ τ0 :=
  ⟨henryHAtTDefaultU_eq τ H θ K hK, henryHAtTU_eq τ H θ τ0 K hK⟩

/-- `Henry` / `HenryWithUnits` OBJECTS (constructor parameters Hcp, Tderiv, T0 default or not): with `Tderiv`, `T0` given in the unit
    `K` and the temperature in that unit, `HenryWithUnits.__call__` (= `Henry.__call__` with the units object) returns what the plain
    object returns, so do the two helpers; at the instance's reference temperature the tabulated constant itself is returned. -/
theorem henry_object_unit_mode_agrees (h : Henry ℝ) (τ x K : ℝ) (hK : K ≠ 0) :
    (h.inUnit K).callWithUnits (τ * K) K = h.call τ ∧
    (h.inUnit K).getCU (τ * K) x K = h.getC τ x ∧ (h.inUnit K).getPU (τ * K) x K = h.getP τ x ∧
    (h.inUnit K).callWithUnits (h.T0.getD 298.15 * K) K = h.Hcp := by
  have e := fun τ => Henry.callU_inUnit h τ K hK
  refine ⟨e τ, ?_, ?_, ?_⟩
  · simp only [Henry.getCU, Henry.getC, e]
  · simp only [Henry.getPU, Henry.getP, e]
  · simp only [Henry.callWithUnits, e, Henry.at_T0]

/-- water_self_diffusion_coefficient with the documented `err_mult` option (D0, TS perturbed by multiples of their uncertainties):
    unit mode agrees for every perturbation, and no perturbation is the plain correlation -/
theorem water_diffusivity_err_mult_unit_mode_agrees (τ e0 e1 K m s : ℝ) (hK : K ≠ 0) :
    waterDiffusivityErrU (τ * K) e0 e1 K m s = waterDiffusivityErr τ e0 e1 * (m ^ 2 / s) ∧
    waterDiffusivityErr τ 0 0 = waterDiffusivity τ :=
  ⟨waterDiffusivityErrU_eq τ e0 e1 K m s hK, waterDiffusivityErr_zero τ⟩

/-- nernst_potential (as repaired: the ratio is converted with `to_unitless`): concentrations in ANY common-dimension
    unit `x` (mM, M, mol/m³ …: only the ratio of SI values enters), result in `joule / coulomb` -/
theorem nernst_unit_mode_agrees (a b z τ C mol J K x : ℝ) (hK : K ≠ 0) (hmol : mol ≠ 0) (hx : x ≠ 0) :
    nernstPotentialU (a * x) (b * x) z (τ * K) C mol J K = nernstPotential a b z τ * (J / C) :=
  nernstPotentialU_eq a b z τ C mol J K x hK hmol hx

/-- the two concentrations may even be given in two different units (145 mM outside, 0.015 M inside) -/
theorem nernst_mixed_concentration_units (a b z τ C mol J K x y : ℝ) (hK : K ≠ 0) (hmol : mol ≠ 0) (hx : x ≠ 0) (hy : y ≠ 0) :
    nernstPotentialU (a * x) (b * y) z (τ * K) C mol J K = nernstPotential (a * x) (b * y) z τ * (J / C) := by
  have := nernstPotentialU_eq (a * x) (b * y) z τ C mol J K 1 hK hmol one_ne_zero
  simpa using this

/-- electrical_mobility_from_D (as repaired: kB in J/K): diffusion coefficient in any unit `d`, result in `d * coulomb / joule`
    (= m²/(V s) for `d` = m²/s): no spurious `mol` -/
theorem mobility_unit_mode_agrees (δ z τ J K C d : ℝ) (hK : K ≠ 0) :
    mobilityU (δ * d) z (τ * K) J K C = mobility δ z τ * (d * C / J) :=
  mobilityU_eq δ z τ J K C d hK

/-! ## 2. warnings: emitted iff outside the documented range
Reference ranges (docstrings / messages of the source, papers): water density 0–40 °C (Tanaka 2001), viscosity 0–100 °C
(Korson 1969), self-diffusion 0–100 °C (Holz 2000), permittivity 0–350 °C (Bradley & Pitzer 1979), sulfuric acid
0–50 °C and 0.1 ≤ w ≤ 0.9 (Myhre 1998); 0 °C = 273.15 K. -/

theorem water_density_warn_iff_outside_range (T : ℝ) :
    waterDensityWarns T = true ↔ (T < 273.15 ∨ 313.15 < T) := waterDensityWarns_iff T

theorem water_viscosity_warn_iff_outside_range (T : ℝ) :
    waterViscosityWarns T = true ↔ (T < 273.15 ∨ 373.15 < T) := waterViscosityWarns_iff T

theorem water_diffusivity_warn_iff_outside_range (T : ℝ) :
    waterDiffusivityWarns T = true ↔ (T < 273.15 ∨ 373.15 < T) := waterDiffusivityWarns_iff T

/-- permittivity, as coded: outside 0–350 °C, or above 70 °C together with more than 2000 bar.
    (The nested `P > 5000 bar` test of the source sits in the `else` of `P > 2000 bar` and can never fire.) -/
theorem water_permittivity_warn_iff (T P : ℝ) :
    waterPermittivityWarns T P = true ↔ (T < 273.15 ∨ 623.15 < T ∨ (343.15 < T ∧ 2000 < P)) :=
  waterPermittivityWarns_iff T P

/-- the clause of the property: a warning whenever the temperature is outside its range, none when temperature and
    pressure (≤ 2000 bar) are inside -/
theorem water_permittivity_warn_temperature (T P : ℝ) :
    ((T < 273.15 ∨ 623.15 < T) → waterPermittivityWarns T P = true) ∧
    (273.15 ≤ T → T ≤ 623.15 → P ≤ 2000 → waterPermittivityWarns T P = false) := by
  constructor
  · intro h
    rw [waterPermittivityWarns_iff]
    rcases h with h | h
    · exact Or.inl h
    · exact Or.inr (Or.inl h)
  · intro h0 h1 h2
    rw [Bool.eq_false_iff, Ne, waterPermittivityWarns_iff]
    rintro (h | h | ⟨_, h⟩) <;> linarith

theorem sulfuric_acid_density_warn_iff_outside_range (w T : ℝ) :
    sulfuricTWarns w T = true ↔ (T < 273.15 ∨ 323.15 < T ∨ w < 0.1 ∨ 0.9 < w) := sulfuricWarns_iff w T

/-- the range check in unit mode is the plain one (positive scale factor of `units.Kelvin`) -/
theorem water_density_warn_unit_mode (τ K m kg : ℝ) (hK : 0 < K) :
    waterDensityUWarns (τ * K) K m kg = waterDensityWarns τ := by
  rw [Bool.eq_iff_iff, waterDensityWarns_iff]
  simp only [waterDensityUWarns, NumReal.npow_eq_pow, NumReal.dec_eq, Int.cast_ofNat, Nat.cast_ofNat, Nat.cast_one,
    Int.cast_neg, Bool.or_eq_true, decide_eq_true_eq, Nat.cast_zero]
  constructor
  · rintro (h | h)
    · left; nlinarith
    · right; nlinarith
  · rintro (h | h)
    · left; nlinarith
    · right; nlinarith

/-- lg_solubility_ratio warns iff fluoride is among the electrolytes -/
theorem lg_solubility_ratio_warn_iff (l : List (String × ℝ)) :
    lgSolubilityWarns l = true ↔ ∃ p ∈ l, p.1 = "F-" := by
  simp [lgSolubilityWarns]

/-! ## 3. anchors (values printed in the repository's tests / docstrings, within the printed tolerance) -/

/-- Tanaka's table as quoted in test_water_density (kg/m³ at 0, 4, 10, 15, 20, 22, 25, 30, 40 °C) -/
theorem water_density_anchor_values :
    |waterDensity (273.15 + 0 : ℝ) - 999.8395| < 0.004 ∧ |waterDensity (273.15 + 4 : ℝ) - 999.9720| < 0.003 ∧
    |waterDensity (273.15 + 10 : ℝ) - 999.7026| < 0.0003 ∧ |waterDensity (273.15 + 15 : ℝ) - 999.1026| < 0.0001 ∧
    |waterDensity (273.15 + 20 : ℝ) - 998.2071| < 0.0005 ∧ |waterDensity (273.15 + 22 : ℝ) - 997.7735| < 0.0007 ∧
    |waterDensity (273.15 + 25 : ℝ) - 997.0479| < 0.0009 ∧ |waterDensity (273.15 + 30 : ℝ) - 995.6502| < 0.0016 ∧
    |waterDensity (273.15 + 40 : ℝ) - 992.2| < 0.02 := by
  simp only [waterDensity_eq, abs_lt]
  norm_num

/-- docstring example: `'%.2f' % water_density(277.13)` is `999.97` -/
theorem water_density_anchor_docstring : 999.965 ≤ waterDensity (277.13 : ℝ) ∧ waterDensity (277.13 : ℝ) < 999.975 := by
  rw [waterDensity_eq]; norm_num

/-- Korson's table: exactly 1.0020 cP at 20 °C (the exponent vanishes) -/
theorem water_viscosity_anchor_20C : waterViscosity (293.15 : ℝ) = 1.002 := anchor_viscosity_20

/-- docstring `'%d' % sulfuric_acid_density(.5, 293)` = `1396`; test: `|1063.8 - rho(0.1, 298)| < 0.1` -/
theorem sulfuric_acid_density_anchor_values :
    ((1396 : Rat) ≤ sulfuricAcidDensity (1/2 : Rat) 293 ∧ sulfuricAcidDensity (1/2 : Rat) 293 < 1397) ∧
    ((10637 : Rat) / 10 < sulfuricAcidDensity (1/10 : Rat) 298 ∧ sulfuricAcidDensity (1/10 : Rat) 298 < 10639 / 10) :=
  ⟨anchor_sulfuric_doc, anchor_sulfuric_test⟩

/-- test_electrical_mobility_from_D: `mu = -2 * 1.60217657e-19 * 3 / 1.3806488e-23 / 100` within rtol 1e-5 -/
theorem mobility_anchor_value :
    |mobility (3 : ℝ) (-2) 100 - (-2 * 1.60217657e-19 * 3 / 1.3806488e-23 / 100)| ≤ 1e-5 * |(-2 * 1.60217657e-19 * 3 / 1.3806488e-23 / 100 : ℝ)| := by
  rw [mobility_eq]
  norm_num [abs_le]

/-! ## 4. qualitative shape -/

/-- water is densest at 3.983035 °C, which lies in (3.9, 4.1) °C: on the whole validity range the density is at most the
    value there, with equality only there -/
theorem water_density_maximum_near_4C :
    (273.15 + 3.9 < (277.133035 : ℝ) ∧ (277.133035 : ℝ) < 273.15 + 4.1) ∧
    ∀ T : ℝ, 273.15 ≤ T → T ≤ 313.15 →
      waterDensity T ≤ waterDensity 277.133035 ∧ (waterDensity T = waterDensity 277.133035 → T = 277.133035) :=
  ⟨by norm_num, fun T h0 h1 => waterDensity_le_max T h0 h1⟩

/-- viscosity falls strictly with temperature over 0–100 °C -/
theorem water_viscosity_strictly_decreasing {T1 T2 : ℝ} (h0 : 273.15 ≤ T1) (h12 : T1 < T2) (h2 : T2 ≤ 373.15) :
    waterViscosity T2 < waterViscosity T1 := waterViscosity_strictAnti h0 h12 h2

/-- PARTIAL: permittivity falls strictly with temperature over 0–350 °C at the reference pressure 1000 bar (where the
    logarithmic pressure term vanishes).  Full statement (not proved): the same at every fixed pressure of the range. -/
theorem water_permittivity_strictly_decreasing_partial {T1 T2 : ℝ} (h0 : 273.15 ≤ T1) (h12 : T1 < T2) (h2 : T2 ≤ 623.15) :
    waterPermittivity T2 1000 < waterPermittivity T1 1000 := waterPermittivity_1000_strictAnti h0 h12 h2

/-! ## 5. closed-form relations and their inverses -/

/-- `Henry.__call__` is the van 't Hoff form `Hcp · exp(Tderiv · (1/T − 1/T0))`, T0 = 298.15 unless given -/
theorem vant_hoff_spec (h : Henry ℝ) (T : ℝ) :
    h.call T = h.Hcp * Real.exp (h.Tderiv * (1 / T - 1 / (h.T0.getD 298.15))) := Henry.call_eq h T

/-- `d ln H / d(1/T) = Tderiv`: `ln (H(T) / Hcp)` is linear in `1/T` with slope `Tderiv`, and `H(T0) = Hcp` -/
theorem vant_hoff_slope (h : Henry ℝ) (T : ℝ) (hH : 0 < h.Hcp) :
    Real.log (h.call T / h.Hcp) = h.Tderiv * (1 / T - 1 / (h.T0.getD 298.15)) ∧ h.call (h.T0.getD 298.15) = h.Hcp :=
  ⟨Henry.vant_hoff h T hH, Henry.at_T0 h⟩

/-- pressure → concentration → pressure and concentration → pressure → concentration -/
theorem henry_inverse (h : Henry ℝ) (T x : ℝ) (hH : h.Hcp ≠ 0) :
    h.getP T (h.getC T x) = x ∧ h.getC T (h.getP T x) = x :=
  ⟨Henry.getP_getC h T x hH, Henry.getC_getP h T x hH⟩

/-- Nernst equation `E = R T / (z F) · ln(c_out / c_in)` with the constants of the source (or the given ones); exchanging the
    two sides changes the sign, equal concentrations give 0 -/
theorem nernst_spec (a b z T F R : ℝ) :
    nernstPotential a b z T = (8.3144598 * T) / (z * 96485.33289) * Real.log (a / b) ∧
    nernstPotentialC a b z T F R = (R * T) / (z * F) * Real.log (a / b) ∧
    nernstPotential b a z T = - nernstPotential a b z T ∧ (a ≠ 0 → nernstPotential a a z T = 0) :=
  ⟨nernst_eq a b z T, nernstC_eq a b z T F R, nernst_antisymm a b z T, nernst_equal_conc a z T⟩

/-- Einstein–Smoluchowski `μ = D z e / (kB T)`, i.e. `μ kB T = D z e` -/
theorem mobility_spec (D z T kB e : ℝ) :
    mobility D z T = D * z * 1.60217662e-19 / (1.38064852e-23 * T) ∧
    mobilityC D z T kB e = D * z * e / (kB * T) ∧
    (kB ≠ 0 → T ≠ 0 → mobilityC D z T kB e * (kB * T) = D * z * e) :=
  ⟨mobility_eq D z T, mobilityC_eq D z T kB e, mobility_einstein D z T kB e⟩

/-- density_from_concentration inverts "concentration from density": whenever it returns `ρ` (no NoConvergence), `ρ` is
    the density `rho_cb(w)` at the mass fraction `w = conc · M / ρ'` of an iterate `ρ'` within `atol` of `ρ`
    (an `atol`-approximate fixed point of `ρ ↦ rho_cb(conc · M / ρ)`), for every callback, tolerance and `maxiter` -/
theorem density_from_concentration_fixed_point (rhoCb : ℝ → ℝ) (conc M atol rho0 : ℝ) (maxiter : Nat) (ρ : ℝ)
    (h : densityFromConcentrationWith rhoCb conc M atol rho0 maxiter = .ok ρ) :
    ∃ ρ' : ℝ, ρ = rhoCb (conc * M / ρ') ∧ |ρ - ρ'| ≤ atol :=
  dfcIter_ok _ _ _ _ h

/-- the hand model of `sulfuric_acid_density` is the double power sum `Σ_i w^i Σ_j data[i][j] t^j` of Myhre's equation (2) -/
theorem sulfuric_acid_density_is_power_sum (wi t : ℝ) (row : List ℝ) (j : Nat) :
    rowSum wi t row j = wi * ((row.zipIdx j).map (fun p => p.1 * t ^ p.2)).sum := rowSum_eq wi t row j

/-! ## non-vacuity / L2 examples (quantity algebra over ℚ, kernel-evaluated) -/

def Tdim : Units.Dims := [0, 0, 0, 0, 1, 0, 0]
def Ldim : Units.Dims := [1, 0, 0, 0, 0, 0, 0]
def Mdim : Units.Dims := [0, 1, 0, 0, 0, 0, 0]

/-- 300000 mK with `meter = cm`, `kilogram = g`: SI value = plain value × 1000 (g/cm³ → kg/m³), dimension mass·length⁻³ -/
example : (waterDensityU (UV.mk (300000 : Rat) (1/1000) Tdim) (UV.mk 1 1 Tdim) (UV.mk 1 (1/100) Ldim) (UV.mk 1 (1/1000) Mdim)).si
    = some (waterDensity (300 : Rat) * 1000, [-3, 1, 0, 0, 0, 0, 0]) := by decide +kernel

/-- a pressure where a temperature is expected is refused (ValueError), not computed -/
example : (waterDensityU (UV.mk (300 : Rat) 1 [-1, 1, -2, 0, 0, 0, 0]) (UV.mk 1 1 Tdim) (UV.mk 1 1 Ldim) (UV.mk 1 1 Mdim)).si = none := by
  decide +kernel

/-- sulfuric acid in the quantity algebra (as repaired): 300000 mK gives the plain value at 300 K, dimension mass·length⁻³ -/
example : (sulfuricAcidDensityUV (1/2 : Rat) (UV.mk 300000 (1/1000) Tdim) (UV.mk 1 1 Tdim) (UV.mk 1 1 Ldim) (UV.mk 1 1 Mdim)).si
    = some (sulfuricAcidDensity (1/2 : Rat) 300, [-3, 1, 0, 0, 0, 0, 0]) := by decide +kernel

example : water_density_unit_mode_agrees 300 1 (1/100) (1/1000) one_ne_zero =
    water_density_unit_mode_agrees 300 1 (1/100) (1/1000) one_ne_zero := rfl

/-- a Henry constant tabulated at 20 °C (T0 = 293.15 K), quantities in mK: unit-mode value at T0 is the tabulated constant -/
example : ((⟨1.3e-3, 1500, some 293.15⟩ : Henry ℝ).inUnit (1/1000)).callWithUnits (293.15 * (1/1000)) (1/1000) = 1.3e-3 := by
  have := (henry_object_unit_mode_agrees ⟨1.3e-3, 1500, some 293.15⟩ 293.15 1 (1/1000) (by norm_num)).2.2.2
  simpa using this

/-- the hypotheses of the inverse theorem are satisfiable: O2 in water (test_henry) -/
example : (⟨1.2e-3, 1800, none⟩ : Henry ℝ).Hcp ≠ 0 := by norm_num

end ChemModel.C19
