/-
C06 — integrated kinetics reproduce exact solutions and stay physically admissible            (PARTIAL by nature)

Property text: "Integrating the ODE system produced for a reaction system returns concentrations that agree, to the
requested tolerance, with the exact solution wherever one exists: matrix-exponential solutions for arbitrary first-order
networks and the closed forms for irreversible/reversible bimolecular steps, from text input through to the result
arrays.  Concentrations never become negative beyond tolerance or exceed the supply of their constituent elements, and
the advertised safe explicit-Euler step keeps every concentration inside [0, elemental upper bound]."

What a theorem can reach is the logic chempy itself contributes (model: `Model/EulerStep.lean` + `Model/Kinetics.lean` +
`EqSolve.upperConcBounds`, tied to the source by the correspondence ops of `tools/harness/c06.py`):

  * the advertised Euler step (`max_euler_step_cb`): safe, maximal, and when it is zero      — `euler_step_*`
  * the elemental upper bound is a genuine bound on every admissible state                   — `upper_bound_valid`
  * the generated right-hand side points inwards on the faces of the non-negative orthant    — `quasi_positive`
    (the reason exact solutions stay non-negative), with the exact hypothesis chempy needs and a counterexample outside it
  * for first-order networks the right-hand side is `M·c` with `M` explicit, Metzler, annihilated by conserved rows
                                                                                             — `first_order_*`
    (`exp(M t)·c₀` is therefore THE solution the harness compares the integrator with)
  * the closed forms of `chempy.kinetics.integrated` solve the ODE system that chempy generates for `A + B → P`,
    `A + B ⇌ P` (C17's derivative theorems composed with C03's closed form of the rates)     — `binary_*_solves_system`

NOT provable (runtime behaviour of the delegated adaptive integrator pyodesys → scipy LSODA, sampled by the harness and
reported as exploration): the full-strength statement

    ∀ network, c₀, tout, (atol, rtol):  ‖integrate(tout, c₀) − exact(tout)‖ ≤ C·(atol + rtol·‖c‖)         -- `integration_accurate`
    ∀ trajectories: −tol ≤ c_i(t) ≤ ub_i·(1 + tol)                                                         -- `trajectory_admissible`

stays open; the theorems below are the parts of it that are logic, not numerics.
-/
import ChemModel.Proofs.EulerStep
import ChemModel.Props.C05
import ChemModel.Props.C17

namespace ChemModel.C06
open ChemModel.Kinetics ChemModel.EulerStep

/-! ## the advertised explicit-Euler step -/
section Step
variable {α : Type} [Field α] [LinearOrder α] [IsStrictOrderedRing α]

/-- **euler_step_safe.**  For a state inside the box (`0 ≤ y i`, and `y i ≤ ub i` wherever the bound is finite) the step
    `h` returned by `max_euler_step_cb` satisfies `0 ≤ h ≤ 1` and the explicit Euler update keeps EVERY component inside
    `[0, ub i]`.  (`y`, `ub`, `f` are indexed by substance; no length hypotheses are needed: a successful run has looked
    up every index it needed.) -/
theorem euler_step_safe (y f : List α) (ub : List (Option α)) (h : α)
    (hrun : maxEulerStep y ub f = .ok h)
    (hy : ∀ (i : ℕ) yi, y[i]? = some yi → 0 ≤ yi)
    (hub : ∀ (i : ℕ) yi u, y[i]? = some yi → ub[i]? = some (some u) → yi ≤ u) :
    0 ≤ h ∧ h ≤ 1 ∧
      ∀ (i : ℕ) yi fi, y[i]? = some yi → f[i]? = some fi →
        0 ≤ yi + h * fi ∧ ∀ u, ub[i]? = some (some u) → yi + h * fi ≤ u := by
  obtain ⟨bs, m, hb, hm, rfl⟩ := maxEulerStep_ok hrun
  obtain ⟨hlen, hs⟩ := stepBounds_spec y ub f 0 bs hb
  obtain ⟨hmem, hle⟩ := minInf_spec hm
  -- every finite stored bound is non-negative
  have hbnd : ∀ k fk v, f[k]? = some fk → stepBoundAt y ub k fk = .ok (some v) → 0 ≤ v := by
    intro k fk v _ hv
    rcases stepBoundAt_some hv with ⟨hpos, yi, u, hyi, hui, rfl⟩ | ⟨hneg, yi, hyi, rfl⟩
    · exact div_nonneg (sub_nonneg.mpr (hub k yi u hyi hui)) hpos.le
    · exact div_nonneg_of_nonpos (neg_nonpos.mpr (hy k yi hyi)) hneg.le
  have h0 : 0 ≤ capAtOne m := by
    apply capAtOne_nonneg
    intro v hv
    subst hv
    obtain ⟨k, hk⟩ := List.mem_iff_getElem?.mp hmem
    have hkl : k < f.length := by
      have := (List.getElem?_eq_some_iff.mp hk).1
      omega
    obtain ⟨b, hb1, hb2⟩ := hs k f[k] (List.getElem?_eq_getElem hkl)
    rw [hk] at hb1
    cases hb1
    exact hbnd k f[k] v (List.getElem?_eq_getElem hkl) (by simpa using hb2)
  refine ⟨h0, capAtOne_le_one m, ?_⟩
  intro i yi fi hyi hfi
  obtain ⟨b, hb1, hb2⟩ := hs i fi hfi
  simp only [Nat.zero_add] at hb2
  have hbm : b ∈ bs := List.mem_of_getElem? hb1
  have hyi0 := hy i yi hyi
  rcases stepBoundAt_ok hb2 with ⟨hf0, _⟩ | ⟨hpos, yi', hyi', hcase⟩ | ⟨hneg, yi', hyi', hbv⟩
  · subst hf0
    simp only [mul_zero, add_zero]
    exact ⟨hyi0, fun u hu => hub i yi u hyi hu⟩
  · rw [hyi] at hyi'
    cases hyi'
    refine ⟨add_nonneg hyi0 (mul_nonneg h0 hpos.le), ?_⟩
    intro u hu
    rcases hcase with ⟨hinf, _⟩ | ⟨u', hu', hbv⟩
    · rw [hu] at hinf; cases hinf
    · rw [hu] at hu'
      cases hu'
      subst hbv
      have hle' := capAtOne_le_of_optLe (hle _ hbm)
      have := mul_le_mul_of_nonneg_right hle' hpos.le
      rw [div_mul_cancel₀ _ hpos.ne'] at this
      linarith
  · rw [hyi] at hyi'
    cases hyi'
    subst hbv
    have hle' := capAtOne_le_of_optLe (hle _ hbm)
    have h1 := mul_le_mul_of_nonpos_right hle' hneg.le
    rw [div_mul_cancel₀ _ hneg.ne] at h1
    refine ⟨by linarith, ?_⟩
    intro u hu
    have h2 : capAtOne m * fi ≤ 0 := mul_nonpos_of_nonneg_of_nonpos h0 hneg.le
    have := hub i yi u hyi hu
    linarith

/-- **the step is the largest admissible one.**  When the returned step is below the cap `1`, some component lands EXACTLY
    on the bound it moves towards (`0` for a decreasing, `ub i` for an increasing component) … -/
theorem euler_step_tight (y f : List α) (ub : List (Option α)) (h : α)
    (hrun : maxEulerStep y ub f = .ok h) (hlt : h < 1) :
    ∃ (i : ℕ) (yi fi : α), y[i]? = some yi ∧ f[i]? = some fi ∧
      ((fi < 0 ∧ yi + h * fi = 0) ∨ (0 < fi ∧ ∃ u, ub[i]? = some (some u) ∧ yi + h * fi = u)) := by
  obtain ⟨bs, m, hb, hm, rfl⟩ := maxEulerStep_ok hrun
  obtain ⟨hlen, hs⟩ := stepBounds_spec y ub f 0 bs hb
  obtain ⟨hmem, _⟩ := minInf_spec hm
  have hm' := capAtOne_lt_one hlt
  obtain ⟨k, hk⟩ := List.mem_iff_getElem?.mp hmem
  have hkl : k < f.length := by
    have := (List.getElem?_eq_some_iff.mp hk).1
    omega
  obtain ⟨b, hb1, hb2⟩ := hs k f[k] (List.getElem?_eq_getElem hkl)
  rw [hk] at hb1
  cases hb1
  simp only [Nat.zero_add] at hb2
  rw [hm'] at hb2
  rcases stepBoundAt_some hb2 with ⟨hpos, yi, u, hyi, hui, hv⟩ | ⟨hneg, yi, hyi, hv⟩
  · refine ⟨k, yi, f[k], hyi, List.getElem?_eq_getElem hkl, Or.inr ⟨hpos, u, hui, ?_⟩⟩
    rw [hv, div_mul_cancel₀ _ hpos.ne']
    ring
  · refine ⟨k, yi, f[k], hyi, List.getElem?_eq_getElem hkl, Or.inl ⟨hneg, ?_⟩⟩
    rw [hv, div_mul_cancel₀ _ hneg.ne]
    ring

/-- … hence every longer step leaves the box: `h` is the LARGEST step `≤ 1` keeping `y + h·f` inside `[0, ub]`. -/
theorem euler_step_maximal (y f : List α) (ub : List (Option α)) (h h' : α)
    (hrun : maxEulerStep y ub f = .ok h) (hlt : h < 1) (hh' : h < h') :
    ∃ (i : ℕ) (yi fi : α), y[i]? = some yi ∧ f[i]? = some fi ∧
      (yi + h' * fi < 0 ∨ ∃ u, ub[i]? = some (some u) ∧ u < yi + h' * fi) := by
  obtain ⟨i, yi, fi, hyi, hfi, hcase⟩ := euler_step_tight y f ub h hrun hlt
  refine ⟨i, yi, fi, hyi, hfi, ?_⟩
  rcases hcase with ⟨hneg, h0⟩ | ⟨hpos, u, hu, hue⟩
  · left
    have := mul_lt_mul_of_neg_right hh' hneg
    linarith
  · right
    refine ⟨u, hu, ?_⟩
    have := mul_lt_mul_of_pos_right hh' hpos
    linarith

/-- **when the step is positive.**  The returned step is strictly positive exactly when no component sits on the bound it
    moves towards (zero derivatives never restrict the step; a component on `0` with negative derivative, or on `ub i` with
    positive derivative, forces `h = 0`). -/
theorem euler_step_pos (y f : List α) (ub : List (Option α)) (h : α)
    (hrun : maxEulerStep y ub f = .ok h)
    (hin : ∀ (i : ℕ) yi fi, y[i]? = some yi → f[i]? = some fi →
      (fi < 0 → 0 < yi) ∧ (0 < fi → ∀ u, ub[i]? = some (some u) → yi < u)) :
    0 < h := by
  obtain ⟨bs, m, hb, hm, rfl⟩ := maxEulerStep_ok hrun
  obtain ⟨hlen, hs⟩ := stepBounds_spec y ub f 0 bs hb
  obtain ⟨hmem, _⟩ := minInf_spec hm
  cases m with
  | none => simp [capAtOne]
  | some v =>
    have hv : 0 < v := by
      obtain ⟨k, hk⟩ := List.mem_iff_getElem?.mp hmem
      have hkl : k < f.length := by
        have := (List.getElem?_eq_some_iff.mp hk).1
        omega
      obtain ⟨b, hb1, hb2⟩ := hs k f[k] (List.getElem?_eq_getElem hkl)
      rw [hk] at hb1
      cases hb1
      simp only [Nat.zero_add] at hb2
      rcases stepBoundAt_some hb2 with ⟨hpos, yi, u, hyi, hui, rfl⟩ | ⟨hneg, yi, hyi, rfl⟩
      · exact div_pos (sub_pos.mpr ((hin k yi f[k] hyi (List.getElem?_eq_getElem hkl)).2 hpos u hui)) hpos
      · exact div_pos_of_neg_of_neg (neg_neg_of_pos ((hin k yi f[k] hyi (List.getElem?_eq_getElem hkl)).1 hneg)) hneg
    simp only [capAtOne, Nat.cast_one]
    split
    · exact zero_lt_one
    · exact hv

/-- **the upper-bound side of the loop is redundant for conserved dynamics.**  Suppose every step that keeps the state
    non-negative also keeps it below the bounds (`hinv` — exactly what `upper_bound_valid` gives for a balanced system,
    because the Euler update `y + t·f` carries the element totals of `y`: `B·f = 0`, C05 `invariants_exact`).  Then the
    branch `fcomp > 0 → (upper_bounds[idx] − y[idx]) / fcomp` never decides the result: the callback returns the same step
    as the loop that only watches the lower bounds (`ub0` = all `inf`).  (Consequence for testing: deleting that branch is
    not observable on admissible states; the harness therefore also compares model and code on states with a negative
    entry, where the branch does decide.) -/
theorem euler_step_upper_side_redundant (y f : List α) (ub ub0 : List (Option α)) (h h0 : α)
    (hrun : maxEulerStep y ub f = .ok h) (hrun0 : maxEulerStep y ub0 f = .ok h0)
    (hub0 : ∀ (i : ℕ) b, ub0[i]? = some b → b = none)
    (hy : ∀ (i : ℕ) yi, y[i]? = some yi → 0 ≤ yi)
    (hinv : ∀ t, 0 ≤ t → (∀ (i : ℕ) yi fi, y[i]? = some yi → f[i]? = some fi → 0 ≤ yi + t * fi) →
      ∀ (i : ℕ) yi fi u, y[i]? = some yi → f[i]? = some fi → ub[i]? = some (some u) → yi + t * fi ≤ u) :
    h = h0 := by
  have hsafe0 := euler_step_safe y f ub0 h0 hrun0 hy
    (fun i yi u _ hu => by have := hub0 i _ hu; cases this)
  obtain ⟨h0nn, h0le, hbox0⟩ := hsafe0
  have hU := hinv h0 h0nn (fun i yi fi hyi hfi => (hbox0 i yi fi hyi hfi).1)
  obtain ⟨bs, m, hb, hm, rfl⟩ := maxEulerStep_ok hrun
  obtain ⟨bs0, m0, hb0, hm0, rfl⟩ := maxEulerStep_ok hrun0
  obtain ⟨hlen, hs⟩ := stepBounds_spec y ub f 0 bs hb
  obtain ⟨hlen0, hs0⟩ := stepBounds_spec y ub0 f 0 bs0 hb0
  obtain ⟨hmem, hle⟩ := minInf_spec hm
  obtain ⟨hmem0, hle0⟩ := minInf_spec hm0
  apply le_antisymm
  · -- the full loop is below the lower-side-only loop
    apply le_capAtOne (capAtOne_le_one m)
    intro v hv
    subst hv
    obtain ⟨k, hk⟩ := List.mem_iff_getElem?.mp hmem0
    have hkl : k < f.length := by
      have := (List.getElem?_eq_some_iff.mp hk).1
      omega
    have hfk := List.getElem?_eq_getElem hkl
    obtain ⟨b, hb1, hb2⟩ := hs0 k f[k] hfk
    rw [hk] at hb1
    cases hb1
    simp only [Nat.zero_add] at hb2
    rcases stepBoundAt_some hb2 with ⟨_, yi, u, _, hui, _⟩ | ⟨hneg, yi, hyi, rfl⟩
    · have := hub0 k _ hui
      cases this
    · obtain ⟨b', hb1', hb2'⟩ := hs k f[k] hfk
      simp only [Nat.zero_add] at hb2'
      rcases stepBoundAt_ok hb2' with ⟨hf0, _⟩ | ⟨hpos, _⟩ | ⟨_, yi', hyi', hbv⟩
      · rw [hf0] at hneg; exact absurd hneg (lt_irrefl _)
      · exact absurd hneg (not_lt.mpr hpos.le)
      · rw [hyi] at hyi'
        cases hyi'
        subst hbv
        exact capAtOne_le_of_optLe (hle _ (List.mem_of_getElem? hb1'))
  · apply le_capAtOne h0le
    intro v hv
    subst hv
    obtain ⟨k, hk⟩ := List.mem_iff_getElem?.mp hmem
    have hkl : k < f.length := by
      have := (List.getElem?_eq_some_iff.mp hk).1
      omega
    have hfk := List.getElem?_eq_getElem hkl
    obtain ⟨b, hb1, hb2⟩ := hs k f[k] hfk
    rw [hk] at hb1
    cases hb1
    simp only [Nat.zero_add] at hb2
    rcases stepBoundAt_some hb2 with ⟨hpos, yi, u, hyi, hui, rfl⟩ | ⟨hneg, yi, hyi, rfl⟩
    · have := hU k yi f[k] u hyi hfk hui
      rw [le_div_iff₀ hpos]
      linarith
    · obtain ⟨b', hb1', hb2'⟩ := hs0 k f[k] hfk
      simp only [Nat.zero_add] at hb2'
      rcases stepBoundAt_ok hb2' with ⟨hf0, _⟩ | ⟨hpos, _⟩ | ⟨_, yi', hyi', hbv⟩
      · rw [hf0] at hneg; exact absurd hneg (lt_irrefl _)
      · exact absurd hneg (not_lt.mpr hpos.le)
      · rw [hyi] at hyi'
        cases hyi'
        subst hbv
        exact capAtOne_le_of_optLe (hle0 _ (List.mem_of_getElem? hb1'))

/-- a component ON the bound it moves towards makes the advertised step zero (here: `y₁ = 0`, `f₁ < 0`) -/
theorem euler_step_zero_on_bound_witness :
    maxEulerStep [(1 : ℚ), 0] [some 1, some 2] [1 / 2, -1] = .ok 0 := by decide +kernel

/-- **upper_bound_valid** (C08's theorem about the shared model of `upper_conc_bounds`, cited): with non-negative
    composition coefficients (charge excluded) and strictly positive ones for substance `i`, no non-negative state `y`
    carrying the element totals of `init` has more of substance `i` than the bound.  With C05's `invariants_exact` (element
    totals are constants of motion of the generated right-hand side) this is "concentrations never exceed the supply of
    their constituent elements" for exact solutions. -/
theorem upper_bound_valid (comps : List (EqSolve.Comp α)) (init y : List α) (ub : List (Option α))
    (hub : EqSolve.upperConcBounds comps init = .ok ub) (hylen : y.length = comps.length)
    (hy : ∀ v ∈ y, 0 ≤ v) (hc : ∀ comp ∈ comps, ∀ p ∈ comp, p.1 ≠ 0 → 0 ≤ p.2)
    (htot : ∀ k, k ≠ 0 → EqSolve.compositionConc comps y k = EqSolve.compositionConc comps init k)
    (i : Nat) (hi : i < comps.length) (b : α) (hb : ub[i]? = some (some b))
    (hpos : ∀ p ∈ comps[i], p.1 ≠ 0 → 0 < p.2) :
    y[i]'(hylen ▸ hi) ≤ b :=
  EqSolve.upperConcBounds_valid comps init y ub hub hylen hy hc htot i hi b hb hpos

/-- **the callback as a whole.**  `extra['max_euler_step_cb'](x, y)` computes the bounds from the CURRENT state and the
    derivative from the generated right-hand side.  For every system whose composition coefficients (charge excluded) are
    positive and every non-negative state `y`: whenever it returns `h`, then `0 ≤ h ≤ 1` and `y + h·f(y)` lies in
    `[0, upper_conc_bounds(y)]` componentwise — no hypothesis `y ≤ ub` is needed, it is a consequence. -/
theorem euler_step_cb_safe {σ : Type} [DecidableEq σ] (keys : List σ) (comps : List (EqSolve.Comp α))
    (rs : List (Reaction σ α)) (y : List α) (h : α)
    (hrun : maxEulerStepCb keys comps rs y = .ok h)
    (hy : ∀ v ∈ y, 0 ≤ v) (hc : ∀ comp ∈ comps, ∀ p ∈ comp, p.1 ≠ 0 → 0 < p.2) :
    ∃ ub f, EqSolve.upperConcBounds comps y = .ok ub ∧ fvec keys rs y = .ok f ∧ 0 ≤ h ∧ h ≤ 1 ∧
      ∀ (i : ℕ) yi fi, y[i]? = some yi → f[i]? = some fi →
        0 ≤ yi + h * fi ∧ ∀ u, ub[i]? = some (some u) → yi + h * fi ≤ u := by
  unfold maxEulerStepCb at hrun
  cases hub : EqSolve.upperConcBounds comps y with
  | error e => rw [hub] at hrun; simp at hrun
  | ok ub =>
    rw [hub] at hrun
    simp only at hrun
    cases hf : fvec keys rs y with
    | error e => rw [hf] at hrun; simp at hrun
    | ok f =>
      rw [hf] at hrun
      simp only at hrun
      have hylen : y.length = comps.length := by
        unfold EqSolve.upperConcBounds at hub
        split_ifs at hub with hl
        exact not_not.mp hl
      have hsafe := euler_step_safe y f ub h hrun
        (fun i yi hyi => hy yi (List.mem_of_getElem? hyi))
        (by
          intro i yi u hyi hu
          have hil : i < y.length := (List.getElem?_eq_some_iff.mp hyi).1
          have hic : i < comps.length := hylen ▸ hil
          have := upper_bound_valid comps y y ub hub hylen hy
            (fun comp hcomp p hp hk => (hc comp hcomp p hp hk).le) (fun _ _ => rfl) i hic u hu
            (fun p hp hk => hc _ (List.getElem_mem _) p hp hk)
          have hyi' : y[i] = yi := (List.getElem?_eq_some_iff.mp hyi).2
          rw [← hyi']
          exact this)
      exact ⟨ub, f, rfl, rfl, hsafe⟩

end Step

/-! ## the generated right-hand side: quasi-positivity -/
section Rhs
variable {σ : Type} [DecidableEq σ] {R : Type} [CommRing R] [LinearOrder R] [IsStrictOrderedRing R]

/-- **quasi_positive.**  For EVERY mass-action system with non-negative rate constants, every non-negative concentration
    function `c` and every substance `s` that is absent (`c s = 0`): `rates(c)[s] ≥ 0` — the vector field never points out
    of the non-negative orthant, which is why exact solutions stay non-negative.
    The hypothesis the code needs (`hact`): every reaction that consumes `s` net has `s` among its ACTIVE reactants with
    a positive order.  It fails only for a net consumption through `inact_reac` (zeroth order in `s`), see the witness. -/
theorem quasi_positive (c : σ → R) (rs : List (Reaction σ R)) (keys? : Option (List σ)) (s : σ)
    (hk : ∀ r ∈ rs, 0 ≤ r.param) (hc : ∀ x, 0 ≤ c x) (hs : c s = 0)
    (hact : ∀ r ∈ rs, netStoich r s < 0 → 0 < coef r.reac s) :
    0 ≤ valueAt (sysRates c rs keys? none) s := by
  simp only [sysRates]
  rw [valueAt_sysRatesNoFeed]
  apply List.sum_nonneg
  intro x hx
  obtain ⟨r, hr, rfl⟩ := List.mem_map.mp hx
  rw [valueAt_rxnRate]
  split_ifs
  · exact contribution_nonneg c r s (hk r hr) hc hs (hact r hr)
  · exact le_refl _

/-- the hypothesis of `quasi_positive` is automatic when nothing is consumed through the inactive dictionaries -/
theorem quasi_positive_of_no_inactive_reactants (c : σ → R) (rs : List (Reaction σ R)) (keys? : Option (List σ)) (s : σ)
    (hk : ∀ r ∈ rs, 0 ≤ r.param) (hc : ∀ x, 0 ≤ c x) (hs : c s = 0)
    (hin : ∀ r ∈ rs, coef r.inactReac s = 0) :
    0 ≤ valueAt (sysRates c rs keys? none) s := by
  apply quasi_positive c rs keys? s hk hc hs
  intro r hr hn
  have := hin r hr
  unfold netStoich at hn
  omega

/-- **outside the hypothesis the claim is false**: `A + (C) → B` (written `"A + (C) -> B; 1/2"`, `C` an inactive reactant)
    consumes `C` at the rate `k·[A]` also when no `C` is left; at `c = (A: 1, B: 0, C: 0)` the generated right-hand side
    for `C` is `−1/2 < 0`, and the integrated concentration of `C` becomes negative (harness corpus case `inactive-reactant`). -/
theorem quasi_positive_inactive_reactant_witness :
    valueAt (sysRates (fun s => if s = "A" then (1 : ℚ) else 0)
      [{ reac := [("A", 1)], prod := [("B", 1)], inactReac := [("C", 1)], param := 1 / 2 }] none none) "C" = -1 / 2 := by
  decide +kernel

end Rhs

/-! ## first-order networks are linear -/
section Linear
variable {σ : Type} [DecidableEq σ] {R : Type} [CommRing R]

/-- **first_order_is_linear.**  If every reaction has exactly one active reactant, of order one (`reac == {j: 1}`; products
    and inactive parts arbitrary), the generated right-hand side is LINEAR: `rates(c)[s] = Σ_j M[s][j]·c[j]` for every `c`
    in any commutative ring, with the explicit matrix `M[s][j] = Σ_{r : reactant r = j} net r s · k_r`
    (`firstOrderMatrix keys rs = [[M[s][j] for j in keys] for s in keys]`). -/
theorem first_order_is_linear (keys : List σ) (hnd : keys.Nodup) (rs : List (Reaction σ R))
    (hfo : ∀ r ∈ rs, ∃ j, j ∈ keys ∧ r.reac = [(j, 1)])
    (c : σ → R) (keys? : Option (List σ)) (s : σ) (hs : ∀ ks, keys? = some ks → s ∈ ks) :
    valueAt (sysRates c rs keys? none) s = (keys.map fun j => firstOrderEntry rs s j * c j).sum ∧
      (∀ j, firstOrderEntry rs s j =
        (rs.map fun r => if r.reac = [(j, 1)] then ((netStoich r s : ℤ) : R) * r.param else 0).sum) ∧
      firstOrderMatrix keys rs = keys.map fun s => keys.map fun j => firstOrderEntry rs s j := by
  refine ⟨?_, ?_, rfl⟩
  · simp only [sysRates]
    rw [valueAt_sysRatesNoFeed_contribution c rs keys? s hs, sum_contribution_eq_matVec keys hnd c s rs hfo,
      matVecEntry_eq_sum]
  · intro j
    rw [firstOrderEntry_eq_sum]
    congr 1
    apply List.map_congr_left
    intro r _
    by_cases h : r.reac = [(j, 1)]
    · rw [if_pos h, if_pos (firstOrderReactant_of_reac h)]
    · rw [if_neg h, if_neg (fun h' => h (firstOrderReactant_eq_some h'))]

/-- **off-diagonal entries are non-negative** (`M` is a Metzler matrix — `exp(M t)` maps the non-negative orthant into
    itself) for non-negative rate constants, under the same hypothesis as `quasi_positive`. -/
theorem first_order_offdiag_nonneg [LinearOrder R] [IsStrictOrderedRing R] (rs : List (Reaction σ R)) (s j : σ) (hsj : s ≠ j)
    (hk : ∀ r ∈ rs, 0 ≤ r.param) (hact : ∀ r ∈ rs, netStoich r s < 0 → 0 < coef r.reac s) :
    0 ≤ firstOrderEntry rs s j := by
  rw [firstOrderEntry_eq_sum]
  apply List.sum_nonneg
  intro x hx
  obtain ⟨r, hr, rfl⟩ := List.mem_map.mp hx
  split_ifs with h
  · have hreac := firstOrderReactant_eq_some h
    have hn : ¬ netStoich r s < 0 := by
      intro hn
      have := hact r hr hn
      rw [hreac] at this
      simp [coef, dgetD, dget?, Ne.symm hsj] at this
    have h1 : (0 : R) ≤ ((netStoich r s : ℤ) : R) := by exact_mod_cast not_lt.mp hn
    exact mul_nonneg h1 (hk r hr)
  · exact le_refl _

/-- **conserved rows annihilate `M`** (with C05): for an accepted (balanced) system every composition row `B_key` — each
    element and the charge — satisfies `Σ_s B_key[s]·M[s][j] = 0` for every column `j`; hence `B·exp(M t)·c₀ = B·c₀`. -/
theorem first_order_conserved_rows_annihilate {A : Type} [CommRing A] [DecidableEq A] (φ : A →+* R)
    (subs : Substances σ A) (rs : List (Reaction σ R))
    (hall : ∀ sc ∈ subs, ∃ comp, sc.2 = some comp) (hne : subs ≠ [])
    (hacc : checkBalance subs rs false = .ok) (key : ℤ) (j : σ) :
    (subs.map fun sc => φ (compAt sc key) * firstOrderEntry rs sc.1 j).sum = 0 := by
  have hbal := (C05.accept_iff_balanced subs rs false hall (Or.inl hne)).mp hacc
  have hsum : ∀ (l : List (Reaction σ R)), (∀ r ∈ l, r ∈ rs) →
      (subs.map fun sc => φ (compAt sc key) * firstOrderEntry l sc.1 j).sum = 0 := by
    intro l
    induction l with
    | nil => intro _; simp [firstOrderEntry_eq_sum]
    | cons r t ih =>
      intro hl
      have iht := ih (fun r' hr' => hl r' (List.mem_cons_of_mem _ hr'))
      simp only [firstOrderEntry_eq_sum, List.map_cons, List.sum_cons, mul_add, List.sum_map_add] at iht ⊢
      rw [iht, add_zero]
      by_cases h : firstOrderReactant r = some j
      · simp only [if_pos h]
        have hz : (subs.map fun sc => compAt sc key * ((netStoich r sc.1 : ℤ) : A)).sum = 0 :=
          hbal r (hl r List.mem_cons_self) key
        have : (subs.map fun sc => φ (compAt sc key) * (((netStoich r sc.1 : ℤ) : R) * r.param)) =
            subs.map fun sc => r.param * φ (compAt sc key * ((netStoich r sc.1 : ℤ) : A)) := by
          apply List.map_congr_left
          intro sc _
          simp only [map_mul, map_intCast]
          ring
        have h2 : (subs.map fun sc => φ (compAt sc key * ((netStoich r sc.1 : ℤ) : A))).sum =
            φ ((subs.map fun sc => compAt sc key * ((netStoich r sc.1 : ℤ) : A)).sum) := by
          rw [map_list_sum, List.map_map]
          rfl
        rw [this, List.sum_map_mul_left, h2, hz]
        simp
      · simp [if_neg h]
  exact hsum rs (fun r hr => hr)

end Linear

/-! ## the closed forms solve the generated system (single bimolecular step) -/
section Bimolecular
open ChemModel.Gen
variable {σ : Type} [DecidableEq σ]

/-- **`binary_irrev` solves the system chempy generates for `A + B → P`.**  For three distinct substances, `0 < kf`,
    `0 < minor < major` and every `t ≥ 0`: with `y(t) = binary_irrev(t, kf, prod, major, minor)` the concentrations
    `[A] = major − (y − prod)`, `[B] = minor − (y − prod)`, `[P] = y` have, for EVERY substance `s`, the time derivative
    `rates([A],[B],[P])[s]` of the generated right-hand side (C17's `binary_irrev_ode` composed with C03's rate closed form),
    and they start at `(major, minor, prod)`. -/
theorem binary_irrev_solves_system (a b p : σ) (hab : a ≠ b) (hap : a ≠ p) (hbp : b ≠ p)
    (kf prod major minor t : ℝ) (hkf : 0 < kf) (hminor : 0 < minor) (hlt : minor < major) (ht : 0 ≤ t) (s : σ) :
    HasDerivAt (fun τ => binaryState a b p major minor prod (binaryIrrev τ kf prod major minor) s)
      (valueAt (sysRates (binaryState a b p major minor prod (binaryIrrev t kf prod major minor))
        (binaryIrrevSys a b p kf) none none) s) t ∧
    binaryState a b p major minor prod (binaryIrrev 0 kf prod major minor) a = major ∧
    binaryState a b p major minor prod (binaryIrrev 0 kf prod major minor) b = minor ∧
    binaryState a b p major minor prod (binaryIrrev 0 kf prod major minor) p = prod := by
  have hode := C17.binary_irrev_ode t kf prod major minor hkf hminor hlt ht
  have h0 := C17.binary_irrev_init kf prod major minor hminor.ne' (ne_of_gt hlt)
  refine ⟨?_, ?_, ?_, ?_⟩
  · refine (binaryState_hasDerivAt a b p hab hap hbp major minor prod _ _ t hode s).congr_deriv ?_
    rw [rhs_binaryIrrevSys a b p hab hap hbp]
    have ha : binaryState a b p major minor prod (binaryIrrev t kf prod major minor) a
        = major - (binaryIrrev t kf prod major minor - prod) := by simp [binaryState]
    have hb : binaryState a b p major minor prod (binaryIrrev t kf prod major minor) b
        = minor - (binaryIrrev t kf prod major minor - prod) := by simp [binaryState, hab.symm]
    rw [ha, hb]
    split_ifs <;> ring
  · simp [binaryState, h0]
  · simp [binaryState, h0, hab.symm]
  · simp [binaryState, h0, hap.symm, hbp.symm]

/-- **`binary_rev` solves the system chempy generates for `A + B ⇌ P`** (`A + B → P ; kf`, `P → A + B ; kb`), positive
    rate constants, non-negative initial concentrations, every `t ≥ 0`, every substance `s`. -/
theorem binary_rev_solves_system (a b p : σ) (hab : a ≠ b) (hap : a ≠ p) (hbp : b ≠ p)
    (kf kb prod major minor t : ℝ) (hkf : 0 < kf) (hkb : 0 < kb) (hprod : 0 ≤ prod) (hmajor : 0 ≤ major)
    (hminor : 0 ≤ minor) (ht : 0 ≤ t) (s : σ) :
    HasDerivAt (fun τ => binaryState a b p major minor prod (binaryRev τ kf kb prod major minor) s)
      (valueAt (sysRates (binaryState a b p major minor prod (binaryRev t kf kb prod major minor))
        (binaryRevSys a b p kf kb) none none) s) t ∧
    binaryState a b p major minor prod (binaryRev 0 kf kb prod major minor) a = major ∧
    binaryState a b p major minor prod (binaryRev 0 kf kb prod major minor) b = minor ∧
    binaryState a b p major minor prod (binaryRev 0 kf kb prod major minor) p = prod := by
  have hode := C17.binary_rev_ode t kf kb prod major minor hkf hkb hprod hmajor hminor ht
  have h0 := C17.binary_rev_init kf kb prod major minor hkf hkb hprod hmajor hminor
  refine ⟨?_, ?_, ?_, ?_⟩
  · refine (binaryState_hasDerivAt a b p hab hap hbp major minor prod _ _ t hode s).congr_deriv ?_
    rw [rhs_binaryRevSys a b p hab hap hbp]
    have ha : binaryState a b p major minor prod (binaryRev t kf kb prod major minor) a
        = major - (binaryRev t kf kb prod major minor - prod) := by simp [binaryState]
    have hb : binaryState a b p major minor prod (binaryRev t kf kb prod major minor) b
        = minor - (binaryRev t kf kb prod major minor - prod) := by simp [binaryState, hab.symm]
    have hp : binaryState a b p major minor prod (binaryRev t kf kb prod major minor) p
        = binaryRev t kf kb prod major minor := by simp [binaryState, hap.symm, hbp.symm]
    rw [ha, hb, hp]
    split_ifs <;> ring
  · simp [binaryState, h0]
  · simp [binaryState, h0, hab.symm]
  · simp [binaryState, h0, hap.symm, hbp.symm]

end Bimolecular

/-! ## the hypotheses are satisfiable: `X2 → 2 X1`, `X3 → X1 + X2`, `X3 ⇌ X3b` (one element, sizes 1, 2, 3, 3) -/

def exKeys : List String := ["X1", "X2", "X3", "X3b"]
def exComps : List (EqSolve.Comp ℚ) := [[(1, 1)], [(1, 2)], [(1, 3)], [(1, 3)]]
def exRxns : List (Reaction String ℚ) :=
  [{ reac := [("X2", 1)], prod := [("X1", 2)], param := 1 / 2 },
   { reac := [("X3", 1)], prod := [("X1", 1), ("X2", 1)], param := 2000 },
   { reac := [("X3", 1)], prod := [("X3b", 1)], param := 1 },
   { reac := [("X3b", 1)], prod := [("X3", 1)], param := 1 / 4 }]

example : callbackAvailable exKeys exComps exRxns = true := by decide +kernel
example : EqSolve.upperConcBounds exComps [1 / 2, 1, 2, 0] = .ok [some (17 / 2), some (17 / 4), some (17 / 6), some (17 / 6)] := by
  decide +kernel
example : fvec exKeys exRxns [1 / 2, 1, 2, 0] = .ok [4001, 7999 / 2, -4002, 2] := by decide +kernel
/-- the stiff reaction limits the step: `h = 2 / 4002` -/
example : maxEulerStepCb exKeys exComps exRxns [1 / 2, 1, 2, 0] = .ok (1 / 2001) := by decide +kernel
/-- slow dynamics: the cap `1` is returned -/
example : maxEulerStepCb exKeys exComps exRxns [1 / 2, 1, 0, 0] = .ok 1 := by decide +kernel
example : firstOrderMatrix exKeys exRxns =
    [[0, 1, 2000, 0], [0, -1 / 2, 2000, 0], [0, 0, -2001, 1 / 4], [0, 0, 1, -1 / 4]] := by decide +kernel
/-- an unbalanced system gets no callback (`extra['max_euler_step_cb'] is None`) -/
example : callbackAvailable ["X1", "X2"] [[(1, 1)], [(1, 2)]]
    [({ reac := [("X2", 1)], prod := [("X1", 1)], param := 1 } : Reaction String ℚ)] = false := by decide +kernel

end ChemModel.C06
