/-
C06 — integrated kinetics reproduce exact solutions and stay physically admissible            (PARTIAL by nature)

Property text: "Integrating the ODE system produced for a reaction system returns concentrations that agree, to the
requested tolerance, with the exact solution wherever one exists: matrix-exponential solutions for arbitrary first-order
networks and the closed forms for irreversible/reversible bimolecular steps, from text input through to the result
arrays.  Concentrations never become negative beyond tolerance or exceed the supply of their constituent elements, and
the advertised safe explicit-Euler step keeps every concentration inside [0, elemental upper bound]."

What a theorem can reach is the logic chempy itself contributes (model: `Model/EulerStep.lean` + `Model/Kinetics.lean` +
`EqSolve.upperConcBounds`, tied to the source by the correspondence ops of `tools/harness/c06.py`):

  * the advertised Euler step (`max_euler_step_cb`): safe, maximal, and when it is zero      — `euler_step_*`
  * the elemental upper bound is a genuine bound on every admissible state                   — `upper_bound_valid`
  * the generated right-hand side points inwards on the faces of the non-negative orthant    — `quasi_positive`
    (the reason exact solutions stay non-negative), with the exact hypothesis chempy needs and a counterexample outside it
  * for first-order networks the right-hand side is `M·c` with `M` explicit, Metzler, annihilated by conserved rows
                                                                                             — `first_order_*`
    (`exp(M t)·c₀` is therefore THE solution the harness compares the integrator with)
  * the closed forms of `chempy.kinetics.integrated` solve the ODE system that chempy generates for `A + B → P`,
    `A + B ⇌ P` (C17's derivative theorems composed with C03's closed form of the rates)     — `binary_*_solves_system`

NOT provable (runtime behaviour of the delegated adaptive integrator pyodesys → scipy LSODA, sampled by the harness and
reported as exploration): the full-strength statement

    ∀ network, c₀, tout, (atol, rtol):  ‖integrate(tout, c₀) − exact(tout)‖ ≤ C·(atol + rtol·‖c‖)         -- `integration_accurate`
    ∀ trajectories: −tol ≤ c_i(t) ≤ ub_i·(1 + tol)                                                         -- `trajectory_admissible`

stays open; the theorems below are the parts of it that are logic, not numerics.
-/
import ChemModel.Proofs.EulerStep
import ChemModel.Props.C05
import ChemModel.Props.C17

namespace ChemModel.C06
open ChemModel.Kinetics ChemModel.EulerStep

/-! ## the advertised explicit-Euler step -/
section Step
variable {α : Type} [Field α] [LinearOrder α] [IsStrictOrderedRing α]

/-- **euler_step_safe.**  For a state inside the box (`0 ≤ y i`, and `y i ≤ ub i` wherever the bound is finite) the step
    `h` returned by `max_euler_step_cb` satisfies `0 ≤ h ≤ 1` and the explicit Euler update keeps EVERY component inside
    `[0, ub i]`.  (`y`, `ub`, `f` are indexed by substance; no length hypotheses are needed: a successful run has looked
    up every index it needed.) -/
theorem euler_step_safe (y f : List α) (ub : List (Option α)) (h : α)
    (hrun : maxEulerStep y ub f = .ok h)
    (hy : ∀ (i : ℕ) yi, y[i]? = some yi → 0 ≤ yi)
    (hub : ∀ (i : ℕ) yi u, y[i]? = some yi → ub[i]? = some (some u) → yi ≤ u) :
    0 ≤ h ∧ h ≤ 1 ∧
      ∀ (i : ℕ) yi fi, y[i]? = some yi → f[i]? = some fi →
        0 ≤ yi + h * fi ∧ ∀ u, ub[i]? = some (some u) → yi + h * fi ≤ u := by
  obtain ⟨bs, m, hb, hm, rfl⟩ := maxEulerStep_ok hrun
  obtain ⟨hlen, hs⟩ := stepBounds_spec y ub f 0 bs hb
  obtain ⟨hmem, hle⟩ := minInf_spec hm
  -- every finite stored bound is non-negative
  have hbnd : ∀ k fk v, f[k]? = some fk → stepBoundAt y ub k fk = .ok (some v) → 0 ≤ v := by
    intro k fk v _ hv
    rcases stepBoundAt_some hv with ⟨hpos, yi, u, hyi, hui, rfl⟩ | ⟨hneg, yi, hyi, rfl⟩
    · exact div_nonneg (sub_nonneg.mpr (hub k yi u hyi hui)) hpos.le
    · exact div_nonneg_of_nonpos (neg_nonpos.mpr (hy k yi hyi)) hneg.le
  have h0 : 0 ≤ capAtOne m := by
    apply capAtOne_nonneg
    intro v hv
    subst hv
    obtain ⟨k, hk⟩ := List.mem_iff_getElem?.mp hmem
    have hkl : k < f.length := by
      have := (List.getElem?_eq_some_iff.mp hk).1
      omega
    obtain ⟨b, hb1, hb2⟩ := hs k f[k] (List.getElem?_eq_getElem hkl)
    rw [hk] at hb1
    cases hb1
    exact hbnd k f[k] v (List.getElem?_eq_getElem hkl) (by simpa using hb2)
  refine ⟨h0, capAtOne_le_one m, ?_⟩
  intro i yi fi hyi hfi
  obtain ⟨b, hb1, hb2⟩ := hs i fi hfi
  simp only [Nat.zero_add] at hb2
  have hbm : b ∈ bs := List.mem_of_getElem? hb1
  have hyi0 := hy i yi hyi
  rcases stepBoundAt_ok hb2 with ⟨hf0, _⟩ | ⟨hpos, yi', hyi', hcase⟩ | ⟨hneg, yi', hyi', hbv⟩
  · subst hf0
    simp only [mul_zero, add_zero]
    exact ⟨hyi0, fun u hu => hub i yi u hyi hu⟩
  · rw [hyi] at hyi'
    cases hyi'
    refine ⟨add_nonneg hyi0 (mul_nonneg h0 hpos.le), ?_⟩
    intro u hu
    rcases hcase with ⟨hinf, _⟩ | ⟨u', hu', hbv⟩
    · rw [hu] at hinf; cases hinf
    · rw [hu] at hu'
      cases hu'
      subst hbv
      have hle' := capAtOne_le_of_optLe (hle _ hbm)
      have := mul_le_mul_of_nonneg_right hle' hpos.le
      rw [div_mul_cancel₀ _ hpos.ne'] at this
      linarith
  · rw [hyi] at hyi'
    cases hyi'
    subst hbv
    have hle' := capAtOne_le_of_optLe (hle _ hbm)
    have h1 := mul_le_mul_of_nonpos_right hle' hneg.le
    rw [div_mul_cancel₀ _ hneg.ne] at h1
    refine ⟨by linarith, ?_⟩
    intro u hu
    have h2 : capAtOne m * fi ≤ 0 := mul_nonpos_of_nonneg_of_nonpos h0 hneg.le
    have := hub i yi u hyi hu
    linarith

/-- **the step is the largest admissible one.**  When the returned step is below the cap `1`, some component lands EXACTLY
    on the bound it moves towards (`0` for a decreasing, `ub i` for an increasing component) … -/
theorem euler_step_tight (y f : List α) (ub : List (Option α)) (h : α)
    (hrun : maxEulerStep y ub f = .ok h) (hlt : h < 1) :
    ∃ (i : ℕ) (yi fi : α), y[i]? = some yi ∧ f[i]? = some fi ∧
      ((fi < 0 ∧ yi + h * fi = 0) ∨ (0 < fi ∧ ∃ u, ub[i]? = some (some u) ∧ yi + h * fi = u)) := by
  obtain ⟨bs, m, hb, hm, rfl⟩ := maxEulerStep_ok hrun
  obtain ⟨hlen, hs⟩ := stepBounds_spec y ub f 0 bs hb
  obtain ⟨hmem, _⟩ := minInf_spec hm
  have hm' := capAtOne_lt_one hlt
  obtain ⟨k, hk⟩ := List.mem_iff_getElem?.mp hmem
  have hkl : k < f.length := by
    have := (List.getElem?_eq_some_iff.mp hk).1
    omega
  obtain ⟨b, hb1, hb2⟩ := hs k f[k] (List.getElem?_eq_getElem hkl)
  rw [hk] at hb1
  cases hb1
  simp only [Nat.zero_add] at hb2
  rw [hm'] at hb2
  rcases stepBoundAt_some hb2 with ⟨hpos, yi, u, hyi, hui, hv⟩ | ⟨hneg, yi, hyi, hv⟩
  · refine ⟨k, yi, f[k], hyi, List.getElem?_eq_getElem hkl, Or.inr ⟨hpos, u, hui, ?_⟩⟩
    rw [hv, div_mul_cancel₀ _ hpos.ne']
    ring
  · refine ⟨k, yi, f[k], hyi, List.getElem?_eq_getElem hkl, Or.inl ⟨hneg, ?_⟩⟩
    rw [hv, div_mul_cancel₀ _ hneg.ne]
    ring

/-- … hence every longer step leaves the box: `h` is the LARGEST step `≤ 1` keeping `y + h·f` inside `[0, ub]`. -/
theorem euler_step_maximal (y f : List α) (ub : List (Option α)) (h h' : α)
    (hrun : maxEulerStep y ub f = .ok h) (hlt : h < 1) (hh' : h < h') :
    ∃ (i : ℕ) (yi fi : α), y[i]? = some yi ∧ f[i]? = some fi ∧
      (yi + h' * fi < 0 ∨ ∃ u, ub[i]? = some (some u) ∧ u < yi + h' * fi) := by
  obtain ⟨i, yi, fi, hyi, hfi, hcase⟩ := euler_step_tight y f ub h hrun hlt
  refine ⟨i, yi, fi, hyi, hfi, ?_⟩
  rcases hcase with ⟨hneg, h0⟩ | ⟨hpos, u, hu, hue⟩
  · left
    have := mul_lt_mul_of_neg_right hh' hneg
    linarith
  · right
    refine ⟨u, hu, ?_⟩
    have := mul_lt_mul_of_pos_right hh' hpos
    linarith

/-- **when the step is positive.**  The returned step is strictly positive exactly when no component sits on the bound it
    moves towards (zero derivatives never restrict the step; a component on `0` with negative derivative, or on `ub i` with
    positive derivative, forces `h = 0`). -/
theorem euler_step_pos (y f : List α) (ub : List (Option α)) (h : α)
    (hrun : maxEulerStep y ub f = .ok h)
    (hin : ∀ (i : ℕ) yi fi, y[i]? = some yi → f[i]? = some fi →
      (fi < 0 → 0 < yi) ∧ (0 < fi → ∀ u, ub[i]? = some (some u) → yi < u)) :
    0 < h := by
  obtain ⟨bs, m, hb, hm, rfl⟩ := maxEulerStep_ok hrun
  obtain ⟨hlen, hs⟩ := stepBounds_spec y ub f 0 bs hb
  obtain ⟨hmem, _⟩ := minInf_spec hm
  cases m with
  | none => simp [capAtOne]
  | some v =>
    have hv : 0 < v := by
      obtain ⟨k, hk⟩ := List.mem_iff_getElem?.mp hmem
      have hkl : k < f.length := by
        have := (List.getElem?_eq_some_iff.mp hk).1
        omega
      obtain ⟨b, hb1, hb2⟩ := hs k f[k] (List.getElem?_eq_getElem hkl)
      rw [hk] at hb1
      cases hb1
      simp only [Nat.zero_add] at hb2
      rcases stepBoundAt_some hb2 with ⟨hpos, yi, u, hyi, hui, rfl⟩ | ⟨hneg, yi, hyi, rfl⟩
      · exact div_pos (sub_pos.mpr ((hin k yi f[k] hyi (List.getElem?_eq_getElem hkl)).2 hpos u hui)) hpos
      · exact div_pos_of_neg_of_neg (neg_neg_of_pos ((hin k yi f[k] hyi (List.getElem?_eq_getElem hkl)).1 hneg)) hneg
    simp only [capAtOne, Nat.cast_one]
    split
    · exact zero_lt_one
    · exact hv

omit [IsStrictOrderedRing α] in
/-- **when the arithmetic succeeds** (success characterisation of `maxEulerStep`): exactly when there is at least one
    substance and every index the loop touches exists — in particular whenever `y`, `ub`, `f` have one entry per substance. -/
theorem euler_step_defined (y : List α) (ub : List (Option α)) (f : List α) (hne : f ≠ [])
    (hy : f.length ≤ y.length) (hub : f.length ≤ ub.length) : ∃ h, maxEulerStep y ub f = .ok h := by
  have hsb : ∀ (fs : List α) (idx : ℕ), idx + fs.length ≤ y.length → idx + fs.length ≤ ub.length →
      ∃ bs, stepBounds y ub idx fs = .ok bs ∧ bs.length = fs.length := by
    intro fs
    induction fs with
    | nil => intro idx _ _; exact ⟨[], rfl, rfl⟩
    | cons fc t ih =>
      intro idx h1 h2
      simp only [List.length_cons] at h1 h2
      have hiy : idx < y.length := by omega
      have hiu : idx < ub.length := by omega
      obtain ⟨bs, hbs, hl⟩ := ih (idx + 1) (by omega) (by omega)
      have hone : ∃ b, stepBoundAt y ub idx fc = .ok b := by
        unfold stepBoundAt
        rw [List.getElem?_eq_getElem hiy, List.getElem?_eq_getElem hiu]
        split_ifs <;> exact ⟨_, rfl⟩
      obtain ⟨b, hb⟩ := hone
      exact ⟨b :: bs, by simp [stepBounds, hb, hbs], by simp [hl]⟩
  obtain ⟨bs, hbs, hl⟩ := hsb f 0 (by omega) (by omega)
  cases bs with
  | nil => exact absurd (List.length_eq_zero_iff.mp hl.symm) hne
  | cons b t => exact ⟨capAtOne (t.foldl minInf2 b), by simp [maxEulerStep, hbs, minInf]⟩

/-- **zero step iff a component sits on the bound it moves towards** (both directions; inside the box). -/
theorem euler_step_zero_iff (y f : List α) (ub : List (Option α)) (h : α)
    (hrun : maxEulerStep y ub f = .ok h)
    (hy : ∀ (i : ℕ) yi, y[i]? = some yi → 0 ≤ yi)
    (hub : ∀ (i : ℕ) yi u, y[i]? = some yi → ub[i]? = some (some u) → yi ≤ u) :
    h = 0 ↔ ∃ (i : ℕ) (yi fi : α), y[i]? = some yi ∧ f[i]? = some fi ∧
      ((fi < 0 ∧ yi = 0) ∨ (0 < fi ∧ ub[i]? = some (some yi))) := by
  obtain ⟨h0, _, hbox⟩ := euler_step_safe y f ub h hrun hy hub
  constructor
  · intro hz
    obtain ⟨i, yi, fi, hyi, hfi, hcase⟩ := euler_step_tight y f ub h hrun (by rw [hz]; exact zero_lt_one)
    refine ⟨i, yi, fi, hyi, hfi, ?_⟩
    rcases hcase with ⟨hneg, he⟩ | ⟨hpos, u, hu, he⟩
    · left; rw [hz] at he; exact ⟨hneg, by simpa using he⟩
    · right; rw [hz] at he
      have : yi = u := by simpa using he
      exact ⟨hpos, by rw [this]; exact hu⟩
  · rintro ⟨i, yi, fi, hyi, hfi, hcase⟩
    obtain ⟨hlo, hhi⟩ := hbox i yi fi hyi hfi
    rcases hcase with ⟨hneg, hz⟩ | ⟨hpos, hu⟩
    · rw [hz, zero_add] at hlo
      have : h * fi ≤ 0 := mul_nonpos_of_nonneg_of_nonpos h0 hneg.le
      have h2 : h * fi = 0 := le_antisymm this hlo
      rcases mul_eq_zero.mp h2 with h3 | h3
      · exact h3
      · exact absurd h3 hneg.ne
    · have := hhi yi hu
      have h2 : h * fi ≤ 0 := by linarith
      have h3 : 0 ≤ h * fi := mul_nonneg h0 hpos.le
      rcases mul_eq_zero.mp (le_antisymm h2 h3) with h4 | h4
      · exact h4
      · exact absurd h4 hpos.ne'

/-- **the upper-bound side of the loop is redundant for conserved dynamics.**  Suppose every step that keeps the state
    non-negative also keeps it below the bounds (`hinv` — exactly what `upper_bound_valid` gives for a balanced system,
    because the Euler update `y + t·f` carries the element totals of `y`: `B·f = 0`, C05 `invariants_exact`).  Then the
    branch `fcomp > 0 → (upper_bounds[idx] − y[idx]) / fcomp` never decides the result: the callback returns the same step
    as the loop that only watches the lower bounds (`ub0` = all `inf`).  (Consequence for testing: deleting that branch is
    not observable on admissible states; the harness therefore also compares model and code on states with a negative
    entry, where the branch does decide.) -/
theorem euler_step_upper_side_redundant (y f : List α) (ub ub0 : List (Option α)) (h h0 : α)
    (hrun : maxEulerStep y ub f = .ok h) (hrun0 : maxEulerStep y ub0 f = .ok h0)
    (hub0 : ∀ (i : ℕ) b, ub0[i]? = some b → b = none)
    (hy : ∀ (i : ℕ) yi, y[i]? = some yi → 0 ≤ yi)
    (hinv : ∀ t, 0 ≤ t → (∀ (i : ℕ) yi fi, y[i]? = some yi → f[i]? = some fi → 0 ≤ yi + t * fi) →
      ∀ (i : ℕ) yi fi u, y[i]? = some yi → f[i]? = some fi → ub[i]? = some (some u) → yi + t * fi ≤ u) :
    h = h0 := by
  have hsafe0 := euler_step_safe y f ub0 h0 hrun0 hy
    (fun i yi u _ hu => by have := hub0 i _ hu; cases this)
  obtain ⟨h0nn, h0le, hbox0⟩ := hsafe0
  have hU := hinv h0 h0nn (fun i yi fi hyi hfi => (hbox0 i yi fi hyi hfi).1)
  obtain ⟨bs, m, hb, hm, rfl⟩ := maxEulerStep_ok hrun
  obtain ⟨bs0, m0, hb0, hm0, rfl⟩ := maxEulerStep_ok hrun0
  obtain ⟨hlen, hs⟩ := stepBounds_spec y ub f 0 bs hb
  obtain ⟨hlen0, hs0⟩ := stepBounds_spec y ub0 f 0 bs0 hb0
  obtain ⟨hmem, hle⟩ := minInf_spec hm
  obtain ⟨hmem0, hle0⟩ := minInf_spec hm0
  apply le_antisymm
  · -- the full loop is below the lower-side-only loop
    apply le_capAtOne (capAtOne_le_one m)
    intro v hv
    subst hv
    obtain ⟨k, hk⟩ := List.mem_iff_getElem?.mp hmem0
    have hkl : k < f.length := by
      have := (List.getElem?_eq_some_iff.mp hk).1
      omega
    have hfk := List.getElem?_eq_getElem hkl
    obtain ⟨b, hb1, hb2⟩ := hs0 k f[k] hfk
    rw [hk] at hb1
    cases hb1
    simp only [Nat.zero_add] at hb2
    rcases stepBoundAt_some hb2 with ⟨_, yi, u, _, hui, _⟩ | ⟨hneg, yi, hyi, rfl⟩
    · have := hub0 k _ hui
      cases this
    · obtain ⟨b', hb1', hb2'⟩ := hs k f[k] hfk
      simp only [Nat.zero_add] at hb2'
      rcases stepBoundAt_ok hb2' with ⟨hf0, _⟩ | ⟨hpos, _⟩ | ⟨_, yi', hyi', hbv⟩
      · rw [hf0] at hneg; exact absurd hneg (lt_irrefl _)
      · exact absurd hneg (not_lt.mpr hpos.le)
      · rw [hyi] at hyi'
        cases hyi'
        subst hbv
        exact capAtOne_le_of_optLe (hle _ (List.mem_of_getElem? hb1'))
  · apply le_capAtOne h0le
    intro v hv
    subst hv
    obtain ⟨k, hk⟩ := List.mem_iff_getElem?.mp hmem
    have hkl : k < f.length := by
      have := (List.getElem?_eq_some_iff.mp hk).1
      omega
    have hfk := List.getElem?_eq_getElem hkl
    obtain ⟨b, hb1, hb2⟩ := hs k f[k] hfk
    rw [hk] at hb1
    cases hb1
    simp only [Nat.zero_add] at hb2
    rcases stepBoundAt_some hb2 with ⟨hpos, yi, u, hyi, hui, rfl⟩ | ⟨hneg, yi, hyi, rfl⟩
    · have := hU k yi f[k] u hyi hfk hui
      rw [le_div_iff₀ hpos]
      linarith
    · obtain ⟨b', hb1', hb2'⟩ := hs0 k f[k] hfk
      simp only [Nat.zero_add] at hb2'
      rcases stepBoundAt_ok hb2' with ⟨hf0, _⟩ | ⟨hpos, _⟩ | ⟨_, yi', hyi', hbv⟩
      · rw [hf0] at hneg; exact absurd hneg (lt_irrefl _)
      · exact absurd hneg (not_lt.mpr hpos.le)
      · rw [hyi] at hyi'
        cases hyi'
        subst hbv
        exact capAtOne_le_of_optLe (hle0 _ (List.mem_of_getElem? hb1'))

/-- a component ON the bound it moves towards makes the advertised step zero (here: `y₁ = 0`, `f₁ < 0`) -/
theorem euler_step_zero_on_bound_witness :
    maxEulerStep [(1 : ℚ), 0] [some 1, some 2] [1 / 2, -1] = .ok 0 := by decide +kernel

/-- **upper_bound_valid** (C08's theorem about the shared model of `upper_conc_bounds`, cited): with non-negative
    composition coefficients (charge excluded) and strictly positive ones for substance `i`, no non-negative state `y`
    carrying the element totals of `init` has more of substance `i` than the bound.  With C05's `invariants_exact` (element
    totals are constants of motion of the generated right-hand side) this is "concentrations never exceed the supply of
    their constituent elements" for exact solutions. -/
theorem upper_bound_valid (comps : List (EqSolve.Comp α)) (init y : List α) (ub : List (Option α))
    (hub : EqSolve.upperConcBounds comps init = .ok ub) (hylen : y.length = comps.length)
    (hy : ∀ v ∈ y, 0 ≤ v) (hc : ∀ comp ∈ comps, ∀ p ∈ comp, p.1 ≠ 0 → 0 ≤ p.2)
    (htot : ∀ k, k ≠ 0 → EqSolve.compositionConc comps y k = EqSolve.compositionConc comps init k)
    (i : Nat) (hi : i < comps.length) (b : α) (hb : ub[i]? = some (some b))
    (hpos : ∀ p ∈ comps[i], p.1 ≠ 0 → 0 < p.2) :
    y[i]'(hylen ▸ hi) ≤ b :=
  EqSolve.upperConcBounds_valid comps init y ub hub hylen hy hc htot i hi b hb hpos

/-- **the callback as a whole.**  `extra['max_euler_step_cb'](x, y)` computes the bounds from the CURRENT state and the
    derivative from the generated right-hand side.  For every system whose composition coefficients (charge excluded) are
    positive and every non-negative state `y`: whenever it returns `h`, then `0 ≤ h ≤ 1` and `y + h·f(y)` lies in
    `[0, upper_conc_bounds(y)]` componentwise — no hypothesis `y ≤ ub` is needed, it is a consequence. -/
theorem euler_step_cb_safe {σ : Type} [DecidableEq σ] (keys : List σ) (comps : List (EqSolve.Comp α))
    (rs : List (Reaction σ α)) (y : List α) (h : α)
    (hrun : maxEulerStepCb keys comps rs y = .ok h)
    (hy : ∀ v ∈ y, 0 ≤ v) (hc : ∀ comp ∈ comps, ∀ p ∈ comp, p.1 ≠ 0 → 0 < p.2) :
    ∃ ub f, EqSolve.upperConcBounds comps y = .ok ub ∧ fvec keys rs y = .ok f ∧ 0 ≤ h ∧ h ≤ 1 ∧
      ∀ (i : ℕ) yi fi, y[i]? = some yi → f[i]? = some fi →
        0 ≤ yi + h * fi ∧ ∀ u, ub[i]? = some (some u) → yi + h * fi ≤ u := by
  unfold maxEulerStepCb at hrun
  by_cases hemp : rs.isEmpty = true
  · rw [if_pos hemp] at hrun; cases hrun
  rw [if_neg hemp] at hrun
  cases hub : EqSolve.upperConcBounds comps y with
  | error e => rw [hub] at hrun; simp at hrun
  | ok ub =>
    rw [hub] at hrun
    simp only at hrun
    cases hf : fvec keys rs y with
    | error e => rw [hf] at hrun; simp at hrun
    | ok f =>
      rw [hf] at hrun
      simp only at hrun
      have hylen : y.length = comps.length := by
        unfold EqSolve.upperConcBounds at hub
        split_ifs at hub with hl
        exact not_not.mp hl
      have hsafe := euler_step_safe y f ub h hrun
        (fun i yi hyi => hy yi (List.mem_of_getElem? hyi))
        (by
          intro i yi u hyi hu
          have hil : i < y.length := (List.getElem?_eq_some_iff.mp hyi).1
          have hic : i < comps.length := hylen ▸ hil
          have := upper_bound_valid comps y y ub hub hylen hy
            (fun comp hcomp p hp hk => (hc comp hcomp p hp hk).le) (fun _ _ => rfl) i hic u hu
            (fun p hp hk => hc _ (List.getElem_mem _) p hp hk)
          have hyi' : y[i] = yi := (List.getElem?_eq_some_iff.mp hyi).2
          rw [← hyi']
          exact this)
      exact ⟨ub, f, rfl, rfl, hsafe⟩

/-- **the callback of a stirred-tank system** (`get_odesys(rsys, cstr=True)`, feed ratio and feed concentrations passed as
    parameters `p`): the same guarantee — `0 ≤ h ≤ 1` and `y + h·f(y, p)` inside `[0, upper_conc_bounds(y)]` — although the
    right-hand side now contains the feed term `F·(c_feed − c)` and the elemental bounds are no physical limit of an open system. -/
theorem euler_step_cb_cstr_safe {σ : Type} [DecidableEq σ] (keys : List σ) (comps : List (EqSolve.Comp α))
    (rs : List (Reaction σ α)) (cs : Cstr σ) (p : List (σ × α)) (y : List α) (h : α)
    (hrun : maxEulerStepCbCstr keys comps rs cs p y = .ok h)
    (hy : ∀ v ∈ y, 0 ≤ v) (hc : ∀ comp ∈ comps, ∀ p ∈ comp, p.1 ≠ 0 → 0 < p.2) :
    ∃ ub f, EqSolve.upperConcBounds comps y = .ok ub ∧ fvecCstr keys rs cs p y = .ok f ∧ 0 ≤ h ∧ h ≤ 1 ∧
      ∀ (i : ℕ) yi fi, y[i]? = some yi → f[i]? = some fi →
        0 ≤ yi + h * fi ∧ ∀ u, ub[i]? = some (some u) → yi + h * fi ≤ u := by
  unfold maxEulerStepCbCstr at hrun
  by_cases hemp : rs.isEmpty = true
  · rw [if_pos hemp] at hrun; cases hrun
  rw [if_neg hemp] at hrun
  cases hub : EqSolve.upperConcBounds comps y with
  | error e => rw [hub] at hrun; simp at hrun
  | ok ub =>
    rw [hub] at hrun
    simp only at hrun
    cases hf : fvecCstr keys rs cs p y with
    | error e => rw [hf] at hrun; simp at hrun
    | ok f =>
      rw [hf] at hrun
      simp only at hrun
      have hylen : y.length = comps.length := by
        unfold EqSolve.upperConcBounds at hub
        split_ifs at hub with hl
        exact not_not.mp hl
      have hsafe := euler_step_safe y f ub h hrun
        (fun i yi hyi => hy yi (List.mem_of_getElem? hyi))
        (by
          intro i yi u hyi hu
          have hil : i < y.length := (List.getElem?_eq_some_iff.mp hyi).1
          have hic : i < comps.length := hylen ▸ hil
          have := upper_bound_valid comps y y ub hub hylen hy
            (fun comp hcomp p hp hk => (hc comp hcomp p hp hk).le) (fun _ _ => rfl) i hic u hu
            (fun p hp hk => hc _ (List.getElem_mem _) p hp hk)
          have hyi' : y[i] = yi := (List.getElem?_eq_some_iff.mp hyi).2
          rw [← hyi']
          exact this)
      exact ⟨ub, f, rfl, rfl, hsafe⟩

/-- **the honest corollary for the stirred tank: the advertised step is ZERO whenever the feed (or a reaction) raises a
    species that already holds all of one of its elements** (`ub(y)[i] = y[i]`, `f[i] > 0` — e.g. every empty or one-species
    tank with a feed): the callback clamps to the closed-system bound of the current state, so for `cstr=True` it certifies
    no progress at all there (`euler_step_zero_iff` instantiated).  The float code returns `0.0` or rounding noise of either
    sign (`−3.5e-18`) in this situation (notes/C06.md, limitation). -/
theorem euler_step_cb_cstr_zero_when_fed_on_bound {σ : Type} [DecidableEq σ] (keys : List σ) (comps : List (EqSolve.Comp α))
    (rs : List (Reaction σ α)) (cs : Cstr σ) (p : List (σ × α)) (y : List α) (h : α)
    (hrun : maxEulerStepCbCstr keys comps rs cs p y = .ok h)
    (hy : ∀ v ∈ y, 0 ≤ v) (hc : ∀ comp ∈ comps, ∀ p ∈ comp, p.1 ≠ 0 → 0 < p.2)
    (ub : List (Option α)) (f : List α) (hub : EqSolve.upperConcBounds comps y = .ok ub) (hf : fvecCstr keys rs cs p y = .ok f)
    (i : ℕ) (yi fi : α) (hyi : y[i]? = some yi) (hfi : f[i]? = some fi) (hpos : 0 < fi) (hon : ub[i]? = some (some yi)) :
    h = 0 := by
  unfold maxEulerStepCbCstr at hrun
  by_cases hemp : rs.isEmpty = true
  · rw [if_pos hemp] at hrun; cases hrun
  rw [if_neg hemp, hub, hf] at hrun
  simp only at hrun
  have hylen : y.length = comps.length := by
    unfold EqSolve.upperConcBounds at hub
    split_ifs at hub with hl
    exact not_not.mp hl
  refine (euler_step_zero_iff y f ub h hrun (fun j yj hyj => hy yj (List.mem_of_getElem? hyj)) ?_).mpr
    ⟨i, yi, fi, hyi, hfi, Or.inr ⟨hpos, hon⟩⟩
  intro j yj u hyj hu
  have hjl : j < y.length := (List.getElem?_eq_some_iff.mp hyj).1
  have hjc : j < comps.length := hylen ▸ hjl
  have := upper_bound_valid comps y y ub hub hylen hy
    (fun comp hcomp p hp hk => (hc comp hcomp p hp hk).le) (fun _ _ => rfl) j hjc u hu
    (fun p hp hk => hc _ (List.getElem_mem _) p hp hk)
  have hyj' : y[j] = yj := (List.getElem?_eq_some_iff.mp hyj).2
  rw [← hyj']
  exact this

end Step

/-! ## the Euler update carries the element totals: `hinv` / `htot` derived from balance (C05) -/
section Conservation
variable {α : Type} [Field α] [LinearOrder α] [IsStrictOrderedRing α] {σ : Type} [DecidableEq σ]

/-- **the generated right-hand side keeps every element total** in the very terms `upper_conc_bounds` uses: for a system that
    passes the gate `check_balance(strict=True)` (C05 `accept_iff_balanced`), compositions with duplicate-free keys (Python
    dicts) and every non-charge key `k`:  `Σ_i a_ik · rates(c)[i] = 0` for EVERY concentration function `c`. -/
theorem rates_keep_element_totals {σ : Type} [DecidableEq σ] (keys : List σ) (comps : List (EqSolve.Comp α))
    (rs : List (Reaction σ α)) (c : σ → α)
    (hav : callbackAvailable keys comps rs = true) (hne : comps ≠ []) (hkl : keys.length = comps.length)
    (hnd : ∀ comp ∈ comps, (comp.map Prod.fst).Nodup) (k : ℕ) (hk : k ≠ 0) :
    (List.zipWith (fun w v => w * v) (comps.map fun comp => compWeight comp k)
      (keys.map fun s => valueAt (sysRates c rs none none) s)).sum = 0 := by
  set subs := toSubstances keys comps with hsubs
  have hall : ∀ sc ∈ subs, ∃ comp, sc.2 = some comp := by
    intro sc hsc
    rw [hsubs, toSubstances] at hsc
    obtain ⟨i, hi, rfl⟩ := List.mem_iff_getElem.mp hsc
    simp
  have hsne : subs ≠ [] := by
    rw [hsubs, toSubstances]
    intro h
    have := congrArg List.length h
    simp only [List.length_zipWith, List.length_nil] at this
    have : comps.length = 0 := by omega
    exact hne (List.length_eq_zero_iff.mp this)
  have hacc : checkBalance subs rs true = BalanceResult.ok := by
    simpa [callbackAvailable] using hav
  have hbal := (C05.accept_iff_balanced subs rs true hall (Or.inl hsne)).mp hacc
  -- rewrite the weighted sum as a sum over the substance dict
  have hz : List.zipWith (fun w v => w * v) (comps.map fun comp => compWeight comp k)
        (keys.map fun s => valueAt (sysRates c rs none none) s) =
      subs.map fun sc => (RingHom.id α) (compAt sc (k : ℤ)) * (rs.map fun r => contribution c r sc.1).sum := by
    rw [hsubs, toSubstances, List.map_zipWith, List.zipWith_map_left, List.zipWith_map_right, List.zipWith_comm]
    clear hav hne hkl hall hsne hacc hbal hsubs subs
    induction keys generalizing comps with
    | nil => simp
    | cons s t ih =>
      cases comps with
      | nil => simp
      | cons comp cs =>
        simp only [List.zipWith_cons_cons]
        rw [ih cs (fun comp' h => hnd comp' (List.mem_cons_of_mem _ h))]
        congr 1
        simp only [RingHom.id_apply, compAt]
        rw [compWeight_eq_compGet comp (hnd comp List.mem_cons_self) k hk]
        congr 1
        simp only [sysRates]
        exact valueAt_sysRatesNoFeed_contribution c rs none s (by intro ks h; cases h)
  rw [hz, weighted_rates_eq]
  apply List.sum_eq_zero
  intro x hx
  obtain ⟨r, hr, rfl⟩ := List.mem_map.mp hx
  have : compSum r (k : ℤ) subs = 0 := hbal r hr (k : ℤ)
  simp [this]


/-- **`htot` derived**: the explicit Euler update of ANY length `t` carries the element totals of `y`
    (`compositionConc comps (y + t·f(y)) k = compositionConc comps y k`) for every system that has the callback. -/
theorem euler_update_keeps_totals (keys : List σ) (comps : List (EqSolve.Comp α)) (rs : List (Reaction σ α)) (y f : List α) (t : α)
    (hav : callbackAvailable keys comps rs = true) (hkl : keys.length = comps.length) (hyl : y.length = comps.length)
    (hnd : ∀ comp ∈ comps, (comp.map Prod.fst).Nodup) (hf : fvec keys rs y = .ok f) (k : ℕ) (hk : k ≠ 0) :
    EqSolve.compositionConc comps (eulerNext y t f) k = EqSolve.compositionConc comps y k := by
  have hfe := fvec_ok hf
  have hfl : y.length = f.length := by rw [hfe]; simp [hyl, hkl]
  rw [compositionConc_eq_weighted, compositionConc_eq_weighted, weighted_eulerNext _ y f t hfl]
  cases comps with
  | nil => simp
  | cons c0 cs =>
    rw [hfe, rates_keep_element_totals keys (c0 :: cs) rs _ hav (by simp) hkl hnd k hk]
    simp

/-- **the step of the callback stays within the supply of ANY state with the same element totals** (e.g. the initial state
    `c₀` of a trajectory through `y`): `y + h·f(y) ≤ upper_conc_bounds(c₀)` componentwise — `upper_bound_valid` with `htot`
    discharged by `euler_update_keeps_totals`. -/
theorem euler_step_cb_within_supply (keys : List σ) (comps : List (EqSolve.Comp α)) (rs : List (Reaction σ α)) (y c0 : List α) (h : α)
    (hav : callbackAvailable keys comps rs = true) (hkl : keys.length = comps.length)
    (hnd : ∀ comp ∈ comps, (comp.map Prod.fst).Nodup)
    (hrun : maxEulerStepCb keys comps rs y = .ok h)
    (hy : ∀ v ∈ y, 0 ≤ v) (hc : ∀ comp ∈ comps, ∀ p ∈ comp, p.1 ≠ 0 → 0 < p.2)
    (ub0 : List (Option α)) (hub0 : EqSolve.upperConcBounds comps c0 = .ok ub0)
    (hsame : ∀ k, k ≠ 0 → EqSolve.compositionConc comps y k = EqSolve.compositionConc comps c0 k) :
    ∃ f, fvec keys rs y = .ok f ∧
      ∀ (i : ℕ) yi fi u, y[i]? = some yi → f[i]? = some fi → ub0[i]? = some (some u) → yi + h * fi ≤ u := by
  obtain ⟨ub, f, hub, hf, h0, _, hbox⟩ := euler_step_cb_safe keys comps rs y h hrun hy hc
  refine ⟨f, hf, ?_⟩
  intro i yi fi u hyi hfi hu
  have hyl : y.length = comps.length := by
    unfold EqSolve.upperConcBounds at hub
    split_ifs at hub with hl
    exact not_not.mp hl
  have hfl : y.length = f.length := by rw [fvec_ok hf]; simp [hyl, hkl]
  have hnl : (eulerNext y h f).length = comps.length := by rw [eulerNext_length y f h hfl, hyl]
  have hnn : ∀ v ∈ eulerNext y h f, 0 ≤ v := by
    intro v hv
    obtain ⟨j, hj, rfl⟩ := List.mem_iff_getElem.mp hv
    have hj' := List.getElem?_eq_getElem hj
    rw [eulerNext_getElem?] at hj'
    cases hyj : y[j]? with
    | none => rw [hyj] at hj'; simp at hj'
    | some yj =>
      cases hfj : f[j]? with
      | none => rw [hyj, hfj] at hj'; simp at hj'
      | some fj =>
        rw [hyj, hfj] at hj'
        simp only [Option.some.injEq] at hj'
        rw [← hj']
        exact (hbox j yj fj hyj hfj).1
  have hil : i < comps.length := by
    have := (List.getElem?_eq_some_iff.mp hyi).1
    omega
  have hv := upper_bound_valid comps c0 (eulerNext y h f) ub0 hub0 hnl hnn
    (fun comp hcomp p hp hk => (hc comp hcomp p hp hk).le)
    (fun k hk => by rw [euler_update_keeps_totals keys comps rs y f h hav hkl hyl hnd hf k hk, hsame k hk])
    i hil u hu (fun p hp hk => hc _ (List.getElem_mem _) p hp hk)
  have hget : (eulerNext y h f)[i]? = some (yi + h * fi) := by
    rw [eulerNext_getElem?, hyi, hfi]
  have : (eulerNext y h f)[i]'(hnl ▸ hil) = yi + h * fi := (List.getElem?_eq_some_iff.mp hget).2
  rw [← this]
  exact hv

/-- **`hinv` derived: for every system that has the callback the upper-bound branch never decides.**  Whenever
    `max_euler_step_cb` returns `h`, the loop WITHOUT the branch `fcomp > 0 → (upper_bounds[idx] − y[idx]) / fcomp`
    (all bounds `inf`) returns the same `h`. -/
theorem euler_step_cb_upper_side_redundant (keys : List σ) (comps : List (EqSolve.Comp α)) (rs : List (Reaction σ α)) (y : List α) (h : α)
    (hav : callbackAvailable keys comps rs = true) (hkl : keys.length = comps.length)
    (hnd : ∀ comp ∈ comps, (comp.map Prod.fst).Nodup)
    (hrun : maxEulerStepCb keys comps rs y = .ok h)
    (hy : ∀ v ∈ y, 0 ≤ v) (hc : ∀ comp ∈ comps, ∀ p ∈ comp, p.1 ≠ 0 → 0 < p.2) :
    ∃ f, fvec keys rs y = .ok f ∧ maxEulerStep y (y.map fun _ => none) f = .ok h := by
  obtain ⟨ub, f, hub, hf, _, _, _⟩ := euler_step_cb_safe keys comps rs y h hrun hy hc
  refine ⟨f, hf, ?_⟩
  have hrun' : maxEulerStep y ub f = .ok h := by
    unfold maxEulerStepCb at hrun
    by_cases hemp : rs.isEmpty = true
    · rw [if_pos hemp] at hrun; cases hrun
    rw [if_neg hemp, hub, hf] at hrun
    exact hrun
  have hyl : y.length = comps.length := by
    unfold EqSolve.upperConcBounds at hub
    split_ifs at hub with hl
    exact not_not.mp hl
  have hfl : y.length = f.length := by rw [fvec_ok hf]; simp [hyl, hkl]
  have hfne : f ≠ [] := by
    intro hfe
    subst hfe
    simp [maxEulerStep, stepBounds, minInf] at hrun'
  obtain ⟨h0, hrun0⟩ := euler_step_defined y (y.map fun _ => none) f hfne (by omega) (by simp; omega)
  have := euler_step_upper_side_redundant y f ub (y.map fun _ => none) h h0 hrun' hrun0
    (by
      intro i b hb
      rw [List.getElem?_map] at hb
      cases hyi : y[i]? with
      | none => rw [hyi] at hb; simp at hb
      | some _ => rw [hyi] at hb; simp at hb; exact hb.symm)
    (fun i yi hyi => hy yi (List.mem_of_getElem? hyi))
    (by
      intro t ht hnn i yi fi u hyi hfi hu
      have hnl : (eulerNext y t f).length = comps.length := by rw [eulerNext_length y f t hfl, hyl]
      have hnn' : ∀ v ∈ eulerNext y t f, 0 ≤ v := by
        intro v hv
        obtain ⟨j, hj, rfl⟩ := List.mem_iff_getElem.mp hv
        have hj' := List.getElem?_eq_getElem hj
        rw [eulerNext_getElem?] at hj'
        cases hyj : y[j]? with
        | none => rw [hyj] at hj'; simp at hj'
        | some yj =>
          cases hfj : f[j]? with
          | none => rw [hyj, hfj] at hj'; simp at hj'
          | some fj =>
            rw [hyj, hfj] at hj'
            simp only [Option.some.injEq] at hj'
            rw [← hj']
            exact hnn j yj fj hyj hfj
      have hil : i < comps.length := by
        have := (List.getElem?_eq_some_iff.mp hyi).1
        omega
      have hv := upper_bound_valid comps y (eulerNext y t f) ub hub hnl hnn'
        (fun comp hcomp p hp hk => (hc comp hcomp p hp hk).le)
        (fun k hk => euler_update_keeps_totals keys comps rs y f t hav hkl hyl hnd hf k hk)
        i hil u hu (fun p hp hk => hc _ (List.getElem_mem _) p hp hk)
      have hget : (eulerNext y t f)[i]? = some (yi + t * fi) := by
        rw [eulerNext_getElem?, hyi, hfi]
      have : (eulerNext y t f)[i]'(hnl ▸ hil) = yi + t * fi := (List.getElem?_eq_some_iff.mp hget).2
      rw [← this]
      exact hv)
  rw [this]
  exact hrun0

/-- **iterated safe steps stay admissible** (the third sentence of the property as a statement about the whole explicit-Euler
    iteration, not one step): start from ANY non-negative `c₀`, repeat `y ← y + h·f(y)` with the step `h = max_euler_step_cb(y)`
    the callback advertises at the current state.  For every system that has the callback and every number of steps `n`:
    all iterates are non-negative, carry exactly the element totals of `c₀`, and stay below `upper_conc_bounds(c₀)` — the
    elemental supply of the INITIAL state. -/
theorem euler_iterates_admissible (keys : List σ) (comps : List (EqSolve.Comp α)) (rs : List (Reaction σ α))
    (hav : callbackAvailable keys comps rs = true) (hkl : keys.length = comps.length)
    (hnd : ∀ comp ∈ comps, (comp.map Prod.fst).Nodup) (hc : ∀ comp ∈ comps, ∀ p ∈ comp, p.1 ≠ 0 → 0 < p.2)
    (c0 : List α) (hc0 : ∀ v ∈ c0, 0 ≤ v) (hl0 : c0.length = comps.length)
    (n : ℕ) (y : List α) (hrun : eulerIter keys comps rs n c0 = .ok y) :
    (∀ v ∈ y, 0 ≤ v) ∧ y.length = comps.length ∧
      (∀ k, k ≠ 0 → EqSolve.compositionConc comps y k = EqSolve.compositionConc comps c0 k) ∧
      ∀ ub0, EqSolve.upperConcBounds comps c0 = .ok ub0 →
        ∀ (i : ℕ) yi u, y[i]? = some yi → ub0[i]? = some (some u) → yi ≤ u := by
  have inv : ∀ (n : ℕ) (z y : List α), (∀ v ∈ z, 0 ≤ v) → z.length = comps.length →
      (∀ k, k ≠ 0 → EqSolve.compositionConc comps z k = EqSolve.compositionConc comps c0 k) →
      eulerIter keys comps rs n z = .ok y →
      (∀ v ∈ y, 0 ≤ v) ∧ y.length = comps.length ∧
        (∀ k, k ≠ 0 → EqSolve.compositionConc comps y k = EqSolve.compositionConc comps c0 k) := by
    intro n
    induction n with
    | zero =>
      intro z y hz hzl hzt hr
      simp only [eulerIter, Except.ok.injEq] at hr
      subst hr
      exact ⟨hz, hzl, hzt⟩
    | succ n ih =>
      intro z y hz hzl hzt hr
      simp only [eulerIter] at hr
      cases hh : maxEulerStepCb keys comps rs z with
      | error e => rw [hh] at hr; simp at hr
      | ok h =>
        rw [hh] at hr
        simp only at hr
        cases hf : fvec keys rs z with
        | error e => rw [hf] at hr; simp at hr
        | ok f =>
          rw [hf] at hr
          simp only at hr
          obtain ⟨ub, f', _, hf', _, _, hbox⟩ := euler_step_cb_safe keys comps rs z h hh hz hc
          rw [hf] at hf'
          cases hf'
          have hfl : z.length = f.length := by rw [fvec_ok hf]; simp [hzl, hkl]
          apply ih (eulerNext z h f) y
          · intro v hv
            obtain ⟨j, hj, rfl⟩ := List.mem_iff_getElem.mp hv
            have hj' := List.getElem?_eq_getElem hj
            rw [eulerNext_getElem?] at hj'
            cases hyj : z[j]? with
            | none => rw [hyj] at hj'; simp at hj'
            | some yj =>
              cases hfj : f[j]? with
              | none => rw [hyj, hfj] at hj'; simp at hj'
              | some fj =>
                rw [hyj, hfj] at hj'
                simp only [Option.some.injEq] at hj'
                rw [← hj']
                exact (hbox j yj fj hyj hfj).1
          · rw [eulerNext_length z f h hfl, hzl]
          · intro k hk
            rw [euler_update_keeps_totals keys comps rs z f h hav hkl hzl hnd hf k hk, hzt k hk]
          · exact hr
  obtain ⟨hy, hyl, hyt⟩ := inv n c0 y hc0 hl0 (fun _ _ => rfl) hrun
  refine ⟨hy, hyl, hyt, ?_⟩
  intro ub0 hub0 i yi u hyi hu
  have hil : i < comps.length := by
    have := (List.getElem?_eq_some_iff.mp hyi).1
    omega
  have hv := upper_bound_valid comps c0 y ub0 hub0 hyl hy
    (fun comp hcomp p hp hk => (hc comp hcomp p hp hk).le) hyt i hil u hu
    (fun p hp hk => hc _ (List.getElem_mem _) p hp hk)
  have : y[i]'(hyl ▸ hil) = yi := (List.getElem?_eq_some_iff.mp hyi).2
  rw [← this]
  exact hv

end Conservation

/-! ## rescaled variables (pyodesys `ScaledSys`, `dep_scaling = s`, `indep_scaling = τ`): what the correspondence relies on -/
section Scaled
variable {α : Type} [Field α] [LinearOrder α] [IsStrictOrderedRing α] {σ : Type} [DecidableEq σ]

/-- **ScaledSys = the plain system with `k_int = k·s^(1−n)/τ` at the state `s·y`** (rates): in the variables `y_int = s·y`,
    `t_int = τ·t` the mass-action right-hand side of the reactions with rescaled constants (`scaleRxn`: `k·(s/s^n)/τ`, `n` = order)
    is `s/τ` times the original one — for every system, every concentration function, every substance. -/
theorem scaled_rates (s τ : α) (hs : s ≠ 0) (c : σ → α) (rs : List (Reaction σ α)) (keys? : Option (List σ)) (x : σ) :
    valueAt (sysRates (fun y => s * c y) (rs.map (scaleRxn s τ)) keys? none) x = s / τ * valueAt (sysRates c rs keys? none) x :=
  sysRates_scaled s τ hs c rs keys? x

/-- **… and so is the derivative vector the callback evaluates** (`fvec`, incl. its refusals): `fvec` of the rescaled reactions
    at `s·y` is `(s/τ)·fvec` of the original ones at `y`, and fails exactly when that fails. -/
theorem scaled_fvec (s τ : α) (hs : s ≠ 0) (keys : List σ) (rs : List (Reaction σ α)) (y : List α) :
    fvec keys (rs.map (scaleRxn s τ)) (y.map (s * ·)) = (fvec keys rs y).map (List.map (s / τ * ·)) :=
  fvec_scaled s τ hs keys rs y

/-- **… and the loop of `max_euler_step_cb` is homogeneous**: at `s·y`, bounds `s·ub`, derivative `(s/τ)·f` every step limit and
    their minimum are `τ` times those at `(y, ub, f)`; the callback then returns `capAtOne (τ·min_h)`. -/
theorem scaled_step (s τ : α) (hs : 0 < s) (hτ : 0 < τ) (y : List α) (ub : List (Option α)) (f : List α) :
    minEulerStep (y.map (s * ·)) (ub.map (Option.map (s * ·))) (f.map (s / τ * ·)) = (minEulerStep y ub f).map (Option.map (τ * ·)) ∧
    maxEulerStep (y.map (s * ·)) (ub.map (Option.map (s * ·))) (f.map (s / τ * ·)) =
      (minEulerStep y ub f).map (fun m => capAtOne (m.map (τ * ·))) ∧
    maxEulerStep y ub f = (minEulerStep y ub f).map capAtOne := by
  refine ⟨minEulerStep_scaled s τ hs hτ y ub f, ?_, maxEulerStep_eq_cap y ub f⟩
  rw [maxEulerStep_eq_cap, minEulerStep_scaled s τ hs hτ]
  cases minEulerStep y ub f <;> rfl

/-- **the user-scale reading the oracle uses**: the step returned for the rescaled system, divided by `τ`, is `min(min_h, 1/τ)` —
    "returned/τ, cap 1/τ" (`indep_scaling = τ`): the uncapped safe step of the ORIGINAL system, capped at `1/τ` user time units. -/
theorem scaled_step_user_scale (s τ : α) (hs : 0 < s) (hτ : 0 < τ) (y : List α) (ub : List (Option α)) (f : List α)
    (m : Option α) (h' : α) (hm : minEulerStep y ub f = .ok m)
    (hrun : maxEulerStep (y.map (s * ·)) (ub.map (Option.map (s * ·))) (f.map (s / τ * ·)) = .ok h') :
    h' / τ = match m with
      | none => 1 / τ
      | some v => if 1 / τ < v then 1 / τ else v := by
  rw [(scaled_step s τ hs hτ y ub f).2.1, hm] at hrun
  simp only [Except.map, Except.ok.injEq] at hrun
  subst hrun
  cases m with
  | none => simp [capAtOne]
  | some v =>
    simp only [Option.map_some, capAtOne, Nat.cast_one]
    by_cases h : 1 < τ * v
    · have : 1 / τ < v := by rw [div_lt_iff₀ hτ]; linarith [mul_comm τ v]
      rw [if_pos h, if_pos this]
    · have : ¬ 1 / τ < v := by rw [div_lt_iff₀ hτ]; intro h'; exact h (by linarith [mul_comm τ v])
      rw [if_neg h, if_neg this]
      field_simp

/-- non-vacuity: `A + B ⇌ P` at (1, 3/8, 1/8): `min_h = 6/17`; with `dep_scaling = 1024`, `indep_scaling = 16` the callback is capped -/
example : minEulerStep [(1 : ℚ), 3 / 8, 1 / 8] [some (9 / 8), some (1 / 2), some (1 / 2)] [-17 / 16, -17 / 16, 17 / 16] = .ok (some (6 / 17)) ∧
    maxEulerStep ([(1 : ℚ), 3 / 8, 1 / 8].map (1024 * ·)) ([some (9 / 8), some (1 / 2), some (1 / 2)].map (Option.map ((1024 : ℚ) * ·)))
      ([(-17 / 16 : ℚ), -17 / 16, 17 / 16].map (1024 / 16 * ·)) = .ok 1 := by decide +kernel
end Scaled

/-! ## the generated right-hand side: quasi-positivity -/
section Rhs
variable {σ : Type} [DecidableEq σ] {R : Type} [CommRing R] [LinearOrder R] [IsStrictOrderedRing R]

/-- **quasi_positive.**  For EVERY mass-action system with non-negative rate constants, every non-negative concentration
    function `c` and every substance `s` that is absent (`c s = 0`): `rates(c)[s] ≥ 0` — the vector field never points out
    of the non-negative orthant, which is why exact solutions stay non-negative.
    The hypothesis the code needs (`hact`): every reaction that consumes `s` net has `s` among its ACTIVE reactants with
    a positive order.  It fails only for a net consumption through `inact_reac` (zeroth order in `s`), see the witness. -/
theorem quasi_positive (c : σ → R) (rs : List (Reaction σ R)) (keys? : Option (List σ)) (s : σ)
    (hk : ∀ r ∈ rs, 0 ≤ r.param) (hc : ∀ x, 0 ≤ c x) (hs : c s = 0)
    (hact : ∀ r ∈ rs, netStoich r s < 0 → 0 < coef r.reac s) :
    0 ≤ valueAt (sysRates c rs keys? none) s := by
  simp only [sysRates]
  rw [valueAt_sysRatesNoFeed]
  apply List.sum_nonneg
  intro x hx
  obtain ⟨r, hr, rfl⟩ := List.mem_map.mp hx
  rw [valueAt_rxnRate]
  split_ifs
  · exact contribution_nonneg c r s (hk r hr) hc hs (hact r hr)
  · exact le_refl _

/-- the hypothesis of `quasi_positive` is automatic when nothing is consumed through the inactive dictionaries -/
theorem quasi_positive_of_no_inactive_reactants (c : σ → R) (rs : List (Reaction σ R)) (keys? : Option (List σ)) (s : σ)
    (hk : ∀ r ∈ rs, 0 ≤ r.param) (hc : ∀ x, 0 ≤ c x) (hs : c s = 0)
    (hin : ∀ r ∈ rs, coef r.inactReac s = 0) :
    0 ≤ valueAt (sysRates c rs keys? none) s := by
  apply quasi_positive c rs keys? s hk hc hs
  intro r hr hn
  have := hin r hr
  unfold netStoich at hn
  omega

/-- **quasi_positive with a feed** (`rates(..., cstr_fr_fc=…)`, the right-hand side of `get_odesys(rsys, cstr=True)`): with a
    non-negative feed ratio and non-negative feed concentrations (they are entries of the same variables function `c`) the
    stirred-tank term `F·(c_feed s − c s)` only adds `F·c_feed s ≥ 0` on the face `c s = 0`. -/
theorem quasi_positive_cstr (c : σ → R) (rs : List (Reaction σ R)) (keys? : Option (List σ)) (cs : Cstr σ) (s : σ)
    (hk : ∀ r ∈ rs, 0 ≤ r.param) (hc : ∀ x, 0 ≤ c x) (hs : c s = 0)
    (hact : ∀ r ∈ rs, netStoich r s < 0 → 0 < coef r.reac s) (hnd : (dkeys cs.fc).Nodup) :
    0 ≤ valueAt (sysRates c rs keys? (some cs)) s := by
  have h0 := quasi_positive c rs keys? s hk hc hs hact
  simp only [sysRates] at h0 ⊢
  rw [valueAt_addFeed c _ cs hnd s]
  apply add_nonneg h0
  unfold feedTerm
  cases dget? cs.fc s with
  | none => exact le_refl _
  | some fck =>
    simp only [hs, sub_zero]
    exact mul_nonneg (hc _) (hc _)

/-- **outside the hypothesis the claim is false**: `A + (C) → B` (written `"A + (C) -> B; 1/2"`, `C` an inactive reactant)
    consumes `C` at the rate `k·[A]` also when no `C` is left; at `c = (A: 1, B: 0, C: 0)` the generated right-hand side
    for `C` is `−1/2 < 0`, and the integrated concentration of `C` becomes negative (harness corpus case `inactive-reactant`). -/
theorem quasi_positive_inactive_reactant_witness :
    valueAt (sysRates (fun s => if s = "A" then (1 : ℚ) else 0)
      [{ reac := [("A", 1)], prod := [("B", 1)], inactReac := [("C", 1)], param := 1 / 2 }] none none) "C" = -1 / 2 := by
  decide +kernel

end Rhs

/-! ## first-order networks are linear -/
section Linear
variable {σ : Type} [DecidableEq σ] {R : Type} [CommRing R]

/-- **first_order_is_linear.**  If every reaction has exactly one active reactant, of order one (`reac == {j: 1}`; products
    and inactive parts arbitrary), the generated right-hand side is LINEAR: `rates(c)[s] = Σ_j M[s][j]·c[j]` for every `c`
    in any commutative ring, where `M[s][j] = firstOrderEntry rs s j = Σ_{r : reac r = {j: 1}} net r s · k_r` is the entry of
    the executable `firstOrderMatrix` (lemma `firstOrderEntry_eq_explicit`) that the driver prints and the harness
    exponentiates. -/
theorem first_order_is_linear (keys : List σ) (hnd : keys.Nodup) (rs : List (Reaction σ R))
    (hfo : ∀ r ∈ rs, ∃ j, j ∈ keys ∧ r.reac = [(j, 1)])
    (c : σ → R) (keys? : Option (List σ)) (s : σ) (hs : ∀ ks, keys? = some ks → s ∈ ks) :
    valueAt (sysRates c rs keys? none) s = (keys.map fun j => firstOrderEntry rs s j * c j).sum := by
  simp only [sysRates]
  rw [valueAt_sysRatesNoFeed_contribution c rs keys? s hs, sum_contribution_eq_matVec keys hnd c s rs hfo,
    matVecEntry_eq_sum]

/-- **off-diagonal entries are non-negative** (`M` is a Metzler matrix — `exp(M t)` maps the non-negative orthant into
    itself) for non-negative rate constants, under the same hypothesis as `quasi_positive`. -/
theorem first_order_offdiag_nonneg [LinearOrder R] [IsStrictOrderedRing R] (rs : List (Reaction σ R)) (s j : σ) (hsj : s ≠ j)
    (hk : ∀ r ∈ rs, 0 ≤ r.param) (hact : ∀ r ∈ rs, netStoich r s < 0 → 0 < coef r.reac s) :
    0 ≤ firstOrderEntry rs s j := by
  rw [firstOrderEntry_eq_sum]
  apply List.sum_nonneg
  intro x hx
  obtain ⟨r, hr, rfl⟩ := List.mem_map.mp hx
  split_ifs with h
  · have hreac := firstOrderReactant_eq_some h
    have hn : ¬ netStoich r s < 0 := by
      intro hn
      have := hact r hr hn
      rw [hreac] at this
      simp [coef, dgetD, dget?, Ne.symm hsj] at this
    have h1 : (0 : R) ≤ ((netStoich r s : ℤ) : R) := by exact_mod_cast not_lt.mp hn
    exact mul_nonneg h1 (hk r hr)
  · exact le_refl _

/-- **conserved rows annihilate `M`** (with C05): for an accepted (balanced) system every composition row `B_key` — each
    element and the charge — satisfies `Σ_s B_key[s]·M[s][j] = 0` for every column `j`; hence `B·exp(M t)·c₀ = B·c₀`. -/
theorem first_order_conserved_rows_annihilate {A : Type} [CommRing A] [DecidableEq A] (φ : A →+* R)
    (subs : Substances σ A) (rs : List (Reaction σ R))
    (hall : ∀ sc ∈ subs, ∃ comp, sc.2 = some comp) (hne : subs ≠ [])
    (hacc : checkBalance subs rs false = .ok) (key : ℤ) (j : σ) :
    (subs.map fun sc => φ (compAt sc key) * firstOrderEntry rs sc.1 j).sum = 0 := by
  have hbal := (C05.accept_iff_balanced subs rs false hall (Or.inl hne)).mp hacc
  have hsum : ∀ (l : List (Reaction σ R)), (∀ r ∈ l, r ∈ rs) →
      (subs.map fun sc => φ (compAt sc key) * firstOrderEntry l sc.1 j).sum = 0 := by
    intro l
    induction l with
    | nil => intro _; simp [firstOrderEntry_eq_sum]
    | cons r t ih =>
      intro hl
      have iht := ih (fun r' hr' => hl r' (List.mem_cons_of_mem _ hr'))
      simp only [firstOrderEntry_eq_sum, List.map_cons, List.sum_cons, mul_add, List.sum_map_add] at iht ⊢
      rw [iht, add_zero]
      by_cases h : firstOrderReactant r = some j
      · simp only [if_pos h]
        have hz : (subs.map fun sc => compAt sc key * ((netStoich r sc.1 : ℤ) : A)).sum = 0 :=
          hbal r (hl r List.mem_cons_self) key
        have : (subs.map fun sc => φ (compAt sc key) * (((netStoich r sc.1 : ℤ) : R) * r.param)) =
            subs.map fun sc => r.param * φ (compAt sc key * ((netStoich r sc.1 : ℤ) : A)) := by
          apply List.map_congr_left
          intro sc _
          simp only [map_mul, map_intCast]
          ring
        have h2 : (subs.map fun sc => φ (compAt sc key * ((netStoich r sc.1 : ℤ) : A))).sum =
            φ ((subs.map fun sc => compAt sc key * ((netStoich r sc.1 : ℤ) : A)).sum) := by
          rw [map_list_sum, List.map_map]
          rfl
        rw [this, List.sum_map_mul_left, h2, hz]
        simp
      · simp [if_neg h]
  exact hsum rs (fun r hr => hr)

end Linear

/-! ## the closed forms solve the generated system (single bimolecular step) -/
section Bimolecular
open ChemModel.Gen
variable {σ : Type} [DecidableEq σ]

/-- **`binary_irrev` solves the system chempy generates for `A + B → P`.**  For three distinct substances, `0 < kf`,
    `0 < minor < major` and every `t ≥ 0`: with `y(t) = binary_irrev(t, kf, prod, major, minor)` the concentrations
    `[A] = major − (y − prod)`, `[B] = minor − (y − prod)`, `[P] = y` have, for EVERY substance `s`, the time derivative
    `rates([A],[B],[P])[s]` of the generated right-hand side (C17's `binary_irrev_ode` composed with C03's rate closed form),
    and they start at `(major, minor, prod)`. -/
theorem binary_irrev_solves_system (a b p : σ) (hab : a ≠ b) (hap : a ≠ p) (hbp : b ≠ p)
    (kf prod major minor t : ℝ) (hkf : 0 < kf) (hminor : 0 < minor) (hlt : minor < major) (ht : 0 ≤ t) (s : σ) :
    HasDerivAt (fun τ => binaryState a b p major minor prod (binaryIrrev τ kf prod major minor) s)
      (valueAt (sysRates (binaryState a b p major minor prod (binaryIrrev t kf prod major minor))
        (binaryIrrevSys a b p kf) none none) s) t ∧
    binaryState a b p major minor prod (binaryIrrev 0 kf prod major minor) a = major ∧
    binaryState a b p major minor prod (binaryIrrev 0 kf prod major minor) b = minor ∧
    binaryState a b p major minor prod (binaryIrrev 0 kf prod major minor) p = prod := by
  have hode := C17.binary_irrev_ode t kf prod major minor hkf hminor hlt ht
  have h0 := C17.binary_irrev_init kf prod major minor hminor.ne' (ne_of_gt hlt)
  refine ⟨?_, ?_, ?_, ?_⟩
  · refine (binaryState_hasDerivAt a b p hab hap hbp major minor prod _ _ t hode s).congr_deriv ?_
    rw [rhs_binaryIrrevSys a b p hab hap hbp]
    have ha : binaryState a b p major minor prod (binaryIrrev t kf prod major minor) a
        = major - (binaryIrrev t kf prod major minor - prod) := by simp [binaryState]
    have hb : binaryState a b p major minor prod (binaryIrrev t kf prod major minor) b
        = minor - (binaryIrrev t kf prod major minor - prod) := by simp [binaryState, hab.symm]
    rw [ha, hb]
    split_ifs <;> ring
  · simp [binaryState, h0]
  · simp [binaryState, h0, hab.symm]
  · simp [binaryState, h0, hap.symm, hbp.symm]

/-- **`binary_rev` solves the system chempy generates for `A + B ⇌ P`** (`A + B → P ; kf`, `P → A + B ; kb`), positive
    rate constants, non-negative initial concentrations, every `t ≥ 0`, every substance `s`. -/
theorem binary_rev_solves_system (a b p : σ) (hab : a ≠ b) (hap : a ≠ p) (hbp : b ≠ p)
    (kf kb prod major minor t : ℝ) (hkf : 0 < kf) (hkb : 0 < kb) (hprod : 0 ≤ prod) (hmajor : 0 ≤ major)
    (hminor : 0 ≤ minor) (ht : 0 ≤ t) (s : σ) :
    HasDerivAt (fun τ => binaryState a b p major minor prod (binaryRev τ kf kb prod major minor) s)
      (valueAt (sysRates (binaryState a b p major minor prod (binaryRev t kf kb prod major minor))
        (binaryRevSys a b p kf kb) none none) s) t ∧
    binaryState a b p major minor prod (binaryRev 0 kf kb prod major minor) a = major ∧
    binaryState a b p major minor prod (binaryRev 0 kf kb prod major minor) b = minor ∧
    binaryState a b p major minor prod (binaryRev 0 kf kb prod major minor) p = prod := by
  have hode := C17.binary_rev_ode t kf kb prod major minor hkf hkb hprod hmajor hminor ht
  have h0 := C17.binary_rev_init kf kb prod major minor hkf hkb hprod hmajor hminor
  refine ⟨?_, ?_, ?_, ?_⟩
  · refine (binaryState_hasDerivAt a b p hab hap hbp major minor prod _ _ t hode s).congr_deriv ?_
    rw [rhs_binaryRevSys a b p hab hap hbp]
    have ha : binaryState a b p major minor prod (binaryRev t kf kb prod major minor) a
        = major - (binaryRev t kf kb prod major minor - prod) := by simp [binaryState]
    have hb : binaryState a b p major minor prod (binaryRev t kf kb prod major minor) b
        = minor - (binaryRev t kf kb prod major minor - prod) := by simp [binaryState, hab.symm]
    have hp : binaryState a b p major minor prod (binaryRev t kf kb prod major minor) p
        = binaryRev t kf kb prod major minor := by simp [binaryState, hap.symm, hbp.symm]
    rw [ha, hb, hp]
    split_ifs <;> ring
  · simp [binaryState, h0]
  · simp [binaryState, h0, hab.symm]
  · simp [binaryState, h0, hap.symm, hbp.symm]

/-- **equal initial concentrations `[A]₀ = [B]₀ = c₀`** — inside the property's quantifier, but `binary_irrev` is `0/0` there
    (C17 `binary_irrev_init` needs `major ≠ minor`).  The solution is the dimerisation law with `kf/2`:
    `[A] = [B] = dimerization_irrev(t, kf/2, c₀) = 1/(1/c₀ + kf·t)`, `[P] = prod + c₀ − [A]`; it solves the system chempy
    generates for `A + B → P` for every substance `s`, every `t ≥ 0`. -/
theorem binary_irrev_equal_solves_system (a b p : σ) (hab : a ≠ b) (hap : a ≠ p) (hbp : b ≠ p)
    (kf prod c0 t : ℝ) (hkf : 0 < kf) (hc0 : 0 < c0) (ht : 0 ≤ t) (s : σ) :
    HasDerivAt (fun τ => binaryState a b p c0 c0 prod (prod + c0 - dimerizationIrrev τ (kf / 2) c0 0) s)
      (valueAt (sysRates (binaryState a b p c0 c0 prod (prod + c0 - dimerizationIrrev t (kf / 2) c0 0))
        (binaryIrrevSys a b p kf) none none) s) t ∧
    (∀ τ, binaryState a b p c0 c0 prod (prod + c0 - dimerizationIrrev τ (kf / 2) c0 0) a = dimerizationIrrev τ (kf / 2) c0 0) ∧
    dimerizationIrrev t (kf / 2) c0 0 = 1 / (1 / c0 + kf * t) ∧
    dimerizationIrrev 0 (kf / 2) c0 0 = c0 := by
  have hode := C17.dimerization_ode t (kf / 2) c0 0 (by positivity) hc0 ht
  have hy : HasDerivAt (fun τ => prod + c0 - dimerizationIrrev τ (kf / 2) c0 0)
      (-(-2 * (kf / 2) * (dimerizationIrrev t (kf / 2) c0 0) ^ 2)) t := hode.const_sub (prod + c0)
  refine ⟨?_, ?_, ?_, ?_⟩
  · refine (binaryState_hasDerivAt a b p hab hap hbp c0 c0 prod _ _ t hy s).congr_deriv ?_
    rw [rhs_binaryIrrevSys a b p hab hap hbp]
    have ha : binaryState a b p c0 c0 prod (prod + c0 - dimerizationIrrev t (kf / 2) c0 0) a
        = dimerizationIrrev t (kf / 2) c0 0 := by simp [binaryState]; ring
    have hb : binaryState a b p c0 c0 prod (prod + c0 - dimerizationIrrev t (kf / 2) c0 0) b
        = dimerizationIrrev t (kf / 2) c0 0 := by simp [binaryState, hab.symm]; ring
    rw [ha, hb]
    split_ifs <;> ring
  · intro τ; simp [binaryState]; ring
  · simp only [dimerizationIrrev, Nat.cast_one, Nat.cast_ofNat]
    have : 2 * (kf / 2) * (t - 0) = kf * t := by ring
    rw [this]
  · exact C17.dimerization_init (kf / 2) c0 0 hc0.ne'

/-- **`dimerization_irrev` solves the system chempy generates for `2 A → P`**: `[A] = dimerization_irrev(t, kf, c₀)`,
    `[P] = p₀ + (c₀ − [A])/2` have the derivatives `rates([A],[P])[s]` (`−2·kf·[A]²`, `kf·[A]²`, `0`) and start at `(c₀, p₀)`. -/
theorem dimer_solves_system (a p : σ) (hap : a ≠ p) (kf p0 c0 t : ℝ) (hkf : 0 < kf) (hc0 : 0 < c0) (ht : 0 ≤ t) (s : σ) :
    let A := fun τ => dimerizationIrrev τ kf c0 0
    let c := fun τ (x : σ) => if x = a then A τ else if x = p then p0 + (c0 - A τ) / 2 else 0
    HasDerivAt (fun τ => c τ s) (valueAt (sysRates (c t) (dimerSys a p kf) none none) s) t ∧ c 0 a = c0 ∧ c 0 p = p0 := by
  intro A c
  have hode : HasDerivAt A (-2 * kf * (A t) ^ 2) t := C17.dimerization_ode t kf c0 0 hkf hc0 ht
  have h0 : A 0 = c0 := C17.dimerization_init kf c0 0 hc0.ne'
  have hpa := hap.symm
  refine ⟨?_, ?_, ?_⟩
  · have hr : valueAt (sysRates (c t) (dimerSys a p kf) none none) s =
        if s = a then -2 * kf * (A t) ^ 2 else if s = p then kf * (A t) ^ 2 else 0 := by
      simp only [sysRates]
      rw [valueAt_sysRatesNoFeed_contribution (c t) _ none s (by intro ks h; cases h)]
      by_cases h1 : s = a
      · subst h1
        simp [dimerSys, contribution, coef, dgetD, dget?, concProd, hap, hpa, c]
        ring
      · by_cases h2 : s = p
        · subst h2
          simp [dimerSys, contribution, coef, dgetD, dget?, concProd, hap, hpa, h1, c]
        · have e1 : ¬ a = s := fun e => h1 e.symm
          have e2 : ¬ p = s := fun e => h2 e.symm
          simp [dimerSys, contribution, coef, dgetD, dget?, h1, h2, e1, e2]
    rw [hr]
    by_cases h1 : s = a
    · subst h1
      simp only [c, if_true]
      exact hode
    · by_cases h2 : s = p
      · subst h2
        simp only [c, if_neg h1, if_true]
        exact (((hode.const_sub c0).div_const 2).const_add p0).congr_deriv (by ring)
      · simp only [c, if_neg h1, if_neg h2]
        exact hasDerivAt_const t (0 : ℝ)
  · simp [c, h0]
  · simp [c, hpa, h0]

end Bimolecular

/-! ## the hypotheses are satisfiable: `X2 → 2 X1`, `X3 → X1 + X2`, `X3 ⇌ X3b` (one element, sizes 1, 2, 3, 3) -/

def exKeys : List String := ["X1", "X2", "X3", "X3b"]
def exComps : List (EqSolve.Comp ℚ) := [[(1, 1)], [(1, 2)], [(1, 3)], [(1, 3)]]
def exRxns : List (Reaction String ℚ) :=
  [{ reac := [("X2", 1)], prod := [("X1", 2)], param := 1 / 2 },
   { reac := [("X3", 1)], prod := [("X1", 1), ("X2", 1)], param := 2000 },
   { reac := [("X3", 1)], prod := [("X3b", 1)], param := 1 },
   { reac := [("X3b", 1)], prod := [("X3", 1)], param := 1 / 4 }]

example : callbackAvailable exKeys exComps exRxns = true := by decide +kernel
example : EqSolve.upperConcBounds exComps [1 / 2, 1, 2, 0] = .ok [some (17 / 2), some (17 / 4), some (17 / 6), some (17 / 6)] := by
  decide +kernel
example : fvec exKeys exRxns [1 / 2, 1, 2, 0] = .ok [4001, 7999 / 2, -4002, 2] := by decide +kernel
/-- the stiff reaction limits the step: `h = 2 / 4002` -/
example : maxEulerStepCb exKeys exComps exRxns [1 / 2, 1, 2, 0] = .ok (1 / 2001) := by decide +kernel
/-- slow dynamics: the cap `1` is returned -/
example : maxEulerStepCb exKeys exComps exRxns [1 / 2, 1, 0, 0] = .ok 1 := by decide +kernel
example : firstOrderMatrix exKeys exRxns =
    [[0, 1, 2000, 0], [0, -1 / 2, 2000, 0], [0, 0, -2001, 1 / 4], [0, 0, 1, -1 / 4]] := by decide +kernel
/-- stirred tank: feed ratio 1/2, feed of X1 = 2: `f = rates + F·(c_feed − c)`; the feed of X3b makes its derivative positive -/
example : fvecCstr exKeys exRxns ⟨"feedratio", [("X1", "fc_X1"), ("X2", "fc_X2"), ("X3", "fc_X3"), ("X3b", "fc_X3b")]⟩
    [("feedratio", 1 / 2), ("fc_X1", 2), ("fc_X2", 0), ("fc_X3", 0), ("fc_X3b", 1)] [1 / 2, 1, 0, 0] = .ok [7 / 4, -1, 0, 1 / 2] := by
  decide +kernel
example : maxEulerStepCbCstr exKeys exComps exRxns ⟨"feedratio", [("X1", "fc_X1"), ("X2", "fc_X2"), ("X3", "fc_X3"), ("X3b", "fc_X3b")]⟩
    [("feedratio", 1 / 2), ("fc_X1", 2), ("fc_X2", 0), ("fc_X3", 0), ("fc_X3b", 1)] [1 / 2, 1, 0, 0] = .ok 1 := by decide +kernel
/-- three advertised steps from (1/2, 1, 2, 0): still non-negative, 17/2 hydrogen units in total -/
example : eulerIter exKeys exComps exRxns 3 [1 / 2, 1, 2, 0] = .ok [88043003 / 16010001, 96011999 / 64040004, 0, 12002 / 16010001] := by decide +kernel
/-- an unbalanced system gets no callback (`extra['max_euler_step_cb'] is None`) -/
example : callbackAvailable ["X1", "X2"] [[(1, 1)], [(1, 2)]]
    [({ reac := [("X2", 1)], prod := [("X1", 1)], param := 1 } : Reaction String ℚ)] = false := by decide +kernel

end ChemModel.C06
