/-
C14 — molar mass is the composition-weighted sum of standard atomic weights.

Property theorems only (helper lemmas live in Proofs/Periodic.lean).
`refTable` is the reference IUPAC table (symbol, name, standard atomic weight in 10⁻⁹ u;
conventional values for interval elements, mass number of the longest-lived isotope for
elements without a standard weight) — part of the specification, transcribed once and
reviewed; it is NOT regenerated from the repository.
-/
import ChemModel.Proofs.Periodic

namespace ChemModel.C14
open ChemModel.Periodic ChemModel.Gen

def refTable : List (String × String × Nat) := [
  ("H", "Hydrogen", 1008000000),
  ("He", "Helium", 4002602000),
  ("Li", "Lithium", 6940000000),
  ("Be", "Beryllium", 9012183100),
  ("B", "Boron", 10810000000),
  ("C", "Carbon", 12011000000),
  ("N", "Nitrogen", 14007000000),
  ("O", "Oxygen", 15999000000),
  ("F", "Fluorine", 18998403163),
  ("Ne", "Neon", 20179700000),
  ("Na", "Sodium", 22989769280),
  ("Mg", "Magnesium", 24305000000),
  ("Al", "Aluminium", 26981538400),
  ("Si", "Silicon", 28085000000),
  ("P", "Phosphorus", 30973761998),
  ("S", "Sulfur", 32060000000),
  ("Cl", "Chlorine", 35450000000),
  ("Ar", "Argon", 39950000000),
  ("K", "Potassium", 39098300000),
  ("Ca", "Calcium", 40078000000),
  ("Sc", "Scandium", 44955908000),
  ("Ti", "Titanium", 47867000000),
  ("V", "Vanadium", 50941500000),
  ("Cr", "Chromium", 51996100000),
  ("Mn", "Manganese", 54938043000),
  ("Fe", "Iron", 55845000000),
  ("Co", "Cobalt", 58933194000),
  ("Ni", "Nickel", 58693400000),
  ("Cu", "Copper", 63546000000),
  ("Zn", "Zinc", 65380000000),
  ("Ga", "Gallium", 69723000000),
  ("Ge", "Germanium", 72630000000),
  ("As", "Arsenic", 74921595000),
  ("Se", "Selenium", 78971000000),
  ("Br", "Bromine", 79904000000),
  ("Kr", "Krypton", 83798000000),
  ("Rb", "Rubidium", 85467800000),
  ("Sr", "Strontium", 87620000000),
  ("Y", "Yttrium", 88905840000),
  ("Zr", "Zirconium", 91224000000),
  ("Nb", "Niobium", 92906370000),
  ("Mo", "Molybdenum", 95950000000),
  ("Tc", "Technetium", 98000000000),
  ("Ru", "Ruthenium", 101070000000),
  ("Rh", "Rhodium", 102905490000),
  ("Pd", "Palladium", 106420000000),
  ("Ag", "Silver", 107868200000),
  ("Cd", "Cadmium", 112414000000),
  ("In", "Indium", 114818000000),
  ("Sn", "Tin", 118710000000),
  ("Sb", "Antimony", 121760000000),
  ("Te", "Tellurium", 127600000000),
  ("I", "Iodine", 126904470000),
  ("Xe", "Xenon", 131293000000),
  ("Cs", "Caesium", 132905451960),
  ("Ba", "Barium", 137327000000),
  ("La", "Lanthanum", 138905470000),
  ("Ce", "Cerium", 140116000000),
  ("Pr", "Praseodymium", 140907660000),
  ("Nd", "Neodymium", 144242000000),
  ("Pm", "Promethium", 145000000000),
  ("Sm", "Samarium", 150360000000),
  ("Eu", "Europium", 151964000000),
  ("Gd", "Gadolinium", 157250000000),
  ("Tb", "Terbium", 158925354000),
  ("Dy", "Dysprosium", 162500000000),
  ("Ho", "Holmium", 164930328000),
  ("Er", "Erbium", 167259000000),
  ("Tm", "Thulium", 168934218000),
  ("Yb", "Ytterbium", 173045000000),
  ("Lu", "Lutetium", 174966800000),
  ("Hf", "Hafnium", 178486000000),
  ("Ta", "Tantalum", 180947880000),
  ("W", "Tungsten", 183840000000),
  ("Re", "Rhenium", 186207000000),
  ("Os", "Osmium", 190230000000),
  ("Ir", "Iridium", 192217000000),
  ("Pt", "Platinum", 195084000000),
  ("Au", "Gold", 196966570000),
  ("Hg", "Mercury", 200592000000),
  ("Tl", "Thallium", 204380000000),
  ("Pb", "Lead", 207200000000),
  ("Bi", "Bismuth", 208980400000),
  ("Po", "Polonium", 209000000000),
  ("At", "Astatine", 210000000000),
  ("Rn", "Radon", 222000000000),
  ("Fr", "Francium", 223000000000),
  ("Ra", "Radium", 226000000000),
  ("Ac", "Actinium", 227000000000),
  ("Th", "Thorium", 232037700000),
  ("Pa", "Protactinium", 231035880000),
  ("U", "Uranium", 238028910000),
  ("Np", "Neptunium", 237000000000),
  ("Pu", "Plutonium", 244000000000),
  ("Am", "Americium", 243000000000),
  ("Cm", "Curium", 247000000000),
  ("Bk", "Berkelium", 247000000000),
  ("Cf", "Californium", 251000000000),
  ("Es", "Einsteinium", 252000000000),
  ("Fm", "Fermium", 257000000000),
  ("Md", "Mendelevium", 258000000000),
  ("No", "Nobelium", 259000000000),
  ("Lr", "Lawrencium", 266000000000),
  ("Rf", "Rutherfordium", 267000000000),
  ("Db", "Dubnium", 268000000000),
  ("Sg", "Seaborgium", 269000000000),
  ("Bh", "Bohrium", 270000000000),
  ("Hs", "Hassium", 271000000000),
  ("Mt", "Meitnerium", 278000000000),
  ("Ds", "Darmstadtium", 281000000000),
  ("Rg", "Roentgenium", 282000000000),
  ("Cn", "Copernicium", 285000000000),
  ("Nh", "Nihonium", 286000000000),
  ("Fl", "Flerovium", 289000000000),
  ("Mc", "Moscovium", 290000000000),
  ("Lv", "Livermorium", 293000000000),
  ("Ts", "Tennessine", 294000000000),
  ("Og", "Oganesson", 294000000000)
]

def refWeight (i : Nat) : Option Rat := (refTable[i]?).map fun r => (r.2.2 : Rat) / 1000000000

/-- The extracted symbols, names and weights are the IUPAC table, row by row (atomic number = row + 1). -/
theorem table_is_iupac :
    symbols = refTable.map (·.1) ∧ names = refTable.map (·.2.1) ∧
    (List.range 118).map (fun i => weight? (i + 1)) = (List.range 118).map refWeight ∧
    symbols.length = 118 := by
  refine ⟨by decide +kernel, by decide +kernel, by decide +kernel, by decide +kernel⟩

/-- the electron mass used for the charge term, in u (CODATA: 5.48579909e-4; chempy rounds to 4 digits) -/
theorem electron_mass_value : electronMass = 5489 / 10000000 := by
  decide +kernel

/-- `mass_from_composition` = Σ count·weight − charge·mₑ, entry by entry (unbounded composition). -/
theorem mass_spec (c : Comp) : massFromComposition c = massSum c := massFromComposition_eq_sum c

/-- it refuses (IndexError) exactly when some key lies outside 0..118 -/
theorem mass_defined_iff (c : Comp) :
    (massFromComposition c).isSome ↔ ∀ p ∈ c, p.1 ≤ 118 := mass_isSome_iff c

/-- additive over parts: the mass of the per-key sum of two compositions (what the parser
    builds for hydrates and groups) is the sum of the masses. -/
theorem mass_additive (a b : Comp) (ma mb : Rat)
    (ha : massFromComposition a = some ma) (hb : massFromComposition b = some mb) :
    massFromComposition (addComp a b) = some (ma + mb) := mass_addComp a b ma mb ha hb

/-- scales with a multiplier -/
theorem mass_scales (n : Rat) (a : Comp) (ma : Rat) (ha : massFromComposition a = some ma) :
    massFromComposition (scaleComp n a) = some (n * ma) := mass_scaleComp n a ma ha

/-- an ion differs from its neutral parent by exactly the electron masses -/
theorem ion_vs_neutral (a : Comp) (q ma : Rat) (hn : ∀ p ∈ a, p.1 ≠ 0)
    (ha : massFromComposition a = some ma) :
    massFromComposition ((0, q) :: a) = some (ma - q * electronMass) := mass_ion a q ma hn ha

/-- symbol lookup is inverse to the table, in any ASCII letter case -/
theorem atomic_number_symbol (i : Nat) (hi : i < 118) (s : String)
    (hs : lowerStr s = lowerStr (symbols[i]'(by rw [table_is_iupac.2.2.2]; exact hi))) :
    atomicNumber s = some (i + 1) := atomicNumber_symbol i hi s hs

/-- name lookup is inverse to the table, in any ASCII letter case -/
theorem atomic_number_name (i : Nat) (hi : i < 118) (s : String)
    (hs : lowerStr s = lowerStr (names[i]'(by have := names_length; omega))) :
    atomicNumber s = some (i + 1) := atomicNumber_name i hi s hs

/-- whatever `atomic_number` returns is a row of the table whose symbol or name is the argument up to case -/
theorem atomic_number_sound (s : String) (z : Nat) (h : atomicNumber s = some z) :
    1 ≤ z ∧ z ≤ 118 ∧ (lowerStr <$> symbols[z - 1]? = some (lowerStr s) ∨ lowerStr <$> names[z - 1]? = some (lowerStr s)) :=
  atomicNumber_sound s z h

/-- mass fractions: proportional to coefficient × mass, sum to one, positive when every product is -/
theorem mass_fractions_spec (mv : List (Rat × Rat)) (fr : List Rat) (h : massFractions mv = some fr) :
    fr.length = mv.length ∧ fr.sum = 1 ∧
    (∀ i (hi : i < mv.length) (hj : i < fr.length), fr[i] * (mv.map fun p => p.1 * p.2).sum = mv[i].1 * mv[i].2) ∧
    ((∀ p ∈ mv, 0 < p.1 * p.2) → ∀ x ∈ fr, 0 < x) := massFractions_spec mv fr h

/-- non-vacuity: water and hydroxide -/
example : massFromComposition [(1, 2), (8, 1)] = some (18015 / 1000) := by decide +kernel
example : massFromComposition [(0, -1), (1, 1), (8, 1)] = some (170075489 / 10000000) := by decide +kernel
example : atomicNumber "cO" = some 27 ∧ atomicNumber "hydrogen" = some 1 ∧ atomicNumber "Xx" = none := by decide +kernel
example : massFractions [(2016 / 1000, 1), (31998 / 1000, 1)] = some [2016 / 34014, 31998 / 34014] := by decide +kernel

end ChemModel.C14
