/-
C14 — molar mass is the composition-weighted sum of standard atomic weights.

Property theorems only (helper lemmas live in Proofs/Periodic.lean and Proofs/PeriodicFormula.lean; the formula AST,
`render`, `occurrences`, `denote`, `WF` are the C01 specification of Model/FormulaSpec.lean, the parser model is the one
of C01, and `formula_mass_spec` rests on the C01 round-trip theorem `parse_render`).

Positivity: `formula_mass_pos` / `mixture_fractions_spec` carry two hypotheses (`PositiveMass`): positive effective counts
and charge ≤ 1000 × (number of atoms). Both are needed (`charge_bound_needed_witness`: H+2000 has mass −0.0898 u in the
model and in the real code; `positive_counts_needed_witness`: [Fe]0 has mass 0), so the clause "mass fractions of any
mixture are positive" of the property text holds only under them.

THE REFERENCE TABLE (`refTable`, same rows as tools/harness/ref_iupac.json) — what it is and what it is not:
* symbols and names: the IUPAC-approved symbols and (British-spelling: Aluminium, Caesium, Sulfur) names of Z = 1..118.
* the 84 elements that HAVE an IUPAC standard atomic weight (Z = 1..83 except Tc 43 and Pm 61, plus Th 90, Pa 91, U 92):
  the value in units of 10⁻⁹ u as printed in the list chempy cites in its source
  (Wikipedia "Standard atomic weight → List of atomic weights", which reproduces the CIAAW/IUPAC table): the full-precision
  standard atomic weight where IUPAC gives a single value, and the *conventional* / abridged value (H 1.008, Li 6.94,
  B 10.81, C 12.011, N 14.007, O 15.999, Mg 24.305, Si 28.085, S 32.06, Cl 35.45, Ar 39.95, Br 79.904, Tl 204.38, Pb 207.2)
  where IUPAC gives an interval. `standard_weights_are_iupac` is the claim about these rows.
* the 34 elements WITHOUT a standard atomic weight (Tc, Pm, Po..Ac, Np..Og): IUPAC lists no weight at all, only (in some
  editions, in brackets) the mass number of the longest-lived known isotope, and that number changes between editions
  (e.g. Tc [97] or [98], Lr [262] or [266], Rg [281] or [282], Mc [289] or [290], Ts [293] or [294]). chempy writes
  "[98]", "[266]", "[282]", "[290]", "[294]" … and uses the bare number as mass. For these rows the table *pins the numbers
  chempy uses today* (`pinnedMassNumbers`); `mass_numbers_pinned` is a regression pin, NOT a claim of agreement with IUPAC.
* provenance: transcribed once in the design round and reviewed; the sandbox is offline, so the rows could not be re-fetched
  from ciaaw.org / iupac.org and no newer data can be obtained. An independent review found 0 differences between
  this table and the repository table, so these theorems protect against *future* corruption of any of the 118 rows (the
  table is not regenerated from the repository) and record the edition; they are not a fresh, independent confirmation
  of the 84 values. The fourth column of chempy's table (uncertainty) is used by no code path and is out of scope.
-/
import ChemModel.Proofs.PeriodicFormula

namespace ChemModel.C14
open ChemModel.Periodic ChemModel.Gen
open ChemModel.Formula (Formula Terms Term Part Charge)

def refTable : List (String × String × Nat) := [
  ("H", "Hydrogen", 1008000000),
  ("He", "Helium", 4002602000),
  ("Li", "Lithium", 6940000000),
  ("Be", "Beryllium", 9012183100),
  ("B", "Boron", 10810000000),
  ("C", "Carbon", 12011000000),
  ("N", "Nitrogen", 14007000000),
  ("O", "Oxygen", 15999000000),
  ("F", "Fluorine", 18998403163),
  ("Ne", "Neon", 20179700000),
  ("Na", "Sodium", 22989769280),
  ("Mg", "Magnesium", 24305000000),
  ("Al", "Aluminium", 26981538400),
  ("Si", "Silicon", 28085000000),
  ("P", "Phosphorus", 30973761998),
  ("S", "Sulfur", 32060000000),
  ("Cl", "Chlorine", 35450000000),
  ("Ar", "Argon", 39950000000),
  ("K", "Potassium", 39098300000),
  ("Ca", "Calcium", 40078000000),
  ("Sc", "Scandium", 44955908000),
  ("Ti", "Titanium", 47867000000),
  ("V", "Vanadium", 50941500000),
  ("Cr", "Chromium", 51996100000),
  ("Mn", "Manganese", 54938043000),
  ("Fe", "Iron", 55845000000),
  ("Co", "Cobalt", 58933194000),
  ("Ni", "Nickel", 58693400000),
  ("Cu", "Copper", 63546000000),
  ("Zn", "Zinc", 65380000000),
  ("Ga", "Gallium", 69723000000),
  ("Ge", "Germanium", 72630000000),
  ("As", "Arsenic", 74921595000),
  ("Se", "Selenium", 78971000000),
  ("Br", "Bromine", 79904000000),
  ("Kr", "Krypton", 83798000000),
  ("Rb", "Rubidium", 85467800000),
  ("Sr", "Strontium", 87620000000),
  ("Y", "Yttrium", 88905840000),
  ("Zr", "Zirconium", 91224000000),
  ("Nb", "Niobium", 92906370000),
  ("Mo", "Molybdenum", 95950000000),
  ("Tc", "Technetium", 98000000000),
  ("Ru", "Ruthenium", 101070000000),
  ("Rh", "Rhodium", 102905490000),
  ("Pd", "Palladium", 106420000000),
  ("Ag", "Silver", 107868200000),
  ("Cd", "Cadmium", 112414000000),
  ("In", "Indium", 114818000000),
  ("Sn", "Tin", 118710000000),
  ("Sb", "Antimony", 121760000000),
  ("Te", "Tellurium", 127600000000),
  ("I", "Iodine", 126904470000),
  ("Xe", "Xenon", 131293000000),
  ("Cs", "Caesium", 132905451960),
  ("Ba", "Barium", 137327000000),
  ("La", "Lanthanum", 138905470000),
  ("Ce", "Cerium", 140116000000),
  ("Pr", "Praseodymium", 140907660000),
  ("Nd", "Neodymium", 144242000000),
  ("Pm", "Promethium", 145000000000),
  ("Sm", "Samarium", 150360000000),
  ("Eu", "Europium", 151964000000),
  ("Gd", "Gadolinium", 157250000000),
  ("Tb", "Terbium", 158925354000),
  ("Dy", "Dysprosium", 162500000000),
  ("Ho", "Holmium", 164930328000),
  ("Er", "Erbium", 167259000000),
  ("Tm", "Thulium", 168934218000),
  ("Yb", "Ytterbium", 173045000000),
  ("Lu", "Lutetium", 174966800000),
  ("Hf", "Hafnium", 178486000000),
  ("Ta", "Tantalum", 180947880000),
  ("W", "Tungsten", 183840000000),
  ("Re", "Rhenium", 186207000000),
  ("Os", "Osmium", 190230000000),
  ("Ir", "Iridium", 192217000000),
  ("Pt", "Platinum", 195084000000),
  ("Au", "Gold", 196966570000),
  ("Hg", "Mercury", 200592000000),
  ("Tl", "Thallium", 204380000000),
  ("Pb", "Lead", 207200000000),
  ("Bi", "Bismuth", 208980400000),
  ("Po", "Polonium", 209000000000),
  ("At", "Astatine", 210000000000),
  ("Rn", "Radon", 222000000000),
  ("Fr", "Francium", 223000000000),
  ("Ra", "Radium", 226000000000),
  ("Ac", "Actinium", 227000000000),
  ("Th", "Thorium", 232037700000),
  ("Pa", "Protactinium", 231035880000),
  ("U", "Uranium", 238028910000),
  ("Np", "Neptunium", 237000000000),
  ("Pu", "Plutonium", 244000000000),
  ("Am", "Americium", 243000000000),
  ("Cm", "Curium", 247000000000),
  ("Bk", "Berkelium", 247000000000),
  ("Cf", "Californium", 251000000000),
  ("Es", "Einsteinium", 252000000000),
  ("Fm", "Fermium", 257000000000),
  ("Md", "Mendelevium", 258000000000),
  ("No", "Nobelium", 259000000000),
  ("Lr", "Lawrencium", 266000000000),
  ("Rf", "Rutherfordium", 267000000000),
  ("Db", "Dubnium", 268000000000),
  ("Sg", "Seaborgium", 269000000000),
  ("Bh", "Bohrium", 270000000000),
  ("Hs", "Hassium", 271000000000),
  ("Mt", "Meitnerium", 278000000000),
  ("Ds", "Darmstadtium", 281000000000),
  ("Rg", "Roentgenium", 282000000000),
  ("Cn", "Copernicium", 285000000000),
  ("Nh", "Nihonium", 286000000000),
  ("Fl", "Flerovium", 289000000000),
  ("Mc", "Moscovium", 290000000000),
  ("Lv", "Livermorium", 293000000000),
  ("Ts", "Tennessine", 294000000000),
  ("Og", "Oganesson", 294000000000)
]

def refWeight (i : Nat) : Option Rat := (refTable[i]?).map fun r => (r.2.2 : Rat) / 1000000000

/-- atomic numbers of the elements for which IUPAC publishes NO standard atomic weight -/
def noStandardWeight : List Nat :=
  [43, 61, 84, 85, 86, 87, 88, 89] ++ (List.range 26).map (· + 93)

/-- the mass numbers chempy uses for them (a pin of today's table, see the header) -/
def pinnedMassNumbers : List Nat :=
  [98, 145, 209, 210, 222, 223, 226, 227,
   237, 244, 243, 247, 247, 251, 252, 257, 258, 259, 266, 267, 268, 269, 270, 271, 278, 281, 282, 285, 286, 289, 290,
   293, 294, 294]

/-! ### the table -/

/-- The extracted symbols and names are the IUPAC ones, row by row (atomic number = row + 1), and there are 118. -/
theorem symbols_names_are_iupac :
    symbols = refTable.map (·.1) ∧ names = refTable.map (·.2.1) ∧ symbols.length = 118 ∧ names.length = 118 := by
  refine ⟨by decide +kernel, by decide +kernel, by decide +kernel, by decide +kernel⟩

/-- For each of the 84 elements that have an IUPAC standard atomic weight, the weight the code uses for atomic
    number `z` is the reference value of row `z` (no off-by-one between atomic number and table index). -/
theorem standard_weights_are_iupac :
    (∀ z, 1 ≤ z → z ≤ 118 → z ∉ noStandardWeight → weight? z = refWeight (z - 1) ∧ (refWeight (z - 1)).isSome) ∧
    ((List.range 119).filter fun z => decide (1 ≤ z) && !noStandardWeight.contains z).length = 84 := by
  have hall : (List.range 118).all (fun i => noStandardWeight.contains (i + 1) ||
      (weight? (i + 1) == refWeight i && (refWeight i).isSome)) = true := by decide +kernel
  refine ⟨fun z h1 h2 hz => ?_, by decide +kernel⟩
  have h := List.all_eq_true.mp hall (z - 1) (List.mem_range.mpr (by omega))
  have hz1 : z - 1 + 1 = z := by omega
  rw [hz1] at h
  have hc : noStandardWeight.contains z = false := by
    rw [List.contains_eq_mem]; exact decide_eq_false hz
  rw [hc, Bool.false_or, Bool.and_eq_true] at h
  exact ⟨eq_of_beq h.1, h.2⟩

/-- For the 34 elements without a standard atomic weight the code uses exactly the pinned mass numbers
    (whole numbers; a documented pin of chempy's choice, not an IUPAC claim), and the reference rows carry the same numbers. -/
theorem mass_numbers_pinned :
    noStandardWeight.map weight? = pinnedMassNumbers.map (fun a => some (a : Rat)) ∧
    noStandardWeight.map (fun z => refWeight (z - 1)) = pinnedMassNumbers.map (fun a => some (a : Rat)) ∧
    noStandardWeight.length = 34 := by
  refine ⟨by decide +kernel, by decide +kernel, by decide +kernel⟩

/-- the electron mass used for the charge term, in u (CODATA: 5.48579909e-4; chempy rounds to 4 digits) -/
theorem electron_mass_value : electronMass = 5489 / 10000000 := by
  decide +kernel

/-! ### mass of a composition dict -/

-- (the plain-sum form of the loop, `massFromComposition c = if ∀ keys ≤ 118 then some (c.map entryMass).sum else none`,
--  is the lemma `massFromComposition_eq_entrySum` in Proofs/PeriodicFormula.lean: fold = sum, a restatement)

/-- it refuses (IndexError) exactly when some key lies outside 0..118 -/
theorem mass_defined_iff (c : Comp) :
    (massFromComposition c).isSome ↔ ∀ p ∈ c, p.1 ≤ 118 := mass_isSome_iff c

/-- inside 1..118 the number `stdWeight z` used in the sums IS the table weight (the default 0 is never used) -/
theorem std_weight_is_table_weight (z : Nat) (h1 : 1 ≤ z) (h2 : z ≤ 118) : weight? z = some (stdWeight z) :=
  weight?_eq_stdWeight z h1 h2

/-! ### mass of a substance created from a formula -/

/-- every element occurring in a well-formed formula is one of the 118 -/
theorem occurrence_keys_in_table (f : Formula) (h : f.WF) : ∀ p ∈ f.occurrences, 1 ≤ p.1 ∧ p.1 ≤ 118 :=
  ChemModel.Periodic.occurrence_keys_in_table f h

/-- **The mass of a substance created from a formula.** For every well-formed formula AST `f` (C01 grammar: any
    nesting depth, hydrate parts, decimal counts, cages, prefixes, charge, phase suffix) the model of
    `Substance.from_formula(render f).mass` — C01 parser model followed by the `mass_from_composition` loop — returns,
    and returns `occurrenceMass f` = Σ over every element occurrence of (product of the enclosing multipliers)·weight
    − (signed charge)·mₑ, a quantity defined on the AST alone. -/
theorem formula_mass_spec (f : Formula) (h : f.WF) :
    formulaMass f.renderStr = .ok
      ((f.occurrences.map fun p => p.2 * stdWeight p.1).sum - f.denote 0 * electronMass) :=
  formulaMass_render f h

/-- the same through `Species.from_formula(render f, phases)` for ANY `phases` drawn from the suffix vocabulary the
    parser knows (`(s) (l) (g) (aq)`, in any order, any subset) such that the written suffix, if any, is one of the phases
    or `(aq)` — the hypotheses of C13's `species_spec`. (A suffix the caller did not declare is not stripped and is then
    read as a state token or lands in the charge token: outside this theorem.) -/
theorem species_mass_spec (f : Formula) (h : f.WF) (phases : List (List Char))
    (hsub : ∀ s ∈ phases, s ∈ suffixesL)
    (hmem : ∀ s, f.suffix = some s → s ∈ phases ∨ s = ['(', 'a', 'q', ')']) :
    speciesMass phases f.renderStr = .ok (occurrenceMass f) :=
  speciesMass_render_gen f h phases hsub hmem

/-- the default phases `("(s)", "(l)", "(g)")` satisfy those hypotheses for every well-formed formula -/
theorem species_mass_default (f : Formula) (h : f.WF) :
    speciesMass defaultPhases f.renderStr = .ok (occurrenceMass f) :=
  speciesMass_render f h

/-- `Solute.from_formula(render f).mass` (deprecated class: `Substance` plus the `precipitate` flag) -/
theorem solute_mass_spec (f : Formula) (h : f.WF) : soluteMass f.renderStr = .ok (occurrenceMass f) :=
  soluteMass_render f h

-- (when `formulaMass s` returns at all — parser accepts and keys in the table — is the lemma `formulaMass_ok_iff` in
--  Proofs/PeriodicFormula.lean: it unfolds the model's `match`, the real content is C01's)

/-- every standard weight in the table is positive (in fact ≥ 1 u: H = 1.008) -/
theorem std_weight_pos (z : Nat) (h1 : 1 ≤ z) (h2 : z ≤ 118) : 0 < stdWeight z := stdWeight_pos z h1 h2

/-- **The mass of a substance created from a formula is positive** — under two hypotheses that are both needed
    (witnesses below): every element occurrence has a positive effective count (a written count `0`, as in `[Fe]0`,
    gives mass 0), and the net charge is at most 1000 × the number of atoms (every weight is ≥ 1 u while 1000·mₑ < 1 u;
    `H+2000` has mass −0.0898 in the model and in the real code). Any charge ≤ 0 satisfies the second hypothesis. -/
theorem formula_mass_pos (f : Formula) (h : f.WF) (hcnt : ∀ p ∈ f.occurrences, 0 < p.2)
    (hq : f.denote 0 ≤ 1000 * (f.occurrences.map fun p => p.2).sum) :
    ∃ m, formulaMass f.renderStr = .ok m ∧ 0 < m :=
  ⟨_, formulaMass_render f h, occurrenceMass_pos f h hcnt hq⟩

/-- **Additive over hydrate parts**: `mass(A..nB) = mass(A) + n·mass(B)` on ASTs. `f` is any well-formed formula whose
    last part is `p` (leading count `p.mult`, 1 when omitted); `A` is `f` without that part (prefixes, charge, suffix kept)
    and `B` is the bare formula made of `p`'s terms. -/
theorem hydrate_additive (f : Formula) (ps : List Part) (p : Part) (hp : f.parts = ps ++ [p])
    (hf : f.WF) (hA : ({ f with parts := ps } : Formula).WF) (hB : (bareFormula p.terms).WF) :
    ∃ mA mB, formulaMass ({ f with parts := ps } : Formula).renderStr = .ok mA ∧
      formulaMass (bareFormula p.terms).renderStr = .ok mB ∧
      formulaMass f.renderStr = .ok (mA + p.mult * mB) :=
  ⟨_, _, formulaMass_render _ hA, formulaMass_render _ hB, by
    rw [formulaMass_render f hf, occurrenceMass_snoc f ps p hp]⟩

/-- **Additive over ALL hydrate parts**: for a well-formed formula whose parts are also well-formed on their own,
    `mass(f) = Σ over the parts p of p.mult · mass(bare p.terms) − charge·mₑ` (leading count 1 when omitted), each
    `mass(bare p.terms)` being what `Substance.from_formula` returns for that part written alone. -/
theorem hydrate_additive_all (f : Formula) (hf : f.WF) (hB : ∀ p ∈ f.parts, (bareFormula p.terms).WF) :
    (∀ p ∈ f.parts, formulaMass (bareFormula p.terms).renderStr = .ok (occurrenceMass (bareFormula p.terms))) ∧
    formulaMass f.renderStr = .ok
      ((f.parts.map fun p => p.mult * occurrenceMass (bareFormula p.terms)).sum - f.denote 0 * electronMass) :=
  ⟨fun p hp => formulaMass_render _ (hB p hp), by rw [formulaMass_render f hf, occurrenceMass_parts f]⟩

/-- **Scales with a group multiplier**: `mass((X)n) = n·mass(X)` for any bracket kind, any (integer or decimal) count. -/
theorem group_scales (b : ChemModel.Formula.Br) (body : Terms) (n : ChemModel.Formula.Cnt)
    (st : Option ChemModel.Formula.St) (marks : List Char)
    (hG : (bareFormula (.cons (.group b body n st marks) .nil)).WF) (hX : (bareFormula body).WF) :
    ∃ mX, formulaMass (bareFormula body).renderStr = .ok mX ∧
      formulaMass (bareFormula (.cons (.group b body n st marks) .nil)).renderStr = .ok (n.val * mX) :=
  ⟨_, formulaMass_render _ hX, by rw [formulaMass_render _ hG, occurrenceMass_group]⟩

/-- **An ion differs from its neutral parent by exactly the electron masses**: the formula with charge token `c`
    vs the same formula with the token removed. -/
theorem ion_vs_neutral (f : Formula) (c : Charge) (hc : f.charge = some c)
    (hf : f.WF) (hN : ({ f with charge := none } : Formula).WF) :
    ∃ m0, formulaMass ({ f with charge := none } : Formula).renderStr = .ok m0 ∧
      formulaMass f.renderStr = .ok (m0 - (c.val : Rat) * electronMass) :=
  ⟨_, formulaMass_render _ hN, by rw [formulaMass_render f hf, occurrenceMass_charge f c hc]⟩

/-! ### lookup -/

/-- symbol lookup is inverse to the table, in any ASCII letter case -/
theorem atomic_number_symbol (i : Nat) (hi : i < 118) (s : String)
    (hs : lowerStr s = lowerStr (symbols[i]'(by rw [symbols_names_are_iupac.2.2.1]; exact hi))) :
    atomicNumber s = some (i + 1) := atomicNumber_symbol i hi s hs

/-- name lookup is inverse to the table, in any ASCII letter case -/
theorem atomic_number_name (i : Nat) (hi : i < 118) (s : String)
    (hs : lowerStr s = lowerStr (names[i]'(by have := names_length; omega))) :
    atomicNumber s = some (i + 1) := atomicNumber_name i hi s hs

/-- whatever `atomic_number` returns is a row of the table whose symbol or name is the argument up to case -/
theorem atomic_number_sound (s : String) (z : Nat) (h : atomicNumber s = some z) :
    1 ≤ z ∧ z ≤ 118 ∧ (lowerStr <$> symbols[z - 1]? = some (lowerStr s) ∨ lowerStr <$> names[z - 1]? = some (lowerStr s)) :=
  atomicNumber_sound s z h

/-! ### mass fractions -/

/-- `mass_fractions` returns exactly for the empty mixture (result empty, as in the code) and for mixtures
    whose total mass is not zero (ZeroDivisionError otherwise) -/
theorem mass_fractions_defined_iff (mv : List (Rat × Rat)) :
    (massFractions mv).isSome ↔ (mv = [] ∨ (mv.map fun p => p.1 * p.2).sum ≠ 0) :=
  massFractions_isSome_iff mv

/-- mass fractions: proportional to coefficient × mass, sum to one for a NON-EMPTY mixture (the empty mixture
    gives the empty result, whose sum is 0), positive when every product is -/
theorem mass_fractions_spec (mv : List (Rat × Rat)) (fr : List Rat) (h : massFractions mv = some fr) :
    fr.length = mv.length ∧ (mv ≠ [] → fr.sum = 1) ∧
    (∀ i (hi : i < mv.length) (hj : i < fr.length), fr[i] * (mv.map fun p => p.1 * p.2).sum = mv[i].1 * mv[i].2) ∧
    ((∀ p ∈ mv, 0 < p.1 * p.2) → ∀ x ∈ fr, 0 < x) := massFractions_spec mv fr h

/-- the positivity hypotheses of `formula_mass_pos`, as one predicate on a formula AST -/
def PositiveMass (f : Formula) : Prop :=
  f.WF ∧ (∀ p ∈ f.occurrences, 0 < p.2) ∧ f.denote 0 ≤ 1000 * (f.occurrences.map fun p => p.2).sum

/-- **Mass fractions of a mixture of formulas.** For any list of (well-formed formula, positive coefficient) pairs whose
    formulas satisfy the positivity hypotheses, the model of `mass_fractions({render fᵢ: vᵢ})` — every key through
    `Substance.from_formula`, then the division loop — returns; every fraction is positive, equals
    `massᵢ·vᵢ / Σ massⱼ·vⱼ` with `massᵢ` the occurrence mass of `fᵢ`, and for a non-empty mixture they sum to one. -/
theorem mixture_fractions_spec (fs : List (Formula × Rat))
    (h : ∀ x ∈ fs, PositiveMass x.1 ∧ 0 < x.2) :
    ∃ fr, mixtureFractions (fs.map fun x => (x.1.renderStr, x.2)) = .ok (some fr) ∧
      fr.length = fs.length ∧ (∀ y ∈ fr, 0 < y) ∧ (fs ≠ [] → fr.sum = 1) ∧
      ∀ i (hi : i < fs.length) (hj : i < fr.length),
        fr[i] = occurrenceMass fs[i].1 * fs[i].2 / (fs.map fun x => occurrenceMass x.1 * x.2).sum := by
  have hmap := mapM_map_except_ok (fun x : Formula × Rat => (x.1.renderStr, x.2)) massPair
    (fun x => (occurrenceMass x.1, x.2)) fs
    (by intro x hx; simp only [massPair, formulaMass_render x.1 (h x hx).1.1])
  have hpos : ∀ p ∈ fs.map (fun x : Formula × Rat => (occurrenceMass x.1, x.2)), 0 < p.1 * p.2 := by
    intro p hp
    obtain ⟨x, hx, rfl⟩ := List.mem_map.mp hp
    obtain ⟨⟨hwf, hcnt, hq⟩, hv⟩ := h x hx
    exact mul_pos (occurrenceMass_pos x.1 hwf hcnt hq) hv
  obtain ⟨fr, hfr, hlen, hp, hsum, hprop⟩ := massFractions_of_pos _ hpos
  refine ⟨fr, ?_, ?_, hp, ?_, ?_⟩
  · unfold mixtureFractions
    rw [hmap]
    simp only [hfr]
  · rw [hlen, List.length_map]
  · intro hne
    exact hsum (by intro e; exact hne (List.map_eq_nil_iff.mp e))
  · intro i hi hj
    have := hprop i (by rw [List.length_map]; exact hi) hj
    rw [this, List.getElem_map, List.map_map]
    rfl

/-! ### group / period tables -/

/-- **Group and period tables.** The members `periodic.groups` computes at import time for groups 1, 2, 13–18 are the
    textbook lists (alkali metals incl. H, alkaline earths, B/C/N/O/F groups, noble gases), no other group number has
    members, every member is an atomic number of the table, the period lengths are 2, 8, 8, 18, 18, 32, 32, they sum to
    118 and the accumulated lengths are their running sums. -/
theorem groups_reference :
    groupMembers 1 = [1, 3, 11, 19, 37, 55, 87] ∧ groupMembers 2 = [4, 12, 20, 38, 56, 88] ∧
    groupMembers 13 = [5, 13, 31, 49, 81, 113] ∧ groupMembers 14 = [6, 14, 32, 50, 82, 114] ∧
    groupMembers 15 = [7, 15, 33, 51, 83, 115] ∧ groupMembers 16 = [8, 16, 34, 52, 84, 116] ∧
    groupMembers 17 = [9, 17, 35, 53, 85, 117] ∧ groupMembers 18 = [2, 10, 18, 36, 54, 86, 118] ∧
    (∀ g, g ∉ [1, 2, 13, 14, 15, 16, 17, 18] → groupMembers g = []) ∧
    (∀ g z, z ∈ groupMembers g → 1 ≤ z ∧ z ≤ 118) ∧
    periodLengths = [2, 8, 8, 18, 18, 32, 32] ∧ periodLengths.sum = 118 ∧
    accumPeriodLengths = [2, 10, 18, 36, 54, 86, 118] := by
  obtain ⟨h1, h2, h13, h14, h15, h16, h17, h18⟩ := groupMembers_reference
  have hother : ∀ g, g ∉ [1, 2, 13, 14, 15, 16, 17, 18] → groupMembers g = [] := by
    intro g hg
    simp only [List.mem_cons, List.not_mem_nil, or_false, not_or] at hg
    unfold groupMembers
    rw [if_neg (by omega), if_neg hg.1, if_neg hg.2.1, if_neg (by omega)]
  refine ⟨h1, h2, h13, h14, h15, h16, h17, h18, hother, ?_, by decide +kernel, by decide +kernel, by decide +kernel⟩
  intro g z hz
  by_cases hg : g ∈ [1, 2, 13, 14, 15, 16, 17, 18]
  · have hall : ∀ g' ∈ [1, 2, 13, 14, 15, 16, 17, 18], ∀ z' ∈ groupMembers g', 1 ≤ z' ∧ z' ≤ 118 := by
      decide +kernel
    exact hall g hg z hz
  · rw [hother g hg] at hz; cases hz

/-- guard: the extra suffixes `speciesMass` appends to the phases (`speciesExtraSuffixes`, computed from the generated
    constants: `suffixes = tuple(phases) + ("(aq)",)` in the source of `Species.from_formula`) are exactly `"(aq)"`, and the
    default phases of the model are the generated ones -/
theorem species_extra_suffix_guard :
    speciesExtraSuffixes = [['(', 'a', 'q', ')']] ∧ speciesPhases.map String.toList = defaultPhases := by
  decide +kernel

/-! ### non-vacuity -/

example : massFromComposition [(1, 2), (8, 1)] = some (18015 / 1000) := by decide +kernel
example : massFromComposition [(0, -1), (1, 1), (8, 1)] = some (170075489 / 10000000) := by decide +kernel
example : massFromComposition [(119, 1)] = none := by decide +kernel
example : atomicNumber "cO" = some 27 ∧ atomicNumber "hydrogen" = some 1 ∧ atomicNumber "Xx" = none := by decide +kernel
example : massFractions [(2016 / 1000, 1), (31998 / 1000, 1)] = some [2016 / 34014, 31998 / 34014] := by decide +kernel
example : massFractions [] = some [] ∧ massFractions [(1, 1), (1, -1)] = none := by decide +kernel

private def d (s : String) : List Char := s.toList
private def el (z : Nat) (n : ChemModel.Formula.Cnt := .omitted) : Term := .elem z n none []
private def terms : List Term → Terms := Terms.ofList

def exSodaA : Part := ⟨none, terms [el 11 (.int (d "2")), el 6, el 8 (.int (d "3"))]⟩
def exSodaB : Part := ⟨some (d "7"), terms [el 1 (.int (d "2")), el 8]⟩
/-- `Na2CO3..7H2O` -/
def exSoda : Formula :=
  { prefixes := [], sep := .dots, parts := [exSodaA, exSodaB], charge := none, suffix := none }

/-- `[Fe(H2O)6]+3` -/
def exFeAq : Formula :=
  { prefixes := [], sep := .dots,
    parts := [⟨none, terms [.group .square (terms [el 26, .group .paren (terms [el 1 (.int (d "2")), el 8]) (.int (d "6")) none []]) .omitted none []]⟩],
    charge := some ⟨false, some (d "3")⟩, suffix := none }

/-- `(NH4)2` -/
def exGroup : Term := .group .paren (terms [el 7, el 1 (.int (d "4"))]) (.int (d "2")) none []

example : exSoda.renderStr = "Na2CO3..7H2O" ∧ exSoda.WF ∧ formulaMass "Na2CO3..7H2O" = .ok (23209253856 / 100000000) := by
  decide +kernel
example : exSoda.parts = [exSodaA] ++ [exSodaB] ∧ ({ exSoda with parts := [exSodaA] } : Formula).WF ∧
    (bareFormula exSodaB.terms).WF ∧ exSodaB.mult = 7 := by
  refine ⟨rfl, by decide +kernel, by decide +kernel, by decide +kernel⟩
example : exFeAq.renderStr = "[Fe(H2O)6]+3" ∧ exFeAq.WF ∧ ({ exFeAq with charge := none } : Formula).WF ∧
    formulaMass "[Fe(H2O)6]+3" = .ok (163935 / 1000 - 3 * electronMass) := by decide +kernel
example : (bareFormula (.cons exGroup .nil)).WF ∧ (bareFormula (terms [el 7, el 1 (.int (d "4"))])).WF ∧
    (bareFormula (.cons exGroup .nil)).renderStr = "(NH4)2" := by decide +kernel
example : speciesMass defaultPhases "Hg(g)" = .ok (200592 / 1000) ∧ speciesMass defaultPhases "Cs(s)" = .ok (13290545196 / 100000000) ∧
    speciesMass defaultPhases "Na(aq)" = .ok (2298976928 / 100000000) := by decide +kernel
/-- `SO4-2` -/
def exSulfate : Formula :=
  { prefixes := [], sep := .dots, parts := [⟨none, terms [el 16, el 8 (.int (d "4"))]⟩],
    charge := some ⟨true, some (d "2")⟩, suffix := none }
/-- `Fe+3` -/
def exFe3 : Formula :=
  { prefixes := [], sep := .dots, parts := [⟨none, terms [el 26]⟩], charge := some ⟨false, some (d "3")⟩, suffix := none }
/-- `H+2000`: well-formed, but the charge exceeds 1000 × (number of atoms) -/
def exH2000 : Formula :=
  { prefixes := [], sep := .dots, parts := [⟨none, terms [el 1]⟩], charge := some ⟨false, some (d "2000")⟩, suffix := none }
/-- `[Fe]0`: well-formed, but the only occurrence has effective count 0 -/
def exFeZero : Formula :=
  bareFormula (terms [.group .square (terms [el 26]) (.int (d "0")) none []])
/-- `H2O` -/
def exWater : Formula := bareFormula (terms [el 1 (.int (d "2")), el 8])

-- the hypotheses of `formula_mass_pos` / `PositiveMass` are satisfiable (SO4-2, Fe+3, H2O) …
example : exSulfate.renderStr = "SO4-2" ∧ PositiveMass exSulfate := by
  refine ⟨by decide +kernel, by decide +kernel, by decide +kernel, by decide +kernel⟩
example : exFe3.renderStr = "Fe+3" ∧ PositiveMass exFe3 ∧ formulaMass "Fe+3" = .ok (55845 / 1000 - 3 * electronMass) := by
  refine ⟨by decide +kernel, ⟨by decide +kernel, by decide +kernel, by decide +kernel⟩, by decide +kernel⟩
example : PositiveMass exWater ∧ PositiveMass exSoda := by
  refine ⟨⟨by decide +kernel, by decide +kernel, by decide +kernel⟩, by decide +kernel, by decide +kernel, by decide +kernel⟩
-- … and both are needed: the charge bound (`H+2000` is well-formed, all counts positive, and its mass is NEGATIVE,
-- −0.0898 u, in the model exactly as in the real code) …
theorem charge_bound_needed_witness :
    exH2000.renderStr = "H+2000" ∧ exH2000.WF ∧ (∀ p ∈ exH2000.occurrences, 0 < p.2) ∧
    formulaMass "H+2000" = .ok (-898 / 10000) ∧ ¬ (0 : Rat) < -898 / 10000 := by
  refine ⟨by decide +kernel, by decide +kernel, by decide +kernel, by decide +kernel, by decide +kernel⟩
-- … and the positive counts (`[Fe]0` is well-formed, neutral, and has mass 0)
theorem positive_counts_needed_witness :
    exFeZero.renderStr = "[Fe]0" ∧ exFeZero.WF ∧ exFeZero.denote 0 = 0 ∧ formulaMass "[Fe]0" = .ok 0 := by
  refine ⟨by decide +kernel, by decide +kernel, by decide +kernel, by decide +kernel⟩
-- a mixture of formulas: 2 H2O + 1 SO4-2
example : mixtureFractions [("H2O", 2), ("SO4-2", 1)]
    = .ok (some [18015 / 1000 * 2 / (18015 / 1000 * 2 + (96056 / 1000 + 2 * electronMass)),
                 (96056 / 1000 + 2 * electronMass) / (18015 / 1000 * 2 + (96056 / 1000 + 2 * electronMass))]) := by
  decide +kernel
example : mixtureFractions [] = .ok (some []) ∧ mixtureFractions [("Hx", 1)] = .error (.parse .parse) := by decide +kernel
example : groupMembers 17 = [9, 17, 35, 53, 85, 117] ∧ groupMembers 3 = [] := by decide +kernel
example : formulaMass "Hx" = .error (.parse .parse) := by decide +kernel
-- `hydrate_additive_all` / generalised `species_mass_spec` / `solute_mass_spec`: hypotheses satisfiable
example : ∀ p ∈ exSoda.parts, (bareFormula p.terms).WF := by decide +kernel
example : speciesMass [['(', 'a', 'q', ')']] "Na(aq)" = .ok (2298976928 / 100000000) ∧
    speciesMass [] "Na(aq)" = .ok (2298976928 / 100000000) ∧ soluteMass "Cs(s)" = .ok (13290545196 / 100000000) := by
  decide +kernel

end ChemModel.C14
