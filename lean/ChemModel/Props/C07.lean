/-
C07 — equilibrium equations vanish exactly at, and only at, true equilibrium states.

Property theorems only.  The model (`ChemModel.EqSys`, Model/EqSys.lean) mirrors
`NumSysLin/Square/LinRel/Log.f` of chempy/_eqsys.py for `rref_equil = rref_preserv = False`;
it is instantiated here with `ℝ` (Proofs/EqSys.lean).  Specification vocabulary:

* `quotient c ν = ∏ⱼ cⱼ ^ νⱼ`  — mass-action quotient of a reaction with stoichiometry row `ν`
* `total b c   = Σⱼ bⱼ · cⱼ`   — amount of one composition key (element, or charge = key 0)
* `netStoichs s`               — rows `ν` of the written reactions (products − reactants)
* `compMat s`                  — rows `b` of `composition_balance_vectors()`, one per composition key
* `initConcsOf s p`, `eqParamsOf s p` — the two halves of `params = init_concs ++ eq_params`
* `Homogeneous s`              — every species has `phase_idx = 0` (the quantifier of the property)

All theorems are for every system size, every state and every parameter vector; a hypothesis
`… = .ok r` says "the Python call returns `r`" (it raises ZeroDivisionError for a zero
concentration under a negative exponent — `numSysLinF_defined` shows when it does return).

`rref_equil / rref_preserv = True`: sympy's row reduction (`pyneqsys.symbolic.linear_rref`) is external; its output
`(rA, rb)` is a parameter (`Reduced`) of the model functions `numSys…CfgF`, which mirror what chempy does around it
(`K' = exp(rb)`, reduced rows used as exponents / coefficients, `zip`).  The theorems `rref_zero_iff_*` assume
`RowEquiv` — the reduced augmented system has the same row space as the original one, `(A'|b') = P·(A|b)` and
`(A|b) = L·(A'|b')` — and the harness checks exactly that on the real `stoichs_constants(rref=True)` /
`linear_rref` output of every generated instance (exact rational arithmetic, logs in coordinates over {ln p}).
-/
import ChemModel.Proofs.EqSys

namespace ChemModel.C07
open ChemModel ChemModel.EqSys

/-! ## Linear variables (`NumSysLin`) -/

/-- **General form (any `precipitates`, any `small`, any constants, zero included).**
    When `NumSysLin.f(y, params)` returns `r`: every entry of `r` is zero iff every row `(A_i, k_i)` of
    `_get_A_ks` satisfies `∏ y^A_i = k_i` and every composition total of `y` equals that of `init_concs`.
    (No `K ≠ 0` hypothesis is needed: for `k = 0` the code uses the residual `q` itself.) -/
theorem lin_zero_iff_general (s : EqSystem) (prec : List Bool) (small : ℝ) (y p r : List ℝ)
    (h : numSysLinF s prec small y p = .ok r) :
    ∃ A, stoichs s (nonPrecipRids s prec) = .ok A ∧
      ((∀ x ∈ r, x = 0) ↔
        (∀ rk ∈ A.zip (ksOf s prec small p), quotient y rk.1 = rk.2) ∧
        (∀ b ∈ compMat s, total b y = total b (initConcsOf s p))) := by
  obtain ⟨A, hA, _, _, hr⟩ := numSysLinF_ok h
  exact ⟨A, hA, by rw [hr]; exact lin_zero_iff_core A (compMat s) _ y _⟩

/-- **`lin_zero_iff`.**  For a homogeneous system: the residual vector of `NumSysLin.f(y, c₀ ++ K)` is zero
    iff `Q_i(y) = K_i` for every reaction (net stoichiometry as written) and `B·y = B·c₀`. -/
theorem lin_zero_iff (s : EqSystem) (hs : Homogeneous s) (prec : List Bool) (small : ℝ) (y p r : List ℝ)
    (h : numSysLinF s prec small y p = .ok r) :
    (∀ x ∈ r, x = 0) ↔
      (∀ νK ∈ (netStoichs s).zip (eqParamsOf s p), quotient y νK.1 = νK.2) ∧
      (∀ b ∈ compMat s, total b y = total b (initConcsOf s p)) := by
  obtain ⟨A, hA, hiff⟩ := lin_zero_iff_general s prec small y p r h
  rw [stoichs_homog hs] at hA
  cases hA
  rw [ksOf_homog hs] at hiff
  exact hiff

/-- the call returns (does not raise) for a homogeneous system with at least one reaction (with none,
    `NumSysLin.f` raises TypeError — mirrored), well-shaped arguments and a state
    without zero entries — so the hypotheses `… = .ok r` above are satisfiable at every positive state -/
theorem lin_defined (s : EqSystem) (hs : Homogeneous s) (prec : List Bool) (small : ℝ) (y p : List ℝ)
    (hshape : shapeOk s y p = true) (hnr : 0 < s.nr) (hy : ∀ x ∈ y, x ≠ 0) :
    ∃ r, numSysLinF s prec small y p = .ok r :=
  numSysLinF_defined hs prec small hshape hnr hy

/-- headline, both directions in one statement: at a positive state of a homogeneous system the call
    returns a vector, and that vector is zero exactly at equilibrium states with the initial totals -/
theorem lin_vanishes_exactly_at_equilibrium (s : EqSystem) (hs : Homogeneous s) (y p : List ℝ)
    (hshape : shapeOk s y p = true) (hnr : 0 < s.nr) (hy : ∀ x ∈ y, 0 < x) :
    ∃ r, numSysLinF s [] 0 y p = .ok r ∧
      ((∀ x ∈ r, x = 0) ↔
        (∀ νK ∈ (netStoichs s).zip (eqParamsOf s p), quotient y νK.1 = νK.2) ∧
        (∀ b ∈ compMat s, total b y = total b (initConcsOf s p))) := by
  obtain ⟨r, hr⟩ := lin_defined s hs [] 0 y p hshape hnr (fun x hx => (hy x hx).ne')
  exact ⟨r, hr, lin_zero_iff s hs [] 0 y p r hr⟩

/-! ## Squared and relative variables -/

/-- **`square_zero_iff`.**  `NumSysSquare.f(y, ·)` vanishes iff the concentrations `post_processor(y) = y²` are an
    equilibrium state with the initial totals (the residual is a function of the transformed variable). -/
theorem square_zero_iff (s : EqSystem) (hs : Homogeneous s) (prec : List Bool) (small : ℝ) (y p r : List ℝ)
    (h : numSysSquareF s prec small y p = .ok r) :
    (∀ x ∈ r, x = 0) ↔
      (∀ νK ∈ (netStoichs s).zip (eqParamsOf s p), quotient (squarePost y) νK.1 = νK.2) ∧
      (∀ b ∈ compMat s, total b (squarePost y) = total b (initConcsOf s p)) :=
  lin_zero_iff s hs prec small _ p r h

/-- the change of variables of `NumSysSquare` reaches every non-negative state: `post_processor(pre_processor(c)) = c`
    (`pre_processor = sqrt(|c|)`), so every non-negative equilibrium state is the image of a root of the residual -/
theorem square_post_pre (c : List ℝ) (hc : ∀ x ∈ c, 0 ≤ x) : squarePost (squarePre c) = c :=
  squarePost_squarePre c hc

/-- `NumSysLinRel.f(y, ·)` vanishes iff the concentrations `post_processor(y) = y ∘ m`
    (`m = upper_conc_bounds(init_concs)`) are an equilibrium state with the initial totals. -/
theorem linrel_zero_iff (s : EqSystem) (hs : Homogeneous s) (prec : List Bool) (small : ℝ) (y p r : List ℝ)
    (h : numSysLinRelF s prec small y p = .ok r) :
    ∃ m, upperConcBounds s (initConcsOf s p) = .ok m ∧
      ((∀ x ∈ r, x = 0) ↔
        (∀ νK ∈ (netStoichs s).zip (eqParamsOf s p), quotient (linRelPost m y) νK.1 = νK.2) ∧
        (∀ b ∈ compMat s, total b (linRelPost m y) = total b (initConcsOf s p))) := by
  obtain ⟨m, hm, hlin⟩ := numSysLinRelF_ok h
  rw [linRel_scaled_eq_post] at hlin
  exact ⟨m, hm, lin_zero_iff s hs prec small _ p r hlin⟩

/-- `post_processor(pre_processor(c)) = c` for `NumSysLinRel` when no bound is zero -/
theorem linrel_post_pre (m c : List ℝ) (hm : ∀ x ∈ m, x ≠ 0) (hl : c.length ≤ m.length) :
    linRelPost m (linRelPre m c) = c :=
  linRelPost_linRelPre m c hm hl

/-- **Side condition of `linrel_zero_iff`.**  `upper_conc_bounds` is finite only for species that contain an element:
    for a charge-only species (e.g. `e-`) Python yields `inf` and the model `.error "inf"`, so the hypothesis of
    `linrel_zero_iff` cannot hold there.  When every species `HasElement` (a non-charge key, no zero count), the bounds
    exist, and the call returns at every state whose scaled entries are non-zero. -/
theorem linrel_defined (s : EqSystem) (hs : Homogeneous s) (hel : ∀ kv ∈ s.substances, HasElement kv.2)
    (prec : List Bool) (small : ℝ) (y p : List ℝ) (hshape : shapeOk s y p = true) (hnr : 0 < s.nr) :
    ∃ m, upperConcBounds s (initConcsOf s p) = .ok m ∧
      ((∀ x ∈ List.zipWith (· * ·) m y, x ≠ 0) → ∃ r, numSysLinRelF s prec small y p = .ok r) :=
  numSysLinRelF_defined hs hel prec small hshape hnr

/-! ## Logarithmic variables (`NumSysLog`) -/

/-- **General form**: for positive constants, `NumSysLog.f(y, ·)` vanishes iff the concentrations
    `post_processor(y) = exp y` satisfy every row of `_get_A_ks` and carry the initial totals. -/
theorem log_zero_iff_general (s : EqSystem) (prec : List Bool) (small : ℝ) (y p r : List ℝ)
    (h : numSysLogF s prec small y p = .ok r) (hK : ∀ k ∈ ksOf s prec small p, 0 < k) :
    ∃ A, stoichs s (nonPrecipRids s prec) = .ok A ∧
      ((∀ x ∈ r, x = 0) ↔
        (∀ rk ∈ A.zip (ksOf s prec small p), quotient (logPost y) rk.1 = rk.2) ∧
        (∀ b ∈ compMat s, total b (logPost y) = total b (initConcsOf s p))) := by
  obtain ⟨A, hA, _, hr⟩ := numSysLogF_ok h
  exact ⟨A, hA, by rw [hr]; exact log_zero_iff_core A (compMat s) _ y _ hK⟩

/-- the change of variables of `NumSysLog`: `pre_processor(c) = ln(c + small)` ("zero concentration ≈ small"), so
    `post_processor(pre_processor(c)) = c + small` — NOT the identity: a state handed to the solver is shifted by
    `small = exp(-36)` in every component (mirrors the code as it is) -/
theorem log_post_pre (small : ℝ) (c : List ℝ) (hc : ∀ x ∈ c, 0 < x + small) :
    logPost (logPre small c) = c.map (· + small) :=
  logPost_logPre small c hc

/-- **`log_zero_iff`.**  Homogeneous system, `c > 0`, `K > 0`, `y = ln c`:
    `NumSysLog.f(y, c₀ ++ K) = 0 ⇔ (∀ i, Q_i(c) = K_i) ∧ B·c = B·c₀`. -/
theorem log_zero_iff (s : EqSystem) (hs : Homogeneous s) (prec : List Bool) (small : ℝ) (c p r : List ℝ)
    (hc : ∀ x ∈ c, 0 < x) (hK : ∀ k ∈ eqParamsOf s p, 0 < k)
    (h : numSysLogF s prec small (c.map Real.log) p = .ok r) :
    (∀ x ∈ r, x = 0) ↔
      (∀ νK ∈ (netStoichs s).zip (eqParamsOf s p), quotient c νK.1 = νK.2) ∧
      (∀ b ∈ compMat s, total b c = total b (initConcsOf s p)) := by
  have hexp : (c.map Real.log).map Real.exp = c := by
    rw [List.map_map]
    conv_rhs => rw [← List.map_id c]
    apply List.map_congr_left
    intro x hx
    simp [Real.exp_log (hc x hx)]
  obtain ⟨A, hA, hiff⟩ := log_zero_iff_general s prec small _ p r h (by rw [ksOf_homog hs]; exact hK)
  rw [stoichs_homog hs] at hA
  cases hA
  rw [ksOf_homog hs] at hiff
  have hpost : logPost (c.map Real.log) = c := hexp
  rw [hpost] at hiff
  exact hiff

/-- the logarithmic call returns for every well-shaped argument of a homogeneous system with at least one
    species (`exp`/`log` never raise) — the hypothesis `… = .ok r` of `log_zero_iff` is always satisfiable -/
theorem log_defined (s : EqSystem) (hs : Homogeneous s) (prec : List Bool) (small : ℝ) (y p : List ℝ)
    (hshape : shapeOk s y p = true) (hns : 0 < s.ns) :
    ∃ r, numSysLogF s prec small y p = .ok r :=
  numSysLogF_defined hs prec small hshape hns

/-! ## Conservation block and reaction extents -/

/-- **`conservation_iff_same_totals`.**  The conservation block `linear_exprs(B, y, mat_dot_vec(B, c₀))`
    vanishes iff `y` and `c₀` carry the same amount of every composition key. -/
theorem conservation_iff_same_totals (B : List (List ℤ)) (y c0 b : List ℝ)
    (hb : matDotVec (intMat B) c0 = some b) :
    (∀ x ∈ linearExprs B y b, x = 0) ↔ ∀ brow ∈ B, total brow y = total brow c0 := by
  rw [linearExprs_real, matDotVec_real hb, forall_zipWith,
    zip_map_right_self (fun row => total row c0) B (fun row v => total row y - v = 0)]
  exact ⟨fun h brow hb => sub_eq_zero.mp (h brow hb), fun h brow hb => sub_eq_zero.mpr (h brow hb)⟩

/-- every written reaction conserves every composition key (`B·νᵀ = 0`): what the constructor's
    `check_balance` establishes -/
def Balanced (s : EqSystem) : Prop := ∀ b ∈ compMat s, ∀ ν ∈ netStoichs s, idot b ν = 0

/-- **`extent_preserves_totals`.**  In a balanced system, any combination of reaction extents
    `c = c₀ + Nᵀξ` leaves every composition total unchanged: `B·c = B·c₀`. -/
theorem extent_preserves_totals (s : EqSystem) (hbal : Balanced s) (c0 ξ : List ℝ) (hlen : c0.length = s.ns) :
    ∀ b ∈ compMat s, total b (addExtent c0 (netStoichs s) ξ) = total b c0 := by
  intro b hb
  apply total_addExtent
  · intro row hrow
    simp only [netStoichs, List.mem_map] at hrow
    obtain ⟨r, _, rfl⟩ := hrow
    simp [netStoich, hlen, EqSystem.ns]
  · exact hbal b hb

/-- consequence for the residual: started from `c₀`, every state reachable by reaction extents keeps the
    conservation block of `NumSysLin.f` at zero -/
theorem extent_keeps_conservation_zero (s : EqSystem) (hbal : Balanced s) (c0 ξ b : List ℝ)
    (hlen : c0.length = s.ns) (hb : matDotVec (intMat (compMat s)) c0 = some b) :
    ∀ x ∈ linearExprs (compMat s) (addExtent c0 (netStoichs s) ξ) b, x = 0 :=
  (conservation_iff_same_totals (compMat s) _ c0 b hb).mpr (extent_preserves_totals s hbal c0 ξ hlen)

/-! ## Number of equations -/

/-- **`equation_count`** (Lin, hence Square and LinRel): `nr + number of composition keys` entries. -/
theorem equation_count (s : EqSystem) (prec : List Bool) (small : ℝ) (y p r : List ℝ)
    (h : numSysLinF s prec small y p = .ok r) :
    r.length = s.nr + (compositionBalanceVectors s).2.length := by
  obtain ⟨A, hA, _, hshape, hr⟩ := numSysLinF_ok h
  rw [hr, List.length_append, List.length_zipWith, List.length_zipWith, List.length_map, List.length_map,
    stoichs_length hA, ksOf_length hshape, compMat_length]
  simp

/-- `equation_count` for the logarithmic formulation -/
theorem equation_count_log (s : EqSystem) (prec : List Bool) (small : ℝ) (y p r : List ℝ)
    (h : numSysLogF s prec small y p = .ok r) :
    r.length = s.nr + (compositionBalanceVectors s).2.length := by
  obtain ⟨A, hA, hshape, hr⟩ := numSysLogF_ok h
  rw [hr, List.length_append, List.length_zipWith, List.length_zipWith, List.length_map, List.length_map,
    stoichs_length hA, ksOf_length hshape, compMat_length]
  simp

/-! ## The constants are the reactions' own -/

/-- **K is tied to `rxn.param`.**  `EqSystem.root/_solve` call the residual with
    `params = init_concs ++ eq_constants()`, and `eq_constants()` (defaults) is `[rxn.param for rxn in rxns]`:
    at that parameter vector the residual of a homogeneous system vanishes iff `Q_i(y)` equals the constant OF
    REACTION i and the totals are those of `init_concs`.  (A change of `eq_constants` — e.g. one K inverted —
    breaks `solverParams_split`, hence this theorem.) -/
theorem lin_zero_iff_reaction_constants (s : EqSystem) (hs : Homogeneous s) (y c0 Ks r : List ℝ)
    (hlen : c0.length = s.ns)
    (h : numSysLinF s [] 0 y (solverParams c0 Ks) = .ok r) :
    (∀ x ∈ r, x = 0) ↔
      (∀ νK ∈ (netStoichs s).zip Ks, quotient y νK.1 = νK.2) ∧ (∀ b ∈ compMat s, total b y = total b c0) := by
  have := lin_zero_iff s hs [] 0 y (solverParams c0 Ks) r h
  rwa [(solverParams_split s c0 Ks hlen).1, (solverParams_split s c0 Ks hlen).2] at this

/-- **`new_eq_params = False`.**  The call takes only the `ns` initial concentrations (anything more: AssertionError) and
    uses the reactions' own constants `Ks = [rxn.param …]`: the residual vanishes iff `Q_i(y) = rxn.param_i` and the totals
    are those of `init_concs`. -/
theorem lin_zero_iff_own_constants (s : EqSystem) (hs : Homogeneous s) (prec : List Bool) (small : ℝ)
    (Ks y c0 r : List ℝ) (h : numSysLinOwnF s prec small Ks y c0 = .ok r) :
    (∀ x ∈ r, x = 0) ↔
      (∀ νK ∈ (netStoichs s).zip Ks, quotient y νK.1 = νK.2) ∧ (∀ b ∈ compMat s, total b y = total b c0) := by
  obtain ⟨hl, hlin⟩ := numSysLinOwnF_ok h
  have := lin_zero_iff s hs prec small y (c0 ++ Ks) r hlin
  rwa [(own_split s c0 Ks hl).1, (own_split s c0 Ks hl).2] at this

/-- the logarithmic formulation with the reactions' own (positive) constants -/
theorem log_zero_iff_own_constants (s : EqSystem) (hs : Homogeneous s) (prec : List Bool) (small : ℝ)
    (Ks y c0 r : List ℝ) (hK : ∀ k ∈ Ks, 0 < k) (h : numSysLogOwnF s prec small Ks y c0 = .ok r) :
    (∀ x ∈ r, x = 0) ↔
      (∀ νK ∈ (netStoichs s).zip Ks, quotient (logPost y) νK.1 = νK.2) ∧
      (∀ b ∈ compMat s, total b (logPost y) = total b c0) := by
  obtain ⟨hl, hlog⟩ := numSysLogOwnF_ok h
  obtain ⟨A, hA, hiff⟩ := log_zero_iff_general s prec small y (c0 ++ Ks) r hlog
    (by rw [ksOf_homog hs, (own_split s c0 Ks hl).2]; exact hK)
  rw [stoichs_homog hs] at hA
  cases hA
  rwa [ksOf_homog hs, (own_split s c0 Ks hl).1, (own_split s c0 Ks hl).2] at hiff

/-- success characterisation and refusal of the `new_eq_params = False` call -/
theorem lin_own_defined (s : EqSystem) (hs : Homogeneous s) (prec : List Bool) (small : ℝ) (Ks y c0 : List ℝ)
    (hy : y.length = s.ns) (hK : Ks.length = s.nr) (hnr : 0 < s.nr) (hy0 : ∀ x ∈ y, x ≠ 0) :
    (c0.length = s.ns → ∃ r, numSysLinOwnF s prec small Ks y c0 = .ok r) ∧
    (s.ns < c0.length → numSysLinOwnF s prec small Ks y c0 = .error "AssertionError") := by
  refine ⟨fun hc => numSysLinOwnF_defined hs prec small hy hc hK hnr hy0, fun hc => ?_⟩
  unfold numSysLinOwnF ownParams
  simp [hc]

/-- `equilibrium_quotient` on a 2-D array of states (one per row): when no state has a zero entry the call returns, and it
    returns the quotient of every row -/
theorem quotients2d_returns_row_quotients (rows : List (List ℝ)) (st : List ℤ) (h0 : ∀ c ∈ rows, ∀ x ∈ c, x ≠ 0) :
    equilibriumQuotient2d rows st = .ok (rows.map fun c => quotient c st) := by
  obtain ⟨qs, hqs, _⟩ := mapM_ok_of_forall (fun row => equilibriumQuotient row st) rows (fun c hc => by
    refine ⟨prodPowRow c st, ?_⟩
    unfold equilibriumQuotient
    simp [zeroDiv_false_of_ne_zero c st (h0 c hc)])
  have := quotients2d_spec rows st qs hqs
  unfold equilibriumQuotient2d
  rw [hqs, this]

/-! ## Row-reduced configurations (`rref_equil`, `rref_preserv`) -/

/-- **`rref_zero_iff` (logarithmic formulation, every configuration).**  Let the external reducer's outputs satisfy
    `RowEquiv` with what chempy handed to it (`(stoichs | ln ks)` when `rref_equil`, `(B | B·c₀)` when `rref_preserv`).
    Then `NumSysLog.f` in configuration `(re, rp)` vanishes iff the ORIGINAL quotients of `exp y` equal their
    constants and the totals agree — the same right-hand side as `log_zero_iff_general`. -/
theorem rref_zero_iff_log (s : EqSystem) (prec : List Bool) (small : ℝ) (re rp : Bool) (redE redP : Reduced ℝ)
    (y p r : List ℝ) (h : numSysLogCfgF s prec small re rp redE redP y p = .ok r)
    (hK : ∀ k ∈ ksOf s prec small p, 0 < k)
    (hE : re = true → ∀ A, stoichs s (nonPrecipRids s prec) = .ok A →
      RowEquiv s.ns (intMat A) ((ksOf s prec small p).map Real.log) redE.rA redE.rb)
    (hP : rp = true → RowEquiv s.ns (intMat (compMat s)) (totalsOf s p) redP.rA redP.rb) :
    ∃ A, stoichs s (nonPrecipRids s prec) = .ok A ∧
      ((∀ x ∈ r, x = 0) ↔
        (∀ rk ∈ A.zip (ksOf s prec small p), quotient (y.map Real.exp) rk.1 = rk.2) ∧
        (∀ b ∈ compMat s, total b (y.map Real.exp) = total b (initConcsOf s p))) := by
  obtain ⟨A, fp, hA, _, hfp, hr⟩ := numSysLogCfgF_ok h
  refine ⟨A, hA, ?_⟩
  rw [hr, List.forall_mem_append,
    equilLog_zero_iff A (ksOf s prec small p) y re redE hK (fun hre => hE hre A hA),
    preserv_zero_iff hfp hP]

/-- **`rref_zero_iff` (linear formulation, every configuration).**  As above for `NumSysLin.f`; when the equilibrium
    block is row-reduced the reduced exponents are in general fractional, so the state and the constants must be
    positive (Python: a negative base under a fractional exponent is complex/nan). -/
theorem rref_zero_iff_lin (s : EqSystem) (prec : List Bool) (small : ℝ) (re rp : Bool) (redE redP : Reduced ℝ)
    (y p r : List ℝ) (h : numSysLinCfgF s prec small re rp redE redP y p = .ok r)
    (hy : re = true → ∀ x ∈ y, 0 < x) (hK : re = true → ∀ k ∈ ksOf s prec small p, 0 < k)
    (hE : re = true → ∀ A, stoichs s (nonPrecipRids s prec) = .ok A →
      RowEquiv s.ns (intMat A) ((ksOf s prec small p).map Real.log) redE.rA redE.rb)
    (hP : rp = true → RowEquiv s.ns (intMat (compMat s)) (totalsOf s p) redP.rA redP.rb) :
    ∃ A, stoichs s (nonPrecipRids s prec) = .ok A ∧
      ((∀ x ∈ r, x = 0) ↔
        (∀ rk ∈ A.zip (ksOf s prec small p), quotient y rk.1 = rk.2) ∧
        (∀ b ∈ compMat s, total b y = total b (initConcsOf s p))) := by
  obtain ⟨A, fp, hA, _, hfp, _, hr⟩ := numSysLinCfgF_ok h
  refine ⟨A, hA, ?_⟩
  rw [hr, List.forall_mem_append,
    equilLin_zero_iff A (ksOf s prec small p) y re redE hK hy (fun hre => hE hre A hA),
    preserv_zero_iff hfp hP]

/-- squared variables in every configuration: `NumSysSquare.f` is `NumSysLin.f` at `c = y²` (so the iff above applies
    with `c`; this is the statement the seeded mutant "fold the square into the exponents" violates for `re = true`) -/
theorem rref_zero_iff_square (s : EqSystem) (prec : List Bool) (small : ℝ) (re rp : Bool) (redE redP : Reduced ℝ)
    (y p r : List ℝ) (h : numSysSquareCfgF s prec small re rp redE redP y p = .ok r)
    (hy : re = true → ∀ x ∈ y, x ≠ 0) (hK : re = true → ∀ k ∈ ksOf s prec small p, 0 < k)
    (hE : re = true → ∀ A, stoichs s (nonPrecipRids s prec) = .ok A →
      RowEquiv s.ns (intMat A) ((ksOf s prec small p).map Real.log) redE.rA redE.rb)
    (hP : rp = true → RowEquiv s.ns (intMat (compMat s)) (totalsOf s p) redP.rA redP.rb) :
    ∃ A, stoichs s (nonPrecipRids s prec) = .ok A ∧
      ((∀ x ∈ r, x = 0) ↔
        (∀ rk ∈ A.zip (ksOf s prec small p), quotient (y.map fun yi => yi * yi) rk.1 = rk.2) ∧
        (∀ b ∈ compMat s, total b (y.map fun yi => yi * yi) = total b (initConcsOf s p))) :=
  rref_zero_iff_lin s prec small re rp redE redP _ p r h
    (fun hre x hx => by
      simp only [List.mem_map] at hx
      obtain ⟨yi, hyi, rfl⟩ := hx
      exact mul_self_pos.mpr (hy hre yi hyi))
    hK hE hP

/-- success characterisation of the configurable calls: for a homogeneous system with at least one reaction and
    well-shaped arguments they return.  With an unreduced equilibrium block the state must have no zero entry
    (ZeroDivisionError otherwise).  With a reduced block the claim is made only for positive states: there Python and
    the model compute the same numbers; at a zero or negative entry Python does not raise either but yields `zoo` /
    complex values under the fractional reduced exponents where `Real.rpow` is totalised (both non-zero, the model is
    never compared there), and with a constant `0` (`small` of a switched-off solid) Python takes `log(0)`. -/
theorem lin_cfg_defined (s : EqSystem) (hs : Homogeneous s) (prec : List Bool) (small : ℝ) (re rp : Bool)
    (redE redP : Reduced ℝ) (y p : List ℝ) (hshape : shapeOk s y p = true) (hnr : 0 < s.nr)
    (hy : re = false → ∀ x ∈ y, x ≠ 0) (_hpos : re = true → (∀ x ∈ y, 0 < x) ∧ ∀ k ∈ ksOf s prec small p, 0 < k) :
    ∃ r, numSysLinCfgF s prec small re rp redE redP y p = .ok r :=
  numSysLinCfgF_defined hs prec small re rp redE redP hshape hnr hy

/-! ## The reducer hypothesis, kernel-checked for the conservation block

`RowEquiv` is no longer a free hypothesis for `rref_preserv`: the model function `preservCert` (decidable, over ℚ) checks
weights `P`, `L` with `(B'|b') = P·(B|B·c₀)` and `(B|B·c₀) = L·(B'|b')` against the reducer's output, and a successful
check IS the hypothesis.  The driver evaluates `preservCert` on the real `linear_rref(B, B·c₀)` output of every generated
`rref_preserv` case (op `preserv_cert`). -/

/-- **Certificate soundness.**  If `rowEquivCert n P L A b A' b' = true` then the (cast) rational augmented systems
    `(A|b)` and `(A'|b')` satisfy `RowEquiv` — the hypothesis of the `rref_zero_iff_*` theorems. -/
theorem reducer_certificate_sound (n : ℕ) (P L A : List (List ℚ)) (b : List ℚ) (A' : List (List ℚ)) (b' : List ℚ)
    (h : rowEquivCert n P L A b A' b' = true) : RowEquiv n (castM A) (castL b) (castM A') (castL b') :=
  rowEquivCert_sound n P L A b A' b' h

/-- **`rref_preserv = True`, certified (linear formulation, hence Square / LinRel through their state).**
    Homogeneous system, rational initial concentrations `c₀`, reducer output `red` for the conservation system, and a
    certificate accepted by the model (`preservCert … = true`): the residual of `NumSysLin(rref_preserv=True).f`
    vanishes iff `Q_i(y) = K_i` for every reaction and `B·y = B·c₀` — with NO hypothesis on the reducer left. -/
theorem rref_preserv_zero_iff_certified (s : EqSystem) (hs : Homogeneous s) (prec : List Bool) (small : ℝ)
    (c0 : List ℚ) (P L : List (List ℚ)) (red : Reduced ℚ) (redE : Reduced ℝ) (y p r : List ℝ)
    (hp : initConcsOf s p = castL c0) (hcert : preservCert s c0 P L red = true)
    (h : numSysLinCfgF s prec small false true redE ⟨castM red.rA, castL red.rb⟩ y p = .ok r) :
    (∀ x ∈ r, x = 0) ↔
      (∀ νK ∈ (netStoichs s).zip (eqParamsOf s p), quotient y νK.1 = νK.2) ∧
      (∀ b ∈ compMat s, total b y = total b (initConcsOf s p)) := by
  obtain ⟨A, hA, hiff⟩ := rref_zero_iff_lin s prec small false true redE ⟨castM red.rA, castL red.rb⟩ y p r h
    (by simp) (by simp) (by simp) (fun _ => preservCert_sound s c0 P L red hcert p hp)
  rw [stoichs_homog hs] at hA
  cases hA
  rwa [ksOf_homog hs] at hiff

/-- the same for the logarithmic formulation (positive constants) -/
theorem rref_preserv_zero_iff_certified_log (s : EqSystem) (hs : Homogeneous s) (prec : List Bool) (small : ℝ)
    (c0 : List ℚ) (P L : List (List ℚ)) (red : Reduced ℚ) (redE : Reduced ℝ) (y p r : List ℝ)
    (hp : initConcsOf s p = castL c0) (hK : ∀ k ∈ eqParamsOf s p, 0 < k) (hcert : preservCert s c0 P L red = true)
    (h : numSysLogCfgF s prec small false true redE ⟨castM red.rA, castL red.rb⟩ y p = .ok r) :
    (∀ x ∈ r, x = 0) ↔
      (∀ νK ∈ (netStoichs s).zip (eqParamsOf s p), quotient (logPost y) νK.1 = νK.2) ∧
      (∀ b ∈ compMat s, total b (logPost y) = total b (initConcsOf s p)) := by
  obtain ⟨A, hA, hiff⟩ := rref_zero_iff_log s prec small false true redE ⟨castM red.rA, castL red.rb⟩ y p r h
    (by rw [ksOf_homog hs]; exact hK) (by simp) (fun _ => preservCert_sound s c0 P L red hcert p hp)
  rw [stoichs_homog hs] at hA
  cases hA
  rw [ksOf_homog hs] at hiff
  exact hiff

/-- **`rref_equil = True`, certified in log coordinates.**  Homogeneous system, positive state, positive constants.
    Let `E`, `E'` be rational coordinate matrices with `ln K_i = Σ_k E_ik·λ_k` and (reduced column) `rb_j = Σ_k E'_jk·λ_k`
    for some real vector `λ` (the logs of the primes occurring in the rational constants), let the reduced rows be the
    rational matrix `A'`, and let the model accept the certificate (`equilCertSys … = true`).  Then the residual of
    `NumSysLin(rref_equil=True, rref_preserv=rp).f` vanishes iff `Q_i(y) = K_i` for every reaction and the totals agree.
    What is left as hypothesis are the two coordinate identities `hks`, `hrb` (number identities, checked exactly by the
    harness through prime factorisation) and, for `rp = true`, `hP` (dischargeable by `preservCert`). -/
theorem rref_equil_zero_iff_certified (s : EqSystem) (hs : Homogeneous s) (prec : List Bool) (small : ℝ) (rp : Bool)
    (m : ℕ) (P L E A' E' : List (List ℚ)) (lam : List ℝ) (redE redP : Reduced ℝ) (y p r : List ℝ)
    (hy : ∀ x ∈ y, 0 < x) (hK : ∀ k ∈ eqParamsOf s p, 0 < k)
    (hks : (eqParamsOf s p).map Real.log = colOf E lam) (hrA : redE.rA = castM A') (hrb : redE.rb = colOf E' lam)
    (hcert : equilCertSys s m P L E A' E' = true)
    (hP : rp = true → RowEquiv s.ns (intMat (compMat s)) (totalsOf s p) redP.rA redP.rb)
    (h : numSysLinCfgF s prec small true rp redE redP y p = .ok r) :
    (∀ x ∈ r, x = 0) ↔
      (∀ νK ∈ (netStoichs s).zip (eqParamsOf s p), quotient y νK.1 = νK.2) ∧
      (∀ b ∈ compMat s, total b y = total b (initConcsOf s p)) := by
  have hre : RowEquiv s.ns (intMat (netStoichs s)) ((eqParamsOf s p).map Real.log) redE.rA redE.rb := by
    have := equilCert_sound s.ns m P L _ E A' E' lam hcert
    rwa [castM_intMat, ← hks, ← hrA, ← hrb] at this
  obtain ⟨A, hA, hiff⟩ := rref_zero_iff_lin s prec small true rp redE redP y p r h
    (fun _ => hy) (fun _ => by rw [ksOf_homog hs]; exact hK)
    (fun _ A hA => by
      rw [stoichs_homog hs] at hA
      cases hA
      rw [ksOf_homog hs]
      exact hre) hP
  rw [stoichs_homog hs] at hA
  cases hA
  rwa [ksOf_homog hs] at hiff

/-- **`rref_equil = True`, constants certified too.**  The constants are given as rationals `ks` and the model checks
    (`equilCertFull`) that `K_i = ∏_k p_k^{E_ik}` for positive integer bases `p` (so `ln K = E·ln p`, and `K > 0`, are
    THEOREMS here, not hypotheses) and that the reduced rows / log coordinates are row-equivalent.  The only thing still
    assumed about the reducer is that its (symbolic) right-hand side is the number `rb_j = Σ_k E'_jk · ln p_k`. -/
theorem rref_equil_zero_iff_certified_constants (s : EqSystem) (hs : Homogeneous s) (prec : List Bool) (small : ℝ)
    (rp : Bool) (ps : List ℕ) (E : List (List ℤ)) (ks : List ℚ) (P L A' E' : List (List ℚ))
    (redE redP : Reduced ℝ) (y p r : List ℝ)
    (hy : ∀ x ∈ y, 0 < x) (hp : eqParamsOf s p = castL ks)
    (hrA : redE.rA = castM A') (hrb : redE.rb = colOf E' (ps.map fun (q : ℕ) => Real.log (q : ℝ)))
    (hcert : equilCertFull s ps E ks P L A' E' = true)
    (hP : rp = true → RowEquiv s.ns (intMat (compMat s)) (totalsOf s p) redP.rA redP.rb)
    (h : numSysLinCfgF s prec small true rp redE redP y p = .ok r) :
    (∀ x ∈ r, x = 0) ↔
      (∀ νK ∈ (netStoichs s).zip (eqParamsOf s p), quotient y νK.1 = νK.2) ∧
      (∀ b ∈ compMat s, total b y = total b (initConcsOf s p)) := by
  simp only [equilCertFull, Bool.and_eq_true] at hcert
  obtain ⟨hk, he⟩ := hcert
  exact rref_equil_zero_iff_certified s hs prec small rp ps.length P L (intMat E) A' E' _ redE redP y p r hy
    (by rw [hp]; exact ksCert_pos ps E ks hk) (by rw [hp]; exact ksCert_sound ps E ks hk) hrA hrb he hP h

/-- **Witness: outside the positive orthant the zero set depends on the configuration.**  `2 NO2 = N2O4`, `K = 4`, state
    `(-1, 4)`: the unreduced equilibrium entry `(-1)^(-2)·4/4 - 1` is `0`, whereas with `rref_equil=True` the reduced row
    `(1, -1/2 | -ln 2)` gives `(-1)^1·4^(-1/2) / exp(-ln 2) - 1 = -2` (the value the real code returns, too).  This is why
    `rref_zero_iff_lin` and the certified theorems need a positive state; on positive states all configurations agree. -/
theorem reduced_block_differs_off_orthant_witness :
    equilResidual (prodPowRow ([-1, 4] : List ℝ) [-2, 1]) 4 = 0 ∧
    equilResidual (prodPowRowR ([-1, 4] : List ℝ) [1, -1 / 2]) (Real.exp (-Real.log 2)) = -2 := by
  constructor
  · rw [equilResidual_eq_zero_iff, prodPowRow_real]
    norm_num [quotient]
  · have hk : Real.exp (-Real.log 2) = 1 / 2 := by
      rw [Real.exp_neg, Real.exp_log (by norm_num)]; norm_num
    have hq : prodPowRowR ([-1, 4] : List ℝ) [1, -1 / 2] = -1 / 2 := by
      unfold prodPowRowR
      rw [foldl_mul_real, one_real, one_mul]
      simp only [List.zipWith_cons_cons, List.zipWith_nil_right, List.prod_cons, List.prod_nil, mul_one]
      show Real.rpow (-1) 1 * Real.rpow 4 (-1 / 2) = -1 / 2
      rw [four_rpow_neg_half]
      show (-1 : ℝ) ^ (1 : ℝ) * (1 / 2) = -1 / 2
      rw [Real.rpow_one]
      norm_num
    rw [hk, hq]
    unfold equilResidual
    rw [beq_zero_real]
    norm_num

/-! ## Non-vacuity: a concrete instance (water autoprotolysis, exact over ℚ) -/

/-- `H2O = H+ + OH-` with species `H2O, H+, OH-` (compositions as produced by `Species.from_formula`) -/
def water : EqSystem :=
  { rxns := [{ reac := [("H2O", 1)], prod := [("H+", 1), ("OH-", 1)] }],
    substances := [("H2O", { comp := [(1, 2), (8, 1)] }), ("H+", { comp := [(1, 1), (0, 1)] }),
                   ("OH-", { comp := [(8, 1), (1, 1), (0, -1)] })] }

example : Homogeneous water := by
  intro kv hkv
  simp [water] at hkv
  rcases hkv with rfl | rfl | rfl <;> rfl

example : Balanced water := by
  intro b hb ν hν
  simp [compMat, compositionBalanceVectors, compositionKeys, insertSorted, water, cget, List.lookup] at hb
  simp [netStoichs, netStoich, netCoeff, dget, water, List.lookup] at hν
  subst hν
  rcases hb with rfl | rfl | rfl <;> decide

/-- the reducer hypothesis is satisfiable: `2 NO2 = N2O4` (row `(-2, 1 | β)`, `β = ln K`) and its reduced row echelon
    form `(1, -1/2 | -β/2)` — the fractional-exponent situation of `rref_equil` — are row-equivalent -/
example (β : ℝ) : RowEquiv 2 [[-2, 1]] [β] [[1, -1 / 2]] [-β / 2] where
  len := rfl
  len' := rfl
  width := by simp
  width' := by simp
  fwd := by
    intro rb hrb
    simp at hrb
    subst hrb
    exact ⟨[-1 / 2], by norm_num [lincomb, List.replicate], by simp [dotR]; ring⟩
  bwd := by
    intro rb hrb
    simp at hrb
    subst hrb
    exact ⟨[-2], by norm_num [lincomb, List.replicate], by simp [dotR]; ring⟩

example : ∀ kv ∈ water.substances, HasElement kv.2 := by
  intro kv hkv
  simp [water] at hkv
  rcases hkv with rfl | rfl | rfl <;> exact ⟨by decide, by decide⟩

/-- the certificate is satisfiable and discriminating: for water, `c₀ = (55, 1/4, 1/8)`, the conservation system
    `(B | B·c₀)` (keys charge, H, O; rank 2) and its reduced row echelon form `((1,0,1 | 441/8), (0,1,-1 | 1/8))`
    are accepted with `P = (e₃, e₁)`, `L = (e₂, 2e₁+e₂, e₁)`; a wrong right-hand side is rejected -/
example : preservCert water [55, 1 / 4, 1 / 8] [[0, 0, 1], [1, 0, 0]] [[0, 1], [2, 1], [1, 0]]
    ⟨[[1, 0, 1], [0, 1, -1]], [441 / 8, 1 / 8]⟩ = true := by decide +kernel

example : preservCert water [55, 1 / 4, 1 / 8] [[0, 0, 1], [1, 0, 0]] [[0, 1], [2, 1], [1, 0]]
    ⟨[[1, 0, 1], [0, 1, -1]], [441 / 8, 1 / 4]⟩ = false := by decide +kernel

/-- the equilibrium-block certificate is satisfiable and discriminating: rows `(1,-1,0)`, `(0,1,-1)` with constants
    `K = (2, 12)`, i.e. log coordinates over `(ln 2, ln 3)`: `E = ((1,0),(2,1))`; reduced form `(1,0,-1 | ln 24)`,
    `(0,1,-1 | ln 12)`, i.e. `E' = ((3,1),(2,1))`; accepted with `P = ((1,1),(0,1))`, `L = ((1,-1),(0,1))`; a wrong reduced
    constant (`ln 72` instead of `ln 24`) is rejected -/
example : equilCert 3 2 [[1, 1], [0, 1]] [[1, -1], [0, 1]]
    [[1, -1, 0], [0, 1, -1]] [[1, 0], [2, 1]] [[1, 0, -1], [0, 1, -1]] [[3, 1], [2, 1]] = true := by decide +kernel

example : equilCert 3 2 [[1, 1], [0, 1]] [[1, -1], [0, 1]]
    [[1, -1, 0], [0, 1, -1]] [[1, 0], [2, 1]] [[1, 0, -1], [0, 1, -1]] [[3, 2], [2, 1]] = false := by decide +kernel

/-- the constants certificate: `K = (2, 12) = (2¹·3⁰, 2²·3¹)` over the bases `(2, 3)` is accepted, `K = (2, 13)` is not -/
example : ksCert [2, 3] [[1, 0], [2, 1]] [2, 12] = true := by decide +kernel
example : ksCert [2, 3] [[1, 0], [2, 1]] [2, 13] = false := by decide +kernel

/-- at the exactly constructed equilibrium (c = (55, 1e-7, 1e-7), K = Q(c), c₀ = c − ξ·ν) all four equations vanish -/
example : numSysLinF (α := Rat) water [] 0 [55, 1 / 10000000, 1 / 10000000]
    [55 + 1 / 10000000, 0, 0, 1 / 5500000000000000] = .ok [0, 0, 0, 0] := by decide +kernel

/-- with a wrong constant only the equilibrium entry is non-zero; with wrong totals only conservation entries -/
example : numSysLinF (α := Rat) water [] 0 [55, 1 / 10000000, 1 / 10000000]
    [55 + 1 / 10000000, 0, 0, 1 / 11000000000000000] = .ok [1, 0, 0, 0] := by decide +kernel

example : numSysLinF (α := Rat) water [] 0 [55, 1 / 10000000, 1 / 10000000]
    [55, 1 / 10000000, 0, 1 / 5500000000000000] = .ok [0, -1 / 10000000, 1 / 10000000, 1 / 10000000] := by decide +kernel

/-- a zero concentration under a negative exponent raises, as in Python -/
example : numSysLinF (α := Rat) water [] 0 [0, 1, 1] [1, 1, 1, 1] = .error "ZeroDivisionError" := by decide +kernel

/-! ## Outside the property's quantifier (heterogeneous systems): a defect mirrored by the model -/

/-- `NaCl(s) = Na+ + Cl-` (solid written as reactant) -/
def saltReactant : EqSystem :=
  { rxns := [{ reac := [("NaCl(s)", 1)], prod := [("Na+", 1), ("Cl-", 1)] }],
    substances := [("Na+", { comp := [(11, 1), (0, 1)] }), ("Cl-", { comp := [(17, 1), (0, -1)] }),
                   ("NaCl(s)", { comp := [(11, 1), (17, 1)], phaseIdx := 1 })] }

/-- the same equilibrium written as `Na+ + Cl- = NaCl(s)` (solid as product, `K = 1/Ksp`) -/
def saltProduct : EqSystem :=
  { saltReactant with rxns := [{ reac := [("Na+", 1), ("Cl-", 1)], prod := [("NaCl(s)", 1)] }] }

/-- **Defect witness (reported; relevant to C08).**  With `precipitates = (False,)` the row of a
    phase-transfer reaction is `-precipitate_stoich` and its constant `small = 0`, so the residual is
    `[solid]^(-ν_solid)`.  For a solid written as reactant this is `[solid]`, which vanishes at the solid-free
    state; for a solid written as PRODUCT it is `1/[solid]`: the call raises ZeroDivisionError at the
    solid-free state (and is non-zero everywhere else), so that formulation has no root at all. -/
theorem product_side_solid_defect_witness :
    numSysLinF (α := Rat) saltReactant [false] 0 [6, 6, 0] [6, 6, 0, 36] = .ok [0, 0, 0, 0] ∧
    numSysLinF (α := Rat) saltProduct [false] 0 [6, 6, 0] [6, 6, 0, 1 / 36] = .error "ZeroDivisionError" ∧
    numSysLinF (α := Rat) saltProduct [false] 0 [6, 6, 1 / 2] [6, 6, 1 / 2, 1 / 36] = .ok [2, 0, 0, 0] := by
  decide +kernel

end ChemModel.C07
