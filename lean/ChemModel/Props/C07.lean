import ChemModel.Model.EqSys
namespace ChemModel.C07
theorem placeholder : (1 : Nat) = 1 := rfl
end ChemModel.C07
