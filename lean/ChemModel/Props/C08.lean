/-
C08 — reported equilibrium compositions are genuine whenever the solver claims success   (PARTIAL)

Property text: "Whenever an equilibrium calculation reports success and a sane result, the returned concentrations are
non-negative, carry exactly the elements and charge of the initial state, and satisfy Q = K for every homogeneous
equilibrium; for a sparingly soluble phase either the solid is present and its solubility product is met or it is absent
and the ion product does not exceed it.  On well-conditioned homogeneous systems … the default solver chain does report
success (≥ 19 of 20), and single-equilibrium problems agree with the bracketing scalar solver."

What a theorem can reach here is the logic chempy itself contributes (model: `ChemModel/Model/EqSolve.lean`, tied to the
source by the exact correspondence ops of `tools/harness/c08.py`):
the sanity check, the elemental upper bounds it uses, `dissolved`, the two precipitation switch callbacks,
`non_precip_rids`, and bracket + residual of the scalar solver.   NOT provable (runtime behaviour of pyneqsys / scipy, sampled
by the harness): that a run converges, what `sol['success']` means, the ≥ 19/20 rate, agreement with `brentq`.
The full-strength statement that stays open is therefore

    ∀ system, init, chain:  root(init) = (x, sol, sane) ∧ sol.success ∧ sane  →  genuine x        -- `success_implies_genuine`

of which the theorems below prove the `sane` half (`sane_spec`: non-negative and within the elemental bounds), the
consistency of that check with genuineness (`upper_bound_valid`, `genuine_state_is_sane`) and the correctness of every
piece of chempy's own switching / bracketing logic.  "Residual zero ⇒ Q = K ∧ totals preserved" for the vector
formulations is C07 (`Model/EqSys.lean`).

All theorems hold over an arbitrary linearly ordered field `α` (ℚ for the executable model, ℝ for "real" concentrations).
-/
import ChemModel.Proofs.EqSolve

namespace ChemModel.C08
open ChemModel.EqSolve

variable {α : Type} [Field α] [LinearOrder α] [IsStrictOrderedRing α]

/-- **sane_spec.** `_result_is_sane(init, x, rtol)` returns `True` exactly when the elemental bounds can be computed, `x` has one
    entry per substance, every entry is `≥ 0` (no tolerance: a negative entry, however tiny, is insane) and every entry is
    `≤ bound·(1+rtol)` (an unbounded substance — one without non-charge components — is never "too much"). -/
theorem sane_spec (rtol : α) (comps : List (Comp α)) (init x : List α) :
    resultIsSane rtol comps init x = .ok true ↔
      ∃ ub, upperConcBounds comps init = .ok ub ∧ x.length = ub.length ∧
        (∀ i (hi : i < x.length), 0 ≤ x[i]) ∧
        (∀ i (hi : i < x.length) (b : α), ub[i]? = some (some b) → x[i] ≤ b * (1 + rtol)) :=
  resultIsSane_eq_ok_true_iff rtol comps init x

/-- a strictly negative concentration — of any size — is never reported as sane -/
theorem sane_rejects_any_negative (rtol : α) (comps : List (Comp α)) (init x : List α)
    (i : Nat) (hi : i < x.length) (hneg : x[i] < 0) : resultIsSane rtol comps init x ≠ .ok true := by
  intro h
  obtain ⟨_, _, _, hnn, _⟩ := (sane_spec rtol comps init x).mp h
  exact absurd (hnn i hi) (not_le.mpr hneg)

/-- an entry above `bound·(1+rtol)` is never reported as sane -/
theorem sane_rejects_excess (rtol : α) (comps : List (Comp α)) (init x : List α) (ub : List (Option α))
    (hub : upperConcBounds comps init = .ok ub)
    (i : Nat) (hi : i < x.length) (b : α) (hb : ub[i]? = some (some b)) (hex : b * (1 + rtol) < x[i]) :
    resultIsSane rtol comps init x ≠ .ok true := by
  intro h
  obtain ⟨ub', hub', _, _, hle⟩ := (sane_spec rtol comps init x).mp h
  rw [hub] at hub'
  cases hub'
  exact absurd (hle i hi b hb) (not_le.mpr hex)

/-- the default tolerances in the source: `_result_is_sane(..., rtol=1e-9)`, `_fw_cond_factory(ri, rtol=1e-14)` -/
theorem default_rtols : (saneRtolDefault : ℚ) = 1 / 10 ^ 9 ∧ (fwRtolDefault : ℚ) = 1 / 10 ^ 14 := by
  constructor <;> decide +kernel

/-- **upper_bound_valid.** The bound of `upper_conc_bounds` is a genuine bound: with non-negative composition coefficients
    (charge excluded) and strictly positive ones for substance `i`, no non-negative state `y` that carries the same
    element totals as `init` has more of substance `i` than `ub i`. -/
theorem upper_bound_valid (comps : List (Comp α)) (init y : List α) (ub : List (Option α))
    (hub : upperConcBounds comps init = .ok ub) (hylen : y.length = comps.length)
    (hy : ∀ v ∈ y, 0 ≤ v) (hc : ∀ comp ∈ comps, ∀ p ∈ comp, p.1 ≠ 0 → 0 ≤ p.2)
    (htot : ∀ k, k ≠ 0 → compositionConc comps y k = compositionConc comps init k)
    (i : Nat) (hi : i < comps.length) (b : α) (hb : ub[i]? = some (some b))
    (hpos : ∀ p ∈ comps[i], p.1 ≠ 0 → 0 < p.2) :
    y[i]'(hylen ▸ hi) ≤ b :=
  upperConcBounds_valid comps init y ub hub hylen hy hc htot i hi b hb hpos

/-- **the sanity check never rejects a genuine composition** (exact arithmetic): a non-negative state with the element totals
    of the initial state passes `_result_is_sane` for every `rtol ≥ 0`. -/
theorem genuine_state_is_sane (rtol : α) (hr : 0 ≤ rtol) (comps : List (Comp α)) (init y : List α) (ub : List (Option α))
    (hub : upperConcBounds comps init = .ok ub) (hylen : y.length = comps.length)
    (hy : ∀ v ∈ y, 0 ≤ v) (hc : ∀ comp ∈ comps, ∀ p ∈ comp, p.1 ≠ 0 → 0 < p.2)
    (htot : ∀ k, k ≠ 0 → compositionConc comps y k = compositionConc comps init k) :
    resultIsSane rtol comps init y = .ok true := by
  rw [sane_spec]
  have hul : ub.length = comps.length := by
    unfold upperConcBounds at hub
    split_ifs at hub
    exact (mapM_ok _ _ hub).length_eq.symm
  refine ⟨ub, hub, by omega, fun i hi => hy _ (List.getElem_mem _), fun i hi b hb => ?_⟩
  have hic : i < comps.length := by omega
  have hle := upper_bound_valid comps init y ub hub hylen hy (fun comp hcomp p hp hk => (hc comp hcomp p hp hk).le) htot i hic b hb
    (fun p hp hk => hc _ (List.getElem_mem _) p hp hk)
  have h0 : 0 ≤ y[i] := hy _ (List.getElem_mem _)
  nlinarith

/-- **dissolved_spec.** `dissolved(c)` (i) keeps the length, (ii) conserves every linear invariant `b·c` that each
    phase-transfer reaction conserves (`b·ν = 0` — for a balanced system: every element total and the charge), and
    (iii) leaves nothing of the (single) solid of any phase-transfer reaction. -/
theorem dissolved_spec (phases : List Nat) (rxns : List Rxn) (c c' : List α) (h : dissolved phases rxns c = .ok c') :
    c'.length = c.length ∧
    (∀ b : List α, (∀ r ∈ rxns, hasPrecipitates phases r = .ok true →
        dot b ((netStoich phases.length r).map fun n => ((n : Int) : α)) = 0) → dot b c' = dot b c) ∧
    (∀ r ∈ rxns, hasPrecipitates phases r = .ok true → ∀ net s idx, precipitateStoich phases r = .ok (net, s, idx) →
        c'[idx.toNat]? = some 0) :=
  ⟨dissolved_length phases rxns c c' h, fun b hb => dissolved_dot phases b rxns c c' h hb,
   dissolved_zeroes phases rxns c c' h⟩

/-- what `precipitate_stoich` hands to the callbacks: the coefficient `s ≠ 0` belongs to the unique substance `idx` of a
    non-zero phase taking part (net) in the reaction -/
theorem precipitate_stoich_spec (phases : List Nat) (r : Rxn) (net : List Int) (s idx : Int)
    (h : precipitateStoich phases r = .ok (net, s, idx)) (hs : s ≠ 0) :
    0 ≤ idx ∧ ∃ hk : idx.toNat < phases.length, phases[idx.toNat] > 0 ∧ r.net idx.toNat = s ∧
      ∀ j (hj : j < phases.length), j ≠ idx.toNat → phases[j] > 0 → r.net j = 0 :=
  (precipitateStoich_spec phases r net s idx h).2 hs

/-- **switch_conditions_spec (forward).** `fw_cond(x)` looks at the fully dissolved state `d = dissolved(x)` and at
    `q = ∏ dᵢ^νᵢ` over the species of phase 0 (the ion quotient):
    solid on the product side (`s > 0`, `K = 1/Ksp`): "solid present" ⇔ `q·(1+rtol) < K`;
    solid on the reactant side (`s < 0`, `K = Ksp`):  "solid present" ⇔ `K·(1+rtol) < q`.
    In both readings: the solid is switched on exactly when the fully dissolved solution would be super-saturated by more
    than `rtol`. -/
theorem switch_conditions_spec (rtol : α) (phases : List Nat) (rxns : List Rxn) (r : Rxn) (k : α) (x : List α) (b : Bool)
    (h : fwCond rtol phases rxns r k x = .ok b) :
    ∃ net s idx d q, precipitateStoich phases r = .ok (net, s, idx) ∧ dissolved phases rxns x = .ok d ∧
      rxnQ phases r d = .ok q ∧ q = quotient d (nonPrecipitateStoich phases r) ∧
      ((0 < s ∧ (b = true ↔ q * (1 + rtol) < k)) ∨ (s < 0 ∧ (b = true ↔ k * (1 + rtol) < q))) := by
  obtain ⟨net, s, idx, d, q, h1, h2, h3, h4⟩ := fwCond_spec rtol phases rxns r k x b h
  exact ⟨net, s, idx, d, q, h1, h2, h3, eqQuotient_ok _ _ _ h3, h4⟩

/-- **switch_conditions_spec (backward).** Once on, the solid stays on exactly while its amount is `≥ small`. -/
theorem backward_condition_spec (small : α) (phases : List Nat) (r : Rxn) (x : List α) (b : Bool)
    (h : bwCond small phases r x = .ok b) :
    ∃ net s idx xi, precipitateStoich phases r = .ok (net, s, idx) ∧ pyIndex x idx = some xi ∧
      (b = true ↔ small ≤ xi) :=
  bwCond_spec small phases r x b h

/-- `non_precip_rids(precipitates)`: the phase-transfer reactions whose flag (by position) is `False` -/
theorem non_precip_rids_spec (phases : List Nat) (rxns : List Rxn) (precipitates : List Bool) (out : List Nat)
    (h : nonPrecipRids phases rxns precipitates = .ok out) :
    ∃ pt, phaseTransferIdxs phases rxns = .ok pt ∧
      ∀ i, i ∈ out ↔ ∃ j : Nat, pt[j]? = some i ∧ precipitates[j]? = some false := by
  unfold nonPrecipRids at h
  simp only [bind, Except.bind] at h
  split at h
  · cases h
  · rename_i pt hpt
    simp only [pure, Except.pure, Except.ok.injEq] at h
    subst h
    exact ⟨pt, hpt, fun i => mem_zipNotPrecip pt precipitates i⟩

/-- **rc_interval_keeps_nonneg.** For strictly positive concentrations every reaction coordinate inside the bracket returned by
    `_get_rc_interval` keeps every concentration `c0ᵢ + νᵢ·rc` non-negative. -/
theorem rc_interval_keeps_nonneg (stoich : List Int) (c0 : List α) (lo up : α)
    (h : getRcInterval stoich c0 = .ok (lo, up)) (hpos : ∀ v ∈ c0, 0 < v)
    (rc : α) (hlo : lo ≤ rc) (hup : rc ≤ up) (j : Nat) (hj : j < stoich.length) (hjc : j < c0.length) :
    0 ≤ c0[j] + ((stoich[j] : Int) : α) * rc := by
  obtain ⟨hlen, hnz, _, _, _, hU, hL, _, _⟩ := getRcInterval_spec stoich c0 lo up h
  have hc : 0 < c0[j] := hpos _ (List.getElem_mem _)
  have hs : ((stoich[j] : Int) : α) ≠ 0 := by exact_mod_cast hnz j hj
  rcases lt_or_gt_of_ne hs with hneg | hposs
  · have hlim : c0[j] / ((stoich[j] : Int) : α) < 0 := div_neg_of_pos_of_neg hc hneg
    have h1 := hU j hj hlim
    have h2 : rc ≤ -(c0[j] / ((stoich[j] : Int) : α)) := le_trans hup h1
    have h3 : ((stoich[j] : Int) : α) * -(c0[j] / ((stoich[j] : Int) : α)) ≤ ((stoich[j] : Int) : α) * rc :=
      mul_le_mul_of_nonpos_left h2 hneg.le
    have h4 : ((stoich[j] : Int) : α) * -(c0[j] / ((stoich[j] : Int) : α)) = -c0[j] := by field_simp
    linarith
  · have hlim : 0 < c0[j] / ((stoich[j] : Int) : α) := div_pos hc hposs
    have h1 := hL j hj hlim
    have h2 : -(c0[j] / ((stoich[j] : Int) : α)) ≤ rc := le_trans h1 hlo
    have h3 : ((stoich[j] : Int) : α) * -(c0[j] / ((stoich[j] : Int) : α)) ≤ ((stoich[j] : Int) : α) * rc :=
      mul_le_mul_of_nonneg_left h2 hposs.le
    have h4 : ((stoich[j] : Int) : α) * -(c0[j] / ((stoich[j] : Int) : α)) = -c0[j] := by field_simp
    linarith

/-- **the bracket is the largest such interval** (strictly positive concentrations): beyond the upper end a reactant, below the
    lower end a product becomes negative — on each side on which a species limits the coordinate at all (with no reactant the
    code returns `upper = 0`, with no product `lower = 0`); and it always contains `rc = 0` and is not the single point `{0}`. -/
theorem rc_interval_maximal (stoich : List Int) (c0 : List α) (lo up : α)
    (h : getRcInterval stoich c0 = .ok (lo, up)) (hpos : ∀ v ∈ c0, 0 < v) :
    lo ≤ 0 ∧ 0 ≤ up ∧ lo < up ∧
    (∀ rc, up < rc → (∃ j, ∃ hj : j < stoich.length, stoich[j] < 0) →
      ∃ j, ∃ hj : j < stoich.length, ∃ hjc : j < c0.length, c0[j] + ((stoich[j] : Int) : α) * rc < 0) ∧
    (∀ rc, rc < lo → (∃ j, ∃ hj : j < stoich.length, 0 < stoich[j]) →
      ∃ j, ∃ hj : j < stoich.length, ∃ hjc : j < c0.length, c0[j] + ((stoich[j] : Int) : α) * rc < 0) := by
  obtain ⟨hlen, hnz, hlo0, hup0, hne, _, _, hUa, hLa⟩ := getRcInterval_spec stoich c0 lo up h
  refine ⟨hlo0, hup0, ?_, ?_, ?_⟩
  · rcases hne with h1 | h1
    · exact lt_of_lt_of_le (lt_of_le_of_ne hlo0 h1) hup0
    · exact lt_of_le_of_lt hlo0 (lt_of_le_of_ne hup0 (Ne.symm h1))
  · rintro rc hrc ⟨j, hj, hsj⟩
    have hjc : j < c0.length := hlen ▸ hj
    have hsα : ((stoich[j] : Int) : α) < 0 := by exact_mod_cast hsj
    obtain ⟨j', hj', hlt, hupe⟩ := hUa ⟨j, hj, div_neg_of_pos_of_neg (hpos _ (List.getElem_mem _)) hsα⟩
    have hjc' : j' < c0.length := hlen ▸ hj'
    have hc : 0 < c0[j'] := hpos _ (List.getElem_mem _)
    have hs' : ((stoich[j'] : Int) : α) < 0 := by
      by_contra hcon
      have : 0 ≤ c0[j'] / ((stoich[j'] : Int) : α) := div_nonneg hc.le (not_lt.mp hcon)
      exact absurd hlt (not_lt.mpr this)
    refine ⟨j', hj', hjc', ?_⟩
    have h3 : ((stoich[j'] : Int) : α) * rc < ((stoich[j'] : Int) : α) * up := mul_lt_mul_of_neg_left hrc hs'
    have hne' : ((stoich[j'] : Int) : α) ≠ 0 := hs'.ne
    have h4 : ((stoich[j'] : Int) : α) * up = -c0[j'] := by rw [hupe]; field_simp
    linarith
  · rintro rc hrc ⟨j, hj, hsj⟩
    have hjc : j < c0.length := hlen ▸ hj
    have hsα : (0 : α) < ((stoich[j] : Int) : α) := by exact_mod_cast hsj
    obtain ⟨j', hj', hgt, hloe⟩ := hLa ⟨j, hj, div_pos (hpos _ (List.getElem_mem _)) hsα⟩
    have hjc' : j' < c0.length := hlen ▸ hj'
    have hc : 0 < c0[j'] := hpos _ (List.getElem_mem _)
    have hs' : (0 : α) < ((stoich[j'] : Int) : α) := by
      by_contra hcon
      have : c0[j'] / ((stoich[j'] : Int) : α) ≤ 0 := div_nonpos_of_nonneg_of_nonpos hc.le (not_lt.mp hcon)
      exact absurd hgt (not_lt.mpr this)
    refine ⟨j', hj', hjc', ?_⟩
    have h3 : ((stoich[j'] : Int) : α) * rc < ((stoich[j'] : Int) : α) * lo := mul_lt_mul_of_pos_left hrc hs'
    have hne' : ((stoich[j'] : Int) : α) ≠ 0 := hs'.ne'
    have h4 : ((stoich[j'] : Int) : α) * lo = -c0[j'] := by rw [hloe]; field_simp
    linarith

/-- **defect witness** (initial concentrations that are not strictly positive): species with `c0 = 0` are ignored when the
    bracket is computed, so for `A ⇌ B + C + D`, `c0 = (1, 0, 0, 1/2)` the bracket is `[-1/2, 1]` although every `rc < 0` makes
    `[B]` and `[C]` negative.  On the real code `solve_equilibrium([1, 0, 0, .5], (-1, 1, 1, 1), 0.01)` then returns
    `[1.419, -0.419, -0.419, 0.081]` (brentq converges to a spurious root in the infeasible part). -/
theorem rc_interval_zero_conc_defect_witness :
    getRcInterval (α := ℚ) [-1, 1, 1, 1] [1, 0, 0, 1 / 2] = .ok (-1 / 2, 1) ∧
    extentState (α := ℚ) [1, 0, 0, 1 / 2] [-1, 1, 1, 1] (-1 / 4) = [5 / 4, -1 / 4, -1 / 4, 1 / 4] := by
  constructor <;> decide +kernel

/-- **residual_zero_iff_Q_eq_K.** The function handed to `brentq` is `K − Q(c0 + ν·rc)` with `Q = ∏ cᵢ^νᵢ`; it vanishes exactly
    when the state reached along the reaction coordinate satisfies `Q = K`. -/
theorem residual_zero_iff_Q_eq_K (rc : α) (c0 : List α) (stoich : List Int) (K v : α)
    (h : equilibriumResidual rc c0 stoich K = .ok v) :
    v = K - quotient (extentState c0 stoich rc) stoich ∧
    (v = 0 ↔ quotient (extentState c0 stoich rc) stoich = K) := by
  unfold equilibriumResidual at h
  split_ifs at h with hl
  simp only [bind, Except.bind] at h
  split at h
  · cases h
  · rename_i q hq
    simp only [pure, Except.pure, Except.ok.injEq] at h
    have hq' := eqQuotient_ok _ _ _ hq
    subst hq'
    refine ⟨h.symm, ?_⟩
    rw [← h, sub_eq_zero]
    exact eq_comm

/-- what `solve_equilibrium` returns, `c0 + rc·ν`, carries the element totals and the charge of `c0` whenever the reaction is
    balanced (`b·ν = 0` for the balance row `b`) — for every `rc`, converged or not. -/
theorem extent_preserves_totals (rc : α) (b c0 : List α) (stoich : List Int) (hl : c0.length = stoich.length)
    (hb : dot b (stoich.map fun n => ((n : Int) : α)) = 0) :
    dot b (extentState c0 stoich rc) = dot b c0 := by
  rw [dot_extent rc b c0 stoich hl, hb]; ring

/-! ### non-vacuity: concrete instances on which the hypotheses hold -/

/-- NaCl(s) ⇌ Na⁺ + Cl⁻ with (Na⁺, Cl⁻, NaCl(s)) = (1, 2, 4): everything dissolves to (5, 6, 0) (the repo's own test case) -/
example : dissolved (α := ℚ) [0, 0, 1] [⟨[(2, 1)], [(0, 1), (1, 1)], [], []⟩] [1, 2, 4] = .ok [5, 6, 0] := by
  decide +kernel

/-- forward condition on that state with Ksp = 4: ion product 30 > 4 ⇒ solid present -/
example : fwCond (α := ℚ) fwRtolDefault [0, 0, 1] [⟨[(2, 1)], [(0, 1), (1, 1)], [], []⟩]
    ⟨[(2, 1)], [(0, 1), (1, 1)], [], []⟩ 4 [1, 2, 4] = .ok true := by decide +kernel

/-- water / H⁺ / OH⁻: bounds (H: 2·1 + 1/2 = 5/2, O: 1) and a sane / an insane vector -/
example : upperConcBounds (α := ℚ) [[(1, 2), (8, 1)], [(0, 1), (1, 1)], [(0, -1), (1, 1), (8, 1)]] [1, 1 / 2, 0]
    = .ok [some 1, some (5 / 2), some 1] := by decide +kernel

example : resultIsSane (α := ℚ) saneRtolDefault [[(1, 2), (8, 1)], [(0, 1), (1, 1)], [(0, -1), (1, 1), (8, 1)]]
    [1, 1 / 2, 0] [1 / 2, 1, 1 / 2] = .ok true := by decide +kernel

example : resultIsSane (α := ℚ) saneRtolDefault [[(1, 2), (8, 1)], [(0, 1), (1, 1)], [(0, -1), (1, 1), (8, 1)]]
    [1, 1 / 2, 0] [1, 1 / 2, -1 / 10 ^ 30] = .ok false := by decide +kernel

/-- HA ⇌ H⁺ + A⁻ with strictly positive concentrations: bracket and a residual that vanishes at equilibrium -/
example : getRcInterval (α := ℚ) [-1, 1, 1] [1, 1 / 4, 1 / 2] = .ok (-1 / 4, 1) := by decide +kernel

example : equilibriumResidual (α := ℚ) (1 / 4) [1, 1 / 4, 1 / 2] [-1, 1, 1] (1 / 2) = .ok 0 := by decide +kernel

end ChemModel.C08
