/-
C08 — reported equilibrium compositions are genuine whenever the solver claims success   (PARTIAL)

Property text: "Whenever an equilibrium calculation reports success and a sane result, the returned concentrations are
non-negative, carry exactly the elements and charge of the initial state, and satisfy Q = K for every homogeneous
equilibrium; for a sparingly soluble phase either the solid is present and its solubility product is met or it is absent
and the ion product does not exceed it.  On well-conditioned homogeneous systems … the default solver chain does report
success (≥ 19 of 20), and single-equilibrium problems agree with the bracketing scalar solver."

What a theorem can reach here is the logic chempy itself contributes (model: `ChemModel/Model/EqSolve.lean`, tied to the
source by the exact correspondence ops of `tools/harness/c08.py`):
the sanity check, the elemental upper bounds it uses, `dissolved`, the two precipitation switch callbacks,
`non_precip_rids`, and bracket + residual of the scalar solver.   NOT provable (runtime behaviour of pyneqsys / scipy, sampled
by the harness): that a run converges, what `sol['success']` means, the ≥ 19/20 rate, agreement with `brentq`.
The full-strength statement that stays open is therefore

    ∀ system, init, chain:  root(init) = (x, sol, sane) ∧ sol.success ∧ sane  →  genuine x        -- `success_implies_genuine`

of which the theorems below prove the exact-arithmetic core: `zero_residual_and_sane_is_genuine` (composition with C07:
residual zero ∧ sane ⇒ non-negative ∧ Q = K ∧ totals preserved), `precipitate_dichotomy` (final state of the conditional
iteration: solid present ∧ Ksp met, or absent ∧ ion product ≤ Ksp(1+rtol)), `sane_spec`, the consistency of the sanity check
with genuineness (`upper_bound_valid`, `genuine_state_is_sane`), and for the scalar solver: bracket = feasible set, residual
strictly monotone on it, hence the bracketed root is the unique equilibrium (`scalar_root_is_equilibrium_and_unique`).
What no theorem reaches (listed in `clauses_without_theorem` of the harness, sampled there): that a run reporting `success` has
driven the residual to zero, convergence, the ≥ 19/20 rate, numerical agreement of `root` with `brentq`.
Restatements of definitions (`fwCond_spec`, `bwCond_spec`, `default_rtols`, `equilibriumResidual_ok`) live in Proofs/EqSolve.lean.

All theorems hold over an arbitrary linearly ordered field `α` (ℚ for the executable model, ℝ for "real" concentrations).
-/
import ChemModel.Proofs.EqSolve
import ChemModel.Proofs.EqSolveGenuine
import ChemModel.Props.C07

namespace ChemModel.C08
open ChemModel.EqSolve

variable {α : Type} [Field α] [LinearOrder α] [IsStrictOrderedRing α]

/-- **sane_spec.** `_result_is_sane(init, x, rtol)` returns `True` exactly when the elemental bounds can be computed, `x` has one
    entry per substance, every entry is `≥ 0` (no tolerance: a negative entry, however tiny, is insane) and every entry is
    `≤ bound·(1+rtol)` (an unbounded substance — one without non-charge components — is never "too much"). -/
theorem sane_spec (rtol : α) (comps : List (Comp α)) (init x : List α) :
    resultIsSane rtol comps init x = .ok true ↔
      ∃ ub, upperConcBounds comps init = .ok ub ∧ x.length = ub.length ∧
        (∀ i (hi : i < x.length), 0 ≤ x[i]) ∧
        (∀ i (hi : i < x.length) (b : α), ub[i]? = some (some b) → x[i] ≤ b * (1 + rtol)) :=
  resultIsSane_eq_ok_true_iff rtol comps init x

/-- **defect witness (NaN).**  `sane_spec` speaks about numbers; on float arrays the real `_result_is_sane` accepts NaN entries, because
    `nan < 0` and `nan > bound` are both False: water / H⁺ / OH⁻ with the result `[1/2, nan, nan]` — and even `[nan, nan, nan]` — is "sane".
    So `sane ⇒ every concentration ≥ 0` holds only for results without NaN (`resultIsSaneNan_map_some` : on those the NaN-aware model is the
    plain one); the solver-run oracle rejects non-finite results independently. -/
theorem sane_accepts_nan_defect_witness :
    resultIsSaneNan (α := ℚ) saneRtolDefault [[(1, 2), (8, 1)], [(0, 1), (1, 1)], [(0, -1), (1, 1), (8, 1)]] [1, 1 / 2, 0]
      [some (1 / 2), none, none] = .ok true ∧
    resultIsSaneNan (α := ℚ) saneRtolDefault [[(1, 2), (8, 1)], [(0, 1), (1, 1)], [(0, -1), (1, 1), (8, 1)]] [1, 1 / 2, 0]
      [none, none, none] = .ok true := by
  constructor <;> decide +kernel

/-- **source guard.**  The default tolerances as written in the current source (`_result_is_sane(..., rtol=1e-9)`,
    `_fw_cond_factory(ri, rtol=1e-14)`; extracted by `tools/extract/eqsolve_defaults.py` on every run) are the documented ones.  A weakened
    default reopens this obligation (and the `sane:default-*` / `fw:default-*` streams then produce the failing input). -/
theorem default_rtols_guard : (saneRtolDefault : ℚ) = 1 / 10 ^ 9 ∧ (fwRtolDefault : ℚ) = 1 / 10 ^ 14 := default_rtols

/-- **upper_bound_valid.** The bound of `upper_conc_bounds` is a genuine bound: with non-negative composition coefficients
    (charge excluded) and strictly positive ones for substance `i`, no non-negative state `y` that carries the same
    element totals as `init` has more of substance `i` than `ub i`. -/
theorem upper_bound_valid (comps : List (Comp α)) (init y : List α) (ub : List (Option α))
    (hub : upperConcBounds comps init = .ok ub) (hylen : y.length = comps.length)
    (hy : ∀ v ∈ y, 0 ≤ v) (hc : ∀ comp ∈ comps, ∀ p ∈ comp, p.1 ≠ 0 → 0 ≤ p.2)
    (htot : ∀ k, k ≠ 0 → compositionConc comps y k = compositionConc comps init k)
    (i : Nat) (hi : i < comps.length) (b : α) (hb : ub[i]? = some (some b))
    (hpos : ∀ p ∈ comps[i], p.1 ≠ 0 → 0 < p.2) :
    y[i]'(hylen ▸ hi) ≤ b :=
  upperConcBounds_valid comps init y ub hub hylen hy hc htot i hi b hb hpos

/-- **the sanity check never rejects a genuine composition** (exact arithmetic): a non-negative state with the element totals
    of the initial state passes `_result_is_sane` for every `rtol ≥ 0`. -/
theorem genuine_state_is_sane (rtol : α) (hr : 0 ≤ rtol) (comps : List (Comp α)) (init y : List α) (ub : List (Option α))
    (hub : upperConcBounds comps init = .ok ub) (hylen : y.length = comps.length)
    (hy : ∀ v ∈ y, 0 ≤ v) (hc : ∀ comp ∈ comps, ∀ p ∈ comp, p.1 ≠ 0 → 0 < p.2)
    (htot : ∀ k, k ≠ 0 → compositionConc comps y k = compositionConc comps init k) :
    resultIsSane rtol comps init y = .ok true := by
  rw [sane_spec]
  have hul : ub.length = comps.length := by
    unfold upperConcBounds at hub
    split_ifs at hub
    exact (mapM_ok _ _ hub).length_eq.symm
  refine ⟨ub, hub, by omega, fun i hi => hy _ (List.getElem_mem _), fun i hi b hb => ?_⟩
  have hic : i < comps.length := by omega
  have hle := upper_bound_valid comps init y ub hub hylen hy (fun comp hcomp p hp hk => (hc comp hcomp p hp hk).le) htot i hic b hb
    (fun p hp hk => hc _ (List.getElem_mem _) p hp hk)
  have h0 : 0 ≤ y[i] := hy _ (List.getElem_mem _)
  nlinarith

/-- **dissolved_spec.** `dissolved(c)` (i) keeps the length, (ii) conserves every linear invariant `b·c` that each
    phase-transfer reaction conserves (`b·ν = 0` — for a balanced system: every element total and the charge), and
    (iii) leaves nothing of the (single) solid of any phase-transfer reaction. -/
theorem dissolved_spec (phases : List Nat) (rxns : List Rxn) (c c' : List α) (h : dissolved phases rxns c = .ok c') :
    c'.length = c.length ∧
    (∀ b : List α, (∀ r ∈ rxns, hasPrecipitates phases r = .ok true →
        dot b ((netStoich phases.length r).map fun n => ((n : Int) : α)) = 0) → dot b c' = dot b c) ∧
    (∀ r ∈ rxns, hasPrecipitates phases r = .ok true → ∀ net s idx, precipitateStoich phases r = .ok (net, s, idx) →
        c'[idx.toNat]? = some 0) :=
  ⟨dissolved_length phases rxns c c' h, fun b hb => dissolved_dot phases b rxns c c' h hb,
   dissolved_zeroes phases rxns c c' h⟩

/-- what `precipitate_stoich` hands to the callbacks: the coefficient `s ≠ 0` belongs to the unique substance `idx` of a
    non-zero phase taking part (net) in the reaction -/
theorem precipitate_stoich_spec (phases : List Nat) (r : Rxn) (net : List Int) (s idx : Int)
    (h : precipitateStoich phases r = .ok (net, s, idx)) (hs : s ≠ 0) :
    0 ≤ idx ∧ ∃ hk : idx.toNat < phases.length, phases[idx.toNat] > 0 ∧ r.net idx.toNat = s ∧
      ∀ j (hj : j < phases.length), j ≠ idx.toNat → phases[j] > 0 → r.net j = 0 :=
  (precipitateStoich_spec phases r net s idx h).2 hs

/-- **precipitate_dichotomy** (the property's clause "either the solid is present and its solubility product is met or it is
    absent and the ion product does not exceed it", for the final state of `ConditionalNeqSys`).
    `x` is a state at which the iteration stops: the condition flag `on` of the phase-transfer reaction `r` reproduces itself
    (`bw_cond(x) = on` if it was on, `fw_cond(x) = on` if it was off — `get_conds`), and the residual rows of the system chosen
    by that flag vanish.  By C07 (`lin_zero_iff_general`, rows of `_get_A_ks`) the latter means: flag on → `Q` over the dissolved
    species equals `K` (`hon`); flag off, `small = 0` → every switched-off solid is `0` (`hoff`; single-salt systems: the one solid).
    Then, with `q = ∏ xᵢ^νᵢ` over the species of phase 0:
    * on:  the solid amount is `≥ small` (`> 0` for `NumSysLog`/`Square`, where `small > 0`) and `q = K` (ion product = Ksp);
    * off: the solid amount is `0` and the ion product does not exceed `Ksp·(1+rtol)`:
      solid on the reactant side (`s < 0`, `K = Ksp`, `q` = ion product): `q ≤ K(1+rtol)`;
      solid on the product side (`s > 0`, `K = 1/Ksp`, `q` = 1/ion product): `K ≤ q(1+rtol)`, i.e. `1/q ≤ (1/K)(1+rtol)`.
    Proof: composition of `fwCond_spec` / `bwCond_spec` (what the two callbacks test) with `dissolved_of_solids_zero`
    (with no solid present `fw_cond` looks at `x` itself). -/
theorem precipitate_dichotomy (rtol small : α) (phases : List Nat) (rxns : List Rxn) (r : Rxn) (hr : r ∈ rxns)
    (hpt : hasPrecipitates phases r = .ok true) (k : α) (x : List α) (on : Bool)
    (hstable : (if on then bwCond small phases r x else fwCond rtol phases rxns r k x) = .ok on)
    (hon : on = true → ∃ q, rxnQ phases r x = .ok q ∧ q = k)
    (hoff : on = false → ∀ r' ∈ rxns, hasPrecipitates phases r' = .ok true →
      ∀ net s idx, precipitateStoich phases r' = .ok (net, s, idx) → pyIndex x idx = some 0) :
    ∃ net s idx xi, precipitateStoich phases r = .ok (net, s, idx) ∧ pyIndex x idx = some xi ∧
      ((on = true ∧ small ≤ xi ∧ quotient x (nonPrecipitateStoich phases r) = k) ∨
       (on = false ∧ xi = 0 ∧
         ((s < 0 ∧ quotient x (nonPrecipitateStoich phases r) ≤ k * (1 + rtol)) ∨
          (0 < s ∧ k ≤ quotient x (nonPrecipitateStoich phases r) * (1 + rtol) ∧
            (0 < k → 0 < quotient x (nonPrecipitateStoich phases r) →
              (quotient x (nonPrecipitateStoich phases r))⁻¹ ≤ k⁻¹ * (1 + rtol)))))) := by
  cases on with
  | true =>
    simp only [↓reduceIte] at hstable
    obtain ⟨net, s, idx, xi, hps, hxi, hiff⟩ := bwCond_spec small phases r x true hstable
    obtain ⟨q, hq, hqk⟩ := hon rfl
    refine ⟨net, s, idx, xi, hps, hxi, Or.inl ⟨rfl, hiff.mp rfl, ?_⟩⟩
    rw [← eqQuotient_ok _ _ _ hq]; exact hqk
  | false =>
    simp only [Bool.false_eq_true, ↓reduceIte] at hstable
    obtain ⟨net, s, idx, d, q, hps, hd, hq, hcases⟩ := fwCond_spec rtol phases rxns r k x false hstable
    have hdx : d = x := dissolved_of_solids_zero phases x rxns d hd (hoff rfl)
    subst hdx
    have hqq := eqQuotient_ok _ _ _ hq
    have hxi := hoff rfl r hr hpt net s idx hps
    refine ⟨net, s, idx, 0, hps, hxi, Or.inr ⟨rfl, rfl, ?_⟩⟩
    rcases hcases with ⟨hs, hiff⟩ | ⟨hs, hiff⟩
    · have hnot : ¬ q * (1 + rtol) < k := fun hlt => Bool.false_ne_true (hiff.mpr hlt)
      have hle : k ≤ q * (1 + rtol) := not_lt.mp hnot
      refine Or.inr ⟨hs, by rw [← hqq]; exact hle, fun hk hqpos => ?_⟩
      rw [← hqq] at hqpos ⊢
      have hq' : q ≠ 0 := hqpos.ne'
      have hk' : k ≠ 0 := hk.ne'
      have h1 : q⁻¹ * k ≤ 1 + rtol := by
        have := mul_le_mul_of_nonneg_left hle (inv_pos.mpr hqpos).le
        rwa [← mul_assoc, inv_mul_cancel₀ hq', one_mul] at this
      have h2 := mul_le_mul_of_nonneg_right h1 (inv_pos.mpr hk).le
      rwa [mul_assoc, mul_inv_cancel₀ hk', mul_one, mul_comm (1 + rtol)] at h2
    · have hnot : ¬ k * (1 + rtol) < q := fun hlt => Bool.false_ne_true (hiff.mpr hlt)
      exact Or.inl ⟨hs, by rw [← hqq]; exact not_lt.mp hnot⟩

omit [Field α] [IsStrictOrderedRing α] in
/-- success characterisation of the hypothesis `bwCond … = .ok on` above: on a reaction with a single solid the backward
    callback is defined and equals `small ≤ x[solid]` -/
theorem backward_condition_defined (small : α) (phases : List Nat) (r : Rxn) (x : List α) (net : List Int) (s idx : Int) (xi : α)
    (hps : precipitateStoich phases r = .ok (net, s, idx)) (hxi : pyIndex x idx = some xi) :
    bwCond small phases r x = .ok (decide (small ≤ xi)) := by
  unfold bwCond
  simp only [hps, bind, Except.bind, hxi, pure, Except.pure, Except.ok.injEq]
  by_cases h : xi < small
  · simp [h, not_le.mpr h]
  · simp [h, not_lt.mp h]

omit [IsStrictOrderedRing α] in
/-- success characterisation of the other hypothesis of `precipitate_dichotomy` (`fwCond … = .ok on`): on a reaction whose single solid has a
    non-zero coefficient the forward callback is defined as soon as `dissolved(x)` and the ion quotient of the dissolved state are, and it is the
    comparison the docstring of `_fw_cond_factory` describes -/
theorem forward_condition_defined (rtol : α) (phases : List Nat) (rxns : List Rxn) (r : Rxn) (k : α) (x d : List α)
    (net : List Int) (s idx : Int) (q : α)
    (hps : precipitateStoich phases r = .ok (net, s, idx)) (hs : s ≠ 0)
    (hd : dissolved phases rxns x = .ok d) (hq : rxnQ phases r d = .ok q) :
    fwCond rtol phases rxns r k x =
      .ok (if 0 < s then decide (q * (1 + rtol) < k) else decide (k * (1 + rtol) < q)) := by
  unfold fwCond
  simp only [hps, hd, hq, bind, Except.bind, Nat.cast_one]
  by_cases h1 : s > 0
  · simp [h1, pure, Except.pure]
  · have h2 : s < 0 := by omega
    simp [h1, h2, pure, Except.pure]

/-- `non_precip_rids(precipitates)`: the phase-transfer reactions whose flag (by position) is `False` -/
theorem non_precip_rids_spec (phases : List Nat) (rxns : List Rxn) (precipitates : List Bool) (out : List Nat)
    (h : nonPrecipRids phases rxns precipitates = .ok out) :
    ∃ pt, phaseTransferIdxs phases rxns = .ok pt ∧
      ∀ i, i ∈ out ↔ ∃ j : Nat, pt[j]? = some i ∧ precipitates[j]? = some false := by
  unfold nonPrecipRids at h
  simp only [bind, Except.bind] at h
  split at h
  · cases h
  · rename_i pt hpt
    simp only [pure, Except.pure, Except.ok.injEq] at h
    subst h
    exact ⟨pt, hpt, fun i => mem_zipNotPrecip pt precipitates i⟩

/-- **rc_interval_keeps_nonneg.** For strictly positive concentrations every reaction coordinate inside the bracket returned by
    `_get_rc_interval` keeps every concentration `c0ᵢ + νᵢ·rc` non-negative. -/
theorem rc_interval_keeps_nonneg (stoich : List Int) (c0 : List α) (lo up : α)
    (h : getRcInterval stoich c0 = .ok (lo, up)) (hpos : ∀ v ∈ c0, 0 < v)
    (rc : α) (hlo : lo ≤ rc) (hup : rc ≤ up) (j : Nat) (hj : j < stoich.length) (hjc : j < c0.length) :
    0 ≤ c0[j] + ((stoich[j] : Int) : α) * rc := by
  obtain ⟨hlen, hnz, _, _, _, hU, hL, _, _⟩ := getRcInterval_spec stoich c0 lo up h
  have hc : 0 < c0[j] := hpos _ (List.getElem_mem _)
  have hs : ((stoich[j] : Int) : α) ≠ 0 := by exact_mod_cast hnz j hj
  rcases lt_or_gt_of_ne hs with hneg | hposs
  · have hlim : c0[j] / ((stoich[j] : Int) : α) < 0 := div_neg_of_pos_of_neg hc hneg
    have h1 := hU j hj hlim
    have h2 : rc ≤ -(c0[j] / ((stoich[j] : Int) : α)) := le_trans hup h1
    have h3 : ((stoich[j] : Int) : α) * -(c0[j] / ((stoich[j] : Int) : α)) ≤ ((stoich[j] : Int) : α) * rc :=
      mul_le_mul_of_nonpos_left h2 hneg.le
    have h4 : ((stoich[j] : Int) : α) * -(c0[j] / ((stoich[j] : Int) : α)) = -c0[j] := by field_simp
    linarith
  · have hlim : 0 < c0[j] / ((stoich[j] : Int) : α) := div_pos hc hposs
    have h1 := hL j hj hlim
    have h2 : -(c0[j] / ((stoich[j] : Int) : α)) ≤ rc := le_trans h1 hlo
    have h3 : ((stoich[j] : Int) : α) * -(c0[j] / ((stoich[j] : Int) : α)) ≤ ((stoich[j] : Int) : α) * rc :=
      mul_le_mul_of_nonneg_left h2 hposs.le
    have h4 : ((stoich[j] : Int) : α) * -(c0[j] / ((stoich[j] : Int) : α)) = -c0[j] := by field_simp
    linarith

/-- **the bracket is the largest such interval** (strictly positive concentrations): beyond the upper end a reactant, below the
    lower end a product becomes negative — on each side on which a species limits the coordinate at all (with no reactant the
    code returns `upper = 0`, with no product `lower = 0`); and it always contains `rc = 0` and is not the single point `{0}`. -/
theorem rc_interval_maximal (stoich : List Int) (c0 : List α) (lo up : α)
    (h : getRcInterval stoich c0 = .ok (lo, up)) (hpos : ∀ v ∈ c0, 0 < v) :
    lo ≤ 0 ∧ 0 ≤ up ∧ lo < up ∧
    (∀ rc, up < rc → (∃ j, ∃ hj : j < stoich.length, stoich[j] < 0) →
      ∃ j, ∃ hj : j < stoich.length, ∃ hjc : j < c0.length, c0[j] + ((stoich[j] : Int) : α) * rc < 0) ∧
    (∀ rc, rc < lo → (∃ j, ∃ hj : j < stoich.length, 0 < stoich[j]) →
      ∃ j, ∃ hj : j < stoich.length, ∃ hjc : j < c0.length, c0[j] + ((stoich[j] : Int) : α) * rc < 0) := by
  obtain ⟨hlen, hnz, hlo0, hup0, hne, _, _, hUa, hLa⟩ := getRcInterval_spec stoich c0 lo up h
  refine ⟨hlo0, hup0, ?_, ?_, ?_⟩
  · rcases hne with h1 | h1
    · exact lt_of_lt_of_le (lt_of_le_of_ne hlo0 h1) hup0
    · exact lt_of_le_of_lt hlo0 (lt_of_le_of_ne hup0 (Ne.symm h1))
  · rintro rc hrc ⟨j, hj, hsj⟩
    have hjc : j < c0.length := hlen ▸ hj
    have hsα : ((stoich[j] : Int) : α) < 0 := by exact_mod_cast hsj
    obtain ⟨j', hj', hlt, hupe⟩ := hUa ⟨j, hj, div_neg_of_pos_of_neg (hpos _ (List.getElem_mem _)) hsα⟩
    have hjc' : j' < c0.length := hlen ▸ hj'
    have hc : 0 < c0[j'] := hpos _ (List.getElem_mem _)
    have hs' : ((stoich[j'] : Int) : α) < 0 := by
      by_contra hcon
      have : 0 ≤ c0[j'] / ((stoich[j'] : Int) : α) := div_nonneg hc.le (not_lt.mp hcon)
      exact absurd hlt (not_lt.mpr this)
    refine ⟨j', hj', hjc', ?_⟩
    have h3 : ((stoich[j'] : Int) : α) * rc < ((stoich[j'] : Int) : α) * up := mul_lt_mul_of_neg_left hrc hs'
    have hne' : ((stoich[j'] : Int) : α) ≠ 0 := hs'.ne
    have h4 : ((stoich[j'] : Int) : α) * up = -c0[j'] := by rw [hupe]; field_simp
    linarith
  · rintro rc hrc ⟨j, hj, hsj⟩
    have hjc : j < c0.length := hlen ▸ hj
    have hsα : (0 : α) < ((stoich[j] : Int) : α) := by exact_mod_cast hsj
    obtain ⟨j', hj', hgt, hloe⟩ := hLa ⟨j, hj, div_pos (hpos _ (List.getElem_mem _)) hsα⟩
    have hjc' : j' < c0.length := hlen ▸ hj'
    have hc : 0 < c0[j'] := hpos _ (List.getElem_mem _)
    have hs' : (0 : α) < ((stoich[j'] : Int) : α) := by
      by_contra hcon
      have : c0[j'] / ((stoich[j'] : Int) : α) ≤ 0 := div_nonpos_of_nonneg_of_nonpos hc.le (not_lt.mp hcon)
      exact absurd hgt (not_lt.mpr this)
    refine ⟨j', hj', hjc', ?_⟩
    have h3 : ((stoich[j'] : Int) : α) * rc < ((stoich[j'] : Int) : α) * lo := mul_lt_mul_of_pos_left hrc hs'
    have hne' : ((stoich[j'] : Int) : α) ≠ 0 := hs'.ne'
    have h4 : ((stoich[j'] : Int) : α) * lo = -c0[j'] := by rw [hloe]; field_simp
    linarith

/-- **defect witness** (initial concentrations that are not strictly positive): species with `c0 = 0` are ignored when the
    bracket is computed, so for `A ⇌ B + C + D`, `c0 = (1, 0, 0, 1/2)` the bracket is `[-1/2, 1]` although every `rc < 0` makes
    `[B]` and `[C]` negative.  On the real code `solve_equilibrium([1, 0, 0, .5], (-1, 1, 1, 1), 0.01)` then returns
    `[1.419, -0.419, -0.419, 0.081]` (brentq converges to a spurious root in the infeasible part). -/
theorem rc_interval_zero_conc_defect_witness :
    getRcInterval (α := ℚ) [-1, 1, 1, 1] [1, 0, 0, 1 / 2] = .ok (-1 / 2, 1) ∧
    extentState (α := ℚ) [1, 0, 0, 1 / 2] [-1, 1, 1, 1] (-1 / 4) = [5 / 4, -1 / 4, -1 / 4, 1 / 4] := by
  constructor <;> decide +kernel

/-- success characterisation: for strictly positive concentrations of a non-empty reaction without zero coefficients (what
    `_solve_equilibrium_coord` passes after masking) `_get_rc_interval` returns a bracket, and the residual is defined at every
    coordinate strictly inside it -/
theorem rc_interval_defined (stoich : List Int) (c0 : List α) (hlen : stoich.length = c0.length)
    (hne : stoich ≠ []) (hnz : ∀ n ∈ stoich, n ≠ 0) (hpos : ∀ v ∈ c0, 0 < v) :
    ∃ lo up, getRcInterval stoich c0 = .ok (lo, up) ∧
      ∀ rc K, lo < rc → rc < up → ∃ v, equilibriumResidual rc c0 stoich K = .ok v := by
  obtain ⟨lo, up, h⟩ := getRcInterval_defined stoich c0 hlen hne hnz hpos
  refine ⟨lo, up, h, fun rc K hlo hup => ?_⟩
  exact equilibriumResidual_defined rc c0 stoich K hlen.symm
    (fun v hv => (extentState_pos_of_interior stoich c0 lo up h hpos rc hlo hup v hv).ne')

/-- **the scalar residual is strictly decreasing on the bracket** (strictly positive `c0`): `K − ∏(c0ᵢ+νᵢ rc)^νᵢ` at two
    coordinates `rc₁ < rc₂` strictly inside the bracket.  (`brentq` gets exactly these lists: species with `ν = 0` are masked.) -/
theorem residual_strictly_decreasing_on_bracket (stoich : List Int) (c0 : List α) (lo up K : α)
    (h : getRcInterval stoich c0 = .ok (lo, up)) (hne : stoich ≠ []) (hpos : ∀ v ∈ c0, 0 < v)
    (r1 r2 v1 v2 : α) (hlo : lo < r1) (h12 : r1 < r2) (hup : r2 < up)
    (h1 : equilibriumResidual r1 c0 stoich K = .ok v1) (h2 : equilibriumResidual r2 c0 stoich K = .ok v2) :
    v2 < v1 := by
  obtain ⟨hlen, hnz, _⟩ := getRcInterval_spec stoich c0 lo up h
  obtain ⟨_, e1⟩ := equilibriumResidual_ok r1 c0 stoich K v1 h1
  obtain ⟨_, e2⟩ := equilibriumResidual_ok r2 c0 stoich K v2 h2
  have hnz' : ∀ n ∈ stoich, n ≠ 0 := by
    intro n hn
    obtain ⟨j, hj, rfl⟩ := List.getElem_of_mem hn
    exact hnz j hj
  have := (quotient_extent_mono r1 r2 h12 c0 stoich hlen.symm hnz'
    (extentState_pos_of_interior stoich c0 lo up h hpos r1 hlo (lt_trans h12 hup))
    (extentState_pos_of_interior stoich c0 lo up h hpos r2 (lt_trans hlo h12) hup)).2.2 hne
  rw [e1, e2]; linarith

/-- **the bracketed root is an equilibrium state and it is the only one**: a zero of the residual inside the bracket satisfies
    `Q = K` with all concentrations positive, and two zeros inside the bracket coincide — so whatever `brentq` converges to
    (and any other solver's positive answer along the same reaction coordinate) is *the* equilibrium composition. -/
theorem scalar_root_is_equilibrium_and_unique (stoich : List Int) (c0 : List α) (lo up K : α)
    (h : getRcInterval stoich c0 = .ok (lo, up)) (hne : stoich ≠ []) (hpos : ∀ v ∈ c0, 0 < v)
    (r1 : α) (hlo1 : lo < r1) (hup1 : r1 < up) (h1 : equilibriumResidual r1 c0 stoich K = .ok 0) :
    quotient (extentState c0 stoich r1) stoich = K ∧ (∀ v ∈ extentState c0 stoich r1, 0 < v) ∧
    ∀ r2, lo < r2 → r2 < up → equilibriumResidual r2 c0 stoich K = .ok 0 → r2 = r1 := by
  obtain ⟨_, e1⟩ := equilibriumResidual_ok r1 c0 stoich K 0 h1
  refine ⟨by linarith, extentState_pos_of_interior stoich c0 lo up h hpos r1 hlo1 hup1, fun r2 hlo2 hup2 h2 => ?_⟩
  rcases lt_trichotomy r2 r1 with hlt | heq | hgt
  · exact absurd (residual_strictly_decreasing_on_bracket stoich c0 lo up K h hne hpos r2 r1 0 0 hlo2 hlt hup1 h2 h1) (lt_irrefl 0)
  · exact heq
  · exact absurd (residual_strictly_decreasing_on_bracket stoich c0 lo up K h hne hpos r1 r2 0 0 hlo1 hgt hup2 h1 h2) (lt_irrefl 0)

/-- **residual of several reactions** (2-d `stoich`: species × reactions, one reaction coordinate each): entry `r` of
    `equilibrium_residual(rc, c0, stoich, K)` is `K_r − ∏ᵢ cᵢ^stoich[i][r]` at `c = c0 + stoich·rc`; the vector vanishes exactly when
    every reaction satisfies `Q_r = K_r`. -/
theorem residual_multi_zero_iff (rc c0 : List α) (stoich : List (List Int)) (K vs : List α)
    (h : equilibriumResidualMulti rc c0 stoich K = .ok vs) :
    vs.length = rc.length ∧ K.length = rc.length ∧
    ((∀ v ∈ vs, v = 0) ↔ ∀ r (hr : r < K.length),
      quotient (extentStateMulti c0 stoich rc) (stoichColumn stoich r) = K[r]) := by
  obtain ⟨_, hK, hlen, hv⟩ := equilibriumResidualMulti_ok rc c0 stoich K vs h
  refine ⟨hlen, hK, ?_, ?_⟩
  · intro hz r hr
    have := hv r (by omega) hr (by omega)
    rw [hz _ (List.getElem_mem _)] at this
    exact (sub_eq_zero.mp this.symm).symm
  · intro hq v hvm
    obtain ⟨r, hr, rfl⟩ := List.getElem_of_mem hvm
    rw [hv r (by omega) (by omega) hr, hq r (by omega), sub_self]

/-- **solve_bracket_keeps_nonneg.**  The bracket `brentq` really receives (`_solve_equilibrium_coord`: species with a zero coefficient are masked
    out before `_get_rc_interval`) keeps EVERY concentration of the full system non-negative: reacting species start strictly positive, spectators
    (coefficient 0, untouched by the reaction coordinate) only need `c0 ≥ 0`. -/
theorem solve_bracket_keeps_nonneg (c0 : List α) (stoich : List Int) (lo up : α)
    (h : solveBracket c0 stoich = .ok (lo, up))
    (hact : ∀ j (hj : j < stoich.length) (hc : j < c0.length), stoich[j] ≠ 0 → 0 < c0[j])
    (hspec : ∀ j (hj : j < stoich.length) (hc : j < c0.length), stoich[j] = 0 → 0 ≤ c0[j])
    (rc : α) (hlo : lo ≤ rc) (hup : rc ≤ up) (j : Nat) (hj : j < stoich.length) (hc : j < c0.length) :
    0 ≤ c0[j] + ((stoich[j] : Int) : α) * rc := by
  unfold solveBracket at h
  split_ifs at h with hlen
  by_cases hz : stoich[j] = 0
  · rw [hz]; simpa using hspec j hj hc hz
  · set m := (List.zip stoich c0).filter fun p => p.1 ≠ 0 with hm
    have hmem : (stoich[j], c0[j]) ∈ m := by
      rw [hm, List.mem_filter]
      refine ⟨?_, by simpa using hz⟩
      rw [List.mem_iff_getElem]
      exact ⟨j, by simp [hj, hc], by simp⟩
    obtain ⟨i, hi, hget⟩ := List.getElem_of_mem hmem
    have hpos : ∀ v ∈ m.map (·.2), 0 < v := by
      intro v hv
      obtain ⟨p, hp, rfl⟩ := List.mem_map.mp hv
      have hp' := (List.mem_filter.mp hp)
      obtain ⟨t, ht, hpt⟩ := List.getElem_of_mem hp'.1
      have ht' : t < stoich.length ∧ t < c0.length := by simpa using ht
      have : p = (stoich[t]'ht'.1, c0[t]'ht'.2) := by rw [← hpt]; simp
      have hne : p.1 ≠ 0 := by simpa using hp'.2
      rw [this] at hne ⊢
      exact hact t ht'.1 ht'.2 hne
    have := rc_interval_keeps_nonneg (m.map (·.1)) (m.map (·.2)) lo up h hpos rc hlo hup i (by simpa using hi) (by simpa using hi)
    simpa [hget] using this

/-- success characterisation: `_solve_equilibrium_coord` obtains a bracket whenever some species reacts and every reacting species is present -/
theorem solve_bracket_defined (c0 : List α) (stoich : List Int) (hlen : c0.length = stoich.length)
    (hne : ∃ n ∈ stoich, n ≠ 0)
    (hact : ∀ j (hj : j < stoich.length) (hc : j < c0.length), stoich[j] ≠ 0 → 0 < c0[j]) :
    ∃ lo up, solveBracket c0 stoich = .ok (lo, up) := by
  unfold solveBracket
  rw [if_neg (by simpa using hlen)]
  set m := (List.zip stoich c0).filter fun p => p.1 ≠ 0 with hm
  have key : ∀ p ∈ m, p.1 ≠ 0 ∧ 0 < p.2 := by
    intro p hp
    have hp' := List.mem_filter.mp hp
    obtain ⟨t, ht, hpt⟩ := List.getElem_of_mem hp'.1
    have ht' : t < stoich.length ∧ t < c0.length := by simpa using ht
    have e : p = (stoich[t]'ht'.1, c0[t]'ht'.2) := by rw [← hpt]; simp
    have hne' : p.1 ≠ 0 := by simpa using hp'.2
    rw [e] at hne' ⊢
    exact ⟨hne', hact t ht'.1 ht'.2 hne'⟩
  obtain ⟨lo, up, h, _⟩ := rc_interval_defined (m.map (·.1)) (m.map (·.2)) (by simp)
    (by
      obtain ⟨n, hn, hn0⟩ := hne
      obtain ⟨j, hj, rfl⟩ := List.getElem_of_mem hn
      have hjc : j < c0.length := by omega
      have : (stoich[j], c0[j]) ∈ m := by
        rw [hm, List.mem_filter]
        exact ⟨by rw [List.mem_iff_getElem]; exact ⟨j, by simp [hj, hjc], by simp⟩, by simpa using hn0⟩
      intro hnil
      have hmn : m = [] := by simpa using hnil
      rw [hmn] at this
      simp at this)
    (by
      intro n hn
      obtain ⟨p, hp, rfl⟩ := List.mem_map.mp hn
      exact (key p hp).1)
    (by
      intro v hv
      obtain ⟨p, hp, rfl⟩ := List.mem_map.mp hv
      exact (key p hp).2)
  exact ⟨lo, up, h⟩
/-- what `solve_equilibrium` returns, `c0 + rc·ν`, carries the element totals and the charge of `c0` whenever the reaction is
    balanced (`b·ν = 0` for the balance row `b`) — for every `rc`, converged or not. -/
theorem extent_preserves_totals (rc : α) (b c0 : List α) (stoich : List Int) (hl : c0.length = stoich.length)
    (hb : dot b (stoich.map fun n => ((n : Int) : α)) = 0) :
    dot b (extentState c0 stoich rc) = dot b c0 := by
  rw [dot_extent rc b c0 stoich hl, hb]; ring

/-- **lin_internal_x0_spec** (`NumSysLin.internal_x0_cb`, the point the linear formulation really starts from: `(99·c₀ + dissolved(c₀))/100`).
    It has one entry per substance, carries every linear invariant of `c₀` that the phase-transfer reactions conserve (elements and charge for a
    balanced system) — so the solver starts ON the conservation hyperplane — and is non-negative whenever `c₀` and `dissolved(c₀)` are. -/
theorem lin_internal_x0_spec (phases : List Nat) (rxns : List Rxn) (c0 x0 : List α)
    (h : linInternalX0 phases rxns c0 = .ok x0) :
    x0.length = c0.length ∧
    (∀ b : List α, (∀ r ∈ rxns, hasPrecipitates phases r = .ok true →
        dot b ((netStoich phases.length r).map fun n => ((n : Int) : α)) = 0) → dot b x0 = dot b c0) ∧
    (∀ d, dissolved phases rxns c0 = .ok d → (∀ v ∈ c0, 0 ≤ v) → (∀ v ∈ d, 0 ≤ v) → ∀ v ∈ x0, 0 ≤ v) := by
  obtain ⟨d, hd, hlen, rfl⟩ := linInternalX0_ok phases rxns c0 x0 h
  refine ⟨by simp [hlen], fun b hb => ?_, fun d' hd' hc hdn v hv => ?_⟩
  · rw [dot_convex 99 100 b c0 d hlen.symm, dissolved_dot phases b rxns c0 d hd hb]
    ring
  · rw [hd] at hd'
    cases hd'
    obtain ⟨i, hi, rfl⟩ := List.getElem_of_mem hv
    simp only [List.length_zipWith] at hi
    simp only [List.getElem_zipWith]
    have h1 := hc _ (List.getElem_mem (l := c0) (n := i) (by omega))
    have h2 := hdn _ (List.getElem_mem (l := d) (n := i) (by omega))
    positivity

/-- success characterisation: defined exactly when `dissolved(c₀)` is -/
theorem lin_internal_x0_defined (phases : List Nat) (rxns : List Rxn) (c0 d : List α) (hd : dissolved phases rxns c0 = .ok d) :
    ∃ x0, linInternalX0 phases rxns c0 = .ok x0 := by
  unfold linInternalX0
  simp [hd, bind, Except.bind, pure, Except.pure]

/-- NaCl(s) ⇌ Na⁺ + Cl⁻, c₀ = (1, 2, 4): dissolved = (5, 6, 0), start = (99·c₀ + dissolved)/100 -/
example : linInternalX0 (α := ℚ) [0, 0, 1] [⟨[(2, 1)], [(0, 1), (1, 1)], [], []⟩] [1, 2, 4] = .ok [26 / 25, 51 / 25, 99 / 25] := by
  decide +kernel
/-! ### the grid of initial compositions behind `EqSystem.solve(init, varied)` / `roots` -/

/-- **varied_grid_point_spec** (`ReactionSystem.per_substance_varied`).  For a `varied` dict with distinct substance keys (given in
    ANY order), the row of the grid at multi-index `idx` exists and is the base composition in which every varied substance `j`
    carries the level selected by the index on ITS axis — axis `a` belongs to the `a`-th varied substance in SUBSTANCE order, which is
    what the returned `varied_keys` (strictly increasing) and `shape` document; all other substances keep their base value.
    Hence a result stored at `conc[idx]` is the equilibrium of exactly the initial state that `varied_keys` documents for `idx`. -/
theorem varied_grid_point_spec {β : Type} (ns : Nat) (base : List β) (varied : List (Nat × List β)) (idx : List Nat)
    (hbase : base.length = ns) (hdist : varied.Pairwise (fun p q => p.1 ≠ q.1)) (hkeys : ∀ kv ∈ varied, kv.1 < ns)
    (hlen : idx.length = (variedKeys ns varied).length)
    (hidx : ∀ (a i n : Nat), idx[a]? = some i → (variedShape ns varied)[a]? = some n → i < n) :
    (variedKeys ns varied).Pairwise (· < ·) ∧
    ∃ row, gridPoint (variedKeys ns varied) idx base varied = .ok row ∧ row.length = ns ∧
      (∀ j, j ∉ variedKeys ns varied → row[j]? = base[j]?) ∧
      (∀ (a j i : Nat) (vals : List β), (variedKeys ns varied)[a]? = some j → idx[a]? = some i → varied.lookup j = some vals →
        row[j]? = vals[i]? ∧ i < vals.length) := by
  refine ⟨variedKeys_sorted ns varied, ?_⟩
  have shape_at : ∀ (a : Nat) (kv : Nat × List β), kv ∈ varied → (variedKeys ns varied)[a]? = some kv.1 →
      (variedShape ns varied)[a]? = some kv.2.length := by
    intro a kv hkv ha
    simp only [variedShape, List.getElem?_map, ha, Option.map_some, lookup_of_pairwise varied kv hdist hkv]
  have hk : ∀ kv ∈ varied, ∃ (a i : Nat) (v : β), (variedKeys ns varied)[a]? = some kv.1 ∧ idx[a]? = some i ∧ kv.2[i]? = some v := by
    intro kv hkv
    have hmem : kv.1 ∈ variedKeys ns varied := (mem_variedKeys ns varied kv.1).mpr ⟨hkeys kv hkv, kv, hkv, rfl⟩
    obtain ⟨a, ha, hget⟩ := List.getElem_of_mem hmem
    have ha' : (variedKeys ns varied)[a]? = some kv.1 := by rw [List.getElem?_eq_getElem ha, hget]
    have hai : a < idx.length := by omega
    have hi : idx[a]? = some idx[a] := List.getElem?_eq_getElem hai
    have hlt := hidx a idx[a] kv.2.length hi (shape_at a kv hkv ha')
    exact ⟨a, idx[a], kv.2[idx[a]], ha', hi, List.getElem?_eq_getElem hlt⟩
  obtain ⟨row, hrow, hl, hun, hva⟩ := gridPoint_spec (variedKeys ns varied) idx (variedKeys_nodup ns varied) varied base hdist hk
  refine ⟨row, hrow, by omega, ?_, ?_⟩
  · intro j hj
    apply hun
    intro kv hkv hkj
    exact hj ((mem_variedKeys ns varied j).mpr ⟨hkj ▸ hkeys kv hkv, kv, hkv, hkj⟩)
  · intro a j i vals ha hi hlook
    have hmem : j ∈ variedKeys ns varied := List.mem_of_getElem? ha
    obtain ⟨_, kv, hkv, hkj⟩ := (mem_variedKeys ns varied j).mp hmem
    have hl2 := lookup_of_pairwise varied kv hdist hkv
    rw [hkj, hlook] at hl2
    have hvals : vals = kv.2 := Option.some.inj hl2
    subst hvals
    have hlt := hidx a i kv.2.length hi (shape_at a kv hkv (hkj ▸ ha))
    refine ⟨?_, hlt⟩
    rw [← hkj]
    rw [hva kv hkv a i kv.2[i] (hkj ▸ ha) hi (List.getElem?_eq_getElem hlt) (by rw [hbase]; exact hkeys kv hkv)]
    exact (List.getElem?_eq_getElem hlt).symm

/-! ### composition with C07: the exact-arithmetic core of "success ∧ sane ⇒ genuine" -/

/-- the composition dicts of a C07 system in the representation `upper_conc_bounds` is modelled with -/
def compsOf (s : EqSys.EqSystem) : List (Comp ℝ) :=
  s.substances.map fun kv => kv.2.comp.map fun p => (p.1, ((p.2 : Int) : ℝ))

/-- **zero_residual_and_sane_is_genuine.**  Homogeneous system `s`, parameters `p = c₀ ++ K`.  If the residual vector of the
    formulation the chain ends with vanishes at the returned state `c` — `NumSysLin.f(c, p) = 0`, or `NumSysLog.f(y, p) = 0` with
    `c = exp y` and positive constants — and `_result_is_sane(c₀, c)` holds, then `c` is a genuine equilibrium composition:
    every concentration is non-negative, `Q_i(c) = K_i` for every reaction as written, and every element total and the charge
    equal those of `c₀`.  (What remains outside any theorem is that a run reporting `success` has actually driven the residual to
    zero — see `clauses_without_theorem`; the finding `lm-nonroot-reported-as-success` shows that it can fail.) -/
theorem zero_residual_and_sane_is_genuine (s : EqSys.EqSystem) (hs : EqSys.Homogeneous s) (prec : List Bool)
    (small rtol : ℝ) (c y p r : List ℝ)
    (hres : EqSys.numSysLinF s prec small c p = .ok r ∨
      (EqSys.numSysLogF s prec small y p = .ok r ∧ c = y.map Real.exp ∧ ∀ k ∈ EqSys.eqParamsOf s p, 0 < k))
    (hzero : ∀ v ∈ r, v = 0)
    (hsane : resultIsSane rtol (compsOf s) (EqSys.initConcsOf s p) c = .ok true) :
    (∀ i (hi : i < c.length), 0 ≤ c[i]) ∧
    (∀ νK ∈ (EqSys.netStoichs s).zip (EqSys.eqParamsOf s p), EqSys.quotient c νK.1 = νK.2) ∧
    (∀ b ∈ EqSys.compMat s, EqSys.total b c = EqSys.total b (EqSys.initConcsOf s p)) := by
  obtain ⟨_, _, _, hnn, _⟩ := (sane_spec rtol (compsOf s) (EqSys.initConcsOf s p) c).mp hsane
  refine ⟨hnn, ?_⟩
  rcases hres with hlin | ⟨hlog, hc, hK⟩
  · exact (ChemModel.C07.lin_zero_iff s hs prec small c p r hlin).mp hzero
  · have hpos : ∀ x ∈ c, 0 < x := by
      intro x hx
      rw [hc] at hx
      obtain ⟨t, _, rfl⟩ := List.mem_map.mp hx
      exact Real.exp_pos t
    have hlogc : c.map Real.log = y := by
      rw [hc, List.map_map]
      conv_rhs => rw [← List.map_id y]
      apply List.map_congr_left
      intro t _
      simp
    exact (ChemModel.C07.log_zero_iff s hs prec small c p r hpos hK (by rw [hlogc]; exact hlog)).mp hzero

/-- **zero_residual_and_sane_is_genuine_cfg.**  The same under EVERY reduction configuration `rref_equil × rref_preserv` (C07's
    `numSysLinCfgF` / `numSysLogCfgF`, whose reduced blocks `redE`, `redP` are whatever sympy's row reduction returned, assumed row-equivalent
    to the unreduced ones — `RowEquiv`, C07): homogeneous system, residual of the configured formulation zero at the returned state
    (Lin at `c`, positive state and constants when the equilibrium block is reduced; Log at `y` with `c = exp y`, positive constants) and
    `_result_is_sane` ⇒ `c ≥ 0`, `Q_i(c) = K_i` for every reaction as written, totals and charge of `c₀`. -/
theorem zero_residual_and_sane_is_genuine_cfg (s : EqSys.EqSystem) (hs : EqSys.Homogeneous s) (prec : List Bool)
    (small rtol : ℝ) (re rp : Bool) (redE redP : EqSys.Reduced ℝ) (c y p r : List ℝ)
    (hE : re = true → EqSys.RowEquiv s.ns (EqSys.intMat (EqSys.netStoichs s)) ((EqSys.eqParamsOf s p).map Real.log) redE.rA redE.rb)
    (hP : rp = true → EqSys.RowEquiv s.ns (EqSys.intMat (EqSys.compMat s)) (EqSys.totalsOf s p) redP.rA redP.rb)
    (hres :
      (EqSys.numSysLinCfgF s prec small re rp redE redP c p = .ok r ∧ (re = true → ∀ x ∈ c, 0 < x) ∧
        (re = true → ∀ k ∈ EqSys.eqParamsOf s p, 0 < k)) ∨
      (EqSys.numSysLogCfgF s prec small re rp redE redP y p = .ok r ∧ c = y.map Real.exp ∧ ∀ k ∈ EqSys.eqParamsOf s p, 0 < k))
    (hzero : ∀ v ∈ r, v = 0)
    (hsane : resultIsSane rtol (compsOf s) (EqSys.initConcsOf s p) c = .ok true) :
    (∀ i (hi : i < c.length), 0 ≤ c[i]) ∧
    (∀ νK ∈ (EqSys.netStoichs s).zip (EqSys.eqParamsOf s p), EqSys.quotient c νK.1 = νK.2) ∧
    (∀ b ∈ EqSys.compMat s, EqSys.total b c = EqSys.total b (EqSys.initConcsOf s p)) := by
  obtain ⟨_, _, _, hnn, _⟩ := (sane_spec rtol (compsOf s) (EqSys.initConcsOf s p) c).mp hsane
  refine ⟨hnn, ?_⟩
  have hE' : re = true → ∀ A, EqSys.stoichs s (EqSys.nonPrecipRids s prec) = .ok A →
      EqSys.RowEquiv s.ns (EqSys.intMat A) ((EqSys.ksOf s prec small p).map Real.log) redE.rA redE.rb := by
    intro hre A hA
    rw [EqSys.stoichs_homog hs] at hA
    cases hA
    rw [EqSys.ksOf_homog hs]
    exact hE hre
  rcases hres with ⟨hlin, hy, hK⟩ | ⟨hlog, hc, hK⟩
  · obtain ⟨A, hA, hiff⟩ := ChemModel.C07.rref_zero_iff_lin s prec small re rp redE redP c p r hlin hy
      (by rw [EqSys.ksOf_homog hs]; exact hK) hE' hP
    rw [EqSys.stoichs_homog hs] at hA
    cases hA
    rw [EqSys.ksOf_homog hs] at hiff
    exact hiff.mp hzero
  · obtain ⟨A, hA, hiff⟩ := ChemModel.C07.rref_zero_iff_log s prec small re rp redE redP y p r hlog
      (by rw [EqSys.ksOf_homog hs]; exact hK) hE' hP
    rw [EqSys.stoichs_homog hs] at hA
    cases hA
    rw [EqSys.ksOf_homog hs, ← hc] at hiff
    exact hiff.mp hzero

/-! ### ε-versions: what a run that stops with `|f| ≤ ε` (the solver's tolerance) delivers -/

/-- **lin_residual_within_iff.**  Homogeneous system, non-zero constants.  Every entry of `NumSysLin.f(c, c₀ ++ K)` is within `ε` of zero
    **iff** every reaction satisfies `|Q_i(c)/K_i − 1| ≤ ε` and every element total and the charge of `c` are within `ε` of those of `c₀`:
    the residual of the linear formulation IS the relative error of `Q = K` and the absolute error of the totals. -/
theorem lin_residual_within_iff (s : EqSys.EqSystem) (hs : EqSys.Homogeneous s) (prec : List Bool) (small ε : ℝ) (c p r : List ℝ)
    (h : EqSys.numSysLinF s prec small c p = .ok r) (hK : ∀ k ∈ EqSys.eqParamsOf s p, k ≠ 0) :
    (∀ v ∈ r, |v| ≤ ε) ↔
      (∀ νK ∈ (EqSys.netStoichs s).zip (EqSys.eqParamsOf s p), |EqSys.quotient c νK.1 / νK.2 - 1| ≤ ε) ∧
      (∀ b ∈ EqSys.compMat s, |EqSys.total b c - EqSys.total b (EqSys.initConcsOf s p)| ≤ ε) := by
  obtain ⟨A, hA, _, _, hr⟩ := EqSys.numSysLinF_ok h
  rw [EqSys.stoichs_homog hs] at hA
  cases hA
  rw [hr, EqSys.lin_abs_le_iff_core, EqSys.ksOf_homog hs]
  constructor
  · rintro ⟨h1, h2⟩
    exact ⟨fun νK hνK => (h1 νK hνK).1 (hK _ (List.of_mem_zip hνK).2), h2⟩
  · rintro ⟨h1, h2⟩
    exact ⟨fun νK hνK => ⟨fun _ => h1 νK hνK, fun h0 => absurd h0 (hK _ (List.of_mem_zip hνK).2)⟩, h2⟩

/-- **log_residual_within_iff.**  Homogeneous system, `c = exp y`.  Every entry of `NumSysLog.f(y, c₀ ++ K)` is within `ε` of zero **iff**
    `|ln Q_i(c) − ln K_i| ≤ ε` for every reaction and every total of `c` is within `ε` of that of `c₀`. -/
theorem log_residual_within_iff (s : EqSys.EqSystem) (hs : EqSys.Homogeneous s) (prec : List Bool) (small ε : ℝ) (y p r : List ℝ)
    (h : EqSys.numSysLogF s prec small y p = .ok r) :
    (∀ v ∈ r, |v| ≤ ε) ↔
      (∀ νK ∈ (EqSys.netStoichs s).zip (EqSys.eqParamsOf s p),
        |Real.log (EqSys.quotient (y.map Real.exp) νK.1) - Real.log νK.2| ≤ ε) ∧
      (∀ b ∈ EqSys.compMat s, |EqSys.total b (y.map Real.exp) - EqSys.total b (EqSys.initConcsOf s p)| ≤ ε) := by
  obtain ⟨A, hA, _, hr⟩ := EqSys.numSysLogF_ok h
  rw [EqSys.stoichs_homog hs] at hA
  cases hA
  rw [hr, EqSys.log_abs_le_iff_core, EqSys.ksOf_homog hs]

/-- **small_residual_and_sane_is_approximately_genuine.**  The ε-version of `zero_residual_and_sane_is_genuine` — the statement a real run
    can satisfy.  Homogeneous system, parameters `p = c₀ ++ K`, returned state `c`; the last stage of the chain stopped with every residual
    entry within `ε` (the solver tolerance) — for `NumSysLin` at `c`, for `NumSysSquare` at `y` with `c = y²`, for `NumSysLog` at `y` with
    `c = exp y` — and `_result_is_sane(c₀, c)` holds.  Then every concentration is `≥ 0`, every total (elements, charge) of `c` is within `ε` of
    that of `c₀`, and for every reaction: Lin / Square (constants `≠ 0`): `|Q/K − 1| ≤ ε`; Log (constants `> 0`): `e^{-ε} ≤ Q/K ≤ e^{ε}`.
    These are the quantities the harness oracle bounds (by `0.25·tol·cond` resp. `100·tol·scale`). -/
theorem small_residual_and_sane_is_approximately_genuine (s : EqSys.EqSystem) (hs : EqSys.Homogeneous s) (prec : List Bool)
    (small rtol ε : ℝ) (c y p r : List ℝ)
    (hres :
      (EqSys.numSysLinF s prec small c p = .ok r ∧ ∀ k ∈ EqSys.eqParamsOf s p, k ≠ 0) ∨
      (EqSys.numSysSquareF s prec small y p = .ok r ∧ c = (y.map fun yi => yi * yi) ∧ ∀ k ∈ EqSys.eqParamsOf s p, k ≠ 0) ∨
      (EqSys.numSysLogF s prec small y p = .ok r ∧ c = y.map Real.exp ∧ ∀ k ∈ EqSys.eqParamsOf s p, 0 < k))
    (hsmall : ∀ v ∈ r, |v| ≤ ε)
    (hsane : resultIsSane rtol (compsOf s) (EqSys.initConcsOf s p) c = .ok true) :
    (∀ i (hi : i < c.length), 0 ≤ c[i]) ∧
    (∀ b ∈ EqSys.compMat s, |EqSys.total b c - EqSys.total b (EqSys.initConcsOf s p)| ≤ ε) ∧
    (∀ νK ∈ (EqSys.netStoichs s).zip (EqSys.eqParamsOf s p),
      |EqSys.quotient c νK.1 / νK.2 - 1| ≤ ε ∨
      (0 < νK.2 ∧ Real.exp (-ε) ≤ EqSys.quotient c νK.1 / νK.2 ∧ EqSys.quotient c νK.1 / νK.2 ≤ Real.exp ε)) := by
  obtain ⟨_, _, _, hnn, _⟩ := (sane_spec rtol (compsOf s) (EqSys.initConcsOf s p) c).mp hsane
  refine ⟨hnn, ?_⟩
  rcases hres with ⟨hlin, hK⟩ | ⟨hsq, hc, hK⟩ | ⟨hlog, hc, hK⟩
  · obtain ⟨h1, h2⟩ := (lin_residual_within_iff s hs prec small ε c p r hlin hK).mp hsmall
    exact ⟨h2, fun νK hνK => Or.inl (h1 νK hνK)⟩
  · rw [EqSys.numSysSquareF_eq, ← hc] at hsq
    obtain ⟨h1, h2⟩ := (lin_residual_within_iff s hs prec small ε c p r hsq hK).mp hsmall
    exact ⟨h2, fun νK hνK => Or.inl (h1 νK hνK)⟩
  · obtain ⟨h1, h2⟩ := (log_residual_within_iff s hs prec small ε y p r hlog).mp hsmall
    rw [← hc] at h1 h2
    refine ⟨h2, fun νK hνK => Or.inr ?_⟩
    have hk : 0 < νK.2 := hK _ (List.of_mem_zip hνK).2
    have hq : 0 < EqSys.quotient c νK.1 := by
      rw [hc, ← EqSys.exp_total]; exact Real.exp_pos _
    exact ⟨hk, EqSys.log_ratio_bound hq hk (h1 νK hνK)⟩

/-- **warm_start_keeps_initial_totals.**  Whatever starting guess `x0` is passed to `root` / `_solve` (none, a previous solution, the
    solution of ANOTHER composition — titration / series walking), the parameter vector handed to the solver starts with the initial
    composition: the `init_concs` half that the residual functions read (`initConcsOf`, C07) is `init`, and the constants half is the
    reactions' constants.  With `zero_residual_and_sane_is_genuine` (take `p = (rootArgs init x0 K).2`): a zero of the residual carries the
    elements and the charge of `init`, never those of the guess. -/
theorem warm_start_keeps_initial_totals (s : EqSys.EqSystem) (init K : List ℝ) (x0 : Option (List ℝ)) (hlen : init.length = s.ns) :
    EqSys.initConcsOf s (rootArgs init x0 K).2 = init ∧ EqSys.eqParamsOf s (rootArgs init x0 K).2 = K ∧
    (rootArgs init x0 K).1 = x0.getD init := by
  refine ⟨?_, ?_, ?_⟩
  · simp [rootArgs, EqSys.initConcsOf, ← hlen]
  · simp [rootArgs, EqSys.eqParamsOf, ← hlen]
  · cases x0 <;> rfl

/-! ### non-vacuity: concrete instances on which the hypotheses hold -/

/-- NaCl(s) ⇌ Na⁺ + Cl⁻ with (Na⁺, Cl⁻, NaCl(s)) = (1, 2, 4): everything dissolves to (5, 6, 0) (the repo's own test case) -/
example : dissolved (α := ℚ) [0, 0, 1] [⟨[(2, 1)], [(0, 1), (1, 1)], [], []⟩] [1, 2, 4] = .ok [5, 6, 0] := by
  decide +kernel

/-- forward condition on that state with Ksp = 4: ion product 30 > 4 ⇒ solid present -/
example : fwCond (α := ℚ) fwRtolDefault [0, 0, 1] [⟨[(2, 1)], [(0, 1), (1, 1)], [], []⟩]
    ⟨[(2, 1)], [(0, 1), (1, 1)], [], []⟩ 4 [1, 2, 4] = .ok true := by decide +kernel

/-- the hypotheses of `precipitate_dichotomy` are satisfiable — solid present: (Na⁺, Cl⁻, NaCl(s)) = (2, 2, 1), Ksp = 4 -/
example : bwCond (α := ℚ) 0 [0, 0, 1] ⟨[(2, 1)], [(0, 1), (1, 1)], [], []⟩ [2, 2, 1] = .ok true ∧
    rxnQ (α := ℚ) [0, 0, 1] ⟨[(2, 1)], [(0, 1), (1, 1)], [], []⟩ [2, 2, 1] = .ok 4 := by
  constructor <;> decide +kernel

/-- … and solid absent: (1, 2, 0) is under-saturated (ion product 2 ≤ 4), `fw_cond` stays off, `dissolved` leaves it alone -/
example : fwCond (α := ℚ) fwRtolDefault [0, 0, 1] [⟨[(2, 1)], [(0, 1), (1, 1)], [], []⟩]
    ⟨[(2, 1)], [(0, 1), (1, 1)], [], []⟩ 4 [1, 2, 0] = .ok false ∧
    dissolved (α := ℚ) [0, 0, 1] [⟨[(2, 1)], [(0, 1), (1, 1)], [], []⟩] [1, 2, 0] = .ok [1, 2, 0] := by
  constructor <;> decide +kernel

/-- a 2 × 2 grid given in the order (substance 2, substance 0): axis 0 is substance 0, axis 1 substance 2 -/
example : perSubstanceVaried (α := ℚ) 3 [2, 3, 5] [(2, [5, 7]), (0, [1, 4])] =
    .ok ([0, 2], [2, 2], [[1, 3, 5], [1, 3, 7], [4, 3, 5], [4, 3, 7]]) := by decide +kernel

/-- two coupled reactions A ⇌ B + C, B ⇌ D in extent space: residual vector, and zero at an exactly constructed equilibrium -/
example : equilibriumResidualMulti (α := ℚ) [1 / 4, 1 / 8] [1, 1 / 4, 1 / 2, 1] [[-1, 0], [1, -1], [1, 0], [0, 1]] [1, 2]
    = .ok [5 / 8, -1] := by decide +kernel

example : equilibriumResidualMulti (α := ℚ) [1 / 4, 1 / 8] [1, 1 / 4, 1 / 2, 1] [[-1, 0], [1, -1], [1, 0], [0, 1]] [3 / 8, 3]
    = .ok [0, 0] := by decide +kernel

/-- activity product γ(c) = [B]: residual K − Q·γ -/
example : equilibriumResidualWith (α := ℚ) (fun c => eqQuotient c [0, 1, 0]) (1 / 4) [1, 1 / 4, 1 / 2] [-1, 1, 1] (1 / 2)
    = .ok (1 / 4) := by decide +kernel

/-- the hypotheses of the ε-theorems are satisfiable over ℝ: for C07's water system `NumSysLin.f` returns at every well-shaped state without
    zero entries (C07 `lin_defined`), e.g. at (55, 1e-7, 1e-7) with c₀ = (55 + 1e-7, 0, 0) and K = 1e-14/55 -/
example : ∃ r, EqSys.numSysLinF C07.water [] (0 : ℝ) ([55, 1 / 10 ^ 7, 1 / 10 ^ 7] : List ℝ)
    ([55 + 1 / 10 ^ 7, 0, 0, 1 / (55 * 10 ^ 14)] : List ℝ) = .ok r := by
  have hs : EqSys.Homogeneous C07.water := by
    intro kv hkv
    simp [C07.water] at hkv
    rcases hkv with rfl | rfl | rfl <;> rfl
  apply C07.lin_defined C07.water hs [] (0 : ℝ)
  · rfl
  · decide
  · intro x hx
    simp only [List.mem_cons, List.not_mem_nil, or_false] at hx
    rcases hx with rfl | rfl | rfl <;> norm_num

/-- water / H⁺ / OH⁻: bounds (H: 2·1 + 1/2 = 5/2, O: 1) and a sane / an insane vector -/
example : upperConcBounds (α := ℚ) [[(1, 2), (8, 1)], [(0, 1), (1, 1)], [(0, -1), (1, 1), (8, 1)]] [1, 1 / 2, 0]
    = .ok [some 1, some (5 / 2), some 1] := by decide +kernel

example : resultIsSane (α := ℚ) saneRtolDefault [[(1, 2), (8, 1)], [(0, 1), (1, 1)], [(0, -1), (1, 1), (8, 1)]]
    [1, 1 / 2, 0] [1 / 2, 1, 1 / 2] = .ok true := by decide +kernel

example : resultIsSane (α := ℚ) saneRtolDefault [[(1, 2), (8, 1)], [(0, 1), (1, 1)], [(0, -1), (1, 1), (8, 1)]]
    [1, 1 / 2, 0] [1, 1 / 2, -1 / 10 ^ 30] = .ok false := by decide +kernel

/-- HA ⇌ H⁺ + A⁻ with strictly positive concentrations: bracket and a residual that vanishes at equilibrium -/
example : getRcInterval (α := ℚ) [-1, 1, 1] [1, 1 / 4, 1 / 2] = .ok (-1 / 4, 1) := by decide +kernel

example : equilibriumResidual (α := ℚ) (1 / 4) [1, 1 / 4, 1 / 2] [-1, 1, 1] (1 / 2) = .ok 0 := by decide +kernel

end ChemModel.C08
