import ChemModel.Model.EqSolve
namespace ChemModel.C08
theorem placeholder : True := trivial
end ChemModel.C08
