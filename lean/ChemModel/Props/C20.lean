/-
C20 — printed numbers and parameters denote the value they were given.

Property theorems only (helper lemmas: Proofs/NumFmt.lean; executable model of
chempy/printing/numbers.py and `_Reaction_param_str`: Model/NumFmt.lean; the tables and
templates the model uses are regenerated from the source on every run: Gen/PrintingNumbers.lean).

Reading guide.  A float is its exact binary value `x : ℚ`.  `'%.{p}g' % x` goes through the decimal
record `roundSig p x = (neg, m, e)` which denotes `±m · 10^(e-p+1)`.  Texts are `List Char`.
-/
import ChemModel.Proofs.NumFmtRead

namespace ChemModel.C20
open ChemModel.NumFmt ChemModel.Gen.PrintingNumbers

/-! ## `%.{p}g`: the decimal record denotes `x` to `p` significant digits -/

/-- **roundSig_spec.** For every non-zero rational `x` and `p ≥ 1` the record `(neg, m, e)` has a
`p`-digit significand, `10^(p-1) ≤ m < 10^p`, carries the sign of `x`, and `m · 10^(e-p+1)` is within
half a unit of the last printed place of `|x|` — including the case where rounding carries into a new
decade (9.9996 → 10.00). -/
theorem roundSig_spec (p : ℕ) (hp : 1 ≤ p) (x : ℚ) (hx : x ≠ 0) :
    10 ^ (p - 1) ≤ (roundSig p x).m ∧ (roundSig p x).m < 10 ^ p ∧
    (roundSig p x).neg = decide (x < 0) ∧
    |((roundSig p x).m : ℚ) * (10 : ℚ) ^ ((roundSig p x).e - (p : ℤ) + 1) - (|x|)|
      ≤ (10 : ℚ) ^ ((roundSig p x).e - (p : ℤ) + 1) / 2 :=
  roundSig_spec' p hp x hx

/-- The signed value of the record is within half a unit of the last place of `x` itself. -/
theorem roundSig_value (p : ℕ) (hp : 1 ≤ p) (x : ℚ) (hx : x ≠ 0) :
    |(roundSig p x).value p - x| ≤ (10 : ℚ) ^ ((roundSig p x).e - (p : ℤ) + 1) / 2 := by
  obtain ⟨_, _, hneg, h⟩ := roundSig_spec' p hp x hx
  unfold Dec.value
  rw [hneg, pow10_eq_zpow]
  by_cases hlt : x < 0
  · simp only [hlt, decide_true, if_true]
    rw [abs_of_neg hlt] at h
    rw [show -1 * ((roundSig p x).m : ℚ) * (10 : ℚ) ^ ((roundSig p x).e - (p : ℤ) + 1) - x =
        -(((roundSig p x).m : ℚ) * (10 : ℚ) ^ ((roundSig p x).e - (p : ℤ) + 1) - -x) by ring, abs_neg]
    exact h
  · simp only [hlt, decide_false, Bool.false_eq_true, if_false]
    rw [abs_of_nonneg (not_lt.mp hlt)] at h
    rw [one_mul]
    exact h

/-- The rounding is round-half-even on the exact value: `roundHalfEven q` is an integer within `1/2`
of `q`, and on an exact tie it is the even neighbour. -/
theorem roundHalfEven_nearest_even (q : ℚ) :
    |((roundHalfEven q : ℤ) : ℚ) - q| ≤ 1 / 2 ∧
    (q - (q.floor : ℚ) = 1 / 2 → roundHalfEven q % 2 = 0) :=
  ⟨roundHalfEven_spec q, roundHalfEven_tie q⟩

/-- The decade used by `roundSig` is the true one: `10^e ≤ a < 10^(e+1)` for every positive rational. -/
theorem ilog10_is_decade (a : ℚ) (ha : 0 < a) :
    (10 : ℚ) ^ (ilog10 a) ≤ a ∧ a < (10 : ℚ) ^ (ilog10 a + 1) :=
  ilog10_spec a ha

/-- Tight form: the error is at most half a unit of the `p`-th significant digit of `x`'s **own** decade
`ilog10 |x|`; the record's decade is that decade, or the next one exactly when rounding carried (then the
significand is `10^(p-1)`, e.g. 9.9996 → 1000·10^(1-4+1)). -/
theorem roundSig_tight (p : ℕ) (hp : 1 ≤ p) (x : ℚ) (hx : x ≠ 0) :
    |((roundSig p x).m : ℚ) * (10 : ℚ) ^ ((roundSig p x).e - (p : ℤ) + 1) - (|x|)|
      ≤ (10 : ℚ) ^ (ilog10 |x| - (p : ℤ) + 1) / 2 ∧
    ((roundSig p x).e = ilog10 |x| ∨ ((roundSig p x).e = ilog10 |x| + 1 ∧ (roundSig p x).m = 10 ^ (p - 1))) :=
  roundSig_tight' p hp x hx

/-! ## fixed vs exponent layout -/

/-- **layout_choice_spec.** The fixed layout is used exactly when `-4 ≤ e < p`.  In that case the text
contains no exponent marker; otherwise the text is `significand ++ "e" ++ sign ++ at least two digits`,
the significand contains no `e`, and the exponent field reads back (Python `int`) as `e`. -/
theorem layout_choice_spec (p : ℕ) (r : Dec) :
    (useFixed p r.e = true ↔ (-4 ≤ r.e ∧ r.e < (p : ℤ))) ∧
    (useFixed p r.e = true → 'e' ∉ layoutG p r) ∧
    (useFixed p r.e = false →
      layoutG p r = sigText p r ++ 'e' :: ((if r.e < 0 then '-' else '+') :: pad2 r.e.natAbs) ∧
      'e' ∉ sigText p r ∧
      parseInt ((if r.e < 0 then '-' else '+') :: pad2 r.e.natAbs) = some r.e) := by
  refine ⟨by simp [useFixed], layoutG_fixed_no_e p r, fun h => ⟨layoutG_exp p r h, sigText_no_e p r, parseInt_expField r.e⟩⟩

/-- The digit string of the record reads back as its significand (`m < 10^p`), has exactly `p`
characters and all are decimal digits: the printed digits are the digits of `m`. -/
theorem digits_denote_significand (p m : ℕ) (hm : m < 10 ^ p) :
    readNat (digitsW p m) = m ∧ (digitsW p m).length = p ∧ ∀ c ∈ digitsW p m, isDigit c = true :=
  ⟨by rw [readNat_digitsW, Nat.mod_eq_of_lt hm], length_digitsW p m, all_isDigit_digitsW p m⟩

/-! ## reading the text back -/

/-- **fmtG_reads_back.** An explicit reader of `%g` text (`readG`: optional `-`, digits with an optional point read
as integer / 10^decimals, optional `e[+-]dd` read with `int`) applied to the produced text returns exactly the
value of the decimal record — through point placement, leading `0.000`, trailing-zero stripping, sign and the
two-digit exponent field. -/
theorem fmtG_reads_back (p : ℕ) (hp : 1 ≤ p) (x : ℚ) (hx : x ≠ 0) :
    readG (fmtG p x) = some ((roundSig p x).value p) := by
  rw [fmtG_eq p hp x hx]
  exact layoutG_reads_back p hp _ (roundSig_spec' p hp x hx).2.1

/-- **End to end:** the text `'%.{p}g' % x` denotes a number within half a unit of the `p`-th significant digit
(of the record's decade) of `x`. -/
theorem fmtG_denotes (p : ℕ) (hp : 1 ≤ p) (x : ℚ) (hx : x ≠ 0) :
    ∃ v, readG (fmtG p x) = some v ∧ |v - x| ≤ (10 : ℚ) ^ ((roundSig p x).e - (p : ℤ) + 1) / 2 :=
  ⟨_, fmtG_reads_back p hp x hx, roundSig_value p hp x hx⟩

/-- In the exponent layout the significand text denotes `v = ±m/10^(p-1)` with `v · 10^e` the record's value —
this `v` and the integer `e` are what the LaTeX / unicode / HTML renderers print (`number_to_x_spec`). -/
theorem significand_times_power (p : ℕ) (hp : 1 ≤ p) (x : ℚ) (hx : x ≠ 0) :
    ∃ v, plainValue (sigText p (roundSig p x)) = some v ∧
      v * (10 : ℚ) ^ (roundSig p x).e = (roundSig p x).value p :=
  ⟨_, sigText_value p hp _ (roundSig_spec' p hp x hx).2.1⟩

/-! ## LaTeX / unicode / HTML power-of-ten forms -/

/-- **pow10_layout_spec (1/3): `number_to_scientific_X` follows the record.**  For `x ≠ 0` and an integer
`fmt = p ≥ 1`: in the fixed range the `%g` text is returned unchanged followed by the unit suffix; otherwise
the power-of-ten renderer receives the significand text and **the integer `e` of the record** as exponent,
and the unit suffix follows the rendered number. -/
theorem number_to_x_spec (f : Fmt) (p : ℕ) (hp : 1 ≤ p) (x : ℚ) (hx : x ≠ 0) (unit : Option (List Char)) :
    numberToX f (some p) x unit =
      if useFixed p (roundSig p x).e then .ok (fmtG p x ++ unitSuffix f unit)
      else (powTenE f (sigText p (roundSig p x)) (roundSig p x).e >>= fun b => pure (b ++ unitSuffix f unit)) := by
  unfold numberToX
  simp only [Option.getD_some]
  rw [fmtG_eq p hp x hx]
  split
  · rename_i h
    exact renderX_fixed f _ _ (layoutG_fixed_no_e p _ h)
  · rename_i h
    have h' : useFixed p (roundSig p x).e = false := by simpa using h
    rw [layoutG_exp p _ h']
    exact renderX_exp f _ _ _ (sigText_no_e p _)

/-- The unit is rendered after the number, separated by the format's space; no unit, no suffix. -/
theorem unit_follows (f : Fmt) (flt : List Char) (unit : Option (List Char)) (body : List Char)
    (h : renderX f flt [] = .ok body) : renderX f flt (unitSuffix f unit) = .ok (body ++ unitSuffix f unit) := by
  unfold renderX at h ⊢
  split at h
  · simp only [List.append_nil] at h
    injection h with h
    subst h; rfl
  · rename_i s m heq
    cases hp : powTen f s m with
    | error e => rw [hp] at h; cases h
    | ok b =>
      rw [hp] at h
      simp only [bind, Except.bind, pure, Except.pure, List.append_nil] at h ⊢
      injection h with h
      subst h; rfl
  · cases h

/-- **pow10_layout_spec (2/3): the significand is omitted iff its text is one of the listed spellings of 1.**
LaTeX: `10^{e}` resp. `sig\cdot 10^{e}`; HTML: `10<sup>e</sup>` resp. `sig&sdot;10<sup>e</sup>`;
the exponent is `str` of the integer. -/
theorem pow10_latex (sig : List Char) (e : ℤ) :
    powTenE .latex sig e = .ok (if sig ∈ latexOnes then "10^{".toList ++ intStr e ++ "}".toList
                                else sig ++ "\\cdot 10^{".toList ++ intStr e ++ "}".toList) := by
  unfold powTenE
  by_cases h : sig ∈ latexOnes
  · simp only [List.contains_iff_mem, h, if_true]; rfl
  · simp only [List.contains_iff_mem, h, if_false]; rfl

theorem pow10_html (sig : List Char) (e : ℤ) :
    powTenE .html sig e = .ok (if sig ∈ htmlOnes then "10<sup>".toList ++ intStr e ++ "</sup>".toList
                               else sig ++ "&sdot;10<sup>".toList ++ intStr e ++ "</sup>".toList) := by
  unfold powTenE
  by_cases h : sig ∈ htmlOnes
  · simp only [List.contains_iff_mem, h, if_true]; rfl
  · simp only [List.contains_iff_mem, h, if_false]; rfl

/-- every character of an integer text has a superscript in chempy's `_unicode_sup`, and `unSup` undoes it -/
theorem sup_table_ok : ∀ c ∈ "0123456789-+".toList, ∃ u, unicodeSup.lookup c = some u ∧ unSup u = c := by
  decide

/-- **pow10_layout_spec (3/3), unicode.**  The exponent is written in superscripts that read back,
character by character, as `str` of the integer `e`; significand omitted iff listed; `sig·10` otherwise. -/
theorem pow10_unicode (sig : List Char) (e : ℤ) :
    ∃ sup, supMap (intStr e) = .ok sup ∧ sup.map unSup = intStr e ∧
      powTenE .unicode sig e = .ok (if sig ∈ unicodeOnes then "10".toList ++ sup
                                    else sig ++ "·10".toList ++ sup) := by
  have key : ∀ s : List Char, (∀ c ∈ s, c ∈ "0123456789-+".toList) → ∃ sup, supMap s = .ok sup ∧ sup.map unSup = s := by
    intro s
    induction s with
    | nil => intro _; exact ⟨[], rfl, rfl⟩
    | cons c cs ih =>
      intro h
      obtain ⟨sup, h1, h2⟩ := ih (fun c hc => h c (List.mem_cons_of_mem _ hc))
      obtain ⟨u, hu1, hu2⟩ := sup_table_ok c (h c (by simp))
      refine ⟨u :: sup, ?_, by simp [hu2, h2]⟩
      show (supMap cs >>= fun rest => match unicodeSup.lookup c with
        | some u => pure (u :: rest) | none => throw "TypeError") = _
      rw [h1, hu1]
      rfl
  obtain ⟨sup, h1, h2⟩ := key (intStr e) (intStr_chars e)
  refine ⟨sup, h1, h2, ?_⟩
  unfold powTenE
  simp only [h1, bind, Except.bind]
  by_cases h : sig ∈ unicodeOnes
  · simp only [List.contains_iff_mem, h, if_true]; rfl
  · simp only [List.contains_iff_mem, h, if_false]; rfl

/-- **Success characterisation.** For a non-zero number and `fmt = p ≥ 1` (or `fmt=None`) the three public functions
always produce a text (no error branch of the model is reachable): the specs above are not satisfied vacuously. -/
theorem number_to_x_ok (f : Fmt) (p : ℕ) (hp : 1 ≤ p) (x : ℚ) (hx : x ≠ 0) (unit : Option (List Char)) :
    (∃ s, numberToX f (some p) x unit = .ok s) ∧ (∃ s, numberToX f none x unit = .ok s) := by
  have key : ∀ q : ℕ, 1 ≤ q → ∃ s, numberToX f (some q) x unit = .ok s := by
    intro q hq
    rw [number_to_x_spec f q hq x hx unit]
    split
    · exact ⟨_, rfl⟩
    · cases f with
      | latex => rw [pow10_latex]; exact ⟨_, rfl⟩
      | html => rw [pow10_html]; exact ⟨_, rfl⟩
      | unicode =>
        obtain ⟨sup, _, _, h⟩ := pow10_unicode (sigText q (roundSig q x)) (roundSig q x).e
        rw [h]; exact ⟨_, rfl⟩
  exact ⟨key p hp, by rw [numberToX_default]; exact key _ (by decide)⟩

/-- **latex_reads_back (string-level reader of the LaTeX form).**  `readLatex` knows only the literal mark-up: a text starting with `10^{`
has no significand; otherwise the significand is everything before the first backslash, which must start `\\cdot 10^{`; the exponent is the
Python int up to `}`; the rest is returned.  Applied to what `_latex_pow_10` produced, followed by ANY unit text, it returns the significand text
(absent iff it was one of the "exactly 1" spellings), **the integer exponent**, and the unit text. -/
theorem latex_reads_back (sig : List Char) (e : ℤ) (rest : List Char) (hs : ∀ c ∈ sig, c ≠ '\\' ∧ c ≠ '^') :
    ∃ text, powTenE .latex sig e = .ok text ∧
      readLatex (text ++ rest) = some (if sig ∈ latexOnes then none else some sig, e, rest) := by
  have hst : ∀ c ∈ intStr e, c ≠ '}' := intStr_ne e '}' (by decide)
  have h1 : "10^{".toList = ['1', '0', '^', '{'] := by decide
  have h2 : "}".toList = ['}'] := by decide
  have h3 : "\\cdot 10^{".toList = '\\' :: ['c', 'd', 'o', 't', ' ', '1', '0', '^', '{'] := by decide
  rw [pow10_latex]
  by_cases h : sig ∈ latexOnes
  · refine ⟨_, rfl, ?_⟩
    simp only [h, if_true]
    unfold readLatex
    rw [h2]
    exact readPow_one _ _ [] '}' '\\' rest e hst
  · refine ⟨_, rfl, ?_⟩
    simp only [h, if_false]
    unfold readLatex
    rw [h2, h3]
    refine readPow_sep _ _ [] '}' '\\' sig rest e (fun c hc => (hs c hc).1) hst ?_
    rw [h1]
    have : sig ++ '\\' :: ['c', 'd', 'o', 't', ' ', '1', '0', '^', '{'] ++ intStr e ++ ['}'] ++ rest
        = sig ++ '\\' :: 'c' :: 'd' :: (['o', 't', ' ', '1', '0', '^', '{'] ++ intStr e ++ ['}'] ++ rest) := by simp
    rw [this]
    exact dropPrefix_third '1' '0' '^' ['{'] sig _ _ _ _ (fun c hc => (hs c hc).2) (by decide) (by decide) (by decide)

/-- **html_reads_back.**  The same for `_html_pow_10`: `10<sup>e</sup>` / `sig&sdot;10<sup>e</sup>`, exponent read up to `<`, followed by any text. -/
theorem html_reads_back (sig : List Char) (e : ℤ) (rest : List Char) (hs : ∀ c ∈ sig, c ≠ '&' ∧ c ≠ '<') :
    ∃ text, powTenE .html sig e = .ok text ∧
      readHtml (text ++ rest) = some (if sig ∈ htmlOnes then none else some sig, e, rest) := by
  have hst : ∀ c ∈ intStr e, c ≠ '<' := intStr_ne e '<' (by decide)
  have h1 : "10<sup>".toList = ['1', '0', '<', 's', 'u', 'p', '>'] := by decide
  have h2 : "</sup>".toList = '<' :: ['/', 's', 'u', 'p', '>'] := by decide
  have h3 : "&sdot;10<sup>".toList = '&' :: ['s', 'd', 'o', 't', ';', '1', '0', '<', 's', 'u', 'p', '>'] := by decide
  rw [pow10_html]
  by_cases h : sig ∈ htmlOnes
  · refine ⟨_, rfl, ?_⟩
    simp only [h, if_true]
    unfold readHtml
    rw [h2]
    exact readPow_one _ _ _ '<' '&' rest e hst
  · refine ⟨_, rfl, ?_⟩
    simp only [h, if_false]
    unfold readHtml
    rw [h2, h3]
    refine readPow_sep _ _ _ '<' '&' sig rest e (fun c hc => (hs c hc).1) hst ?_
    rw [h1]
    have : sig ++ '&' :: ['s', 'd', 'o', 't', ';', '1', '0', '<', 's', 'u', 'p', '>'] ++ intStr e ++ '<' :: ['/', 's', 'u', 'p', '>'] ++ rest
        = sig ++ '&' :: 's' :: 'd' :: (['o', 't', ';', '1', '0', '<', 's', 'u', 'p', '>'] ++ intStr e ++ '<' :: ['/', 's', 'u', 'p', '>'] ++ rest) := by
      simp
    rw [this]
    exact dropPrefix_third '1' '0' '<' ['s', 'u', 'p', '>'] sig _ _ _ _ (fun c hc => (hs c hc).2) (by decide) (by decide) (by decide)

/-- The significand texts `%g` produces (digits, a point, a leading minus) satisfy the side conditions of the two readers. -/
theorem sigText_markup_free (p : ℕ) (r : Dec) :
    ∀ c ∈ sigText p r, (c ≠ '\\' ∧ c ≠ '^') ∧ (c ≠ '&' ∧ c ≠ '<') := by
  intro c hc
  have key : ∀ c, numChar c = true → (c ≠ '\\' ∧ c ≠ '^') ∧ (c ≠ '&' ∧ c ≠ '<') := by
    intro c h
    refine ⟨⟨?_, ?_⟩, ?_, ?_⟩ <;> (intro hh; subst hh; revert h; decide)
  unfold sigText at hc
  split at hc
  · simp only [List.mem_cons] at hc
    rcases hc with h | h
    · subst h; decide
    · exact key c (numChar_layoutMant _ _ c h)
  · exact key c (numChar_layoutMant _ _ c hc)

/-- **unicode_reads_back.**  String-level reader of the unicode form: `10` directly followed by a superscript is the bare power, otherwise the
significand is the text before the first `·`, which must be followed by `10`; the exponent is the maximal run of superscript characters mapped back
and read as a Python int.  Applied to what `_unicode_pow_10` produced followed by a text that does not start with a superscript (a unit suffix
starts with a blank) it returns the significand text (absent iff an "exactly 1" spelling), the integer exponent and that text. -/
theorem unicode_reads_back (sig : List Char) (e : ℤ) (rest : List Char)
    (hs : ∀ c ∈ sig, c ≠ '·' ∧ isSup c = false) (hr : ∀ c, rest.head? = some c → isSup c = false) :
    ∃ text, powTenE .unicode sig e = .ok text ∧
      readUnicode (text ++ rest) = some (if sig ∈ unicodeOnes then none else some sig, e, rest) := by
  obtain ⟨sup, h1, h2, h3⟩ := supMap_spec (intStr e) (intStr_chars e)
  have hne : sup ≠ [] := by
    intro h; rw [h] at h2; exact intStr_ne_nil e h2.symm
  have hone : "10".toList = ['1', '0'] := by decide
  have hsep : "·10".toList = ['·', '1', '0'] := by decide
  unfold powTenE
  simp only [h1, bind, Except.bind]
  by_cases h : sig ∈ unicodeOnes
  · simp only [List.contains_iff_mem, h, if_true]
    refine ⟨_, rfl, ?_⟩
    show readUnicode (unicodeOne ++ sup ++ rest) = _
    have : unicodeOne = ['1', '0'] := by decide
    rw [this]
    unfold readUnicode
    rw [omittedForm_bare sup rest hne h3]
    simp only [readSupExp_ok sup rest e h3 h2 hr, Option.map_some]
  · simp only [List.contains_iff_mem, h, if_false]
    refine ⟨_, rfl, ?_⟩
    show readUnicode (sig ++ unicodeSep ++ sup ++ rest) = _
    have : unicodeSep = ['·', '1', '0'] := by decide
    rw [this]
    have hshape : sig ++ ['·', '1', '0'] ++ sup ++ rest = sig ++ '·' :: (['1', '0'] ++ (sup ++ rest)) := by simp
    unfold readUnicode
    rw [hshape, omittedForm_sig sig _ (fun c hc => (hs c hc).2)]
    simp only
    rw [spanNe_append '·' sig _ (fun c hc => (hs c hc).1)]
    simp only
    rw [show '·' :: (['1', '0'] ++ (sup ++ rest)) = ['·', '1', '0'] ++ (sup ++ rest) by rfl, dropPrefix_append]
    simp only [readSupExp_ok sup rest e h3 h2 hr, Option.map_some]

/-- The exponent text is the integer it is: Python `int(str(e)) == e` on the model's own reader. -/
theorem exponent_reads_back (e : ℤ) : parseInt (intStr e) = some e := parseInt_intStr e

/-- Every spelling that makes a renderer drop the significand denotes exactly 1, and the spelling `%g`
produces for a unit significand (`"1"`) is among them — in all three renderers.  (Semantic statement over
the regenerated tables: a harmless reorder or dropping the unreachable `"1.0"` keeps it true; listing `"2"`,
`"-1"` or removing `"1"` does not.) -/
theorem omitted_iff_one :
    (∀ s ∈ latexOnes ++ unicodeOnes ++ htmlOnes, plainValue s = some 1) ∧
    ['1'] ∈ latexOnes ∧ ['1'] ∈ unicodeOnes ∧ ['1'] ∈ htmlOnes := by
  decide +kernel

/-- Hence: whenever a renderer omits the significand of a formatted number, the number printed is exactly
`10^e` — the bare power denotes the record's value. -/
theorem omitted_significand_is_one (p : ℕ) (hp : 1 ≤ p) (x : ℚ) (hx : x ≠ 0)
    (h : sigText p (roundSig p x) ∈ latexOnes ++ unicodeOnes ++ htmlOnes) :
    (roundSig p x).value p = (10 : ℚ) ^ (roundSig p x).e := by
  obtain ⟨v, hv, hval⟩ := significand_times_power p hp x hx
  have h1 := omitted_iff_one.1 _ h
  rw [hv] at h1
  injection h1 with h1
  rw [← hval, h1, one_mul]

/-- What `%g` gives for a unit significand is exactly `"1"` (so the omission rule fires for it): the
exponent-layout significand of a record with `m = 10^(p-1)` and positive sign. -/
theorem unit_significand_text : ∀ p, 1 ≤ p → p ≤ 17 → sigText p ⟨false, 10 ^ (p - 1), 0⟩ = ['1'] := by
  decide +kernel

/-- **number_to_latex_denotes (end to end, LaTeX).**  Outside the fixed range, the text `number_to_scientific_latex(x, fmt=p)` returns —
including any unit — is read by the string-level reader as (significand text or nothing, exponent, unit suffix); the exponent is the record's,
the text after the number is exactly the unit suffix, and significand (1 if omitted) × 10^exponent is the value of the record, i.e. `x` to `p`
significant digits (`roundSig_value`). -/
theorem number_to_latex_denotes (p : ℕ) (hp : 1 ≤ p) (x : ℚ) (hx : x ≠ 0) (unit : Option (List Char))
    (hexp : useFixed p (roundSig p x).e = false) :
    ∃ text sig v, numberToX .latex (some p) x unit = .ok text ∧
      readLatex text = some (sig, (roundSig p x).e, unitSuffix .latex unit) ∧
      sigValue sig = some v ∧ v * (10 : ℚ) ^ (roundSig p x).e = (roundSig p x).value p := by
  obtain ⟨t, ht, hr⟩ := latex_reads_back (sigText p (roundSig p x)) (roundSig p x).e (unitSuffix .latex unit)
    (fun c hc => (sigText_markup_free p _ c hc).1)
  refine ⟨t ++ unitSuffix .latex unit, _, ?_, ?_, hr, ?_⟩
  · exact (if sigText p (roundSig p x) ∈ latexOnes then 1 else
      sgn (roundSig p x).neg * ((roundSig p x).m : ℚ) / (10 : ℚ) ^ (p - 1))
  · rw [number_to_x_spec .latex p hp x hx unit]
    simp only [hexp, Bool.false_eq_true, if_false, ht]
    rfl
  · have hm := (roundSig_spec' p hp x hx).2.1
    by_cases h : sigText p (roundSig p x) ∈ latexOnes
    · simp only [h, if_true, sigValue, true_and, one_mul]
      exact (omitted_significand_is_one p hp x hx (by simp [h])).symm
    · simp only [h, if_false, sigValue]
      exact sigText_value p hp _ hm

/-- **number_to_html_denotes** — the same end-to-end statement for `number_to_scientific_html`. -/
theorem number_to_html_denotes (p : ℕ) (hp : 1 ≤ p) (x : ℚ) (hx : x ≠ 0) (unit : Option (List Char))
    (hexp : useFixed p (roundSig p x).e = false) :
    ∃ text sig v, numberToX .html (some p) x unit = .ok text ∧
      readHtml text = some (sig, (roundSig p x).e, unitSuffix .html unit) ∧
      sigValue sig = some v ∧ v * (10 : ℚ) ^ (roundSig p x).e = (roundSig p x).value p := by
  obtain ⟨t, ht, hr⟩ := html_reads_back (sigText p (roundSig p x)) (roundSig p x).e (unitSuffix .html unit)
    (fun c hc => (sigText_markup_free p _ c hc).2)
  refine ⟨t ++ unitSuffix .html unit, _, ?_, ?_, hr, ?_⟩
  · exact (if sigText p (roundSig p x) ∈ htmlOnes then 1 else
      sgn (roundSig p x).neg * ((roundSig p x).m : ℚ) / (10 : ℚ) ^ (p - 1))
  · rw [number_to_x_spec .html p hp x hx unit]
    simp only [hexp, Bool.false_eq_true, if_false, ht]
    rfl
  · have hm := (roundSig_spec' p hp x hx).2.1
    by_cases h : sigText p (roundSig p x) ∈ htmlOnes
    · simp only [h, if_true, sigValue, true_and, one_mul]
      exact (omitted_significand_is_one p hp x hx (by simp [h])).symm
    · simp only [h, if_false, sigValue]
      exact sigText_value p hp _ hm
/-- **number_to_unicode_denotes** — and for `number_to_scientific_unicode` (the unit suffix starts with a blank, so the superscript run ends there). -/
theorem number_to_unicode_denotes (p : ℕ) (hp : 1 ≤ p) (x : ℚ) (hx : x ≠ 0) (unit : Option (List Char))
    (hexp : useFixed p (roundSig p x).e = false) :
    ∃ text sig v, numberToX .unicode (some p) x unit = .ok text ∧
      readUnicode text = some (sig, (roundSig p x).e, unitSuffix .unicode unit) ∧
      sigValue sig = some v ∧ v * (10 : ℚ) ^ (roundSig p x).e = (roundSig p x).value p := by
  obtain ⟨t, ht, hr⟩ := unicode_reads_back (sigText p (roundSig p x)) (roundSig p x).e (unitSuffix .unicode unit)
    (sigText_sup_free p _) (unitSuffix_unicode_head unit)
  refine ⟨t ++ unitSuffix .unicode unit, _, ?_, ?_, hr, ?_⟩
  · exact (if sigText p (roundSig p x) ∈ unicodeOnes then 1 else
      sgn (roundSig p x).neg * ((roundSig p x).m : ℚ) / (10 : ℚ) ^ (p - 1))
  · rw [number_to_x_spec .unicode p hp x hx unit]
    simp only [hexp, Bool.false_eq_true, if_false, ht]
    rfl
  · have hm := (roundSig_spec' p hp x hx).2.1
    by_cases h : sigText p (roundSig p x) ∈ unicodeOnes
    · simp only [h, if_true, sigValue, true_and, one_mul]
      exact (omitted_significand_is_one p hp x hx (by simp [h])).symm
    · simp only [h, if_false, sigValue]
      exact sigText_value p hp _ hm

/-! ## roman numerals -/

/-- **roman_denotes (additive).** For ALL `n` the values of the tokens `roman n` concatenates add up to `n`,
every emitted token is an entry of the source table, and `roman n` is their concatenation. -/
theorem roman_denotes (n : ℕ) :
    tokSum (romanToks n) = n ∧ (∀ tk ∈ romanToks n, tk ∈ romanTable) ∧
    roman n = ((romanToks n).map Prod.fst).flatten := by
  refine ⟨?_, romanLoop_mem romanTable n, rfl⟩
  have h := romanLoop_sum romanTable n
  have hr := romanLoop_rem romanTable (by decide) n
  unfold romanToks
  omega

/-- **roman_denotes (subtractive, 1…3999).** An independent right-to-left subtractive reader that knows only
the seven symbol values returns `n` for every `n < 4000`. -/
theorem roman_reads_back_3999 : ∀ n, n < 4000 → readRoman (roman n) = (n : ℤ) := by
  have c0 : ∀ n, n < 500 → readRoman (roman (0 + n)) = ((0 + n : ℕ) : ℤ) := by decide +kernel
  have c1 : ∀ n, n < 500 → readRoman (roman (500 + n)) = ((500 + n : ℕ) : ℤ) := by decide +kernel
  have c2 : ∀ n, n < 500 → readRoman (roman (1000 + n)) = ((1000 + n : ℕ) : ℤ) := by decide +kernel
  have c3 : ∀ n, n < 500 → readRoman (roman (1500 + n)) = ((1500 + n : ℕ) : ℤ) := by decide +kernel
  have c4 : ∀ n, n < 500 → readRoman (roman (2000 + n)) = ((2000 + n : ℕ) : ℤ) := by decide +kernel
  have c5 : ∀ n, n < 500 → readRoman (roman (2500 + n)) = ((2500 + n : ℕ) : ℤ) := by decide +kernel
  have c6 : ∀ n, n < 500 → readRoman (roman (3000 + n)) = ((3000 + n : ℕ) : ℤ) := by decide +kernel
  have c7 : ∀ n, n < 500 → readRoman (roman (3500 + n)) = ((3500 + n : ℕ) : ℤ) := by decide +kernel
  intro n hn
  have hk : n / 500 = 0 ∨ n / 500 = 1 ∨ n / 500 = 2 ∨ n / 500 = 3 ∨ n / 500 = 4 ∨ n / 500 = 5 ∨ n / 500 = 6 ∨ n / 500 = 7 := by
    omega
  rcases hk with h | h | h | h | h | h | h | h
  · have := c0 (n % 500) (by omega); rwa [show 0 + n % 500 = n by omega] at this
  · have := c1 (n % 500) (by omega); rwa [show 500 + n % 500 = n by omega] at this
  · have := c2 (n % 500) (by omega); rwa [show 1000 + n % 500 = n by omega] at this
  · have := c3 (n % 500) (by omega); rwa [show 1500 + n % 500 = n by omega] at this
  · have := c4 (n % 500) (by omega); rwa [show 2000 + n % 500 = n by omega] at this
  · have := c5 (n % 500) (by omega); rwa [show 2500 + n % 500 = n by omega] at this
  · have := c6 (n % 500) (by omega); rwa [show 3000 + n % 500 = n by omega] at this
  · have := c7 (n % 500) (by omega); rwa [show 3500 + n % 500 = n by omega] at this

/-- **roman_denotes (subtractive, all n).** `roman n` is `n / 1000` times `M` followed by `roman (n % 1000)`,
hence the subtractive reader returns `n` for every natural number. -/
theorem roman_reads_back (n : ℕ) : readRoman (roman n) = (n : ℤ) := by
  have hT : romanTable = (['M'], 1000) :: romanTable.tail := by decide
  have hsplit : roman n = List.replicate (n / 1000) 'M' ++ roman (n % 1000) := by
    unfold roman romanToks
    rw [hT, romanLoop_step, romanLoop_step, flatten_map_replicate, flatten_map_replicate,
      flatten_replicate_singleton, flatten_replicate_singleton]
    have h1 : n % 1000 / 1000 = 0 := by omega
    have h3 : n - 1000 * (n / 1000) = n % 1000 := by omega
    rw [h1, h3]
    simp
  rw [hsplit, readRoman_M_prefix, roman_reads_back_3999 (n % 1000) (by omega)]
  omega

/-! ## value(uncertainty) notation -/

/-- **uncert_denotes (values) — for EXACT arithmetic.**  Let `q = floor(log10 |xe|) − precision + 1` be the uncertainty's
last kept digit, computed from the true decade of `|xe|` (`ilog10_is_decade`).  The nominal integer and the uncertainty
integer of the exact-rational model satisfy `|noInt·10^q − x| ≤ 10^q/2` and `|unInt·10^q − xe| ≤ 10^q/2`.

**Scope (honest reading).**  The real `_float_str_w_uncert` evaluates `log10`, `x * 10**(-q)` and `round` in IEEE doubles;
this theorem is about the exact model and transfers to the code only where no float rounding interferes.  On decimal
near-ties they differ (`uncert_float_divergence_witness`: 2.675 ± 0.01 → model `2.67(1)`, code `2.68(1)`).  What holds for the
code on all inputs is this statement with an additive float slack of `2^-50·|x|` (resp. `·|xe|`); that version is checked
by the oracle on the real code, and the float behaviour itself is tied by an exact-string correspondence with a
float-faithful mirror (`Model/NumFmtFloat.lean`), not by a theorem. -/
theorem uncert_denotes (x xe : ℚ) (prec : ℤ) :
    |((uncertRecord x xe prec).noInt : ℚ) * (10 : ℚ) ^ (ilog10 |xe| - prec + 1) - x| ≤ (10 : ℚ) ^ (ilog10 |xe| - prec + 1) / 2 ∧
    |((uncertRecord x xe prec).unInt : ℚ) * (10 : ℚ) ^ (ilog10 |xe| - prec + 1) - xe| ≤ (10 : ℚ) ^ (ilog10 |xe| - prec + 1) / 2 := by
  simp only [uncertRecord, absR_eq_abs]
  exact ⟨round_at x _, round_at xe _⟩

/-- **uncert_denotes_perturbed (slack transfer).**  If the argument `y` handed to `round` is not the exact `x·10^(−q)` but within `δ`
of it (float evaluation of `x * 10**(-q)`: relative error of `pow` ≤ 1 ulp and of the product ≤ ½ ulp give `δ ≤ 2^-51·|x|·10^(−q)`),
the printed nominal value is within `10^q/2 + δ·10^q` of `x`.  With `δ·10^q = 2^-50·|x|` this is exactly the inequality the oracle checks
on the real code (`check_uncert_text`): its float slack is a consequence of a stated per-operation error bound, not a free constant.
The same statement with `xe` for `x` covers the uncertainty. -/
theorem uncert_denotes_perturbed (x y δ : ℚ) (q : ℤ) (hy : |y - x / (10 : ℚ) ^ q| ≤ δ) :
    |((roundHalfEven y : ℤ) : ℚ) * (10 : ℚ) ^ q - x| ≤ (10 : ℚ) ^ q / 2 + δ * (10 : ℚ) ^ q := by
  have hs : (0 : ℚ) < (10 : ℚ) ^ q := zpow_pos (by norm_num) _
  generalize (10 : ℚ) ^ q = s at *
  have h := roundHalfEven_spec y
  generalize ((roundHalfEven y : ℤ) : ℚ) = R at *
  have e : R * s - x = ((R - y) + (y - x / s)) * s := by field_simp; ring
  rw [e, abs_mul, abs_of_pos hs]
  have : |(R - y) + (y - x / s)| ≤ 1 / 2 + δ := le_trans (abs_add_le _ _) (add_le_add h hy)
  calc |(R - y) + (y - x / s)| * s ≤ (1 / 2 + δ) * s := by gcongr
    _ = s / 2 + δ * s := by ring

/-- **uncert_decimal_rescale (value and uncertainty are rescaled together).**  Printing a quantity in a unit that differs by a power of
ten (m → cm, km, mM → M …) multiplies value AND uncertainty by the same `10^k`; the record then has the SAME nominal and uncertainty integers
and both exponents shifted by `k` — `3.14(3) m` and `314(3) cm` show the same digits.  (If only the value were rescaled, as in the seeded
C20_c defect, the integers would change.)  Exact arithmetic. -/
theorem uncert_decimal_rescale (x xe : ℚ) (hx : x ≠ 0) (hxe : xe ≠ 0) (prec k : ℤ) :
    uncertRecord (x * (10 : ℚ) ^ k) (xe * (10 : ℚ) ^ k) prec =
      { xExp := (uncertRecord x xe prec).xExp + k, noExp := (uncertRecord x xe prec).noExp + k,
        noInt := (uncertRecord x xe prec).noInt, unInt := (uncertRecord x xe prec).unInt } := by
  have hax : 0 < absR x := by rw [absR_eq_abs]; exact abs_pos.mpr hx
  have haxe : 0 < absR xe := by rw [absR_eq_abs]; exact abs_pos.mpr hxe
  unfold uncertRecord
  simp only [absR_mul_zpow, ilog10_mul_zpow _ hax, ilog10_mul_zpow _ haxe]
  have hq : ilog10 (absR xe) + k - prec + 1 = (ilog10 (absR xe) - prec + 1) + k := by ring
  rw [hq, scaled_arg_eq, scaled_arg_eq]

/-- Consequence for the text: the exponent layout of the rescaled quantity is the same nominal text and the same parenthesis, with the
exponent increased by `k`. -/
theorem uncert_layout_decimal_rescale (x xe : ℚ) (hx : x ≠ 0) (hxe : xe ≠ 0) (prec k : ℤ) :
    ∃ body, uncertLayout1 (uncertRecord x xe prec) = body ++ intStr (uncertRecord x xe prec).xExp ∧
      uncertLayout1 (uncertRecord (x * (10 : ℚ) ^ k) (xe * (10 : ℚ) ^ k) prec) = body ++ intStr ((uncertRecord x xe prec).xExp + k) := by
  rw [uncert_decimal_rescale x xe hx hxe prec k]
  refine ⟨fixedStr (uncertRecord x xe prec).noInt ((uncertRecord x xe prec).xExp - (uncertRecord x xe prec).noExp).toNat
    ++ '(' :: intStr (uncertRecord x xe prec).unInt ++ [')', 'e'], ?_, ?_⟩
  · simp [uncertLayout1]
  · have : (uncertRecord x xe prec).xExp + k - ((uncertRecord x xe prec).noExp + k) =
        (uncertRecord x xe prec).xExp - (uncertRecord x xe prec).noExp := by ring
    simp [uncertLayout1, this]

/-- **Divergence witness (model vs. float code, not a defect of the property read with float slack).**  For the doubles
`2.675` (= 2.67499999999999982…) and `0.01`, one digit: the exact model prints `2.67(1)`; the real code computes
`2.675 * 100 = 267.5` in floats, `round` → 268, and prints `2.68(1)` (replayed by the harness, corpus `float_near_ties.json`). -/
theorem uncert_float_divergence_witness :
    floatStrWUncert (mkRat 3011782250804019 1125899906842624) (mkRat 5764607523034235 576460752303423488) 1
      = .ok "2.67(1)".toList := by
  decide +kernel

/-- **uncert_denotes (digits).** For a positive uncertainty and `precision ≥ 1` the uncertainty integer has the
requested number of digits, `10^(prec-1) ≤ unInt ≤ 10^prec` (the upper end only by a rounding carry, 9.6 → 10). -/
theorem uncert_digits (x xe : ℚ) (hxe : 0 < xe) (prec : ℕ) (hp : 1 ≤ prec) :
    ((10 ^ (prec - 1) : ℕ) : ℤ) ≤ (uncertRecord x xe prec).unInt ∧
    (uncertRecord x xe prec).unInt ≤ ((10 ^ prec : ℕ) : ℤ) := by
  obtain ⟨b1, b2, _⟩ := roundSig_core prec hp xe hxe
  simp only [uncertRecord, absR_eq_abs, abs_of_pos hxe, mul_pow10_neg]
  exact ⟨b1, b2⟩

/-- **uncert_denotes (layout).** When the code's guards pass (`x, xe ≠ 0`, no int→float overflow, the value is
not below the uncertainty's last digit) the result is one of the two layouts, it is the shorter one, and a tie
goes to the plain layout. -/
theorem uncert_shortest (x xe : ℚ) (prec : ℤ) (hx : x ≠ 0) (hxe : xe ≠ 0)
    (hov : ¬ 309 ≤ -(uncertRecord x xe prec).noExp)
    (hfw : ¬ (uncertRecord x xe prec).xExp - (uncertRecord x xe prec).noExp < 0) :
    let u := uncertRecord x xe prec
    ∃ s, floatStrWUncert x xe prec = .ok s ∧ (s = uncertLayout1 u ∨ s = uncertLayout2 u) ∧
      s.length = min (uncertLayout1 u).length (uncertLayout2 u).length ∧
      ((uncertLayout2 u).length ≤ (uncertLayout1 u).length → s = uncertLayout2 u) := by
  refine ⟨shortest (uncertLayout1 _) (uncertLayout2 _), ?_, shortest_cases _ _, shortest_length _ _, ?_⟩
  · unfold floatStrWUncert
    simp only [hx, hxe, or_self, if_false, hov, hfw]
    rfl
  · intro h; unfold shortest; simp [h]

/-- **uncert_denotes (the two layouts denote the same numbers).**  The nominal text of the exponent layout reads
back (explicit reader `readFixed`: digits as one integer, number of decimals) as `noInt` with `xExp − q`
decimals, so with its exponent `xExp` it denotes `noInt · 10^(−(xExp−q)) · 10^xExp = noInt · 10^q`; the
parenthesis shows `unInt`, in units of the last printed digit. The plain layout shows `noInt` with `−q` decimals
(`q < 0`), or the integers `noInt·10^q`, `unInt·10^q` (`q ≥ 0`). -/
theorem uncert_layouts_denote (u : Uncert) (hfw : 0 ≤ u.xExp - u.noExp) :
    (∃ nom, uncertLayout1 u = nom ++ '(' :: intStr u.unInt ++ ')' :: 'e' :: intStr u.xExp ∧
        readFixed nom = some (u.noInt, (u.xExp - u.noExp).toNat) ∧
        (u.noInt : ℚ) / (10 : ℚ) ^ (u.xExp - u.noExp).toNat * (10 : ℚ) ^ u.xExp = (u.noInt : ℚ) * (10 : ℚ) ^ u.noExp) ∧
    (u.noExp < 0 → ∃ nom, uncertLayout2 u = nom ++ '(' :: intStr u.unInt ++ [')'] ∧
        readFixed nom = some (u.noInt, (-u.noExp).toNat) ∧
        (u.noInt : ℚ) / (10 : ℚ) ^ (-u.noExp).toNat = (u.noInt : ℚ) * (10 : ℚ) ^ u.noExp) ∧
    (0 ≤ u.noExp → ∃ nom, uncertLayout2 u = nom ++ '(' :: intStr (u.unInt * (10 ^ u.noExp.toNat : ℕ)) ++ [')'] ∧
        readFixed nom = some (u.noInt * (10 ^ u.noExp.toNat : ℕ), 0) ∧
        ((u.noInt * (10 ^ u.noExp.toNat : ℕ) : ℤ) : ℚ) = (u.noInt : ℚ) * (10 : ℚ) ^ u.noExp) := by
  refine ⟨⟨_, rfl, readFixed_fixedStr _ _, ?_⟩, fun hq => ⟨_, ?_, readFixed_fixedStr _ _, ?_⟩,
    fun hq => ⟨_, ?_, readFixed_fixedStr _ _, ?_⟩⟩
  · obtain ⟨k, hk⟩ : ∃ k : ℕ, u.xExp - u.noExp = (k : ℤ) := ⟨(u.xExp - u.noExp).toNat, by omega⟩
    rw [hk, Int.toNat_natCast]
    have : u.xExp = u.noExp + (k : ℤ) := by omega
    rw [this, zpow_add₀ (by norm_num), zpow_natCast]
    field_simp
  · unfold uncertLayout2
    have h0 : ¬ (0 ≤ u.noExp) := by omega
    have h1 : u.noExp.toNat = 0 := by omega
    simp [h0, h1]
  · obtain ⟨k, hk⟩ : ∃ k : ℕ, u.noExp = -(k : ℤ) := ⟨(-u.noExp).toNat, by omega⟩
    rw [hk, neg_neg, Int.toNat_natCast, zpow_neg, zpow_natCast, div_eq_mul_inv]
  · unfold uncertLayout2
    simp [hq]
  · obtain ⟨k, hk⟩ : ∃ k : ℕ, u.noExp = (k : ℤ) := ⟨u.noExp.toNat, by omega⟩
    rw [hk, Int.toNat_natCast, zpow_natCast]
    push_cast
    ring

/-- **defect witness (real code, mirrored by the model).** Inside the property's stated domain
(`x = 1e-300`, relative uncertainty `1e-7`, 3 digits) `_float_str_w_uncert` does not produce a text at all:
`xe * 10 ** 309` raises OverflowError ("int too large to convert to float").  The two rationals are the exact
values of the floats `1e-300` and `1e-307`. -/
theorem uncert_overflow_defect_witness :
    floatStrWUncert (mkRat 6032057205060441 (2 ^ 1049)) (mkRat 5060056332682765 (2 ^ 1072)) 3
      = .error "OverflowError" := by
  decide +kernel

/-! ## a reaction printed with its parameter -/

/-- **param_str_spec.** A quantity parameter (non-zero magnitude `mag`, unit text `u`) is shown as magnitude, one space, unit:
* plain printer: the text is `s ++ " " ++ u` where `s` read back with the explicit `%g` reader is a number within half a unit
  of the 3rd (`strMagnitudePrecision`) significant digit of `mag`;
* unicode / LaTeX / HTML printers: the text is the `number_to_scientific_X` form of `mag` at the default precision — the `%g`
  text in the fixed range, else the power-of-ten form built from the significand text and **the integer exponent of the
  record** (`significand_times_power`: together they denote the record's value) — followed by `" " ++ u`. -/
theorem param_str_spec (mag : ℚ) (hm : mag ≠ 0) (u : List Char) :
    (∃ s v, reactionParamStr .str (.quantity mag u) = .ok (s ++ ' ' :: u) ∧ readG s = some v ∧
      |v - mag| ≤ (10 : ℚ) ^ ((roundSig strMagnitudePrecision mag).e - (strMagnitudePrecision : ℤ) + 1) / 2) ∧
    (∀ pr f, printerFmt pr = some f →
      reactionParamStr pr (.quantity mag u) =
        if useFixed defaultPrecision (roundSig defaultPrecision mag).e then .ok (fmtG defaultPrecision mag ++ ' ' :: u)
        else (powTenE f (sigText defaultPrecision (roundSig defaultPrecision mag)) (roundSig defaultPrecision mag).e
                >>= fun b => pure (b ++ ' ' :: u))) := by
  constructor
  · obtain ⟨v, hv, hb⟩ := fmtG_denotes strMagnitudePrecision (by decide) mag hm
    exact ⟨_, v, rfl, hv, hb⟩
  · intro pr f hpf
    have hspec := number_to_x_spec f defaultPrecision (by decide) mag hm none
    have hmag : magFmt pr mag = numberToX f (some defaultPrecision) mag none := by
      cases pr <;> simp [printerFmt] at hpf <;> subst hpf <;> rfl
    show (magFmt pr mag >>= fun s => pure (s ++ ' ' :: u)) = _
    rw [hmag, hspec]
    simp only [unitSuffix, List.append_nil]
    split
    · rfl
    · cases h : powTenE f (sigText defaultPrecision (roundSig defaultPrecision mag)) (roundSig defaultPrecision mag).e <;> rfl

/-- The printed reaction line is the reaction text, then separator and parameter, then separator and name;
so the parameter text of `param_str_spec` appears verbatim right after the reaction and its separator. -/
theorem reaction_line_spec (pr : Printer) (rxn : List Char) (p : Param) (ptext : List Char)
    (hp : reactionParamStr pr p = .ok ptext) (name : Option (List Char)) :
    reactionLine pr rxn (some p) name =
      .ok (rxn ++ separator pr ++ ptext ++ (match name with | none => [] | some n => separator pr ++ n)) := by
  unfold reactionLine
  simp only [hp, bind, Except.bind, pure, Except.pure]
  cases name <;> simp

/-- The default precisions the source currently has are the documented ones (5 digits for a bare number,
2 digits of uncertainty, `%.3g` for the plain printer). -/
theorem default_precisions_guard : defaultPrecision = 5 ∧ defaultUncertPrecision = 2 ∧ strMagnitudePrecision = 3 := by
  decide

/-! ## falsy and carried uncertainties -/

/-- **falsy_uncertainty_spec** (behaviour as coded: `uncertainty or getattr(number, "uncertainty", None)`).
* an explicit uncertainty that is zero (falsy) with nothing carried by the number: the PLAIN form is printed and an int `fmt = p ≥ 0`
  is read as *significant digits* (`number_to_scientific_latex(1.234567, 0.0, fmt=2)` = `1.2`);
* an explicit zero falls through to the uncertainty the number carries;
* a carried zero (an `UncertainQuantity` with uncertainty 0) is NOT treated as "no uncertainty": `_float_str_w_uncert` is called and
  refuses with ValueError (`log10(0)`);
* a non-zero explicit uncertainty always wins. -/
theorem falsy_uncertainty_spec (f : Fmt) (p : ℕ) (mag : ℚ) (unit : Option (List Char)) :
    numberToXAny f (some p) mag (some 0) none unit = numberToX f (some p) mag unit ∧
    numberToXAny f none mag (some 0) none unit = numberToX f none mag unit ∧
    (∀ c, numberToXAny f (some p) mag (some 0) (some c) unit = numberToXAny f (some p) mag none (some c) unit) ∧
    (∀ e, numberToXAny f (some p) mag e (some 0) unit = .error "ValueError" ∨ (∃ u, e = some u ∧ u ≠ 0)) ∧
    (∀ u c, u ≠ 0 → numberToXAny f (some p) mag (some u) c unit = numberToXUncert f (some p) mag u unit) := by
  refine ⟨?_, ?_, ?_, ?_, ?_⟩
  · simp [numberToXAny, effectiveUncertainty]
  · simp [numberToXAny, effectiveUncertainty]
  · intro c; simp [numberToXAny, effectiveUncertainty]
  · intro e
    rcases e with _ | u
    · left; simp [numberToXAny, effectiveUncertainty, numberToXUncert, floatStrWUncert]; rfl
    · by_cases hu : u = 0
      · left; subst hu; simp [numberToXAny, effectiveUncertainty, numberToXUncert, floatStrWUncert]; rfl
      · right; exact ⟨u, rfl, hu⟩
  · intro u c hu; simp [numberToXAny, effectiveUncertainty, hu]

/-! ## `fmt` given as a callback -/

/-- **callback_text_spec.** With a callable `fmt` the text `T` the callback returned is post-processed exactly like `%g` output:
* no `e` in `T`: the result is `T` followed by the unit suffix;
* `T = sig ++ "e" ++ man` with a single `e`: if `int(man) = n` the power-of-ten renderer gets the significand text `sig` and the integer `n`
  (so `1.0e+05` from `'%.1e'` is printed as a bare `10^5`: `omitted_iff_one` covers the spelling `"1.0"`), the unit suffix follows; if `man`
  is not an integer text the call is refused with ValueError;
* two `e`s: refused with ValueError (`significand, mantissa = flt.split("e")` cannot unpack). -/
theorem callback_text_spec (f : Fmt) (unit : Option (List Char)) :
    (∀ t, 'e' ∉ t → numberToXCallback f t unit = .ok (t ++ unitSuffix f unit)) ∧
    (∀ sig man n, 'e' ∉ sig → 'e' ∉ man → parseInt man = some n →
      numberToXCallback f (sig ++ 'e' :: man) unit = (powTenE f sig n >>= fun b => pure (b ++ unitSuffix f unit))) ∧
    (∀ sig man, 'e' ∉ sig → 'e' ∉ man → parseInt man = none →
      numberToXCallback f (sig ++ 'e' :: man) unit = .error "ValueError") ∧
    (∀ a b c, 'e' ∉ a → 'e' ∉ b → 'e' ∉ c →
      numberToXCallback f (a ++ 'e' :: (b ++ 'e' :: c)) unit = .error "ValueError") := by
  refine ⟨fun t ht => renderX_fixed f t _ ht, ?_, ?_, ?_⟩
  · intro sig man n hs hm hp
    unfold numberToXCallback renderX
    rw [splitOn_one _ _ _ hs hm]
    simp only [powTen, hp]
  · intro sig man hs hm hp
    unfold numberToXCallback renderX
    rw [splitOn_one _ _ _ hs hm]
    simp only [powTen, hp]
    rfl
  · intro a b c ha hb hc
    unfold numberToXCallback renderX
    rw [splitOn_first _ _ _ ha, splitOn_one _ _ _ hb hc]
    rfl

/-! ## the per-substance HTML table -/

/-- **table_positional_cell.** Data given positionally (list, tuple, array): for distinct substance keys the value looked up for
the `i`-th substance is the `i`-th item of the container — with ITS magnitude and ITS unit text. -/
theorem table_positional_cell (keys : List (List Char)) (hnd : keys.Nodup) (items : List Cell) (hlen : items.length = keys.length)
    (i : ℕ) (hi : i < keys.length) :
    tableElem keys (.positional items) keys[i] = .ok (items[i]'(hlen ▸ hi)) := by
  simp [tableElem, indexOf_getElem keys hnd i hi, List.getElem?_eq_getElem (hlen ▸ hi)]
  rfl

/-- **table_rows_spec.** Whenever the table is produced, it has one row per substance **in substance order**; row `i` shows the
html name of substance `i` and `number_to_scientific_html` (default precision; `number_to_x_spec`, `fmtG_denotes`) of the cell
`_elem` returns for the key of substance `i` — magnitude and unit of that cell, nothing else. -/
theorem table_rows_spec (subs : List (List Char × List Char)) (c : Container) (rows : List (List Char × List Char))
    (h : tableRows subs c = .ok rows) :
    rows.map Prod.fst = subs.map Prod.snd ∧
    ∀ i (hi : i < subs.length) (hr : i < rows.length), ∃ cell,
      tableElem (subs.map Prod.fst) c subs[i].1 = .ok cell ∧ numberToX .html none cell.mag cell.unit = .ok rows[i].2 := by
  obtain ⟨hl, hel⟩ := mapM_ok _ subs rows h
  have key : ∀ i (hi : i < subs.length) (hr : i < rows.length), rows[i].1 = subs[i].2 ∧ ∃ cell,
      tableElem (subs.map Prod.fst) c subs[i].1 = .ok cell ∧ numberToX .html none cell.mag cell.unit = .ok rows[i].2 := by
    intro i hi hr
    have := hel i hi hr
    cases h1 : tableElem (subs.map Prod.fst) c subs[i].1 with
    | error e => simp [h1, bind, Except.bind] at this
    | ok cell =>
      cases h2 : numberToX .html none cell.mag cell.unit with
      | error e => simp [h1, h2, bind, Except.bind] at this
      | ok text =>
        simp only [h1, h2, bind, Except.bind, pure, Except.pure] at this
        injection this with this
        rw [← this]
        exact ⟨rfl, cell, rfl, h2⟩
  refine ⟨?_, fun i hi hr => (key i hi hr).2⟩
  apply List.ext_getElem (by simp [hl])
  intro i h1 h2
  simp only [List.getElem_map]
  exact (key i (by simpa using h2) (by simpa using h1)).1

/-- **table_rows_ok (success characterisation).** Positional data with one item per substance, distinct substance keys and non-zero
magnitudes always yields a table: `table_rows_spec` is not satisfied vacuously.  (A shorter container fails with IndexError, a duplicate key
pairs both rows with the first position.) -/
theorem table_rows_ok (subs : List (List Char × List Char)) (items : List Cell) (hnd : (subs.map Prod.fst).Nodup)
    (hlen : items.length = subs.length) (hnz : ∀ c ∈ items, c.mag ≠ 0) :
    ∃ rows, tableRows subs (.positional items) = .ok rows := by
  apply mapM_ok_of_forall
  intro kn hkn
  obtain ⟨i, hi, rfl⟩ := List.mem_iff_getElem.mp hkn
  have hk : i < (subs.map Prod.fst).length := by simpa using hi
  have hcell := table_positional_cell (subs.map Prod.fst) hnd items (by simpa using hlen) i hk
  simp only [List.getElem_map] at hcell
  obtain ⟨t, ht⟩ := (number_to_x_ok .html 1 (le_refl 1) (items[i]'(hlen ▸ hi)).mag
    (hnz _ (List.getElem_mem _)) (items[i]'(hlen ▸ hi)).unit).2
  exact ⟨(subs[i].2, t), by simp only [hcell, ht, bind, Except.bind, pure, Except.pure]⟩

/-! ## non-vacuity: the hypotheses are satisfiable and the statements say something on concrete inputs -/

/-- 9.9996 at 4 digits carries into the next decade: record (+, 1000, 1), text "10". -/
example : roundSig 4 (99996 / 10000) = ⟨false, 1000, 1⟩ ∧ fmtG 4 (99996 / 10000) = "10".toList := by
  decide +kernel

/-- 1.0004e5 at 3 digits has significand exactly 1: LaTeX `10^{5}`; at 5 digits it has not. -/
example : numberToX .latex (some 3) 100040 none = .ok "10^{5}".toList ∧
    numberToX .latex (some 5) 100040 none = .ok "1.0004\\cdot 10^{5}".toList ∧
    numberToX .html (some 3) (-100040) (some "m/s".toList) = .ok "-1&sdot;10<sup>5</sup> m/s".toList := by
  decide +kernel

example : numberToX .unicode none (314159265 / 10 ^ 15) (some "m/s".toList) = .ok "3.1416·10⁻⁷ m/s".toList := by
  decide +kernel

/-- 3.1416 ± 0.029 m printed in m and in cm (×10²): same digits `314`/`3`, decimal point and decade shifted -/
example : floatStrWUncert (31416 / 10000) (29 / 1000) 1 = .ok "3.14(3)".toList ∧
    floatStrWUncert (31416 / 10000 * 10 ^ (2 : ℤ)) (29 / 1000 * 10 ^ (2 : ℤ)) 1 = .ok "314(3)".toList ∧
    uncertRecord (31416 / 10000 * 10 ^ (2 : ℤ)) (29 / 1000 * 10 ^ (2 : ℤ)) 1 = ⟨2, 0, 314, 3⟩ ∧
    uncertRecord (31416 / 10000) (29 / 1000) 1 = ⟨0, -2, 314, 3⟩ := by
  decide +kernel

/-- the docstring examples of `_float_str_w_uncert` -/
example : floatStrWUncert (-999752) 349 3 = .ok "-999752(349)".toList ∧
    floatStrWUncert (-9997520000000000) 3490000000000 2 = .ok "-9.9975(35)e15".toList ∧
    floatStrWUncert (31416 / 10000) (29 / 1000) 1 = .ok "3.14(3)".toList ∧
    floatStrWUncert 3141600000 2900000 1 = .ok "3.142(3)e9".toList := by
  decide +kernel

/-- a list of two quantities with different prefixes: every cell keeps its own unit, rows in substance order -/
example : perSubstanceTable [("H2O".toList, "H<sub>2</sub>O".toList), ("H+".toList, "H<sup>+</sup>".toList)]
    (.positional [⟨277 / 5, some "M".toList⟩, ⟨35 / 10, some "mM".toList⟩]) "c".toList
    = .ok "<table><tr><th>Substance</th>\n<th>c</th></tr>\n<tr><td>H<sub>2</sub>O</td>\n<td>55.4 M</td></tr>\n<tr><td>H<sup>+</sup></td>\n<td>3.5 mM</td></tr></table>".toList := by
  decide +kernel

/-- explicit zero uncertainty → plain form with `fmt` as significant digits; carried zero → ValueError -/
example : numberToXAny .latex (some 2) (1234567 / 1000000) (some 0) none none = .ok "1.2".toList ∧
    numberToXAny .latex (some 2) (1234567 / 1000000) none (some 0) none = .error "ValueError" ∧
    numberToXAny .unicode (some 1) (31416 / 10000) (some 0) (some (29 / 1000)) (some "m".toList) = .ok "3.14(3) m".toList := by
  decide +kernel

/-- the readers on real outputs, with a unit text that itself contains mark-up -/
example : readLatex "3.1416\\cdot 10^{-7}\\,\\mathrm{\\frac{m}{s}}".toList = some (some "3.1416".toList, -7, "\\,\\mathrm{\\frac{m}{s}}".toList) ∧
    readLatex "10^{5}".toList = some (none, 5, []) ∧
    readHtml "1.4&sdot;10<sup>11</sup> 1/(s&sdot;M)".toList = some (some "1.4".toList, 11, " 1/(s&sdot;M)".toList) ∧
    readHtml "10<sup>-7</sup> M".toList = some (none, -7, " M".toList) := by
  decide +kernel

/-- the unicode reader on real outputs; a significand that itself starts with `10` is not mistaken for the bare power -/
example : readUnicode "3.1416·10⁻⁷ m/s".toList = some (some "3.1416".toList, -7, " m/s".toList) ∧
    readUnicode "10⁸ 1/(s·M)".toList = some (none, 8, " 1/(s·M)".toList) ∧
    readUnicode "10.5·10¹²".toList = some (some "10.5".toList, 12, []) := by
  decide +kernel

/-- callbacks: `'%.1e' % 1e5` → bare power (the `"1.0"` spelling), `'%.2f'` text unchanged + unit, malformed texts refused -/
example : numberToXCallback .latex "1.0e+05".toList none = .ok "10^{5}".toList ∧
    numberToXCallback .html "3.14".toList (some "m/s".toList) = .ok "3.14 m/s".toList ∧
    numberToXCallback .unicode "2.50e-07".toList none = .ok "2.50·10⁻⁷".toList ∧
    numberToXCallback .latex "1.5ex".toList none = .error "ValueError" ∧
    numberToXCallback .latex "1e5e3".toList none = .error "ValueError" := by
  decide +kernel

example : roman 1994 = "MCMXCIV".toList ∧ roman 17 = "XVII".toList ∧ roman 0 = [] := by decide +kernel

example : reactionLine .html "A &rarr; B".toList (some (.quantity 140000000000 "1/(s*M)".toList)) (some "r1".toList)
    = .ok "A &rarr; B&#59; 1.4&sdot;10<sup>11</sup> 1/(s*M)&#59; r1".toList := by decide +kernel

end ChemModel.C20
