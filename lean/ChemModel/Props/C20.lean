import ChemModel.Model.NumFmt
namespace ChemModel.C20
open ChemModel.NumFmt
theorem placeholder : roman 4 = ['I','V'] := by decide
end ChemModel.C20
