/-
C10 — kinetic results do not depend on the units rate constants or registries use.

Property theorems only (helper lemmas: Proofs/KinUnits.lean + the C09 lemmas; model: Model/KinUnits.lean on top of
Model/Units.lean; generated tables: Gen/Dims.lean, Gen/Units.lean).

All theorems hold for EVERY field `α` of characteristic zero (ℚ, ℝ, …), every magnitude, every unit with a non-zero
(not only positive) factor and a 7-entry integer exponent vector, every registry whose entry `i` is a non-zero multiple
of a unit of base dimension `i` (`RegistryWF`), every list of reactions with arbitrary natural reactant coefficients.

Vocabulary: `v.si` = magnitude × unit factor (the physical value in SI), `v.dims` = exponent vector over
(length, mass, time, current, temperature, luminous_intensity, amount); `regProd reg d = ∏ reg[i].si ^ d_i`;
`concDims` = amount/length³, `timeDims` = time; `rateConstDims n` = the GENERATED `MassAction.args_dimensionality`
at order `n`.
-/
import ChemModel.Proofs.KinUnits

set_option linter.unusedSectionVars false
set_option linter.unusedVariables false

namespace ChemModel.C10
open ChemModel ChemModel.Units ChemModel.KinUnits

variable {α : Type} [Field α] [DecidableEq α]

/-! ## the dictionaries of `args_dimensionality` -/

/-- **Rate-constant dimension, every order.** For ALL integer orders the dictionary extracted from
    `MassAction.args_dimensionality` denotes `concentration^(1−order) / time`
    (component-wise: length `3·(order−1)`, time `−1`, amount `1−order`). -/
theorem rate_const_dims_spec (order : ℤ) :
    rateConstDims order = (Dims.smul (1 - order) concDims).sub timeDims ∧
    rateConstDims order = [3 * (order - 1), 0, -1, 0, 0, 0, 1 - order] := by
  refine ⟨rateConstDims_eq order, ?_⟩
  rw [rateConstDims_eq]
  simp [Dims.smul, Dims.sub, concDims, timeDims]
  ring

/-- **The other rate expressions.** Arrhenius: `(A, Ea/R)` = (rate constant, temperature); Eyring:
    (rate constant per temperature, temperature, concentration); Radiolytic: every argument is amount/energy
    (the `radiolytic_yield` entry of `get_derived_unit`). For all integer orders. -/
theorem rate_expression_dims_spec (order : ℤ) :
    argsDims Gen.Dims.massAction order = [rateConstDims order] ∧
    argsDims Gen.Dims.arrhenius order = [rateConstDims order, temperatureDims] ∧
    argsDims Gen.Dims.eyring order = [(rateConstDims order).sub temperatureDims, temperatureDims, concDims] ∧
    (∀ nargs, (classTable "Radiolytic" nargs).map (argsDims · order) = some (List.replicate nargs [-2, -1, 2, 0, 0, 0, 1])) ∧
    Gen.Units.derivedTable.lookup "radiolytic_yield" = some [-2, -1, 2, 0, 0, 0, 1] := by
  refine ⟨rfl, ?_, ?_, ?_, by decide⟩
  · rw [(rate_const_dims_spec order).2]
    simp [argsDims, Gen.Dims.arrhenius, dictItems, itemsDims, keyIndex?_time, keyIndex?_amount, keyIndex?_length,
      keyIndex?_temperature, Dims.smul, Dims.basis, Dims.add, Dims.zero, temperatureDims, nDims, List.range, List.range.loop]
    constructor <;> ring
  · rw [(rate_const_dims_spec order).2]
    simp [argsDims, Gen.Dims.eyring, dictItems, itemsDims, keyIndex?_time, keyIndex?_amount, keyIndex?_length,
      keyIndex?_temperature, Dims.smul, Dims.basis, Dims.add, Dims.sub, Dims.zero, temperatureDims, concDims, nDims,
      List.range, List.range.loop]
    constructor <;> ring
  · intro nargs
    have h1 : itemsDims (dictItems Gen.Dims.radiolytic order) = [-2, -1, 2, 0, 0, 0, 1] := by
      simp [Gen.Dims.radiolytic, dictItems, itemsDims, keyIndex?_time, keyIndex?_amount, keyIndex?_length,
        keyIndex?_temperature, keyIndex?_mass, keyIndex?_current, Dims.smul, Dims.basis, Dims.add, Dims.zero, nDims,
        List.range, List.range.loop]
    simp [classTable, argsDims, h1]

/-! ## acceptance of unit-carrying constants -/

/-- **Rate constants: accepted iff the dimension is right.** `Reaction(…, param=q).check_consistent_units(throw=True)`
    passes iff the exponent vector of `q` is that of `concentration^(1−order)/time`; otherwise it raises ValueError.
    Neither the magnitude nor the scale factor of the unit (s/min/h/ms, M/mM/µM/mol·m⁻³/mol·cm⁻³, …) appears in the
    condition. -/
theorem accept_iff_dimension [CharZero α] (q : Quantity α) (hq : q.unit.WF) (order : ℤ) :
    (reactionCheck (.qty q) order = .ok () ↔ q.unit.dims = rateConstDims order) ∧
    (reactionCheck (.qty q) order = .error .valueError ↔ q.unit.dims ≠ rateConstDims order) ∧
    (reactionCheckBool (.qty q) order = true ↔ q.unit.dims = rateConstDims order) := by
  have h := reactionCheck_qty q hq order
  simp only [reactionCheckBool]
  by_cases hd : q.unit.dims = rateConstDims order <;> simp [h, hd]

/-- **… whatever concrete units express it.** Two constants of the same dimension are accepted or refused together,
    for any magnitudes and any (non-zero) unit factors. -/
theorem accept_whatever_factor [CharZero α] (q q' : Quantity α) (hq : q.unit.WF) (hq' : q'.unit.WF)
    (hd : q.unit.dims = q'.unit.dims) (order : ℤ) :
    reactionCheck (.qty q) order = reactionCheck (.qty q') order := by
  rw [reactionCheck_qty q hq, reactionCheck_qty q' hq', hd]

/-- **QUIRK, exact model only — NOT claimed of the real code in the ⇐ direction.** In exact arithmetic (the model) the
    equilibrium check accepts iff the exponent vector is that of `concentration^(Σprod − Σreac)` AND the scale factor of the
    unit equals that of `molar^(Σprod − Σreac)` (the code compares simplified UNITS, not dimensionalities), refusal being a
    ValueError.  The real code evaluates the factor comparison in float64: a unit whose exact factor equals `1000^Δ` but whose
    float product differs in the last bit (`3*mol/dm**3` for `A = B + C`, `3*dm**3/mol` for `2 A = B`) is REFUSED by the real
    code although this model accepts it.  Only the ⇒ direction (`equilibrium_accept_implies_dimension`) is what the property
    needs and what the correspondence enforces strictly (real accepts ⇒ model accepts); the cases in which the two differ
    are counted in the evidence bucket `equilibrium float-factor quirk`. -/
theorem equilibrium_exact_model_unit_check_quirk [CharZero α] (q : Quantity α) (nprod nreac : ℤ) :
    equilibriumCheck (.qty q) nprod nreac =
      if q.unit.dims = Dims.smul (nprod - nreac) concDims ∧ q.unit.factor = 1000 ^ (nprod - nreac)
      then .ok () else .error .valueError :=
  equilibriumCheck_qty q nprod nreac

/-- **Equilibrium constants: never a wrong dimension.** An accepted unit-carrying equilibrium constant has the
    dimension `concentration^(products − reactants)` (the direction the property states). -/
theorem equilibrium_accept_implies_dimension [CharZero α] (q : Quantity α) (nprod nreac : ℤ)
    (h : equilibriumCheck (.qty q) nprod nreac = .ok ()) :
    q.unit.dims = Dims.smul (nprod - nreac) concDims := by
  rw [equilibriumCheck_qty] at h
  by_cases hc : q.unit.dims = Dims.smul (nprod - nreac) concDims ∧ q.unit.factor = 1000 ^ (nprod - nreac)
  · exact hc.1
  · simp [hc] at h

/-- **Inactive species do not enter (rate constants).** For a reaction with inactive (parenthesised) reactants / products the
    required dimension is `concentration^(1−order)/time` with `order` = the sum over the ACTIVE reactants only, whatever the
    inactive dictionaries contain. -/
theorem accept_iff_dimension_active_only [CharZero α] (q : Quantity α) (hq : q.unit.WF) (s : Stoich) :
    (reactionCheckS (.qty q) s = .ok () ↔ q.unit.dims = rateConstDims ((s.reac.sum : ℕ) : ℤ)) ∧
    ∀ ir ip, reactionCheckS (.qty q) { s with inactReac := ir, inactProd := ip } = reactionCheckS (.qty q) s :=
  ⟨(accept_iff_dimension q hq s.order).1, fun _ _ => rfl⟩

/-- **Inactive species do not enter (equilibrium constants).** An accepted unit-carrying equilibrium constant has the dimension
    `concentration^(Σprod − Σreac)` with both sums over the ACTIVE species only: `H+ + OH- = (H2O)` requires `1/M²`, not `1/M`;
    changing the inactive dictionaries never changes the verdict. -/
theorem equilibrium_accept_implies_dimension_active_only [CharZero α] (q : Quantity α) (s : Stoich)
    (h : equilibriumCheckS (.qty q) s = .ok ()) :
    q.unit.dims = Dims.smul (((s.prod.sum : ℕ) : ℤ) - ((s.reac.sum : ℕ) : ℤ)) concDims ∧
    ∀ ir ip, equilibriumCheckS (.qty q) { s with inactReac := ir, inactProd := ip } = .ok () :=
  ⟨equilibrium_accept_implies_dimension q s.nprod s.order h, fun _ _ => h⟩

/-- **Which constructor calls accept.** `Reaction(…, checks=…, dont_check=…)` succeeds (as far as units are concerned) iff not both
    keywords are given and, when the unit check is among the checks that run, the constant passes it; with the check opted
    out every constant is accepted. -/
theorem constructor_accepts_iff (param : PyVal α) (order : ℤ) (cg dg sel : Bool) :
    reactionCtor param order cg dg sel = .ok () ↔
      ¬ (cg = true ∧ dg = true) ∧ (sel = true → reactionCheck param order = .ok ()) := by
  unfold reactionCtor
  cases cg <;> cases dg <;> cases sel <;> simp

/-- **The equimolar boundary.** For `Σprod = Σreac` (e.g. `A + B = C + D`) the expected unit is the dimensionless quantity
    `molar ** 0` (not the integer 1): an accepted unit-carrying constant is dimensionless — `3 mol/m³`, `3 /s`, `3 mM`, whose
    simplified units have magnitude 1, are refused like `3 M` or `3 /min`. -/
theorem equimolar_equilibrium_accepts_only_dimensionless [CharZero α] (q : Quantity α) (n : ℤ)
    (h : equilibriumCheck (.qty q) n n = .ok ()) : q.unit.dims = Dims.zero ∧ q.unit.factor = 1 := by
  rw [equilibriumCheck_qty] at h
  have h0 : Dims.smul 0 concDims = Dims.zero := by decide
  by_cases hc : q.unit.dims = Dims.smul (n - n) concDims ∧ q.unit.factor = 1000 ^ (n - n)
  · refine ⟨?_, by simpa using hc.2⟩
    rw [hc.1, sub_self, h0]
  · rw [if_neg hc] at h
    cases h

/-- the converse fails on the pinned code: `3/mM` for `2 A = B` has the right dimension and is refused
    (stricter than the property requires; mirrored, not a violation of the statement) -/
theorem equilibrium_refuses_scaled_unit_witness :
    equilibriumCheck (.qty ⟨3, ⟨1, [3, 0, 0, 0, 0, 0, -1]⟩⟩ : PyVal Rat) 1 2 = .error .valueError ∧
    ([3, 0, 0, 0, 0, 0, -1] : Dims) = Dims.smul (1 - 2) concDims := by
  decide +kernel

/-- **Reactions obtained from `Equilibrium.as_reactions` are checked like any other.** Whatever pair `(kf, kb)` the call
    returns (one rate given, with or without `units`), both constants passed the constructor's unit check for THEIR OWN
    reaction: each is either not a Quantity or has dimension `concentration^(1−order)/time` with the forward order `Σreac`
    resp. the backward order `Σprod`; otherwise the call raises.  The two are related by `K · c0^(Σprod−Σreac)`,
    `c0 = 1 molar` (SI value 1000) or 1. -/
theorem as_reactions_checked [CharZero α] (K : PyVal α) (kf kb : Option (PyVal α)) (nf nb : ℤ) (units : Bool)
    (hK : K.WF) (hf : ∀ f, kf = some f → f.WF) (hb : ∀ b, kb = some b → b.WF) (f b : PyVal α)
    (h : asReactions K kf kb nf nb units = .ok (f, b)) :
    (∀ q, f = .qty q → q.unit.dims = rateConstDims nf) ∧ (∀ q, b = .qty q → q.unit.dims = rateConstDims nb) ∧
    reactionCheck f nf = .ok () ∧ reactionCheck b nb = .ok () ∧
    ∃ c0 : α, (units = true → c0 = 1000) ∧ (units = false → c0 = 1) ∧
      ((kf = none ∧ f.si = b.si * K.si * c0 ^ (nb - nf)) ∨ (kb = none ∧ b.si = f.si / (K.si * c0 ^ (nb - nf)))) :=
  asReactions_checked K kf kb nf nb units hK hf hb f b h

/-! ## registry independence -/

/-- **Registry independence (the unit-aware ODE system).**
    For every registry of non-zero base units, every list of reactions (any reactant coefficients), every accepted
    rate constant (dimension `concentration^(1−order)/time`, ANY unit factor and magnitude) and every concentration
    vector (any concentration units): what `get_odesys(rsys, unit_registry=reg)[0].f_cb` returns after the `to_arrays`
    conversion is the plain right-hand side computed from the SI values of constants and concentrations — the hand
    computation in one fixed unit set — times `time_unit / conc_unit` of the registry.  `plainRhs` is the shared kinetics
    model of C03/C04 (`Kinetics.sysRates` + pyodesys' one-expression-per-substance requirement): its errors — a reactant
    outside the state (KeyError), a spectator substance (ValueError at `get_odesys`) — are the same errors here; see
    `unit_aware_system_exists` / `spectator_substance_refused` for when the result exists. -/
theorem registry_independence (reg : Registry α) (hreg : RegistryWF reg) (ks : List (PyVal α)) (rxns : List Rxn)
    (y : List (PyVal α)) (ns : ℕ)
    (hk : List.Forall₂ (fun k r => k.WF ∧ k.dims = rateConstDims r.order) ks rxns)
    (hy : ∀ c ∈ y, c.WF ∧ c.dims = concDims) :
    odeRhs reg ks rxns y ns =
      (plainRhs (ks.map PyVal.si) rxns (y.map PyVal.si) ns).map
        (List.map (· * (regProd reg timeDims / regProd reg concDims))) :=
  odeRhs_spec reg hreg ks rxns y ns hk hy

/-- **Success characterisation.** With one concentration per substance, every index a substance and every substance taking
    part in some reaction (as reactant or product), the unit-aware right-hand side exists and has one entry per substance —
    for every registry and every accepted choice of units. -/
theorem unit_aware_system_exists (reg : Registry α) (hreg : RegistryWF reg) (ks : List (PyVal α)) (rxns : List Rxn)
    (y : List (PyVal α)) (ns : ℕ)
    (hk : List.Forall₂ (fun k r => k.WF ∧ k.dims = rateConstDims r.order) ks rxns)
    (hy : ∀ c ∈ y, c.WF ∧ c.dims = concDims) (hlen : y.length = ns)
    (hrange : ∀ s, Occurs rxns s → s < ns) (hcov : ∀ s, s < ns → Occurs rxns s) :
    ∃ f, odeRhs reg ks rxns y ns = .ok f ∧ f.length = ns :=
  odeRhs_ok reg hreg ks rxns y ns hk hy hlen hrange hcov

/-- **Spectators are refused, as in the code.** A substance of the system that occurs in no reaction makes `get_odesys`
    raise ValueError (pyodesys: "Callback returned unexpected number of expressions"), in every registry; the model does
    not return a silent zero for it. -/
theorem spectator_substance_refused (reg : Registry α) (hreg : RegistryWF reg) (ks : List (PyVal α)) (rxns : List Rxn)
    (y : List (PyVal α)) (ns : ℕ)
    (hk : List.Forall₂ (fun k r => k.WF ∧ k.dims = rateConstDims r.order) ks rxns)
    (hy : ∀ c ∈ y, c.WF ∧ c.dims = concDims) (hlen : y.length = ns)
    (hrange : ∀ s, Occurs rxns s → s < ns) (s : ℕ) (hs : s < ns) (hspec : ¬ Occurs rxns s) :
    odeRhs reg ks rxns y ns = .error .valueError :=
  odeRhs_spectator reg hreg ks rxns y ns hk hy hlen hrange s hs hspec

/-- **… as a physical rate.** Multiplying each returned number by `conc_unit / time_unit` of the registry gives a
    quantity of dimension concentration/time whose SI value is the hand-computed rate of change — the same for every
    registry and every choice of units for constants and concentrations. -/
theorem registry_independence_physical (reg : Registry α) (hreg : RegistryWF reg) (ks : List (PyVal α))
    (rxns : List Rxn) (y : List (PyVal α)) (ns : ℕ)
    (hk : List.Forall₂ (fun k r => k.WF ∧ k.dims = rateConstDims r.order) ks rxns)
    (hy : ∀ c ∈ y, c.WF ∧ c.dims = concDims)
    (hand : List α) (hh : plainRhs (ks.map PyVal.si) rxns (y.map PyVal.si) ns = .ok hand) :
    ∃ C T f, getDerivedUnit (some reg) "concentration" = .ok C ∧ getDerivedUnit (some reg) "time" = .ok T ∧
      odeRhs reg ks rxns y ns = .ok f ∧
      f.map (fun v => (timesUnit v (C.div T)).si) = hand ∧
      ∀ v, (timesUnit v (C.div T)).dims = concDims.sub timeDims := by
  obtain ⟨C, hC, hCw, hCd, hCs, hC0⟩ := concUnit_spec reg hreg
  obtain ⟨T, hT, hTw, hTd, hTs, hT0⟩ := timeUnit_spec reg hreg
  have h := odeRhs_spec reg hreg ks rxns y ns hk hy
  rw [hh] at h
  refine ⟨C, T, _, hC, hT, h, ?_, ?_⟩
  · simp only [List.map_map]
    conv_rhs => rw [← List.map_id hand]
    apply List.map_congr_left
    intro v _
    simp only [Function.comp, timesUnit_si, PyVal.div_si, ← hCs, ← hTs, id]
    field_simp
  · intro v
    rw [timesUnit_dims, PyVal.div_dims hCw hTw, hCd, hTd]

/-- **Two registries, two unit choices.** The physical rates obtained in any two registries from any two
    descriptions of the same physical constants and concentrations coincide. -/
theorem registry_independence_two (reg reg' : Registry α) (hreg : RegistryWF reg) (hreg' : RegistryWF reg')
    (ks ks' : List (PyVal α)) (rxns : List Rxn) (y y' : List (PyVal α)) (ns : ℕ)
    (hk : List.Forall₂ (fun k r => k.WF ∧ k.dims = rateConstDims r.order) ks rxns)
    (hk' : List.Forall₂ (fun k r => k.WF ∧ k.dims = rateConstDims r.order) ks' rxns)
    (hy : ∀ c ∈ y, c.WF ∧ c.dims = concDims) (hy' : ∀ c ∈ y', c.WF ∧ c.dims = concDims)
    (hsame_k : ks.map PyVal.si = ks'.map PyVal.si) (hsame_y : y.map PyVal.si = y'.map PyVal.si) :
    (odeRhs reg ks rxns y ns).map (List.map (· * (regProd reg concDims / regProd reg timeDims))) =
    (odeRhs reg' ks' rxns y' ns).map (List.map (· * (regProd reg' concDims / regProd reg' timeDims))) := by
  have hC := regProd_ne_zero reg (registryWF_si_ne hreg) concDims
  have hT := regProd_ne_zero reg (registryWF_si_ne hreg) timeDims
  have hC' := regProd_ne_zero reg' (registryWF_si_ne hreg') concDims
  have hT' := regProd_ne_zero reg' (registryWF_si_ne hreg') timeDims
  rw [odeRhs_spec reg hreg ks rxns y ns hk hy, odeRhs_spec reg' hreg' ks' rxns y' ns hk' hy', hsame_k, hsame_y]
  cases plainRhs (ks'.map PyVal.si) rxns (y'.map PyVal.si) ns with
  | error e => rfl
  | ok hand =>
    simp only [Except.map, List.map_map]
    congr 1
    apply List.map_congr_left
    intro v _
    simp only [Function.comp]
    field_simp

/-- **Named rate constants (`include_params=False`).** The constants travel through the third `to_arrays` callback and
    are converted with `p_units` built from `MassAction.args_dimensionality`; the result is the same plain right-hand
    side on SI values. -/
theorem registry_independence_named (reg : Registry α) (hreg : RegistryWF reg) (p : List (PyVal α)) (rxns : List Rxn)
    (y : List (PyVal α)) (ns : ℕ)
    (hk : List.Forall₂ (fun k r => k.WF ∧ k.dims = rateConstDims r.order) p rxns)
    (hy : ∀ c ∈ y, c.WF ∧ c.dims = concDims) :
    odeRhsNamed reg p rxns y ns =
      (plainRhs (p.map PyVal.si) rxns (y.map PyVal.si) ns).map
        (List.map (· * (regProd reg timeDims / regProd reg concDims))) :=
  odeRhsNamed_spec reg hreg p rxns y ns hk hy

/-! ## parameter units, `to_arrays`, post-processing -/

/-- **Reported parameter units.** For a named rate constant of a reaction of order `n`, `extra['p_units']` holds, in
    every registry, a unit of dimension `concentration^(1−n)/time` whose SI value is
    `conc_unit^(1−n) / time_unit`; converting a constant with it and multiplying back reproduces the constant. -/
theorem p_units_consistent (reg : Registry α) (hreg : RegistryWF reg) (n : ℤ) :
    ∃ U, regUniqueUnit reg Gen.Dims.massAction 0 n = .ok U ∧ U.WF ∧ U.dims = rateConstDims n ∧
      U.si = regProd reg concDims ^ (1 - n) / regProd reg timeDims ∧ U.si ≠ 0 ∧
      ∀ k : PyVal α, k.WF → k.dims = rateConstDims n →
        ∃ x, toUnitlessScalar k U = .ok x ∧ (timesUnit x U).si = k.si ∧ (timesUnit x U).dims = k.dims := by
  obtain ⟨U, h1, h2, h3, h4, h5⟩ := massActionUnit_spec reg hreg n
  refine ⟨U, h1, h2, h3, by rw [h4, regProd_rateConst reg hreg], h5, ?_⟩
  intro k hk hd
  refine ⟨k.si / U.si, (toUnitlessScalar_ok_iff hk h2 _).mpr ⟨by rw [hd, h3], rfl⟩, ?_, by rw [timesUnit_dims, h3, hd]⟩
  rw [timesUnit_si]; field_simp

/-- **Reported units of named parameter keys** (`temperature`, `density`, `doserate`, `doserate_alpha`, …; `include_params=True`).
    `_get_derived_unit(reg, key)`: for a key of `get_derived_unit`'s table the registry's unit of that physical dimension, SI value
    `∏ reg[i].si ^ eᵢ`, in every registry; a key that is neither derived nor a base key is looked up again without its last
    `_`-separated word (`doserate_alpha` → `doserate`). -/
theorem p_units_named_consistent (reg : Registry α) (hreg : RegistryWF reg) (key : String) :
    (∀ e, Gen.Units.derivedTable.lookup key = some e →
      ∃ U, getDerivedUnitFallback reg key = .ok U ∧ U.WF ∧ U.dims = e ∧ U.si = regProd reg e ∧ U.si ≠ 0) ∧
    (Gen.Units.derivedTable.lookup key = none → keyIndex? key = none →
      getDerivedUnitFallback reg key = getDerivedUnit (some reg) (dropLastWord key)) :=
  getDerivedUnitFallback_spec reg hreg key

example : Gen.Units.derivedTable.lookup "doserate_alpha" = none ∧ keyIndex? "doserate_alpha" = none ∧
    Gen.Units.derivedTable.lookup "doserate" = some [2, 0, -3, 0, 0, 0, 0] := by decide +kernel

/-- **A named constant of the wrong dimension is refused** by the `to_arrays` conversion (ValueError), wherever it
    stands in the parameter vector. -/
theorem named_constant_wrong_dimension_refused (p us : List (PyVal α)) (hlen : p.length = us.length)
    (hw : ∀ k ∈ p, k.WF) (hu : ∀ U ∈ us, U.WF)
    (hbad : ∃ i, ∃ (h1 : i < p.length) (h2 : i < us.length), p[i].dims ≠ us[i].dims) :
    zipToUnitless p us = .error .valueError :=
  zipToUnitless_refuses p us hlen hw hu hbad

/-- **Post-processing inverts `to_arrays`.** For the units `get_odesys` fixed (`time_unit`, `conc_unit`, `p_units`:
    any well-formed non-zero units), inputs of matching dimensions in ANY units: the three callbacks succeed, and the
    post-processor applied to what they return gives back quantities with the same physical values (SI) and the
    dimensions of time / concentration / the respective parameter. -/
theorem post_processing_consistent (ou : OdeUnits α)
    (hT : ou.timeUnit.WF ∧ ou.timeUnit.si ≠ 0) (hC : ou.concUnit.WF ∧ ou.concUnit.si ≠ 0)
    (x y p : List (PyVal α))
    (hx : ∀ a ∈ x, a.WF ∧ a.dims = ou.timeUnit.dims) (hy : ∀ a ∈ y, a.WF ∧ a.dims = ou.concUnit.dims)
    (hp : List.Forall₂ (fun k U => k.WF ∧ U.WF ∧ k.dims = U.dims ∧ U.si ≠ 0) p ou.pUnits) :
    ∃ x' y' p' t c pp, toArraysX ou x = .ok x' ∧ toArraysY ou y = .ok y' ∧ toArraysP ou p = .ok p' ∧
      postProcessor ou none none x' y' p' = .ok (t, c, pp) ∧
      t.map PyVal.si = x.map PyVal.si ∧ c.map PyVal.si = y.map PyVal.si ∧
      (∀ e ∈ t, e.dims = ou.timeUnit.dims) ∧ (∀ e ∈ c, e.dims = ou.concUnit.dims) ∧
      List.Forall₂ (fun (k e : PyVal α) => e.si = k.si ∧ e.dims = k.dims) p pp := by
  obtain ⟨x', hx1, _, hx3, hx4⟩ := flat_roundtrip x ou.timeUnit hT.1 hT.2 hx
  obtain ⟨y', hy1, _, hy3, hy4⟩ := flat_roundtrip y ou.concUnit hC.1 hC.2 hy
  obtain ⟨p', hp1, hp2⟩ := zip_roundtrip p ou.pUnits hp
  exact ⟨x', y', p', _, _, _, hx1, hy1, hp1, by simp [postProcessor, rescaleOpt], hx3, hy3,
    fun e he => (hx4 e he).1, fun e he => (hy4 e he).1, hp2⟩

/-- **Output rescaling.** With `output_time_unit` / `output_conc_unit` given (unit objects of the right dimension),
    the post-processor returns the same physical values, now carried in exactly the requested units; a requested
    unit of another dimension makes it raise ValueError. -/
theorem output_rescaling_consistent (T t : Quantity α) (ht1 : t.mag = 1) (ht : t.unit.WF) (xs : List α) :
    (T.unit.dims = t.unit.dims →
      ∃ ws, rescaleOpt (some (.qty t)) (xs.map (timesUnit · (.qty T))) = .ok ws ∧
        ws.map PyVal.si = (xs.map (timesUnit · (.qty T))).map PyVal.si ∧
        ∀ w ∈ ws, ∃ q, w = .qty q ∧ q.unit = t.unit) ∧
    (T.unit.dims ≠ t.unit.dims → ∀ v, rescale (timesUnit v (.qty T)) (.qty t) = .error .valueError) := by
  constructor
  · intro hd
    apply rescaleOpt_spec t ht1 ht
    intro v hv
    obtain ⟨x, _, rfl⟩ := List.mem_map.mp hv
    exact ⟨⟨x * T.mag, T.unit⟩, by simp [timesUnit, PyVal.mul], hd⟩
  · intro hd v
    have : timesUnit v (.qty T) = .qty ⟨v * T.mag, T.unit⟩ := by simp [timesUnit, PyVal.mul]
    rw [this]
    exact rescale_refuses _ t hd

/-! ## the alternative builder -/

/-- **`_validate`'s unit test.** A mass-action term `k · ∏ cᵢ^νᵢ` evaluated with unit-carrying concentrations passes
    `to_unitless(term, molar/second)` iff `k` has dimension `concentration^(1−Σν)/time`; otherwise ValueError. -/
theorem validate_accepts_iff_dimension [CharZero α] (k : PyVal α) (hk : k.WF) (cs : List (PyVal α × ℕ))
    (hcs : ∀ c ∈ cs, c.1.WF ∧ c.1.dims = concDims) :
    validateTerm k cs =
      if k.dims = rateConstDims (((cs.map (·.2)).sum : ℕ) : ℤ) then .ok () else .error .valueError :=
  validateTerm_spec k hk cs hcs

/-- **`dedimensionalisation` / `dedim_tcp`.** In every registry each argument gets a unit of its own dimension with SI
    value `∏ reg[i].si ^ dᵢ`, and the unitless value times that unit is the argument. -/
theorem dedimensionalisation_consistent (reg : Registry α) (hreg : RegistryWF reg) (ks : List (PyVal α))
    (hk : ∀ k ∈ ks, k.WF) :
    ∃ kus, dedimArgs reg ks = .ok kus ∧
      List.Forall₂ (fun (k : PyVal α) (ku : PyVal α × α) => ku.1.WF ∧ ku.1.dims = k.dims ∧
        ku.1.si = regProd reg k.dims) ks kus ∧
      kus.map (·.2) = ks.map (fun k => k.si / regProd reg k.dims) := by
  obtain ⟨kus, h1, h2, h3⟩ := dedimArgs_spec reg hreg ks hk
  exact ⟨kus, h1, h3, h2⟩

/-! ## the hypotheses are satisfiable: a concrete non-trivial instance over ℚ -/

/-- a registry of centimetre, kilogram, minute, ampere, kelvin, candela, micromole -/
def exampleReg : Registry Rat :=
  [.qty ⟨1, ⟨1/100, Dims.basis 0⟩⟩, .qty ⟨1, ⟨1, Dims.basis 1⟩⟩, .qty ⟨1, ⟨60, Dims.basis 2⟩⟩, .qty ⟨1, ⟨1, Dims.basis 3⟩⟩,
   .qty ⟨1, ⟨1, Dims.basis 4⟩⟩, .qty ⟨1, ⟨1, Dims.basis 5⟩⟩, .qty ⟨1, ⟨1/1000000, Dims.basis 6⟩⟩]

example : RegistryWF exampleReg := by
  refine ⟨rfl, ?_⟩
  intro i h
  simp only [exampleReg, List.length_cons, List.length_nil] at h
  interval_cases i <;>
    refine ⟨⟨by simp [exampleReg], by simp [exampleReg, Dims.WF, Dims.basis, nDims]⟩, rfl, by simp [exampleReg]⟩

/-- `2 A -> B`, `k = 3 /M/h`, `[A] = 13 mol/m³`, `[B] = 0.2 M`: in (cm, min, µmol) units the system returns
    `d[A]/dt = −169/10000`, i.e. `−169/600000 mol m⁻³ s⁻¹ = −2·k·[A]²` in SI (k = 1/1200000, [A] = 13) -/
example : odeRhs exampleReg [.qty ⟨3, ⟨1/3600000, [3, 0, -1, 0, 0, 0, -1]⟩⟩] [{ reac := [(0, 2)], prod := [(1, 1)] }]
    [.qty ⟨13, ⟨1, concDims⟩⟩, .qty ⟨1/5, ⟨1000, concDims⟩⟩] 2 = .ok [-169/10000, 169/20000] := by decide +kernel

example : plainRhs [(1 : Rat)/1200000] [{ reac := [(0, 2)], prod := [(1, 1)] }] [13, 200] 2 = .ok [-169/600000, 169/1200000] := by
  decide +kernel

example : ([3, 0, -1, 0, 0, 0, -1] : Dims) = rateConstDims 2 := by decide +kernel

example : reactionCheck (.qty ⟨3, ⟨1/3600000, [3, 0, -1, 0, 0, 0, -1]⟩⟩ : PyVal Rat) 2 = .ok () := by decide +kernel
example : reactionCheck (.qty ⟨3, ⟨1/3600000, [3, 0, -1, 0, 0, 0, -1]⟩⟩ : PyVal Rat) 1 = .error .valueError := by
  decide +kernel

/-- `A + B = C`, `K = 2000` (plain number, molar standard state), `kf = 3 /M/s`: `kb = kf / (K · c0^(1−2)) = 1.5e-3 /s`, accepted -/
example : asReactions (.num 2000 : PyVal Rat) (some (.qty ⟨3, ⟨1/1000, [3, 0, -1, 0, 0, 0, -1]⟩⟩)) none 2 1 true =
    .ok (.qty ⟨3, ⟨1/1000, [3, 0, -1, 0, 0, 0, -1]⟩⟩, .qty ⟨3 / (2000 * 1), ⟨1/1000 / (1 * (1/1000)), [0, 0, -1, 0, 0, 0, 0]⟩⟩) := by
  decide +kernel

/-- the same with a unit-carrying `K = 2000 /M`: the backward constant comes out as `M/s` and the call raises -/
example : asReactions (.qty ⟨2000, ⟨1/1000, [3, 0, 0, 0, 0, 0, -1]⟩⟩ : PyVal Rat)
    (some (.qty ⟨3, ⟨1/1000, [3, 0, -1, 0, 0, 0, -1]⟩⟩)) none 2 1 true = .error .valueError := by decide +kernel

/-- a spectator: `A -> B` in a system `A B C` -/
example : odeRhs exampleReg [.qty ⟨3, ⟨1/60, [0, 0, -1, 0, 0, 0, 0]⟩⟩] [{ reac := [(0, 1)], prod := [(1, 1)] }]
    [.qty ⟨2, ⟨1, concDims⟩⟩, .qty ⟨5, ⟨1/1000, concDims⟩⟩, .qty ⟨1, ⟨1000, concDims⟩⟩] 3 = .error .valueError := by
  decide +kernel

/-- `A + B = C + D` with `K = 3 mol/m³`, `3 /s`, `3 mM` (SI-coherent units): refused; `K = 3` dimensionless quantity: accepted -/
example : equilibriumCheck (.qty ⟨3, ⟨1, [-3, 0, 0, 0, 0, 0, 1]⟩⟩ : PyVal Rat) 2 2 = .error .valueError := by decide +kernel
example : equilibriumCheck (.qty ⟨3, ⟨1, [0, 0, -1, 0, 0, 0, 0]⟩⟩ : PyVal Rat) 2 2 = .error .valueError := by decide +kernel
example : equilibriumCheck (.qty ⟨3, ⟨1, Dims.zero⟩⟩ : PyVal Rat) 2 2 = .ok () := by decide +kernel

/-- `H+ + OH- = (H2O)`: `K = 1e14 /M²` accepted, `K = 1e14 /M` refused (the inactive product does not count) -/
example : equilibriumCheckS (.qty ⟨100000000000000, ⟨1/1000000, [6, 0, 0, 0, 0, 0, -2]⟩⟩ : PyVal Rat) ⟨[1, 1], [], [], [1]⟩ = .ok () := by
  decide +kernel
example : equilibriumCheckS (.qty ⟨100000000000000, ⟨1/1000, [3, 0, 0, 0, 0, 0, -1]⟩⟩ : PyVal Rat) ⟨[1, 1], [], [], [1]⟩ =
    .error .valueError := by decide +kernel

/-- `A + (S) -> B + (2 S)` with `k = 3 /min`, SI registry: the inactive solvent `S` (index 2) takes no part in the rate
    `k·[A]` but receives the net stoichiometry `+1`: d/dt = (−1/20·[A], +, +) with `[A] = 2` -/
example : odeRhs (siRegistry : Registry Rat) [.qty ⟨3, ⟨1/60, [0, 0, -1, 0, 0, 0, 0]⟩⟩]
    [{ reac := [(0, 1)], prod := [(1, 1)], inactReac := [(2, 1)], inactProd := [(2, 2)] }]
    [.qty ⟨2, ⟨1, concDims⟩⟩, .qty ⟨5, ⟨1, concDims⟩⟩, .qty ⟨7, ⟨1, concDims⟩⟩] 3 = .ok [-1/10, 1/10, 1/10] := by
  decide +kernel

/-! ## an `Expr`-valued rate constant: Arrhenius -/

section Arrhenius
variable [HasExp α]

/-- **The unitless Arrhenius constant.** For `MassAction(Arrhenius([A, Ea_over_R]))` with `A` of dimension
    `concentration^(1−n)/time` and `Ea_over_R`, `T` temperatures — all three in ANY units — the number the unit-aware system
    evaluates in a registry is the SI constant `A.si·exp(−EaR.si/T.si)` divided by the registry's rate-constant unit: the
    registry's temperature unit cancels inside the exponential.  Holds for every function `exp` (no analytic property is
    used), every registry of non-zero base units. -/
theorem arrhenius_constant_registry_independent (reg : Registry α) (hreg : RegistryWF reg) (A EaR T : PyVal α) (n : ℤ)
    (hA : A.WF) (hAd : A.dims = rateConstDims n) (hE : EaR.WF) (hEd : EaR.dims = temperatureDims)
    (hT : T.WF) (hTd : T.dims = temperatureDims) :
    arrheniusDedim reg A EaR T = .ok (arrheniusEval A.si EaR.si T.si / regProd reg (rateConstDims n)) :=
  arrheniusDedim_spec reg hreg A EaR T n hA hAd hE hEd hT hTd

/-- **Its three arguments, and the refusal.** Each argument is converted with the registry unit of its own dimension
    (success characterisation: any well-formed `A`, `Ea_over_R` and a temperature `T`); a `T` that is not a temperature is
    refused with ValueError by the `to_arrays` conversion. -/
theorem arrhenius_arguments (reg : Registry α) (hreg : RegistryWF reg) (A EaR T : PyVal α)
    (hA : A.WF) (hE : EaR.WF) (hT : T.WF) :
    (T.dims = temperatureDims → arrheniusArgs reg A EaR T =
      .ok (A.si / regProd reg A.dims, EaR.si / regProd reg EaR.dims, T.si / regProd reg temperatureDims)) ∧
    (T.dims ≠ temperatureDims → arrheniusArgs reg A EaR T = .error .valueError) :=
  ⟨arrheniusArgs_spec reg hreg A EaR T hA hE hT, arrheniusArgs_refuses reg hreg A EaR T hA hE hT⟩

/-- **Registry independence for Arrhenius systems.** A system all of whose rate constants are Arrhenius expressions, one
    temperature for the whole system, constants / activation temperatures / temperature / concentrations in any units, any
    registry: the unit-aware right-hand side is the plain right-hand side on the hand-computed SI constants
    `A_i.si·exp(−EaR_i.si/T.si)` and SI concentrations, times `time_unit / conc_unit` (errors — spectator, index — coincide;
    existence as in `unit_aware_system_exists`, since `plainRhs` is the same function). -/
theorem registry_independence_arrhenius (reg : Registry α) (hreg : RegistryWF reg) (params : List (PyVal α × PyVal α))
    (T : PyVal α) (rxns : List Rxn) (y : List (PyVal α)) (ns : ℕ) (hT : T.WF) (hTd : T.dims = temperatureDims)
    (hp : List.Forall₂ (fun (p : PyVal α × PyVal α) (r : Rxn) => p.1.WF ∧ p.1.dims = rateConstDims r.order ∧
      p.2.WF ∧ p.2.dims = temperatureDims) params rxns)
    (hy : ∀ c ∈ y, c.WF ∧ c.dims = concDims) :
    odeRhsArrhenius reg params T rxns y ns =
      (plainRhs (arrheniusSI params T) rxns (y.map PyVal.si) ns).map
        (List.map (· * (regProd reg timeDims / regProd reg concDims))) :=
  odeRhsArrhenius_spec reg hreg params T rxns y ns hT hTd hp hy

end Arrhenius

/-- `A = 1e10 /M/s`, `Ea/R = 5000 K`, `T = 300 K` in the (cm, min, µmol, K) registry: the three unitless arguments -/
example : arrheniusArgs exampleReg (.qty ⟨10000000000, ⟨1/1000, [3, 0, -1, 0, 0, 0, -1]⟩⟩) (.qty ⟨5000, ⟨1, temperatureDims⟩⟩)
    (.qty ⟨300, ⟨1, temperatureDims⟩⟩) = .ok (600000000, 5000, 300) := by decide +kernel

/-! ## `as_reactions`: when it succeeds -/

/-- **Success characterisation of `Equilibrium.as_reactions`.** The call returns the pair `p` iff the standard concentration is
    available (`units` given, or no unit-carrying rate), exactly one of `kf` / `kb` is given (`ratePair`), and BOTH resulting
    constants pass the unit check of their own reaction; with none or both rates given it never succeeds. -/
theorem as_reactions_succeeds_iff (K : PyVal α) (kf kb : Option (PyVal α)) (nf nb : ℤ) (units : Bool) (p : PyVal α × PyVal α) :
    (asReactions K kf kb nf nb units = .ok p ↔
      ∃ c0, standardConc kf kb units = .ok c0 ∧ ratePair K kf kb nf nb c0 = .ok p ∧
        reactionCheck p.1 nf = .ok () ∧ reactionCheck p.2 nb = .ok ()) ∧
    (kf.isSome = kb.isSome → asReactions K kf kb nf nb units ≠ .ok p) :=
  ⟨asReactions_ok_iff K kf kb nf nb units p, fun h => asReactions_needs_exactly_one K kf kb nf nb units h p⟩

/-! ## unitless constants in general; Eyring; Radiolytic -/

/-- **Registry independence for any way of obtaining the constants.** If every unitless rate constant handed to the right-hand
    side has the form `k_SI / (registry unit of concentration^(1−order)/time)` — as the plain, Arrhenius and Eyring constants and
    the radiolytic rates (order 0) below do — the unit-aware right-hand side is the plain right-hand side on the SI constants
    and SI concentrations, times `time_unit / conc_unit`; errors coincide, existence as in `unit_aware_system_exists`. -/
theorem unitless_constants_registry_independent (reg : Registry α) (hreg : RegistryWF reg) (ksi : List α) (rxns : List Rxn)
    (y : List (PyVal α)) (ns : ℕ) (hlen : ksi.length = rxns.length) (hy : ∀ c ∈ y, c.WF ∧ c.dims = concDims) :
    odeRhsUnitless reg ((ksi.zip rxns).map fun kr => kr.1 / regProd reg (rateConstDims kr.2.order)) rxns y ns =
      (plainRhs ksi rxns (y.map PyVal.si) ns).map (List.map (· * (regProd reg timeDims / regProd reg concDims))) :=
  odeRhsUnitless_spec reg hreg ksi rxns y ns hlen hy

section Eyring
variable [HasExp α]

/-- **The unitless Eyring constant.** `MassAction(Eyring([c0, c1, conc0]))` with `c0` per time per temperature (the dimension
    `Eyring.__call__` needs — NOT what `Eyring.args_dimensionality` says, finding 6), `c1`, `T` temperatures, `conc0` a
    concentration (default `1 molar`), all in any units: the number evaluated in a registry is the SI constant
    `c0·T·exp(−c1/T)·conc0^(1−n)` over the registry's rate-constant unit of order `n`; holds for every function `exp`. -/
theorem eyring_constant_registry_independent (reg : Registry α) (hreg : RegistryWF reg) (c0 c1 conc0 T : PyVal α) (n : ℤ)
    (h0 : c0.WF) (h0d : c0.dims = eyringPrefDims) (h1 : c1.WF) (h1d : c1.dims = temperatureDims)
    (h2 : conc0.WF) (h2d : conc0.dims = concDims) (hT : T.WF) (hTd : T.dims = temperatureDims) :
    eyringDedim reg c0 c1 conc0 T n =
      .ok (eyringEval c0.si c1.si conc0.si T.si n / regProd reg (rateConstDims n)) :=
  eyringDedim_spec reg hreg c0 c1 conc0 T n h0 h0d h1 h1d h2 h2d hT hTd

/-- its four arguments (success characterisation) and the refusal of a non-temperature `T` (ValueError) -/
theorem eyring_arguments (reg : Registry α) (hreg : RegistryWF reg) (c0 c1 conc0 T : PyVal α)
    (h0 : c0.WF) (h1 : c1.WF) (h2 : conc0.WF) (hT : T.WF) :
    (T.dims = temperatureDims → eyringArgs reg c0 c1 conc0 T = .ok (c0.si / regProd reg c0.dims, c1.si / regProd reg c1.dims,
      conc0.si / regProd reg conc0.dims, T.si / regProd reg temperatureDims)) ∧
    (T.dims ≠ temperatureDims → eyringArgs reg c0 c1 conc0 T = .error .valueError) :=
  ⟨eyringArgs_spec reg hreg c0 c1 conc0 T h0 h1 h2 hT, eyringArgs_refuses reg hreg c0 c1 conc0 T h0 h1 h2 hT⟩

end Eyring

/-- **The unitless radiolytic rate.** `Radiolytic([g])` with yield `g` (amount/energy), `density` and `doserate` in any units:
    the production rate evaluated in a registry is `g·ρ·D` in SI over the registry's `concentration/time` (= its rate-constant
    unit of order 0): a radiolytic reaction is a zero-order reaction with that constant (its reactants count in the net
    stoichiometry only, like inactive ones). -/
theorem radiolytic_rate_registry_independent (reg : Registry α) (hreg : RegistryWF reg) (g rho D : PyVal α)
    (hg : g.WF) (hgd : g.dims = yieldDims) (hr : rho.WF) (hrd : rho.dims = densityDims) (hD : D.WF) (hDd : D.dims = doserateDims) :
    radiolyticDedim reg g rho D = .ok (radiolyticEval g.si rho.si D.si / regProd reg (rateConstDims 0)) :=
  radiolyticDedim_spec reg hreg g rho D hg hgd hr hrd hD hDd

/-- its three arguments (success characterisation) and the refusal of a wrongly-dimensioned density / dose rate (ValueError) -/
theorem radiolytic_arguments (reg : Registry α) (hreg : RegistryWF reg) (g rho D : PyVal α) (hg : g.WF) (hr : rho.WF) (hD : D.WF) :
    (rho.dims = densityDims → D.dims = doserateDims → radiolyticArgs reg g rho D =
      .ok (g.si / regProd reg g.dims, rho.si / regProd reg densityDims, D.si / regProd reg doserateDims)) ∧
    (rho.dims ≠ densityDims ∨ (rho.dims = densityDims ∧ D.dims ≠ doserateDims) →
      radiolyticArgs reg g rho D = .error .valueError) :=
  ⟨fun h1 h2 => radiolyticArgs_spec reg hreg g rho D hg hr h1 hD h2, radiolyticArgs_refuses reg hreg g rho D hg hr hD⟩

/-- Eyring: `c0 = 1e8 /(K s)`, `c1 = 5000 K`, `conc0 = 1 M`, `T = 300 K` in the (cm, min, µmol, K) registry -/
example : eyringArgs exampleReg (.qty ⟨100000000, ⟨1, [0, 0, -1, 0, -1, 0, 0]⟩⟩) (.qty ⟨5000, ⟨1, temperatureDims⟩⟩)
    (.qty ⟨1, ⟨1000, concDims⟩⟩) (.qty ⟨300, ⟨1, temperatureDims⟩⟩) = .ok (6000000000, 5000, 1000, 300) := by decide +kernel

/-- Radiolytic: `g = 2.1e-7 mol/J`, `ρ = 998 kg/m³`, `D = 9 Gy/min` in the same registry -/
example : radiolyticArgs exampleReg (.qty ⟨21, ⟨1/100000000, yieldDims⟩⟩) (.qty ⟨998, ⟨1, densityDims⟩⟩)
    (.qty ⟨9, ⟨1/60, doserateDims⟩⟩) = .ok (7/1200000000, 499/500000, 324000000) := by decide +kernel

/-- a radiolytic reaction `A -> B` as a zero-order reaction whose reactant counts in the net stoichiometry only -/
example : odeRhsUnitless exampleReg [(3 : Rat)] [{ reac := [], prod := [(1, 1)], inactReac := [(0, 1)] }]
    [.qty ⟨2, ⟨1, concDims⟩⟩, .qty ⟨5, ⟨1, concDims⟩⟩] 2 = .ok [-3, 3] := by decide +kernel

end ChemModel.C10
