/-
C02 — balancing returns only balanced, positive, canonical coefficients or refuses.

Property theorems only (helper lemmas: Proofs/Balance.lean; model: Model/Balance.lean).

The solver core of `balance_stoichiometry` (sympy `linsolve` + expression surgery, PuLP/CBC) is a
parameter: a `Candidate` is ANY vector it may hand to chempy's own final normalisation and checks
(`gate`).  `A` is the signed composition matrix (rows = composition keys incl. charge, columns = species,
reactant columns negated), over ℚ (fractional compositions allowed; integer matrices are a special case).
Modes: `strict` = `underdetermined=False`, `smallest` = `None` (the two numeric modes), `symbolic` = `True`.
-/
import ChemModel.Proofs.Balance

namespace ChemModel.C02
open ChemModel.Balance

/-- an integer vector as the rational vector the matrix is applied to -/
def toQ (ks : List ℤ) : Vec := ks.map fun (k : ℤ) => (k : ℚ)

/-- an integer vector as returned coefficients -/
def toEntries (ks : List ℤ) : List Entry := ks.map fun (k : ℤ) => Entry.num (k : ℚ)

/-- `A·x = 0`, every composition key balanced -/
def Balances (A : Mat) (x : Vec) : Prop := ∀ r ∈ A, dot r x = 0

/-- **gate_sound** (property clauses "balanced", "positive integer", "jointly coprime", one coefficient
per species).  For every matrix, both numeric modes and EVERY numeric vector the solver may return:
if chempy's gate lets a result through, that result is an integer vector `ks` with `A·ks = 0`, all
entries positive, gcd 1, and exactly one entry per column (species) of `A`.
(Mode `None` always presents a numeric vector; mode `False` does whenever the parameter was eliminated.) -/
theorem gate_sound (mode : Mode) (hm : mode ≠ .symbolic) (A : Mat) (v : Vec) (x : List Entry)
    (h : gate mode A (.numeric v) = .ok x) :
    ∃ ks : List ℤ, x = toEntries ks ∧ Balances A (toQ ks) ∧ (∀ k ∈ ks, 0 < k) ∧ listGcd ks = 1 ∧
      ks.length = cols A ∧ (∀ r ∈ A, r.length = ks.length) := by
  unfold gate at h
  simp only at h
  split at h
  · cases h
  · rename_i sol hst
    obtain ⟨hx, hwf, hcols, w, hw, hpos, hbal⟩ := gateChecks_numeric mode hm A sol x h
    rw [hw] at hst
    obtain ⟨ks, hks, hco⟩ := stage2_sound _ w hst
    have hlen : ks.length = cols A := by
      rw [hcols, hw, hks]; simp
    refine ⟨ks, ?_, ?_, ?_, hco, hlen, ?_⟩
    · rw [hx, hw, hks]; simp [toEntries, List.map_map, Function.comp_def]
    · intro r hr
      have := hbal r hr
      rwa [hks] at this
    · intro k hk
      have : (0 : ℚ) < (k : ℚ) := hpos _ (by rw [hks]; exact List.mem_map.2 ⟨k, hk, rfl⟩)
      exact_mod_cast this
    · intro r hr
      have := (List.all_eq_true.1 hwf) r hr
      rw [hlen]
      simpa using this

/-- The same for a candidate that still contains symbols at the normalisation step (`normalised` = whatever
sympy's polynomial gcd made of it): in the numeric modes anything let through is a purely numeric,
balanced, positive vector of the right length.
FULL STATEMENT WANTED: additionally integer entries with gcd 1 — these rest on sympy's polynomial
`gcd`/`reduce(gcd, …)` for symbolic input, which is not modelled; hence `_partial`.
(chempy itself never checks integrality or coprimality of what it returns.) -/
theorem gate_sound_symbolic_partial (mode : Mode) (hm : mode ≠ .symbolic) (A : Mat) (s x : List Entry)
    (h : gate mode A (.symbolic s) = .ok x) :
    ∃ w : Vec, x = w.map Entry.num ∧ Balances A w ∧ (∀ q ∈ w, 0 < q) ∧ w.length = cols A := by
  unfold gate at h
  simp only at h
  obtain ⟨hx, _, hcols, w, hw, hpos, hbal⟩ := gateChecks_numeric mode hm A s x h
  refine ⟨w, by rw [hx, hw], hbal, hpos, ?_⟩
  rw [hcols, hw]; simp

/-- **no_answer_if_unbalanceable** (hypothesis-free form; the `ValueError` form is `refuse_if_unbalanceable` below; clause "when no assignment of positive coefficients balances the species as
placed, a ValueError is raised rather than an answer"): if no positive vector balances `A`, the gate cannot
return `ok`, whatever the solver produced — numeric or symbolic candidate, both numeric modes.
(Every non-`ok` outcome of the model is an exception of the real function.) -/
theorem no_answer_if_unbalanceable (mode : Mode) (hm : mode ≠ .symbolic) (A : Mat) (c : Candidate)
    (hno : ¬ ∃ y : Vec, y.length = cols A ∧ (∀ q ∈ y, 0 < q) ∧ Balances A y) :
    ∀ x, gate mode A c ≠ .ok x := by
  intro x h
  apply hno
  cases c with
  | numeric v =>
    obtain ⟨ks, _, hbal, hpos, _, hlen, _⟩ := gate_sound mode hm A v x h
    refine ⟨toQ ks, by simp [toQ, hlen], ?_, hbal⟩
    intro q hq
    obtain ⟨k, hk, rfl⟩ := List.mem_map.1 hq
    exact_mod_cast hpos k hk
  | symbolic s =>
    obtain ⟨w, _, hbal, hpos, hlen⟩ := gate_sound_symbolic_partial mode hm A s x h
    exact ⟨w, hlen, hpos, hbal⟩

/-- **unique_on_ray**: two integer vectors with gcd 1 one of which is a positive rational multiple of the
other are equal.  Hence on a single ray there is exactly one admissible answer (the minimal one), the
same in all three modes. -/
theorem unique_on_ray (x y : List ℤ) (t : ℚ) (ht : 0 < t) (hx : listGcd x = 1) (hy : listGcd y = 1)
    (hray : toQ y = (toQ x).map (t * ·)) : x = y := by
  have hray' : y.map (fun (k : ℤ) => (k : ℚ)) = x.map (fun (k : ℤ) => t * (k : ℚ)) := by
    simpa [toQ, List.map_map, Function.comp_def] using hray
  have hint := ray_to_int t x y hray'
  have hg := congrArg listGcd hint
  rw [listGcd_map_mul, listGcd_map_mul, hx, hy] at hg
  simp only [Int.natAbs_natCast, Nat.mul_one] at hg
  have hnum : 0 < t.num := Rat.num_pos.2 ht
  have hnd : t.num = (t.den : ℤ) := by omega
  have ht1 : t = 1 := by
    have h1 : (t.num : ℚ) / t.den = t := Rat.num_div_den t
    have hd : (t.den : ℚ) ≠ 0 := by exact_mod_cast t.den_nz
    rw [← h1, hnd]; push_cast; field_simp
  subst ht1
  have : y.map (fun (k : ℤ) => (k : ℚ)) = x.map (fun (k : ℤ) => (k : ℚ)) := by simpa using hray'
  exact ((List.map_injective_iff.2 Int.cast_injective) this).symm

/-- **setup_balances** (clause "every composition key sums to the same total on both sides"): for the
matrix chempy builds from the species as placed (`_get`: reactant columns negated; rows = all composition keys),
`A·(xr ++ xp) = 0` says exactly that every composition key has the same total over the reactants (weights `xr`)
and over the products (weights `xp`).  Together with `gate_sound` this is the balance statement in the
property's own words. -/
theorem setup_balances (p : Problem) (A : Mat) (h : setup p = .ok A) (xr xp : Vec)
    (hxr : xr.length = p.reactants.length) :
    ∃ rc pc, lookupAll p.substances p.reactants = some rc ∧ lookupAll p.substances p.products = some pc ∧
      (Balances A (xr ++ xp) ↔
        ∀ ck ∈ compositionKeys p.substances, dot (rc.map (·.get ck)) xr = dot (pc.map (·.get ck)) xp) := by
  unfold setup at h
  split at h
  · cases h
  · rename_i hboth
    split at h
    · rename_i rc pc hrc hpc
      simp only at h
      split at h
      · cases h
      · injection h with h
        refine ⟨rc, pc, hrc, hpc, ?_⟩
        have hdis : ∀ s ∈ p.products, s ∉ p.reactants := by
          intro s hs hr
          apply hboth
          rw [List.any_eq_true]
          exact ⟨s, hr, by simpa using hs⟩
        have hrow : ∀ ck, dot (((p.reactants ++ p.products).zip (rc ++ pc)).map
            fun q => signedEntry p.reactants ck q.1 q.2) (xr ++ xp)
            = dot (pc.map (·.get ck)) xp - dot (rc.map (·.get ck)) xr := fun ck =>
          signed_row_dot p.reactants p.products rc pc ck xr xp hdis
            (lookupAll_length _ _ _ hrc) (lookupAll_length _ _ _ hpc) hxr
        subst h
        unfold Balances matrix
        constructor
        · intro hb ck hck
          have := hb _ (List.mem_map.2 ⟨ck, hck, rfl⟩)
          rw [hrow ck] at this
          linarith
        · intro hb r hr
          obtain ⟨ck, hck, rfl⟩ := List.mem_map.1 hr
          rw [hrow ck, hb ck hck]
          ring
    · cases h

/-- **keys_equal_species** (clause "the set of keys equals the species given"): the two returned dicts have
exactly the reactants and the products as keys, in the order given (names distinct within a side). -/
theorem keys_equal_species (mode : Mode) (solver : Mat → Candidate) (p : Problem) (r pr : List (String × Entry))
    (h : balanceCore mode solver p = .ok (r, pr)) (hr : p.reactants.Nodup) (hp : p.products.Nodup) :
    r.map (·.1) = p.reactants ∧ pr.map (·.1) = p.products := by
  unfold balanceCore at h
  split at h
  · cases h
  · simp only at h
    split at h
    · cases h
    · split at h
      · rename_i r' pr' h1 h2
        injection h with h
        injection h with ha hb
        subst ha; subst hb
        exact ⟨mkDict_keys _ _ _ _ _ h1 hr, mkDict_keys _ _ _ _ _ h2 hp⟩
      · cases h

/-- **duplicates_selection** (`allow_duplicates=True`): whatever the whole function (`balanceCall`: duplicate search
around the duplicate-free call, every sub-call resolving `substances` itself) returns is the answer of the
duplicate-free call `balanceVia` for a SELECTION of the species given — a sub-list of the reactants and a sub-list
of the products with no species on both sides.  With `balance_end_to_end` (applied to that selection) the returned
dicts are balanced, positive, coprime with respect to this call's compositions. -/
theorem duplicates_selection (raw : RawMode) (allowDup : Bool) (solver : Mat → Candidate)
    (table : List (String × Comp)) (arg : SubstArg) (reac prod : List String)
    (res : Result) (h : balanceCall raw allowDup solver table arg reac prod = .ok res) :
    ∃ r' p', balanceVia raw.mode solver table arg false false r' p' = .ok res ∧
      (∀ s ∈ r', s ∈ reac) ∧ (∀ s ∈ p', s ∈ prod) ∧ (∀ s ∈ r', s ∉ p') :=
  dupSearch_selection _ _ _ _ _ _ _ h

/-- **minimalBySearch_sound** (clause "the 'smallest integers' mode returns a positive solution of minimal
coefficient sum", as a verified certificate checker applied to each concrete ILP answer): if the bounded
enumeration of positive vectors with smaller coefficient sum finds no balancing one, then `x` has minimal
sum among ALL positive integer balancing vectors. -/
theorem minimalBySearch_sound (A : Mat) (x : List ℕ) (h : minimalBySearch A x = true) :
    ∀ y : List ℕ, y.length = x.length → (∀ v ∈ y, 0 < v) → Balances A (natVec y) → x.sum ≤ y.sum := by
  intro y hl hpos hbal
  by_contra hlt
  have hmem := mem_enumPos x.length (x.sum - 1) y hl hpos (by omega)
  unfold minimalBySearch at h
  have := (List.all_eq_true.1 h) y hmem
  simp only [Bool.not_eq_true', isBalanced] at this
  have hb : (A.all fun r => dot r (natVec y) == 0) = true := by
    rw [List.all_eq_true]
    intro r hr
    simpa using hbal r hr
  rw [hb] at this
  cases this

/-- **precheck_sound** (stretch): the component-presence pre-check, including its `any_pos and any_neg`
escape, only refuses components that no positive assignment can balance — PROVIDED the component occurs
in at least one species (`hnz`).  `rv` / `pv` are the amounts of the component in the reactants / products. -/
theorem precheck_sound (rv pv : List ℚ) (e : Err) (h : precheckKey rv pv = .error e)
    (hnz : ∃ q ∈ rv ++ pv, q ≠ 0) (xr xp : List ℚ) (hlr : xr.length = rv.length) (hlp : xp.length = pv.length)
    (hxr : ∀ q ∈ xr, 0 < q) (hxp : ∀ q ∈ xp, 0 < q) : dot rv xr ≠ dot pv xp := by
  unfold precheckKey at h
  obtain ⟨q0, hq0, hq0nz⟩ := hnz
  split at h
  · rename_i hc
    simp only [Bool.and_eq_true, Bool.not_eq_true', Bool.and_eq_false_iff] at hc
    obtain ⟨hzero, hsign⟩ := hc
    have hz : ∀ q ∈ rv, q = 0 := fun q hq => by simpa using (List.all_eq_true.1 hzero) q hq
    rw [dot_zero_left rv xr hz]
    have hq0p : q0 ∈ pv := by
      rcases List.mem_append.1 hq0 with h1 | h1
      · exact absurd (hz q0 h1) hq0nz
      · exact h1
    refine (one_sided_unbalanced pv xp hlp ?_ ⟨q0, hq0p, hq0nz⟩ hxp).symm
    rintro ⟨h1, h2⟩
    rcases hsign with h3 | h3
    · rw [h1] at h3; cases h3
    · rw [h2] at h3; cases h3
  · split at h
    · rename_i _ hc
      simp only [Bool.and_eq_true, Bool.not_eq_true', Bool.and_eq_false_iff] at hc
      obtain ⟨hzero, hsign⟩ := hc
      have hz : ∀ q ∈ pv, q = 0 := fun q hq => by simpa using (List.all_eq_true.1 hzero) q hq
      rw [dot_zero_left pv xp hz]
      have hq0r : q0 ∈ rv := by
        rcases List.mem_append.1 hq0 with h1 | h1
        · exact h1
        · exact absurd (hz q0 h1) hq0nz
      refine one_sided_unbalanced rv xr hlr ?_ ⟨q0, hq0r, hq0nz⟩ hxr
      rintro ⟨h1, h2⟩
      rcases hsign with h3 | h3
      · rw [h1] at h3; cases h3
      · rw [h2] at h3; cases h3
    · cases h

/-- The side condition of `precheck_sound` is needed: a component that occurs in NO species taking part
(possible when the `substances` mapping holds further substances, or a composition has an explicit 0) is
refused although it is trivially balanced.  A false refusal, not a wrong answer. -/
theorem precheck_zero_row_witness :
    precheckKey [0, 0] [0] = .error (.valueError "not-among-reactants") ∧ dot [0, 0] [2, 1] = dot [0] [2] := by
  constructor <;> decide +kernel

/-- Mode `True` (`symbolic`) applies NO residual check: chempy's gate lets an unbalanced numeric vector
through (H2 + O2 -> H2O with the candidate (1,1,1)).  Balance of a mode-True answer therefore rests on
`linsolve` alone and is validated per instance by the harness; `gate_sound` is stated for the two
numeric modes, as the property does. -/
theorem gate_symbolic_mode_skips_residual_witness :
    gate .symbolic [[-2, 0, 2], [0, -2, 1]] (.numeric [1, 1, 1]) = .ok (toEntries [1, 1, 1]) ∧
      ¬ Balances [[-2, 0, 2], [0, -2, 1]] (toQ [1, 1, 1]) := by
  constructor
  · decide +kernel
  · intro h
    have := h [0, -2, 1] (by simp)
    revert this
    decide +kernel

/-- What mode `True` does guarantee for a numeric candidate: positive coprime integers. -/
theorem gate_symbolic_mode_numeric (A : Mat) (v : Vec) (x : List Entry)
    (h : gate .symbolic A (.numeric v) = .ok x) (hx : ∀ e ∈ x, e.isNum = true) :
    ∃ ks : List ℤ, x = toEntries ks ∧ (∀ k ∈ ks, 0 < k) ∧ listGcd ks = 1 := by
  unfold gate at h
  simp only at h
  split at h
  · cases h
  · rename_i sol hst
    unfold gateChecks at h
    split at h
    · cases h
    · simp only at h
      split at h
      · cases h
      · split at h
        · cases h
        · rename_i hpos
          injection h with h
          subst h
          have hs : ∀ e ∈ sol, e ≠ Entry.sym := by
            intro e he heq
            have := hx e he
            rw [heq] at this
            cases this
          obtain ⟨w, hw, hwpos⟩ := positivity_ok sol (by rw [hpos]) hs
          rw [hw] at hst
          obtain ⟨ks, hks, hco⟩ := stage2_sound _ w hst
          refine ⟨ks, by rw [hw, hks]; simp [toEntries, List.map_map, Function.comp_def], ?_, hco⟩
          intro k hk
          have : (0 : ℚ) < (k : ℚ) := hwpos _ (by rw [hks]; exact List.mem_map.2 ⟨k, hk, rfl⟩)
          exact_mod_cast this

/-- length of the vector the solver handed over -/
def candLen : Candidate → ℕ
  | .numeric v => v.length
  | .symbolic s => s.length

/-- **refuse_if_unbalanceable** (clause "when no assignment of positive coefficients balances the species as placed,
a ValueError is raised rather than an answer"): for a well-formed matrix with at least one species column and a
candidate with one entry per species (what linsolve / the ILP always deliver), if no positive vector balances `A`
the gate's outcome is a `ValueError` — not an answer and not any other exception — in both numeric modes,
for numeric and symbolic candidates. -/
theorem refuse_if_unbalanceable (mode : Mode) (hm : mode ≠ .symbolic) (A : Mat) (c : Candidate)
    (hwf : wellFormed A = true) (hpos : 0 < cols A) (hlen : candLen c = cols A)
    (hno : ¬ ∃ y : Vec, y.length = cols A ∧ (∀ q ∈ y, 0 < q) ∧ Balances A y) :
    ∃ tag, gate mode A c = .error (.valueError tag) := by
  have hA : A ≠ [] := by
    intro h; rw [h] at hpos; simp [cols] at hpos
  cases hg : gate mode A c with
  | ok x => exact absurd hg (no_answer_if_unbalanceable mode hm A c hno x)
  | error e =>
    cases c with
    | numeric v =>
      have hv : v ≠ [] := by
        intro h; rw [h] at hlen; simp [candLen] at hlen; omega
      obtain ⟨sol, hsol⟩ := stage_norm_ok v hv
      unfold gate at hg
      simp only [hsol] at hg
      obtain ⟨hl, _, _⟩ := stage_norm_cases v sol hsol
      obtain ⟨tag, rfl⟩ := gateChecks_error_is_valueError mode hm A sol e hwf hA
        (by rw [hl]; exact hlen.symm) hg
      exact ⟨tag, rfl⟩
    | symbolic s =>
      unfold gate at hg
      simp only at hg
      obtain ⟨tag, rfl⟩ := gateChecks_error_is_valueError mode hm A s e hwf hA hlen.symm hg
      exact ⟨tag, rfl⟩

/-- two positive coprime integer vectors on one line through the origin coincide -/
theorem ray_unique (x0 ks : List ℤ) (t : ℚ) (h0pos : ∀ k ∈ x0, 0 < k) (h0co : listGcd x0 = 1)
    (hpos : ∀ k ∈ ks, 0 < k) (hco : listGcd ks = 1) (ht : toQ ks = (toQ x0).map (t * ·)) : x0 = ks := by
  cases ks with
  | nil =>
    cases x0 with
    | nil => rfl
    | cons a r => simp [toQ] at ht
  | cons k ks' =>
    cases x0 with
    | nil => simp [toQ] at ht
    | cons a r =>
      have hk : 0 < k := hpos k (List.mem_cons_self ..)
      have ha : 0 < a := h0pos a (List.mem_cons_self ..)
      have hhead : (k : ℚ) = t * (a : ℚ) := by
        simp only [toQ, List.map_cons, List.cons.injEq] at ht
        exact ht.1
      have hkq : (0 : ℚ) < (k : ℚ) := by exact_mod_cast hk
      have haq : (0 : ℚ) < (a : ℚ) := by exact_mod_cast ha
      have htpos : 0 < t := by
        by_contra hneg
        have : t * (a : ℚ) ≤ 0 := mul_nonpos_of_nonpos_of_nonneg (not_lt.1 hneg) (le_of_lt haq)
        linarith
      exact unique_on_ray _ _ t htpos h0co hco ht

/-- **single_ray_answer** (clause "for a reaction whose balanced solutions form a single ray the result is that
unique minimal solution in all modes"), soundness half, ALL THREE modes: if every balancing vector is a rational
multiple of the positive coprime vector `x0`, then whatever the gate lets through for a numeric solver answer IS
`x0`.  In the numeric modes nothing is assumed about the solver; in mode `True`, where chempy checks no residual,
the solver's contract is needed (`hsym`: linsolve's vector has one entry per species and lies in the null space). -/
theorem single_ray_answer (mode : Mode) (A : Mat) (v : Vec) (x : List Entry)
    (x0 : List ℤ) (h0pos : ∀ k ∈ x0, 0 < k) (h0co : listGcd x0 = 1)
    (hray : ∀ y : Vec, y.length = cols A → Balances A y → ∃ t : ℚ, y = (toQ x0).map (t * ·))
    (hsym : mode = .symbolic → v.length = cols A ∧ Balances A v)
    (h : gate mode A (.numeric v) = .ok x) : x = toEntries x0 := by
  by_cases hm : mode = .symbolic
  · subst hm
    obtain ⟨hvl, hvb⟩ := hsym rfl
    have h' := h
    unfold gate at h'
    simp only at h'
    split at h'
    · cases h'
    · rename_i sol hst
      obtain ⟨hx, hnan, _⟩ := gateChecks_symbolic_ok A sol x h'
      obtain ⟨hl, hvne, hcase⟩ := stage_norm_cases v sol hst
      rcases hcase with ⟨d, hd, hsol⟩ | hallnan
      · have hxnum : ∀ e ∈ x, e.isNum = true := by
          intro e he
          rw [hx, hsol] at he
          obtain ⟨q, _, rfl⟩ := List.mem_map.1 he
          rfl
        obtain ⟨ks, hks, hpos, hco⟩ := gate_symbolic_mode_numeric A v x h hxnum
        have hw : v.map (· / d) = toQ ks := by
          apply map_num_injective
          rw [← hsol, ← hx, hks]
          simp [toEntries, toQ, List.map_map, Function.comp_def]
        have hbal : Balances A (toQ ks) := by
          intro r hr
          rw [← hw]
          have : v.map (· / d) = v.map ((1 / d) * ·) := by
            apply List.map_congr_left; intro q _; field_simp
          rw [this, dot_map_mul_right, hvb r hr, mul_zero]
        obtain ⟨t, ht⟩ := hray (toQ ks) (by rw [← hw]; simpa using hvl) hbal
        rw [hks, ray_unique x0 ks t h0pos h0co hpos hco ht]
      · exfalso
        cases sol with
        | nil => exact hvne (List.length_eq_zero_iff.1 hl.symm)
        | cons e0 es =>
          have := hallnan e0 (List.mem_cons_self ..)
          subst this
          simp at hnan
  · obtain ⟨ks, hx, hbal, hpos, hco, hlen, _⟩ := gate_sound mode hm A v x h
    obtain ⟨t, ht⟩ := hray (toQ ks) (by simp [toQ, hlen]) hbal
    rw [hx, ray_unique x0 ks t h0pos h0co hpos hco ht]

/-- **gate_complete_on_ray** (completeness half: "refuses" and "returns" are both characterised): if the positive
coprime integer vector `x0` balances the well-formed matrix `A` (one entry per species), then for ANY positive
multiple `t·x0` the solver may hand back, the gate returns `ok x0` — in all three modes.  So on a feasible single
ray the function cannot refuse once the solver found the ray, and with `t = 1`: the gate never alters a canonical
answer (e.g. a coprime minimal-sum ILP vector). -/
theorem gate_complete_on_ray (mode : Mode) (A : Mat) (x0 : List ℤ) (t : ℚ) (ht : 0 < t) (hne : x0 ≠ [])
    (h0pos : ∀ k ∈ x0, 0 < k) (h0co : listGcd x0 = 1) (hwf : wellFormed A = true) (hcols : cols A = x0.length)
    (hbal : Balances A (toQ x0)) :
    gate mode A (.numeric ((toQ x0).map (t * ·))) = .ok (toEntries x0) := by
  have hvpos : ∀ q ∈ (toQ x0).map (t * ·), 0 < q := by
    intro q hq
    simp only [toQ, List.map_map, List.mem_map, Function.comp_apply] at hq
    obtain ⟨k, hk, rfl⟩ := hq
    have : (0 : ℚ) < (k : ℚ) := by exact_mod_cast h0pos k hk
    exact mul_pos ht this
  have hvne : (toQ x0).map (t * ·) ≠ [] := by
    cases x0 with
    | nil => exact absurd rfl hne
    | cons _ _ => simp [toQ]
  obtain ⟨d, hd, hst⟩ := stage_norm_pos _ hvne hvpos
  have hw : ((toQ x0).map (t * ·)).map (· / d) = (toQ x0).map ((t / d) * ·) := by
    rw [List.map_map]
    apply List.map_congr_left
    intro q _
    simp only [Function.comp_apply]
    ring
  rw [hw] at hst
  have htd : 0 < t / d := div_pos ht hd
  have hwpos : ∀ q ∈ (toQ x0).map ((t / d) * ·), 0 < q := by
    intro q hq
    simp only [toQ, List.map_map, List.mem_map, Function.comp_apply] at hq
    obtain ⟨k, hk, rfl⟩ := hq
    have : (0 : ℚ) < (k : ℚ) := by exact_mod_cast h0pos k hk
    exact mul_pos htd this
  obtain ⟨ks, hks, hco⟩ := stage2_sound _ _ hst
  have hkspos : ∀ k ∈ ks, 0 < k := by
    intro k hk
    have : (0 : ℚ) < (k : ℚ) := hwpos _ (by rw [hks]; exact List.mem_map.2 ⟨k, hk, rfl⟩)
    exact_mod_cast this
  have heq : x0 = ks := unique_on_ray x0 ks (t / d) htd h0co hco (by rw [toQ, ← hks])
  unfold gate
  simp only [hst]
  rw [gateChecks_pass mode A _ hwpos hwf (by simp [toQ, hcols])
    (by intro r hr; rw [dot_map_mul_right, hbal r hr, mul_zero])]
  rw [hks, ← heq]
  simp [toEntries, List.map_map, Function.comp_def]

/-- **balance_end_to_end** — the property's sentence about the FUNCTION's return value, not about the gate.
`balanceVia` is the whole duplicate-free call from the arguments as passed (`substances` a dict / `None` + factory /
key string + factory; sides possibly sets), the solver being an arbitrary function of the matrix that returns
numeric vectors.  If it returns `ok (r, pr)` in a numeric mode (names distinct), then
* the keys of `r` / `pr` are exactly the reactants / products given, in order (sorted when passed as a set),
* the coefficients are integers `kr`, `kp`, all positive, jointly coprime,
* the substances were resolved from THIS call's table (`resolve_lookup` says how), and for EVERY composition key
  `ck : ℤ` — element or net charge (key 0), whether or not it occurs (`mem_compositionKeys`: `composition_keys` holds
  every key of every substance; an absent key has amount 0 everywhere) — the total over the reactants equals the total over
  the products, computed from those compositions. -/
theorem balance_end_to_end (mode : Mode) (hm : mode ≠ .symbolic) (solver : Mat → Candidate)
    (hsolver : ∀ A, ∃ v, solver A = .numeric v) (table : List (String × Comp)) (arg : SubstArg)
    (rset pset : Bool) (reac prod : List String) (r pr : List (String × Entry))
    (h : balanceVia mode solver table arg rset pset reac prod = .ok (r, pr))
    (hr : (if rset then sortedSet reac else reac).Nodup) (hp : (if pset then sortedSet prod else prod).Nodup) :
    r.map (·.1) = (if rset then sortedSet reac else reac) ∧ pr.map (·.1) = (if pset then sortedSet prod else prod) ∧
    ∃ kr kp : List ℤ, r.map (·.2) = toEntries kr ∧ pr.map (·.2) = toEntries kp ∧
      (∀ k ∈ kr ++ kp, 0 < k) ∧ listGcd (kr ++ kp) = 1 ∧
      ∃ subs rc pc, resolve table arg reac prod = some subs ∧
        lookupAll subs (if rset then sortedSet reac else reac) = some rc ∧
        lookupAll subs (if pset then sortedSet prod else prod) = some pc ∧
        ∀ ck : ℤ, dot (rc.map (·.get ck)) (toQ kr) = dot (pc.map (·.get ck)) (toQ kp) := by
  generalize her : (if rset then sortedSet reac else reac) = er at *
  generalize hep : (if pset then sortedSet prod else prod) = ep at *
  unfold balanceVia at h
  split at h
  · cases h
  · rename_i p A0 hsv
    -- unpack setupVia
    unfold setupVia at hsv
    split at hsv
    · cases hsv
    · split at hsv
      · cases hsv
      · rename_i subs hres
        simp only at hsv
        split at hsv
        · cases hsv
        · rename_i A hsetup
          injection hsv with hsv
          injection hsv with hp1 hA1
          subst hp1
          rw [her, hep] at hsetup h
          -- unpack balanceCore
          have hkeys := keys_equal_species mode solver _ r pr h hr hp
          unfold balanceCore at h
          simp only [hsetup] at h
          obtain ⟨v, hv⟩ := hsolver A
          rw [hv] at h
          split at h
          · cases h
          · rename_i sol hgate
            split at h
            · rename_i r' pr' h1 h2
              injection h with h
              injection h with ha hb
              subst ha; subst hb
              obtain ⟨ks, hx, hbal, hpos, hco, hlen, hrows⟩ := gate_sound mode hm A v sol hgate
              subst hx
              have hdis := setup_disjoint _ A hsetup
              have hnd : (er ++ ep).Nodup := by
                rw [List.nodup_append]
                exact ⟨hr, hp, fun a ha b hb hab => hdis b hb (hab ▸ ha)⟩
              -- the solution vector has one entry per species
              have hkslen : ks.length = (er ++ ep).length := by
                cases hA : A with
                | nil =>
                  exfalso
                  rw [hA] at hlen
                  simp only [cols] at hlen
                  have hks0 : ks = [] := List.length_eq_zero_iff.1 hlen
                  unfold gate at hgate
                  simp only at hgate
                  split at hgate
                  · cases hgate
                  · rename_i sol' hst
                    obtain ⟨hl, hvne, _⟩ := stage_norm_cases v sol' hst
                    obtain ⟨hxs, _⟩ := gateChecks_numeric mode hm A sol' _ hgate
                    rw [← hxs, hks0] at hl
                    simp [toEntries] at hl
                    exact hvne (List.length_eq_zero_iff.1 hl.symm)
                | cons r0 rest =>
                  have h1' := hrows r0 (by rw [hA]; exact List.mem_cons_self ..)
                  have h2' := setup_row_length _ A hsetup r0 (by rw [hA]; exact List.mem_cons_self ..)
                  rw [← h1']; exact h2'
              have hvals := dict_values mode er ep ks r' pr' hnd hkslen h1 h2
              have hrl : r'.length = er.length := by
                have := congrArg List.length hkeys.1
                simpa using this
              have hsplit : ks = ks.take er.length ++ ks.drop er.length := (List.take_append_drop _ _).symm
              have hvals' : r'.map (·.2) ++ pr'.map (·.2) =
                  toEntries (ks.take er.length) ++ toEntries (ks.drop er.length) := by
                rw [hvals]; conv_lhs => rw [hsplit]
                simp [toEntries]
              have htl : (ks.take er.length).length = er.length := by
                simp only [List.length_take, hkslen, List.length_append]; omega
              have hle : er.length ≤ ks.length := by rw [hkslen, List.length_append]; omega
              obtain ⟨hv1, hv2⟩ := List.append_inj hvals' (by simp [toEntries, hrl, hle])
              refine ⟨hkeys.1, hkeys.2, ks.take er.length, ks.drop er.length, hv1, hv2, ?_, ?_, ?_⟩
              · rw [← hsplit]; exact hpos
              · rw [← hsplit]; exact hco
              · obtain ⟨rc, pc, hrc, hpc, hiff⟩ := setup_balances _ A hsetup (toQ (ks.take er.length))
                  (toQ (ks.drop er.length)) (by simp [toQ, hle])
                refine ⟨subs, rc, pc, hres, hrc, hpc, ?_⟩
                intro ck
                by_cases hck : ck ∈ compositionKeys subs
                swap
                · rw [dot_absent_key subs _ rc _ ck hrc hck, dot_absent_key subs _ pc _ ck hpc hck]
                revert ck hck
                apply hiff.1
                have : toQ (ks.take er.length) ++ toQ (ks.drop er.length) = toQ ks := by
                  conv_rhs => rw [hsplit]
                  simp [toQ]
                rw [this]
                exact hbal
            · cases h

/-- **balance_refuses_end_to_end** — `refuse_if_unbalanceable` lifted to the function: once the arguments
resolved and the pre-check passed (`setupVia = ok (p, A)`, at least one species and one composition key), if no
positive vector balances the species as placed, then for every solver answer with one entry per species the
call ends in a `ValueError`.  (Before that point the only other outcomes are the ValueErrors of the `_intersect`
check / pre-check and a KeyError for a species missing from `substances`.) -/
theorem balance_refuses_end_to_end (mode : Mode) (hm : mode ≠ .symbolic) (solver : Mat → Candidate)
    (table : List (String × Comp)) (arg : SubstArg) (rset pset : Bool) (reac prod : List String)
    (p : Problem) (A : Mat) (hs : setupVia table arg rset pset reac prod = .ok (p, A))
    (hcols : 0 < cols A) (hlen : candLen (solver A) = cols A)
    (hno : ¬ ∃ y : Vec, y.length = cols A ∧ (∀ q ∈ y, 0 < q) ∧ Balances A y) :
    ∃ tag, balanceVia mode solver table arg rset pset reac prod = .error (.valueError tag) := by
  have hsetup : setup p = .ok A := by
    unfold setupVia at hs
    split at hs
    · cases hs
    · split at hs
      · cases hs
      · simp only at hs
        split at hs
        · cases hs
        · rename_i A' hA'
          injection hs with hs
          injection hs with h1 h2
          subst h1; subst h2
          exact hA'
  have hrows := setup_row_length p A hsetup
  have hwf : wellFormed A = true := by
    unfold wellFormed
    rw [List.all_eq_true]
    intro r hr
    have h1 := hrows r hr
    cases hA : A with
    | nil => rw [hA] at hr; cases hr
    | cons r0 rest =>
      have h0 := hrows r0 (by rw [hA]; exact List.mem_cons_self ..)
      simp [cols, h0, h1]
  obtain ⟨tag, htag⟩ := refuse_if_unbalanceable mode hm A (solver A) hwf hcols hlen hno
  refine ⟨tag, ?_⟩
  unfold balanceVia
  simp only [hs]
  unfold balanceCore
  simp only [hsetup, htag]

/-- **balance_complete_on_ray** — liveness at the level of the FUNCTION (success characterisation of `balance_end_to_end`):
once the arguments resolved and the pre-check passed (`setupVia = ok (p, A)`, at least one composition key), if the positive
coprime integer vector `x0` (one entry per species) balances `A` and the solver hands back ANY positive multiple of it, then the
call returns — in all three modes — and the two dicts list exactly the species given with the entries of `x0`, in order. -/
theorem balance_complete_on_ray (mode : Mode) (solver : Mat → Candidate) (table : List (String × Comp)) (arg : SubstArg)
    (rset pset : Bool) (reac prod : List String) (p : Problem) (A : Mat)
    (hs : setupVia table arg rset pset reac prod = .ok (p, A)) (hA : A ≠ [])
    (x0 : List ℤ) (t : ℚ) (ht : 0 < t) (hne : x0 ≠ []) (h0pos : ∀ k ∈ x0, 0 < k) (h0co : listGcd x0 = 1)
    (hlen : x0.length = (p.reactants ++ p.products).length) (hbal : Balances A (toQ x0))
    (hsolver : solver A = .numeric ((toQ x0).map (t * ·))) (hr : p.reactants.Nodup) (hp : p.products.Nodup) :
    ∃ r pr, balanceVia mode solver table arg rset pset reac prod = .ok (r, pr) ∧
      r.map (·.1) = p.reactants ∧ pr.map (·.1) = p.products ∧ r.map (·.2) ++ pr.map (·.2) = toEntries x0 := by
  have hsetup := setupVia_setup table arg rset pset reac prod p A hs
  have hwf := setup_wellFormed p A hsetup
  have hcols : cols A = x0.length := by rw [setup_cols p A hsetup hA, hlen]
  have hgate := gate_complete_on_ray mode A x0 t ht hne h0pos h0co hwf hcols hbal
  obtain ⟨r, h1⟩ := mkDict_some mode (p.reactants ++ p.products) x0 hlen p.reactants
    (fun k hk => List.mem_append_left _ hk)
  obtain ⟨pr, h2⟩ := mkDict_some mode (p.reactants ++ p.products) x0 hlen p.products
    (fun k hk => List.mem_append_right _ hk)
  have hdis := setup_disjoint p A hsetup
  have hnd : (p.reactants ++ p.products).Nodup := by
    rw [List.nodup_append]
    exact ⟨hr, hp, fun a ha b hb hab => hdis b hb (hab ▸ ha)⟩
  refine ⟨r, pr, ?_, mkDict_keys _ _ _ _ _ h1 hr, mkDict_keys _ _ _ _ _ h2 hp,
    dict_values mode p.reactants p.products x0 r pr hnd hlen h1 h2⟩
  unfold balanceVia
  simp only [hs]
  unfold balanceCore
  simp only [hsetup, hsolver, hgate, toEntries, h1, h2]

/-- **composition_keys_spec**: `Substance.composition_keys` is THE strictly increasing list of the keys that occur in some
substance — every key of every substance (elements and net charge) is in it, nothing else, no repeats. -/
theorem composition_keys_spec (subs : List (String × Comp)) :
    (∀ k : ℤ, k ∈ compositionKeys subs ↔ ∃ s ∈ subs, k ∈ s.2.map (·.1)) ∧
      (compositionKeys subs).Pairwise (· < ·) :=
  ⟨mem_compositionKeys subs,
    sortedSet_pairwise (fun a b => lt_trichotomy a b) (fun _ _ _ => lt_trans) _⟩

/-- **balance_end_to_end_sets**: when both sides are passed as Python `set`s no distinctness hypothesis is needed at all
(a sorted set has no repeats): keys = the sorted species, coefficients positive coprime integers, every key balanced. -/
theorem balance_end_to_end_sets (mode : Mode) (hm : mode ≠ .symbolic) (solver : Mat → Candidate)
    (hsolver : ∀ A, ∃ v, solver A = .numeric v) (table : List (String × Comp)) (arg : SubstArg)
    (reac prod : List String) (r pr : List (String × Entry))
    (h : balanceVia mode solver table arg true true reac prod = .ok (r, pr)) :
    r.map (·.1) = sortedSet reac ∧ pr.map (·.1) = sortedSet prod ∧
    ∃ kr kp : List ℤ, r.map (·.2) = toEntries kr ∧ pr.map (·.2) = toEntries kp ∧
      (∀ k ∈ kr ++ kp, 0 < k) ∧ listGcd (kr ++ kp) = 1 ∧
      ∃ subs rc pc, resolve table arg reac prod = some subs ∧
        lookupAll subs (sortedSet reac) = some rc ∧ lookupAll subs (sortedSet prod) = some pc ∧
        ∀ ck : ℤ, dot (rc.map (·.get ck)) (toQ kr) = dot (pc.map (·.get ck)) (toQ kp) := by
  have := balance_end_to_end mode hm solver hsolver table arg true true reac prod r pr h
    (by simpa using sortedSet_nodup_string reac) (by simpa using sortedSet_nodup_string prod)
  simpa using this

/-- **balance_call_end_to_end** (clause "with and without duplicate species allowed"): whatever the WHOLE function —
duplicate search included — returns in a numeric mode, for list sides with distinct names: the keys are a selection of the
species given (sub-lists of the two sides, no species on both sides), the coefficients are positive coprime integers, and every
composition key has equal totals on both sides, computed from this call's compositions. -/
theorem balance_call_end_to_end (raw : RawMode) (hm : raw.mode ≠ .symbolic) (allowDup : Bool) (solver : Mat → Candidate)
    (hsolver : ∀ A, ∃ v, solver A = .numeric v) (table : List (String × Comp)) (arg : SubstArg)
    (reac prod : List String) (hr : reac.Nodup) (hp : prod.Nodup) (r pr : List (String × Entry))
    (h : balanceCall raw allowDup solver table arg reac prod = .ok (r, pr)) :
    (∀ s ∈ r.map (·.1), s ∈ reac) ∧ (∀ s ∈ pr.map (·.1), s ∈ prod) ∧ (∀ s ∈ r.map (·.1), s ∉ pr.map (·.1)) ∧
    ∃ kr kp : List ℤ, r.map (·.2) = toEntries kr ∧ pr.map (·.2) = toEntries kp ∧
      (∀ k ∈ kr ++ kp, 0 < k) ∧ listGcd (kr ++ kp) = 1 ∧
      ∃ subs rc pc, lookupAll subs (r.map (·.1)) = some rc ∧ lookupAll subs (pr.map (·.1)) = some pc ∧
        ∀ ck : ℤ, dot (rc.map (·.get ck)) (toQ kr) = dot (pc.map (·.get ck)) (toQ kp) := by
  obtain ⟨r', p', hc, h1, h2, h3, h4, h5⟩ := dupSearch_selection_nodup _ _ _ _ _ _ _ hr hp h
  obtain ⟨hk1, hk2, kr, kp, e1, e2, hpos, hco, subs, rc, pc, _, hrc, hpc, hbal⟩ :=
    balance_end_to_end raw.mode hm solver hsolver table arg false false r' p' r pr hc (by simpa using h4) (by simpa using h5)
  simp only [Bool.false_eq_true, if_false] at hk1 hk2 hrc hpc
  refine ⟨?_, ?_, ?_, kr, kp, e1, e2, hpos, hco, subs, rc, pc, ?_, ?_, hbal⟩
  · rw [hk1]; exact h1
  · rw [hk2]; exact h2
  · rw [hk1, hk2]; exact h3
  · rw [hk1]; exact hrc
  · rw [hk2]; exact hpc


/-- **gate_ok_iff_of_pos** (success characterisation of the gate): for a POSITIVE numeric solver answer `v`, in both numeric
modes, chempy returns an answer if and only if `v` has one entry per species of a well-formed matrix and balances it —
nothing else makes it refuse, nothing less makes it accept. -/
theorem gate_ok_iff_of_pos (mode : Mode) (hm : mode ≠ .symbolic) (A : Mat) (v : Vec) (hne : v ≠ [])
    (hpos : ∀ q ∈ v, 0 < q) :
    (∃ x, gate mode A (.numeric v) = .ok x) ↔ (wellFormed A = true ∧ cols A = v.length ∧ Balances A v) := by
  obtain ⟨d, hd, hst⟩ := stage_norm_pos v hne hpos
  have hdne : d ≠ 0 := ne_of_gt hd
  have hscale : ∀ r : List ℚ, dot r v = d * dot r (v.map (· / d)) := by
    intro r
    have : v.map (· / d) = v.map ((1 / d) * ·) := by
      apply List.map_congr_left; intro q _; field_simp
    rw [this, dot_map_mul_right]; field_simp
  have hwpos : ∀ q ∈ v.map (· / d), 0 < q := by
    intro q hq
    obtain ⟨a, ha, rfl⟩ := List.mem_map.1 hq
    exact div_pos (hpos a ha) hd
  constructor
  · rintro ⟨x, h⟩
    have hsol := gate_numeric_ok_sol mode A v x h
    rw [hst] at hsol
    injection hsol with hx
    unfold gate at h
    simp only [hst] at h
    obtain ⟨_, hwf, hcols, w, hw, _, hbal⟩ := gateChecks_numeric mode hm A _ x h
    have hww : v.map (· / d) = w := map_num_injective _ _ hw
    refine ⟨hwf, by rw [hcols]; simp, ?_⟩
    intro r hr
    rw [hscale r, hww, hbal r hr, mul_zero]
  · rintro ⟨hwf, hcols, hbal⟩
    refine ⟨(v.map (· / d)).map Entry.num, ?_⟩
    unfold gate
    simp only [hst]
    apply gateChecks_pass mode A _ hwpos hwf (by simpa using hcols)
    intro r hr
    have := hbal r hr
    rw [hscale r] at this
    rcases mul_eq_zero.1 this with h | h
    · exact absurd h hdne
    · exact h

/-! ### what chempy's own code contributes to the "minimal coefficient sum" clause (the ILP optimum itself is CBC's) -/

/-- **min_sum_is_coprime**: a positive integer balancing vector of minimal coefficient sum is jointly coprime
(otherwise dividing by the gcd gives a balancing vector with a smaller sum). -/
theorem min_sum_is_coprime (A : Mat) (x : List ℤ) (hne : x ≠ []) (hpos : ∀ k ∈ x, 0 < k) (hbal : Balances A (toQ x))
    (hmin : ∀ y : List ℤ, y.length = x.length → (∀ k ∈ y, 0 < k) → Balances A (toQ y) → x.sum ≤ y.sum) :
    listGcd x = 1 := by
  have hg := listGcd_pos x hne hpos
  have hgz : (0 : ℤ) < (listGcd x : ℤ) := by exact_mod_cast hg
  have hx : x = (x.map (· / (listGcd x : ℤ))).map ((listGcd x : ℤ) * ·) := by
    rw [List.map_map]
    conv_lhs => rw [← List.map_id x]
    apply List.map_congr_left
    intro k hk
    simp only [id, Function.comp_apply]
    exact (Int.mul_ediv_cancel' (listGcd_dvd x k hk)).symm
  have hypos : ∀ k ∈ x.map (· / (listGcd x : ℤ)), 0 < k := by
    intro k hk
    obtain ⟨a, ha, rfl⟩ := List.mem_map.1 hk
    have h1 := hpos a ha
    have h2 := Int.mul_ediv_cancel' (listGcd_dvd x a ha)
    by_contra hneg
    have : (listGcd x : ℤ) * (a / (listGcd x : ℤ)) ≤ 0 :=
      Int.mul_nonpos_of_nonneg_of_nonpos (le_of_lt hgz) (not_lt.1 hneg)
    omega
  have hybal : Balances A (toQ (x.map (· / (listGcd x : ℤ)))) := by
    intro r hr
    have h0 := hbal r hr
    rw [hx] at h0
    have : toQ ((x.map (· / (listGcd x : ℤ))).map ((listGcd x : ℤ) * ·))
        = (toQ (x.map (· / (listGcd x : ℤ)))).map (((listGcd x : ℤ) : ℚ) * ·) := by
      simp [toQ, List.map_map, Function.comp_def]
    rw [this, dot_map_mul_right] at h0
    have hgq : ((listGcd x : ℤ) : ℚ) ≠ 0 := by exact_mod_cast (ne_of_gt hgz)
    rcases mul_eq_zero.1 h0 with h | h
    · exact absurd h hgq
    · exact h
  have hle := hmin _ (by simp) hypos hybal
  have hsum : x.sum = (listGcd x : ℤ) * (x.map (· / (listGcd x : ℤ))).sum := by
    conv_lhs => rw [hx]
    exact sum_map_mul_left _ _
  have hS : 0 < (x.map (· / (listGcd x : ℤ))).sum :=
    sum_pos_of_pos _ (by cases x with | nil => exact absurd rfl hne | cons _ _ => simp) hypos
  have : (listGcd x : ℤ) ≤ 1 := by
    by_contra hgt
    have h2 : (2 : ℤ) ≤ (listGcd x : ℤ) := by omega
    nlinarith
  omega

/-- **gate_divides_by_gcd** ("never increases the sum"): for ANY positive integer vector `v` the solver (the ILP) hands
over, what the gate returns — in any mode — is exactly `v / gcd v`: `v = gcd(v) · ks` entrywise, hence `sum ks ≤ sum v`.
Chempy's own code can only shrink the coefficient sum of the solver's answer, never enlarge or reshape it. -/
theorem gate_divides_by_gcd (mode : Mode) (A : Mat) (v : List ℤ) (hne : v ≠ []) (hpos : ∀ k ∈ v, 0 < k)
    (x : List Entry) (h : gate mode A (.numeric (toQ v)) = .ok x) :
    ∃ ks : List ℤ, x = toEntries ks ∧ v = ks.map ((listGcd v : ℤ) * ·) ∧ listGcd ks = 1 ∧ ks.sum ≤ v.sum := by
  have hst := gate_numeric_ok_sol mode A (toQ v) x h
  have hvpos : ∀ q ∈ toQ v, 0 < q := by
    intro q hq
    obtain ⟨k, hk, rfl⟩ := List.mem_map.1 hq
    exact_mod_cast hpos k hk
  have hvne : toQ v ≠ [] := by
    cases v with
    | nil => exact absurd rfl hne
    | cons _ _ => simp [toQ]
  obtain ⟨d, hd, hst'⟩ := stage_norm_pos (toQ v) hvne hvpos
  rw [hst] at hst'
  injection hst' with hx
  rw [hx] at hst
  obtain ⟨ks, hks, hco⟩ := stage2_sound _ _ hst
  -- toQ v = d • toQ ks
  have hray : v.map (fun (k : ℤ) => (k : ℚ)) = ks.map (fun (k : ℤ) => d * (k : ℚ)) := by
    have h1 : (toQ v).map (· / d) = ks.map (fun (k : ℤ) => (k : ℚ)) := hks
    have h2 : ((toQ v).map (· / d)).map (d * ·) = toQ v := by
      rw [List.map_map]
      conv_rhs => rw [← List.map_id (toQ v)]
      apply List.map_congr_left
      intro q _
      simp only [Function.comp_apply, id]
      field_simp
    rw [h1, List.map_map] at h2
    rw [← toQ, ← h2]
    rfl
  have hint := ray_to_int d ks v hray
  have hg := congrArg listGcd hint
  rw [listGcd_map_mul, listGcd_map_mul, hco] at hg
  simp only [Int.natAbs_natCast, Nat.mul_one] at hg
  have hnum : 0 < d.num := Rat.num_pos.2 hd
  have hnumeq : d.num = (d.den : ℤ) * (listGcd v : ℤ) := by
    have : (d.num.natAbs : ℤ) = d.num := Int.natAbs_of_nonneg (le_of_lt hnum)
    rw [← this, ← hg]; push_cast; ring
  have hden : (0 : ℤ) < (d.den : ℤ) := by exact_mod_cast d.den_pos
  have hv : v = ks.map ((listGcd v : ℤ) * ·) := by
    have h3 : v.map ((d.den : ℤ) * ·) = (ks.map ((listGcd v : ℤ) * ·)).map ((d.den : ℤ) * ·) := by
      rw [hint, hnumeq, List.map_map]
      apply List.map_congr_left
      intro k _
      simp only [Function.comp_apply]
      ring
    exact (List.map_injective_iff.2 (fun a b hab => by
      have : (d.den : ℤ) * a = (d.den : ℤ) * b := hab
      exact Int.eq_of_mul_eq_mul_left (ne_of_gt hden) this)) h3
  have hkspos : ∀ k ∈ ks, 0 < k := by
    intro k hk
    have hq : (0 : ℚ) < (k : ℚ) := by
      have hm : (k : ℚ) ∈ (toQ v).map (· / d) := by rw [hks]; exact List.mem_map.2 ⟨k, hk, rfl⟩
      obtain ⟨q, hq, hqk⟩ := List.mem_map.1 hm
      rw [← hqk]
      exact div_pos (hvpos q hq) hd
    exact_mod_cast hq
  refine ⟨ks, ?_, hv, hco, ?_⟩
  · rw [hx, hks]; simp [toEntries, List.map_map, Function.comp_def]
  · have hgpos : (1 : ℤ) ≤ (listGcd v : ℤ) := by
      have := listGcd_pos v hne hpos
      exact_mod_cast this
    have hsum : v.sum = (listGcd v : ℤ) * ks.sum := by
      conv_lhs => rw [hv]
      exact sum_map_mul_left _ _
    have hS : 0 ≤ ks.sum := by
      cases ks with
      | nil => simp
      | cons a r => exact le_of_lt (sum_pos_of_pos _ (by simp) hkspos)
    nlinarith

/-- **smallest_mode_returns_minimal**: if the vector the ILP hands over is a positive integer balancing vector of
minimal coefficient sum (CBC's contract — certified per instance by `minimalBySearch`), then mode `None` returns exactly
that vector: the gate neither refuses nor changes it. -/
theorem smallest_mode_returns_minimal (A : Mat) (x : List ℤ) (hne : x ≠ []) (hpos : ∀ k ∈ x, 0 < k)
    (hwf : wellFormed A = true) (hcols : cols A = x.length) (hbal : Balances A (toQ x))
    (hmin : ∀ y : List ℤ, y.length = x.length → (∀ k ∈ y, 0 < k) → Balances A (toQ y) → x.sum ≤ y.sum) :
    gate .smallest A (.numeric (toQ x)) = .ok (toEntries x) := by
  have hco := min_sum_is_coprime A x hne hpos hbal hmin
  have := gate_complete_on_ray .smallest A x 1 one_pos hne hpos hco hwf hcols hbal
  have hid : (toQ x).map ((1 : ℚ) * ·) = toQ x := by
    conv_rhs => rw [← List.map_id (toQ x)]
    apply List.map_congr_left
    intro q _
    simp
  rwa [hid] at this

/-! ### the hypotheses are satisfiable: concrete non-trivial instances -/

/-- C2H2 + O2 -> CO + H2O, rows C, H, O; the solver hands back the non-normalised (2, 3, 4, 2)/2 -/
example : gate .strict [[-2, 0, 1, 0], [-2, 0, 0, 2], [0, -2, 1, 1]] (.numeric [1, 3/2, 2, 1])
    = .ok (toEntries [2, 3, 4, 2]) := by decide +kernel

/-- the old defect (C + CO -> CO2 returned −1 for C) is refused now -/
example : gate .strict [[-1, -1, 1], [0, -1, 2]] (.numeric [-1, 2, 1])
    = .error (.valueError "nonpositive") := by decide +kernel

/-- sympy's `gcd_list` early exit (gcd(2,3) = 1 stops before 1/2): the second normalisation repairs it -/
example : stage1 [2, 3, 1/2] = [.num 2, .num 3, .num (1/2)] ∧
    gate .symbolic [] (.numeric [2, 3, 1/2]) = .ok (toEntries [4, 6, 1]) := by
  constructor <;> decide +kernel

/-- Fe + O2 -> FeO + Fe2O3 (two rays): (3,2,1,1) is certified minimal, (4,3,2,1)... is not minimal -/
example : minimalBySearch [[-1, 0, 1, 2], [0, -2, 1, 3]] [3, 2, 1, 1] = true ∧
    minimalBySearch [[-1, 0, 1, 2], [0, -2, 1, 3]] [6, 4, 2, 2] = false := by
  constructor <;> decide +kernel

example : listGcd [2, 3, 4, 2] = 1 ∧ listGcd [6, 4, 2, 2] = 2 := by
  constructor <;> decide

/-- the escape of the pre-check: H2O -> H+ + OH-, charge row: absent from the reactants, both signs in the products -/
example : precheckKey [0] [1, -1] = .ok () := by decide +kernel

/-- C2H2 + O2 -> CO + H2O is a single ray: every balancing vector is a multiple of (2, 3, 4, 2) — the hypothesis
`hray` of `single_ray_answer` discharged on a concrete matrix (rows C, H, O). -/
theorem acetylene_single_ray (y : Vec) (hl : y.length = cols [[-2, 0, 1, 0], [-2, 0, 0, 2], [0, -2, 1, 1]])
    (hb : Balances [[-2, 0, 1, 0], [-2, 0, 0, 2], [0, -2, 1, 1]] y) :
    ∃ t : ℚ, y = (toQ [2, 3, 4, 2]).map (t * ·) := by
  match y, hl with
  | [a, b, c, d], _ =>
    have h1 := hb [-2, 0, 1, 0] (by simp)
    have h2 := hb [-2, 0, 0, 2] (by simp)
    have h3 := hb [0, -2, 1, 1] (by simp)
    simp only [dot] at h1 h2 h3
    refine ⟨a / 2, ?_⟩
    simp only [toQ, List.map_cons, List.map_nil, Int.cast_ofNat, List.cons.injEq, and_true]
    refine ⟨by ring, by linarith, by linarith, by linarith⟩

/-- `single_ray_answer` and `gate_complete_on_ray` instantiated: whatever multiple of the ray the solver returns, in
every mode the answer exists and is (2, 3, 4, 2) -/
example (mode : Mode) (t : ℚ) (ht : 0 < t) :
    gate mode [[-2, 0, 1, 0], [-2, 0, 0, 2], [0, -2, 1, 1]] (.numeric ((toQ [2, 3, 4, 2]).map (t * ·)))
      = .ok (toEntries [2, 3, 4, 2]) :=
  gate_complete_on_ray mode _ [2, 3, 4, 2] t ht (by simp) (by decide) (by decide) (by decide) (by decide)
    (by intro r hr; simp only [List.mem_cons, List.not_mem_nil, or_false] at hr
        rcases hr with rfl | rfl | rfl <;> simp [toQ, dot] <;> norm_num)

example (mode : Mode) (v : Vec) (x : List Entry)
    (hsym : mode = .symbolic → v.length = 4 ∧ Balances [[-2, 0, 1, 0], [-2, 0, 0, 2], [0, -2, 1, 1]] v)
    (h : gate mode [[-2, 0, 1, 0], [-2, 0, 0, 2], [0, -2, 1, 1]] (.numeric v) = .ok x) :
    x = toEntries [2, 3, 4, 2] :=
  single_ray_answer mode _ v x [2, 3, 4, 2] (by decide) (by decide) acetylene_single_ray hsym h

/-- the headline theorems are not vacuous: the whole modelled call returns for C2H2 + O2 -> CO + H2O (dict of compositions,
solver answer (1, 3/2, 2, 1)), and refuses with the positivity ValueError for the wrong-side C + CO -> CO2 -/
example : balanceVia .strict (fun _ => .numeric [1, 3/2, 2, 1])
    [("C2H2", [(6, 2), (1, 2)]), ("O2", [(8, 2)]), ("CO", [(6, 1), (8, 1)]), ("H2O", [(1, 2), (8, 1)])]
    .mapping false false ["C2H2", "O2"] ["CO", "H2O"]
    = .ok ([("C2H2", .num 2), ("O2", .num 3)], [("CO", .num 4), ("H2O", .num 2)]) := by decide +kernel

example : balanceVia .smallest (fun _ => .numeric [-1, 2, 1])
    [("C", [(6, 1)]), ("CO", [(6, 1), (8, 1)]), ("CO2", [(6, 1), (8, 2)])]
    .factory false false ["C", "CO"] ["CO2"] = .error (.valueError "nonpositive") := by decide +kernel

/-- `underdetermined=1` with duplicates is a NotImplementedError (the test is on the raw argument), `None` searches -/
example : balanceCall .one true (fun _ => .numeric [2, 1]) [("C", [(6, 1)]), ("CO", [(6, 1), (8, 1)]), ("CO2", [(6, 1), (8, 2)])]
    .mapping ["C", "CO"] ["C", "CO", "CO2"] = .error .notImplemented := by decide +kernel

/-- `gate_divides_by_gcd` on a concrete ILP-style answer: (4, 2, 4) for H2 + O2 -> H2O comes back as (2, 1, 2) -/
example : gate .smallest [[-2, 0, 2], [0, -2, 1]] (.numeric (toQ [4, 2, 4])) = .ok (toEntries [2, 1, 2]) ∧
    listGcd [4, 2, 4] = 2 := by
  constructor
  · decide +kernel
  · decide

/-- the minimality hypothesis of `smallest_mode_returns_minimal` / `min_sum_is_coprime` discharged for H2 + O2 -> H2O:
every positive integer balancing vector is (2b, b, 2b), so (2, 1, 2) has minimal sum; hence mode None returns it -/
example : gate .smallest [[-2, 0, 2], [0, -2, 1]] (.numeric (toQ [2, 1, 2])) = .ok (toEntries [2, 1, 2]) := by
  apply smallest_mode_returns_minimal _ [2, 1, 2] (by simp) (by decide) (by decide) (by decide)
  · intro r hr
    simp only [List.mem_cons, List.not_mem_nil, or_false] at hr
    rcases hr with rfl | rfl <;> simp [toQ, dot]
  · intro y hl hpos hb
    match y, hl with
    | [a, b, c], _ =>
      have h1 := hb [-2, 0, 2] (by simp)
      have h2 := hb [0, -2, 1] (by simp)
      simp only [dot, toQ, List.map_cons, List.map_nil] at h1 h2
      have hb1 : 0 < b := hpos b (by simp)
      have e1 : (c : ℚ) = a := by linarith
      have e2 : (c : ℚ) = 2 * b := by linarith
      have e1' : c = a := by exact_mod_cast e1
      have e2' : c = 2 * b := by exact_mod_cast e2
      simp only [List.sum_cons, List.sum_nil]
      omega

/-- compositions of C2H2, O2, CO, H2O (keys: atomic numbers) -/
def acetyleneTable : List (String × Comp) :=
  [("C2H2", [(6, 2), (1, 2)]), ("O2", [(8, 2)]), ("CO", [(6, 1), (8, 1)]), ("H2O", [(1, 2), (8, 1)])]

/-- `balance_complete_on_ray` instantiated: for C2H2 + O2 -> CO + H2O the modelled call returns (2, 3, 4, 2) under the species
given, in every mode, whatever positive multiple of the ray the solver hands back -/
example (mode : Mode) (t : ℚ) (ht : 0 < t) :
    ∃ r pr, balanceVia mode (fun _ => .numeric ((toQ [2, 3, 4, 2]).map (t * ·))) acetyleneTable .mapping false false
        ["C2H2", "O2"] ["CO", "H2O"] = .ok (r, pr) ∧
      r.map (·.1) = ["C2H2", "O2"] ∧ pr.map (·.1) = ["CO", "H2O"] ∧ r.map (·.2) ++ pr.map (·.2) = toEntries [2, 3, 4, 2] :=
  balance_complete_on_ray mode _ acetyleneTable .mapping false false _ _
    { reactants := ["C2H2", "O2"], products := ["CO", "H2O"], substances := acetyleneTable }
    [[-2, 0, 0, 2], [-2, 0, 1, 0], [0, -2, 1, 1]] (by decide +kernel) (by simp) [2, 3, 4, 2] t ht (by simp) (by decide) (by decide)
    (by decide)
    (by intro r hr; simp only [List.mem_cons, List.not_mem_nil, or_false] at hr
        rcases hr with rfl | rfl | rfl <;> simp [toQ, dot] <;> norm_num)
    rfl (by decide) (by decide)

example : compositionKeys acetyleneTable = [1, 6, 8] := by decide

/-- sides passed as sets: sorted, no distinctness hypothesis needed -/
example : balanceVia .smallest (fun _ => .numeric [2, 3, 4, 2]) acetyleneTable .mapping true true
    ["O2", "C2H2", "O2"] ["H2O", "CO"]
    = .ok ([("C2H2", .num 2), ("O2", .num 3)], [("CO", .num 4), ("H2O", .num 2)]) := by decide +kernel

/-- the documented duplicates example C + CO -> C + CO + CO2: the whole modelled function returns 2 CO -> C + CO2 -/
example : balanceCall .none true (fun _ => .numeric [2, 1, 1])
    [("C", [(6, 1)]), ("CO", [(6, 1), (8, 1)]), ("CO2", [(6, 1), (8, 2)])] .mapping ["C", "CO"] ["C", "CO", "CO2"]
    = .ok ([("CO", .num 2)], [("C", .num 1), ("CO2", .num 1)]) := by decide +kernel


/-- both directions are exercised: (1, 1/2, 1) balances H2 + O2 -> H2O and is accepted, (1, 1, 1) does not and is refused -/
example : (∃ x, gate .strict [[-2, 0, 2], [0, -2, 1]] (.numeric [1, 1/2, 1]) = .ok x) ∧
    ¬ ∃ x, gate .strict [[-2, 0, 2], [0, -2, 1]] (.numeric [1, 1, 1]) = .ok x := by
  constructor
  · exact ⟨toEntries [2, 1, 2], by decide +kernel⟩
  · rw [gate_ok_iff_of_pos .strict (by decide) _ _ (by simp) (by intro q hq; simp at hq; (rcases hq with rfl; norm_num))]
    rintro ⟨_, _, hb⟩
    have := hb [0, -2, 1] (by simp)
    simp [dot] at this
    norm_num at this


end ChemModel.C02
