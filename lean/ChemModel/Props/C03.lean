/-
C03 — mass-action rate of each substance is net stoichiometry times k·∏ c^ν.

Property theorems only; helper lemmas live in Proofs/Kinetics.lean, the executable model (mirroring
`Reaction.rate`, `MassAction.__call__`, `ReactionSystem.rates`, `law_of_mass_action_rates`, `dCdt_list`) in
Model/Kinetics.lean.  Everything is stated for an arbitrary key type `σ` and an arbitrary commutative ring `R`
(ℤ, ℚ, ℝ, polynomial rings — i.e. numeric *and* symbolic variables), every reaction list, every concentration
function `c : σ → R`.

Reading of the result: `ReactionSystem.rates` returns a dict; `dget? d s` is its entry (or `none`), `valueAt d s` the
entry with "absent key = zero contribution", `dkeys d` its keys in insertion order.
-/
import ChemModel.Proofs.Kinetics

set_option linter.unusedSectionVars false

namespace ChemModel.C03
open ChemModel.Kinetics

variable {σ : Type} [DecidableEq σ] {R : Type} [CommRing R]

/-- **The contribution of one reaction** (`Reaction.rate`).  For every requested substance `s` the reported entry is
    `(prod s − reac s + inactProd s − inactReac s) · (k · ∏_{(j,ν) ∈ reac} c j ^ ν)`, and nothing is reported for
    substances that were not requested. -/
theorem rxnRate_spec (c : σ → R) (r : Reaction σ R) (keys : List σ) (s : σ) :
    dget? (rxnRate c r keys) s =
      if s ∈ keys then
        some ((((coef r.prod s : ℤ) - (coef r.reac s : ℤ) + (coef r.inactProd s : ℤ) - (coef r.inactReac s : ℤ) : ℤ) : R)
              * (r.param * (r.reac.map fun jν => c jν.1 ^ jν.2).prod))
      else none :=
  dget?_rxnRate c r keys s

/-- **`Reaction.rate(..., ratex=x)` with a number `x`**: the given number replaces the evaluated rate expression; every
    requested substance gets `x · (prod s − reac s + inactProd s − inactReac s)`. -/
theorem rate_with_given_ratex (x : R) (r : Reaction σ R) (keys : List σ) (s : σ) :
    dget? (rxnRateOf x r keys) s = if s ∈ keys then some (x * ((netStoich r s : ℤ) : R)) else none := by
  unfold rxnRateOf
  rw [dget?_dictOf_map]

/-- **Named rate constants feed the rate** (`param` a string, `'k'` in a reaction line, or a plain number / `MassAction([k])`).
    `Reaction.rate` on a `variables` dict raises `KeyError` iff the NAME of the constant is missing from `variables` or the
    concentration of an active reactant is; otherwise it returns the ordinary rate dict with `k = variables[name]`
    (resp. the stored number): every entry is `k·∏c^ν·net`. -/
theorem named_parameter_feeds_rate (vars : List (σ × R)) (p : Param σ R) (r : Reaction σ R) (keys : List σ) :
    (rateDictP vars p r keys = none ↔
        (∃ name, p = .key name ∧ name ∉ dkeys vars) ∨ ∃ k ∈ dkeys r.reac, k ∉ dkeys vars) ∧
      (∀ d, rateDictP vars p r keys = some d →
        ∃ k, (p = .const k ∨ ∃ name, p = .key name ∧ dget? vars name = some k) ∧
          d = rxnRateOf (k * activeConcProd (fun s => dgetD vars s 0) r) r keys) :=
  rateDictP_spec vars p r keys

/-- The returned dict never repeats a key, holds exactly the requested keys, and — when the requested keys are
    distinct — lists them in the requested order. -/
theorem rxnRate_keys (c : σ → R) (r : Reaction σ R) (keys : List σ) :
    (dkeys (rxnRate c r keys)).Nodup ∧ (∀ s, s ∈ dkeys (rxnRate c r keys) ↔ s ∈ keys) ∧
      (keys.Nodup → dkeys (rxnRate c r keys) = keys) := by
  refine ⟨nodup_dkeys_rxnRate c r keys, fun s => mem_dkeys_rxnRate, fun h => ?_⟩
  unfold rxnRate
  rw [dictOf_map_of_nodup keys _ h]
  simp [dkeys, Function.comp_def]

/-- **Inactive reactants never enter the concentration product, on the system path.**  Replace, in one reaction `r` of a
    system, the inactive dictionaries by ARBITRARY other ones (`r'`).  Then for every requested substance `s` the system
    rate changes by exactly `Δnet · k·∏_{(j,ν) ∈ reac} c j^ν`, where `Δnet` is the change of the net coefficient of `s` and the
    product is still taken over the active reactants of `r` only: inactive coefficients can act through the net
    stoichiometry and through nothing else (no exponent, no factor), whatever the other reactions and the CSTR terms are.
    (The `rfl`-level fact "the product reads `reac` only" is `Kinetics.activeConcProd_ignores_other_parts`.) -/
theorem inactive_parts_effect (c : σ → R) (rs₁ rs₂ : List (Reaction σ R)) (r : Reaction σ R)
    (inactReac' inactProd' : List (σ × ℕ)) (keys? : Option (List σ)) (cstr? : Option (Cstr σ)) (s : σ)
    (hs : ∀ ks, keys? = some ks → s ∈ ks) :
    let r' : Reaction σ R := { r with inactReac := inactReac', inactProd := inactProd' }
    valueAt (sysRates c (rs₁ ++ r' :: rs₂) keys? cstr?) s =
      valueAt (sysRates c (rs₁ ++ r :: rs₂) keys? cstr?) s +
        ((netStoich r' s - netStoich r s : ℤ) : R) * (r.param * (r.reac.map fun jν => c jν.1 ^ jν.2).prod) := by
  intro r'
  rw [valueAt_sysRates_sum c _ keys? cstr? s hs, valueAt_sysRates_sum c _ keys? cstr? s hs]
  simp only [List.map_append, List.map_cons, List.sum_append, List.sum_cons]
  have h : contribution c r' s = contribution c r s +
      ((netStoich r' s - netStoich r s : ℤ) : R) * (r.param * (r.reac.map fun jν => c jν.1 ^ jν.2).prod) := by
    simp only [contribution, netStoich, concProd, r']
    push_cast
    ring
  rw [h]
  ring

/-- Inactive coefficients act on the rate of a substance only through its net stoichiometry: two reactions with the
    same active reactants, the same constant and the same net coefficient of `s` report the same value for `s`. -/
theorem inactive_only_through_net (c : σ → R) (r r' : Reaction σ R) (keys : List σ) (s : σ)
    (hreac : r'.reac = r.reac) (hk : r'.param = r.param) (hnet : netStoich r' s = netStoich r s) :
    dget? (rxnRate c r' keys) s = dget? (rxnRate c r keys) s := by
  rw [dget?_rxnRate, dget?_rxnRate]
  unfold contribution
  unfold netStoich at hnet
  rw [hnet, hreac, hk]

/-- **Substances on neither side get zero**: if `s` occurs in none of the four dictionaries, its entry is `0` when it
    is requested, and it contributes `0` in any case. -/
theorem absent_is_zero (c : σ → R) (r : Reaction σ R) (keys : List σ) (s : σ)
    (h : s ∉ dkeys r.reac ∧ s ∉ dkeys r.prod ∧ s ∉ dkeys r.inactReac ∧ s ∉ dkeys r.inactProd) :
    (s ∈ keys → dget? (rxnRate c r keys) s = some 0) ∧ valueAt (rxnRate c r keys) s = 0 := by
  have hz : contribution c r s = 0 :=
    contribution_eq_zero_of_not_mem c (fun hm => by
      rcases mem_rxnKeys.mp hm with h1 | h1 | h1 | h1
      · exact h.1 h1
      · exact h.2.1 h1
      · exact h.2.2.1 h1
      · exact h.2.2.2 h1)
  constructor
  · intro hs
    rw [dget?_rxnRate, if_pos hs, hz]
  · rw [valueAt_rxnRate, hz]; simp

/-- the closed form of one reaction's contribution, as used below -/
abbrev contrib (c : σ → R) (r : Reaction σ R) (s : σ) : R :=
  (((coef r.prod s : ℤ) - (coef r.reac s : ℤ) + (coef r.inactProd s : ℤ) - (coef r.inactReac s : ℤ) : ℤ) : R)
    * (r.param * (r.reac.map fun jν => c jν.1 ^ jν.2).prod)

/-- **System rates are the sum of the contributions** (`ReactionSystem.rates`), plus `F·(c_feed s − c s)` for every fed
    substance under stirred-tank conditions.  `s` is any substance when `substance_keys=None`, any requested one
    otherwise.  (`fc` is a Python dict, hence `Nodup`.) -/
theorem sysRates_spec (c : σ → R) (rs : List (Reaction σ R)) (keys? : Option (List σ)) (cstr? : Option (Cstr σ))
    (hfc : ∀ cs, cstr? = some cs → (dkeys cs.fc).Nodup) (s : σ) (hs : ∀ ks, keys? = some ks → s ∈ ks) :
    valueAt (sysRates c rs keys? cstr?) s =
      (rs.map fun r => contrib c r s).sum +
        (match cstr? with
         | none => 0
         | some cs =>
           match dget? cs.fc s with
           | some feedKey => c cs.frKey * (c feedKey - c s)
           | none => 0) := by
  change valueAt _ s = (rs.map fun r => contribution c r s).sum + _
  have hbase : valueAt (sysRatesNoFeed c rs keys?) s = (rs.map fun r => contribution c r s).sum := by
    rw [valueAt_sysRatesNoFeed]
    congr 1
    apply List.map_congr_left
    intro r _
    cases keys? with
    | none => exact valueAt_rxnRate_rxnKeys c r s
    | some ks => simp [keysFor, valueAt_rxnRate, hs ks rfl]
  cases cstr? with
  | none => simp [sysRates, hbase]
  | some cs =>
    simp only [sysRates]
    rw [valueAt_addFeed c _ cs (hfc cs rfl), hbase]
    rfl

/-- **The two branches of `law_of_mass_action_rates` agree.**  For a well-formed system (distinct substance keys, `len(conc) = ns`,
    active reactants among the substances) it does not matter whether a reaction's `param` is a plain number or a `MassAction`
    instance: the lookup BY KEY in `dict(zip(keys, conc))` and the lookup BY INDEX give the same rates, `k·∏c^ν = (∏c^ν)·k`, for
    every mixture of the two kinds; hence `array_path_eq_dict_path` holds for `MassAction` parameters too. -/
theorem law_branches_agree (keys : List σ) (conc : List R) (rs : List (Reaction σ R)) (kinds : List ParamKind)
    (hnd : keys.Nodup) (hlen : conc.length = keys.length) (hk : kinds.length = rs.length)
    (hkind : ∀ kd ∈ kinds, kd = .plain ∨ kd = .massAction) (hin : ∀ r ∈ rs, ∀ k ∈ dkeys r.reac, k ∈ keys) :
    lawOfMassActionRatesK conc keys (rs.zip kinds) = lawOfMassActionRates conc keys rs ∧
      lawOfMassActionRatesK conc keys (rs.zip kinds) =
        .ok (rs.map fun r => (r.reac.map fun jν => concOf keys conc jν.1 ^ jν.2).prod * r.param) := by
  have h := lawOfMassActionRatesK_massAction keys conc hnd hlen rs kinds hk hkind hin
  exact ⟨h, h.trans (lawOfMassActionRates_eq hlen rs hin)⟩

/-- **When does the array path succeed, and what does a refusal mean?**  (`list(law_of_mass_action_rates(conc, rsys))` with plain
    parameters, then `dCdt_list`.)
    (1) The rates are produced iff EVERY active reactant of every reaction is a substance of the system whose index lies inside
        `conc`, and then they are `(∏ c^ν)·k` for the concentration function the array denotes — no other hypothesis (no
        `len(conc) = ns`, no distinctness).
    (2) A refusal is a `ValueError` only if some reactant is no substance, an `IndexError` only if some reactant's index lies beyond
        `conc`; nothing else is raised.
    (3) `dCdt_list` succeeds iff there is no substance or `rates` is at least as long as the reaction list; its only failure is the
        `IndexError` of `rates[idx_r]`.
    This turns the sufficient condition of `array_path_eq_dict_path` into a characterisation. -/
theorem array_path_success_and_refusal (conc : List R) (keys : List σ) (rs : List (Reaction σ R)) (rates : List R) :
    (∀ xs, lawOfMassActionRates conc keys rs = .ok xs ↔
        (∀ r ∈ rs, ∀ k ∈ dkeys r.reac, ∃ i, indexOf? keys k = some i ∧ i < conc.length) ∧
          xs = rs.map fun r => (r.reac.map fun jν => concOf keys conc jν.1 ^ jν.2).prod * r.param) ∧
      (∀ e, lawOfMassActionRates conc keys rs = .error e →
        (e = .valueError ∧ ∃ r ∈ rs, ∃ k ∈ dkeys r.reac, k ∉ keys) ∨
          (e = .indexError ∧ ∃ r ∈ rs, ∃ k ∈ dkeys r.reac, ∃ i, indexOf? keys k = some i ∧ conc.length ≤ i)) ∧
      ((∃ f, dCdtList keys rs rates = .ok f) ↔ keys = [] ∨ rs.length ≤ rates.length) ∧
      (∀ e, dCdtList keys rs rates = .error e → e = .indexError) :=
  ⟨fun xs => lawOfMassActionRates_ok_iff conc keys rs xs, fun _ h => lawOfMassActionRates_error conc keys rs h,
    (dCdtList_ok_iff keys rs rates).1, (dCdtList_ok_iff keys rs rates).2⟩

/-- **Stirred-tank conditions requested through `get_odesys(rsys, cstr=True)`**: the default feed description feeds
    EVERY substance of the system (whatever kind of object it is — `Species` of any phase included): each substance's rate
    is the sum of the reaction contributions plus `F·(c_feed s − c s)` with `F = c "feedratio"`, `c_feed s = c ("fc_" ++ s)`. -/
theorem default_cstr_feeds_every_substance (c : σ → R) (rs : List (Reaction σ R)) (frKey : σ) (feedName : σ → σ)
    (keys : List σ) (hk : keys.Nodup) (s : σ) (hs : s ∈ keys) :
    valueAt (sysRates c rs (some keys) (some (defaultCstr frKey feedName keys))) s =
      (rs.map fun r => contrib c r s).sum + c frKey * (c (feedName s) - c s) := by
  have hfc : (defaultCstr frKey feedName keys).fc = dictOf (keys.map fun k => (k, feedName k)) :=
    (dictOf_map_of_nodup keys feedName hk).symm
  have hnd : (dkeys (defaultCstr frKey feedName keys).fc).Nodup := by rw [hfc]; exact nodup_dkeys_dictOf _
  have hget : dget? (defaultCstr frKey feedName keys).fc s = some (feedName s) := by
    rw [hfc, dget?_dictOf_map, if_pos hs]
  have h := sysRates_spec c rs (some keys) (some (defaultCstr frKey feedName keys))
    (fun cs hcs => by cases hcs; exact hnd) s (fun ks hks => by cases hks; exact hs)
  rw [h]
  simp only [hget]
  rfl

/-- A substance that was not requested (`substance_keys` given, `s ∉ substance_keys`) gets nothing from the reactions:
    only a feed term if it is fed. -/
theorem sysRates_outside_keys (c : σ → R) (rs : List (Reaction σ R)) (ks : List σ) (s : σ) (hs : s ∉ ks) :
    valueAt (sysRates c rs (some ks) none) s = 0 ∧ s ∉ dkeys (sysRates c rs (some ks) none) := by
  constructor
  · simp only [sysRates]
    rw [valueAt_sysRatesNoFeed]
    apply List.sum_eq_zero
    intro x hx
    obtain ⟨r, _, rfl⟩ := List.mem_map.mp hx
    simp [keysFor, valueAt_rxnRate, hs]
  · simp only [sysRates]
    rw [mem_dkeys_sysRatesNoFeed]
    rintro ⟨r, _, hr⟩
    exact hs hr

/-- **The key set of the returned dict**: a substance has an entry iff some reaction was asked about it
    (`substance_keys`, or the reaction's own keys when `None`) or it is fed.  In particular, without CSTR and with
    `substance_keys=None`, substances taking part in no reaction have no entry. -/
theorem sysRates_keys (c : σ → R) (rs : List (Reaction σ R)) (keys? : Option (List σ)) (cstr? : Option (Cstr σ)) (s : σ) :
    s ∈ dkeys (sysRates c rs keys? cstr?) ↔
      (∃ r ∈ rs, s ∈ keysFor keys? r) ∨ (∃ cs, cstr? = some cs ∧ s ∈ dkeys cs.fc) := by
  cases cstr? with
  | none => simp [sysRates, mem_dkeys_sysRatesNoFeed]
  | some cs => simp [sysRates, mem_dkeys_addFeed, mem_dkeys_sysRatesNoFeed]

/-- **Independence of the order of the reaction list**: permuting the reactions changes neither the value reported
    for any substance nor the set of reported substances (exact arithmetic; float rounding is not modelled). -/
theorem sysRates_perm (c : σ → R) {rs rs' : List (Reaction σ R)} (hp : rs.Perm rs') (keys? : Option (List σ))
    (cstr? : Option (Cstr σ)) (s : σ) :
    valueAt (sysRates c rs keys? cstr?) s = valueAt (sysRates c rs' keys? cstr?) s ∧
      (s ∈ dkeys (sysRates c rs keys? cstr?) ↔ s ∈ dkeys (sysRates c rs' keys? cstr?)) := by
  have hbase : valueAt (sysRatesNoFeed c rs keys?) s = valueAt (sysRatesNoFeed c rs' keys?) s := by
    rw [valueAt_sysRatesNoFeed, valueAt_sysRatesNoFeed]
    exact (hp.map _).sum_eq
  constructor
  · cases cstr? with
    | none => simpa [sysRates] using hbase
    | some cs => simp only [sysRates, valueAt_addFeed_sum, hbase]
  · rw [sysRates_keys, sysRates_keys]
    constructor
    · rintro (⟨r, hr, h⟩ | h)
      · exact Or.inl ⟨r, hp.mem_iff.mp hr, h⟩
      · exact Or.inr h
    · rintro (⟨r, hr, h⟩ | h)
      · exact Or.inl ⟨r, hp.mem_iff.mpr hr, h⟩
      · exact Or.inr h

/-- **Array path = dict path** (`dCdt_list(rsys, law_of_mass_action_rates(conc, rsys))` versus `rsys.rates`).
    For a concentration array as long as the substance list and reactions whose active reactants are substances of
    the system, the array path succeeds, the reaction rates are `(∏ c^ν)·k`, the result is `Nᵀ·r` (net stoichiometry
    matrix transposed times the rate vector), and entry by entry it is the value the dict path reports on the system's
    substance order. -/
theorem array_path_eq_dict_path (keys : List σ) (conc : List R) (rs : List (Reaction σ R))
    (hlen : conc.length = keys.length) (hk : ∀ r ∈ rs, ∀ k ∈ dkeys r.reac, k ∈ keys) :
    let c := concOf keys conc
    let rates := rs.map fun r => (r.reac.map fun jν => c jν.1 ^ jν.2).prod * r.param
    lawOfMassActionRates conc keys rs = .ok rates ∧
      dCdtList keys rs rates = .ok (keys.map fun s => (List.zipWith (fun row rate => row * rate)
          (rs.map fun r => ((netStoich r s : ℤ) : R)) rates).sum) ∧
      dCdtList keys rs rates = .ok (keys.map fun s => valueAt (sysRates c rs (some keys) none) s) := by
  intro c rates
  have h1 : lawOfMassActionRates conc keys rs = .ok rates := lawOfMassActionRates_eq hlen rs hk
  have h2 := dCdtList_eq keys rs (arrayRate c)
  refine ⟨h1, ?_, ?_⟩
  · show dCdtList keys rs (rs.map (arrayRate c)) = _
    rw [h2]
    congr 1
    apply List.map_congr_left
    intro s _
    congr 1
    simp [List.zipWith_map, List.zipWith_self, rates, arrayRate, concProd]
  · show dCdtList keys rs (rs.map (arrayRate c)) = _
    rw [h2]
    congr 1
    apply List.map_congr_left
    intro s hs
    simp only [sysRates]
    rw [valueAt_sysRatesNoFeed]
    congr 1
    apply List.map_congr_left
    intro r _
    simp [keysFor, valueAt_rxnRate, hs, netStoich_mul_arrayRate]

/-- **Reactions written as text: repeated terms add up.**  For a reaction string whose sides are lists of written terms
    (`X` = coefficient 1, `n X`, parenthesised terms = inactive; the same species may be written several times, bare or with
    coefficients, active and inactive), the reaction built by `Reaction.from_string` has, for every substance `s`,
    net stoichiometry `Σ_{terms of prod naming s} n − Σ_{reac} n + Σ_{inactive prod} n − Σ_{inactive reac} n`, the active order
    of `s` is the sum over the written active reactant terms, and nothing changes when the terms of a side are written in
    another order.  Together with `rxnRate_spec` / `sysRates_spec`: rates = net·k·∏c^ν over the MULTISET of written terms. -/
theorem written_terms_spec (reac prod inactReac inactProd : List (ℕ × σ)) (k : R) (s : σ) :
    let cnt : List (ℕ × σ) → ℕ := fun ts => (ts.map fun t => if t.2 = s then t.1 else 0).sum
    netStoich (reactionOfTerms reac prod inactReac inactProd k) s =
        (cnt prod : ℤ) - (cnt reac : ℤ) + (cnt inactProd : ℤ) - (cnt inactReac : ℤ) ∧
      coef (reactionOfTerms reac prod inactReac inactProd k).reac s = cnt reac ∧
      (∀ reac' prod' inactReac' inactProd', reac.Perm reac' → prod.Perm prod' → inactReac.Perm inactReac' →
        inactProd.Perm inactProd' →
        netStoich (reactionOfTerms reac' prod' inactReac' inactProd' k) s =
            netStoich (reactionOfTerms reac prod inactReac inactProd k) s ∧
          coef (reactionOfTerms reac' prod' inactReac' inactProd' k).reac s =
            coef (reactionOfTerms reac prod inactReac inactProd k).reac s) := by
  intro cnt
  have hc : ∀ ts : List (ℕ × σ), coef (mergeTerms ts) s = cnt ts := fun ts => coef_mergeTerms ts s
  have hp : ∀ ts ts' : List (ℕ × σ), ts.Perm ts' → cnt ts' = cnt ts := fun ts ts' h => ((h.map _).sum_eq).symm
  refine ⟨?_, hc reac, ?_⟩
  · simp only [netStoich, reactionOfTerms, hc]
  · intro reac' prod' inactReac' inactProd' h1 h2 h3 h4
    simp only [netStoich, reactionOfTerms, hc, hp _ _ h1, hp _ _ h2, hp _ _ h3, hp _ _ h4]
    exact ⟨trivial, trivial⟩

/-- **Stoichiometry matrices** (`net_stoichs`, `all_reac_stoichs`, `active_reac_stoichs`, `all_prod_stoichs`,
    `active_prod_stoichs`): one row per reaction, one column per key; entry `(i, j)` is the corresponding coefficient of
    substance `keys[j]` in reaction `rs[i]` (and there is an entry exactly when both indices are in range). -/
theorem stoich_matrices_entries (rs : List (Reaction σ R)) (keys : List σ) (i j : ℕ) :
    ((netStoichs rs keys)[i]?.bind (·[j]?) = rs[i]?.bind fun r => keys[j]?.map fun s =>
        (coef r.prod s : ℤ) - (coef r.reac s : ℤ) + (coef r.inactProd s : ℤ) - (coef r.inactReac s : ℤ)) ∧
    ((allReacStoichs rs keys)[i]?.bind (·[j]?) = rs[i]?.bind fun r => keys[j]?.map fun s =>
        ((coef r.reac s + coef r.inactReac s : ℕ) : ℤ)) ∧
    ((activeReacStoichs rs keys)[i]?.bind (·[j]?) = rs[i]?.bind fun r => keys[j]?.map fun s => ((coef r.reac s : ℕ) : ℤ)) ∧
    ((allProdStoichs rs keys)[i]?.bind (·[j]?) = rs[i]?.bind fun r => keys[j]?.map fun s =>
        ((coef r.prod s + coef r.inactProd s : ℕ) : ℤ)) ∧
    ((activeProdStoichs rs keys)[i]?.bind (·[j]?) = rs[i]?.bind fun r => keys[j]?.map fun s => ((coef r.prod s : ℕ) : ℤ)) :=
  ⟨entry_map_map (fun r s => netStoich r s) rs keys i j, entry_map_map _ rs keys i j, entry_map_map _ rs keys i j,
   entry_map_map _ rs keys i j, entry_map_map _ rs keys i j⟩

/-- **net = all products − all reactants**, as matrices, and the shape is `(nr, ns)` (also for `nr = 0`: no rows). -/
theorem net_eq_allProd_sub_allReac (rs : List (Reaction σ R)) (keys : List σ) :
    netStoichs rs keys = List.zipWith (List.zipWith (· - ·)) (allProdStoichs rs keys) (allReacStoichs rs keys) ∧
      (netStoichs rs keys).length = rs.length ∧ ∀ row ∈ netStoichs rs keys, row.length = keys.length := by
  refine ⟨?_, by simp [netStoichs], ?_⟩
  · simp only [netStoichs, allProdStoichs, allReacStoichs, List.zipWith_map, List.zipWith_self]
    apply List.map_congr_left
    intro r _
    simp only [netStoichTuple, allProdStoich, allReacStoich, List.zipWith_map, List.zipWith_self]
    apply List.map_congr_left
    intro s _
    simp only [netStoich]
    push_cast
    ring
  · intro row hrow
    simp only [netStoichs, List.mem_map] at hrow
    obtain ⟨r, _, rfl⟩ := hrow
    simp [netStoichTuple]

/-- **`get_coeff_mtx`** (rows = substances, columns = reactions given as (reac, prod) integer dictionaries): entry `(j, i)`
    is `prod.get(s, 0) − reac.get(s, 0)`; for the active dictionaries of a reaction list it is the transpose of
    `active_prod_stoichs − active_reac_stoichs`. -/
theorem getCoeffMtx_entries (substances : List σ) (stoichs : List (List (σ × ℤ) × List (σ × ℤ))) (rs : List (Reaction σ R))
    (j i : ℕ) :
    ((getCoeffMtx substances stoichs)[j]?.bind (·[i]?) =
        substances[j]?.bind fun s => stoichs[i]?.map fun rp => dgetD rp.2 s 0 - dgetD rp.1 s 0) ∧
    ((getCoeffMtx substances (rs.map fun r => (r.reac.map fun kv => (kv.1, (kv.2 : ℤ)), r.prod.map fun kv => (kv.1, (kv.2 : ℤ)))))[j]?.bind (·[i]?) =
        substances[j]?.bind fun s => rs[i]?.map fun r => ((coef r.prod s : ℕ) : ℤ) - ((coef r.reac s : ℕ) : ℤ)) := by
  constructor
  · simp only [getCoeffMtx, List.getElem?_map]
    cases substances[j]? with
    | none => rfl
    | some s => simp [List.getElem?_map]
  · simp only [getCoeffMtx, List.getElem?_map]
    cases substances[j]? with
    | none => rfl
    | some s =>
      simp only [Option.map_some, Option.bind_some, List.getElem?_map]
      cases rs[i]? with
      | none => rfl
      | some r => simp [dgetD_map_cast]

/-! ### The hypotheses are satisfiable: a concrete system with a catalyst, inactive parts and a substance in two reactions -/

/-- `2 A + B -> B + C` with inactive reactant `D`, inactive product `A`, `k = 3/2` and `C -> A`, `k = 5`. -/
def exRxns : List (Reaction String ℚ) :=
  [{ reac := [("A", 2), ("B", 1)], prod := [("B", 1), ("C", 1)], inactReac := [("D", 1)], inactProd := [("A", 1)], param := 3/2 },
   { reac := [("C", 1)], prod := [("A", 1)], param := 5 }]

def exConc : String → ℚ := fun s => if s = "A" then 1/2 else if s = "B" then 2 else if s = "C" then 3 else 1

example : sysRates exConc exRxns (some ["A", "B", "C", "D", "E"]) none =
    [("A", 57/4), ("B", 0), ("C", -57/4), ("D", -3/4), ("E", 0)] := by decide +kernel

example : sysRates exConc exRxns (some ["A", "B", "C", "D", "E"]) (some ⟨"F", [("E", "fE"), ("A", "fA")]⟩) =
    [("A", 57/4 + 1 * (1 - 1/2)), ("B", 0), ("C", -57/4), ("D", -3/4), ("E", 0)] := by decide +kernel

example : lawOfMassActionRates [1/2, 2, 3, 1, 1] ["A", "B", "C", "D", "E"] exRxns = .ok [3/4, 15] ∧
    dCdtList ["A", "B", "C", "D", "E"] exRxns [3/4, 15] = .ok [57/4, 0, -57/4, -3/4, 0] := by decide +kernel

/-- `e-(aq) + e-(aq) + (H2O) + (H2O) -> H2 + OH- + OH-`: repeated active and repeated inactive terms -/
example : let r := reactionOfTerms [(1, "e-(aq)"), (1, "e-(aq)")] [(1, "H2"), (1, "OH-"), (1, "OH-")] [(1, "H2O"), (1, "H2O")] [] (3 : ℚ)
    (r.reac, r.prod, r.inactReac, r.inactProd) = ([("e-(aq)", 2)], [("H2", 1), ("OH-", 2)], [("H2O", 2)], []) ∧
    netStoichTuple (reactionOfTerms [(1, "e-(aq)"), (1, "e-(aq)")] [(1, "H2"), (1, "OH-"), (1, "OH-")] [(1, "H2O"), (1, "H2O")] [] (3 : ℚ))
      ["e-(aq)", "H2O", "H2", "OH-"] = [-2, -2, 1, 2] := by decide +kernel

/-- refusals of the array path: a reactant that is no substance (`ValueError`), a `conc` that is too short (`IndexError`),
    a `rates` vector shorter than the reaction list (`IndexError`); and success with a `conc` LONGER than the substance list -/
example : lawOfMassActionRates [1/2, 2] ["A", "B"] exRxns = .error .valueError ∧
    lawOfMassActionRates [1/2, 2] ["A", "B", "C", "D", "E"] exRxns = .error .indexError ∧
    dCdtList ["A", "B"] exRxns [3/4] = .error .indexError ∧
    lawOfMassActionRates [1/2, 2, 3, 1, 1, 9, 9] ["A", "B", "C", "D", "E"] exRxns = .ok [3/4, 15] := by decide +kernel

/-- mixed parameter kinds give the same rates; another `RateExpr` is refused; a `MassAction` reactant that is no substance is a
    `KeyError` (the plain branch says `ValueError`) -/
example : lawOfMassActionRatesK [1/2, 2, 3, 1, 1] ["A", "B", "C", "D", "E"] (exRxns.zip [.massAction, .plain]) = .ok [3/4, 15] ∧
    lawOfMassActionRatesK [1/2, 2, 3, 1, 1] ["A", "B", "C", "D", "E"] (exRxns.zip [.plain, .otherRateExpr]) = .error .valueError ∧
    lawOfMassActionRatesK [1/2, 2] ["A", "B"] (exRxns.zip [.massAction, .massAction]) = .error .keyError := by decide +kernel

/-- a named constant: missing from `variables` (`KeyError`), and found (`k1 = 7`): `A -> 2 B` at `[A] = 3` -/
example : rateDictP [("A", (3 : ℚ))] (Param.key "k1") ({ reac := [("A", 1)], prod := [("B", 2)], param := 0 } : Reaction String ℚ) ["A", "B"] = none ∧
    rateDictP [("A", (3 : ℚ)), ("k1", 7)] (Param.key "k1") ({ reac := [("A", 1)], prod := [("B", 2)], param := 0 } : Reaction String ℚ) ["A", "B"] =
      some [("A", -21), ("B", 42)] ∧
    rateDictP [("k1", (7 : ℚ))] (Param.const 5) ({ reac := [("A", 1)], prod := [("B", 2)], param := 0 } : Reaction String ℚ) ["A", "B"] = none := by
  decide +kernel

end ChemModel.C03
