/-
C18 — ionic strength and Debye–Hückel terms follow their definitions in any units.

Objects: `ionicStrength`, `ionicStrengthDict`, `*ActivityProduct`, `*ClassCall` are the hand model of
chempy/electrolytes.py (Model/Electrolytes.lean, tied by the correspondence check); `aNum`, `aConst`, `bNum`, …,
`limitingLogGamma`, `extendedLogGamma`, `daviesLogGamma`, the literals `combinedA/B`, `neutralityAtol`, `allcloseRtol`
and the values `constFaraday` … are regenerated from the source text / the installed `quantities` on every run
(Gen/FnElectrolytes.lean).  All theorems are over ℝ and unbounded.
-/
import ChemModel.Proofs.Electrolytes

namespace ChemModel.C18
open ChemModel ChemModel.Electrolytes ChemModel.Gen.Electrolytes

/-! ## the expressions of `ionic_strength` and `allclose` as they stand in the source

`isTermTot`, `isTermNet`, `isResult`, `isNeutralRef`, `isNeutralAtol`, `allcloseD`, `allcloseLim` are translated from the
source text on every run; the model only folds them.  An edit such as `b * z` for `b * z ** 2`, `tot` for `tot / 2` or another
tolerance expression makes the next theorem (and everything below that rests on it) fail to build. -/

/-- the per-ion term is **b·z²**, the net-charge term **b·z**, the result **tot/2**; the neutrality test compares `net` with
    `tot·0` using `|a − b| ≤ |a|·rtol + atol`, `atol = tot·10⁻¹⁴`, default `rtol = 10⁻⁸` -/
theorem ionic_strength_source_expressions (b z tot a c rtol atol : ℝ) :
    isTermTot b z = b * z ^ 2 ∧ isTermNet b z = b * z ∧ isResult tot = tot / 2 ∧
    isNeutralRef tot = 0 ∧ isNeutralAtol tot = tot * (1 / 10 ^ 14) ∧ (allcloseRtol : ℝ) = 1 / 10 ^ 8 ∧
    allcloseD a c = |a - c| ∧ allcloseLim a rtol atol = |a| * rtol + atol := by
  refine ⟨termTot_eq b z, termNet_eq b z, isResult_eq tot, ?_, ?_, allcloseRtol_eq, ?_, ?_⟩
  · simp only [isNeutralRef, Nat.cast_zero, mul_zero]
  · simp only [isNeutralAtol, NumReal.dec_eq]; norm_num
  · simp only [allcloseD, pabs_eq]
  · simp only [allcloseLim, pabs_eq]

/-- the one hand-typed line of `allclose` (scalar path): its return statement -/
theorem allclose_return_guard : allcloseReturnText = "np.all(d <= lim)" := by decide

/-- the array branch of `allclose` (scalar `lim`, or `lim` and `d` broadcast to their common shape, then element-wise) is
    hand-modelled by `allcloseB` for numbers and 1-d arrays: its source text, with the test "shapes differ" normalised
    (`len(x) != len(y)` and `np.shape(x) != np.shape(y)` coincide on 1-d arrays) -/
theorem allclose_array_branch_guard : allcloseArrayBranchText =
    "try: len(lim) except TypeError: return np.all([_d <= lim for _d in d]) else: if shape_differs(lim, d): lim, d = (lim + 0 * d, d + 0 * lim) return np.all([_d <= _lim for _d, _lim in zip(d, lim)])" := by
  rfl

/-- signatures (parameters and defaults as written in the source): the defaults that the specialised translations and the
    hand model rely on — `warn=True`, `charges/substances=None`, `substance_factory=Substance.from_formula`; `b0=1`,
    `constants=None`, `units=None`; `I0=1`, `C=0` / `C=-0.3`; `rtol=1e-08`, `atol=None` -/
theorem sig_ionic_strength_guard : sigIonicStrength = [("molalities", ""), ("charges", "None"), ("units", "None"),
    ("substances", "None"), ("substance_factory", "Substance.from_formula"), ("warn", "True")] := by decide

theorem sig_A_B_guard :
    sigA = [("eps_r", ""), ("T", ""), ("rho", ""), ("b0", "1"), ("constants", "None"), ("units", "None"), ("backend", "None")] ∧
    sigB = sigA := by decide

theorem sig_log_gamma_guard :
    sigLimiting = [("IS", ""), ("z", ""), ("A", ""), ("I0", "1"), ("backend", "None")] ∧
    sigExtended = [("IS", ""), ("z", ""), ("a", ""), ("A", ""), ("B", ""), ("C", "0"), ("I0", "1"), ("backend", "None")] ∧
    sigDavies = [("IS", ""), ("z", ""), ("A", ""), ("C", "-0.3"), ("I0", "1"), ("backend", "None")] := by decide

theorem sig_products_guard :
    sigLimitingProduct = [("IS", ""), ("stoich", ""), ("z", ""), ("T", ""), ("eps_r", ""), ("rho", ""), ("backend", "None")] ∧
    sigExtendedProduct = [("IS", ""), ("stoich", ""), ("z", ""), ("a", ""), ("T", ""), ("eps_r", ""), ("rho", ""), ("C", "0"),
      ("backend", "None")] ∧
    sigDaviesProduct = [("IS", ""), ("stoich", ""), ("z", ""), ("a", ""), ("T", ""), ("eps_r", ""), ("rho", ""), ("C", "-0.3"),
      ("backend", "None")] := by decide

/-- the translator's own signature records of every specialisation of `A` and `B`: parameters, defaults and decorators as in
    the source (the `@skipped` hashes are not pinned: the branches one specialisation skips are exactly the ones the other
    specialisations translate, see `A_paths_same_form` …) -/
theorem sig_A_B_specialisations_guard :
    [aNumSig, aNumUnits_rawSig, aNumUnitsB0_rawSig, aConst_rawSig, aConstUnitsB0_rawSig,
     bNumSig, bNumUnits_rawSig, bNumUnitsB0_rawSig, bConst_rawSig, bConstUnitsB0_rawSig].map (·.take 8)
      = List.replicate 10 [("eps_r", "<required>"), ("T", "<required>"), ("rho", "<required>"), ("b0", "1"),
          ("constants", "None"), ("units", "None"), ("backend", "None"), ("@decorators", "")] := by decide

theorem sig_log_gamma_specialisations_guard :
    [limitingLogGammaSig, limitingLogGammaDSig].map (·.take 6)
      = List.replicate 2 [("IS", "<required>"), ("z", "<required>"), ("A", "<required>"), ("I0", "1"), ("backend", "None"),
          ("@decorators", "")] ∧
    [extendedLogGammaSig, extendedLogGammaDSig, extendedLogGammaDCSig].map (·.take 9)
      = List.replicate 3 [("IS", "<required>"), ("z", "<required>"), ("a", "<required>"), ("A", "<required>"),
          ("B", "<required>"), ("C", "0"), ("I0", "1"), ("backend", "None"), ("@decorators", "")] ∧
    [daviesLogGammaSig, daviesLogGammaDSig, daviesLogGammaDCSig].map (·.take 7)
      = List.replicate 3 [("IS", "<required>"), ("z", "<required>"), ("A", "<required>"), ("C", "-0.3"), ("I0", "1"),
          ("backend", "None"), ("@decorators", "")] ∧
    (∀ r ∈ [limitingLogGammaSig, limitingLogGammaDSig, extendedLogGammaSig, extendedLogGammaDSig, extendedLogGammaDCSig,
        daviesLogGammaSig, daviesLogGammaDSig, daviesLogGammaDCSig], ("@skipped", "") ∈ r ∧ ("@warn", "") ∈ r) := by decide

theorem sig_allclose_guard : sigAllclose = [("a", ""), ("b", ""), ("rtol", "1e-08"), ("atol", "None")] := by decide

/-! ## ionic strength -/

/-- **I = ½ Σ bᵢ zᵢ²** (list form): for equally long, non-empty sequences the value is half the sum of molality times
    charge squared (whatever the warning flag is). -/
theorem ionic_strength_spec (bs zs : List ℝ) (warn : Bool) (hlen : bs.length = zs.length) (hne : bs ≠ []) :
    ∃ w, ionicStrength bs zs warn = .ok ((List.zipWith (fun b z => b * z ^ 2) bs zs).sum / 2, w) := by
  rw [ionicStrength_eq_isPairs bs zs hlen]
  cases hz : bs.zip zs with
  | nil =>
    cases bs with
    | nil => exact absurd rfl hne
    | cons b bs' => cases zs with
      | nil => simp at hlen
      | cons z zs' => simp at hz
  | cons p r =>
    refine ⟨warn && notNeutral (sumNet (p :: r)) (sumTot (p :: r)), ?_⟩
    rw [isPairs_cons, ← sumTot_zip, hz]

/-- the two rejections of the list form: different lengths → `ValueError`; no entries → `TypeError` (`None * 0`, `None / 2`) -/
theorem ionic_strength_rejects :
    (∀ (bs zs : List ℝ) (warn : Bool), bs.length ≠ zs.length → ionicStrength bs zs warn = .error .valueError) ∧
    (∀ warn : Bool, ionicStrength ([] : List ℝ) [] warn = .error .typeError) := by
  constructor
  · intro bs zs warn h
    simp [ionicStrength, h]
  · intro warn
    simp [ionicStrength, loopSum]

/-- **charges read from the formulas when a mapping is given**: for a non-empty mapping whose keys are non-empty, free of
    white space and accepted by the formula parser, the dict form is the list form on the values and on the charges
    `formula_to_composition(key).get(0, 0)`. -/
theorem ionic_strength_dict_spec (zf : List Char → Int) (m : List (List Char × ℝ)) (warn : Bool) (hne : m ≠ [])
    (hk : ∀ kv ∈ m, kv.1 ≠ [] ∧ (∀ c ∈ kv.1, isPyWs c = false) ∧ formulaCharge kv.1 = .ok (zf kv.1)) :
    ionicStrengthDict m warn = ionicStrength (m.map Prod.snd) (m.map fun kv => ((zf kv.1 : Int) : ℝ)) warn :=
  ionicStrengthDict_eq zf m warn hne hk

/-- **`substances=` given as a mapping**: every entry of `molalities` gets the charge stored under ITS OWN KEY — the order of the
    mapping and further entries in it (a superset) are irrelevant; `lookupCharge t k` is `substances[k].charge`. -/
theorem ionic_strength_substances_spec (factory : List Char → Except Err Int) (t : List (List Char × Int))
    (zf : List Char → Int) (m : List (List Char × ℝ)) (warn : Bool) (hne : m ≠ [])
    (h : ∀ kv ∈ m, lookupCharge t kv.1 = .ok (zf kv.1)) :
    ionicStrengthDictG factory (.mapping t) m warn
      = ionicStrength (m.map Prod.snd) (m.map fun kv => ((zf kv.1 : Int) : ℝ)) warn :=
  ionicStrengthDictG_mapping factory t zf m warn hne h

/-- a key that is missing from the mapping is refused (`KeyError`), not paired with something else -/
theorem ionic_strength_substances_missing (factory : List Char → Except Err Int) (t : List (List Char × Int))
    (k : List Char) (v : ℝ) (r : List (List Char × ℝ)) (warn : Bool) (h : ∀ p ∈ t, p.1 ≠ k) :
    ionicStrengthDictG factory (.mapping t) ((k, v) :: r) warn = .error .keyError := by
  have hl : lookupCharge t k = .error .keyError := by
    unfold lookupCharge
    have : t.find? (fun p => p.1 == k) = none := by
      rw [List.find?_eq_none]; intro p hp; simpa using h p hp
    rw [this]
  simp only [ionicStrengthDictG, dictPairs, hl]

/-- **`substances=` given as a string of names** (any order, possibly more names) with any `substance_factory`: the pieces are
    turned into substances by the factory and the entries are then looked up by key, as above. -/
theorem ionic_strength_names_spec (factory : List Char → Except Err Int) (s : List Char) (zf : List Char → Int)
    (m : List (List Char × ℝ)) (warn : Bool) (hne : m ≠ [])
    (hf : ∀ k ∈ pySplit s, factory k = .ok (zf k)) (hk : ∀ kv ∈ m, kv.1 ∈ pySplit s) :
    ionicStrengthDictG factory (.names s) m warn
      = ionicStrength (m.map Prod.snd) (m.map fun kv => ((zf kv.1 : Int) : ℝ)) warn :=
  ionicStrengthDictG_names factory s zf m warn hne hf hk

/-- **invariant under permutation of the entries** (value and warning) -/
theorem perm_invariant (ps qs : List (ℝ × ℝ)) (warn : Bool) (h : ps.Perm qs) :
    ionicStrength (ps.map Prod.fst) (ps.map Prod.snd) warn = ionicStrength (qs.map Prod.fst) (qs.map Prod.snd) warn := by
  change isPairs ps warn = isPairs qs warn
  cases ps with
  | nil => rw [List.nil_perm.mp h]
  | cons p r =>
    cases qs with
    | nil => exact absurd h.symm (by simp)
    | cons q s => rw [isPairs_cons, isPairs_cons, sumTot_perm h, sumNet_perm h]

/-- **invariant under merging two entries of the same charge** (with `perm_invariant`: any two entries) -/
theorem merge_entries (b₁ b₂ z : ℝ) (bs zs : List ℝ) (warn : Bool) :
    ionicStrength (b₁ :: b₂ :: bs) (z :: z :: zs) warn = ionicStrength ((b₁ + b₂) :: bs) (z :: zs) warn := by
  by_cases hlen : bs.length = zs.length
  · rw [ionicStrength_eq_isPairs _ _ (by simp [hlen]), ionicStrength_eq_isPairs _ _ (by simp [hlen])]
    simp only [List.zip_cons_cons, isPairs_cons]
    have e1 : sumTot ((b₁, z) :: (b₂, z) :: bs.zip zs) = sumTot ((b₁ + b₂, z) :: bs.zip zs) := by
      simp only [sumTot, List.map_cons, List.sum_cons]; ring
    have e2 : sumNet ((b₁, z) :: (b₂, z) :: bs.zip zs) = sumNet ((b₁ + b₂, z) :: bs.zip zs) := by
      simp only [sumNet, List.map_cons, List.sum_cons]; ring
    rw [e1, e2]
  · simp [ionicStrength, hlen]

/-- **scales linearly**: multiplying every molality by `c > 0` (e.g. another unit of molality) multiplies the value by `c`
    and leaves the warning unchanged. -/
theorem linear_scaling (c : ℝ) (hc : 0 < c) (bs zs : List ℝ) (warn : Bool) :
    ionicStrength (bs.map (c * ·)) zs warn = (ionicStrength bs zs warn).map fun r => (c * r.1, r.2) := by
  by_cases hlen : bs.length = zs.length
  · rw [ionicStrength_eq_isPairs _ _ (by simp [hlen]), ionicStrength_eq_isPairs _ _ hlen]
    have hz : (bs.map (c * ·)).zip zs = (bs.zip zs).map fun p => (c * p.1, p.2) := by
      rw [List.zip_map_left]; rfl
    rw [hz]
    cases hps : bs.zip zs with
    | nil => simp [isPairs_nil, Except.map]
    | cons p r =>
      rw [isPairs_scale_cons, notNeutral_scale hc, isPairs_cons]
      simp only [Except.map]
      congr 2
      ring
  · simp [ionicStrength, hlen, Except.map]

/-- the value alone scales for every factor (also 0 and negative ones) -/
theorem linear_scaling_value (c : ℝ) (bs zs : List ℝ) :
    (ionicStrength (bs.map (c * ·)) zs false) = (ionicStrength bs zs false).map fun r => (c * r.1, r.2) := by
  by_cases hlen : bs.length = zs.length
  · rw [ionicStrength_eq_isPairs _ _ (by simp [hlen]), ionicStrength_eq_isPairs _ _ hlen]
    have hz : (bs.map (c * ·)).zip zs = (bs.zip zs).map fun p => (c * p.1, p.2) := by
      rw [List.zip_map_left]; rfl
    rw [hz]
    cases hps : bs.zip zs with
    | nil => simp [isPairs_nil, Except.map]
    | cons p r =>
      rw [isPairs_scale_cons, isPairs_cons]
      simp only [Except.map, Bool.false_and]
      congr 2
      ring
  · simp [ionicStrength, hlen, Except.map]

/-- **the warning, exactly as coded**: with `net = Σ bᵢ zᵢ` and `tot = Σ bᵢ zᵢ²`, "Molalities not charge neutral" is
    issued iff `warn` and `|net| > |net|·1e-8 + tot·1e-14` (the negation of `allclose(net, 0, rtol=1e-8, atol=tot·1e-14)`),
    i.e. iff `|net|·(1 − 1e-8) > tot·1e-14`. -/
theorem warning_spec (p : ℝ × ℝ) (r : List (ℝ × ℝ)) (warn : Bool) :
    ∃ w, ionicStrength ((p :: r).map Prod.fst) ((p :: r).map Prod.snd) warn = .ok (sumTot (p :: r) / 2, w) ∧
      (w = true ↔ (warn = true ∧ sumTot (p :: r) * (1 / 10 ^ 14) < |sumNet (p :: r)| * (1 - 1 / 10 ^ 8))) := by
  refine ⟨warn && notNeutral (sumNet (p :: r)) (sumTot (p :: r)), isPairs_cons p r warn, ?_⟩
  simp only [Bool.and_eq_true, notNeutral_iff]
  constructor
  · rintro ⟨hw, h⟩; exact ⟨hw, by linarith⟩
  · rintro ⟨hw, h⟩; exact ⟨hw, by linarith⟩

/-- **no warning when the composition is neutral** (non-negative molalities, net charge exactly 0) -/
theorem no_warning_when_neutral (p : ℝ × ℝ) (r : List (ℝ × ℝ)) (warn : Bool)
    (hb : ∀ q ∈ p :: r, 0 ≤ q.1) (hnet : sumNet (p :: r) = 0) :
    ionicStrength ((p :: r).map Prod.fst) ((p :: r).map Prod.snd) warn = .ok (sumTot (p :: r) / 2, false) := by
  change isPairs (p :: r) warn = _
  rw [isPairs_cons]
  have hn : notNeutral (sumNet (p :: r)) (sumTot (p :: r)) = false := by
    rw [Bool.eq_false_iff, ne_eq, notNeutral_iff, hnet]
    have := sumTot_nonneg hb
    simp only [abs_zero, zero_mul, zero_add, not_lt]
    positivity
  rw [hn, Bool.and_false]

/-- **a warning when it is not**: beyond the coded tolerance band, `|net| ≥ 1.1e-14·tot` with `net ≠ 0`, the warning is
    issued (for non-negative molalities).  Between `0 < |net| ≤ tot·1e-14/(1−1e-8)` the code stays silent by design. -/
theorem warning_when_not_neutral (p : ℝ × ℝ) (r : List (ℝ × ℝ))
    (hb : ∀ q ∈ p :: r, 0 ≤ q.1) (hnet : sumNet (p :: r) ≠ 0)
    (hband : sumTot (p :: r) * (11 / 10 ^ 15) ≤ |sumNet (p :: r)|) :
    ionicStrength ((p :: r).map Prod.fst) ((p :: r).map Prod.snd) true = .ok (sumTot (p :: r) / 2, true) := by
  change isPairs (p :: r) true = _
  rw [isPairs_cons]
  have hn : notNeutral (sumNet (p :: r)) (sumTot (p :: r)) = true := by
    rw [notNeutral_iff]
    have h0 := sumTot_nonneg hb
    have h1 : 0 < |sumNet (p :: r)| := abs_pos.mpr hnet
    nlinarith
  rw [hn, Bool.true_and]

/-- the tolerance band is not empty: a composition that is NOT neutral (net = 1e-15) and draws no warning -/
theorem warning_tolerance_band_witness :
    sumNet [((1 : ℝ) + 1 / 10 ^ 15, 1), (1, -1)] ≠ 0 ∧
    ionicStrength [(1 : ℝ) + 1 / 10 ^ 15, 1] [1, -1] true = .ok ((2 + 1 / 10 ^ 15) / 2, false) := by
  constructor
  · simp [sumNet]
  · have h := isPairs_cons ((1 : ℝ) + 1 / 10 ^ 15, 1) [(1, -1)] true
    simp only [isPairs, List.map_cons, List.map_nil] at h
    rw [h]
    have hn : notNeutral (sumNet [((1 : ℝ) + 1 / 10 ^ 15, 1), (1, -1)]) (sumTot [((1 : ℝ) + 1 / 10 ^ 15, 1), (1, -1)]) = false := by
      rw [Bool.eq_false_iff, ne_eq, notNeutral_iff]
      simp only [sumNet, sumTot, List.map_cons, List.map_nil, List.sum_cons, List.sum_nil]
      norm_num
    rw [hn]
    simp only [sumTot, List.map_cons, List.map_nil, List.sum_cons, List.sum_nil, Bool.and_false]
    norm_num

/-- **the dict form is invariant under permutation of its entries** (value and warning), whatever `substances` mapping is used -/
theorem dict_perm_invariant (factory : List Char → Except Err Int) (t : List (List Char × Int)) (zf : List Char → Int)
    (m m' : List (List Char × ℝ)) (warn : Bool) (hp : m.Perm m') (hne : m ≠ [])
    (h : ∀ kv ∈ m, lookupCharge t kv.1 = .ok (zf kv.1)) :
    ionicStrengthDictG factory (.mapping t) m warn = ionicStrengthDictG factory (.mapping t) m' warn := by
  have hne' : m' ≠ [] := fun e => hne (List.perm_nil.mp (e ▸ hp))
  rw [ionic_strength_substances_spec factory t zf m warn hne h,
    ionic_strength_substances_spec factory t zf m' warn hne' (fun kv hkv => h kv (hp.mem_iff.mpr hkv))]
  have := perm_invariant (m.map fun kv => (kv.2, ((zf kv.1 : Int) : ℝ))) (m'.map fun kv => (kv.2, ((zf kv.1 : Int) : ℝ))) warn (hp.map _)
  simpa [List.map_map, Function.comp_def] using this

/-- **the dict form with the default `substances`** (charges parsed from the keys): invariant under permutation of the entries, and its
    value is ½ Σ b·z(key)² — success characterisation of the dict form in one statement -/
theorem dict_perm_invariant_default (zf : List Char → Int) (m m' : List (List Char × ℝ)) (warn : Bool) (hp : m.Perm m') (hne : m ≠ [])
    (hk : ∀ kv ∈ m, kv.1 ≠ [] ∧ (∀ c ∈ kv.1, isPyWs c = false) ∧ formulaCharge kv.1 = .ok (zf kv.1)) :
    ionicStrengthDict m warn = ionicStrengthDict m' warn ∧
    ∃ w, ionicStrengthDict m warn = .ok ((m.map fun kv => kv.2 * ((zf kv.1 : Int) : ℝ) ^ 2).sum / 2, w) := by
  have hne' : m' ≠ [] := fun e => hne (List.perm_nil.mp (e ▸ hp))
  have h1 := ionic_strength_dict_spec zf m warn hne hk
  have h2 := ionic_strength_dict_spec zf m' warn hne' (fun kv hkv => hk kv (hp.mem_iff.mpr hkv))
  constructor
  · rw [h1, h2]
    have := perm_invariant (m.map fun kv => (kv.2, ((zf kv.1 : Int) : ℝ))) (m'.map fun kv => (kv.2, ((zf kv.1 : Int) : ℝ))) warn (hp.map _)
    simpa [List.map_map, Function.comp_def] using this
  · rw [h1]
    obtain ⟨w, hw⟩ := ionic_strength_spec (m.map Prod.snd) (m.map fun kv => ((zf kv.1 : Int) : ℝ)) warn (by simp) (by simpa using hne)
    refine ⟨w, ?_⟩
    rw [hw]
    congr 3
    rw [List.zipWith_map_left, List.zipWith_map_right, List.zipWith_self]

/-- **neutral on paper, rounded in floating point**: non-negative molalities, charges 0 or of magnitude ≥ 1 (integers), and a net charge
    that is only rounding noise, `|Σ b z| ≤ 9·10⁻¹⁵ · Σ b|z|` (k products and k−1 additions in double precision stay below
    (k+1)·1.2·10⁻¹⁶·Σ b|z|, i.e. up to ~70 ions), draw NO warning.  This is what the tolerance `atol = tot·10⁻¹⁴` is for; it stops at
    fractional charges |z| < 1, where Σ b|z| is no longer bounded by Σ b z². -/
theorem no_warning_under_rounding (p : ℝ × ℝ) (r : List (ℝ × ℝ)) (warn : Bool)
    (hb : ∀ q ∈ p :: r, 0 ≤ q.1) (hz : ∀ q ∈ p :: r, q.2 = 0 ∨ 1 ≤ |q.2|)
    (hnet : |sumNet (p :: r)| ≤ 9 / 10 ^ 15 * ((p :: r).map fun q => q.1 * |q.2|).sum) :
    ionicStrength ((p :: r).map Prod.fst) ((p :: r).map Prod.snd) warn = .ok (sumTot (p :: r) / 2, false) := by
  change isPairs (p :: r) warn = _
  rw [isPairs_cons]
  have h1 := sum_abs_le_sumTot (p :: r) hb hz
  have hn : notNeutral (sumNet (p :: r)) (sumTot (p :: r)) = false := by
    rw [Bool.eq_false_iff, ne_eq, notNeutral_iff, not_lt]
    have h0 := abs_nonneg (sumNet (p :: r))
    nlinarith
  rw [hn, Bool.and_false]

/-- **double-precision rounding cannot trigger the warning on a composition that is neutral on paper.**
    `l` holds the decimal molalities and the (integer) charges with Σ b z = 0 exactly; the code sees `float(b)`, forms the products
    `b*z` and adds them from the left, every one of these operations with a relative error ≤ u ≤ 2⁻⁵³ (`RndTerm`, `FlSum`: the
    standard model of IEEE arithmetic).  For up to 8 ions the computed net charge is then at most 2·10⁻¹⁵·Σ b z², and the neutrality
    test stays silent for any computed total within 1 % of the exact one.  (Links `no_warning_when_neutral`, which needs net = 0
    exactly in ℝ, to what happens on floats; the three operations inside `allclose` itself are taken exact — the margin is 5×.) -/
theorem no_warning_for_rounded_neutral (u : ℝ) (hu0 : 0 ≤ u) (hu : u ≤ 1 / 2 ^ 53)
    (l : List (ℝ × ℝ)) (hb : ∀ q ∈ l, 0 ≤ q.1) (hz : ∀ q ∈ l, q.2 = 0 ∨ 1 ≤ |q.2|) (hk : l.length ≤ 8)
    (hneutral : sumNet l = 0)
    (ps : List ℝ) (hps : List.Forall₂ (RndTerm u) l ps) (net : ℝ) (hnet : FlSum u ps net)
    (tot : ℝ) (htot : 99 / 100 * sumTot l ≤ tot) :
    notNeutral net tot = false := by
  have hnetb := rounded_net_le u hu0 hu l hb hz hk hneutral ps hps net hnet
  have hT : 0 ≤ sumTot l := sumTot_nonneg hb
  rw [Bool.eq_false_iff, ne_eq, notNeutral_iff, not_lt]
  have := abs_nonneg net
  nlinarith

/-- the same with the total evaluated in floating point as well (`b * z**2` rounded, added from the left): no hypothesis on the
    computed total is left — neutral on paper, ≤ 8 ions, integer charges, double precision ⇒ no warning -/
theorem no_warning_for_rounded_evaluation (u : ℝ) (hu0 : 0 ≤ u) (hu : u ≤ 1 / 2 ^ 53)
    (l : List (ℝ × ℝ)) (hb : ∀ q ∈ l, 0 ≤ q.1) (hz : ∀ q ∈ l, q.2 = 0 ∨ 1 ≤ |q.2|) (hk : l.length ≤ 8)
    (hneutral : sumNet l = 0)
    (ps : List ℝ) (hps : List.Forall₂ (RndTerm u) l ps) (net : ℝ) (hnet : FlSum u ps net)
    (pt : List ℝ) (hpt : List.Forall₂ (RndTerm u) (l.map fun q => (q.1, q.2 ^ 2)) pt) (tot : ℝ) (htot : FlSum u pt tot) :
    notNeutral net tot = false := by
  refine no_warning_for_rounded_neutral u hu0 hu l hb hz hk hneutral ps hps net hnet tot ?_
  have h := abs_le.mp (rounded_tot_bounds u hu0 hu l hb hk pt hpt tot htot)
  have hT : 0 ≤ sumTot l := sumTot_nonneg hb
  nlinarith [h.1]

/-- … and with the neutrality test itself evaluated in floating point (`NotNeutralFl`: the doubles nearest to `1e-8`, `1e-14`, the two
    products, their sum and `abs(net − tot·0)` each rounded): whatever the rounding errors (≤ 2⁻⁵³ each), the outcome of the test on a
    paper-neutral composition of ≤ 8 ions with integer charges is "neutral" — NO floating-point step of `ionic_strength` is left exact. -/
theorem no_warning_for_rounded_test (u : ℝ) (hu0 : 0 ≤ u) (hu : u ≤ 1 / 2 ^ 53)
    (l : List (ℝ × ℝ)) (hb : ∀ q ∈ l, 0 ≤ q.1) (hz : ∀ q ∈ l, q.2 = 0 ∨ 1 ≤ |q.2|) (hk : l.length ≤ 8)
    (hneutral : sumNet l = 0)
    (ps : List ℝ) (hps : List.Forall₂ (RndTerm u) l ps) (net : ℝ) (hnet : FlSum u ps net)
    (pt : List ℝ) (hpt : List.Forall₂ (RndTerm u) (l.map fun q => (q.1, q.2 ^ 2)) pt) (tot : ℝ) (htot : FlSum u pt tot)
    (res : Bool) (hres : NotNeutralFl u net tot res) : res = false :=
  notNeutralFl_false u hu0 hu net tot (sumTot l) (sumTot_nonneg hb)
    (rounded_net_le u hu0 hu l hb hz hk hneutral ps hps net hnet) (rounded_tot_bounds u hu0 hu l hb hk pt hpt tot htot) res hres

/-! ## vectorised molalities, the other paths of `allclose`, the base class -/

/-- **one numpy array per ion** (m samples; a k×m array, a Quantity array or a dict of arrays iterate the same way): the result is
    the array of the sample-wise ionic strengths, and ONE warning is issued iff `warn` and some sample fails the neutrality test
    (`allclose` takes its array path `np.all([d_j <= lim_j ...])`): vectorising neither changes a value nor hides / invents a warning. -/
theorem vectorised_spec (m : ℕ) (p : List ℝ × ℝ) (r : List (List ℝ × ℝ)) (warn : Bool)
    (h : ∀ q ∈ p :: r, q.1.length = m) :
    ∃ vals w, ionicStrengthVec ((p :: r).map Prod.fst) ((p :: r).map Prod.snd) warn = .ok (vals, w) ∧ vals.length = m ∧
      (∀ j < m, ∃ wj, ionicStrength ((p :: r).map fun q => q.1.getD j 0) ((p :: r).map Prod.snd) warn = .ok (vals.getD j 0, wj)) ∧
      (w = true ↔ ∃ j < m, ionicStrength ((p :: r).map fun q => q.1.getD j 0) ((p :: r).map Prod.snd) warn
                            = .ok (vals.getD j 0, true)) := by
  obtain ⟨vals, w, h1, h2, h3, h4⟩ := ionicStrengthVec_spec m p r warn h
  have hcol : ∀ j, ionicStrength ((p :: r).map fun q => q.1.getD j 0) ((p :: r).map Prod.snd) warn
      = .ok (sumTot (col j (p :: r)) / 2, warn && notNeutral (sumNet (col j (p :: r))) (sumTot (col j (p :: r)))) := by
    intro j
    have := isPairs_cons (p.1.getD j 0, p.2) (col j r) warn
    simpa [isPairs, col, Function.comp_def] using this
  refine ⟨vals, w, h1, h2, fun j hj => ⟨_, by rw [hcol j, h3 j hj]⟩, ?_⟩
  rw [h4]
  constructor
  · rintro ⟨hw, j, hj, hn⟩
    exact ⟨j, hj, by rw [hcol j, h3 j hj, hw, hn]; rfl⟩
  · rintro ⟨j, hj, he⟩
    rw [hcol j] at he
    have := (Prod.mk.inj (Except.ok.inj he)).2
    simp only [Bool.and_eq_true] at this
    exact ⟨this.1, j, hj, this.2⟩

/-- the vectorised form refuses like the scalar one: different lengths → `ValueError`, no entries → `TypeError` -/
theorem vectorised_rejects :
    (∀ (rows : List (List ℝ)) (zs : List ℝ) (warn : Bool), rows.length ≠ zs.length → ionicStrengthVec rows zs warn = .error .valueError) ∧
    (∀ warn : Bool, ionicStrengthVec ([] : List (List ℝ)) [] warn = .error .typeError) := by
  constructor
  · intro rows zs warn h; simp [ionicStrengthVec, h]
  · intro warn; simp [ionicStrengthVec, loopSumVec]

/-- **the sequence paths of `allclose`** follow the definition `|a − b| ≤ |a|·rtol + atol` element by element:
    arrays (with an array `atol`), a scalar against an array, and Python lists (equal lengths required, `False` otherwise) -/
theorem allclose_paths_spec (m : ℕ) (a b atol : List ℝ) (x rtol t : ℝ) (ha : a.length = m) (hb : b.length = m) (ht : atol.length = m) :
    (allcloseArr a b rtol atol = true ↔ ∀ j < m, |a.getD j 0 - b.getD j 0| ≤ |a.getD j 0| * rtol + atol.getD j 0) ∧
    (allcloseScalarArr x b rtol t = true ↔ ∀ y ∈ b, |x - y| ≤ |x| * rtol + t) ∧
    (allcloseList a b rtol t = true ↔ ∀ j < m, |a.getD j 0 - b.getD j 0| ≤ |a.getD j 0| * rtol + t) ∧
    (∀ c : List ℝ, c.length ≠ a.length → allcloseList a c rtol t = false) := by
  have hsc : ∀ u v w : ℝ, allclose u v rtol w = true ↔ |u - v| ≤ |u| * rtol + w := by
    intro u v w
    simp only [allclose, allcloseD, allcloseLim, pabs_eq, decide_eq_true_eq]
  refine ⟨?_, ?_, ?_, ?_⟩
  · rw [allcloseArr_iff m a b atol rtol ha hb ht]
    simp only [hsc]
  · simp only [allcloseScalarArr, List.all_eq_true, hsc]
  · have h1 := allcloseArr_iff m a b (List.replicate m t) rtol ha hb (by simp)
    have h2 : allcloseList a b rtol t = allcloseArr a b rtol (List.replicate m t) := by
      unfold allcloseList allcloseArr
      rw [if_pos (by omega)]
      congr 1
      clear h1 ht
      induction m generalizing a b with
      | zero =>
        have : a = [] := List.length_eq_zero_iff.mp ha
        subst this; simp
      | succ n ih =>
        obtain ⟨u, a', rfl⟩ := List.exists_cons_of_length_eq_add_one ha
        obtain ⟨v, b', rfl⟩ := List.exists_cons_of_length_eq_add_one hb
        simp only [List.zipWith_cons_cons, List.zip_cons_cons, List.replicate_succ, List.cons.injEq, true_and]
        exact ih a' b' (by simpa using ha) (by simpa using hb)
    rw [h2, h1]
    constructor
    · intro h j hj
      have := (hsc _ _ _).mp (h j hj)
      simpa [List.getD_eq_getElem?_getD, List.getElem?_replicate, hj] using this
    · intro h j hj
      rw [hsc]
      simpa [List.getD_eq_getElem?_getD, List.getElem?_replicate, hj] using h j hj
  · intro c hc
    simp [allcloseList, Ne.symm hc]

/-- **`allclose` over the full broadcast shape of (a, b, atol)**: when the three shapes broadcast to a common length `n`, the result is
    ONE truth value — every element satisfies `|aᵢ − bᵢ| ≤ |aᵢ|·rtol + atolᵢ` (numbers and one-element arrays repeated); a pair
    (a, b) that cannot be broadcast compares unequal, an `atol` that cannot be broadcast is refused (`ValueError`). -/
theorem allclose_broadcast_spec (a b atol : Arg ℝ) (rtol : ℝ) :
    (∀ sd sl n, bcast a.size b.size = some sd → bcast a.size atol.size = some sl → bcast sd sl = some (some n) →
      ∃ r, allcloseB a b rtol atol = .ok r ∧
        (r = true ↔ ∀ i < n, |a.get 0 i - b.get 0 i| ≤ |a.get 0 i| * rtol + atol.get 0 i)) ∧
    (∀ x y t : ℝ, ∃ r, allcloseB (.scalar x) (.scalar y) rtol (.scalar t) = .ok r ∧ (r = true ↔ |x - y| ≤ |x| * rtol + t)) ∧
    (bcast a.size b.size = none → allcloseB a b rtol atol = .ok false) ∧
    (∀ sd, bcast a.size b.size = some sd → (bcast a.size atol.size = none ∨ ∃ sl, bcast a.size atol.size = some sl ∧ bcast sd sl = none) →
      allcloseB a b rtol atol = .error .valueError) := by
  have hsc : ∀ u v w : ℝ, allclose u v rtol w = true ↔ |u - v| ≤ |u| * rtol + w := by
    intro u v w
    simp only [allclose, allcloseD, allcloseLim, pabs_eq, decide_eq_true_eq]
  refine ⟨?_, ?_, ?_, ?_⟩
  · intro sd sl n h1 h2 h3
    have e : allcloseB a b rtol atol = .ok ((List.range n).all fun i =>
        allclose (a.get ((0 : Nat) : ℝ) i) (b.get ((0 : Nat) : ℝ) i) rtol (atol.get ((0 : Nat) : ℝ) i)) := by
      simp only [allcloseB, h1, h2, h3]
    refine ⟨_, e, ?_⟩
    simp only [List.all_eq_true, List.mem_range, hsc, Nat.cast_zero]
  · intro x y t
    exact ⟨_, rfl, by simp only [Arg.get, hsc]⟩
  · intro h; simp only [allcloseB, h]
  · intro sd h1 h
    rcases h with h2 | ⟨sl, h2, h3⟩
    · simp only [allcloseB, h1, h2]
    · simp only [allcloseB, h1, h2, h3]

/-- the hand-modelled bodies — the three product loops (`apTot`, `apTot2`), the base class (stores `stoich`, `args`; its `__call__`
    is `pass`, i.e. returns `None`: `baseClassCall`) and the two `__call__`s (`limitingClassCall`, `extendedClassCall`) — as they
    stand in the source; an edit opens this guard in addition to the anchor pin -/
theorem activity_product_sources_guard :
    srcLimitingProduct = "be = get_backend(backend) ; Aval = A(eps_r, T, rho) ; tot = 0 ; for idx, nr in enumerate(stoich): tot += nr * limiting_log_gamma(IS, z[idx], Aval) ; return be.exp(tot)" ∧
    srcExtendedProduct = "be = get_backend(backend) ; Aval = A(eps_r, T, rho) ; Bval = B(eps_r, T, rho) ; tot = 0 ; for idx, nr in enumerate(stoich): tot += nr * extended_log_gamma(IS, z[idx], a[idx], Aval, Bval, C) ; return be.exp(tot)" ∧
    srcDaviesProduct = "be = get_backend(backend) ; Aval = A(eps_r, T, rho) ; tot = 0 ; for idx, nr in enumerate(stoich): tot += nr * davies_log_gamma(IS, z[idx], Aval, C) ; return be.exp(tot)" ∧
    srcBaseClass = "__init__(self, stoich, *args): self.stoich = stoich ; self.args = args || __call__(self, c): pass" ∧
    srcLimitingClass = "__call__(self, c): z = self.args[0] ; IS = ionic_strength(c, z) ; return limiting_activity_product(IS, self.stoich, *self.args)" ∧
    srcExtendedClass = "__call__(self, c): z = self.args[0] ; IS = ionic_strength(c, z) ; return extended_activity_product(IS, self.stoich, *self.args)" :=
  ⟨rfl, rfl, rfl, rfl, rfl, rfl⟩

/-! ## Debye–Hückel constants A and B: two code paths -/

/-- **both paths of `A` have the same form** `C · ρ^{1/2} · b₀^{1/2} · (ε_r T)^{-3/2}` for all positive arguments: the
    hard-coded path with `C = combinedA` (the literal in the source), the path through the physical constants with
    `C = F³/(4π N_A) · (2 (ε₀ k_B N_A)³)^{-1/2}`. -/
theorem A_paths_same_form {eps T rho b0 F NA eps0 kB pi : ℝ} (he : 0 < eps) (hT : 0 < T) (hr : 0 < rho) (hb : 0 < b0)
    (hNA : 0 < NA) (h0 : 0 < eps0) (hk : 0 < kB) :
    aNum eps T rho b0 = combinedA * (rho ^ (1 / 2 : ℝ) * b0 ^ (1 / 2 : ℝ) * (eps * T) ^ (-(3 / 2) : ℝ)) ∧
    aConst eps T rho b0 F NA eps0 kB pi
      = (F ^ 3 / (4 * pi * NA) * (2 * (eps0 * kB * NA) ^ 3) ^ (-(1 / 2) : ℝ))
          * (rho ^ (1 / 2 : ℝ) * b0 ^ (1 / 2 : ℝ) * (eps * T) ^ (-(3 / 2) : ℝ)) :=
  ⟨aNum_form he hT hr hb, aConst_form he hT hr hb hNA h0 hk⟩

/-- **the two constants of `A` agree to 10⁻¹⁴**: with the values of `quantities.constants` (extracted), both for the
    double `constants.pi` that the code uses and for the real number π (Mathlib's 20-digit bounds). -/
theorem A_constants_ratio :
    |constA constFaraday constAvogadro constVacuumPermittivity constBoltzmann constPi / combinedA - 1| < 1 / 10 ^ 14 ∧
    |constA constFaraday constAvogadro constVacuumPermittivity constBoltzmann Real.pi / combinedA - 1| < 1 / 10 ^ 14 :=
  ⟨constA_ratio constPi_bounds.1 constPi_bounds.2, constA_ratio realPi_bounds.1 realPi_bounds.2⟩

/-- **the two paths of `A` agree for all temperatures, permittivities, densities and reference molalities**:
    relative difference below 10⁻¹⁴ on the whole positive orthant. -/
theorem A_paths_agree {eps T rho b0 : ℝ} (he : 0 < eps) (hT : 0 < T) (hr : 0 < rho) (hb : 0 < b0) :
    |aConst eps T rho b0 constFaraday constAvogadro constVacuumPermittivity constBoltzmann constPi / aNum eps T rho b0 - 1|
      < 1 / 10 ^ 14 := by
  rw [aNum_form he hT hr hb, aConst_form he hT hr hb constAvogadro_pos constVacuumPermittivity_pos constBoltzmann_pos,
    mul_div_mul_right _ _ (formA_pos he hT hr hb).ne']
  exact constA_ratio constPi_bounds.1 constPi_bounds.2

/-- **the extracted physical constants are the CODATA-2006 values of `quantities`** (F, N_A, ε₀, k_B, R) and the double π: each
    generated rational is the double nearest to the printed decimal, i.e. within 2 parts in 10¹⁶ of it -/
theorem constants_are_codata_2006 :
    |(constFaraday : ℝ) - 96485.3399| ≤ 96485.3399 * (2 / 10 ^ 16) ∧
    |(constAvogadro : ℝ) - 6.02214179e23| ≤ 6.02214179e23 * (2 / 10 ^ 16) ∧
    |(constVacuumPermittivity : ℝ) - 8.854187817e-12| ≤ 8.854187817e-12 * (2 / 10 ^ 16) ∧
    |(constBoltzmann : ℝ) - 1.3806504e-23| ≤ 1.3806504e-23 * (2 / 10 ^ 16) ∧
    |(constMolarGas : ℝ) - 8.314472| ≤ 8.314472 * (2 / 10 ^ 16) ∧
    |(constPi : ℝ) - 3.141592653589793| ≤ 3.141592653589793 * (2 / 10 ^ 16) := by
  simp only [constFaraday, constAvogadro, constVacuumPermittivity, constBoltzmann, constMolarGas, constPi, NumReal.frac_eq]
  refine ⟨?_, ?_, ?_, ?_, ?_, ?_⟩ <;> rw [abs_le] <;> constructor <;> norm_num

/-- **both paths of `B` have the same form** `C · ρ^{1/2} · b₀^{1/2} · (ε_r T)^{-1/2}`: `C = combinedB` resp. `F·(2/(ε₀ R))^{1/2}` -/
theorem B_paths_same_form {eps T rho b0 F eps0 R : ℝ} (he : 0 < eps) (hT : 0 < T) (hr : 0 < rho) (hb : 0 < b0)
    (h0 : 0 < eps0) (hR : 0 < R) :
    bNum eps T rho b0 = combinedB * (rho ^ (1 / 2 : ℝ) * b0 ^ (1 / 2 : ℝ) * (eps * T) ^ (-(1 / 2) : ℝ)) ∧
    bConst eps T rho b0 F eps0 R
      = (F * (2 / (eps0 * R)) ^ (1 / 2 : ℝ)) * (rho ^ (1 / 2 : ℝ) * b0 ^ (1 / 2 : ℝ) * (eps * T) ^ (-(1 / 2) : ℝ)) :=
  ⟨bNum_form he hT hr hb, bConst_form he hT hr hb h0 hR⟩

/-- **the two constants of `B` agree to 10⁻¹⁴** -/
theorem B_constants_ratio :
    |constB constFaraday constVacuumPermittivity constMolarGas / combinedB - 1| < 1 / 10 ^ 14 := constB_ratio

/-- **the two paths of `B` agree on the whole positive orthant** -/
theorem B_paths_agree {eps T rho b0 : ℝ} (he : 0 < eps) (hT : 0 < T) (hr : 0 < rho) (hb : 0 < b0) :
    |bConst eps T rho b0 constFaraday constVacuumPermittivity constMolarGas / bNum eps T rho b0 - 1| < 1 / 10 ^ 14 := by
  rw [bNum_form he hT hr hb, bConst_form he hT hr hb constVacuumPermittivity_pos constMolarGas_pos,
    mul_div_mul_right _ _ (formB_pos he hT hr hb).ne']
  exact constB_ratio

/-! ## … in any units

A unit system is given by the magnitudes `m, K, mol, kg, s, Amp` of the SI units in it; a quantity of dimension
`m^a K^b …` with SI magnitude `x` has the magnitude `x · m^a K^b …` there.  `units.meter` etc. are these magnitudes. -/

/-- `A(eps_r, T, rho, b0, units=u)` is the same number in every unit system (A is dimensionless) -/
theorem A_units_invariant {eps T rho b0 m K mol kg : ℝ} (he : 0 < eps) (hT : 0 < T) (hr : 0 < rho) (hb : 0 < b0)
    (hm : 0 < m) (hK : 0 < K) (hmol : 0 < mol) (hkg : 0 < kg) :
    aNumUnits eps (T * K) (rho * (kg / m ^ 3)) (b0 * (mol / kg)) m K mol = aNum eps T rho b0 :=
  aNumUnits_invariant he hT hr hb hm hK hmol hkg

/-- `B(eps_r, T, rho, b0, units=u)` is an inverse length: its magnitude is the SI number divided by the magnitude of the metre -/
theorem B_units_scaling {eps T rho b0 m K mol kg : ℝ} (he : 0 < eps) (hT : 0 < T) (hr : 0 < rho) (hb : 0 < b0)
    (hm : 0 < m) (hK : 0 < K) (hmol : 0 < mol) (hkg : 0 < kg) :
    bNumUnits eps (T * K) (rho * (kg / m ^ 3)) (b0 * (mol / kg)) m K mol = bNum eps T rho b0 / m :=
  bNumUnits_scaling he hT hr hb hm hK hmol hkg

/-- b0 left at its default with a units object: `b0 = 1·units.molal`, i.e. the reference molality 1 mol/kg in every system -/
theorem default_b0_is_one_molal {eps T rho m K mol kg : ℝ} (he : 0 < eps) (hT : 0 < T) (hr : 0 < rho)
    (hm : 0 < m) (hK : 0 < K) (hmol : 0 < mol) (hkg : 0 < kg) :
    aNumUnitsB0 eps (T * K) (rho * (kg / m ^ 3)) (mol / kg) m K mol = aNum eps T rho 1 ∧
    bNumUnitsB0 eps (T * K) (rho * (kg / m ^ 3)) (mol / kg) m K mol = bNum eps T rho 1 / m := by
  rw [aNumUnitsB0_eq, bNumUnitsB0_eq]
  exact ⟨aNumUnits_invariant he hT hr one_pos hm hK hmol hkg, bNumUnits_scaling he hT hr one_pos hm hK hmol hkg⟩

/-- the path through the physical constants is the same number in every unit system when the constants are expressed in
    that system too (F: s·A/mol, N_A: 1/mol, ε₀: s⁴A²/(kg m³), k_B: kg m²/(s² K)) -/
theorem A_const_units_invariant {eps T rho b0 F NA eps0 kB pi m K mol kg s Amp : ℝ}
    (he : 0 < eps) (hT : 0 < T) (hr : 0 < rho) (hb : 0 < b0) (hF : 0 < F) (hNA : 0 < NA) (h0 : 0 < eps0) (hk : 0 < kB)
    (hp : 0 < pi) (hm : 0 < m) (hK : 0 < K) (hmol : 0 < mol) (hkg : 0 < kg) (hs : 0 < s) (hA : 0 < Amp) :
    aConst eps (T * K) (rho * (kg / m ^ 3)) (b0 * (mol / kg)) (F * (s * Amp / mol)) (NA * (1 / mol))
        (eps0 * (s ^ 4 * Amp ^ 2 / (kg * m ^ 3))) (kB * (kg * m ^ 2 / (s ^ 2 * K))) pi
      = aConst eps T rho b0 F NA eps0 kB pi := by
  have hT' : 0 < T * K := mul_pos hT hK
  have hr' : 0 < rho * (kg / m ^ 3) := by positivity
  have hb' : 0 < b0 * (mol / kg) := by positivity
  have hF' : 0 < F * (s * Amp / mol) := by positivity
  have hNA' : 0 < NA * (1 / mol) := by positivity
  have h0' : 0 < eps0 * (s ^ 4 * Amp ^ 2 / (kg * m ^ 3)) := by positivity
  have hk' : 0 < kB * (kg * m ^ 2 / (s ^ 2 * K)) := by positivity
  apply eq_of_sq_eq (aConst_pos he hT' hr' hb' hF' hNA' h0' hk' hp) (aConst_pos he hT hr hb hF hNA h0 hk hp)
  rw [aConst_sq he hT' hr' hb' hNA' h0' hk', aConst_sq he hT hr hb hNA h0 hk]
  field_simp

/-- the same for `B` (F: s·A/mol, ε₀: s⁴A²/(kg m³), R: kg m²/(s² mol K)): inverse length -/
theorem B_const_units_scaling {eps T rho b0 F eps0 R m K mol kg s Amp : ℝ}
    (he : 0 < eps) (hT : 0 < T) (hr : 0 < rho) (hb : 0 < b0) (hF : 0 < F) (h0 : 0 < eps0) (hR : 0 < R)
    (hm : 0 < m) (hK : 0 < K) (hmol : 0 < mol) (hkg : 0 < kg) (hs : 0 < s) (hA : 0 < Amp) :
    bConst eps (T * K) (rho * (kg / m ^ 3)) (b0 * (mol / kg)) (F * (s * Amp / mol))
        (eps0 * (s ^ 4 * Amp ^ 2 / (kg * m ^ 3))) (R * (kg * m ^ 2 / (s ^ 2 * mol * K)))
      = bConst eps T rho b0 F eps0 R / m := by
  have hT' : 0 < T * K := mul_pos hT hK
  have hr' : 0 < rho * (kg / m ^ 3) := by positivity
  have hb' : 0 < b0 * (mol / kg) := by positivity
  have hF' : 0 < F * (s * Amp / mol) := by positivity
  have h0' : 0 < eps0 * (s ^ 4 * Amp ^ 2 / (kg * m ^ 3)) := by positivity
  have hR' : 0 < R * (kg * m ^ 2 / (s ^ 2 * mol * K)) := by positivity
  apply eq_of_sq_eq (bConst_pos he hT' hr' hb' hF' h0' hR') (div_pos (bConst_pos he hT hr hb hF h0 hR) hm)
  rw [div_pow, bConst_sq he hT' hr' hb' h0' hR', bConst_sq he hT hr hb h0 hR]
  field_simp

/-- constants path with a units object and b0 defaulted (`b0 = 1·units.molal`): the generated `aConstUnitsB0` / `bConstUnitsB0`
    are the constants path at the reference molality 1 mol/kg, in every unit system -/
theorem default_b0_const_paths {eps T rho F NA eps0 kB pi R m K mol kg s Amp : ℝ}
    (he : 0 < eps) (hT : 0 < T) (hr : 0 < rho) (hF : 0 < F) (hNA : 0 < NA) (h0 : 0 < eps0) (hk : 0 < kB) (hR : 0 < R)
    (hp : 0 < pi) (hm : 0 < m) (hK : 0 < K) (hmol : 0 < mol) (hkg : 0 < kg) (hs : 0 < s) (hA : 0 < Amp) :
    aConstUnitsB0 eps (T * K) (rho * (kg / m ^ 3)) (mol / kg) (F * (s * Amp / mol)) (NA * (1 / mol))
        (eps0 * (s ^ 4 * Amp ^ 2 / (kg * m ^ 3))) (kB * (kg * m ^ 2 / (s ^ 2 * K))) pi
      = aConst eps T rho 1 F NA eps0 kB pi ∧
    bConstUnitsB0 eps (T * K) (rho * (kg / m ^ 3)) (mol / kg) (F * (s * Amp / mol))
        (eps0 * (s ^ 4 * Amp ^ 2 / (kg * m ^ 3))) (R * (kg * m ^ 2 / (s ^ 2 * mol * K)))
      = bConst eps T rho 1 F eps0 R / m := by
  rw [aConstUnitsB0_eq, bConstUnitsB0_eq]
  exact ⟨A_const_units_invariant he hT hr one_pos hF hNA h0 hk hp hm hK hmol hkg hs hA,
    B_const_units_scaling he hT hr one_pos hF h0 hR hm hK hmol hkg hs hA⟩

/-! ## log-activity coefficients -/

/-- **limiting law**: ln γ = −A z² √(I/I₀) on the Python domain `I₀ ≠ 0`, `I/I₀ ≥ 0` (outside it Python divides by zero or
    returns a complex number while `Real.sqrt`/`rpow` are totalised; the hypotheses keep the statement honest) -/
theorem limiting_spec (IS z A I0 : ℝ) (_hI0 : I0 ≠ 0) (_hI : 0 ≤ IS / I0) :
    limitingLogGamma IS z A I0 = -A * z ^ 2 * Real.sqrt (IS / I0) :=
  limitingLogGamma_eq IS z A I0

/-- **extended law**: ln γ = −A z² √(I/I₀) / (1 + B a √(I/I₀)) + C·I/I₀ -/
theorem extended_spec (IS z a A B C I0 : ℝ) (_hI0 : I0 ≠ 0) (_hI : 0 ≤ IS / I0)
    (_hden : 1 + B * a * Real.sqrt (IS / I0) ≠ 0) :
    extendedLogGamma IS z a A B C I0
      = -A * z ^ 2 * Real.sqrt (IS / I0) / (1 + B * a * Real.sqrt (IS / I0)) + C * (IS / I0) :=
  extendedLogGamma_eq IS z a A B C I0

/-- **Davies**: ln γ = −A z² (√(I/I₀)/(1 + √(I/I₀)) + C·I/I₀), and the default is C = −0.3, I₀ = 1 -/
theorem davies_spec (IS z A C I0 : ℝ) (_hI0 : I0 ≠ 0) (_hI : 0 ≤ IS / I0) (_hIS : 0 ≤ IS) :
    daviesLogGamma IS z A C I0 = -A * z ^ 2 * (Real.sqrt (IS / I0) / (1 + Real.sqrt (IS / I0)) + C * (IS / I0)) ∧
    daviesLogGammaD IS z A = -A * z ^ 2 * (Real.sqrt IS / (1 + Real.sqrt IS) - 3 / 10 * IS) := by
  refine ⟨daviesLogGamma_eq IS z A C I0, ?_⟩
  rw [daviesLogGammaD_eq, daviesLogGamma_eq, div_one]
  ring

/-- the defaults of the other two: I₀ = 1 (and C = 0) -/
theorem defaults_spec (IS z a A B C : ℝ) :
    limitingLogGammaD IS z A = limitingLogGamma IS z A 1 ∧
    extendedLogGammaD IS z a A B = extendedLogGamma IS z a A B 0 1 ∧
    extendedLogGammaDC IS z a A B C = extendedLogGamma IS z a A B C 1 ∧
    daviesLogGammaDC IS z A C = daviesLogGamma IS z A C 1 :=
  ⟨limitingLogGammaD_eq IS z A, extendedLogGammaD_eq IS z a A B, extendedLogGammaDC_eq IS z a A B C,
    daviesLogGammaDC_eq IS z A C⟩

/-- **the extended form reduces to the limiting one when the ion-size term vanishes** (`B·a = 0`, `C = 0`) -/
theorem extended_reduces_to_limiting (IS z a A B I0 : ℝ) (_hI0 : I0 ≠ 0) (_hI : 0 ≤ IS / I0) (h : B * a = 0) :
    extendedLogGamma IS z a A B 0 I0 = limitingLogGamma IS z A I0 := by
  rw [extendedLogGamma_eq, limitingLogGamma_eq, h]
  simp

/-- … and **as the ion size tends to 0** it tends to the limiting law (plus the linear term `C·I/I₀`), for all arguments -/
theorem extended_tends_to_limiting (IS z A B C I0 : ℝ) (_hI0 : I0 ≠ 0) (_hI : 0 ≤ IS / I0) :
    Filter.Tendsto (fun a => extendedLogGamma IS z a A B C I0) (nhds 0)
      (nhds (limitingLogGamma IS z A I0 + C * (IS / I0))) := by
  have hfun : (fun a => extendedLogGamma IS z a A B C I0)
      = fun a => -A * z ^ 2 * Real.sqrt (IS / I0) / (1 + B * a * Real.sqrt (IS / I0)) + C * (IS / I0) := by
    funext a; exact extendedLogGamma_eq IS z a A B C I0
  rw [hfun, limitingLogGamma_eq]
  have hden : ContinuousAt (fun a : ℝ => 1 + B * a * Real.sqrt (IS / I0)) 0 :=
    continuousAt_const.add ((continuousAt_const.mul continuousAt_id).mul continuousAt_const)
  have hc : ContinuousAt
      (fun a : ℝ => -A * z ^ 2 * Real.sqrt (IS / I0) / (1 + B * a * Real.sqrt (IS / I0)) + C * (IS / I0)) 0 :=
    (continuousAt_const.div hden (by simp)).add continuousAt_const
  have := hc.tendsto
  simpa using this

/-- **zero at zero ionic strength** (all three laws, any reference `I₀ ≠ 0`) -/
theorem zero_at_zero_ionic_strength (z a A B C I0 : ℝ) (_hI0 : I0 ≠ 0) :
    limitingLogGamma 0 z A I0 = 0 ∧ extendedLogGamma 0 z a A B C I0 = 0 ∧ daviesLogGamma 0 z A C I0 = 0 := by
  rw [limitingLogGamma_eq, extendedLogGamma_eq, daviesLogGamma_eq]
  simp

/-! ## activity products -/

/-- **activity products are the stoichiometry-weighted exponentials**: `exp Σ νᵢ · ln γᵢ` with `A = A(ε_r, T, ρ)` of the
    numeric path (`b0 = 1`), when `z` has an entry for every stoichiometric coefficient -/
theorem activity_product_spec (IS : ℝ) (stoich z : List ℝ) (T eps rho C : ℝ) (h : stoich.length ≤ z.length) :
    limitingActivityProduct IS stoich z T eps rho
      = .ok (Real.exp (List.zipWith (fun nu zi => nu * limitingLogGamma IS zi (aNum eps T rho 1) 1) stoich z).sum) ∧
    daviesActivityProduct IS stoich z T eps rho C
      = .ok (Real.exp (List.zipWith (fun nu zi => nu * daviesLogGamma IS zi (aNum eps T rho 1) C 1) stoich z).sum) := by
  unfold limitingActivityProduct daviesActivityProduct
  simp only [apTot_ok _ _ _ _ h, Nat.cast_zero, Nat.cast_one, zero_add, NumReal.exp_def, limitingLogGammaD_eq,
    daviesLogGammaDC_eq, and_self]

/-- the extended product: `exp Σ νᵢ · extended_log_gamma(I, zᵢ, aᵢ, A, B, C)` with `A`, `B` of the numeric path -/
theorem extended_activity_product_spec (IS : ℝ) (stoich z a : List ℝ) (T eps rho C : ℝ)
    (h : stoich.length ≤ z.length) (h' : stoich.length ≤ a.length) :
    extendedActivityProduct IS stoich z a T eps rho C
      = .ok (Real.exp (List.zipWith3
          (fun nu zi ai => nu * extendedLogGamma IS zi ai (aNum eps T rho 1) (bNum eps T rho 1) C 1) stoich z a).sum) := by
  unfold extendedActivityProduct
  simp only [apTot2_ok _ _ _ _ _ h h', Nat.cast_zero, Nat.cast_one, zero_add, NumReal.exp_def, extendedLogGammaDC_eq]

/-- **uncharged species** (z = 0): the limiting and the Davies law give ln γ = 0, the extended law keeps its linear term
    ln γ = C·I/I₀ — a neutral species is NOT inert in the extended product unless C = 0 -/
theorem neutral_species_log_gamma (IS a A B C I0 : ℝ) (_hI0 : I0 ≠ 0) (_hI : 0 ≤ IS / I0) :
    limitingLogGamma IS 0 A I0 = 0 ∧ daviesLogGamma IS 0 A C I0 = 0 ∧ extendedLogGamma IS 0 a A B C I0 = C * (IS / I0) := by
  rw [limitingLogGamma_eq, extendedLogGamma_eq, daviesLogGamma_eq]
  simp

/-- **activity products over stoichiometries with uncharged species and spectators**: a leading species with coefficient ν and
    z = 0 contributes the factor `exp(ν·C·I)` to the extended product and the factor 1 to the limiting and Davies products; a
    spectator (ν = 0, any charge) contributes 1 to all three.  (Position is immaterial: the exponent is a sum, see
    `activity_product_spec`, `extended_activity_product_spec`, whose quantifier includes z = 0 and ν = 0.) -/
theorem activity_product_neutral_species (IS nu z0 a0 : ℝ) (stoich z a : List ℝ) (T eps rho C : ℝ) (_hIS : 0 ≤ IS)
    (h : stoich.length ≤ z.length) (h' : stoich.length ≤ a.length) :
    extendedActivityProduct IS (nu :: stoich) (0 :: z) (a0 :: a) T eps rho C
      = (extendedActivityProduct IS stoich z a T eps rho C).map (fun p => Real.exp (nu * (C * IS)) * p) ∧
    limitingActivityProduct IS (nu :: stoich) (0 :: z) T eps rho = limitingActivityProduct IS stoich z T eps rho ∧
    daviesActivityProduct IS (nu :: stoich) (0 :: z) T eps rho C = daviesActivityProduct IS stoich z T eps rho C ∧
    extendedActivityProduct IS (0 :: stoich) (z0 :: z) (a0 :: a) T eps rho C = extendedActivityProduct IS stoich z a T eps rho C ∧
    limitingActivityProduct IS (0 :: stoich) (z0 :: z) T eps rho = limitingActivityProduct IS stoich z T eps rho ∧
    daviesActivityProduct IS (0 :: stoich) (z0 :: z) T eps rho C = daviesActivityProduct IS stoich z T eps rho C := by
  have hl : (nu :: stoich).length ≤ ((0 : ℝ) :: z).length := by simpa using h
  have hl' : (nu :: stoich).length ≤ (a0 :: a).length := by simpa using h'
  have hz : ((0 : ℝ) :: stoich).length ≤ (z0 :: z).length := by simpa using h
  have hz' : ((0 : ℝ) :: stoich).length ≤ (a0 :: a).length := by simpa using h'
  have e1 := (neutral_species_log_gamma IS a0 (aNum eps T rho 1) (bNum eps T rho 1) C 1 one_ne_zero (by simpa using _hIS))
  refine ⟨?_, ?_, ?_, ?_, ?_, ?_⟩
  · rw [extended_activity_product_spec IS _ _ _ T eps rho C hl hl', extended_activity_product_spec IS _ _ _ T eps rho C h h']
    simp only [List.zipWith3, List.sum_cons, e1.2.2, div_one, Except.map, Real.exp_add]
  · rw [(activity_product_spec IS _ _ T eps rho C hl).1, (activity_product_spec IS _ _ T eps rho C h).1]
    simp only [List.zipWith_cons_cons, List.sum_cons, e1.1, mul_zero, zero_add]
  · rw [(activity_product_spec IS _ _ T eps rho C hl).2, (activity_product_spec IS _ _ T eps rho C h).2]
    simp only [List.zipWith_cons_cons, List.sum_cons, e1.2.1, mul_zero, zero_add]
  · rw [extended_activity_product_spec IS _ _ _ T eps rho C hz hz', extended_activity_product_spec IS _ _ _ T eps rho C h h']
    simp only [List.zipWith3, List.sum_cons, zero_mul, zero_add]
  · rw [(activity_product_spec IS _ _ T eps rho C hz).1, (activity_product_spec IS _ _ T eps rho C h).1]
    simp only [List.zipWith_cons_cons, List.sum_cons, zero_mul, zero_add]
  · rw [(activity_product_spec IS _ _ T eps rho C hz).2, (activity_product_spec IS _ _ T eps rho C h).2]
    simp only [List.zipWith_cons_cons, List.sum_cons, zero_mul, zero_add]

/-- a charge (or ion-size) sequence shorter than the stoichiometry is refused (`IndexError`), not padded -/
theorem activity_product_index_error (IS : ℝ) (stoich z a : List ℝ) (T eps rho C : ℝ) (h : z.length < stoich.length) :
    limitingActivityProduct IS stoich z T eps rho = .error .indexError ∧
    daviesActivityProduct IS stoich z T eps rho C = .error .indexError ∧
    extendedActivityProduct IS stoich z a T eps rho C = .error .indexError := by
  unfold limitingActivityProduct daviesActivityProduct extendedActivityProduct
  simp only [apTot_short _ _ _ _ h, apTot2_short _ _ _ _ _ (Or.inl h), and_self]

/-- the callable classes: ionic strength of the given molalities with the charges, then the product; the neutrality
    warning of that ionic strength is the only side effect; `C` left out of `ExtendedDebyeHuckelActivityProduct(...)` is 0 -/
theorem class_call_spec (stoich z a c : List ℝ) (T eps rho IS : ℝ) (C : Option ℝ) (w : Bool)
    (hIS : ionicStrength c z true = .ok (IS, w)) :
    limitingClassCall stoich z T eps rho c = (limitingActivityProduct IS stoich z T eps rho).map (fun v => (v, w)) ∧
    extendedClassCall stoich z a T eps rho C c
      = (extendedActivityProduct IS stoich z a T eps rho (C.getD 0)).map (fun v => (v, w)) := by
  unfold limitingClassCall extendedClassCall
  simp only [hIS]
  constructor
  · cases limitingActivityProduct IS stoich z T eps rho <;> rfl
  · simp only [Nat.cast_zero]
    cases extendedActivityProduct IS stoich z a T eps rho (C.getD 0) <;> rfl

/-! ## the hypotheses are satisfiable: concrete instances -/

/-- the docstring example `ionic_strength([1e-3, 3e-3], [3, -1]) = 6e-3`, neutral, no warning -/
example : ionicStrength [(1 : ℝ) / 1000, 3 / 1000] [3, -1] true = .ok (6 / 1000, false) := by
  have h := no_warning_when_neutral ((1 : ℝ) / 1000, 3) [(3 / 1000, -1)] true
    (by intro q hq; simp at hq; rcases hq with rfl | rfl <;> norm_num)
    (by simp [sumNet]; norm_num)
  simp only [List.map_cons, List.map_nil] at h
  rw [h]
  simp [sumTot]; norm_num

/-- a non-neutral composition inside the claim of `warning_when_not_neutral` -/
example : ionicStrength [(1 : ℝ), 1] [2, -1] true = .ok (5 / 2, true) := by
  have h := warning_when_not_neutral ((1 : ℝ), 2) [(1, -1)]
    (by intro q hq; simp at hq; rcases hq with rfl | rfl <;> norm_num)
    (by simp [sumNet]; norm_num)
    (by simp [sumNet, sumTot]; norm_num)
  simp only [List.map_cons, List.map_nil] at h
  rw [h]
  simp [sumTot]; norm_num

/-- the docstring example `ionic_strength({'Mg+2': 6, 'PO4-3': 4})` satisfies the hypotheses of `ionic_strength_dict_spec` -/
example : ionicStrengthDict [("Mg+2".toList, (6 : ℝ)), ("PO4-3".toList, 4)] true
    = ionicStrength [(6 : ℝ), 4] [((2 : Int) : ℝ), ((-3 : Int) : ℝ)] true := by
  have h := ionic_strength_dict_spec (fun k => if k = "Mg+2".toList then 2 else -3)
    [("Mg+2".toList, (6 : ℝ)), ("PO4-3".toList, 4)] true (by simp) (by
      intro kv hkv
      simp only [List.mem_cons, List.not_mem_nil, or_false] at hkv
      rcases hkv with rfl | rfl
      · exact ⟨by decide, by decide, by decide +kernel⟩
      · exact ⟨by decide, by decide, by decide +kernel⟩)
  simpa using h

/-- two ions, two samples: an instance of `vectorised_spec` -/
example : ∃ vals w, ionicStrengthVec [[(1 : ℝ), 2], [3, 6]] [3, -1] true = .ok (vals, w) ∧ vals.length = 2 := by
  obtain ⟨vals, w, h1, h2, _⟩ := vectorised_spec 2 ([1, 2], 3) [([3, 6], -1)] true
    (by intro q hq; simp only [List.mem_cons, List.not_mem_nil, or_false] at hq; rcases hq with rfl | rfl <;> rfl)
  exact ⟨vals, w, by simpa using h1, h2⟩

/-- the repaired broadcast: a one-element array against a longer one is compared on EVERY element (`[1]` vs `[1, 5, 9]` differ) -/
example : allcloseB (.arr [(1 : ℝ)]) (.arr [1, 5, 9]) (1 / 10 ^ 8) (.scalar 0) = .ok false := by
  obtain ⟨r, hr, hiff⟩ := (allclose_broadcast_spec (.arr [(1 : ℝ)]) (.arr [1, 5, 9]) (.scalar 0) (1 / 10 ^ 8)).1
    (some 3) (some 1) 3 rfl rfl rfl
  rw [hr]
  cases r with
  | false => rfl
  | true =>
    have h := hiff.mp rfl 1 (by norm_num)
    simp only [Arg.get, List.getD_eq_getElem?_getD] at h
    norm_num at h

/-- `ionic_strength([0.1, 0.3], [3, -1])`: neutral on paper; the hypotheses of `no_warning_for_rounded_neutral` hold (here with exact
    products and an exact sum, u = 0) -/
example : notNeutral (0 : ℝ) (12 / 10) = false :=
  no_warning_for_rounded_neutral 0 le_rfl (by norm_num) [(1 / 10, 3), (3 / 10, -1)]
    (by intro q hq; simp only [List.mem_cons, List.not_mem_nil, or_false] at hq; rcases hq with rfl | rfl <;> norm_num)
    (by intro q hq; simp only [List.mem_cons, List.not_mem_nil, or_false] at hq; rcases hq with rfl | rfl <;> norm_num)
    (by simp) (by simp [sumNet]; norm_num)
    [3 / 10, -(3 / 10)]
    (List.Forall₂.cons ⟨0, 0, by simp, by simp, by norm_num⟩ (List.Forall₂.cons ⟨0, 0, by simp, by simp, by norm_num⟩ List.Forall₂.nil))
    0 (by
      have h := FlSum.snoc (u := 0) [3 / 10] (-(3 / 10)) (3 / 10) 0 (FlSum.single _) ⟨0, by simp, by norm_num⟩
      simpa using h)
    (12 / 10) (by simp [sumTot]; norm_num)

/-- the floating-point test has outcomes (here the exact evaluation, u = 0, of net = 0, tot = 1.2): `NotNeutralFl` is satisfiable -/
example : NotNeutralFl 0 0 (12 / 10) false :=
  ⟨1 / 10 ^ 8, 1 / 10 ^ 14, 0, 12 / 10 * (1 / 10 ^ 14), 12 / 10 * (1 / 10 ^ 14), 0,
    ⟨0, by simp, by ring⟩, ⟨0, by simp, by ring⟩, ⟨0, by simp, by simp⟩, ⟨0, by simp, by ring⟩, ⟨0, by simp, by ring⟩,
    ⟨0, by simp, by simp⟩, by
      have : (0 : ℝ) ≤ 12 / 10 * (1 / 10 ^ 14) := by positivity
      simp [this]⟩

/-- `{'Mg+2': 6, 'PO4-3': 4}` and `{'PO4-3': 4, 'Mg+2': 6}` give the same result: an instance of `dict_perm_invariant_default` -/
example : ionicStrengthDict [("Mg+2".toList, (6 : ℝ)), ("PO4-3".toList, 4)] true
    = ionicStrengthDict [("PO4-3".toList, (4 : ℝ)), ("Mg+2".toList, 6)] true :=
  (dict_perm_invariant_default (fun k => if k = "Mg+2".toList then 2 else -3)
    [("Mg+2".toList, (6 : ℝ)), ("PO4-3".toList, 4)] [("PO4-3".toList, (4 : ℝ)), ("Mg+2".toList, 6)] true
    (List.Perm.swap _ _ []) (by simp) (by
      intro kv hkv
      simp only [List.mem_cons, List.not_mem_nil, or_false] at hkv
      rcases hkv with rfl | rfl
      · exact ⟨by decide, by decide, by decide +kernel⟩
      · exact ⟨by decide, by decide, by decide +kernel⟩)).1

/-- water at 20 °C lies in the domain of `A_paths_agree` / `B_paths_agree` -/
example : |aConst (80.1 : ℝ) 293.15 998.2071 1 constFaraday constAvogadro constVacuumPermittivity constBoltzmann constPi
    / aNum 80.1 293.15 998.2071 1 - 1| < 1 / 10 ^ 14 :=
  A_paths_agree (by norm_num) (by norm_num) (by norm_num) (by norm_num)

end ChemModel.C18
