import ChemModel.Proofs.RSysGraph

namespace ChemModel.C15
open ChemModel.RSysGraph

theorem placeholder : (1 : Nat) = 1 := rfl

end ChemModel.C15
