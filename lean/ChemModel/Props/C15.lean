/-
C15 — structural queries on a reaction system match its reaction graph.

Property theorems only; the model is `Model/RSysGraph.lean` (a mirror of chempy/reactionsystem.py),
helper lemmas and the specification-level notions (`Adj`, `Reach`, `elemTotal`, `compsOf`, `Rxn.positive`, `okeys`)
are in `Proofs/RSysGraph.lean`.
-/
import ChemModel.Proofs.RSysGraph

namespace ChemModel.C15
open ChemModel.RSysGraph

/-! ## split

`splitGroups ks` is the list of `(reaction indices, substance keys)` groups that `ReactionSystem.split` computes
(greedy grouping, then the pairwise fusion loop) for reactions whose key sets are `ks`. -/

/-- "sub-systems whose reaction lists partition the original reactions": every reaction index `0..nr-1` occurs in
exactly one group, exactly once -/
theorem split_partition (ks : List (List String)) :
    ((splitGroups ks).flatMap (·.1)).Perm (List.range ks.length) :=
  (splitGroups_inv ks).2.1

/-- "whose substance sets are pairwise disjoint" — the exit condition of the fusion loop as an invariant -/
theorem split_disjoint (ks : List (List String)) :
    (splitGroups ks).Pairwise (fun g h => ∀ k, k ∈ g.2 → k ∉ h.2) :=
  (splitGroups_inv ks).2.2

/-- the substance set of a group is exactly the union of the key sets of its reactions -/
theorem split_substances (ks : List (List String)) (g : Group) (hg : g ∈ splitGroups ks) (k : String) :
    k ∈ g.2 ↔ ∃ a ∈ g.1, k ∈ keysAt ks a :=
  ((splitGroups_inv ks).1 g hg).keys k

/-- "each connected through shared species": any two reactions of a group are linked by a chain of reactions OF THAT
GROUP in which consecutive reactions share a species -/
theorem split_connected (ks : List (List String)) (g : Group) (hg : g ∈ splitGroups ks) :
    ∀ a ∈ g.1, ∀ b ∈ g.1, Reach ks g.1 a b :=
  ((splitGroups_inv ks).1 g hg).conn

/-- "one per connected component": two reactions end up in the same group iff they are connected in the reaction
graph of the whole system (transitive fusion, whatever the order of the reactions) -/
theorem split_components (ks : List (List String)) (a b : Nat) (ha : a < ks.length) :
    (∃ g ∈ splitGroups ks, a ∈ g.1 ∧ b ∈ g.1) ↔ Reach ks (List.range ks.length) a b := by
  obtain ⟨hok, hperm, hdisj⟩ := splitGroups_inv ks
  have hsub : ∀ g ∈ splitGroups ks, ∀ x ∈ g.1, x ∈ List.range ks.length := by
    intro g hg x hx
    exact hperm.subset (mem_flatIdx.mpr ⟨g, hg, hx⟩)
  have hcover : ∀ x, x ∈ List.range ks.length → ∃ g ∈ splitGroups ks, x ∈ g.1 := by
    intro x hx
    exact mem_flatIdx.mp (hperm.symm.subset hx)
  constructor
  · rintro ⟨g, hg, hag, hbg⟩
    exact ((hok g hg).conn a hag b hbg).mono (hsub g hg)
  · intro h
    induction h with
    | refl =>
      obtain ⟨g, hg, hx⟩ := hcover a (by simpa using ha)
      exact ⟨g, hg, hx, hx⟩
    | tail hab hc hadj ih =>
      rename_i b c
      obtain ⟨g, hg, hag, hbg⟩ := ih
      obtain ⟨g', hg', hcg'⟩ := hcover c hc
      obtain ⟨k, hkb, hkc⟩ := hadj
      have h1 : k ∈ g.2 := ((hok g hg).keys k).mpr ⟨b, hbg, hkb⟩
      have h2 : k ∈ g'.2 := ((hok g' hg').keys k).mpr ⟨c, hcg', hkc⟩
      by_cases e : g = g'
      · subst e; exact ⟨g, hg, hag, hcg'⟩
      · exact absurd h2 (pairwise_disj_forall hdisj hg hg' e k h1)

/-- "regardless of reaction order": list the same reactions in another order (`σ` sends the position of a reaction in
`ks` to its position in `ks'`, `τ` back); then two reactions are grouped together by `split` of the one list iff they
are by `split` of the other. -/
theorem split_order_independent (ks ks' : List (List String)) (σ τ : Nat → Nat) (hlen : ks'.length = ks.length)
    (hσ : ∀ a, a < ks.length → σ a < ks.length ∧ keysAt ks' (σ a) = keysAt ks a ∧ τ (σ a) = a)
    (hτ : ∀ b, b < ks.length → τ b < ks.length ∧ σ (τ b) = b)
    (a b : Nat) (ha : a < ks.length) (hb : b < ks.length) :
    (∃ g ∈ splitGroups ks, a ∈ g.1 ∧ b ∈ g.1) ↔ (∃ g ∈ splitGroups ks', σ a ∈ g.1 ∧ σ b ∈ g.1) := by
  rw [split_components ks a b ha, split_components ks' (σ a) (σ b) (by rw [hlen]; exact (hσ a ha).1), hlen]
  constructor
  · intro h
    exact Reach.relabel σ (fun c hc => ⟨(hσ c hc).1, (hσ c hc).2.1⟩) ha h
  · intro h
    have := Reach.relabel (ks := ks') (ks' := ks) τ (fun c hc => ⟨(hτ c hc).1, by
      have := (hσ (τ c) (hτ c hc).1).2.1
      rw [(hτ c hc).2] at this
      exact this.symm⟩) (hσ a ha).1 h
    rwa [(hσ a ha).2.2, (hσ b hb).2.2] at this

/-- "one per connected component", as a count: the groups are non-empty, no reaction index lies in two of them, and taking the
first reaction of every group gives a complete system of representatives of the connectivity classes of the reaction graph (every
reaction is connected to exactly one of them, no two of them are connected): #groups = #components. -/
theorem split_count (ks : List (List String)) :
    (∀ g ∈ splitGroups ks, g.1 ≠ []) ∧
    (splitGroups ks).Pairwise (fun g h => ∀ x ∈ g.1, x ∉ h.1) ∧
    ∃ reps : List Nat, reps.length = (splitGroups ks).length ∧ (∀ r ∈ reps, r < ks.length) ∧
      (∀ a, a < ks.length → ∃ r ∈ reps, Reach ks (List.range ks.length) r a) ∧
      reps.Pairwise (fun r r' => ¬ Reach ks (List.range ks.length) r r') := by
  obtain ⟨hok, hperm, _⟩ := splitGroups_inv ks
  exact ⟨fun g hg => (hok g hg).nonempty,
    idx_pairwise _ (hperm.nodup_iff.mpr List.nodup_range), splitGroups_reps ks⟩

/-- the groups are non-empty and distinct as sets of reactions, so their number is the number of connected
components: no reaction index lies in two groups -/
theorem split_groups_unique (ks : List (List String)) (g h : Group) (hg : g ∈ splitGroups ks) (hh : h ∈ splitGroups ks)
    (a : Nat) (hag : a ∈ g.1) (hah : a ∈ h.1) (hkeys : keysAt ks a ≠ []) : g = h := by
  obtain ⟨hok, _, hdisj⟩ := splitGroups_inv ks
  by_contra hne
  obtain ⟨k, hk⟩ := List.exists_mem_of_ne_nil _ hkeys
  exact pairwise_disj_forall hdisj hg hh hne k (((hok g hg).keys k).mpr ⟨a, hag, hk⟩)
    (((hok h hh).keys k).mpr ⟨a, hah, hk⟩)

/-- the sub-systems returned by `rsys.split(checks=…)`: one per group, holding the group's reactions (in the group's
order) and, in the parent's order, exactly the parent's substances of the group's substance set; each passes the
requested checks. With `checks=()` split never raises (in particular `self.rxns[ri]` is never out of range). -/
theorem split_systems (s : RSys) (checks : List Check) (l : List (List Nat × RSys)) (h : split s checks = .ok l) :
    List.Forall₂ (PartOf s) (splitGroups (s.rxns.map Rxn.keys)) l ∧
    (∀ p ∈ l, ∀ c ∈ checks, runCheck p.2 c = true) ∧
    ∃ l', split s [] = .ok l' := by
  obtain ⟨h1, h2⟩ := buildGroups_ok h
  refine ⟨h1, h2, ?_⟩
  apply buildGroups_nochecks
  intro g hg a ha
  have := (splitGroups_inv (s.rxns.map Rxn.keys)).2.1.subset (mem_flatIdx.mpr ⟨g, hg, ha⟩)
  simpa using this

/-! ## categorize_substances

`expand rxns` is the list of irreversible reactions `categorize_substances` works on: a plain `Reaction` is kept, an
`Equilibrium` is replaced by the forward and backward reaction of `as_reactions()`. -/

/-- `Equilibrium.as_reactions()` (no arguments): it succeeds exactly when the parameter is a pair `(kf, kb)` and the
equilibrium has a net effect on some species; the forward reaction has the equilibrium's four stoichiometry dicts, the
backward one has reactants and products swapped **in the active and in the inactive part**. Hence, for every species, the
backward net stoichiometry is the negative of the forward one, total reactant/product stoichiometries are swapped, and
`identify_equilibria` pairs them. -/
theorem as_reactions_spec (r : Rxn) :
    ((∃ p, r.asReactions = .ok p) ↔ r.param.isSome ∧ r.paramB.isSome ∧ r.anyEffect = true) ∧
    ∀ f b, r.asReactions = .ok (f, b) →
      (f.reac = r.reac ∧ f.prod = r.prod ∧ f.inactReac = r.inactReac ∧ f.inactProd = r.inactProd) ∧
      (b.reac = r.prod ∧ b.prod = r.reac ∧ b.inactReac = r.inactProd ∧ b.inactProd = r.inactReac) ∧
      (∀ k, f.net k = r.net k ∧ b.net k = - r.net k ∧
        b.allReac k = f.allProd k ∧ b.allProd k = f.allReac k) ∧
      (∀ keys, isReverse keys f b = true) ∧
      f.param = r.param ∧ b.param = r.paramB ∧ f.name = r.name ∧ b.name = none := by
  refine ⟨asReactions_ok_iff r, ?_⟩
  intro f b h
  obtain ⟨h1, h2, h3, h4, h5, h6, h7, h8, h9, h10, h11, h12, _⟩ := asReactions_spec h
  refine ⟨⟨h1, h2, h3, h4⟩, ⟨h5, h6, h7, h8⟩, ?_, ?_, h9, h10, h11, h12⟩
  · intro k
    refine ⟨?_, ?_, ?_, ?_⟩ <;> simp only [Rxn.net, Rxn.allReac, Rxn.allProd, h1, h2, h3, h4, h5, h6, h7, h8] <;> omega
  · intro keys
    rw [isReverse_iff]
    intro k _
    constructor <;> simp only [Rxn.allReac, Rxn.allProd, h1, h2, h3, h4, h5, h6, h7, h8]

/-- the expansion: it succeeds iff `as_reactions()` succeeds for every equilibrium of the system; it is the identity
on systems of plain reactions; and its members are exactly the plain reactions and the forward/backward reactions of the
equilibria -/
theorem expand_spec (rxns : List Rxn) :
    ((∃ ex, expand rxns = .ok ex) ↔ ∀ r ∈ rxns, r.isEq = true → r.param.isSome ∧ r.paramB.isSome ∧ r.anyEffect = true) ∧
    ((∀ r ∈ rxns, r.isEq = false) → expand rxns = .ok rxns) ∧
    ∀ ex, expand rxns = .ok ex → ∀ x, x ∈ ex ↔ (x ∈ rxns ∧ x.isEq = false) ∨
      ∃ r ∈ rxns, r.isEq = true ∧ ∃ f b, r.asReactions = .ok (f, b) ∧ (x = f ∨ x = b) := by
  refine ⟨?_, expand_plain, fun ex h x => mem_expand h x⟩
  rw [expand_ok_iff]
  constructor
  · intro h r hr he; exact (asReactions_ok_iff r).mp (h r hr he)
  · intro h r hr he; exact (asReactions_ok_iff r).mpr (h r hr he)

/-- "categorising substances returns exactly the species that are only ever net-produced (accumulated), only
net-consumed (depleted), present with zero net effect (unaffected), or absent (nonparticipating)" — over the expanded
(irreversible) reactions `ex`. `categorize_substances(checks=())` succeeds exactly when the expansion does.
Read off the code: "present" / "absent" are decided by the COEFFICIENTS (`all_prod > 0` somewhere / all
coefficients zero), see `nonparticipating_iff_absent` for the relation to `Reaction.keys()`.
A substance that is net-produced by one reaction and net-consumed by another is in no category (`categorize_both`). -/
theorem categorize_spec (s : RSys) (checks : List Check) (c : Categories) (h : categorize s checks = .ok c) :
    ∃ ex, expand s.rxns = .ok ex ∧ ∀ k : String,
    (k ∈ c.accumulated ↔ k ∈ s.keys ∧ (∃ r ∈ ex, 0 < r.net k) ∧ ∀ r ∈ ex, 0 ≤ r.net k) ∧
    (k ∈ c.depleted ↔ k ∈ s.keys ∧ (∃ r ∈ ex, r.net k < 0) ∧ ∀ r ∈ ex, r.net k ≤ 0) ∧
    (k ∈ c.unaffected ↔ k ∈ s.keys ∧ (∀ r ∈ ex, r.net k = 0) ∧ ∃ r ∈ ex, 0 < r.allProd k) ∧
    (k ∈ c.nonparticipating ↔ k ∈ s.keys ∧ ∀ r ∈ ex, r.allReac k = 0 ∧ r.allProd k = 0) := by
  obtain ⟨ex, hex, h1, h2, h3, h4, _⟩ := categorize_ok h
  refine ⟨ex, hex, fun k => ?_⟩
  rw [h1, h2, h3, h4]
  simp [List.mem_filter, categoryOf_accumulated, categoryOf_depleted,
    categoryOf_unaffected, categoryOf_nonparticipating]

/-- when does it answer: with `checks=()` exactly when every equilibrium member can be expanded (pair parameter, some net
effect); in particular always for systems of plain reactions — also for a system without reactions, where every
substance is nonparticipating (repaired by the fix "stoichiometry matrices of a system without reactions are
two-dimensional"; before it numpy raised IndexError on `net[:, i]`). -/
theorem categorize_ok_iff (s : RSys) :
    ((∃ c, categorize s [] = .ok c) ↔
      ∀ r ∈ s.rxns, r.isEq = true → r.param.isSome ∧ r.paramB.isSome ∧ r.anyEffect = true) ∧
    ∀ substs : ODict, categorize ⟨[], substs⟩ [] = .ok ⟨[], [], [], substs.map (·.1)⟩ := by
  refine ⟨?_, fun substs => ?_⟩
  · rw [categorize_nochecks_iff, (expand_spec s.rxns).1]
  · simp [categorize, expand, make_odict_nochecks, categoryOf, RSys.keys]

/-- … and with requested checks: `categorize_substances(checks=cs)` answers exactly when the equilibria can be expanded and the
expanded (irreversible) system passes every requested check -/
theorem categorize_checks_ok_iff' (s : RSys) (checks : List Check) :
    (∃ c, categorize s checks = .ok c) ↔
      ∃ ex, expand s.rxns = .ok ex ∧ ∀ ch ∈ checks, runCheck ⟨ex, s.substs⟩ ch = true :=
  categorize_checks_ok_iff s checks

/-- the four categories are pairwise disjoint, and a substance is in none of them exactly when it is net-consumed by
one (expanded) reaction and net-produced by another -/
theorem categorize_both (s : RSys) (checks : List Check) (c : Categories) (h : categorize s checks = .ok c) (k : String)
    (hk : k ∈ s.keys) :
    ∃ ex, expand s.rxns = .ok ex ∧
    (k ∉ c.accumulated ∧ k ∉ c.depleted ∧ k ∉ c.unaffected ∧ k ∉ c.nonparticipating ↔
      (∃ r ∈ ex, r.net k < 0) ∧ ∃ r ∈ ex, 0 < r.net k) ∧
    ¬ (k ∈ c.accumulated ∧ k ∈ c.depleted) ∧ ¬ (k ∈ c.accumulated ∧ k ∈ c.unaffected) ∧
    ¬ (k ∈ c.accumulated ∧ k ∈ c.nonparticipating) ∧ ¬ (k ∈ c.depleted ∧ k ∈ c.unaffected) ∧
    ¬ (k ∈ c.depleted ∧ k ∈ c.nonparticipating) ∧ ¬ (k ∈ c.unaffected ∧ k ∈ c.nonparticipating) := by
  obtain ⟨ex, hex, h1, h2, h3, h4, _⟩ := categorize_ok h
  refine ⟨ex, hex, ?_⟩
  rw [h1, h2, h3, h4, ← categoryOf_both]
  simp only [List.mem_filter, hk, true_and, decide_eq_true_eq]
  cases categoryOf ex k <;> simp

/-- a species on which an `Equilibrium` member has a net effect is both produced and consumed (by its two directions):
it is in none of the four categories — whether it is an active or an inactive participant -/
theorem categorize_equilibrium_member (s : RSys) (checks : List Check) (c : Categories)
    (h : categorize s checks = .ok c) (r : Rxn) (hr : r ∈ s.rxns) (he : r.isEq = true) (k : String) (hnet : r.net k ≠ 0) :
    k ∉ c.accumulated ∧ k ∉ c.depleted ∧ k ∉ c.unaffected ∧ k ∉ c.nonparticipating := by
  obtain ⟨ex, hex, hspec⟩ := categorize_spec s checks c h
  obtain ⟨p, hp⟩ := (expand_ok_iff s.rxns).mp ⟨ex, hex⟩ r hr he
  obtain ⟨f, b⟩ := p
  have hf : f ∈ ex := (mem_expand hex f).mpr (Or.inr ⟨r, hr, he, f, b, hp, Or.inl rfl⟩)
  have hb : b ∈ ex := (mem_expand hex b).mpr (Or.inr ⟨r, hr, he, f, b, hp, Or.inr rfl⟩)
  obtain ⟨hfn, hbn, _, _⟩ := ((as_reactions_spec r).2 f b hp).2.2.1 k
  obtain ⟨s1, s2, s3, s4⟩ := hspec k
  have aux1 : ∀ x y z : Int, x = z → y = -z → 0 ≤ x → 0 ≤ y → z ≠ 0 → False := by intros; omega
  have aux2 : ∀ x y z : Int, x = z → y = -z → x ≤ 0 → y ≤ 0 → z ≠ 0 → False := by intros; omega
  refine ⟨fun hk => ?_, fun hk => ?_, fun hk => ?_, fun hk => ?_⟩
  · exact aux1 _ _ _ hfn hbn ((s1.mp hk).2.2 f hf) ((s1.mp hk).2.2 b hb) hnet
  · exact aux2 _ _ _ hfn hbn ((s2.mp hk).2.2 f hf) ((s2.mp hk).2.2 b hb) hnet
  · exact hnet (hfn ▸ (s3.mp hk).2.1 f hf)
  · have h1 := (s4.mp hk).2 f hf
    have : f.net k = 0 := by rw [Rxn.net_eq, h1.1, h1.2]; rfl
    exact hnet (hfn ▸ this)

/-- plain reactions only, no zero coefficient written: "nonparticipating" is exactly "in no reaction's key set"
(i.e. `substance_participation` is empty) -/
theorem nonparticipating_iff_absent (s : RSys) (checks : List Check) (c : Categories) (h : categorize s checks = .ok c)
    (hplain : ∀ r ∈ s.rxns, r.isEq = false) (hpos : ∀ r ∈ s.rxns, r.positive) (k : String) :
    k ∈ c.nonparticipating ↔ k ∈ s.keys ∧ substanceParticipation s k = [] := by
  obtain ⟨ex, hex, hspec⟩ := categorize_spec s checks c h
  rw [expand_plain hplain] at hex
  simp only [Except.ok.injEq] at hex
  subst hex
  rw [(hspec k).2.2.2]
  apply and_congr_right
  intro _
  rw [List.eq_nil_iff_forall_not_mem]
  constructor
  · intro hall a ha
    obtain ⟨r, _, hr, hk⟩ := (participationFrom_spec k 0 s.rxns a).mp ha
    have hmem := List.mem_of_getElem? hr
    have := Rxn.pos_of_mem_keys (hpos r hmem) hk
    have := hall r hmem
    omega
  · intro hnone r hr
    obtain ⟨i, hi, rfl⟩ := List.mem_iff_getElem.mp hr
    have hnk : k ∉ (s.rxns[i]).keys := by
      intro hk
      exact hnone i ((participationFrom_spec k 0 s.rxns i).mpr ⟨s.rxns[i], by omega, by simp [hi], hk⟩)
    constructor
    · by_contra hne
      exact hnk (Rxn.mem_keys_of_pos (Or.inl (by omega)))
    · by_contra hne
      exact hnk (Rxn.mem_keys_of_pos (Or.inr (by omega)))

/-- DEVIATION (mirrors the code): with an explicit zero coefficient the two queries disagree —
`Reaction({'A': 0, 'B': 1}, {'C': 1})`: `substance_participation('A') == [0]` but `A` is "nonparticipating". -/
theorem nonparticipating_zero_coefficient_witness :
    let r : Rxn := { reac := [("A", 0), ("B", 1)], prod := [("C", 1)] }
    let s : RSys := ⟨[r], [("A", {name := "A"}), ("B", {name := "B"}), ("C", {name := "C"})]⟩
    substanceParticipation s "A" = [0] ∧
      (categorize s []).toOption.map (·.nonparticipating) = some ["A"] := by
  decide

/-! ## identify_equilibria, substance_participation, per_reaction_effect_on_substance -/

/-- forward/backward pairs: `(a, b)` is reported iff `b` is the FIRST reaction after `a` whose total reactant /
product stoichiometries (over the system's substances) are those of `a` swapped -/
theorem identify_equilibria_spec (s : RSys) (a b : Nat) :
    (a, b) ∈ identifyEquilibria s ↔
      ∃ r1 r2, s.rxns[a]? = some r1 ∧ s.rxns[b]? = some r2 ∧ a < b ∧
        (∀ k ∈ s.keys, r1.allReac k = r2.allProd k ∧ r1.allProd k = r2.allReac k) ∧
        ∀ c r, a < c → c < b → s.rxns[c]? = some r → isReverse s.keys r1 r = false := by
  simp only [identifyEquilibria, identEqFrom_spec, Nat.zero_le, Nat.sub_zero, true_and, firstReverse_spec,
    List.getElem?_drop, ← isReverse_iff]
  constructor
  · rintro ⟨r1, h1, d, r2, hb, hd, hrev, hmin⟩
    refine ⟨r1, r2, h1, by rw [hb]; exact hd, by omega, hrev, ?_⟩
    intro c r hac hcb hc
    refine hmin (c - (a + 1)) r (by omega) ?_
    rw [show a + 1 + (c - (a + 1)) = c by omega]; exact hc
  · rintro ⟨r1, r2, h1, h2, hab, hrev, hmin⟩
    refine ⟨r1, h1, b - (a + 1), r2, by omega, by rw [show a + 1 + (b - (a + 1)) = b by omega]; exact h2, hrev, ?_⟩
    intro d' r' hd' hr'
    exact hmin (a + 1 + d') r' (by omega) (by omega) hr'

/-- `substance_participation(k)`: exactly the indices of the reactions having `k` among their keys, ascending -/
theorem participation_spec (s : RSys) (k : String) :
    (∀ a, a ∈ substanceParticipation s k ↔ ∃ r, s.rxns[a]? = some r ∧ k ∈ r.keys) ∧
    (substanceParticipation s k).Pairwise (· < ·) := by
  refine ⟨fun a => ?_, (participationFrom_sorted k 0 s.rxns).1⟩
  simp [substanceParticipation, participationFrom_spec]

/-- `per_reaction_effect_on_substance(k)`: exactly the reactions with non-zero net stoichiometry of `k`, with that
net stoichiometry, in index order -/
theorem effect_spec (s : RSys) (k : String) :
    (∀ a n, (a, n) ∈ perReactionEffectOnSubstance s k ↔ ∃ r, s.rxns[a]? = some r ∧ n = r.net k ∧ n ≠ 0) ∧
    ((perReactionEffectOnSubstance s k).map (·.1)).Pairwise (· < ·) := by
  refine ⟨fun a n => ?_, (effectFrom_sorted k 0 s.rxns).1⟩
  simp [perReactionEffectOnSubstance, effectFrom_spec]

/-! ## subset and sums -/

/-- `subset(pred)`: the first system holds exactly the reactions satisfying the predicate, the second the others (both
in the original order, together a permutation of the original list); each keeps, in the parent's order, exactly the
substances occurring in one of its reactions. With `checks=()` (the default) it never raises. -/
theorem subset_spec (s : RSys) (pred : Rxn → Bool) (checks : List Check) (y n : RSys)
    (h : subset s pred checks = .ok (y, n)) :
    y.rxns = s.rxns.filter pred ∧ n.rxns = s.rxns.filter (fun r => !pred r) ∧
    (y.rxns ++ n.rxns).Perm s.rxns ∧
    (∀ kv, kv ∈ y.substs ↔ kv ∈ s.substs ∧ ∃ r ∈ y.rxns, kv.1 ∈ r.keys) ∧
    (∀ kv, kv ∈ n.substs ↔ kv ∈ s.substs ∧ ∃ r ∈ n.rxns, kv.1 ∈ r.keys) ∧
    y.substs.Sublist s.substs ∧ n.substs.Sublist s.substs ∧
    subset s pred [] = .ok (y, n) := by
  obtain ⟨rfl, rfl, _, _⟩ := subset_ok h
  refine ⟨rfl, rfl, ?_, fun kv => mem_newSubstances _ _ _, fun kv => mem_newSubstances _ _ _,
    List.filter_sublist, List.filter_sublist, subset_nochecks s pred⟩
  exact List.filter_append_perm pred s.rxns

/-- `a + b` (and `a += b`): the reactions of both in order; the substances of `a` in their order followed by the new
ones of `b` in theirs; on a common key the Substance object of `b` wins; keys stay unique. -/
theorem add_spec (a b : RSys) (ha : a.keys.Nodup) (hb : b.keys.Nodup) :
    (add a b).rxns = a.rxns ++ b.rxns ∧
    (add a b).keys = a.keys ++ b.keys.filter (fun k => !a.keys.contains k) ∧
    (∀ k, (add a b).substs.lookup k = (b.substs.lookup k).or (a.substs.lookup k)) ∧
    (add a b).keys.Nodup ∧
    iadd a b = add a b := by
  rw [add_eq_iadd a b ha]
  refine ⟨rfl, ?_, ?_, ?_, rfl⟩
  · exact okeys_odictUpdate a.substs b.substs hb
  · exact fun k => lookup_odictUpdate a.substs b.substs hb k
  · exact odictUpdate_nodup a.substs b.substs ha

/-- `ReactionSystem.concatenate([first, …rest])` (repaired code: `rsys = rsys + yes`): nothing is lost or invented (sum and
duplicates together are a permutation of all reactions), the first system's reactions come first, every skipped reaction has a
stoichiometric twin in the sum. (The step-by-step description — reactions AND substances as the fold of `concatSpecStep` — is
`foldl_concatStep_eq` / `foldl_concatRxns_of_steps` in Proofs.) The substances of the sum start with those of
`first` in order and stay unique. A one-element list returns that element itself and an empty duplicates system; an empty
list raises. (That no argument is modified is a statement about Python object identity: it is checked by the history
oracle, not expressible for this pure model; see `runOp_prefix` in Proofs.) -/
theorem concatenate_spec (first : RSys) (rest : List RSys) (hn : first.keys.Nodup) :
    ∃ sum dups, concatenate (first :: rest) = some (sum, dups) ∧
      -- what a user needs: nothing is lost or invented, the first system comes first, every skipped reaction has a
      -- stoichiometric twin in the sum
      (sum.rxns ++ dups.rxns).Perm ((first :: rest).flatMap (·.rxns)) ∧
      first.rxns <+: sum.rxns ∧
      (∀ d ∈ dups.rxns, ∃ r ∈ sum.rxns, d.sameStoich r = true) ∧
      sum.keys.Nodup ∧ first.keys <+: sum.keys ∧
      (rest = [] → sum = first ∧ dups = ⟨[], []⟩) ∧ concatenate [] = none := by
  obtain ⟨h1, h2, h3⟩ := foldl_concatStep_eq rest (first, ⟨[], []⟩) hn
  have hr := foldl_concatRxns_of_steps rest (first, ⟨[], []⟩)
  obtain ⟨p1, p2, p3⟩ := foldl_concatRxns_spec rest (first.rxns, [])
  rw [← hr] at p1 p2 p3
  refine ⟨_, _, rfl, ?_, p1, ?_, h2, h3, ?_, rfl⟩
  · simpa using p2
  · intro d hd
    rcases p3 d hd with h | h
    · simp at h
    · exact h
  · intro h; subst h; exact ⟨rfl, rfl⟩

/-! ## as_substance_index, __eq__ -/

/-- `as_substance_index(key)`: the position of the key in substance order (the first one, keys being unique), ValueError
exactly for an unknown key -/
theorem substance_index_spec (s : RSys) (k : String) :
    (∀ i, asSubstanceIndex s k = some i → s.keys[i]? = some k ∧ ∀ j, j < i → s.keys[j]? ≠ some k) ∧
    (asSubstanceIndex s k = none ↔ k ∉ s.keys) ∧
    (k ∈ s.keys → ∃ i, asSubstanceIndex s k = some i) := by
  refine ⟨fun i h => asSubstanceIndex_some h, asSubstanceIndex_none s k, ?_⟩
  intro hk
  cases h : asSubstanceIndex s k with
  | none => exact absurd hk ((asSubstanceIndex_none s k).mp h)
  | some i => exact ⟨i, rfl⟩

/-! ## per-substance arrays and dictionaries -/

/-- array → dict → array is the identity (for an array of the right length), in substance order -/
theorem array_dict_roundtrip {α : Type} (s : RSys) (arr : List α) (hk : s.keys.Nodup) (hl : arr.length = s.ns)
    (raiseOnUnk : Bool) :
    asPerSubstanceArrayList s arr = .ok arr ∧
    asPerSubstanceArrayDict s (asPerSubstanceDict s arr) raiseOnUnk = .ok arr := by
  constructor
  · simp [asPerSubstanceArrayList, hl]
  · have hl' : arr.length = s.keys.length := by simpa [RSys.keys, RSys.ns] using hl
    have h1 := (lookupAll_eq_some (s.keys.zip arr) s.keys arr).mpr (map_lookup_zip s.keys arr hk hl')
    have h0 := zip_keys_all_known s.keys arr
    simp only [asPerSubstanceArrayDict, asPerSubstanceDict, h0, h1, Bool.and_false]
    simp

/-- dict → array lists the dict's values in substance order (so dict → array → dict is the dict restricted to the
substances, in substance order) -/
theorem dict_array_roundtrip {α : Type} (s : RSys) (d : List (String × α)) (raiseOnUnk : Bool) (arr : List α)
    (h : asPerSubstanceArrayDict s d raiseOnUnk = .ok arr) :
    arr.length = s.ns ∧ s.keys.map (fun k => d.lookup k) = arr.map some ∧
    (asPerSubstanceDict s arr).map (·.1) = s.keys := by
  simp only [asPerSubstanceArrayDict] at h
  split at h
  · simp at h
  · split at h
    · simp at h
    · rename_i l hl
      simp only [Except.ok.injEq] at h
      subst h
      have := (lookupAll_eq_some d s.keys l).mp hl
      have hlen : l.length = s.keys.length := by
        have := congrArg List.length this; simpa using this.symm
      refine ⟨by simpa [RSys.keys, RSys.ns] using hlen, this, ?_⟩
      simp only [asPerSubstanceDict]
      rw [List.map_fst_zip]
      omega

/-- `per_substance_varied(base, varied)`: it answers exactly when `base` has one entry per substance and every varied key is a
substance. Then the varied keys are reported in SUBSTANCE order; there is one row per combination of levels (the product of the
numbers of levels); every row has one entry per substance, which is the base value for a substance that is not varied and one of
the levels of that substance for a varied one. (Row order: C order with the first varied substance slowest — that is the
definition of `variedRows`, compared exactly with numpy by the correspondence.) -/
theorem varied_spec {α : Type} (s : RSys) (base : List α) (varied : List (String × List α)) (hk : s.keys.Nodup) :
    ((∃ r, perSubstanceVaried s base varied = .ok r) ↔ base.length = s.ns ∧ ∀ kv ∈ varied, kv.1 ∈ s.keys) ∧
    ∀ rows vkeys, perSubstanceVaried s base varied = .ok (rows, vkeys) →
      vkeys = s.keys.filter (fun k => varied.any fun kv => kv.1 == k) ∧
      rows.length = (vkeys.map fun k => match varied.lookup k with | some vals => vals.length | none => 1).prod ∧
      ∀ row ∈ rows, row.length = s.ns ∧
        ∀ (j : Nat) (k : String) (x : α), s.keys[j]? = some k → row[j]? = some x →
          ((∀ kv ∈ varied, kv.1 ≠ k) → base[j]? = some x) ∧
          (∀ vals, varied.lookup k = some vals → x ∈ vals) :=
  ⟨perSubstanceVaried_ok_iff s base varied, fun rows vkeys h => perSubstanceVaried_spec s base varied rows vkeys hk h⟩

/-- the docstring example of `per_substance_varied`: C varied over 4 levels, A and B fixed -/
example :
    perSubstanceVaried ⟨[], ["A", "B", "C"].map fun k => (k, { name := k })⟩ [2, 3, 5] [("C", [5, 7, 9, 11])] =
      .ok ([[2, 3, 5], [2, 3, 7], [2, 3, 9], [2, 3, 11]], ["C"]) := by
  decide

/-! ## upper_conc_bounds -/

/-- "the elemental upper bound of each species is the least of (element total)/(atoms per molecule)":
with the default `skip_keys=(0,)` the bound of substance `i` is attained by one of its elements and is ≤ the quotient
of every one of its elements; it is `inf` exactly when the composition lists no element (only charge, or nothing). -/
theorem upper_bound_least (s : RSys) (init : List Rat) (bs : List (Option Rat))
    (h : upperConcBounds s init [0] = .ok bs) :
    bs.length = s.ns ∧ (compsOf s).length = s.ns ∧
    ∀ (i : Nat) (comp : Comp), (compsOf s)[i]? = some comp →
      (∀ b, bs[i]? = some (some b) →
        (∃ k v, (k, v) ∈ comp ∧ k ≠ 0 ∧ b = elemTotal s init k / (v : Rat)) ∧
        ∀ k v, (k, v) ∈ comp → k ≠ 0 → b ≤ elemTotal s init k / (v : Rat)) ∧
      (bs[i]? = some none ↔ ∀ kv ∈ comp, kv.1 = 0) := by
  obtain ⟨hlen, hclen, hloop⟩ := upperConcBounds_ok h
  obtain ⟨hbl, hspec⟩ := boundsLoop_spec hloop
  refine ⟨by omega, hclen, ?_⟩
  intro i comp hi
  obtain ⟨l, hl, hb⟩ := hspec i comp hi
  obtain ⟨hmem, _⟩ := chooseFrom_spec hl
  constructor
  · intro b hbi
    rw [hb] at hbi
    simp only [Option.some.injEq] at hbi
    obtain ⟨h1, h2⟩ := boundOf_some hbi
    refine ⟨(hmem b).mp h1, ?_⟩
    intro k v hkv hk
    exact h2 _ ((hmem _).mpr ⟨k, v, hkv, hk, rfl⟩)
  · rw [hb]
    simp only [Option.some.injEq, boundOf_none]
    constructor
    · intro hnil kv hkv
      by_contra hne
      have : elementTotal [0] (init.zip (compsOf s)) kv.1 / (kv.2 : Rat) ∈ l :=
        (hmem _).mpr ⟨kv.1, kv.2, hkv, hne, rfl⟩
      rw [hnil] at this; simp at this
    · intro hall
      rw [List.eq_nil_iff_forall_not_mem]
      intro x hx
      obtain ⟨k, v, hkv, hk, _⟩ := (hmem x).mp hx
      exact hk (hall (k, v) hkv)

/-- when does `upper_conc_bounds(init)` answer at all (exact arithmetic, i.e. `dtype=object`): exactly when `init` has one entry
per substance, every substance has a composition, and no element is listed with a zero atom count (else: ValueError "Incorrect
size" / AttributeError / ZeroDivisionError). So the two theorems about the bounds are not vacuous: they apply to every input of
this shape. -/
theorem upper_bound_ok_iff (s : RSys) (init : List Rat) (skip : List Nat) :
    (∃ bs, upperConcBounds s init skip = .ok bs) ↔
      init.length = s.ns ∧ (∀ kv ∈ s.substs, kv.2.comp.isSome = true) ∧
      ∀ c ∈ compsOf s, ∀ kv ∈ c, kv.1 ≠ 0 → kv.2 ≠ 0 :=
  upperConcBounds_ok_iff s init skip

/-- "which no non-negative state with the same element totals exceeds": for physically meaningful compositions
(non-negative atom counts), every non-negative state `c` having, for every element, the same total as the initial
state is componentwise ≤ the bounds. -/
theorem upper_bound_valid (s : RSys) (init c : List Rat) (bs : List (Option Rat))
    (h : upperConcBounds s init [0] = .ok bs)
    (hcomp : ∀ comp ∈ compsOf s, ∀ kv ∈ comp, kv.1 ≠ 0 → 0 ≤ kv.2)
    (hlen : c.length = s.ns) (hnonneg : ∀ x ∈ c, 0 ≤ x)
    (htot : ∀ k, k ≠ 0 → elemTotal s c k = elemTotal s init k) :
    ∀ (i : Nat) (x b : Rat), c[i]? = some x → bs[i]? = some (some b) → x ≤ b := by
  intro i x b hx hb
  obtain ⟨_, hclen, hloop⟩ := upperConcBounds_ok h
  have hi : i < (compsOf s).length := by
    have := (List.getElem?_eq_some_iff.mp hx).1; omega
  obtain ⟨l, hl, hbi⟩ := (boundsLoop_spec hloop).2 i _ (List.getElem?_eq_getElem hi)
  obtain ⟨hmem, hv0⟩ := chooseFrom_spec hl
  rw [hbi] at hb
  simp only [Option.some.injEq] at hb
  obtain ⟨k, v, hkv, hk, hbeq⟩ := (hmem b).mp (boundOf_some hb).1
  have hvne : v ≠ 0 := hv0 k v hkv hk
  have hvpos : (0 : Rat) < (v : Rat) := by
    have h0 : 0 ≤ v := hcomp _ (List.getElem_mem hi) (k, v) hkv hk
    have : 0 < v := by omega
    exact_mod_cast this
  have hzip : (c.zip (compsOf s))[i]? = some (x, (compsOf s)[i]) := by
    rw [List.getElem?_zip_eq_some]; exact ⟨hx, List.getElem?_eq_getElem hi⟩
  have hle : (v : Rat) * x ≤ elemTotal s c k := by
    apply le_elementTotal (i := i) (conc := x) (comp := (compsOf s)[i]) _ _ hzip hkv
    · simpa using hk
    · intro p hp; exact hnonneg p.1 (List.of_mem_zip hp).1
    · intro p hp kv hkv' hsk
      exact hcomp p.2 (List.of_mem_zip hp).2 kv hkv' (by simpa using hsk)
  rw [htot k hk] at hle
  rw [hbeq, le_div_iff₀ hvpos]
  simpa [elemTotal, mul_comm] using hle

/-- one reaction step `c ↦ c + ξ·ν_r` (any extent ξ, forward or backward) changes the total of element `k` by `ξ` times the
element balance of the reaction, `Σ_i ν_i · atoms_i(k)`; so a reaction that conserves element `k` leaves its total unchanged. -/
theorem balanced_step_preserves_totals (s : RSys) (c : List Rat) (r : Rxn) (ξ : Rat) (k : Nat)
    (hc : c.length = s.ns) (hcomp : (compsOf s).length = s.ns) :
    elemTotal s (stepState c ξ (netVec s r)) k = elemTotal s c k + ξ * elemTotal s (netVec s r) k ∧
    (elemTotal s (netVec s r) k = 0 → elemTotal s (stepState c ξ (netVec s r)) k = elemTotal s c k) ∧
    (stepState c ξ (netVec s r)).length = s.ns := by
  have h := elemTotal_step s c r ξ k hc hcomp
  refine ⟨h, fun h0 => by rw [h, h0]; ring, ?_⟩
  rw [stepState_length _ _ _ (by rw [netVec_length]; omega)]; exact hc

/-- "bounds hold for every reachable state": in a system whose reactions all conserve every element (`Balanced`; it suffices
to check the elements that occur, `balanced_of_elements`), every state reached from `init` by finitely many reaction steps — of any
extent and direction, through whatever intermediate states — has the element totals of `init`; hence, if it is non-negative, it is
componentwise below the bounds computed from `init`. -/
theorem reachable_states_within_bounds (s : RSys) (init c : List Rat) (bs : List (Option Rat))
    (h : upperConcBounds s init [0] = .ok bs) (hbal : Balanced s)
    (hcomp : ∀ comp ∈ compsOf s, ∀ kv ∈ comp, kv.1 ≠ 0 → 0 ≤ kv.2)
    (hreach : Reachable s init c) :
    (∀ k, k ≠ 0 → elemTotal s c k = elemTotal s init k) ∧
    ((∀ x ∈ c, 0 ≤ x) → ∀ (i : Nat) (x b : Rat), c[i]? = some x → bs[i]? = some (some b) → x ≤ b) := by
  obtain ⟨hi, hcl, _⟩ := upperConcBounds_ok h
  obtain ⟨hl, ht⟩ := reachable_totals s init c hbal hi hcl hreach
  exact ⟨ht, fun hnn => upper_bound_valid s init c bs h hcomp hl hnn ht⟩

/-- a system's reactions are balanced as soon as they are for the finitely many elements that occur in its compositions -/
theorem balanced_iff_on_elements (s : RSys) :
    Balanced s ↔ ∀ r ∈ s.rxns, ∀ k ∈ elementsOf s, k ≠ 0 → elemTotal s (netVec s r) k = 0 :=
  ⟨fun h r hr k _ hk => h r hr k hk, balanced_of_elements s⟩

/-- DEVIATION (mirrors the code): `skip_keys` is honoured by the accumulation loop only; the second loop hard-codes
`comp_nr == 0`. Skipping hydrogen makes the bound of every hydrogen-containing species 0 — below its own initial
concentration (`rs.upper_conc_bounds({'H2': 1}, skip_keys=(0, 1)) == [0.0]`). -/
theorem upper_bound_skip_keys_defect_witness :
    upperConcBounds ⟨[], [("H2", {name := "H2", comp := some [(1, 2)]})]⟩ [1] [0, 1] = .ok [some 0] := by
  decide +kernel

/-! ## constructor: substance ordering, duplicate and key checks -/

/-- `ReactionSystem(rxns, substances, checks=…, sort_substances=…)`: the reactions are kept; the substances are those
of the argument (a permutation), sorted by key when sorting applies (explicitly, or by default for `None` / a set) and
in the given order otherwise; a requested check that passed means what its name says. -/
theorem make_spec (rxns : List Rxn) (arg : SubstArg) (checks : List Check) (sort : Option Bool) (s : RSys)
    (h : RSys.make rxns arg checks sort = .ok s) :
    s.rxns = rxns ∧ s.substs.Perm (substancesOf rxns arg).1 ∧
    (sortApplies rxns arg sort = true → s.substs.Pairwise (fun a b => a.1 ≤ b.1)) ∧
    (sortApplies rxns arg sort = false → s.substs = (substancesOf rxns arg).1) ∧
    (Check.substanceKeys ∈ checks → ∀ r ∈ rxns, ∀ k ∈ r.keys, k ∈ s.keys) ∧
    (Check.duplicate ∈ checks → rxns.Pairwise (fun a b => a.pyEq b = false)) ∧
    (Check.duplicateNames ∈ checks → (rxns.filterMap (·.name)).Nodup) := by
  obtain ⟨hff, hs⟩ := make_ok h
  have hchk := firstFailing_none hff
  generalize sortApplies rxns arg sort = d at hs ⊢
  have hperm : s.substs.Perm (substancesOf rxns arg).1 := by
    cases d
    · simp only [Bool.false_eq_true, ↓reduceIte] at hs; rw [hs]
    · simp only [↓reduceIte] at hs; rw [hs]; exact sortSubstances_perm _
  refine ⟨by cases d <;> simp only [Bool.false_eq_true, ↓reduceIte] at hs <;> rw [hs], hperm, ?_, ?_, ?_, ?_, ?_⟩
  · intro hd; subst hd; simp only [↓reduceIte] at hs; rw [hs]; exact sortSubstances_sorted _
  · intro hd; subst hd; simp only [Bool.false_eq_true, ↓reduceIte] at hs; rw [hs]
  · intro hc r hr k hk
    have := (checkSubstanceKeys_iff _).mp (hchk _ hc) r hr k hk
    simp only [RSys.keys, List.mem_map] at this ⊢
    obtain ⟨kv, hkv, e⟩ := this
    exact ⟨kv, hperm.symm.subset hkv, e⟩
  · intro hc
    have := hchk _ hc
    simp only [runCheck, checkDuplicate, Bool.not_eq_eq_eq_not, Bool.not_true] at this
    exact (hasDuplicate_false_iff _).mp this
  · intro hc
    have := hchk _ hc
    simp only [runCheck, checkDuplicateNames] at this
    exact ((dupNamesLoop_iff [] rxns).mp this).1

/-- `ReactionSystem(rxns)` (substances deduced): exactly the keys occurring in the reactions, in strictly ascending
(code point lexicographic) order -/
theorem make_deduced (rxns : List Rxn) (checks : List Check) (s : RSys)
    (h : RSys.make rxns .none checks none = .ok s) :
    (∀ k, k ∈ s.keys ↔ ∃ r ∈ rxns, k ∈ r.keys) ∧ s.keys.Pairwise (· < ·) := by
  obtain ⟨_, hs⟩ := make_ok h
  simp only [substancesOf, sortApplies, ↓reduceIte] at hs
  have hperm : s.keys.Perm (okeys (odictOf ((allKeys rxns).map fun k => (k, ({ name := k } : Subst))))) := by
    rw [hs]; exact (sortSubstances_perm _).map _
  constructor
  · intro k
    rw [hperm.mem_iff, odictOf, mem_okeys_odictUpdate]
    simp [okeys, allKeys, List.mem_flatMap]
  · have hsorted : s.keys.Pairwise (· ≤ ·) := by
      rw [hs]; simp only [RSys.keys]
      rw [List.pairwise_map]
      exact sortSubstances_sorted _
    have hnodup : s.keys.Nodup := hperm.nodup_iff.mpr (odictUpdate_nodup [] _ (by simp [okeys]))
    refine (hsorted.and hnodup).imp ?_
    rintro a b ⟨hab, hne⟩
    by_contra hlt
    exact hne (String.le_antisymm hab (String.not_lt.mp hlt))

/-- the constructor with `missing_substances_from_keys=True` and explicit checks: it succeeds exactly when there is at least one
reaction (`set.union(*[])` raises TypeError otherwise) and the requested checks hold for the system with the missing keys added;
then the substances are exactly the given ones plus every key of a reaction — in particular every reaction key is a substance —,
sorted when sorting applies and otherwise the given substances first, in their order. (The definitional cases of `makeFull` — it is
`make` without the extra arguments, both `checks` and `dont_check` is refused — are `makeFull_explicit` / `makeFull_refusals` in
Proofs.) -/
theorem make_missing_spec (rxns : List Rxn) (arg : SubstArg) (sort : Option Bool) :
    (∀ cs, (∃ s, RSys.makeFull rxns arg (some cs) none sort true = .ok s) ↔
      rxns ≠ [] ∧ ∀ c ∈ cs, runCheck ⟨rxns, addMissing (substancesOf rxns arg).1 rxns⟩ c = true) ∧
    (∀ checks dont s, RSys.makeFull rxns arg checks dont sort true = .ok s →
      s.rxns = rxns ∧
      (∀ k, k ∈ s.keys ↔ k ∈ (substancesOf rxns arg).1.map (·.1) ∨ ∃ r ∈ rxns, k ∈ r.keys) ∧
      (sortApplies rxns arg sort = true → s.substs.Pairwise (fun a b => a.1 ≤ b.1)) ∧
      (sortApplies rxns arg sort = false → (substancesOf rxns arg).1.map (·.1) <+: s.keys)) := by
  refine ⟨fun cs => makeFull_missing_ok_iff rxns arg cs sort, ?_⟩
  intro checks dont s h
  obtain ⟨_, h1, h2, h3, h4⟩ := makeFull_missing_ok h
  refine ⟨h1, ?_, h3, ?_⟩
  · intro k
    have : k ∈ s.keys ↔ k ∈ okeys (addMissing (substancesOf rxns arg).1 rxns) := by
      simp only [RSys.keys, okeys]; exact (h2.map _).mem_iff
    rw [this, mem_okeys_addMissing]; rfl
  · intro hd
    rw [RSys.keys, h4 hd]
    exact okeys_prefix_odictUpdate _ _

/-- `categorize_substances` on reactions with NEGATIVE coefficients (possible with `checks=()`; plain reactions, no checks
requested): it is refused ("Expected positive stoichiometric coefficients") as soon as the total reactant or the total product
coefficient of some substance of the system is negative. (Without any negative coefficient `categorizeSigned` is `categorize`:
`categorizeSigned_nonneg` in Proofs.) -/
theorem categorize_negative_refused (rxns : List SRxn) (substs : ODict)
    (hplain : ∀ r ∈ rxns, r.isEq = false)
    (hneg : ∃ r ∈ rxns, ∃ kv ∈ substs, r.reac.get kv.1 + r.inactReac.get kv.1 < 0 ∨ r.prod.get kv.1 + r.inactProd.get kv.1 < 0) :
    categorizeSigned rxns substs [] = .error .negative := by
  revert hplain hneg
  · intro hplain ⟨r, hr, kv, hkv, hneg⟩
    have hnone : rxns.mapM SRxn.toRxn? = none := by
      cases hm : rxns.mapM SRxn.toRxn? with
      | none => rfl
      | some l =>
        exfalso
        obtain ⟨x, hx⟩ := mapM_option_mem hm r hr
        simp only [SRxn.toRxn?] at hx
        split at hx
        · rename_i a b c d ha hb hc hd
          have h1 := SStoich.toStoich?_nonneg ha kv.1
          have h2 := SStoich.toStoich?_nonneg hb kv.1
          have h3 := SStoich.toStoich?_nonneg hc kv.1
          have h4 := SStoich.toStoich?_nonneg hd kv.1
          omega
        · simp at hx
    have hq : rxns.any (·.isEq) = false := by
      rw [List.any_eq_false]; intro x hx; simp [hplain x hx]
    have : (rxns.any fun r => (substs.map (·.1)).any fun k =>
        decide (r.reac.get k + r.inactReac.get k < 0) || decide (r.prod.get k + r.inactProd.get k < 0)) = true := by
      rw [List.any_eq_true]
      refine ⟨r, hr, ?_⟩
      rw [List.any_eq_true]
      refine ⟨kv.1, List.mem_map_of_mem hkv, ?_⟩
      rcases hneg with h | h <;> simp [h]
    simp only [categorizeSigned, hnone, hq, List.isEmpty_nil, Bool.not_true, Bool.or_self, Bool.false_eq_true, ↓reduceIte]
    rw [if_pos this]

/-- DEVIATION (mirrors the code): a `substances` string without a blank is iterated character-wise (`'H2O'` → `H`, `2`, `O`);
with a blank it is split at blanks -/
theorem bare_string_substances_witness :
    (substancesOf [] (.str "H2O")).1.map (·.1) = ["H", "2", "O"] ∧
    (substancesOf [] (.str "H2O ")).1.map (·.1) = ["H2O"] := by
  decide

/-! ## the hypotheses are satisfiable: concrete instances -/

/-- four reactions A→B, C→D, B→C (bridging the first two groups), E→E (catalyst only): the greedy pass makes three
groups, the fusion loop joins the first two through reaction 2 -/
example : splitGroups [["A", "B"], ["C", "D"], ["B", "C"], ["E", "E"]] =
    [([0, 2, 1], ["A", "B", "B", "C", "C", "D"]), ([3], ["E", "E"])] := by
  decide +kernel

/-- the same four reactions: two groups, two components -/
example : (splitGroups [["A", "B"], ["C", "D"], ["B", "C"], ["E", "E"]]).length = 2 := by
  decide +kernel

/-- 2 H2 + O2 → 2 H2O with a spectator and a catalyst -/
example :
    let r : Rxn := { reac := [("H2", 2), ("O2", 1), ("Pt", 1)], prod := [("H2O", 2), ("Pt", 1)] }
    let s : RSys := ⟨[r], ["H2", "O2", "H2O", "Pt", "N2"].map fun k => (k, { name := k })⟩
    categorize s [.substanceKeys, .duplicate, .duplicateNames] =
      .ok ⟨["H2O"], ["H2", "O2"], ["Pt"], ["N2"]⟩ := by
  decide

/-- the equilibrium A + (S) ⇌ B with parameter (kf, kb) = (3, 5) and a spectator Q: both directions are seen, so A, B and
the inactive S are in no category; Q is nonparticipating. A scalar parameter makes `as_reactions()` (hence
`categorize_substances`) raise. -/
example :
    let e : Rxn := { reac := [("A", 1)], prod := [("B", 1)], inactReac := [("S", 1)], param := some 3, paramB := some 5,
                     name := some "eq1", isEq := true }
    let subs : ODict := ["A", "B", "S", "Q"].map fun k => (k, { name := k })
    categorize ⟨[e], subs⟩ [.substanceKeys, .duplicate, .duplicateNames] = .ok ⟨[], [], [], ["Q"]⟩ ∧
    (e.asReactions.toOption.map fun p => p.2.inactProd) = some [("S", 1)] ∧
    categorize ⟨[{ e with paramB := none }], subs⟩ [] = .error (.expand .rateNeeded) := by
  decide

/-- concatenate: the second system repeats A→B (other parameter) and brings B→C -/
example :
    let r1 : Rxn := { reac := [("A", 1)], prod := [("B", 1)], param := some 1 }
    let r1' : Rxn := { reac := [("A", 1)], prod := [("B", 1)], param := some 7 }
    let r2 : Rxn := { reac := [("B", 1)], prod := [("C", 1)] }
    let S := fun (ks : List String) => ks.map fun k => (k, ({ name := k } : Subst))
    concatenate [⟨[r1], S ["A", "B"]⟩, ⟨[r1', r2], S ["B", "C", "A"]⟩] =
      some (⟨[r1, r2], S ["A", "B", "C"]⟩, ⟨[r1'], S ["B", "A"]⟩) := by
  decide

/-- constructor with `missing_substances_from_keys=True` (part 5 of `make_full_spec`) and the refusal of a negative total -/
example :
    let r : Rxn := { reac := [("A", 1)], prod := [("B", 1)] }
    (RSys.makeFull [r] (.names ["Z", "A"]) (some [.substanceKeys]) none none true).toOption.map (·.keys) = some ["Z", "A", "B"] ∧
    categorizeSigned [SRxn.mk [("A", 1)] [("B", 1), ("C", -2)] [] [] none none none false] [("C", { name := "C" })] [] =
      .error .negative := by
  decide

/-- 2 H2 + O2 → 2 H2O is balanced, and (0, 0, 2) is reachable from (2, 1, 0) by one step of extent 1 -/
example :
    let r : Rxn := { reac := [("H2", 2), ("O2", 1)], prod := [("H2O", 2)] }
    let s : RSys := ⟨[r], [("H2", { name := "H2", comp := some [(1, 2)] }), ("O2", { name := "O2", comp := some [(8, 2)] }),
      ("H2O", { name := "H2O", comp := some [(1, 2), (8, 1)] })]⟩
    Balanced s ∧ Reachable s [2, 1, 0] [0, 0, 2] := by
  intro r s
  refine ⟨(balanced_iff_on_elements s).mpr (by decide +kernel), ?_⟩
  have e : stepState [2, 1, 0] 1 (netVec s r) = [0, 0, 2] := by decide +kernel
  rw [← e]
  exact .step r 1 .start (by simp [s])

/-- bounds for 2 H2 + O2 ⇌ 2 H2O from (2, 1, 0): H2 ≤ min(4/2) , O2 ≤ 2/2, H2O ≤ min(4/2, 2/1); the state (0, 0, 2)
has the same element totals and meets the bound of H2O -/
example :
    let s : RSys := ⟨[], [("H2", { name := "H2", comp := some [(1, 2)] }), ("O2", { name := "O2", comp := some [(8, 2)] }),
      ("H2O", { name := "H2O", comp := some [(1, 2), (8, 1)] })]⟩
    upperConcBounds s [2, 1, 0] [0] = .ok [some 2, some 1, some 2] ∧
      elemTotal s [0, 0, 2] 1 = elemTotal s [2, 1, 0] 1 ∧ elemTotal s [0, 0, 2] 8 = elemTotal s [2, 1, 0] 8 := by
  decide +kernel

end ChemModel.C15
