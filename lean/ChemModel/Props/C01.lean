import ChemModel.Model.Formula

namespace ChemModel.C01
open ChemModel.Formula ChemModel.Gen

theorem count_regex_is : countRegex = "(\\d+\\.\\d+|\\d*)" := by decide

end ChemModel.C01
