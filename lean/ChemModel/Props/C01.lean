/-
C01 — formula parsing yields exactly the written elemental composition and charge.

Objects (see Model/FormulaSpec.lean, Model/Formula.lean):
* `Formula` — the AST of a written formula (prefixes, hydrate parts with leading counts, nested ( ) [ ] { } groups,
  `@` cages, integer / decimal counts, states, prime/star marks, charge, phase suffix); `Formula.render` writes it down;
  `Formula.occurrences` lists every element occurrence with the product of its enclosing multipliers;
  `Formula.denote f k` is the total for atomic number `k` and the signed charge for `k = 0`; `Formula.WF` is decidable.
* `formulaToComposition : String → Except ErrKind Comp` — the executable model of chempy's
  `formula_to_composition` / `Substance.from_formula(...).composition` (dict = association list in insertion order).
* `Agrees f c` — `c` has no duplicate keys, its keys are exactly the occurring elements (+ 0 iff a charge is written),
  every entry equals `denote f k`, and nothing else is present.
Helper lemmas live in Proofs/Formula*.lean. All theorems are for unbounded nesting depth and length.
-/
import ChemModel.Proofs.FormulaExact

namespace ChemModel.C01
open ChemModel.Formula ChemModel.Gen

/-! ### guards: the regexes and parse actions whose semantics are hand-modelled are the ones in the source -/

theorem count_regex_guard : countRegex = "(\\d+\\.\\d+|\\d*)" := by decide
theorem count_action_guard : countAction = "lambda t: 1 if t[0] == \"\" else float(t[0])" := by decide
theorem state_regex_guard : stateRegex = "\\((s|l|g|aq|cr)\\)" := by decide
theorem primes_regex_guard : primesRegex = "[*']+" := by decide
theorem caged_regex_guard : cagedRegex = "\\@" := by decide
theorem bracket_regexes_guard :
    lpRegex = "\\(" ∧ rpRegex = "\\)" ∧ lsbRegex = "\\[" ∧ rsbRegex = "\\]" ∧ lcbRegex = "\\{" ∧ rcbRegex = "\\}" := by decide
theorem leading_int_regex_guard : leadingIntRegex = "^\\d+" := by decide
theorem term_expr_guard : termExpr =
    "Group((element|Group(LP+formula+RP)(\"subgroup\")|Group(LSB+formula+RSB)(\"subgroup\")|Group(LCB+formula+RCB)(\"subgroup\")|Group(caged+formula)(\"subgroup\"))+Optional(count,default=1)(\"mult\")+Optional(state)(\"state\")+Optional(primes)(\"primes\"))" := by
  decide +kernel

/-! ### the element table -/

/-- Every one of the 118 symbols is tokenised greedily and completely by the element regex (ordered alternation
    semantics) and mapped to its own atomic number, whatever follows it — as long as that is not a lowercase letter.
    This is the "Co vs CO", "every adjacency of two symbols" clause: `symChars z ++ symChars z' ++ …` always reads `z` first. -/
theorem elem_table_complete (z : Nat) (h1 : 1 ≤ z) (h2 : z ≤ 118) (r : List Char)
    (hr : ∀ c, r.head? = some c → c.isLower = false) :
    matchElem (symChars z ++ r) = some (z, r) :=
  matchElem_sym z h1 h2 r hr

/-- Whatever the element lexer accepts is one of the 118 symbols, read completely, with its own atomic number:
    no other capitalised token is ever read as an element. -/
theorem elem_table_sound (s : List Char) (z : Nat) (r : List Char) (h : matchElem s = some (z, r)) :
    1 ≤ z ∧ z ≤ 118 ∧ s = symChars z ++ r :=
  matchElem_sound s z r h

/-- Two adjacent symbols are read as exactly those two elements (the Co / CO class), for all 118 × 118 ordered pairs. -/
theorem adjacent_symbols (z1 z2 : Nat) (h1 : 1 ≤ z1 ∧ z1 ≤ 118) (h2 : 1 ≤ z2 ∧ z2 ≤ 118) :
    parseStoich (symChars z1 ++ symChars z2) = .ok (mergeComp [(z1, 1), (z2, 1)]) := by
  have hwf : (Terms.cons (.elem z1 .omitted none []) (.cons (.elem z2 .omitted none []) .nil)).wf = true := by
    simp [Terms.wf, Term.wf, Cnt.wf, Term.isCage, Terms.isNil, h1.1, h1.2, h2.1, h2.2]
  have := parseStoich_render _ hwf rfl
  simpa [Terms.render, Term.render, Cnt.render, stText, Terms.flat, Term.flat, Cnt.val] using this

/-! ### the round trip -/

/-- **Parsing a written formula yields exactly its composition and charge.**
    For every well-formed formula AST `f` (any nesting depth, any length, all 118 symbols, integer or decimal counts,
    the three bracket kinds, cages, hydrate parts with leading counts and either separator, states, marks, every default
    prefix, phase suffixes, charges in all accepted writings) the model of `formula_to_composition` applied to the written
    text returns a dict `c` that agrees with the denotation of `f`: no duplicate keys, keys = occurring elements plus 0 iff a
    charge token is written, `c[k] = Σ over the occurrences of k of the product of the enclosing multipliers`, `c[0]` = signed charge. -/
theorem parse_render (f : Formula) (h : f.WF) :
    ∃ c, formulaToComposition f.renderStr = .ok c ∧ Agrees f c :=
  roundtrip_core f h (noSuffixEnd_of_wf f (Formula.wfd f h))

/-- The same, spelled out per key. -/
theorem parse_render_lookup (f : Formula) (h : f.WF) :
    ∃ c, formulaToComposition f.renderStr = .ok c ∧ (Comp.keys c).Nodup ∧
      ∀ k, Comp.get? c k =
        if k ∈ Comp.keys f.occurrences ∨ (k = 0 ∧ f.charge.isSome = true) then some (f.denote k) else none := by
  obtain ⟨c, hc, ha⟩ := parse_render f h
  refine ⟨c, hc, ha.nodup, fun k => ?_⟩
  by_cases hk : k ∈ Comp.keys c
  · rw [if_pos ((ha.keys k).mp hk)]; exact ha.value k hk
  · rw [if_neg (fun h' => hk ((ha.keys k).mpr h'))]; exact ha.absent k hk

/-- **Exact round trip, including the order of the keys.** For every well-formed formula the parser returns the specification's
    own dict `f.composition` (= `formula_gen.composition`): elements in order of first occurrence in the written text, each with
    its total, then key 0 with the charge — the very list, not only the same lookups. (This is the `roundtrip` correspondence op
    "parse = denote" as a theorem; `parse_render` follows from it with `composition_agrees`.) -/
theorem parse_render_exact (f : Formula) (h : f.WF) : formulaToComposition f.renderStr = .ok f.composition :=
  roundtrip_exact f h

/-- The specification's dict has no duplicate keys, the occurring elements (+ 0 iff charged) as keys, and `denote f k` as entries. -/
theorem composition_agrees (f : Formula) (h : f.WF) : Agrees f f.composition :=
  agrees_composition f (Formula.wfd f h)

/-- **Integer-only formulas give integer amounts.** If no count of `f` is a decimal (`f.noDecimal`), the returned dict agrees with
    the denotation AND every element amount is a natural number (Python: `n == int(n)` narrows to `int`; this is what the
    harness rule "integer-only formulas must agree exactly" rests on); the charge entry is an integer in any case. -/
theorem parse_render_int (f : Formula) (h : f.WF) (hint : f.noDecimal = true) :
    ∃ c, formulaToComposition f.renderStr = .ok c ∧ Agrees f c ∧
      (∀ k, k ≠ 0 → k ∈ Comp.keys c → ∃ n : Nat, Comp.get? c k = some (n : Rat)) ∧
      (0 ∈ Comp.keys c → ∃ z : Int, Comp.get? c 0 = some (z : Rat)) := by
  obtain ⟨c, hc, ha⟩ := parse_render f h
  refine ⟨c, hc, ha, ?_, ?_⟩
  · intro k hk hmem
    obtain ⟨n, hn⟩ := denote_isNat f hint k hk
    exact ⟨n, by rw [ha.value k hmem, hn]⟩
  · intro hmem
    rw [ha.value 0 hmem]
    simp only [Formula.denote, if_true]
    cases f.charge with
    | none => exact ⟨0, rfl⟩
    | some ch => exact ⟨ch.val, rfl⟩

/-- The stoichiometric core alone: a rendered term list of any depth parses to its pairs summed per element. -/
theorem parse_render_stoich (ts : Terms) (h : ts.WF) (hne : ts.isNil = false) :
    ∃ c, parseStoich ts.render = .ok c ∧ (Comp.keys c).Nodup ∧ ∀ k, total c k = total (ts.occ 1) k :=
  ⟨mergeComp ts.flat, parseStoich_render ts h hne, nodup_mergeComp _, fun k => by
    rw [total_mergeComp, Terms.total_flat]⟩

/-- **The electron.** `e` followed by any well-formed charge token (none, `+`, `-`, `-1`, `+2`, …) and any default phase suffix
    (or none) parses to the bare charge `{0: q}` (`{}` without a charge token): `e-`, `e-(aq)`, `e+`, `e`. -/
theorem parse_electron (ch : Option Charge) (hch : ∀ c, ch = some c → c.wf = true)
    (sfx : Option (List Char)) (hs : ∀ x, sfx = some x → x ∈ suffixesL) :
    formulaToComposition (String.ofList ('e' :: (renderCharge ch ++ renderSuffix sfx)))
      = .ok (match ch with | none => [] | some c => [(0, (c.val : Rat))]) := by
  simp only [formulaToComposition, String.toList_ofList]
  rw [electron_parse ch hch sfx hs]
  cases ch <;> rfl

example : formulaToComposition "e-" = .ok [(0, -1)] ∧ formulaToComposition "e-(aq)" = .ok [(0, -1)] ∧
    formulaToComposition "e+" = .ok [(0, 1)] ∧ formulaToComposition "e..e" = .ok [] := by decide +kernel

/-! ### value soundness for every accepted string (not only rendered ASTs) -/

/-- **Whatever is accepted is read with the written value — never silently mis-read.** For EVERY string `s` that the model of
    `formula_to_composition` accepts (whitespace between tokens, states in mid-formula, repeated suffixes, counted cages,
    leading zeros … included), with `pts` the code's own split of `s` into stoichiometry token and charge token:
    * every hydrate part is `leading-integer multiplier × (electron e | a text with a string-level denotation Den)`
      (`PartsRead`; `Den u occ` lists the element occurrences of the text `u` in reading order, each with the product of the
      counts of the groups / cages that enclose it; `readOcc rd` multiplies them by the hydrate multipliers);
    * the returned dict has no duplicate keys, and its keys are exactly the occurring elements, plus 0 iff a charge token is present;
    * for every element `k ≠ 0`: `c[k] = Σ over the occurrences of k of the product of the enclosing multipliers`;
    * `c[0]` is the value of the charge token.
    Together with `accepted_input_shape` (the string is prefixes ++ parts joined by the separator ++ charge token ++ suffixes)
    this is the converse of `parse_render`. -/
theorem accepted_value_sound (s : String) (c : Comp) (h : formulaToComposition s = .ok c) :
    ∃ pts rd, formulaToParts prefixesL suffixesL s.toList = .ok pts ∧
      PartsRead true ((splitStoich pts.stoich).1 :: (splitStoich pts.stoich).2) rd ∧
      (Comp.keys c).Nodup ∧
      (∀ k, k ∈ Comp.keys c ↔ (k ∈ Comp.keys (readOcc rd) ∨ (k = 0 ∧ pts.chg.isSome = true))) ∧
      (∀ k, k ≠ 0 → Comp.get? c k = if k ∈ Comp.keys (readOcc rd) then some (total (readOcc rd) k) else none) ∧
      (∀ chg, pts.chg = some chg → ∃ q, getCharge chg = .ok q ∧ Comp.get? c 0 = some (q : Rat)) :=
  formulaToCompositionL_value s.toList c h

/-- The grammar level: whatever `parseStoich` accepts is the electron (empty composition) or a text with a denotation `occ`;
    the returned dict has no duplicate keys, the keys of `occ`, and per key the total of `occ`. -/
theorem accepted_value_sound_part (s : List Char) (c : Comp) (h : parseStoich s = .ok c) :
    (s = ['e'] ∧ c = []) ∨ ∃ occ, Den s occ ∧ occ ≠ [] ∧ Equiv c occ ∧ (Comp.keys c).Nodup :=
  parseStoich_value_sound s c h

/-- The string-level denotation is not a different notion of value: on the rendering of any well-formed term list it has the
    totals and keys of the AST's own occurrence list (so `accepted_value_sound` extends `parse_render`). -/
theorem den_agrees_with_ast (ts : Terms) (h : ts.WF) : ∃ occ, Den ts.render occ ∧ Equiv occ (ts.occ 1) :=
  den_render ts h

/-- **`int()` on the charge number (model), exact characterisation.** `pyInt s = some n` iff `s` is optional ASCII whitespace,
    non-empty ASCII digit groups joined by SINGLE underscores, optional ASCII whitespace, and `n` is the decimal value of all the
    digits: ` 3`, `3 `, `1_0`, `007` are read; `1__0`, `_1`, `1_`, `1 0`, the empty / blank string and anything containing another
    character are refused. -/
theorem charge_number_iff (s : List Char) (n : Nat) :
    pyInt s = some n ↔
      ∃ (w1 w2 : List Char) (gs : List (List Char)),
        (∀ c ∈ w1, isPySpace c = true) ∧ (∀ c ∈ w2, isPySpace c = true) ∧ gs ≠ [] ∧
        (∀ g ∈ gs, g ≠ [] ∧ ∀ c ∈ g, c.isDigit = true) ∧ s = w1 ++ (joinUnders gs ++ w2) ∧ n = digitsVal gs.flatten :=
  pyInt_iff s n

example : pyInt " 1_2_3\t".toList = some 123 ∧ pyInt "007".toList = some 7 ∧ pyInt "1__0".toList = none ∧ pyInt "_1".toList = none ∧
    pyInt "1_".toList = none ∧ pyInt "1 0".toList = none ∧ pyInt " ".toList = none ∧ pyInt [] = none := by decide +kernel

example : formulaToComposition "Si0.9999999B0.0000001" = .ok [(14, 9999999 / 10000000), (5, 1 / 10000000)] := by decide +kernel
example : formulaToComposition "(Si0.3333333)3" = .ok [(14, 9999999 / 10000000)] := by decide +kernel
example : formulaToComposition " H 2 O (l) " = .ok [(1, 2), (8, 1)] := by decide +kernel
example : formulaToComposition "Fe+ 3" = .ok [(26, 1), (0, 3)] ∧ formulaToComposition "Fe+1_0 " = .ok [(26, 1), (0, 10)] := by decide +kernel
example : formulaToComposition "Fe+1__0" = .error .charge ∧ formulaToComposition "Fe+_1" = .error .charge := by decide +kernel

/-! ### `_get_charge` and `_get_leading_integer` on arbitrary strings -/

/-- **`_get_charge` returns exactly on well-formed charge tokens** (success characterisation, for EVERY string `s`, purely
    syntactic): `_get_charge(s) = q` iff `s` is `+` (q = 1), `-` (q = −1), or a sign followed by a charge number
    (`IntText rest n`: optional ASCII blanks, non-empty ASCII digit groups joined by single underscores, optional ASCII blanks;
    `n` = decimal value of the digits) with q = ±n. Every other string is refused: text on both sides of the sign (`3+2` —
    "Values both before and after charge token"), sign at the end or no sign at all (`3+`, `3`, empty — "+ or - missing"),
    both signs, a repeated sign, a number `int()` refuses (`+x`, `+1__0`, `+_1`, `+1 0`, `+ `). -/
theorem get_charge_ok_iff (s : List Char) (q : Int) :
    getCharge s = .ok q ↔
      (s = ['+'] ∧ q = 1) ∨ (s = ['-'] ∧ q = -1) ∨
      (∃ rest n, IntText rest n ∧ ((s = '+' :: rest ∧ q = (n : Int)) ∨ (s = '-' :: rest ∧ q = -(n : Int)))) :=
  getCharge_ok_iff_text s q

/-- **`_get_leading_integer` never refuses** and splits off exactly the maximal ASCII digit prefix: `p = ds ++ rest`, `ds` all
    digits, `rest` does not start with a digit, the multiplier is `int(ds)`, or 1 when there is no digit.
    (The `raise` branch of the Python function needs two matches of `^\d+`, impossible without `re.MULTILINE`: dead code,
    see `leading_int_regex_guard`.) -/
theorem leading_integer_total (p : List Char) :
    ∃ ds, p = ds ++ (getLeadingInteger p).2 ∧ (∀ c ∈ ds, c.isDigit = true) ∧
      (∀ c, (getLeadingInteger p).2.head? = some c → c.isDigit = false) ∧
      (getLeadingInteger p).1 = (if ds = [] then 1 else digitsVal ds) :=
  getLeadingInteger_total p

example : getCharge "3+2".toList = .error .charge ∧ getCharge "2-1".toList = .error .charge := by decide +kernel      -- text on both sides
example : getCharge "3+".toList = .error .charge ∧ getCharge "3".toList = .error .charge ∧ getCharge [] = .error .charge := by decide +kernel  -- sign missing / at the end
example : getCharge "+-3".toList = .error .charge ∧ getCharge "++3".toList = .error .charge ∧ getCharge "+x".toList = .error .charge := by decide +kernel
example : getCharge "+".toList = .ok 1 ∧ getCharge "-".toList = .ok (-1) ∧ getCharge "-12".toList = .ok (-12) ∧ getCharge "+ 1_0 ".toList = .ok 10 := by decide +kernel
example : getLeadingInteger "12H2O".toList = (12, "H2O".toList) ∧ getLeadingInteger "H2O".toList = (1, "H2O".toList) ∧
    getLeadingInteger "007".toList = (7, []) := by decide +kernel

/-! ### rejection of ill-formed text -/

/-- **Contradictory or repeated charge marks are rejected.** For EVERY input string: if, after the prefix / suffix
    stripping the code performs (`coreOf`), the text contains both a `+` and a `-`, or more than one `+`, or more than
    one `-` (`Fe+3-`, `Fe+-`, `Na++`, `SO4-2-`, …), `formula_to_composition` raises — whatever else the string contains. -/
theorem reject_contradictory_charge (s : String)
    (h : ('+' ∈ coreOf s.toList ∧ '-' ∈ coreOf s.toList) ∨ (coreOf s.toList).count '+' > 1 ∨ (coreOf s.toList).count '-' > 1) :
    ∃ e, formulaToComposition s = .error e :=
  contradictory_rejected s.toList h

/-- A `+`, `-` or `/` inside the stoichiometry token (the text before the charge token) is never skipped:
    the part loop raises. -/
theorem reject_sign_in_stoichiometry (a : List Char) (x : Char) (hx : x ∈ a) (hs : x = '+' ∨ x = '-' ∨ x = '/') :
    ∃ e, stoichToComp a = .error e :=
  stoichToComp_reject_sign a x hx hs

/-- Everything the stoichiometry parser accepts is the electron `e` or lies in the token language `Acc`
    (whitespace, element symbols, digits, '.', state texts, marks, '@', properly nested bracket groups). -/
theorem accepted_language (s : List Char) (c : Comp) (h : parseStoich s = .ok c) : s = ['e'] ∨ Acc s :=
  parseStoich_sound s c h

/-- **Unbalanced brackets are rejected.** For EVERY input string whose brackets `( ) [ ] { }` are not balanced and
    properly nested (`balanced` = stack scan over the whole text, prefixes, charge and suffix included),
    `formula_to_composition` raises instead of returning a composition. -/
theorem reject_unbalanced (s : String) (h : balanced s.toList = false) : ∃ e, formulaToComposition s = .error e := by
  cases hr : formulaToComposition s with
  | error e => exact ⟨e, rfl⟩
  | ok c =>
    have := accepted_balanced s.toList c hr
    rw [this] at h; exact absurd h (by decide)

/-- **A capitalised token that is not an element symbol is rejected.** For EVERY input string in which some maximal token
    `[A-Z][a-z]*` (`capTokensOK` = scan over the whole text) is not one of the 118 symbols (`Xx`, `Ab`, `Hx`, `Cos`, …),
    `formula_to_composition` raises instead of silently mis-reading it. -/
theorem reject_bad_capitalised_token (s : String) (h : capTokensOK s.toList = false) :
    ∃ e, formulaToComposition s = .error e := by
  cases hr : formulaToComposition s with
  | error e => exact ⟨e, rfl⟩
  | ok c =>
    have := accepted_capTokensOK s.toList c hr
    rw [this] at h; exact absurd h (by decide)

/-- The same two facts at the level of the grammar (every text handed to `parseStoich`), with the precise error. -/
theorem reject_unbalanced_part (s : List Char) (h : balanced s = false) : parseStoich s = .error .parse := by
  apply parseStoich_reject s
  · intro e; subst e; revert h; decide
  · intro hacc; rw [hacc.balanced_true] at h; exact absurd h (by decide)

theorem reject_bad_capitalised_token_part (s : List Char) (h : capTokensOK s = false) : parseStoich s = .error .parse := by
  apply parseStoich_reject s
  · intro e; subst e; revert h; decide
  · intro hacc; rw [hacc.capTokensOK_true] at h; exact absurd h (by decide)

/-- Error propagation: if the grammar rejects any one of the hydrate parts of the input (after the code's own peeling of
    prefixes, suffixes, charge token and leading integers), the whole parse is an error — a bad part is never skipped. -/
theorem reject_rejected_part (s : String) (p : List Char) (hp : p ∈ hydrateParts s.toList)
    (hrej : ∀ c, parseStoich p ≠ .ok c) : ∃ e, formulaToComposition s = .error e :=
  part_rejected s.toList p hp hrej

/-- Every accepted input has the shape  prefixes ++ parts joined by the separator ++ charge token ++ suffixes. -/
theorem accepted_input_shape (s : String) (c : Comp) (h : formulaToComposition s = .ok c) :
    ∃ (dp T : List (List Char)) (a chg : List Char),
      s.toList = dp.flatten ++ ((a ++ chg) ++ T.flatten) ∧ (∀ p ∈ dp, p ∈ prefixesL) ∧ (∀ t ∈ T, t ∈ suffixesL) ∧
      (∀ q ∈ (splitStoich a).1 :: (splitStoich a).2, PieceOK q) ∧
      (∀ x ∈ chg, ChgC x) :=
  accepted_shape s.toList c h

example : formulaToComposition "Fe+3-" = .error .charge := by decide +kernel
example : formulaToComposition "Fe+-" = .error .charge := by decide +kernel
example : formulaToComposition "Na++" = .error .multiToken := by decide +kernel
example : '+' ∈ coreOf "Fe+3-(aq)".toList ∧ '-' ∈ coreOf "Fe+3-(aq)".toList := by decide +kernel
example : capTokensOK "NaXx2".toList = false ∧ capTokensOK "Hx".toList = false ∧ capTokensOK "Co(CO)4".toList = true := by decide +kernel
example : formulaToComposition "Hx" = .error .parse := by decide +kernel
example : balanced "[Fe(H2O]6)".toList = false ∧ balanced "(H2O".toList = false ∧ balanced "[Fe(H2O)6]".toList = true := by decide +kernel
example : formulaToComposition "[Fe(H2O)6+3" = .error .parse := by decide +kernel
example : balanced "alpha-[Fe(H2O)6+3(aq)".toList = false ∧ capTokensOK "alpha-NaXx..7H2O+(aq)".toList = false := by decide +kernel
example : hydrateParts "Na2CO3..7Hx2O-(aq)".toList = ["Na2CO3".toList, "Hx2O".toList] := by decide +kernel
example : formulaToComposition "Fe/3+" = .error .slash := by decide +kernel

/-! ### non-vacuity: the well-known formulas are renderings of well-formed ASTs and parse -/

private def d (s : String) : List Char := s.toList
private def el (z : Nat) (n : Cnt := .omitted) : Term := .elem z n none []
private def terms : List Term → Terms := Terms.ofList

/-- `[Fe(H2O)6]+3` -/
def exFeAq : Formula :=
  { prefixes := [], sep := .dots,
    parts := [⟨none, terms [.group .square (terms [el 26, .group .paren (terms [el 1 (.int (d "2")), el 8]) (.int (d "6")) none []]) .omitted none []]⟩],
    charge := some ⟨false, some (d "3")⟩, suffix := none }

/-- `Na2CO3..7H2O` -/
def exSoda : Formula :=
  { prefixes := [], sep := .dots,
    parts := [⟨none, terms [el 11 (.int (d "2")), el 6, el 8 (.int (d "3"))]⟩, ⟨some (d "7"), terms [el 1 (.int (d "2")), el 8]⟩],
    charge := none, suffix := none }

/-- `Ca2.832Fe0.6285Mg5.395(CO3)6` -/
def exAnkerite : Formula :=
  { prefixes := [], sep := .dots,
    parts := [⟨none, terms [el 20 (.dec (d "2") (d "832")), el 26 (.dec (d "0") (d "6285")), el 12 (.dec (d "5") (d "395")),
      .group .paren (terms [el 6, el 8 (.int (d "3"))]) (.int (d "6")) none []]⟩],
    charge := none, suffix := none }

/-- `.NHO-(aq)` (radical prefix, charge, phase suffix) -/
def exRadical : Formula :=
  { prefixes := [d "."], sep := .dots, parts := [⟨none, terms [el 7, el 1, el 8]⟩],
    charge := some ⟨true, none⟩, suffix := some (d "(aq)") }

example : exFeAq.renderStr = "[Fe(H2O)6]+3" ∧ exFeAq.WF := by decide +kernel
example : formulaToComposition "[Fe(H2O)6]+3" = .ok [(26, 1), (1, 12), (8, 6), (0, 3)] := by decide +kernel
example : exSoda.renderStr = "Na2CO3..7H2O" ∧ exSoda.WF := by decide +kernel
example : formulaToComposition "Na2CO3..7H2O" = .ok [(11, 2), (6, 1), (8, 10), (1, 14)] := by decide +kernel
example : exAnkerite.renderStr = "Ca2.832Fe0.6285Mg5.395(CO3)6" ∧ exAnkerite.WF := by decide +kernel
example : formulaToComposition "Ca2.832Fe0.6285Mg5.395(CO3)6"
    = .ok [(20, 2832 / 1000), (26, 6285 / 10000), (12, 5395 / 1000), (6, 6), (8, 18)] := by decide +kernel
example : exRadical.renderStr = ".NHO-(aq)" ∧ exRadical.WF := by decide +kernel
example : formulaToComposition ".NHO-(aq)" = .ok [(7, 1), (1, 1), (8, 1), (0, -1)] := by decide +kernel
example : exFeAq.composition = [(26, 1), (1, 12), (8, 6), (0, 3)] ∧ exSoda.composition = [(11, 2), (6, 1), (8, 10), (1, 14)] := by decide +kernel
example : exSoda.noDecimal = true ∧ exFeAq.noDecimal = true ∧ exAnkerite.noDecimal = false := by decide +kernel
example : exSoda.denote 8 = 10 ∧ exSoda.denote 1 = 14 ∧ exFeAq.denote 0 = 3 ∧ exFeAq.denote 1 = 12 := by decide +kernel

end ChemModel.C01
