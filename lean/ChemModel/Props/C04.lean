/-
C04 — the generated ODE system is exactly the kinetic model of the reaction system.

Property theorems only.  The executable model of the two builders (`get_odesys` → `buildRhs`, `_create_odesys` → `buildRhs'`)
is in Model/OdeBuild.lean; it runs C03's model of `ReactionSystem.rates` (`Kinetics.sysRates`) in the ring of polynomials
`Poly String` — which is what chempy does when it calls its own duck-typed code on sympy symbols.  Helper lemmas are in
Proofs/OdeBuild.lean.

Reading of the statements
* `R` is any commutative ℚ-algebra (ℚ, ℝ, ℂ, a polynomial ring over ℚ …), `env : String → R` binds every symbol by name,
  `ev env p` is the value of the polynomial `p`.  An identity `ev env p = ev env q` for all `R`, `env` is the symbolic identity
  `p = q` (take `R` a polynomial ring and `env` its generators).
* `vars = mkVars substances param_names substitutions` is the `variables` dict the rate expressions are evaluated on,
  `cval vars env k` the value of its entry `k`, `rateVal vars env r` the mass-action rate `k_r · ∏ c_j^ν_j` of reaction `r`
  and `netOf r s` the net stoichiometric coefficient of `s` in `r` (so `Σ_r netOf r s · rateVal r` is row `s` of `Nᵀ·r`).
* "accepted by the builder" is `buildRhs cfg sys = .ok o`.
-/
import ChemModel.Proofs.OdeBuild

namespace ChemModel.C04
open ChemModel.Kinetics ChemModel.OdeBuild

variable {R : Type} [CommRing R] [Algebra ℚ R]

/-! ### The polynomial normal form -/

/-- **Normalisation preserves the value**: sorting the terms, merging equal monomials and dropping zero coefficients does
    not change what a list of terms evaluates to, for every assignment of the symbols in every commutative ℚ-algebra. -/
theorem normalise_eval {σ : Type} [DecidableEq σ] [Ord σ] (env : σ → R) (ts : List (Mono σ × ℚ)) :
    evalTerms (algebraMap ℚ R) env (normalise ts) = evalTerms (algebraMap ℚ R) env ts :=
  evalTerms_normalise env ts

/-- Every operation on normal forms means the corresponding ring operation: evaluation is a ring homomorphism from
    `Poly σ` (the arithmetic sympy performs on `y_i`, `p_j`) to `R`, sending a symbol to its binding. -/
theorem poly_ops_eval {σ : Type} [DecidableEq σ] [Ord σ] (env : σ → R) (p q : Poly σ) (c : ℚ) (v : σ) (n : ℕ) (i : ℤ) :
    ev env (p + q) = ev env p + ev env q ∧ ev env (p - q) = ev env p - ev env q ∧ ev env (p * q) = ev env p * ev env q ∧
      ev env (Poly.const c : Poly σ) = algebraMap ℚ R c ∧ ev env (Poly.var v) = env v ∧
      ev env ((n : Poly σ)) = (n : R) ∧ ev env ((i : Poly σ)) = (i : R) :=
  ⟨ev_add env p q, ev_sub env p q, ev_mul env p q, ev_const env c, ev_var env v, ev_natCast env n, ev_intCast env i⟩

/-! ### The right-hand side is `Nᵀ·r` -/

/-- **`get_odesys`, internal form (holds without any hypothesis on names, also on `name_capture_defect_witness`).**
    It speaks about the rate constants and concentrations *as the `variables` dict resolves them* (`rateVal`, `cval`); the
    statement in the user's terms is `rhs_is_kinetic_model` below.  For every accepted build:
    the dependent-variable names are the substance keys in the system's order, there is exactly one expression per
    substance, every rate constant has a value or a symbol, and the expression of the `i`-th substance `s` evaluates — for
    every binding of the symbols, in every commutative ℚ-algebra — to
    `Σ_r netOf r s · (k_r · ∏_{(j,ν) ∈ reac r} c_j^ν)` (row `s` of `Nᵀ·r`), plus the feed term `F·(c_feed,s − c_s)` when `cstr=True`. -/
theorem rhs_is_NT_r (cfg : Cfg) (sys : Sys) (o : OdeSys) (hnd : sys.subst.Nodup) (h : buildRhs cfg sys = .ok o)
    (env : String → R) :
    o.names = sys.subst ∧ o.exprs.length = sys.subst.length ∧
      (∀ r ∈ sys.rxns, (resolve (mkVars sys.subst o.paramNames cfg.subs) r.param).isSome = true) ∧
      ∀ (i : ℕ) (s : String), sys.subst[i]? = some s → ∃ e, o.exprs[i]? = some e ∧
        ev env e = (sys.rxns.map fun r => (netOf r s : R) * rateVal (mkVars sys.subst o.paramNames cfg.subs) env r).sum +
          (if cfg.cstr = true then
             cval (mkVars sys.subst o.paramNames cfg.subs) env "feedratio" *
               (cval (mkVars sys.subst o.paramNames cfg.subs) env ("fc_" ++ s) - cval (mkVars sys.subst o.paramNames cfg.subs) env s)
           else 0) := by
  obtain ⟨_, _, _, _, _, rs, exprs, hrs, _, hread, ho⟩ := buildRhs_ok h
  subst ho
  obtain ⟨hl, hi⟩ := core_spec _ sys.rxns rs sys.subst _ exprs (cstrOf_nodup hnd) hrs hread env
  refine ⟨rfl, hl, fun r hr => ((resolveAll_spec _ env "" sys.rxns rs hrs).2.2 r hr).1, ?_⟩
  intro i s hs
  obtain ⟨e, he, hev⟩ := hi i s hs
  refine ⟨e, he, ?_⟩
  rw [hev, feedVal_cstrOf _ env cfg.cstr (List.mem_of_getElem? hs)]

/-- **`_create_odesys`, internal form** (see `rhs'_is_kinetic_model` for the statement in the user's terms). -/
theorem rhs'_is_NT_r (cfg : Cfg') (sys : Sys) (o : OdeSys') (hnd : sys.subst.Nodup) (h : buildRhs' cfg sys = .ok o)
    (env : String → R) :
    o.names = sys.subst ∧ o.exprs.length = sys.subst.length ∧
      (∀ r ∈ sys.rxns, (resolve (mkVars sys.subst o.paramNames cfg.paramExprs) r.param).isSome = true) ∧
      ∀ (i : ℕ) (s : String), sys.subst[i]? = some s → ∃ e, o.exprs[i]? = some e ∧
        ev env e = (sys.rxns.map fun r => (netOf r s : R) * rateVal (mkVars sys.subst o.paramNames cfg.paramExprs) env r).sum +
          (if cfg.cstr = true then
             cval (mkVars sys.subst o.paramNames cfg.paramExprs) env "feedratio" *
               (cval (mkVars sys.subst o.paramNames cfg.paramExprs) env ("fc_" ++ s) -
                 cval (mkVars sys.subst o.paramNames cfg.paramExprs) env s)
           else 0) := by
  obtain ⟨ks, _, _, _, _, rs, exprs, hrs, hread, ho⟩ := buildRhs'_ok h
  subst ho
  obtain ⟨hl, hi⟩ := core_spec _ sys.rxns rs sys.subst _ exprs (cstrOf_nodup hnd) hrs hread env
  refine ⟨rfl, hl, fun r hr => ((resolveAll_spec _ env "" sys.rxns rs hrs).2.2 r hr).1, ?_⟩
  intro i s hs
  obtain ⟨e, he, hev⟩ := hi i s hs
  refine ⟨e, he, ?_⟩
  rw [hev, feedVal_cstrOf _ env cfg.cstr (List.mem_of_getElem? hs)]

/-- **The per-reaction rates** behind `extra['rate_exprs_cb']` are the mass-action rates `k_r · ∏ c_j^ν_j`, one per
    reaction in the order of `rsys.rxns`. -/
theorem rate_exprs_spec (cfg : Cfg) (sys : Sys) (o : OdeSys) (h : buildRhs cfg sys = .ok o) (env : String → R) :
    o.rateExprs.map (ev env) = sys.rxns.map (rateVal (mkVars sys.subst o.paramNames cfg.subs) env) := by
  obtain ⟨_, _, _, _, _, rs, exprs, hrs, _, _, ho⟩ := buildRhs_ok h
  subst ho
  exact (resolveAll_spec _ env "" sys.rxns rs hrs).2.1

/-! ### The right-hand side is `Nᵀ·r` in the user's terms

`kineticRhs subs cstr env rxns s = Σ_r netOf r s · (kOf subs env r.param · ∏_{(j,ν) ∈ reac r} (env j)^ν) + [cstr] F·(c_feed,s − env s)`
where `env j` is the concentration of substance `j` (bound by its name), `kOf` is the reaction's own rate constant — the STORED
constant of a plain or named parameter (the substituted value if its key is substituted), the binding `env uk` of a value-less
key `uk` — and `F`, `c_feed,s` are `env "feedratio"`, `env ("fc_" ++ s)` (or their substituted values).  No `mkVars`, no
`resolve`, no `cval`.  `noCapture` (decidable) says that the name spaces merged by `variables` do not overlap. -/

/-- **`get_odesys`: the generated right-hand side is the kinetic model of the user's reaction system.**  For every system and
    configuration accepted by the builder, if no name is captured (`noCapture`), then for every binding `env` of the free
    symbols — concentrations by substance key, exposed parameters by their names — that binds each exposed named constant to
    its stored value (only relevant for `include_params=False`): names = substance keys in order, one expression per
    substance, and the expression of substance `s` evaluates to row `s` of `Nᵀ·r` (+ feed), with each reaction's OWN constant
    and the substances' OWN concentrations. -/
theorem rhs_is_kinetic_model (cfg : Cfg) (sys : Sys) (o : OdeSys) (hnd : sys.subst.Nodup) (hsub : (dkeys cfg.subs).Nodup)
    (h : buildRhs cfg sys = .ok o) (hnc : noCapture sys (dkeys cfg.subs) cfg.cstr = true) (env : String → R)
    (hbind : cfg.includeParams = false → ∀ r ∈ sys.rxns, ∀ uk k, r.param = .named uk k → uk ∉ dkeys cfg.subs →
      env uk = algebraMap ℚ R k) :
    o.names = sys.subst ∧ o.exprs.length = sys.subst.length ∧
      (o.rateExprs.map (ev env) =
        sys.rxns.map fun r => kOf cfg.subs env r.param * (r.reac.map fun jν => env jν.1 ^ jν.2).prod) ∧
      ∀ (i : ℕ) (s : String), sys.subst[i]? = some s → ∃ e, o.exprs[i]? = some e ∧
        ev env e = kineticRhs cfg.subs cfg.cstr env sys.rxns s := by
  obtain ⟨hreacN, hukN, hsubsN, hcsN, hukC⟩ := (noCapture_iff _ _ _).mp hnc
  obtain ⟨_, _, _, _, _, rs, exprs, hrs, hneed, hread, ho⟩ := buildRhs_ok h
  subst ho
  obtain ⟨hl, hi⟩ := core_spec _ sys.rxns rs sys.subst _ exprs (cstrOf_nodup hnd) hrs hread env
  have hspec := resolveAll_spec (R := R) _ env "" sys.rxns rs hrs
  have hrate : ∀ r ∈ sys.rxns, rateVal (mkVars sys.subst (paramNamesOf cfg sys) cfg.subs) env r =
      kOf cfg.subs env r.param * (r.reac.map fun jν => env jν.1 ^ jν.2).prod := by
    intro r hr
    apply rateVal_explicit sys.subst _ cfg.subs hsub env r (hreacN r hr) hsubsN
      (fun uk huk => hukN uk (mem_oriUk.mpr ⟨r, hr, huk⟩)) ?_ (hspec.2.2 r hr).1
    intro uk k hp hns hps
    cases hi' : cfg.includeParams with
    | false => exact hbind hi' r hr uk k hp hns
    | true =>
      exfalso
      rw [mem_paramNamesOf] at hps
      rcases hps with hps | ⟨hf, _⟩
      · exact hukC uk (mem_oriUk.mpr ⟨r, hr, by simp [hp, RateParam.uniqueKey?]⟩) ((mem_allPk _ _ _).mp hps).1
      · rw [hi'] at hf; cases hf
  refine ⟨rfl, hl, ?_, ?_⟩
  · show (rs.map (massAction (lookup _))).map (ev env) = _
    rw [hspec.2.1]
    exact List.map_congr_left hrate
  intro i s hs
  obtain ⟨e, he, hev⟩ := hi i s hs
  refine ⟨e, he, ?_⟩
  have hmem : s ∈ sys.subst := List.mem_of_getElem? hs
  rw [hev, feedVal_cstrOf _ env cfg.cstr hmem]
  unfold kineticRhs
  congr 1
  · congr 1
    apply List.map_congr_left
    intro r hr
    rw [hrate r hr]
  · by_cases hc : cfg.cstr = true
    · have hneed' : ∀ k ∈ cstrNeeded (cstrOf true sys.subst),
          dmem (mkVars sys.subst (paramNamesOf cfg sys) cfg.subs) k = true := by simpa [hc] using hneed
      obtain ⟨m1, m2, m3⟩ := mem_cstrNeeded hmem
      rw [if_pos hc, if_pos hc, cval_eq_pval _ _ _ hsub env (hneed' _ m1), cval_eq_pval _ _ _ hsub env (hneed' _ m2),
        cval_eq_pval _ _ _ hsub env (hneed' _ m3), pval_of_not_subs cfg.subs env (fun hk => hsubsN s hk hmem)]
    · rw [if_neg hc, if_neg hc]

/-- **`_create_odesys`: the same statement for the alternative builder.**  Named constants are always exposed there, so the
    binding hypothesis is unconditional; `parameter_expressions` plays the role of the substitutions. -/
theorem rhs'_is_kinetic_model (cfg : Cfg') (sys : Sys) (o : OdeSys') (hnd : sys.subst.Nodup) (hsub : (dkeys cfg.paramExprs).Nodup)
    (h : buildRhs' cfg sys = .ok o) (hnc : noCapture sys (dkeys cfg.paramExprs) cfg.cstr = true) (env : String → R)
    (hbind : ∀ r ∈ sys.rxns, ∀ uk k, r.param = .named uk k → uk ∉ dkeys cfg.paramExprs → env uk = algebraMap ℚ R k) :
    o.names = sys.subst ∧ o.exprs.length = sys.subst.length ∧
      ∀ (i : ℕ) (s : String), sys.subst[i]? = some s → ∃ e, o.exprs[i]? = some e ∧
        ev env e = kineticRhs cfg.paramExprs cfg.cstr env sys.rxns s := by
  obtain ⟨hreacN, hukN, hsubsN, hcsN, hukC⟩ := (noCapture_iff _ _ _).mp hnc
  obtain ⟨ks, _, _, _, _, rs, exprs, hrs, hread, ho⟩ := buildRhs'_ok h
  subst ho
  obtain ⟨hl, hi⟩ := core_spec _ sys.rxns rs sys.subst _ exprs (cstrOf_nodup hnd) hrs hread env
  have hspec := resolveAll_spec (R := R) _ env "" sys.rxns rs hrs
  refine ⟨rfl, hl, ?_⟩
  intro i s hs
  obtain ⟨e, he, hev⟩ := hi i s hs
  refine ⟨e, he, ?_⟩
  have hmem : s ∈ sys.subst := List.mem_of_getElem? hs
  rw [hev, feedVal_cstrOf _ env cfg.cstr hmem]
  unfold kineticRhs
  congr 1
  · congr 1
    apply List.map_congr_left
    intro r hr
    rw [rateVal_explicit sys.subst _ cfg.paramExprs hsub env r (hreacN r hr) hsubsN
      (fun uk huk => hukN uk (mem_oriUk.mpr ⟨r, hr, huk⟩)) (fun uk k hp hns _ => hbind r hr uk k hp hns) (hspec.2.2 r hr).1]
  · by_cases hc : cfg.cstr = true
    · -- the CSTR keys are parameter symbols (or overridden constants): defined in `variables`
      have hdm : ∀ k ∈ cstrKeys (cstrOf cfg.cstr sys.subst),
          dmem (mkVars sys.subst (ks ++ cstrKeys (cstrOf cfg.cstr sys.subst)) cfg.paramExprs) k = true := by
        intro k hk
        by_cases hm : k ∈ dkeys cfg.paramExprs
        · cases hv : dget? cfg.paramExprs k with
          | none => exact absurd hm (dget?_eq_none_iff.mp hv)
          | some v => simp [dmem, dget?_mkVars_subs _ _ _ hsub hv]
        · exact (dmem_mkVars_not_subs _ _ _ hm).mpr (Or.inl (List.mem_append_right _ hk))
      have hfr : "feedratio" ∈ cstrKeys (cstrOf cfg.cstr sys.subst) := by simp [hc, cstrOf, cstrKeys]
      have hfc : ("fc_" ++ s) ∈ cstrKeys (cstrOf cfg.cstr sys.subst) := by
        simp only [hc, cstrOf, if_true, cstrKeys, List.map_map, List.mem_cons, List.mem_map, Function.comp_def]
        exact Or.inr ⟨s, hmem, rfl⟩
      have hs' : s ∉ dkeys cfg.paramExprs := fun hk => hsubsN s hk hmem
      have hds : dmem (mkVars sys.subst (ks ++ cstrKeys (cstrOf cfg.cstr sys.subst)) cfg.paramExprs) s = true :=
        (dmem_mkVars_not_subs _ _ _ hs').mpr (Or.inr hmem)
      rw [if_pos hc, if_pos hc, cval_eq_pval _ _ _ hsub env (hdm _ hfr), cval_eq_pval _ _ _ hsub env (hdm _ hfc),
        cval_eq_pval _ _ _ hsub env hds, pval_of_not_subs cfg.paramExprs env hs']
    · rw [if_neg hc, if_neg hc]

/-- **Binding invariance in the user's terms.**  For one system and one set of substitutions, the build with free
    parameters — its exposed named constants bound to their stored values — and the build with inlined parameters both
    evaluate to the same `Nᵀ·r` of the user's data, expression by expression.  (No hypothesis on shared keys is needed here:
    two named constants sharing a key with different values make the binding hypothesis unsatisfiable.) -/
theorem binding_invariance_explicit (cfg : Cfg) (sys : Sys) (oF oI : OdeSys) (hnd : sys.subst.Nodup)
    (hsub : (dkeys cfg.subs).Nodup) (hF : buildRhs (freeOf cfg) sys = .ok oF) (hI : buildRhs (inlinedOf cfg) sys = .ok oI)
    (hnc : noCapture sys (dkeys cfg.subs) cfg.cstr = true) (env : String → R)
    (hbind : ∀ r ∈ sys.rxns, ∀ uk k, r.param = .named uk k → uk ∉ dkeys cfg.subs → env uk = algebraMap ℚ R k) :
    ∀ (i : ℕ) (s : String), sys.subst[i]? = some s → ∃ e₁ e₂, oF.exprs[i]? = some e₁ ∧ oI.exprs[i]? = some e₂ ∧
      ev env e₁ = kineticRhs cfg.subs cfg.cstr env sys.rxns s ∧ ev env e₂ = kineticRhs cfg.subs cfg.cstr env sys.rxns s := by
  intro i s hs
  obtain ⟨e₁, h1, v1⟩ := (rhs_is_kinetic_model (freeOf cfg) sys oF hnd hsub hF hnc env (fun _ => hbind)).2.2.2 i s hs
  obtain ⟨e₂, h2, v2⟩ := (rhs_is_kinetic_model (inlinedOf cfg) sys oI hnd hsub hI hnc env (fun hc => by cases hc)).2.2.2 i s hs
  exact ⟨e₁, e₂, h1, h2, v1, v2⟩

/-- **The two entry points agree, in the user's terms**: `get_odesys(include_params=False, cstr=b)` and
    `_create_odesys(cstr b)` both evaluate to the same `Nᵀ·r` of the user's data. -/
theorem builders_agree_explicit (sys : Sys) (b pn pn' : Bool) (o₁ : OdeSys) (o₂ : OdeSys') (hnd : sys.subst.Nodup)
    (h₁ : buildRhs { includeParams := false, subs := [], cstr := b, pyNums := pn } sys = .ok o₁)
    (h₂ : buildRhs' { cstr := b, paramExprs := [], pyNums := pn' } sys = .ok o₂)
    (hnc : noCapture sys [] b = true) (env : String → R)
    (hbind : ∀ r ∈ sys.rxns, ∀ uk k, r.param = .named uk k → env uk = algebraMap ℚ R k) :
    ∀ (i : ℕ) (s : String), sys.subst[i]? = some s → ∃ e₁ e₂, o₁.exprs[i]? = some e₁ ∧ o₂.exprs[i]? = some e₂ ∧
      ev env e₁ = kineticRhs [] b env sys.rxns s ∧ ev env e₂ = kineticRhs [] b env sys.rxns s := by
  intro i s hs
  obtain ⟨e₁, h1, v1⟩ := (rhs_is_kinetic_model _ sys o₁ hnd (by simp [dkeys]) h₁ (by simpa [dkeys] using hnc) env
    (fun _ r hr uk k hp _ => hbind r hr uk k hp)).2.2.2 i s hs
  obtain ⟨e₂, h2, v2⟩ := (rhs'_is_kinetic_model _ sys o₂ hnd (by simp [dkeys]) h₂ (by simpa [dkeys] using hnc) env
    (fun r hr uk k hp _ => hbind r hr uk k hp)).2.2 i s hs
  exact ⟨e₁, e₂, h1, h2, v1, v2⟩

/-- **When `get_odesys` accepts** (success characterisation for the theorems above, which all assume an accepted build):
    at least one reaction; no captured name (`noCapture`); every species of every reaction is a substance; every substance
    takes part in some reaction, or the tank is fed; substitution keys are keys of the rate model; `'time'` is not used as a
    name; with `include_params=True` every value-less key is substituted; the constants are sympy numbers.
    (The converse directions — what an accepted build implies — are `buildRhs_ok` in Proofs and `param_names_spec`.) -/
theorem get_odesys_accepts (cfg : Cfg) (sys : Sys) (hnd : sys.subst.Nodup) (hsub : (dkeys cfg.subs).Nodup)
    (hne : sys.rxns ≠ []) (hnc : noCapture sys (dkeys cfg.subs) cfg.cstr = true)
    (hspecies : ∀ r ∈ sys.rxns, ∀ j ∈ speciesOf r, j ∈ sys.subst)
    (hpart : cfg.cstr = true ∨ ∀ s ∈ sys.subst, ∃ r ∈ sys.rxns, s ∈ speciesOf r)
    (hsubs : ∀ k ∈ dkeys cfg.subs, k ∈ cstrKeys (cstrOf cfg.cstr sys.subst) ∨ k ∈ oriUk sys.rxns)
    (htime : "time" ∉ sys.subst ∧ "time" ∉ oriUk sys.rxns)
    (hval : cfg.includeParams = true → ∀ r ∈ sys.rxns, ∀ uk, (r.param = .key uk ∨ r.param = .sym uk) → uk ∈ dkeys cfg.subs)
    (hpy : cfg.pyNums = false) : ∃ o, buildRhs cfg sys = .ok o :=
  buildRhs_accepts cfg sys hnd hsub hne hnc hspecies hpart hsubs htime hval hpy

/-- **Necessary conditions of acceptance** (the converse side of `get_odesys_accepts`): whenever `get_odesys` accepts, the
    system has at least one reaction, every substitution key is a parameter key or a unique key of the rate model, no substance
    key is an exposed parameter name, `'time'` is neither a substance nor a parameter name, every rate constant has a value
    or a symbol, and every key the CSTR block reads is defined.  (Together with `get_odesys_accepts` this brackets the accepted
    set; the two sides differ only in the name-capture cases and the Python-number right-hand sides.) -/
theorem get_odesys_accepted_implies (cfg : Cfg) (sys : Sys) (o : OdeSys) (h : buildRhs cfg sys = .ok o) :
    sys.rxns ≠ [] ∧
    (∀ kv ∈ cfg.subs, kv.1 ∈ cstrKeys (cstrOf cfg.cstr sys.subst) ∨ kv.1 ∈ oriUk sys.rxns) ∧
    (∀ n ∈ sys.subst, n ∉ o.paramNames) ∧ "time" ∉ sys.subst ∧ "time" ∉ o.paramNames ∧
    (∀ r ∈ sys.rxns, (resolve (mkVars sys.subst o.paramNames cfg.subs) r.param).isSome = true ∧
      ∀ j ∈ dkeys r.reac, dmem (mkVars sys.subst o.paramNames cfg.subs) j = true) ∧
    (∀ k ∈ cstrNeeded (cstrOf cfg.cstr sys.subst), dmem (mkVars sys.subst o.paramNames cfg.subs) k = true) := by
  obtain ⟨h1, h2, h3, h4, h5, rs, exprs, hrs, hneed, _, ho⟩ := buildRhs_ok h
  subst ho
  exact ⟨h1, h2, h3, h4, h5, (resolveAll_spec (R := ℚ) _ (fun _ => 0) "" sys.rxns rs hrs).2.2, hneed⟩

/-- **When `_create_odesys` accepts** (default symbols; success characterisation for `rhs'_is_kinetic_model`,
    `builders_agree`, …): no plain-number parameter; the keys collected from the reactions (`createKeys`: unique keys in reaction
    order, a string key only if it has no `parameter_expressions` entry) and the CSTR keys are pairwise distinct; `'time'` and
    `'t'` are not used as names; no key that is read raw (active reactant, `Symbol` argument, CSTR key) is a
    `parameter_expressions` key; every active reactant is a substance; every substance takes part in some reaction or the tank
    is fed; the constants are sympy numbers.  Unlike `get_odesys` no name-clash condition is needed — `_create_odesys` never
    checks one (the listed finding `_create_odesys:substance-named-like-parameter-key`). -/
theorem create_odesys_accepts (cfg : Cfg') (sys : Sys) (hpe : (dkeys cfg.paramExprs).Nodup)
    (hnoraw : ∀ r ∈ sys.rxns, ∀ k, r.param ≠ .raw k)
    (hkeys : (createKeys cfg.paramExprs sys.rxns ++ cstrKeys (cstrOf cfg.cstr sys.subst)).Nodup)
    (htime : "time" ∉ sys.subst ∧ "time" ∉ createKeys cfg.paramExprs sys.rxns ++ cstrKeys (cstrOf cfg.cstr sys.subst) ∧
      "time" ∉ referenced sys.rxns ∧ "time" ∉ dkeys cfg.paramExprs)
    (ht : "t" ∉ sys.subst ∧ "t" ∉ createKeys cfg.paramExprs sys.rxns ++ cstrKeys (cstrOf cfg.cstr sys.subst))
    (hraw : ∀ k ∈ rawReads sys.rxns (cstrOf cfg.cstr sys.subst), k ∉ dkeys cfg.paramExprs)
    (hreac : ∀ r ∈ sys.rxns, ∀ j ∈ dkeys r.reac, j ∈ sys.subst)
    (hpart : cfg.cstr = true ∨ ∀ s ∈ sys.subst, ∃ r ∈ sys.rxns, s ∈ speciesOf r)
    (hpy : cfg.pyNums = false) : ∃ o, buildRhs' cfg sys = .ok o :=
  buildRhs'_accepts cfg sys hpe hnoraw hkeys htime ht hraw hreac hpart hpy

/-- **Necessary conditions of acceptance by `_create_odesys`**: the key collection succeeded (so no plain-number parameter), the
    collected keys and CSTR keys are pairwise distinct and are exactly the parameter names in that order, `'time'` is not among
    them, and no raw-read key is a `parameter_expressions` key. -/
theorem create_odesys_accepted_implies (cfg : Cfg') (sys : Sys) (o : OdeSys') (h : buildRhs' cfg sys = .ok o) :
    ∃ ks, collectKeys cfg.paramExprs sys.rxns = .ok ks ∧
      o.paramNames = ks ++ cstrKeys (cstrOf cfg.cstr sys.subst) ∧ o.paramNames.Nodup ∧ "time" ∉ o.paramNames ∧
      (∀ k ∈ rawReads sys.rxns (cstrOf cfg.cstr sys.subst), dmem cfg.paramExprs k = false) ∧ o.names = sys.subst := by
  obtain ⟨ks, hks, hnd, htime, hraw, rs, exprs, _, _, ho⟩ := buildRhs'_ok h
  subst ho
  exact ⟨ks, hks, rfl, hnd, htime, hraw, rfl⟩

/-! ### Parameter names -/

/-- **The exposed parameter names.**  For every accepted build of `get_odesys`:
    * the parameter names are duplicate-free and disjoint from the dependent-variable names;
    * `extra['param_keys']` are exactly the parameter keys of the rate model (here the CSTR keys) that are not substituted;
    * with `include_params=True` nothing else is exposed and `extra['unique']` is empty;
    * with `include_params=False` the names are the parameter keys followed by the registered unique keys (those not already
      parameter keys), and `extra['unique']` lists exactly the unique keys of the rate expressions that are not
      substituted, duplicate-free, in the order in which the reactions register them. -/
theorem param_names_spec (cfg : Cfg) (sys : Sys) (o : OdeSys) (h : buildRhs cfg sys = .ok o) :
    o.paramNames.Nodup ∧ (∀ n ∈ o.names, n ∉ o.paramNames) ∧
      (∀ p, p ∈ o.paramKeys ↔ p ∈ cstrKeys (cstrOf cfg.cstr sys.subst) ∧ p ∉ dkeys cfg.subs ∧ p ≠ "time") ∧
      (cfg.includeParams = true → o.paramNames = o.paramKeys ∧ o.unique = []) ∧
      (cfg.includeParams = false →
        o.paramNames = o.paramKeys ++ (dkeys o.unique).filter (fun k => !(decide (k ∈ o.paramKeys))) ∧
        dkeys o.unique = firstOccurrencesFrom []
          ((sys.rxns.filterMap fun r => r.param.uniqueKey?).filter fun k => !(dmem cfg.subs k))) := by
  obtain ⟨_, _, hclash, _, _, rs, exprs, _, _, _, ho⟩ := buildRhs_ok h
  subst ho
  have hu : (dkeys (uniqueDict cfg sys.rxns)).Nodup ∧ (cfg.includeParams = false →
      dkeys (uniqueDict cfg sys.rxns) = firstOccurrencesFrom []
        ((sys.rxns.filterMap fun r => r.param.uniqueKey?).filter fun k => !(dmem cfg.subs k))) := by
    unfold uniqueDict
    cases cfg.includeParams with
    | true => simp [dkeys]
    | false =>
      simp only [Bool.false_eq_true, if_false, forall_const]
      rw [dkeys_foldl_regUnique]
      exact ⟨nodup_firstOccurrencesFrom _ _ (by simp [dkeys]), rfl⟩
  have hpk : (allPk cfg sys.subst).Nodup := (nodup_dedupKeys _).filter _
  refine ⟨?_, hclash, fun p => mem_allPk cfg sys.subst p, ?_, ?_⟩
  · show (paramNamesOf cfg sys).Nodup
    unfold paramNamesOf
    cases cfg.includeParams with
    | true => simpa using hpk
    | false =>
      simp only [Bool.false_eq_true, if_false]
      rw [List.nodup_append]
      refine ⟨hpk, hu.1.filter _, ?_⟩
      intro a ha b hb e
      subst e
      simp only [List.mem_filter, Bool.not_eq_true', decide_eq_false_iff_not] at hb
      exact hb.2 ha
  · intro hi
    simp [paramNamesOf, uniqueDict, hi]
  · intro hi
    exact ⟨by simp [paramNamesOf, hi], hu.2 hi⟩

/-! ### Freeing, inlining, the other builder -/

/-- **Binding invariance (`include_params=False` versus `include_params=True`).**  Take any configuration `cfg` and build
    the system twice: with the rate constants left as free parameters (`freeOf cfg`) and inlined (`inlinedOf cfg`), both
    accepted.  Bind every exposed parameter that has a stored constant to that constant (`extra['unique'][uk] = k` ⇒
    `env uk = k`); all other symbols are bound arbitrarily but equally.  Then every right-hand side of the free build
    evaluates to the same value as the corresponding one of the inlined build.
    Hypothesis `hkeys` is the documented precondition of `unique_keys` ("unique among all instances"): reactions that
    share a unique key carry the same parameter; `shared_key_defect_witness` shows that it cannot be dropped. -/
theorem binding_invariance (cfg : Cfg) (sys : Sys) (oF oI : OdeSys) (hnd : sys.subst.Nodup)
    (hF : buildRhs (freeOf cfg) sys = .ok oF) (hI : buildRhs (inlinedOf cfg) sys = .ok oI)
    (hkeys : ∀ r₁ ∈ sys.rxns, ∀ r₂ ∈ sys.rxns, ∀ uk, r₁.param.uniqueKey? = some uk → r₂.param.uniqueKey? = some uk →
      r₁.param = r₂.param)
    (env : String → R) (henv : ∀ uk k, dget? oF.unique uk = some (some k) → env uk = algebraMap ℚ R k) :
    oF.names = oI.names ∧ oF.exprs.length = oI.exprs.length ∧
      ∀ (i : ℕ) (e₁ e₂ : Poly String), oF.exprs[i]? = some e₁ → oI.exprs[i]? = some e₂ → ev env e₁ = ev env e₂ := by
  obtain ⟨_, _, _, _, _, rsF, exF, hrF, _, hreadF, hoF⟩ := buildRhs_ok hF
  obtain ⟨_, _, _, _, _, rsI, exI, hrI, hneedI, hreadI, hoI⟩ := buildRhs_ok hI
  subst hoF hoI
  obtain ⟨hlF, hiF⟩ := core_spec _ sys.rxns rsF sys.subst _ exF (cstrOf_nodup hnd) hrF hreadF env
  obtain ⟨hlI, hiI⟩ := core_spec _ sys.rxns rsI sys.subst _ exI (cstrOf_nodup hnd) hrI hreadI env
  refine ⟨rfl, by rw [hlF, hlI], ?_⟩
  intro i e₁ e₂ h1 h2
  have hlt : i < sys.subst.length := by
    have := (List.getElem?_eq_some_iff.mp h1).1
    rw [hlF] at this; exact this
  have hs : sys.subst[i]? = some sys.subst[i] := List.getElem?_eq_getElem hlt
  obtain ⟨e₁', he₁, hv₁⟩ := hiF i _ hs
  obtain ⟨e₂', he₂, hv₂⟩ := hiI i _ hs
  rw [h1] at he₁; rw [h2] at he₂
  cases he₁; cases he₂
  rw [hv₁, hv₂]
  have hspecI := (resolveAll_spec (R := R) _ env "" sys.rxns rsI hrI).2.2
  congr 1
  · congr 1
    apply List.map_congr_left
    intro r hr
    rw [rateVal_free_eq_inlined cfg sys env hkeys henv r hr (hspecI r hr).1 (hspecI r hr).2]
  · have hmem : sys.subst[i] ∈ sys.subst := List.getElem_mem hlt
    rw [feedVal_cstrOf _ env _ hmem, feedVal_cstrOf _ env _ hmem]
    show (if cfg.cstr = true then _ else _) = (if cfg.cstr = true then _ else _)
    by_cases hc : cfg.cstr = true
    · have hneed : ∀ k ∈ cstrNeeded (cstrOf true sys.subst),
          dmem (mkVars sys.subst (paramNamesOf (inlinedOf cfg) sys) cfg.subs) k = true := by
        have := hneedI
        simpa [inlinedOf, hc] using this
      obtain ⟨m1, m2, m3⟩ := mem_cstrNeeded hmem
      rw [if_pos hc, if_pos hc]
      rw [cval_free_eq_inlined cfg sys env _ (hneed _ m1), cval_free_eq_inlined cfg sys env _ (hneed _ m2),
        cval_free_eq_inlined cfg sys env _ (hneed _ m3)]
    · rw [if_neg hc, if_neg hc]

/-- **Substitution invariance.**  Build the system with the rate constants free (`include_params=False`), once with the
    passive substitutions `cfg.subs` and once without (`unsubstOf cfg`), both accepted.  Every substituted key is then a free
    symbol of the build without substitutions, and binding those symbols to the substituted values (`env k = v`) makes every
    right-hand side of the unsubstituted build evaluate to the value of the substituted one: a substitution changes which
    symbols are free, never the bound value.  (`cfg.subs` is a Python dict: distinct keys; `'time'` is reserved.) -/
theorem substitution_invariance (cfg : Cfg) (hi : cfg.includeParams = false) (sys : Sys) (oS o0 : OdeSys) (hnd : sys.subst.Nodup)
    (hsub : (dkeys cfg.subs).Nodup) (htime : "time" ∉ dkeys cfg.subs)
    (hS : buildRhs cfg sys = .ok oS) (h0 : buildRhs (unsubstOf cfg) sys = .ok o0)
    (env : String → R) (henv : ∀ k v, dget? cfg.subs k = some v → env k = algebraMap ℚ R v) :
    (∀ k ∈ dkeys cfg.subs, k ∈ o0.paramNames ∧ k ∉ oS.paramNames) ∧ oS.exprs.length = o0.exprs.length ∧
      ∀ (i : ℕ) (e₁ e₂ : Poly String), oS.exprs[i]? = some e₁ → o0.exprs[i]? = some e₂ → ev env e₁ = ev env e₂ := by
  obtain ⟨_, hSk, _, _, _, rsS, exS, hrS, hneedS, hreadS, hoS⟩ := buildRhs_ok hS
  obtain ⟨_, _, _, _, _, rs0, ex0, hr0, _, hread0, ho0⟩ := buildRhs_ok h0
  subst hoS ho0
  obtain ⟨hlS, hiS⟩ := core_spec _ sys.rxns rsS sys.subst _ exS (cstrOf_nodup hnd) hrS hreadS env
  obtain ⟨hl0, hi0⟩ := core_spec _ sys.rxns rs0 sys.subst _ ex0 (cstrOf_nodup hnd) hr0 hread0 env
  refine ⟨?_, by rw [hlS, hl0], ?_⟩
  · intro k hk
    refine ⟨subs_key_is_param cfg hi sys hSk htime hk, ?_⟩
    show k ∉ paramNamesOf cfg sys
    rw [mem_paramNamesOf, mem_allPk, mem_uniqueDict cfg hi]
    rintro (⟨_, h, _⟩ | ⟨_, r, _, _, h⟩)
    · exact h hk
    · rw [dmem_iff.mpr hk] at h; cases h
  intro i e₁ e₂ h1 h2
  have hlt : i < sys.subst.length := by
    have := (List.getElem?_eq_some_iff.mp h1).1
    rw [hlS] at this; exact this
  have hs : sys.subst[i]? = some sys.subst[i] := List.getElem?_eq_getElem hlt
  obtain ⟨e₁', he₁, hv₁⟩ := hiS i _ hs
  obtain ⟨e₂', he₂, hv₂⟩ := hi0 i _ hs
  rw [h1] at he₁; rw [h2] at he₂
  cases he₁; cases he₂
  rw [hv₁, hv₂]
  have hspecS := (resolveAll_spec (R := R) _ env "" sys.rxns rsS hrS).2.2
  congr 1
  · congr 1
    apply List.map_congr_left
    intro r hr
    exact congrArg (fun x => (netOf r sys.subst[i] : R) * x)
      (rateVal_subs_eq cfg hi sys hsub hSk htime env henv r hr (hspecS r hr).1 (hspecS r hr).2)
  · have hmem : sys.subst[i] ∈ sys.subst := List.getElem_mem hlt
    rw [feedVal_cstrOf _ env _ hmem, feedVal_cstrOf _ env _ hmem]
    show (if cfg.cstr = true then _ else _) = (if cfg.cstr = true then _ else _)
    by_cases hc : cfg.cstr = true
    · have hneed : ∀ k ∈ cstrNeeded (cstrOf true sys.subst),
          dmem (mkVars sys.subst (paramNamesOf cfg sys) cfg.subs) k = true := by
        have := hneedS
        simpa [hc] using this
      obtain ⟨m1, m2, m3⟩ := mem_cstrNeeded hmem
      rw [if_pos hc, if_pos hc]
      rw [cval_subs_eq cfg hi sys hsub hSk htime env henv (hneed _ m1), cval_subs_eq cfg hi sys hsub hSk htime env henv (hneed _ m2),
        cval_subs_eq cfg hi sys hsub hSk htime env henv (hneed _ m3)]
    · rw [if_neg hc, if_neg hc]

/-- **The two entry points agree.**  When `get_odesys(rsys, include_params=False, cstr=b)` and
    `_create_odesys(rsys, rates_kw=cstr b)` (no substitutions, no parameter expressions) both accept a system, they give the
    same dependent-variable names, the same set of parameter names, and literally the same right-hand sides (as normal
    forms in the symbols' names). -/
theorem builders_agree (sys : Sys) (b pn pn' : Bool) (o₁ : OdeSys) (o₂ : OdeSys')
    (h₁ : buildRhs { includeParams := false, subs := [], cstr := b, pyNums := pn } sys = .ok o₁)
    (h₂ : buildRhs' { cstr := b, paramExprs := [], pyNums := pn' } sys = .ok o₂) :
    o₁.names = o₂.names ∧ (∀ p, p ∈ o₁.paramNames ↔ p ∈ o₂.paramNames) ∧ o₁.exprs = o₂.exprs := by
  obtain ⟨_, _, _, _, _, rs₁, ex₁, hr₁, _, hread₁, ho₁⟩ := buildRhs_ok h₁
  obtain ⟨ks, hks, _, htime, _, rs₂, ex₂, hr₂, hread₂, ho₂⟩ := buildRhs'_ok h₂
  subst ho₁ ho₂
  have hps : ∀ p, p ∈ paramNamesOf { includeParams := false, subs := [], cstr := b, pyNums := pn } sys ↔
      p ∈ ks ++ cstrKeys (cstrOf b sys.subst) := by
    intro p
    rw [mem_paramNamesOf, mem_allPk, mem_uniqueDict _ rfl, List.mem_append, mem_collectKeys_nil p sys.rxns ks hks]
    simp only [dkeys, List.map_nil, List.not_mem_nil, not_false_eq_true, true_and, dmem, dget?_nil, Option.isSome_none, and_true]
    constructor
    · rintro (⟨h, _⟩ | h)
      · exact Or.inr h
      · exact Or.inl h
    · rintro (h | h)
      · exact Or.inr h
      · exact Or.inl ⟨h, fun e => htime (by rw [← e]; exact List.mem_append_right _ h)⟩
  have hv : ∀ k, dget? (mkVars sys.subst (paramNamesOf { includeParams := false, subs := [], cstr := b, pyNums := pn } sys) []) k =
      dget? (mkVars sys.subst (ks ++ cstrKeys (cstrOf b sys.subst)) []) k := by
    intro k
    rw [dget?_mkVars_not_subs _ _ _ (by simp [dkeys]), dget?_mkVars_not_subs _ _ _ (by simp [dkeys])]
    simp only [hps k]
  refine ⟨rfl, hps, ?_⟩
  show ex₁ = ex₂
  have e1 : rs₁ = rs₂ := by
    have := resolveAll_congr hv sys.rxns
    change resolveAll (mkVars sys.subst _ []) sys.rxns = some rs₁ at hr₁
    change resolveAll (mkVars sys.subst _ []) sys.rxns = some rs₂ at hr₂
    rw [this, hr₂] at hr₁
    exact (Option.some.inj hr₁).symm
  subst e1
  change readAll (sysRates (lookup (mkVars sys.subst _ [])) rs₁ none (cstrOf b sys.subst)) sys.subst = some ex₁ at hread₁
  change readAll (sysRates (lookup (mkVars sys.subst _ [])) rs₁ none (cstrOf b sys.subst)) sys.subst = some ex₂ at hread₂
  rw [lookup_congr hv, hread₂] at hread₁
  exact (Option.some.inj hread₁).symm

/-! ### `Expr`-valued substitutions, `constants=`, user-supplied symbols (general entry points) -/

/-- **The general model of `get_odesys` extends the plain one**: without `Expr`-valued substitutions and without a `constants`
    object, `buildRhsG` (which the correspondence check runs) is `buildRhs`, so every theorem above speaks about it. -/
theorem general_builder_is_plain (g : GCfg) (sys : Sys) (ha : g.active = []) (hc : g.consts = []) :
    buildRhsG g sys = buildRhs g.toCfg sys :=
  buildRhsG_plain g sys ha hc

/-- **`get_odesys` with `Expr`-valued substitutions and `constants=`: still `Nᵀ·r`.**  Every accepted build has the substance
    keys as names, one expression per substance, the mass-action rates behind `rate_exprs_cb`, and right-hand sides that
    evaluate to `Σ_r netOf r s · rateVal vars env r` (+ feed), `vars = mkVarsG g sys` being the `variables` dict after the
    active substitutions were evaluated in order and the passive values written.  INTERNAL form (it also holds when an active
    key or a substitution key equals a substance key, i.e. it is `Nᵀ·r` for whatever `variables` resolves to); what an actively
    substituted entry is worth is `active_substitution_means_expression`; an explicit-environment corollary with a capture
    hypothesis exists for the plain builder (`rhs_is_kinetic_model`), for `constants=` (through
    `constants_are_passive_substitutions`) and for user symbols (`user_symbols_kinetic_model`), NOT for active substitutions. -/
theorem rhsG_is_NT_r (g : GCfg) (sys : Sys) (o : OdeSys) (hnd : sys.subst.Nodup) (h : buildRhsG g sys = .ok o)
    (env : String → R) :
    ∃ vars, mkVarsG g sys = some vars ∧ o.names = sys.subst ∧ o.exprs.length = sys.subst.length ∧
      (∀ r ∈ sys.rxns, (resolve vars r.param).isSome = true) ∧
      o.rateExprs.map (ev env) = sys.rxns.map (rateVal vars env) ∧
      ∀ (i : ℕ) (s : String), sys.subst[i]? = some s → ∃ e, o.exprs[i]? = some e ∧
        ev env e = (sys.rxns.map fun r => (netOf r s : R) * rateVal vars env r).sum +
          (if g.cstr = true then cval vars env "feedratio" * (cval vars env ("fc_" ++ s) - cval vars env s) else 0) :=
  rhsG_is_NT_r_internal g sys o hnd h env

/-- **An active substitution means its expression.**  (i) Evaluating `Constant / Symbol / + / *` on the `variables` dict and
    then binding the symbols gives the value of the expression at the current values of the variables it reads.
    (ii) In the final `variables` (after later active substitutions and the passive values, all with other keys) the entry of
    the substituted key is that value, taken at the moment the substitution was evaluated: later entries never change it. -/
theorem active_substitution_means_expression (env : String → R) :
    (∀ (vars : List (String × Poly String)) (e : PExpr) (p : Poly String), evalPExpr vars e = some p →
      ev env p = pexprVal (cval vars env) e) ∧
    (∀ (d₀ : List (String × Poly String)) (pre post : List (String × PExpr)) (k : String) (e : PExpr)
      (passive : List (String × ℚ)) (d' : List (String × Poly String)),
      applyActive d₀ (pre ++ (k, e) :: post) = some d' → k ∉ dkeys post → k ∉ dkeys passive →
      ∃ d, applyActive d₀ pre = some d ∧ (∃ p, evalPExpr d e = some p) ∧
        cval (applyPassive d' passive) env k = pexprVal (cval d env) e) :=
  ⟨fun vars e p h => ev_evalPExpr vars env e p h,
   fun d₀ pre post k e passive d' h h1 h2 => active_entry_value d₀ pre post k e passive d' h h1 h2 env⟩

/-- **`constants=` is a passive substitution of parameter keys**: the build with a `constants` object is literally (same
    refusal or same result) the build whose `substitutions` are extended by `{pk: constants.pk}` for the unsubstituted
    parameter keys the object provides; all statements about passive substitutions (`substitution_invariance`,
    `rhs_is_kinetic_model` with `kOf`/`pval`) therefore cover it. -/
theorem constants_are_passive_substitutions (g : GCfg) (sys : Sys) (ha : g.active = [])
    (hukC : ∀ uk ∈ oriUk sys.rxns, uk ∉ cstrKeys (cstrOf g.cstr sys.subst)) :
    buildRhsG g sys = buildRhsG (constsAsSubs g sys) sys ∧ (constsAsSubs g sys).consts = [] ∧
      (constsAsSubs g sys).subs = g.subs ++ usedConsts g sys.subst :=
  ⟨constants_are_substitutions g sys ha hukC, rfl, rfl⟩

/-- **User-supplied `substance_symbols` / `parameter_symbols` of `_create_odesys`**: wrong substance keys → ValueError; a
    `parameter_symbols` that is no `OrderedDict` → ValueError; neither given → the default builder; an ordered
    `parameter_symbols` → its keys are the parameter names, in its order, and the right-hand sides are `Nᵀ·r` (internal form;
    the statement in the user's terms is `user_symbols_kinetic_model`). -/
theorem user_symbols (u : UCfg') (sys : Sys) (hnd : sys.subst.Nodup) (env : String → R) :
    (∀ ks, u.substKeys = some ks → ks ≠ sys.subst → buildRhs'U u sys = .error .valueError) ∧
    (∀ keys, (u.substKeys = none ∨ u.substKeys = some sys.subst) → u.paramKeys = some (false, keys) →
      buildRhs'U u sys = .error .valueError) ∧
    ((u.substKeys = none ∨ u.substKeys = some sys.subst) → u.paramKeys = none → buildRhs'U u sys = buildRhs' u.cfg sys) ∧
    (∀ keys o, u.paramKeys = some (true, keys) → buildRhs'U u sys = .ok o →
      o.names = sys.subst ∧ o.paramNames = keys ∧ o.exprs.length = sys.subst.length ∧
      ∀ (i : ℕ) (s : String), sys.subst[i]? = some s → ∃ e, o.exprs[i]? = some e ∧
        ev env e = (sys.rxns.map fun r => (netOf r s : R) * rateVal (mkVars sys.subst keys u.cfg.paramExprs) env r).sum +
          (if u.cfg.cstr = true then
             cval (mkVars sys.subst keys u.cfg.paramExprs) env "feedratio" *
               (cval (mkVars sys.subst keys u.cfg.paramExprs) env ("fc_" ++ s) - cval (mkVars sys.subst keys u.cfg.paramExprs) env s)
           else 0)) :=
  user_symbols_spec u sys hnd env

/-- **User-supplied `parameter_symbols`, in the user's terms** (the explicit-environment form of the 4th clause of
    `user_symbols`): if no name is captured (`noCapture`, and none of the user's parameter keys is a substance key) and
    every exposed named constant is bound to its stored value, the accepted build has the user's keys as parameter names and
    every right-hand side evaluates to `kineticRhs` — `Nᵀ·r` of the reactions' OWN constants and the substances' OWN
    concentrations — whichever keys the user chose to expose. -/
theorem user_symbols_kinetic_model (u : UCfg') (sys : Sys) (keys : List String) (o : OdeSys') (hnd : sys.subst.Nodup)
    (hsub : (dkeys u.cfg.paramExprs).Nodup) (hp : u.paramKeys = some (true, keys)) (h : buildRhs'U u sys = .ok o)
    (hnc : noCapture sys (dkeys u.cfg.paramExprs) u.cfg.cstr = true) (hkeys : ∀ k ∈ keys, k ∉ sys.subst)
    (env : String → R)
    (hbind : ∀ r ∈ sys.rxns, ∀ uk k, r.param = .named uk k → uk ∉ dkeys u.cfg.paramExprs → uk ∈ keys → env uk = algebraMap ℚ R k) :
    o.names = sys.subst ∧ o.paramNames = keys ∧ o.exprs.length = sys.subst.length ∧
      ∀ (i : ℕ) (s : String), sys.subst[i]? = some s → ∃ e, o.exprs[i]? = some e ∧
        ev env e = kineticRhs u.cfg.paramExprs u.cfg.cstr env sys.rxns s :=
  rhs'U_explicit u sys keys o hnd hsub hp h hnc hkeys env hbind

/-- **A plain-dict `substance_symbols` binds by key, not by position**: if it has a symbol for every substance, the build is
    the build without it, whatever the insertion order of the dict (the equations stay attached to their own substances);
    if a substance has no symbol the build is never accepted. -/
theorem plain_dict_symbols_bind_by_key (u : UCfg') (ks : List String) (sys : Sys) :
    ((∀ k ∈ sys.subst, k ∈ ks) → buildRhs'P u (some ks) sys = buildRhs'U u sys) ∧
    (¬ (∀ k ∈ sys.subst, k ∈ ks) → ∀ o, buildRhs'P u (some ks) sys ≠ .ok o) ∧ buildRhs'P u none sys = buildRhs'U u sys :=
  buildRhs'P_plain u ks sys

/-- **`get_odesys` with a `constants=` object, in the user's terms** (explicit-environment form of `rhsG_is_NT_r` for builds
    without `Expr`-valued substitutions): the accepted build evaluates to `kineticRhs` of the user's data, where the parameter
    keys provided by `constants` read the constants' values — `kOf`/`pval` over `substitutions ∪ {pk: constants.pk}`.  No
    `mkVarsG`, no `cval` in the statement; `noCapture` is taken over all effective substitution keys. -/
theorem constants_kinetic_model (g : GCfg) (sys : Sys) (o : OdeSys) (ha : g.active = []) (hnd : sys.subst.Nodup)
    (hsub : (dkeys (g.subs ++ usedConsts g sys.subst)).Nodup) (h : buildRhsG g sys = .ok o)
    (hnc : noCapture sys (dkeys (g.subs ++ usedConsts g sys.subst)) g.cstr = true) (env : String → R)
    (hbind : g.includeParams = false → ∀ r ∈ sys.rxns, ∀ uk k, r.param = .named uk k →
      uk ∉ dkeys (g.subs ++ usedConsts g sys.subst) → env uk = algebraMap ℚ R k) :
    o.names = sys.subst ∧ o.exprs.length = sys.subst.length ∧
      ∀ (i : ℕ) (s : String), sys.subst[i]? = some s → ∃ e, o.exprs[i]? = some e ∧
        ev env e = kineticRhs (g.subs ++ usedConsts g sys.subst) g.cstr env sys.rxns s := by
  have hukC : ∀ uk ∈ oriUk sys.rxns, uk ∉ cstrKeys (cstrOf g.cstr sys.subst) := ((noCapture_iff _ _ _).mp hnc).2.2.2.2
  rw [constants_are_substitutions g sys ha hukC,
    buildRhsG_plain (constsAsSubs g sys) sys (by simpa [constsAsSubs] using ha) rfl] at h
  obtain ⟨h1, h2, _, h4⟩ := rhs_is_kinetic_model (constsAsSubs g sys).toCfg sys o hnd hsub h hnc env hbind
  exact ⟨h1, h2, h4⟩

/-! ### Linear invariants of the generated right-hand sides -/

/-- **Every linear invariant of the stoichiometry is an invariant of the GENERATED right-hand side.**  Let `w` weigh the
    substances (a composition row of `composition_balance_vectors()`, a charge vector, any conserved moiety) such that every
    reaction conserves it: `Σ_s w_s · netOf r s = 0`.  Then for every build accepted by `get_odesys` without CSTR feed and
    without captured names, and every binding `env` (exposed named constants bound to their stored values):
    `Σ_s w_s · ev env (exprs[s]) = 0` — an identity in concentrations and free parameters, on `odesys.exprs` themselves.
    (C05's `generated_rhs_conserves` instantiates `w` with the composition vectors of a system accepted by `check_balance`; with
    a feed the invariant is, correctly, not conserved: `cstr = false` is needed.) -/
theorem generated_rhs_conserves_weights (cfg : Cfg) (sys : Sys) (o : OdeSys) (hnd : sys.subst.Nodup)
    (hsub : (dkeys cfg.subs).Nodup) (h : buildRhs cfg sys = .ok o) (hnc : noCapture sys (dkeys cfg.subs) cfg.cstr = true)
    (hcstr : cfg.cstr = false) (env : String → R)
    (hbind : cfg.includeParams = false → ∀ r ∈ sys.rxns, ∀ uk k, r.param = .named uk k → uk ∉ dkeys cfg.subs →
      env uk = algebraMap ℚ R k)
    (w : String → R) (hbal : ∀ r ∈ sys.rxns, (sys.subst.map fun s => w s * ((netOf r s : ℤ) : R)).sum = 0) :
    (List.zipWith (fun s e => w s * ev env e) sys.subst o.exprs).sum = 0 := by
  obtain ⟨_, hl, _, hi⟩ := rhs_is_kinetic_model cfg sys o hnd hsub h hnc env hbind
  have hmap : o.exprs.map (ev env) = sys.subst.map (kineticRhs cfg.subs cfg.cstr env sys.rxns) :=
    map_eq_of_getElem? o.exprs sys.subst (ev env) _ hl hi
  have hz : List.zipWith (fun s e => w s * ev env e) sys.subst o.exprs =
      sys.subst.map fun s => w s *
        (sys.rxns.map fun r => ((netOf r s : ℤ) : R) *
          (kOf cfg.subs env r.param * (r.reac.map fun jν => env jν.1 ^ jν.2).prod)).sum := by
    have h1 : List.zipWith (fun s e => w s * ev env e) sys.subst o.exprs =
        List.zipWith (fun s v => w s * v) sys.subst (o.exprs.map (ev env)) := by
      rw [List.zipWith_map_right]
    rw [h1, hmap, List.zipWith_map_right, List.zipWith_self]
    apply List.map_congr_left
    intro s _
    simp [kineticRhs, hcstr]
  rw [hz]
  exact weighted_kinetic_sum_zero sys.subst id w sys.rxns _ hbal

/-! ### The precondition on shared keys is necessary, and the hypotheses are satisfiable -/

/-- `A -> B` with `MassAction([5], unique_keys=['k'])` and `B -> A` with `MassAction([7], unique_keys=['k'])`: the two
    reactions share the unique key `k` but store different constants -/
def sharedKeySys : Sys :=
  { subst := ["A", "B"],
    rxns := [{ reac := [("A", 1)], prod := [("B", 1)], param := .named "k" 5 },
             { reac := [("B", 1)], prod := [("A", 1)], param := .named "k" 7 }] }

def sharedEnv : String → ℚ := fun s => if s = "k" then 7 else 1

/-- **Witness that `binding_invariance` needs its hypothesis on shared keys** (and a fact about the code: `get_odesys` does
    not reject reactions sharing a unique key with different stored constants).  Both builds are accepted; the free build
    exposes the single parameter `k` with stored constant `7` (the last registration wins); binding `k := 7` gives
    `d[A]/dt = -7 + 7 = 0`, whereas the inlined build gives `-5 + 7 = 2` at `A = B = 1`. -/
theorem shared_key_defect_witness :
    ∃ oF oI, buildRhs { includeParams := false } sharedKeySys = .ok oF ∧ buildRhs { includeParams := true } sharedKeySys = .ok oI ∧
      oF.unique = [("k", some 7)] ∧ sharedEnv "k" = 7 ∧
      (oF.exprs.map (evalPoly (fun q => q) sharedEnv)) = [0, 0] ∧
      (oI.exprs.map (evalPoly (fun q => q) sharedEnv)) = [2, -2] := by
  refine ⟨_, _, rfl, rfl, ?_, ?_, ?_, ?_⟩ <;> decide +kernel

/-- `A -> k` with rate parameter `MassAction([5], unique_keys=['k'])`, where a *substance* is called `k` -/
def captureSys : Sys :=
  { subst := ["A", "k"], rxns := [{ reac := [("A", 1)], prod := [("k", 1)], param := .named "k" 5 }] }

/-- **Witness of a defect of the real code (mirrored by the model, reported as a finding).**  Substances, parameters and
    unique keys live in one `variables` dict.  With `include_params=True` the unique key `k` is not a parameter name, pyodesys
    sees no clash, the build is accepted — and `Expr.arg` finds the *concentration* of substance `k` under the unique key:
    the right-hand side is `(-A·k, A·k)` instead of `(-5·A, 5·A)`.  (`rhs_is_NT_r` stays true: it speaks about the
    coefficient as resolved through `variables`, and `rate_coeff_spec` says that a name among the substances resolves to
    that symbol.)  With `include_params=False` the same system is rejected (names/param_names clash). -/
theorem name_capture_defect_witness :
    ∃ o, buildRhs { includeParams := true } captureSys = .ok o ∧ o.paramNames = [] ∧
      o.exprs = [⟨[([("A", 1), ("k", 1)], -1)]⟩, ⟨[([("A", 1), ("k", 1)], 1)]⟩] ∧
      o.exprs ≠ [⟨[([("A", 1)], -5)]⟩, ⟨[([("A", 1)], 5)]⟩] ∧
      buildRhs { includeParams := false } captureSys = .error .valueError := by
  refine ⟨_, rfl, ?_, ?_, ?_, rfl⟩ <;> decide +kernel

/-- `2 A + B -> C` (plain `3/2`), `C -> A` (named `k2 = 5`), `B -> D` (string key `k3`), `D -> B` (`Symbol('k4')`) -/
def exSys : Sys :=
  { subst := ["A", "B", "C", "D"],
    rxns := [{ reac := [("A", 2), ("B", 1)], prod := [("C", 1)], param := .raw (3/2) },
             { reac := [("C", 1)], prod := [("A", 1)], param := .named "k2" 5 },
             { reac := [("B", 1)], prod := [("D", 1)], param := .key "k3" },
             { reac := [("D", 1)], prod := [("B", 1)], param := .sym "k4" }] }

/-- the free build is accepted, exposes `k2, k3, k4` in registration order and has the expected normal forms -/
example : ∃ o, buildRhs { includeParams := false } exSys = .ok o ∧ o.names = ["A", "B", "C", "D"] ∧
    o.paramNames = ["k2", "k3", "k4"] ∧ o.unique = [("k2", some 5), ("k3", none), ("k4", none)] ∧
    o.exprs[0]? = some ⟨[([("A", 2), ("B", 1)], -3), ([("C", 1), ("k2", 1)], 1)]⟩ := by
  refine ⟨_, rfl, ?_, ?_, ?_, ?_⟩ <;> decide +kernel

/-- the inlined build with substitutions for the value-less keys is accepted too (hypotheses of `binding_invariance`) -/
example : ∃ oF oI, buildRhs (freeOf { subs := [("k3", 7), ("k4", 2)] }) exSys = .ok oF ∧
    buildRhs (inlinedOf { subs := [("k3", 7), ("k4", 2)] }) exSys = .ok oI ∧ oF.paramNames = ["k2"] ∧ oI.paramNames = [] ∧
    oI.exprs[1]? = some ⟨[([("A", 2), ("B", 1)], -3/2), ([("B", 1)], -7), ([("D", 1)], 2)]⟩ := by
  refine ⟨_, _, rfl, rfl, ?_, ?_, ?_⟩ <;> decide +kernel

/-- both entry points accept the system with `MassAction([3/2])` in place of the plain number, also as a stirred tank
    (hypotheses of `builders_agree`) -/
example : ∃ o₁ o₂, buildRhs { includeParams := false, cstr := true }
      { exSys with rxns := exSys.rxns.map fun r => match r.param with | .raw k => { r with param := .ma k } | _ => r } = .ok o₁ ∧
    buildRhs' { cstr := true }
      { exSys with rxns := exSys.rxns.map fun r => match r.param with | .raw k => { r with param := .ma k } | _ => r } = .ok o₂ ∧
    o₁.exprs = o₂.exprs ∧ o₂.paramNames = ["k2", "k3", "k4", "feedratio", "fc_A", "fc_B", "fc_C", "fc_D"] := by
  refine ⟨_, _, rfl, rfl, ?_, ?_⟩ <;> decide +kernel

/-- rejections: no reaction (TypeError), a substance in no reaction (ValueError from pyodesys), a value-less key with
    `include_params=True` (KeyError), a plain number for `_create_odesys` (NotImplementedError), a repeated key (ValueError) -/
example : buildRhs {} { subst := ["A"], rxns := [] } = .error .typeError ∧
    buildRhs {} { exSys with subst := ["A", "B", "C", "D", "E"] } = .error .keyError ∧
    buildRhs { subs := [("k3", 7), ("k4", 2)] } { exSys with subst := ["A", "B", "C", "D", "E"] } = .error .valueError ∧
    buildRhs' {} exSys = .error .notImplementedError ∧
    buildRhs' {} { subst := ["A", "B"], rxns := [{ reac := [("A", 1)], prod := [("B", 1)], param := .key "k" },
                                                  { reac := [("B", 1)], prod := [("A", 1)], param := .key "k" }] } = .error .valueError := by
  refine ⟨?_, ?_, ?_, ?_, ?_⟩ <;> rfl

/-- the hypotheses of `get_odesys_accepts` hold for the example system (free parameters, stirred tank) -/
example : ∃ o, buildRhs { includeParams := false, cstr := true } exSys = .ok o :=
  get_odesys_accepts _ _ (by decide) (by decide) (by decide) (by decide +kernel) (by decide +kernel) (Or.inl rfl)
    (by decide) (by decide +kernel) (by intro h; cases h) rfl

/-- `noCapture` holds for an ordinary system (with and without substitutions / CSTR) … -/
example : noCapture exSys [] false = true ∧ noCapture exSys ["k3", "k4", "feedratio"] true = true := by
  constructor <;> decide +kernel

/-- … and fails exactly on the witness of the name-capture defect (and on its substituted variant: substance `K`, unique key
    `K`, substitution for `K`), so `rhs_is_kinetic_model` does not apply there — while the internal `rhs_is_NT_r` does. -/
example : noCapture captureSys [] false = false ∧
    noCapture { subst := ["A", "K"], rxns := [{ reac := [("A", 1)], prod := [("K", 1)], param := .named "K" 3 }] } ["K"] true = false := by
  constructor <;> decide +kernel

/-- `k3 := 1/2·q` (a new free parameter `q`) and `k4 := k3 + 2` (sees the entry written just before) -/
def exActive : GCfg :=
  { includeParams := false, active := [("k3", .mul (.const (1/2)) (.sym "q")), ("k4", .add (.sym "k3") (.const 2))] }

/-- an accepted build with active substitutions: `q` is registered before the reactions' keys, `d[D]/dt = q/2·B − (q/2 + 2)·D` -/
example : ∃ o, buildRhsG exActive exSys = .ok o ∧ o.paramNames = ["q", "k2"] ∧ o.unique = [("q", none), ("k2", some 5)] ∧
    o.exprs[3]? = some ⟨[([("B", 1), ("q", 1)], 1/2), ([("D", 1)], -2), ([("D", 1), ("q", 1)], -1/2)]⟩ := by
  refine ⟨_, rfl, ?_, ?_, ?_⟩ <;> decide +kernel

/-- the tank's flow and one feed concentration come from the `constants` object -/
def exConsts : GCfg :=
  { includeParams := false, cstr := true, subs := [("k3", 7), ("k4", 2)],
    consts := [("feedratio", 1/2), ("fc_B", 3), ("unrelated", 9)] }

/-- `constants=` accepted; refusals: an active substitution reading an undefined symbol with inlined constants (KeyError), user
    symbols with the wrong substance order and a plain-dict `parameter_symbols` (ValueError); an ordered `parameter_symbols`
    fixes the order of the parameter names -/
example : (∃ o, buildRhsG exConsts exSys = .ok o ∧
      o.paramKeys = ["fc_A", "fc_C", "fc_D"] ∧ o.paramNames = ["fc_A", "fc_C", "fc_D", "k2"]) ∧
    buildRhsG { active := [("k3", .sym "q")], subs := [("k4", 2)] } exSys = .error .keyError ∧
    buildRhs'U { substKeys := some ["B", "A", "C", "D"] } exSys = .error .valueError ∧
    buildRhs'U { paramKeys := some (false, ["k2", "k3", "k4"]) } exSys = .error .valueError ∧
    (∃ o, buildRhs'U { paramKeys := some (true, ["k4", "k3", "k2"]) } exSys = .ok o ∧ o.paramNames = ["k4", "k3", "k2"]) := by
  refine ⟨⟨_, rfl, ?_, ?_⟩, rfl, rfl, rfl, ⟨_, rfl, rfl⟩⟩ <;> decide +kernel

/-- a plain dict in another insertion order builds the same system; one without a symbol for `C` is refused -/
example : buildRhs'P { cfg := {} } (some ["D", "B", "A", "C"]) { exSys with rxns := exSys.rxns.drop 1 } =
      buildRhs'U { cfg := {} } { exSys with rxns := exSys.rxns.drop 1 } ∧
    buildRhs'P { paramKeys := some (true, ["k2", "k3", "k4"]) } (some ["D", "B", "A"]) exSys = .error .keyError := by
  constructor <;> rfl

/-- non-vacuity of `generated_rhs_conserves_weights`: in `A ⇌ B` (named constants `kf`, `kb`) the total `A + B` is conserved by
    both reactions (weights `1, 1`), the free build is accepted and captures no name -/
example : ∃ o, buildRhs { includeParams := false }
      { subst := ["A", "B"], rxns := [{ reac := [("A", 1)], prod := [("B", 1)], param := .named "kf" 3 },
                                      { reac := [("B", 1)], prod := [("A", 1)], param := .named "kb" 7 }] } = .ok o ∧
    noCapture { subst := ["A", "B"], rxns := [{ reac := [("A", 1)], prod := [("B", 1)], param := .named "kf" 3 },
                                             { reac := [("B", 1)], prod := [("A", 1)], param := .named "kb" 7 }] } [] false = true ∧
    (∀ r ∈ ([{ reac := [("A", 1)], prod := [("B", 1)], param := .named "kf" 3 },
             { reac := [("B", 1)], prod := [("A", 1)], param := .named "kb" 7 }] : List Rxn),
      ((["A", "B"].map fun s => (1 : ℚ) * ((netOf r s : ℤ) : ℚ)).sum = 0)) := by
  refine ⟨_, rfl, by decide +kernel, ?_⟩
  intro r hr
  simp only [List.mem_cons, List.not_mem_nil, or_false] at hr
  rcases hr with rfl | rfl <;> decide +kernel

/-- non-vacuity of `constants_kinetic_model`: `exConsts` (flow and one feed concentration from `constants=`) is accepted, has no
    active substitution, distinct effective substitution keys `k3, k4, feedratio, fc_B` and captures no name -/
example : (∃ o, buildRhsG exConsts exSys = .ok o) ∧ exConsts.active = [] ∧
    dkeys (exConsts.subs ++ usedConsts exConsts exSys.subst) = ["k3", "k4", "feedratio", "fc_B"] ∧
    noCapture exSys (dkeys (exConsts.subs ++ usedConsts exConsts exSys.subst)) exConsts.cstr = true := by
  refine ⟨⟨_, rfl⟩, rfl, ?_, ?_⟩ <;> decide +kernel

/-- the example system with `MassAction([3/2])` for the plain number, as used for `builders_agree` -/
def exSysMa : Sys :=
  { subst := ["A", "B", "C", "D"],
    rxns := [{ reac := [("A", 2), ("B", 1)], prod := [("C", 1)], param := .ma (3/2) },
             { reac := [("C", 1)], prod := [("A", 1)], param := .named "k2" 5 },
             { reac := [("B", 1)], prod := [("D", 1)], param := .key "k3" },
             { reac := [("D", 1)], prod := [("B", 1)], param := .sym "k4" }] }

/-- the hypotheses of `create_odesys_accepts` hold for it as a stirred tank with `parameter_expressions = {k3: 7}` -/
example : ∃ o, buildRhs' { cstr := true, paramExprs := [("k3", 7)] } exSysMa = .ok o :=
  create_odesys_accepts _ _ (by decide)
    (by
      intro r hr k hk
      simp only [exSysMa, List.mem_cons, List.not_mem_nil, or_false] at hr
      rcases hr with rfl | rfl | rfl | rfl <;> cases hk)
    (by decide +kernel) (by decide +kernel) (by decide +kernel) (by decide +kernel) (by decide +kernel) (Or.inl rfl) rfl

end ChemModel.C04
