/-
C12 — reaction text is read exactly as written; printing and parsing are inverse.

Model: `ChemModel/Model/ReactionText.lean` (mirrors `to_reaction`, `_parse_multiplicity`, `_is_inactive_term`,
`Reaction.__init__/_init_stoich/__eq__/copy`, `StrPrinter`, `ReactionSystem.from_string`); separators and arrows are
regenerated from the source into `Gen/Printing.lean` on every run.  The written notation (`Term`, `writeLine`,
`count`, `Term.ok`, `tokOK`) is the specification side, at the end of the model file.
-/
import ChemModel.Proofs.ReactionText

namespace ChemModel.C12
open ChemModel.ReactionText ChemModel.Gen

/-- **Reading a written line.**  For EVERY written reaction — any number of terms per side, coefficients `n ≥ 1`
written as `X` (n = 1), `n X` or `n * X`, repeated species, inactive groups `(n X)`, species keys that are arbitrary
admissible strings (non-empty, no ASCII space, no `;`, not containing the arrow token, not the lone `+`, not starting
or ending with white space; a key written without coefficient must not itself be a `( … )` closed at its last
character; the key of an inactive group has balanced round parentheses) **including keys that begin with a bracket** —
and every admissible arrow token (`->`, `=`, …): if the written reaction has a net effect, parsing the line succeeds
and each of the four dictionaries holds exactly the written keys of that side and kind, each with the SUM of its
written coefficients as a Python `int`; no key appears twice; no parameter. -/
theorem parse_written (tok : Str) (reac prod : List Term) (htok : tokOK tok = true)
    (hr : ∀ t ∈ reac, t.ok tok = true) (hp : ∀ t ∈ prod, t.ok tok = true) (heff : hasEffect reac prod = true) :
    ∃ r, toReaction .none tok (writeLine tok reac prod) = .ok r ∧
      (∀ k, dictGet r.reac k = coefOf (count false k reac)) ∧
      (∀ k, dictGet r.prod k = coefOf (count false k prod)) ∧
      (∀ k, dictGet r.inactReac k = coefOf (count true k reac)) ∧
      (∀ k, dictGet r.inactProd k = coefOf (count true k prod)) ∧
      (keysOf r.reac).Nodup ∧ (keysOf r.prod).Nodup ∧ (keysOf r.inactReac).Nodup ∧ (keysOf r.inactProd).Nodup ∧
      r.param = none := by
  have hr1 : ∀ t ∈ reac, 1 ≤ t.n := fun t ht => (Term.ok_spec (hr t ht)).2.1
  have hp1 : ∀ t ∈ prod, 1 ≤ t.n := fun t ht => (Term.ok_spec (hp t ht)).2.1
  refine ⟨parsedOf reac prod, ?_, get_sorted_actD reac hr1, get_sorted_actD prod hp1, get_sorted_inaD reac hr1,
    get_sorted_inaD prod hp1, (sortDict_spec (nodup_actD reac)).1, (sortDict_spec (nodup_actD prod)).1,
    (sortDict_spec (nodup_inaD reac)).1, (sortDict_spec (nodup_inaD prod)).1, rfl⟩
  rw [toReaction_written .none htok hr hp, heff]
  simp [allAllowed, Allowed.has]

/-- a written reaction whose species all cancel is refused (the `check_any_effect` of the constructor), never misread -/
theorem parse_written_no_effect (tok : Str) (reac prod : List Term) (htok : tokOK tok = true)
    (hr : ∀ t ∈ reac, t.ok tok = true) (hp : ∀ t ∈ prod, t.ok tok = true) (heff : hasEffect reac prod = false) :
    toReaction .none tok (writeLine tok reac prod) = .error .noEffect := by
  rw [toReaction_written .none htok hr hp, heff]
  simp [allAllowed, Allowed.has]

/-- **Unknown keys are rejected — for every line whatsoever** (not only well-written ones): when an allowed-key list is
given and the parser returns a reaction, every key of its four dictionaries is in the list. -/
theorem unknown_key_rejected (ks : List Str) (tok line : Str) (r : Reaction)
    (h : toReaction (.list ks) tok line = .ok r) : ∀ k ∈ r.keys, k ∈ ks := by
  intro k hk
  have := toReaction_keys_allowed h k hk
  simpa [Allowed.has] using this

/-- … and a written reaction is accepted with an allowed-key list exactly when all its keys are listed; otherwise the
answer is the `Unknown substance_key` error (never a reaction with the key dropped). -/
theorem written_with_allowed_keys (ks : List Str) (tok : Str) (reac prod : List Term) (htok : tokOK tok = true)
    (hr : ∀ t ∈ reac, t.ok tok = true) (hp : ∀ t ∈ prod, t.ok tok = true) :
    toReaction (.list ks) tok (writeLine tok reac prod) =
      if allAllowed (.list ks) reac prod then
        (if hasEffect reac prod then .ok (parsedOf reac prod) else .error .noEffect)
      else .error .unknownKey :=
  toReaction_written (.list ks) htok hr hp

/-- `r.copy() == r` (the parameter is compared with a reflexive equality in the model; a NaN parameter is outside it) -/
theorem copy_eq (r : Reaction) : Reaction.eq r.copy r = true := Reaction.eq_refl r


/-- the arrow the `StrPrinter` writes for a class is the token `from_string` of that class splits on, and both are
admissible tokens (regenerated from `printing/string.py` and `chemistry.py` on every run) -/
theorem arrows_agree :
    Printing.strReactionArrow = Printing.reactionToken ∧ Printing.strEquilibriumArrow = Printing.equilibriumToken ∧
    tokOK Printing.reactionToken = true ∧ tokOK Printing.equilibriumToken = true := by decide

/-- **print ∘ parse, reactions and equilibria without inactive groups.**  Let `r` hold, on both sides, dictionaries as
`_init_stoich` builds them (keys strictly increasing in code-point order), with int coefficients `≥ 1` and admissible
keys (any space-free key, bracket-leading ones included, not of the shape `( … )`), no inactive groups, a net effect
(what the constructor demands) and no parameter.  Then `r.string()` is defined and parsing it gives back exactly the
same dictionaries: the result compares equal to `r`. -/
theorem print_parse_roundtrip (tok : Str) (r : Reaction) (htok : tokOK tok = true)
    (hre : GoodDict tok r.reac) (hpr : GoodDict tok r.prod) (hir : r.inactReac = []) (hip : r.inactProd = [])
    (heff : r.anyEffect = true) (hparam : r.param = none) :
    ∃ s r', printReaction tok false false r = some s ∧ toReaction .none tok s = .ok r' ∧
      r'.reac = r.reac ∧ r'.prod = r.prod ∧ r'.inactReac = [] ∧ r'.inactProd = [] ∧ Reaction.eq r' r = true := by
  obtain ⟨s, hs, hparse⟩ := parse_print htok hre hpr hir hip heff
  refine ⟨s, _, hs, hparse, rfl, rfl, rfl, rfl, ?_⟩
  simp [Reaction.eq, dictEq_refl, hir, hip, hparam, dictEq]

/-- … and with the parameter printed (`with_param=True`): the parser is handed exactly the printed parameter text `p`
(non-empty, no `;`, no surrounding white space — e.g. any `%.3g` output), so the re-read parameter is the value that
text denotes: the original parameter at the printed precision (C20 proves what `%.3g` text denotes). -/
theorem print_parse_roundtrip_param (tok : Str) (r : Reaction) (p : Str) (htok : tokOK tok = true)
    (hre : GoodDict tok r.reac) (hpr : GoodDict tok r.prod) (hir : r.inactReac = []) (hip : r.inactProd = [])
    (heff : r.anyEffect = true) (hparam : r.param = some p) (hpt : Tight p) (hps : ';' ∉ p) :
    ∃ s r', printReaction tok true false r = some s ∧ toReaction .none tok s = .ok r' ∧
      r'.param = some p ∧ Reaction.eq r' r = true := by
  obtain ⟨s, hs, hparse⟩ := parse_print_param htok hre hpr hir hip heff hparam hpt hps
  refine ⟨s, _, hs, hparse, rfl, ?_⟩
  simp [Reaction.eq, dictEq_refl, hir, hip, hparam, dictEq]

/-- **multi-line systems**: `ReactionSystem.from_string` hands to the reaction parser exactly the lines that are not
blank and do not start (after stripping) with the comment token, in order — for every list of lines. -/
theorem system_lines_read (ls : List Str) (hne : ls ≠ []) (h : ∀ l ∈ ls, '\n' ∉ l) :
    systemLines Printing.commentTokens (joinStrs ['\n'] ls) =
      ls.filter (fun r => strip r != [] && !(startsWith ['#'] (strip r))) := by
  have split : ∀ (ls : List Str), ls ≠ [] → (∀ l ∈ ls, '\n' ∉ l) → pySplit ['\n'] (joinStrs ['\n'] ls) = ls := by
    intro ls
    induction ls with
    | nil => intro h; exact absurd rfl h
    | cons l ls ih =>
      intro _ hl
      have h1 : isInfixB ['\n'] l = false :=
        isInfixB_false_of_not_mem (by simp) (fun c hc => by simp only [List.mem_singleton]; intro e; subst e; exact hl _ (by simp) hc)
      cases ls with
      | nil => simpa [joinStrs] using pySplit_none h1
      | cons m ls =>
        simp only [joinStrs]
        rw [pySplit_first _ (by simp) (by simpa using h1), ih (by simp) (fun x hx => hl x (by simp [hx]))]
  unfold systemLines
  rw [systemSep_is.1, split ls hne h, commentTokens_is]
  simp

/-! ### the code as it is: quirks of the pinned source, proved on concrete witnesses (reported in notes/C12.md) -/

/-- a line with a second arrow is accepted and everything after the second arrow is silently dropped -/
theorem second_arrow_dropped_witness :
    (toReaction .none "->".toList "A -> B -> C".toList).toOption.map (fun r => (keysOf r.reac, keysOf r.prod))
      = some ([['A']], [['B']]) := by decide +kernel

/-- `substance_keys` given as a single word (a `str` without a space) is used as a SUBSTRING test -/
theorem single_word_allowed_is_substring_witness :
    (toReaction (Allowed.ofStr "H2O".toList) "->".toList "H2 -> O".toList).toOption.map (fun r => keysOf r.reac)
      = some [['H', '2']] := by decide +kernel

/-- a printed name is read back as the parameter text (`str(r)` / `ReactionSystem.string()` of a named reaction) -/
theorem printed_name_read_as_param_witness :
    (printReaction "->".toList true true ⟨[(['A'], Coef.ofNat 1)], [(['B'], Coef.ofNat 1)], [], [], none, some "foo".toList⟩).bind
      (fun s => (toReaction .none "->".toList s).toOption.map (fun r => r.param)) = some (some "foo".toList) := by
  decide +kernel

/-- the header line of a named system is handed to the reaction parser (→ "Missing token") -/
theorem named_system_header_witness :
    (printSystem "->".toList true true (some "sys".toList) [⟨[(['A'], Coef.ofNat 1)], [(['B'], Coef.ofNat 1)], [], [], none, none⟩]).map
      (fun s => (systemFromString .none "->".toList s).toOption.isNone) = some true := by decide +kernel

/-- explicit zero coefficients are not printed, so such a reaction does not survive the round trip -/
theorem zero_coefficient_not_printed_witness :
    (printReaction "->".toList false false ⟨[(['A'], Coef.ofNat 0), (['B'], Coef.ofNat 1)], [(['C'], Coef.ofNat 1)], [], [], none, none⟩)
      = some "B -> C".toList := by decide +kernel

/-! ### the hypotheses are satisfiable: concrete non-trivial instances -/

/-- `(NH4)2SO4 + (2 H2O) -> 2 NH4+ + SO4-2 + NH4+` : a bracket-leading key, an inactive group, a repeated species -/
def exReac : List Term :=
  [⟨"(NH4)2SO4".toList, 1, .omit, false⟩, ⟨"H2O".toList, 2, .plain, true⟩]
def exProd : List Term :=
  [⟨"NH4+".toList, 2, .plain, false⟩, ⟨"SO4-2".toList, 1, .omit, false⟩, ⟨"NH4+".toList, 1, .star, false⟩]

example : writeLine "->".toList exReac exProd = "(NH4)2SO4 + (2 H2O) -> 2 NH4+ + SO4-2 + 1 * NH4+".toList := by decide
example : tokOK "->".toList = true ∧ tokOK "=".toList = true := by decide
example : (∀ t ∈ exReac, t.ok "->".toList = true) ∧ (∀ t ∈ exProd, t.ok "->".toList = true) := by decide
example : hasEffect exReac exProd = true := by decide
example : count false "NH4+".toList exProd = 3 ∧ count true "H2O".toList exReac = 2 := by decide

/-- `(NH4)2SO4 + 3 H2O` as a printable side -/
def exDict : Dict := [("(NH4)2SO4".toList, Coef.ofNat 1), ("H2O".toList, Coef.ofNat 3)]
example : GoodDict "->".toList exDict :=
  ⟨⟨by decide, ⟨by decide, trivial⟩⟩, by
    intro kv hkv
    simp only [exDict, List.mem_cons, List.not_mem_nil, or_false] at hkv
    rcases hkv with rfl | rfl
    · exact ⟨1, by decide, rfl, by decide, by decide⟩
    · exact ⟨3, by decide, rfl, by decide, by decide⟩⟩
example : Tight "1.5e-07".toList := ⟨by decide, by intro c hc; simp at hc; subst hc; decide, by intro c hc; simp at hc; subst hc; decide⟩

end ChemModel.C12
