import ChemModel.Model.ReactionText
namespace ChemModel.C12
theorem placeholder : True := trivial
end ChemModel.C12
