/-
C12 — reaction text is read exactly as written; printing and parsing are inverse.

Model: `ChemModel/Model/ReactionText.lean` (mirrors `to_reaction`, `_parse_multiplicity`, `_is_inactive_term`,
`Reaction.__init__/_init_stoich/__eq__/copy`, `StrPrinter`, `ReactionSystem.from_string`); separators and arrows are
regenerated from the source into `Gen/Printing.lean` on every run.  The written notation (`Term`, `writeLine`,
`tailText`, `written`, `Term.ok`, `tokOK`, `hasEffect`, `integralWritten`) is the specification side, at the end of
the model file.  `Printable`, `normal`, `GoodDict`, `keysOf`, `Tight` are defined in `Proofs/ReactionText.lean`.
-/
import ChemModel.Proofs.ReactionText

namespace ChemModel.C12
open ChemModel.ReactionText ChemModel.Gen

/-! ### guards: the source strings the proofs are about -/

/-- separators of `to_reaction`, `_parse_multiplicity`, `StrPrinter` and `ReactionSystem.from_string` as the proofs use them -/
theorem separators_guard :
    Printing.partSep = [';'] ∧ Printing.termSep = [' ', '+', ' '] ∧ Printing.lineEnd = ['\n'] ∧
    Printing.floatMarkers = ['.', 'e'] ∧ Printing.multiplicityRegex = " \\* | ".toList ∧
    Printing.termJoin = [' ', '+', ' '] ∧ Printing.termJoinProd = [' ', '+', ' '] ∧ Printing.coeffSpace = [' '] ∧
    Printing.aroundArrowL = [' '] ∧ Printing.aroundArrowR = [' '] ∧ Printing.paramSeparator = [';', ' '] ∧
    Printing.systemLineSep = ['\n'] ∧ Printing.systemLineJoin = ['\n'] ∧ Printing.commentTokens = [['#']] ∧
    Printing.reactionStrTemplate = "{}{}%s{}%s{}{}".toList ∧ Printing.magnitudeFmt = "%.3g".toList := by decide

/-- the arrow the `StrPrinter` writes for a class is the token `from_string` of that class splits on; both are admissible,
newline-free tokens -/
theorem arrows_agree_guard :
    Printing.strReactionArrow = Printing.reactionToken ∧ Printing.strEquilibriumArrow = Printing.equilibriumToken ∧
    tokOK Printing.reactionToken = true ∧ tokOK Printing.equilibriumToken = true ∧
    '\n' ∉ Printing.reactionToken ∧ '\n' ∉ Printing.equilibriumToken := by decide

/-- `Reaction._cmp_attr` is what `Reaction.eq` compares (name, ref, data are not compared) and the default checks are the
ones `Reaction.check` runs (`consistent_units` is vacuous for unit-less parameters) -/
theorem cmp_attr_checks_guard :
    Printing.cmpAttr = ["reac", "prod", "param", "inact_reac", "inact_prod"] ∧
    Printing.defaultChecks = ["all_integral", "all_positive", "any_effect", "consistent_units"] := by decide

/-! ### reading a written line -/

/-- **Reading a written line.**  For EVERY written reaction — any number of terms per side; coefficients written as
`X` (1), `n X`, `n * X` (integer `n ≥ 1`) or as a DECIMAL `n.ddd X` (≤ 15 digits); repeated species; inactive groups
`(… X)`; species keys that are arbitrary admissible strings (non-empty, no ASCII space, no `;`, not containing the
arrow token, not the lone `+`, not starting/ending with white space; a key written without coefficient must not itself
be a `( … )` closed at its last character; the key of an inactive group has balanced round parentheses) **including
keys that begin with a bracket**; every admissible arrow token (`->`, `=`, …); followed by ANY tail of `;`-separated
parts (`; parameter; keyword=value …`, free of `;` and newline) —
if the written reaction has a net effect and whole-number totals (what the constructor demands), parsing succeeds and
* each of the four dictionaries holds exactly the written keys of that side and kind (`written` is `none` for every
  other key), each with the exact SUM of its written coefficients — the decimal texts with their exact rational value —
  as an `int`, or as a `float` iff one of the summed coefficients is written as a decimal;
* no key appears twice and the keys of each dictionary are in strictly increasing code-point order (what `==` on the
  OrderedDicts observes);
* the parameter text handed to `eval` is exactly the first tail part, stripped (`none` without a tail): the
  stoichiometry is unaffected by whatever follows the first `;`. -/
theorem parse_written (ev : Bool) (tok : Str) (reac prod : List Term) (tl : List Str) (htok : tokOK tok = true)
    (hr : ∀ t ∈ reac, t.ok tok = true) (hp : ∀ t ∈ prod, t.ok tok = true)
    (htl : ∀ p ∈ tl, ';' ∉ p ∧ '\n' ∉ p) (hlen : tl.length ≤ 1)
    (hev : ev = true → paramEvalOK (tl.head?.map strip) = true) (_hfloat : floatSafe reac prod = true)
    (heff : hasEffect reac prod = true) (hint : integralWritten reac prod = true) :
    ∃ r, toReaction ev .none tok (writeLine tok reac prod ++ tailText tl) = .ok r ∧
      (∀ k, dictGet r.reac k = written false k reac) ∧
      (∀ k, dictGet r.prod k = written false k prod) ∧
      (∀ k, dictGet r.inactReac k = written true k reac) ∧
      (∀ k, dictGet r.inactProd k = written true k prod) ∧
      (keysOf r.reac).Nodup ∧ (keysOf r.prod).Nodup ∧ (keysOf r.inactReac).Nodup ∧ (keysOf r.inactProd).Nodup ∧
      SortedKeys r.reac ∧ SortedKeys r.prod ∧ SortedKeys r.inactReac ∧ SortedKeys r.inactProd ∧
      r.param = finalParam ev (tl.head?.map strip) ∧ r.name = none := by
  refine ⟨{ parsedOf reac prod with param := finalParam ev (tl.head?.map strip) }, ?_, get_sorted_actD reac, get_sorted_actD prod,
    get_sorted_inaD reac, get_sorted_inaD prod, (sortDict_spec (nodup_actD reac)).1, (sortDict_spec (nodup_actD prod)).1,
    (sortDict_spec (nodup_inaD reac)).1, (sortDict_spec (nodup_inaD prod)).1,
    sortedKeys_sortDict (nodup_actD reac), sortedKeys_sortDict (nodup_actD prod), sortedKeys_sortDict (nodup_inaD reac),
    sortedKeys_sortDict (nodup_inaD prod), rfl, rfl⟩
  rw [toReaction_lift ev .none htok hr hp tl htl hlen hev, toReaction_written .none htok hr hp tl htl]
  simp [allAllowed, Allowed.has, outcome, heff, hint, parsedOf]

/-- **keyword parts**: `to_reaction` evaluates `dict(<third and further parts joined by ";">)` before anything else, even
with `globals_=False`.  The model only recognises `name='…'` / `ref='…'` / `ref=<int>` texts; for those the line is read
as without them and the name is set — e.g. on a written line followed by `; <param>; name='r1'`.  Every other keyword
text (`checks=()`, which would disable the refusals, two keyword parts that do not re-join to a valid expression, …)
is `unmodelled`: the theorems above deliberately say nothing about them (witnesses below). -/
theorem keyword_name_read :
    let err := fun (x : Except Err Reaction) => match x with | .error e => some e | .ok _ => none
    (toReaction false .none "->".toList "A -> 2 B; 1.5 ; name='r1', ref=3".toList).toOption.map
      (fun r => (keysOf r.reac, keysOf r.prod, r.param, r.name)) = some ([['A']], [['B']], none, some "r1".toList) ∧
    err (toReaction false .none "->".toList "A -> A; 1; checks=()".toList) = some .unmodelled ∧
    err (toReaction false .none "->".toList "A -> B; 1; name='a'; ref='b'".toList) = some .unmodelled ∧
    (toReaction false .none "->".toList "A -> B; 1; name='a;b'".toList).toOption.map (fun r => r.name) = some (some "a;b".toList) ∧
    err (toReaction true .none "->".toList "A B; 1/0".toList) = some .unmodelled ∧
    err (toReaction true .none "->".toList "A -> B;".toList) = some .unmodelled := by decide +kernel

/-- decimal sums outside `floatSafe`: the model adds exactly (4), Python adds doubles (3.9999999999999996, refused) —
this is why `parse_written` carries the `floatSafe` hypothesis; the harness checks such lines against both references -/
theorem decimal_sum_rounding_witness :
    let reac : List Term := [⟨['A'], 1, .dec ['2'], false⟩, ⟨['A'], 1, .dec ['4'], false⟩, ⟨['A'], 1, .dec ['4'], false⟩]
    floatSafe reac [⟨['B'], 1, .omit, false⟩] = false ∧ written false ['A'] reac = some ⟨4, true⟩ := by decide +kernel

/-- the value a decimal coefficient text denotes, e.g. `2.50` ↦ 250/100: `float()` of the text, exactly -/
theorem decimal_text_value (n : Nat) (fr : Str) (hn : 1 ≤ n) (hne : fr ≠ []) (hd : ∀ c ∈ fr, c.isDigit = true)
    (hlen : (natStr n).length + fr.length ≤ 15) :
    pyFloat (natStr n ++ '.' :: fr) = .ok (decValue n fr) := pyFloat_dec hn hne hd hlen

/-- the exponent form of a coefficient text, e.g. `2e3 X`: the model's `float()` of `<m>e<k>` (m ≥ 1 with ≤ 15 digits,
k ≤ 285) is exactly `m · 10^k` — an integral value, so such a coefficient passes `check_all_integral` as a `float`
(the real double equals it whenever `m · 10^k < 2^53`; beyond that Python holds the nearest double, which is still integral) -/
theorem exponent_text_value (m k : Nat) (hm : 1 ≤ m) (hlen : (natStr m).length ≤ 15) (hk : k ≤ 285) :
    pyFloat (natStr m ++ 'e' :: natStr k) = .ok ((m : Rat) * ((10 ^ k : Nat) : Rat)) ∧
    ((m : Rat) * ((10 ^ k : Nat) : Rat)).den = 1 := by
  refine ⟨pyFloat_exp hm hlen hk, ?_⟩
  rw [← Rat.natCast_mul]; rfl

example : (pyFloat "25e2".toList).toOption = some 2500 := by decide +kernel

/-- **complete outcome of reading a written line** (success characterisation): for every written reaction with at most a
parameter part, every allowed-key argument and both eval modes, `from_string` answers
* the unknown-key error iff some written key (active or inactive, either side) is not allowed; otherwise
* the `check_any_effect` error iff the species cancel; otherwise
* the `check_all_integral` error iff some total is not a whole number (`1.5 A -> B`); otherwise
* the reaction `parsedOf reac prod` with the parameter treated by `finalParam`, and no name —
never a reaction with a key dropped or a coefficient changed. -/
theorem written_line_outcome (ev : Bool) (allowed : Allowed) (tok : Str) (reac prod : List Term) (tl : List Str)
    (htok : tokOK tok = true) (hr : ∀ t ∈ reac, t.ok tok = true) (hp : ∀ t ∈ prod, t.ok tok = true)
    (htl : ∀ p ∈ tl, ';' ∉ p ∧ '\n' ∉ p) (hlen : tl.length ≤ 1)
    (hev : ev = true → paramEvalOK (tl.head?.map strip) = true) :
    toReaction ev allowed tok (writeLine tok reac prod ++ tailText tl) =
      if allAllowed allowed reac prod then
        (if hasEffect reac prod then
          (if integralWritten reac prod then
            .ok { parsedOf reac prod with param := finalParam ev (tl.head?.map strip) }
           else .error .nonIntegral)
         else .error .noEffect)
      else .error .unknownKey := by
  rw [toReaction_lift ev allowed htok hr hp tl htl hlen hev, toReaction_written allowed htok hr hp tl htl]
  by_cases h1 : allAllowed allowed reac prod = true <;> by_cases h2 : hasEffect reac prod = true <;>
    by_cases h3 : integralWritten reac prod = true <;> simp [h1, h2, h3, outcome, parsedOf]

/-- a written reaction whose species all cancel is refused (`check_any_effect`), never misread -/
theorem parse_written_no_effect (ev : Bool) (tok : Str) (reac prod : List Term) (tl : List Str) (htok : tokOK tok = true)
    (hr : ∀ t ∈ reac, t.ok tok = true) (hp : ∀ t ∈ prod, t.ok tok = true) (htl : ∀ p ∈ tl, ';' ∉ p ∧ '\n' ∉ p)
    (hlen : tl.length ≤ 1) (hev : ev = true → paramEvalOK (tl.head?.map strip) = true)
    (heff : hasEffect reac prod = false) :
    toReaction ev .none tok (writeLine tok reac prod ++ tailText tl) = .error .noEffect := by
  rw [written_line_outcome ev .none tok reac prod tl htok hr hp htl hlen hev]
  simp [allAllowed, Allowed.has, heff]

/-- a written reaction in which some total is not a whole number (e.g. `1.5 A -> B`) is refused (`check_all_integral`) -/
theorem parse_written_non_integral (ev : Bool) (tok : Str) (reac prod : List Term) (tl : List Str) (htok : tokOK tok = true)
    (hr : ∀ t ∈ reac, t.ok tok = true) (hp : ∀ t ∈ prod, t.ok tok = true) (htl : ∀ p ∈ tl, ';' ∉ p ∧ '\n' ∉ p)
    (hlen : tl.length ≤ 1) (hev : ev = true → paramEvalOK (tl.head?.map strip) = true)
    (heff : hasEffect reac prod = true) (hint : integralWritten reac prod = false) :
    toReaction ev .none tok (writeLine tok reac prod ++ tailText tl) = .error .nonIntegral := by
  rw [written_line_outcome ev .none tok reac prod tl htok hr hp htl hlen hev]
  simp [allAllowed, Allowed.has, heff, hint]

/-- **Unknown keys are rejected — for every line whatsoever** (not only well-written ones), in both eval modes: when an
allowed-key list is given and `from_string` returns a reaction, every key of its four dictionaries is in the list. -/
theorem unknown_key_rejected (ev : Bool) (ks : List Str) (tok line : Str) (r : Reaction)
    (h : toReaction ev (.list ks) tok line = .ok r) : ∀ k ∈ r.keys, k ∈ ks := by
  obtain ⟨r0, h0, e1, e2, e3, e4⟩ := toReaction_core h
  intro k hk
  have hk0 : k ∈ r0.keys := by simpa [Reaction.keys, e1, e2, e3, e4] using hk
  have := toReaction_keys_allowed h0 k hk0
  simpa [Allowed.has] using this

/-- … and a written reaction is accepted with an allowed-key list exactly when all its keys (active and inactive, both
sides) are listed; otherwise the answer is the `Unknown substance_key` error, never a reaction with the key dropped. -/
theorem written_with_allowed_keys (ev : Bool) (ks : List Str) (tok : Str) (reac prod : List Term) (tl : List Str)
    (htok : tokOK tok = true) (hr : ∀ t ∈ reac, t.ok tok = true) (hp : ∀ t ∈ prod, t.ok tok = true)
    (htl : ∀ p ∈ tl, ';' ∉ p ∧ '\n' ∉ p) (hlen : tl.length ≤ 1)
    (hev : ev = true → paramEvalOK (tl.head?.map strip) = true) (hnot : allAllowed (.list ks) reac prod = false) :
    toReaction ev (.list ks) tok (writeLine tok reac prod ++ tailText tl) = .error .unknownKey := by
  rw [written_line_outcome ev (.list ks) tok reac prod tl htok hr hp htl hlen hev]
  simp [hnot]

/-! ### print, then parse -/

/-- **print ∘ parse, reactions and equilibria without inactive groups.**  Let `r` hold, on both sides, dictionaries as
`_init_stoich` builds them (keys strictly increasing in code-point order), with int coefficients `≥ 1` and admissible
keys (any space-free key, bracket-leading ones included, not of the shape `( … )`), no inactive groups, a net effect
(what the constructor demands) and no parameter.  Then `r.string()` is defined and parsing it gives back exactly the
same dictionaries: the result compares equal to `r`. -/
theorem print_parse_roundtrip (ev : Bool) (tok : Str) (r : Reaction) (htok : tokOK tok = true)
    (hre : GoodDict tok r.reac) (hpr : GoodDict tok r.prod) (hir : r.inactReac = []) (hip : r.inactProd = [])
    (heff : r.anyEffect = true) (hparam : r.param = none) :
    ∃ s r', printReaction tok false false r = some s ∧ toReaction ev .none tok s = .ok r' ∧
      r'.reac = r.reac ∧ r'.prod = r.prod ∧ r'.inactReac = [] ∧ r'.inactProd = [] ∧ Reaction.eq r' r = true := by
  obtain ⟨s, hs, hparse⟩ := parse_print_full htok hre hpr hir hip heff ev false (by intro h; cases h) (by intro _ h; cases h)
  refine ⟨s, _, hs, hparse, rfl, rfl, rfl, rfl, ?_⟩
  simp [Reaction.eq, dictEq_refl, hir, hip, hparam, dictEq, finalParam]

/-- … and with the parameter printed (`with_param=True`) and an evaluating context: the parser is handed exactly the
printed parameter text `p` — a numeric literal without surrounding blanks, `;` or newline, e.g. any `%.3g` output
(`NumText`) — and keeps it, so the re-read parameter is the value that text denotes: the original parameter at the
printed precision (C20 proves what `%.3g` text denotes). -/
theorem print_parse_roundtrip_param (tok : Str) (r : Reaction) (p : Str) (htok : tokOK tok = true)
    (hre : GoodDict tok r.reac) (hpr : GoodDict tok r.prod) (hir : r.inactReac = []) (hip : r.inactProd = [])
    (heff : r.anyEffect = true) (hparam : r.param = some p) (hpt : Tight p) (hps : ';' ∉ p) (hpn : '\n' ∉ p)
    (hnum : NumText p) :
    ∃ s r', printReaction tok true false r = some s ∧ toReaction true .none tok s = .ok r' ∧
      r'.param = some p ∧ Reaction.eq r' r = true := by
  obtain ⟨s, hs, hparse⟩ := parse_print_full htok hre hpr hir hip heff true true
    (by intro _ q hq; rw [hparam] at hq; simp at hq; subst hq; exact ⟨hpt, hps, hpn⟩)
    (by intro _ _ q hq; rw [hparam] at hq; simp at hq; subst hq; exact (finalParam_num hnum).2)
  have hf : finalParam true (if true = true then r.param else none) = some p := by
    simp [hparam, (finalParam_num hnum).1]
  refine ⟨s, _, hs, hparse, hf, ?_⟩
  simp [Reaction.eq, dictEq_refl, hir, hip, hparam, dictEq, (finalParam_num hnum).1]

/-- **print ∘ parse, systems** (`ReactionSystem.string()` then `ReactionSystem.from_string`, any list of comment tokens):
for every list of printable reactions (no names printed, no inactive groups; `Printable` also asks that no key
contains a newline and that no comment token is empty or starts with a digit, with the first character of the token or
of a reactant key — otherwise the printed line is taken for a comment) the printed text is defined and parsing it
returns reactions with the same dictionaries and the printed parameter texts, each equal (`==`) to its original when
parameters are printed. -/
theorem system_roundtrip (tok : Str) (cts : List Str) (wp : Bool) (rs : List Reaction) (htok : tokOK tok = true)
    (hnl : '\n' ∉ tok) (h : ∀ r ∈ rs, Printable tok cts wp r) :
    ∃ text, printSystem tok wp false none rs = some text ∧
      systemFromString true cts .none tok text = .ok (rs.map (normal wp)) ∧
      ∀ r ∈ rs, (wp = true ∨ r.param = none) → Reaction.eq (normal wp r) r = true := by
  obtain ⟨text, h1, h2⟩ := system_print_parse cts wp rs htok hnl h
  exact ⟨text, h1, h2, fun r hr hp => normal_eq (h r hr).noInactR (h r hr).noInactP hp⟩

/-- **multi-line systems, every comment-token list**: `ReactionSystem.from_string(s, comment_tokens=cts)` hands to the
reaction parser exactly the lines that are not blank and do not start (after stripping) with one of the tokens, in
order — for every list of lines and every token list (single- or multi-character tokens, several tokens). -/
theorem system_lines_read (cts : List Str) (ls : List Str) (hne : ls ≠ []) (h : ∀ l ∈ ls, '\n' ∉ l) :
    systemLines cts (joinStrs ['\n'] ls) =
      ls.filter (fun r => strip r != [] && !(cts.any fun ct => startsWith ct (strip r))) := by
  unfold systemLines
  rw [systemSep_is.1, split_lines ls hne h]

/-- … in particular a line starting (after blanks) with a multi-character comment token is skipped -/
theorem multi_char_comment_skipped :
    (systemFromString false ["//".toList, "#".toList] .none "->".toList "// note\n  // x -> y\nA -> B\n# z".toList).toOption.map
      (fun rs => rs.map fun r => (keysOf r.reac, keysOf r.prod)) = some [([['A']], [['B']])] := by decide +kernel

/-! ### the parameter text and the constructor checks -/

/-- **the quoted parameter form**: a parameter text `'name'` (name free of quotes) is the Symbol rate constant `name`,
never handed to `eval`; a text that does not start with a quote is an expression for `eval`.  Together with
`parse_written` (`r.param` is the first tail part stripped) this fixes what `A -> B; 'k1'` and `A -> B; 1e-4` mean. -/
theorem quoted_param_is_symbol (k : Str) (hk : '\'' ∉ k) :
    classifyParam ('\'' :: (k ++ ['\''])) = .symbol k ∧
    ∀ p : Str, (∀ c, p.head? = some c → c ≠ '\'') → classifyParam p = .expr p := by
  constructor
  · have h1 : startsWith ['\''] ('\'' :: (k ++ ['\''])) = true := by simp [startsWith, List.isPrefixOf]
    have h2 : endsWith ['\''] ('\'' :: (k ++ ['\''])) = true := by simp [endsWith, List.isPrefixOf]
    have h3 : inner ('\'' :: (k ++ ['\''])) = k := by simp [inner]
    unfold classifyParam
    rw [h1, h2, h3]
    simp [hk]
  · intro p hp
    have : startsWith ['\''] p = false := by
      cases p with
      | nil => rfl
      | cons c r => have := hp c rfl; simp [startsWith, List.isPrefixOf, Ne.symm this]
    simp [classifyParam, this]

/-- guard: the default checks named in the source (`Printing.defaultChecks`) are the ones `Reaction.check` runs — if `from_string` returns a reaction,
constructing it again with the default `checks` (`default_checks ^ {}` from the source) raises nothing; and naming both
`checks` and `dont_check` is always refused. -/
theorem default_checks_run_guard (allowed : Allowed) (tok line : Str) (r : Reaction)
    (h : toReactionCore allowed tok line = .ok r) :
    r.initChecks none none = .ok r ∧ ∀ cs dc, r.initChecks (some cs) (some dc) = .error .both := by
  refine ⟨?_, fun _ _ => rfl⟩
  unfold toReactionCore at h
  split at h
  · simp at h
  · rename_i raw _
    unfold mkReaction Reaction.check at h
    split at h
    · simp at h
    · rename_i h1
      split at h
      · simp at h
      · rename_i h2
        split at h
        · simp at h
        · rename_i h3
          simp at h; subst h
          simp only [Bool.not_eq_true, Bool.not_eq_false'] at h1 h2 h3
          have e : symDiff Printing.defaultChecks (((none : Option (List String)).getD []).eraseDups)
              = ["all_integral", "all_positive", "any_effect", "consistent_units"] := by decide
          unfold Reaction.initChecks
          simp only []
          rw [e]
          simp [Reaction.runChecks, Reaction.runCheck, h1, h2, h3]
          rfl

/-- **when the constructor accepts** (default `checks`, i.e. `default_checks ^ {}` of the source): exactly when the reaction has
a net effect, no negative coefficient and only whole-number coefficients — otherwise one of the checks raises; and with a
`dont_check` list of default names exactly the remaining ones decide (here: skipping `any_effect`). -/
theorem init_default_checks_iff (r : Reaction) :
    (r.initChecks none none = .ok r ↔ r.anyEffect = true ∧ r.allPositive = true ∧ r.allIntegral = true) ∧
    (r.initChecks none (some ["any_effect"]) = .ok r ↔ r.allPositive = true ∧ r.allIntegral = true) := by
  have e1 : symDiff Printing.defaultChecks (((none : Option (List String)).getD []).eraseDups)
      = ["all_integral", "all_positive", "any_effect", "consistent_units"] := by decide
  have e2 : symDiff Printing.defaultChecks (((some ["any_effect"] : Option (List String)).getD []).eraseDups)
      = ["all_integral", "all_positive", "consistent_units"] := by decide
  constructor
  · unfold Reaction.initChecks
    simp only []
    rw [e1]
    cases h1 : r.anyEffect <;> cases h2 : r.allPositive <;> cases h3 : r.allIntegral <;>
      simp [Reaction.runChecks, Reaction.runCheck, h1, h2, h3, Except.map]
  · unfold Reaction.initChecks
    simp only []
    rw [e2]
    cases h2 : r.allPositive <;> cases h3 : r.allIntegral <;>
      simp [Reaction.runChecks, Reaction.runCheck, h2, h3, Except.map]

/-- **`checks=[…]`**: the constructor accepts exactly when every listed name is one of the four default check names and each
listed check holds (`consistent_units` is vacuous for unit-less parameters); an unknown name is never accepted
(Python: AttributeError), a failing check never (ValueError). -/
theorem init_checks_list_iff (r : Reaction) (cs : List String) :
    r.initChecks (some cs) none = .ok r ↔
      (∀ c ∈ cs, c ∈ Printing.defaultChecks) ∧ ("any_effect" ∈ cs → r.anyEffect = true) ∧
      ("all_positive" ∈ cs → r.allPositive = true) ∧ ("all_integral" ∈ cs → r.allIntegral = true) := by
  unfold Reaction.initChecks
  simp only [map_ok_iff, runChecks_ok_iff, List.mem_eraseDups, runCheck_ok_iff, defaultChecks_mem]
  constructor
  · intro h
    refine ⟨?_, ?_, ?_, ?_⟩
    · intro c hc
      rcases h c hc with ⟨e, _⟩ | ⟨e, _⟩ | ⟨e, _⟩ | e <;> simp [e]
    · intro hc; rcases h _ hc with ⟨_, h1⟩ | ⟨e, _⟩ | ⟨e, _⟩ | e
      · exact h1
      all_goals (exact absurd e (by decide))
    · intro hc; rcases h _ hc with ⟨e, _⟩ | ⟨_, h1⟩ | ⟨e, _⟩ | e
      · exact absurd e (by decide)
      · exact h1
      all_goals (exact absurd e (by decide))
    · intro hc; rcases h _ hc with ⟨e, _⟩ | ⟨e, _⟩ | ⟨_, h1⟩ | e
      · exact absurd e (by decide)
      · exact absurd e (by decide)
      · exact h1
      · exact absurd e (by decide)
  · rintro ⟨hk, h1, h2, h3⟩ c hc
    rcases hk c hc with e | e | e | e
    · subst e; exact Or.inr (Or.inr (Or.inl ⟨rfl, h3 hc⟩))
    · subst e; exact Or.inr (Or.inl ⟨rfl, h2 hc⟩)
    · subst e; exact Or.inl ⟨rfl, h1 hc⟩
    · exact Or.inr (Or.inr (Or.inr e))

/-- **`dont_check=[…]`** (`checks = default_checks ^ dont_check`, a SYMMETRIC difference): accepted exactly when every listed
name is a default check name — an unknown name is ADDED as a check and always fails — and every default check that is not
listed holds. -/
theorem init_dont_check_iff (r : Reaction) (dc : List String) :
    r.initChecks none (some dc) = .ok r ↔
      (∀ c ∈ dc, c ∈ Printing.defaultChecks) ∧ ("any_effect" ∉ dc → r.anyEffect = true) ∧
      ("all_positive" ∉ dc → r.allPositive = true) ∧ ("all_integral" ∉ dc → r.allIntegral = true) := by
  unfold Reaction.initChecks
  simp only [map_ok_iff, runChecks_ok_iff, mem_symDiff, List.mem_eraseDups, Option.getD_some, runCheck_ok_iff]
  constructor
  · intro h
    refine ⟨?_, ?_, ?_, ?_⟩
    · intro c hc
      by_cases hd : c ∈ Printing.defaultChecks
      · exact hd
      · rcases h c (Or.inr ⟨hc, hd⟩) with ⟨e, _⟩ | ⟨e, _⟩ | ⟨e, _⟩ | e <;>
          exact absurd ((defaultChecks_mem c).mpr (by simp [e])) hd
    · intro hc
      rcases h "any_effect" (Or.inl ⟨(defaultChecks_mem _).mpr (by simp), hc⟩) with ⟨_, h1⟩ | ⟨e, _⟩ | ⟨e, _⟩ | e
      · exact h1
      all_goals (exact absurd e (by decide))
    · intro hc
      rcases h "all_positive" (Or.inl ⟨(defaultChecks_mem _).mpr (by simp), hc⟩) with ⟨e, _⟩ | ⟨_, h1⟩ | ⟨e, _⟩ | e
      · exact absurd e (by decide)
      · exact h1
      all_goals (exact absurd e (by decide))
    · intro hc
      rcases h "all_integral" (Or.inl ⟨(defaultChecks_mem _).mpr (by simp), hc⟩) with ⟨e, _⟩ | ⟨e, _⟩ | ⟨_, h1⟩ | e
      · exact absurd e (by decide)
      · exact absurd e (by decide)
      · exact h1
      · exact absurd e (by decide)
  · rintro ⟨hk, h1, h2, h3⟩ c hc
    rcases hc with ⟨hd, hnd⟩ | ⟨hd, hnd⟩
    · rcases (defaultChecks_mem c).mp hd with e | e | e | e
      · subst e; exact Or.inr (Or.inr (Or.inl ⟨rfl, h3 hnd⟩))
      · subst e; exact Or.inr (Or.inl ⟨rfl, h2 hnd⟩)
      · subst e; exact Or.inl ⟨rfl, h1 hnd⟩
      · exact Or.inr (Or.inr (Or.inr e))
    · exact absurd (hk c hd) hnd
example : ∃ r : Reaction, r.initChecks (some ["all_positive", "all_integral"]) none = .ok r ∧ r.anyEffect = false :=
  ⟨⟨[(['A'], Coef.ofNat 1)], [(['A'], Coef.ofNat 1)], [], [], none, none⟩,
    (init_checks_list_iff _ _).mpr ⟨by decide, by decide, by intro _; decide +kernel, by intro _; decide +kernel⟩, by decide +kernel⟩
example : ∀ r : Reaction, r.initChecks none (some ["no_such_check"]) ≠ .ok r := by
  intro r h; have := ((init_dont_check_iff r _).mp h).1 "no_such_check" (by simp); revert this; decide

/-! ### copy -/

/-- `eq_iff`: **what `==` compares** — two reaction objects are equal iff each of the four dictionaries has the same keys in
the same order with numerically equal coefficients (int 2 == float 2.0) and the parameters are equal; name, class
(Reaction / Equilibrium), ref and data play no part. -/
theorem eq_iff (a b : Reaction) :
    Reaction.eq a b = true ↔
      (keysOf a.reac = keysOf b.reac ∧ a.reac.map (·.2.val) = b.reac.map (·.2.val)) ∧
      (keysOf a.prod = keysOf b.prod ∧ a.prod.map (·.2.val) = b.prod.map (·.2.val)) ∧
      a.param = b.param ∧
      (keysOf a.inactReac = keysOf b.inactReac ∧ a.inactReac.map (·.2.val) = b.inactReac.map (·.2.val)) ∧
      (keysOf a.inactProd = keysOf b.inactProd ∧ a.inactProd.map (·.2.val) = b.inactProd.map (·.2.val)) := by
  simp only [Reaction.eq, Bool.and_eq_true, dictEq_iff, beq_iff_eq]
  constructor
  · rintro ⟨⟨⟨⟨h1, h2⟩, h3⟩, h4⟩, h5⟩; exact ⟨h1, h2, h3, h4, h5⟩
  · rintro ⟨h1, h2, h3, h4, h5⟩; exact ⟨⟨⟨⟨h1, h2⟩, h3⟩, h4⟩, h5⟩

/-- the container TYPE matters: were the attributes handed to the constructor as plain `dict`s (`dict(v)` instead of
`copy.copy(v)`), `_init_stoich` would re-sort them and the copy of a reaction built from an unsorted OrderedDict
(`OH- + H+ -> H2O`) would differ from its original and print differently -/
theorem copy_through_dict_resorts_witness :
    let r := Reaction.construct .ordered .dict .dict .dict
      [("OH-".toList, Coef.ofNat 1), ("H+".toList, Coef.ofNat 1)] [("H2O".toList, Coef.ofNat 1)] [] [] none none
    Reaction.eq r.copy r = true ∧ Reaction.eq r.copyThroughDict r = false ∧
      printReaction "->".toList false false r = some "OH- + H+ -> H2O".toList ∧
      printReaction "->".toList false false r.copyThroughDict = some "H+ + OH- -> H2O".toList := by decide +kernel

/-! ### the code as it is: quirks of the pinned source, proved on concrete witnesses (reported in notes/C12.md) -/

/-- a key that contains the arrow token is outside `parse_written` (`keyOK`): the line is split inside the key and the
result is silently wrong — `C=O + H2 = CH3OH` is read as `C = H2 + O` -/
theorem token_in_key_missplit_witness :
    (toReactionCore .none "=".toList "C=O + H2 = CH3OH".toList).toOption.map (fun r => (keysOf r.reac, keysOf r.prod))
      = some ([['C']], [['H', '2'], ['O']]) := by decide +kernel

/-- a line with a second arrow is accepted and everything after the second arrow is silently dropped -/
theorem second_arrow_dropped_witness :
    (toReactionCore .none "->".toList "A -> B -> C".toList).toOption.map (fun r => (keysOf r.reac, keysOf r.prod))
      = some ([['A']], [['B']]) := by decide +kernel

/-- `substance_keys` given as a single word (a `str` without a space) is used as a SUBSTRING test -/
theorem single_word_allowed_is_substring_witness :
    (toReactionCore (Allowed.ofStr "H2O".toList) "->".toList "H2 -> O".toList).toOption.map (fun r => keysOf r.reac)
      = some [['H', '2']] := by decide +kernel

/-- a printed name is read back as the parameter text (`str(r)` / `ReactionSystem.string()` of a named reaction) -/
theorem printed_name_read_as_param_witness :
    (printReaction "->".toList true true ⟨[(['A'], Coef.ofNat 1)], [(['B'], Coef.ofNat 1)], [], [], none, some "foo".toList⟩).bind
      (fun s => (toReactionCore .none "->".toList s).toOption.map (fun r => r.param)) = some (some "foo".toList) := by
  decide +kernel

/-- the header line of a named system is handed to the reaction parser (→ "Missing token") -/
theorem named_system_header_witness :
    (printSystem "->".toList true true (some "sys".toList) [⟨[(['A'], Coef.ofNat 1)], [(['B'], Coef.ofNat 1)], [], [], none, none⟩]).map
      (fun s => (systemFromString false Printing.commentTokens .none "->".toList s).toOption.isNone) = some true := by decide +kernel

/-- explicit zero coefficients are not printed, so such a reaction does not survive the round trip -/
theorem zero_coefficient_not_printed_witness :
    (printReaction "->".toList false false ⟨[(['A'], Coef.ofNat 0), (['B'], Coef.ofNat 1)], [(['C'], Coef.ofNat 1)], [], [], none, none⟩)
      = some "B -> C".toList := by decide +kernel

/-- an `OrderedDict` given in non-sorted order is kept as it is, printed in that order, and re-read sorted:
`OrderedDict.__eq__` is order sensitive, so the round trip is NOT an equal object (outside `GoodDict`) -/
theorem unsorted_ordered_dict_witness :
    let r : Reaction := ⟨[(['B'], Coef.ofNat 1), (['A'], Coef.ofNat 1)], [(['C'], Coef.ofNat 1)], [], [], none, none⟩
    (printReaction "->".toList false false r).bind
      (fun s => (toReactionCore .none "->".toList s).toOption.map (fun r' => Reaction.eq r' r)) = some false := by
  decide +kernel

/-! ### the hypotheses are satisfiable: concrete non-trivial instances -/

/-- `(NH4)2SO4 + (2 H2O) + 1.50 X + 1.5 X -> 2 NH4+ + SO4-2 + 1 * NH4+ + 2.0 X; 1.5e-07 `:
a bracket-leading key, an inactive group, a repeated species, decimal coefficients, and a parameter part -/
def exReac : List Term :=
  [⟨"(NH4)2SO4".toList, 1, .omit, false⟩, ⟨"H2O".toList, 2, .plain, true⟩, ⟨"X".toList, 1, .dec "50".toList, false⟩,
   ⟨"X".toList, 1, .dec "5".toList, false⟩]
def exProd : List Term :=
  [⟨"NH4+".toList, 2, .plain, false⟩, ⟨"SO4-2".toList, 1, .omit, false⟩, ⟨"NH4+".toList, 1, .star, false⟩,
   ⟨"X".toList, 2, .dec "0".toList, false⟩]
def exTail : List Str := [" 1.5e-07 ".toList]

example : writeLine "->".toList exReac exProd ++ tailText exTail =
    "(NH4)2SO4 + (2 H2O) + 1.50 X + 1.5 X -> 2 NH4+ + SO4-2 + 1 * NH4+ + 2.0 X; 1.5e-07 ".toList := by decide
example : tokOK "->".toList = true ∧ tokOK "=".toList = true := by decide
example : (∀ t ∈ exReac, t.ok "->".toList = true) ∧ (∀ t ∈ exProd, t.ok "->".toList = true) := by decide
example : ∀ p ∈ exTail, ';' ∉ p ∧ '\n' ∉ p := by decide
example : exTail.length ≤ 1 ∧ paramEvalOK (exTail.head?.map strip) = true ∧ floatSafe exReac exProd = true := by decide +kernel
example : hasEffect exReac exProd = true ∧ integralWritten exReac exProd = true := by decide +kernel
example : written false "NH4+".toList exProd = some ⟨3, false⟩ ∧ written true "H2O".toList exReac = some ⟨2, false⟩ ∧
    written false "X".toList exReac = some ⟨3, true⟩ ∧ written false "X".toList exProd = some ⟨2, true⟩ ∧
    written false "Q".toList exProd = none := by decide +kernel
example : exTail.head?.map strip = some "1.5e-07".toList := by decide
example : NumText "1.5e-07".toList ∧ NumText "12".toList := by
  refine ⟨⟨by decide, by decide, by decide⟩, ⟨by decide, by decide, by decide⟩⟩
/-- `eq_iff` distinguishes: same keys, different order -/
example : Reaction.eq ⟨[(['B'], Coef.ofNat 1), (['A'], Coef.ofNat 1)], [], [], [], none, none⟩
    ⟨[(['A'], Coef.ofNat 1), (['B'], Coef.ofNat 1)], [], [], [], none, none⟩ = false := by decide +kernel
example : classifyParam (strip " 'k_1' ".toList) = .symbol "k_1".toList ∧ classifyParam "1e-4".toList = .expr "1e-4".toList ∧
    classifyParam "'a'b'".toList = .expr "'a'b'".toList := by decide
/-- `1.5 A -> B` has a non-integral total: refused -/
example : integralWritten [⟨"A".toList, 1, .dec "5".toList, false⟩] [⟨"B".toList, 1, .omit, false⟩] = false := by decide +kernel

/-- `(NH4)2SO4 + 3 H2O` as a printable side -/
def exDict : Dict := [("(NH4)2SO4".toList, Coef.ofNat 1), ("H2O".toList, Coef.ofNat 3)]
example : GoodDict "->".toList exDict :=
  ⟨⟨by decide, ⟨by decide, trivial⟩⟩, by
    intro kv hkv
    simp only [exDict, List.mem_cons, List.not_mem_nil, or_false] at hkv
    rcases hkv with rfl | rfl
    · exact ⟨1, by decide, rfl, by decide, by decide⟩
    · exact ⟨3, by decide, rfl, by decide, by decide⟩⟩
example : Tight "1.5e-07".toList := ⟨by decide, by intro c hc; simp at hc; subst hc; decide, by intro c hc; simp at hc; subst hc; decide⟩

end ChemModel.C12
