/-
C17 — closed-form integrated rate laws solve their rate equations from the given start.

Each theorem is about the function GENERATED from the current source text of `chempy/kinetics/integrated.py`
(`Gen/FnIntegrated.lean`, regenerated on every run), instantiated at ℝ (`exp := Real.exp`, `sqrt := Real.sqrt`,
`tanh := Real.tanh`, `atanh := Real.artanh`, `x ** y := Real.rpow`).  `…_ode` says: as a function of `t` the closed
form has, at EVERY `t` allowed by the stated hypotheses, a derivative equal to the right-hand side of the rate equation
of the documented mechanism evaluated at the closed form itself (an identity in `t` and all parameters); `…_init` says
that the value at the start is the stated initial concentration.  Helper lemmas: `Proofs/Integrated.lean`.

Division in ℝ is total in Lean (`x / 0 = 0`) whereas Python raises / yields nan.  Every theorem therefore carries the
hypotheses under which all denominators of the closed form are non-zero, also where Lean's proof does not need them
(those are the binders named `_h…`): the statements are about the region where the Python expression is defined.

Mechanisms / rate equations (y is the returned concentration, `prod` its initial value):
  dimerization_irrev   2 A → P                     C' = −2·kf·C²                                        C(t0) = initial_C
  pseudo_irrev         A + B → P (B in excess)     y' = kf·major·(minor − (y − prod))                   y(0) = prod
  pseudo_rev           A + B ⇌ P (B in excess)     y' = kf·major·(minor − (y − prod)) − kb·y            y(0) = prod
  binary_irrev         A + B → P                   y' = kf·(major − (y − prod))·(minor − (y − prod))    y(0) = prod
  binary_rev           A + B ⇌ P                   y' = kf·(major − (y − prod))·(minor − (y − prod)) − kb·y   y(0) = prod
  unary_irrev_cstr     A → B, stirred tank         A' = −k·A + fv·(fr − A),  B' = k·A + fv·(fp − B)     A(0) = r, B(0) = p
  binary_irrev_cstr    2 A → n B, stirred tank     A' = fv·fr − fv·A − 2·k·A²,  B' = fv·fp + n·k·A² − fv·B   A(0) = r, B(0) = p
-/
import ChemModel.Proofs.Integrated

namespace ChemModel.C17
open ChemModel ChemModel.Gen ChemModel.Integrated

/-! ## dimerization_irrev -/

/-- `C(t) = dimerization_irrev(t, kf, initial_C, t0)` satisfies `C' = −2·kf·C²` at every `t ≥ t0`
(positive `kf`, `initial_C`). -/
theorem dimerization_ode (t kf c t0 : ℝ) (hkf : 0 < kf) (hc : 0 < c) (ht : t0 ≤ t) :
    HasDerivAt (fun s => dimerizationIrrev s kf c t0) (-2 * kf * (dimerizationIrrev t kf c t0) ^ 2) t := by
  apply dimerization_hasDerivAt
  have h1 : 0 < 1 / c := by positivity
  have h2 : 0 ≤ 2 * kf * (t - t0) := mul_nonneg (by positivity) (by linarith)
  linarith

/-- the same at every `t` at which the closed form is defined at all (denominator ≠ 0), any signs -/
theorem dimerization_ode_general (t kf c t0 : ℝ) (_hc : c ≠ 0) (hden : 1 / c + 2 * kf * (t - t0) ≠ 0) :
    HasDerivAt (fun s => dimerizationIrrev s kf c t0) (-2 * kf * (dimerizationIrrev t kf c t0) ^ 2) t :=
  dimerization_hasDerivAt t kf c t0 hden

/-- value at the start `t = t0` -/
theorem dimerization_init (kf c t0 : ℝ) (_hc : c ≠ 0) : dimerizationIrrev t0 kf c t0 = c := by
  simp [dimerizationIrrev]

/-! ## pseudo_irrev -/

/-- `y' = kf·major·(minor − (y − prod))` for all real parameters and all `t` -/
theorem pseudo_irrev_ode (t kf prod major minor : ℝ) :
    HasDerivAt (fun s => pseudoIrrev s kf prod major minor)
      (kf * major * (minor - (pseudoIrrev t kf prod major minor - prod))) t :=
  pseudoIrrev_hasDerivAt t kf prod major minor

theorem pseudo_irrev_init (kf prod major minor : ℝ) : pseudoIrrev 0 kf prod major minor = prod := by
  simp [pseudoIrrev, NumReal.exp_def]

/-! ## pseudo_rev -/

/-- `y' = kf·major·(minor − (y − prod)) − kb·y` for all `t`; needs only `kb + kf·major ≠ 0` -/
theorem pseudo_rev_ode (t kf kb prod major minor : ℝ) (hl : kb + kf * major ≠ 0) :
    HasDerivAt (fun s => pseudoRev s kf kb prod major minor)
      (kf * major * (minor - (pseudoRev t kf kb prod major minor - prod)) - kb * pseudoRev t kf kb prod major minor) t :=
  pseudoRev_hasDerivAt t kf kb prod major minor hl

/-- the value at `t = 0` is the initial product concentration, also for `prod ≠ 0` (this failed before the fix 558d3bf) -/
theorem pseudo_rev_init (kf kb prod major minor : ℝ) (_hl : kb + kf * major ≠ 0) : pseudoRev 0 kf kb prod major minor = prod := by
  simp only [pseudoRev, NumReal.exp_def, neg_zero, zero_mul, Real.exp_zero, mul_one]
  have : -kb * prod + kf * major * minor + (kb * prod - kf * major * minor) = 0 := by ring
  rw [this, zero_div, add_zero]

/-! ## binary_irrev -/

/-- `y' = kf·(major − (y − prod))·(minor − (y − prod))` for `0 < minor < major` ("more / less abundant reactant"),
`0 < kf` and every `t ≥ 0` -/
theorem binary_irrev_ode (t kf prod major minor : ℝ) (hkf : 0 < kf) (hminor : 0 < minor) (hlt : minor < major) (ht : 0 ≤ t) :
    HasDerivAt (fun s => binaryIrrev s kf prod major minor)
      (kf * (major - (binaryIrrev t kf prod major minor - prod)) * (minor - (binaryIrrev t kf prod major minor - prod))) t :=
  binaryIrrev_hasDerivAt t kf prod major minor hminor.ne' (binaryIrrev_den_ne t kf major minor hkf hminor hlt ht)

/-- general form: wherever the denominator of the closed form does not vanish (covers `major < minor` as well) -/
theorem binary_irrev_ode_general (t kf prod major minor : ℝ) (hminor : minor ≠ 0)
    (hden : major / minor - Real.exp (-kf * t * (major - minor)) ≠ 0) :
    HasDerivAt (fun s => binaryIrrev s kf prod major minor)
      (kf * (major - (binaryIrrev t kf prod major minor - prod)) * (minor - (binaryIrrev t kf prod major minor - prod))) t :=
  binaryIrrev_hasDerivAt t kf prod major minor hminor hden

/-- value at `t = 0`; the hypothesis `major ≠ minor` is necessary: for `major = minor` the source evaluates `0/0` -/
theorem binary_irrev_init (kf prod major minor : ℝ) (_hminor : minor ≠ 0) (_hne : major ≠ minor) :
    binaryIrrev 0 kf prod major minor = prod := by
  simp [binaryIrrev, NumReal.exp_def]

/-! ## binary_rev -/

/-- `y' = kf·(major − (y − prod))·(minor − (y − prod)) − kb·y` for positive rate constants, non-negative
concentrations and every `t ≥ 0` -/
theorem binary_rev_ode (t kf kb prod major minor : ℝ) (hkf : 0 < kf) (hkb : 0 < kb) (hprod : 0 ≤ prod)
    (hmajor : 0 ≤ major) (hminor : 0 ≤ minor) (ht : 0 ≤ t) :
    HasDerivAt (fun s => binaryRev s kf kb prod major minor)
      (kf * (major - (binaryRev t kf kb prod major minor - prod)) * (minor - (binaryRev t kf kb prod major minor - prod))
        - kb * binaryRev t kf kb prod major minor) t := by
  have hD := binaryRevDisc_pos kf kb prod major minor hkf hkb hprod hmajor hminor
  have hs : 0 < Real.sqrt (binaryRevDisc kf kb prod major minor) := Real.sqrt_pos.mpr hD
  have hu : 0 < kb + major * kf + minor * kf := by positivity
  simp only [binaryRev_eq_with]
  exact binaryRevWith_hasDerivAt t kf kb prod major minor _ hkf.ne' (Real.sq_sqrt hD.le)
    (binaryRev_den_ne t kf kb major minor _ hu hs ht)

theorem binary_rev_init (kf kb prod major minor : ℝ) (hkf : 0 < kf) (hkb : 0 < kb) (hprod : 0 ≤ prod)
    (hmajor : 0 ≤ major) (hminor : 0 ≤ minor) : binaryRev 0 kf kb prod major minor = prod := by
  have hD := binaryRevDisc_pos kf kb prod major minor hkf hkb hprod hmajor hminor
  rw [binaryRev_eq_with]
  exact binaryRevWith_init kf kb prod major minor _ hkf.ne' (Real.sqrt_pos.mpr hD).ne'

/-! ## unary_irrev_cstr -/

/-- reactant: `A' = −k·A + fv·(fr − A)` for all `t` (only `fv + k ≠ 0` is needed) -/
theorem unary_irrev_cstr_ode_reactant (t k r p fr fp fv : ℝ) (hk : fv + k ≠ 0) :
    HasDerivAt (fun s => (unaryIrrevCstr s k r p fr fp fv).1)
      (-k * (unaryIrrevCstr t k r p fr fp fv).1 + fv * (fr - (unaryIrrevCstr t k r p fr fp fv).1)) t :=
  unaryIrrevCstr_fst_hasDerivAt t k r p fr fp fv hk

/-- product: `B' = k·A + fv·(fp − B)` for all `t` -/
theorem unary_irrev_cstr_ode_product (t k r p fr fp fv : ℝ) (hk : fv + k ≠ 0) :
    HasDerivAt (fun s => (unaryIrrevCstr s k r p fr fp fv).2)
      (k * (unaryIrrevCstr t k r p fr fp fv).1 + fv * (fp - (unaryIrrevCstr t k r p fr fp fv).2)) t :=
  unaryIrrevCstr_snd_hasDerivAt t k r p fr fp fv hk

theorem unary_irrev_cstr_init (k r p fr fp fv : ℝ) (hk : fv + k ≠ 0) :
    unaryIrrevCstr 0 k r p fr fp fv = (r, p) := by
  simp only [unaryIrrevCstr, NumReal.exp_def, Nat.cast_one, neg_zero, zero_mul, mul_zero, Real.exp_zero, mul_one]
  refine Prod.ext ?_ ?_ <;> simp only <;> field_simp <;> ring

/-! ## binary_irrev_cstr

The closed form contains `x7 = atanh(arg)`, `arg = −(fv + 4·k·r)/(√fv·√(fv + 8·k·fr))`.  `arg ∈ (−1, 1)` holds EXACTLY
when the initial concentration is below the steady state (`binary_irrev_cstr_domain`).  Outside that region the Python
functions return nan (numpy) / raise ValueError (math) — recorded as the known finding
`binary_irrev_cstr:nan-above-steady-state`; the theorems about the initial value are stated under the restriction.
The two rate equations hold for ANY value of the integration constant `x7`, so the `_ode` theorems need no restriction
in ℝ (where `Real.artanh` is a total function); they say nothing about the floating-point nan. -/

/-- exact domain: for positive parameters the `atanh` argument is in (−1, 1) iff `2·k·r² + fv·r < fv·fr`,
i.e. iff `r` is below the positive root of `2·k·A² + fv·A − fv·fr` (the steady state) -/
theorem binary_irrev_cstr_domain (k r fr fv : ℝ) (hk : 0 < k) (hr : 0 ≤ r) (hfv : 0 < fv) (hfr : 0 ≤ fr) :
    cstrArg k r fr fv ∈ Set.Ioo (-1) 1 ↔ 2 * k * r ^ 2 + fv * r < fv * fr :=
  cstrArg_mem_Ioo_iff k r fr fv hk hr hfv hfr

/-- reactant: `A' = fv·fr − fv·A − 2·k·A²` for all `t` -/
theorem binary_irrev_cstr_ode_reactant (t k r p fr fp fv n : ℝ) (hk : 0 < k) (hfv : 0 < fv) (hfr : 0 ≤ fr) :
    HasDerivAt (fun s => (binaryIrrevCstr s k r p fr fp fv n).1)
      (fv * fr - fv * (binaryIrrevCstr t k r p fr fp fv n).1 - 2 * k * (binaryIrrevCstr t k r p fr fp fv n).1 ^ 2) t := by
  have hrad : 0 < fv + fr * (8 * k) := by positivity
  simp only [binaryIrrevCstr_eq_with]
  exact cstrWith_fst_hasDerivAt _ _ _ t k r p fr fp fv n hk.ne' (Real.sq_sqrt hfv.le) (Real.sq_sqrt hrad.le)

/-- product: `B' = fv·fp + n·k·A² − fv·B` for all `t` -/
theorem binary_irrev_cstr_ode_product (t k r p fr fp fv n : ℝ) (hk : 0 < k) (hfv : 0 < fv) (hfr : 0 ≤ fr) :
    HasDerivAt (fun s => (binaryIrrevCstr s k r p fr fp fv n).2)
      (fv * fp + n * k * (binaryIrrevCstr t k r p fr fp fv n).1 ^ 2 - fv * (binaryIrrevCstr t k r p fr fp fv n).2) t := by
  have hrad : 0 < fv + fr * (8 * k) := by positivity
  simp only [binaryIrrevCstr_eq_with]
  exact cstrWith_snd_hasDerivAt _ _ _ t k r p fr fp fv n hk.ne' (Real.sqrt_pos.mpr hfv).ne' (Real.sqrt_pos.mpr hrad).ne'
    (Real.sq_sqrt hfv.le) (Real.sq_sqrt hrad.le)

/-- initial values `A(0) = r`, `B(0) = p` — below the steady state (explicit domain restriction) -/
theorem binary_irrev_cstr_init (k r p fr fp fv n : ℝ) (hk : 0 < k) (hr : 0 ≤ r) (hfv : 0 < fv) (hfr : 0 ≤ fr)
    (hdom : 2 * k * r ^ 2 + fv * r < fv * fr) :
    binaryIrrevCstr 0 k r p fr fp fv n = (r, p) := by
  have hrad : 0 < fv + fr * (8 * k) := by positivity
  rw [binaryIrrevCstr_eq_with]
  exact cstrWith_init _ _ k r p fr fp fv n hk.ne' (Real.sqrt_pos.mpr hfv).ne' (Real.sqrt_pos.mpr hrad).ne' _
    ((cstrArg_mem_Ioo_iff k r fr fv hk hr hfv hfr).mpr hdom) (cstrArg_eq k r fr fv hfv hrad)

/-! ## the hypotheses are satisfiable (concrete, non-trivial instances) -/

example : (0:ℝ) < 3 ∧ (0:ℝ) < 2 ∧ (1:ℝ) ≤ 4 := by norm_num                      -- dimerization_ode: kf = 3, c = 2, t0 = 1, t = 4
example : (7:ℝ) + 3 * 11 ≠ 0 := by norm_num                                      -- pseudo_rev_ode: kb = 7, kf = 3, major = 11
example : (0:ℝ) < 3 ∧ (0:ℝ) < 11 ∧ (11:ℝ) < 13 ∧ (0:ℝ) ≤ 2 := by norm_num        -- binary_irrev_ode: kf = 3, minor = 11, major = 13, t = 2
example : (0:ℝ) < 3 ∧ (0:ℝ) < 7 ∧ (0:ℝ) ≤ 5 ∧ (0:ℝ) ≤ 11 ∧ (0:ℝ) ≤ 13 := by norm_num  -- binary_rev_ode with non-zero initial product
example : (0.25:ℝ) + 2 ≠ 0 := by norm_num                                        -- unary_irrev_cstr: fv = 0.25, k = 2

example : (0:ℝ) < 2 ∧ (0:ℝ) ≤ 0.1 ∧ (0:ℝ) < 0.25 ∧ (0:ℝ) ≤ 3 ∧ 2 * (2:ℝ) * 0.1 ^ 2 + 0.25 * 0.1 < 0.25 * 3 := by
  norm_num                                                                        -- binary_irrev_cstr_init: k = 2, r = 0.1, fv = 0.25, fr = 3

/-- a fully instantiated use of `binary_irrev_ode` (non-zero initial product) -/
example : HasDerivAt (fun s : ℝ => binaryIrrev s 3 5 13 11)
    (3 * (13 - (binaryIrrev (2:ℝ) 3 5 13 11 - 5)) * (11 - (binaryIrrev (2:ℝ) 3 5 13 11 - 5))) 2 :=
  binary_irrev_ode 2 3 5 13 11 (by norm_num) (by norm_num) (by norm_num) (by norm_num)

end ChemModel.C17
