/-
C17 — closed-form integrated rate laws solve their rate equations from the given start.

Each theorem is about the function GENERATED from the current source text of `chempy/kinetics/integrated.py`
(`Gen/FnIntegrated.lean`, regenerated on every run), instantiated at ℝ (`exp := Real.exp`, `sqrt := Real.sqrt`,
`tanh := Real.tanh`, `atanh := Real.artanh`, `x ** y := Real.rpow`).  `…_ode` says: as a function of `t` the closed
form has, at EVERY `t` allowed by the stated hypotheses, a derivative equal to the right-hand side of the rate equation
of the documented mechanism evaluated at the closed form itself (an identity in `t` and all parameters); `…_init` says
that the value at the start is the stated initial concentration.  Helper lemmas: `Proofs/Integrated.lean`; there each generated
function is first rewritten into a hand-written normal form by a lemma proved with `ring_nf` (so temporaries, common sub-expressions
and re-associated products in the Python do not disturb the proofs; an algebraic change does).

Division in ℝ is total in Lean (`x / 0 = 0`) whereas Python raises / yields nan.  Every theorem therefore carries the
hypotheses under which all denominators of the closed form are non-zero, also where Lean's proof does not need them
(those are the binders named `_h…`): the statements are about the region where the Python expression is defined.

Mechanisms / rate equations (y is the returned concentration, `prod` its initial value):
  dimerization_irrev   2 A → P                     C' = −2·kf·C²                                        C(t0) = initial_C
  pseudo_irrev         A + B → P (B in excess)     y' = kf·major·(minor − (y − prod))                   y(0) = prod
  pseudo_rev           A + B ⇌ P (B in excess)     y' = kf·major·(minor − (y − prod)) − kb·y            y(0) = prod
  binary_irrev         A + B → P                   y' = kf·(major − (y − prod))·(minor − (y − prod))    y(0) = prod
  binary_rev           A + B ⇌ P                   y' = kf·(major − (y − prod))·(minor − (y − prod)) − kb·y   y(0) = prod
  unary_irrev_cstr     A → B, stirred tank         A' = −k·A + fv·(fr − A),  B' = k·A + fv·(fp − B)     A(0) = r, B(0) = p
  binary_irrev_cstr    2 A → n B, stirred tank     A' = fv·fr − fv·A − 2·k·A²,  B' = fv·fp + n·k·A² − fv·B   A(0) = r, B(0) = p
-/
import ChemModel.Proofs.Integrated

namespace ChemModel.C17
open ChemModel ChemModel.Gen ChemModel.Integrated

/-! ## dimerization_irrev -/

/-- `C(t) = dimerization_irrev(t, kf, initial_C, t0)` satisfies `C' = −2·kf·C²` at every `t ≥ t0`
(positive `kf`, `initial_C`). -/
theorem dimerization_ode (t kf c t0 : ℝ) (hkf : 0 < kf) (hc : 0 < c) (ht : t0 ≤ t) :
    HasDerivAt (fun s => dimerizationIrrev s kf c t0) (-2 * kf * (dimerizationIrrev t kf c t0) ^ 2) t := by
  apply dimerization_hasDerivAt
  have h1 : 0 < 1 / c := by positivity
  have h2 : 0 ≤ 2 * kf * (t - t0) := mul_nonneg (by positivity) (by linarith)
  linarith

/-- the same at every `t` at which the closed form is defined at all (denominator ≠ 0), any signs -/
theorem dimerization_ode_general (t kf c t0 : ℝ) (_hc : c ≠ 0) (hden : 1 / c + 2 * kf * (t - t0) ≠ 0) :
    HasDerivAt (fun s => dimerizationIrrev s kf c t0) (-2 * kf * (dimerizationIrrev t kf c t0) ^ 2) t :=
  dimerization_hasDerivAt t kf c t0 hden

/-- value at the start `t = t0` -/
theorem dimerization_init (kf c t0 : ℝ) (_hc : c ≠ 0) : dimerizationIrrev t0 kf c t0 = c := by
  rw [dimerization_eq_nf]; simp [dimerizationNF]

/-! ## pseudo_irrev -/

/-- `y' = kf·major·(minor − (y − prod))` for all real parameters and all `t` -/
theorem pseudo_irrev_ode (t kf prod major minor : ℝ) :
    HasDerivAt (fun s => pseudoIrrev s kf prod major minor)
      (kf * major * (minor - (pseudoIrrev t kf prod major minor - prod))) t :=
  pseudoIrrev_hasDerivAt t kf prod major minor

theorem pseudo_irrev_init (kf prod major minor : ℝ) : pseudoIrrev 0 kf prod major minor = prod := by
  rw [pseudoIrrev_eq_nf]; simp [pseudoIrrevNF]

/-! ## pseudo_rev -/

/-- `y' = kf·major·(minor − (y − prod)) − kb·y` for all `t`; needs only `kb + kf·major ≠ 0` -/
theorem pseudo_rev_ode (t kf kb prod major minor : ℝ) (hl : kb + kf * major ≠ 0) :
    HasDerivAt (fun s => pseudoRev s kf kb prod major minor)
      (kf * major * (minor - (pseudoRev t kf kb prod major minor - prod)) - kb * pseudoRev t kf kb prod major minor) t :=
  pseudoRev_hasDerivAt t kf kb prod major minor hl

/-- the value at `t = 0` is the initial product concentration, also for `prod ≠ 0` (this failed before the fix 558d3bf) -/
theorem pseudo_rev_init (kf kb prod major minor : ℝ) (_hl : kb + kf * major ≠ 0) : pseudoRev 0 kf kb prod major minor = prod := by
  rw [pseudoRev_eq_nf]
  simp only [pseudoRevNF, neg_zero, zero_mul, Real.exp_zero, mul_one]
  have : -kb * prod + kf * major * minor + (kb * prod - kf * major * minor) = 0 := by ring
  rw [this, zero_div, add_zero]

/-! ## binary_irrev -/

/-- `y' = kf·(major − (y − prod))·(minor − (y − prod))` for `0 < minor < major` ("more / less abundant reactant"),
`0 < kf` and every `t ≥ 0` -/
theorem binary_irrev_ode (t kf prod major minor : ℝ) (hkf : 0 < kf) (hminor : 0 < minor) (hlt : minor < major) (ht : 0 ≤ t) :
    HasDerivAt (fun s => binaryIrrev s kf prod major minor)
      (kf * (major - (binaryIrrev t kf prod major minor - prod)) * (minor - (binaryIrrev t kf prod major minor - prod))) t :=
  binaryIrrev_hasDerivAt t kf prod major minor hminor.ne' (binaryIrrev_den_ne t kf major minor hkf hminor hlt ht)

/-- the same when the reactant called `minor` is the more abundant one (`0 < major < minor`): the property quantifies over all
positive concentrations, only `major = minor` is excluded (0/0 in the source) -/
theorem binary_irrev_ode_minor_excess (t kf prod major minor : ℝ) (hkf : 0 < kf) (hmajor : 0 < major) (hlt : major < minor)
    (ht : 0 ≤ t) :
    HasDerivAt (fun s => binaryIrrev s kf prod major minor)
      (kf * (major - (binaryIrrev t kf prod major minor - prod)) * (minor - (binaryIrrev t kf prod major minor - prod))) t :=
  binaryIrrev_hasDerivAt t kf prod major minor (lt_trans hmajor hlt).ne'
    (binaryIrrev_den_ne_minor_excess t kf major minor hkf hmajor hlt ht)

/-- general form: wherever the denominator of the closed form does not vanish (covers `major < minor` as well) -/
theorem binary_irrev_ode_general (t kf prod major minor : ℝ) (hminor : minor ≠ 0)
    (hden : major / minor - Real.exp (-kf * t * (major - minor)) ≠ 0) :
    HasDerivAt (fun s => binaryIrrev s kf prod major minor)
      (kf * (major - (binaryIrrev t kf prod major minor - prod)) * (minor - (binaryIrrev t kf prod major minor - prod))) t :=
  binaryIrrev_hasDerivAt t kf prod major minor hminor hden

/-- value at `t = 0`; the hypothesis `major ≠ minor` is necessary: for `major = minor` the source evaluates `0/0` -/
theorem binary_irrev_init (kf prod major minor : ℝ) (_hminor : minor ≠ 0) (_hne : major ≠ minor) :
    binaryIrrev 0 kf prod major minor = prod := by
  rw [binaryIrrev_eq_nf]; simp [binaryIrrevNF]

/-! ## binary_rev -/

/-- `y' = kf·(major − (y − prod))·(minor − (y − prod)) − kb·y` for positive rate constants, non-negative
concentrations and every `t ≥ 0` -/
theorem binary_rev_ode (t kf kb prod major minor : ℝ) (hkf : 0 < kf) (hkb : 0 < kb) (hprod : 0 ≤ prod)
    (hmajor : 0 ≤ major) (hminor : 0 ≤ minor) (ht : 0 ≤ t) :
    HasDerivAt (fun s => binaryRev s kf kb prod major minor)
      (kf * (major - (binaryRev t kf kb prod major minor - prod)) * (minor - (binaryRev t kf kb prod major minor - prod))
        - kb * binaryRev t kf kb prod major minor) t := by
  have hD := binaryRevDisc_pos kf kb prod major minor hkf hkb hprod hmajor hminor
  have hs : 0 < Real.sqrt (binaryRevDisc kf kb prod major minor) := Real.sqrt_pos.mpr hD
  have hu : 0 < kb + major * kf + minor * kf := by positivity
  simp only [binaryRev_eq_with]
  exact binaryRevWith_hasDerivAt t kf kb prod major minor _ hkf.ne' (Real.sq_sqrt hD.le)
    (binaryRev_den_ne t kf kb major minor _ hu hs ht)

theorem binary_rev_init (kf kb prod major minor : ℝ) (hkf : 0 < kf) (hkb : 0 < kb) (hprod : 0 ≤ prod)
    (hmajor : 0 ≤ major) (hminor : 0 ≤ minor) : binaryRev 0 kf kb prod major minor = prod := by
  have hD := binaryRevDisc_pos kf kb prod major minor hkf hkb hprod hmajor hminor
  rw [binaryRev_eq_with]
  exact binaryRevWith_init kf kb prod major minor _ hkf.ne' (Real.sqrt_pos.mpr hD).ne'

/-! ## unary_irrev_cstr -/

/-- reactant: `A' = −k·A + fv·(fr − A)` for all `t` (only `fv + k ≠ 0` is needed) -/
theorem unary_irrev_cstr_ode_reactant (t k r p fr fp fv : ℝ) (hk : fv + k ≠ 0) :
    HasDerivAt (fun s => (unaryIrrevCstr s k r p fr fp fv).1)
      (-k * (unaryIrrevCstr t k r p fr fp fv).1 + fv * (fr - (unaryIrrevCstr t k r p fr fp fv).1)) t :=
  unaryIrrevCstr_fst_hasDerivAt t k r p fr fp fv hk

/-- product: `B' = k·A + fv·(fp − B)` for all `t` -/
theorem unary_irrev_cstr_ode_product (t k r p fr fp fv : ℝ) (hk : fv + k ≠ 0) :
    HasDerivAt (fun s => (unaryIrrevCstr s k r p fr fp fv).2)
      (k * (unaryIrrevCstr t k r p fr fp fv).1 + fv * (fp - (unaryIrrevCstr t k r p fr fp fv).2)) t :=
  unaryIrrevCstr_snd_hasDerivAt t k r p fr fp fv hk

theorem unary_irrev_cstr_init (k r p fr fp fv : ℝ) (hk : fv + k ≠ 0) :
    unaryIrrevCstr 0 k r p fr fp fv = (r, p) := by
  rw [unaryIrrevCstr_eq_nf]
  simp only [unaryIrrevCstrNF, neg_zero, zero_mul, mul_zero, Real.exp_zero, mul_one]
  refine Prod.ext ?_ ?_ <;> simp only <;> field_simp <;> ring

/-! ## binary_irrev_cstr

The closed form contains `x7 = atanh(arg)`, `arg = −(fv + 4·k·r)/(√fv·√(fv + 8·k·fr))`.  `arg ∈ (−1, 1)` holds EXACTLY
when the initial concentration is below the steady state (`binary_irrev_cstr_domain`).  Outside that region the Python
functions return nan (numpy) / raise ValueError (math) — recorded as the known finding
`binary_irrev_cstr:nan-above-steady-state`; the theorems about the initial value are stated under the restriction.
`Real.artanh` is a total function in Lean, Python's `atanh` is not: every theorem about `binary_irrev_cstr` therefore carries the
domain hypothesis `hdom : 2·k·r² + fv·r < fv·fr` (⇔ |arg| < 1, `binary_irrev_cstr_domain`) that the Python needs to return a number
at all.  (The rate equations happen to hold for any value of the constant `x7`, so the proofs of the `_ode` theorems do not use
`hdom`; it is stated because outside the domain the real code yields nan / ValueError, not a solution.) -/

/-- exact domain: for positive parameters the `atanh` argument is in (−1, 1) iff `2·k·r² + fv·r < fv·fr`,
i.e. iff `r` is below the positive root of `2·k·A² + fv·A − fv·fr` (the steady state) -/
theorem binary_irrev_cstr_domain (k r fr fv : ℝ) (hk : 0 < k) (hr : 0 ≤ r) (hfv : 0 < fv) (hfr : 0 ≤ fr) :
    cstrArg k r fr fv ∈ Set.Ioo (-1) 1 ↔ 2 * k * r ^ 2 + fv * r < fv * fr :=
  cstrArg_mem_Ioo_iff k r fr fv hk hr hfv hfr

/-- reactant: `A' = fv·fr − fv·A − 2·k·A²` for all `t`, inside the domain of the closed form -/
theorem binary_irrev_cstr_ode_reactant (t k r p fr fp fv n : ℝ) (hk : 0 < k) (_hr : 0 ≤ r) (hfv : 0 < fv) (hfr : 0 ≤ fr)
    (_hdom : 2 * k * r ^ 2 + fv * r < fv * fr) :
    HasDerivAt (fun s => (binaryIrrevCstr s k r p fr fp fv n).1)
      (fv * fr - fv * (binaryIrrevCstr t k r p fr fp fv n).1 - 2 * k * (binaryIrrevCstr t k r p fr fp fv n).1 ^ 2) t := by
  have hrad : 0 < fv + fr * (8 * k) := by positivity
  simp only [binaryIrrevCstr_eq_with]
  exact cstrWith_fst_hasDerivAt _ _ _ t k r p fr fp fv n hk.ne' (Real.sq_sqrt hfv.le) (Real.sq_sqrt hrad.le)

/-- product: `B' = fv·fp + n·k·A² − fv·B` for all `t`, inside the domain of the closed form -/
theorem binary_irrev_cstr_ode_product (t k r p fr fp fv n : ℝ) (hk : 0 < k) (_hr : 0 ≤ r) (hfv : 0 < fv) (hfr : 0 ≤ fr)
    (_hdom : 2 * k * r ^ 2 + fv * r < fv * fr) :
    HasDerivAt (fun s => (binaryIrrevCstr s k r p fr fp fv n).2)
      (fv * fp + n * k * (binaryIrrevCstr t k r p fr fp fv n).1 ^ 2 - fv * (binaryIrrevCstr t k r p fr fp fv n).2) t := by
  have hrad : 0 < fv + fr * (8 * k) := by positivity
  simp only [binaryIrrevCstr_eq_with]
  exact cstrWith_snd_hasDerivAt _ _ _ t k r p fr fp fv n hk.ne' (Real.sqrt_pos.mpr hfv).ne' (Real.sqrt_pos.mpr hrad).ne'
    (Real.sq_sqrt hfv.le) (Real.sq_sqrt hrad.le)

/-- initial values `A(0) = r`, `B(0) = p` — below the steady state (explicit domain restriction) -/
theorem binary_irrev_cstr_init (k r p fr fp fv n : ℝ) (hk : 0 < k) (hr : 0 ≤ r) (hfv : 0 < fv) (hfr : 0 ≤ fr)
    (hdom : 2 * k * r ^ 2 + fv * r < fv * fr) :
    binaryIrrevCstr 0 k r p fr fp fv n = (r, p) := by
  have hrad : 0 < fv + fr * (8 * k) := by positivity
  rw [binaryIrrevCstr_eq_with]
  exact cstrWith_init _ _ k r p fr fp fv n hk.ne' (Real.sqrt_pos.mpr hfv).ne' (Real.sqrt_pos.mpr hrad).ne' _
    ((cstrArg_mem_Ioo_iff k r fr fv hk hr hfv hfr).mpr hdom) (cstrArg_eq k r fr fv hfv hrad)

/-! ## the closed form is THE solution (linear rate equations)

For the three linear rate equations every differentiable function that satisfies the rate equation for all `t` and starts at the stated
initial concentration IS the closed form (Grönwall / `ODE_solution_unique_univ`): the `_ode` + `_init` theorems characterise it. -/

theorem pseudo_irrev_unique (kf prod major minor : ℝ) (y : ℝ → ℝ)
    (hy : ∀ t, HasDerivAt y (kf * major * (minor - (y t - prod))) t) (h0 : y 0 = prod) :
    y = fun t => pseudoIrrev t kf prod major minor := by
  refine affine_ode_unique (-(kf * major)) (kf * major * (minor + prod)) _ _ (fun t => (hy t).congr_deriv (by ring))
    (fun t => (pseudo_irrev_ode t kf prod major minor).congr_deriv (by ring)) ?_
  rw [h0, pseudo_irrev_init]

theorem pseudo_rev_unique (kf kb prod major minor : ℝ) (hl : kb + kf * major ≠ 0) (y : ℝ → ℝ)
    (hy : ∀ t, HasDerivAt y (kf * major * (minor - (y t - prod)) - kb * y t) t) (h0 : y 0 = prod) :
    y = fun t => pseudoRev t kf kb prod major minor := by
  refine affine_ode_unique (-(kb + kf * major)) (kf * major * (minor + prod)) _ _ (fun t => (hy t).congr_deriv (by ring))
    (fun t => (pseudo_rev_ode t kf kb prod major minor hl).congr_deriv (by ring)) ?_
  rw [h0, pseudo_rev_init kf kb prod major minor hl]

/-- reactant of the first-order stirred tank -/
theorem unary_irrev_cstr_reactant_unique (k r p fr fp fv : ℝ) (hk : fv + k ≠ 0) (y : ℝ → ℝ)
    (hy : ∀ t, HasDerivAt y (-k * y t + fv * (fr - y t)) t) (h0 : y 0 = r) :
    y = fun t => (unaryIrrevCstr t k r p fr fp fv).1 := by
  refine affine_ode_unique (-(fv + k)) (fv * fr) _ _ (fun t => (hy t).congr_deriv (by ring))
    (fun t => (unary_irrev_cstr_ode_reactant t k r p fr fp fv hk).congr_deriv (by ring)) ?_
  rw [h0, unary_irrev_cstr_init k r p fr fp fv hk]

/-- non-vacuity: the closed form itself satisfies the hypotheses -/
example : (fun t : ℝ => pseudoIrrev t 3 5 11 13) = fun t => pseudoIrrev t 3 5 11 13 :=
  pseudo_irrev_unique 3 5 11 13 _ (fun t => pseudo_irrev_ode t 3 5 11 13) (pseudo_irrev_init 3 5 11 13)

/-! ## the closed form is THE solution (quadratic rate equations, and the full first-order tank)

For the Riccati-type rate equations the right-hand side is only locally Lipschitz: on every interval `[start, T]` any function that
satisfies the rate equation there and starts at the stated initial concentration coincides with the generated closed form
(`quadratic_ode_unique`: both are bounded on the compact interval, the quadratic is Lipschitz on a bounded set, Grönwall). -/

section Uniqueness
open Set
theorem unary_irrev_cstr_unique (k r p fr fp fv : ℝ) (hk : fv + k ≠ 0) (yA yB : ℝ → ℝ)
    (hA : ∀ t, HasDerivAt yA (-k * yA t + fv * (fr - yA t)) t) (hB : ∀ t, HasDerivAt yB (k * yA t + fv * (fp - yB t)) t)
    (h0A : yA 0 = r) (h0B : yB 0 = p) :
    (fun t => (yA t, yB t)) = fun t => unaryIrrevCstr t k r p fr fp fv := by
  have hAeq := unary_irrev_cstr_reactant_unique k r p fr fp fv hk yA hA h0A
  have hBeq : yB = fun t => (unaryIrrevCstr t k r p fr fp fv).2 := by
    refine affine_ode_unique' (-fv) (fun t => k * (unaryIrrevCstr t k r p fr fp fv).1 + fv * fp) _ _
      (fun t => ?_) (fun t => (unary_irrev_cstr_ode_product t k r p fr fp fv hk).congr_deriv (by ring)) ?_
    · have := hB t
      rw [congrFun hAeq t] at this
      exact this.congr_deriv (by ring)
    · rw [h0B, unary_irrev_cstr_init k r p fr fp fv hk]
  funext t
  exact Prod.ext (congrFun hAeq t) (congrFun hBeq t)

theorem dimerization_unique (kf c t0 T : ℝ) (hkf : 0 < kf) (hc : 0 < c) (y : ℝ → ℝ)
    (hy : ∀ t ∈ Icc t0 T, HasDerivAt y (-2 * kf * y t ^ 2) t) (h0 : y t0 = c) :
    EqOn y (fun t => dimerizationIrrev t kf c t0) (Icc t0 T) := by
  refine quadratic_ode_unique (-2 * kf) 0 0 t0 T _ _ (fun t ht => (hy t ht).congr_deriv (by ring))
    (fun t ht => (dimerization_ode t kf c t0 hkf hc ht.1).congr_deriv (by ring)) ?_
  rw [h0, dimerization_init kf c t0 hc.ne']

theorem binary_irrev_unique (kf prod major minor T : ℝ) (hkf : 0 < kf) (hminor : 0 < minor) (hlt : minor < major) (y : ℝ → ℝ)
    (hy : ∀ t ∈ Icc 0 T, HasDerivAt y (kf * (major - (y t - prod)) * (minor - (y t - prod))) t) (h0 : y 0 = prod) :
    EqOn y (fun t => binaryIrrev t kf prod major minor) (Icc 0 T) := by
  refine quadratic_ode_unique kf (-(kf * (major + minor + 2 * prod))) (kf * (major + prod) * (minor + prod)) 0 T _ _
    (fun t ht => (hy t ht).congr_deriv (by ring))
    (fun t ht => (binary_irrev_ode t kf prod major minor hkf hminor hlt ht.1).congr_deriv (by ring)) ?_
  rw [h0, binary_irrev_init kf prod major minor hminor.ne' hlt.ne']

theorem binary_rev_unique (kf kb prod major minor T : ℝ) (hkf : 0 < kf) (hkb : 0 < kb) (hprod : 0 ≤ prod) (hmajor : 0 ≤ major)
    (hminor : 0 ≤ minor) (y : ℝ → ℝ)
    (hy : ∀ t ∈ Icc 0 T, HasDerivAt y (kf * (major - (y t - prod)) * (minor - (y t - prod)) - kb * y t) t) (h0 : y 0 = prod) :
    EqOn y (fun t => binaryRev t kf kb prod major minor) (Icc 0 T) := by
  refine quadratic_ode_unique kf (-(kf * (major + minor + 2 * prod)) - kb) (kf * (major + prod) * (minor + prod)) 0 T _ _
    (fun t ht => (hy t ht).congr_deriv (by ring))
    (fun t ht => (binary_rev_ode t kf kb prod major minor hkf hkb hprod hmajor hminor ht.1).congr_deriv (by ring)) ?_
  rw [h0, binary_rev_init kf kb prod major minor hkf hkb hprod hmajor hminor]

theorem binary_irrev_cstr_reactant_unique (k r p fr fp fv n T : ℝ) (hk : 0 < k) (hr : 0 ≤ r) (hfv : 0 < fv) (hfr : 0 ≤ fr)
    (hdom : 2 * k * r ^ 2 + fv * r < fv * fr) (y : ℝ → ℝ)
    (hy : ∀ t ∈ Icc 0 T, HasDerivAt y (fv * fr - fv * y t - 2 * k * y t ^ 2) t) (h0 : y 0 = r) :
    EqOn y (fun t => (binaryIrrevCstr t k r p fr fp fv n).1) (Icc 0 T) := by
  refine quadratic_ode_unique (-(2 * k)) (-fv) (fv * fr) 0 T _ _ (fun t ht => (hy t ht).congr_deriv (by ring))
    (fun t _ => (binary_irrev_cstr_ode_reactant t k r p fr fp fv n hk hr hfv hfr hdom).congr_deriv (by ring)) ?_
  rw [h0, binary_irrev_cstr_init k r p fr fp fv n hk hr hfv hfr hdom]

example : EqOn (fun t : ℝ => binaryIrrev t 3 5 13 11) (fun t => binaryIrrev t 3 5 13 11) (Icc 0 2) :=
  binary_irrev_unique 3 5 13 11 2 (by norm_num) (by norm_num) (by norm_num) _
    (fun t ht => binary_irrev_ode t 3 5 13 11 (by norm_num) (by norm_num) (by norm_num) ht.1)
    (binary_irrev_init 3 5 13 11 (by norm_num) (by norm_num))

/-- second-order stirred tank below the steady state: reactant AND product are determined by the rate equations and the start -/
theorem binary_irrev_cstr_unique (k r p fr fp fv n T : ℝ) (hk : 0 < k) (hr : 0 ≤ r) (hfv : 0 < fv) (hfr : 0 ≤ fr)
    (hdom : 2 * k * r ^ 2 + fv * r < fv * fr) (yA yB : ℝ → ℝ)
    (hA : ∀ t ∈ Icc 0 T, HasDerivAt yA (fv * fr - fv * yA t - 2 * k * yA t ^ 2) t)
    (hB : ∀ t ∈ Icc 0 T, HasDerivAt yB (fv * fp + n * k * yA t ^ 2 - fv * yB t) t) (h0A : yA 0 = r) (h0B : yB 0 = p) :
    EqOn (fun t => (yA t, yB t)) (fun t => binaryIrrevCstr t k r p fr fp fv n) (Icc 0 T) := by
  have hAeq := binary_irrev_cstr_reactant_unique k r p fr fp fv n T hk hr hfv hfr hdom yA hA h0A
  have hBeq : EqOn yB (fun t => (binaryIrrevCstr t k r p fr fp fv n).2) (Icc 0 T) := by
    refine affine_ode_unique_on (-fv) (fun t => fv * fp + n * k * (binaryIrrevCstr t k r p fr fp fv n).1 ^ 2) 0 T _ _
      (fun t ht => ?_) (fun t _ => (binary_irrev_cstr_ode_product t k r p fr fp fv n hk hr hfv hfr hdom).congr_deriv (by ring)) ?_
    · have := hB t ht
      rw [hAeq ht] at this
      exact this.congr_deriv (by ring)
    · rw [h0B, binary_irrev_cstr_init k r p fr fp fv n hk hr hfv hfr hdom]
  intro t ht
  exact Prod.ext (hAeq ht) (hBeq ht)
end Uniqueness

/-! ## binary_irrev_cstr above the steady state: specification of the missing branch

Above the steady state (`fv·fr < 2·k·r² + fv·r`) the Python returns nan / raises (known finding).  `binaryIrrevCstrAbove`
(`Proofs/Integrated.lean`, hand-written, NOT generated) is the same expression with `coth = 1/tanh` for `tanh` and the integration constant
`artanh(1/arg)`: it is real for every `t ≥ 0`, solves both rate equations and starts at `(r, p)`.  It is the target a repair of the
finding has to meet (and what the sympy backend evaluates through complex arithmetic; the harness checks that numerically). -/

/-- reactant above the steady state: `A' = fv·fr − fv·A − 2·k·A²` for every `t ≥ 0` -/
theorem binary_irrev_cstr_above_ode_reactant (t k r p fr fp fv n : ℝ) (hk : 0 < k) (hr : 0 ≤ r) (hfv : 0 < fv) (hfr : 0 ≤ fr)
    (habove : fv * fr < 2 * k * r ^ 2 + fv * r) (ht : 0 ≤ t) :
    HasDerivAt (fun s => (binaryIrrevCstrAbove s k r p fr fp fv n).1)
      (fv * fr - fv * (binaryIrrevCstrAbove t k r p fr fp fv n).1 - 2 * k * (binaryIrrevCstrAbove t k r p fr fp fv n).1 ^ 2) t := by
  have hrad : 0 < fv + fr * (8 * k) := by positivity
  exact cstrAbove_fst_hasDerivAt _ _ _ t k r p fr fp fv n hk.ne' (Real.sq_sqrt hfv.le) (Real.sq_sqrt hrad.le)
    (cstrAbove_tanh_ne t k r fr fv hk hr hfv hfr habove ht)

/-- product above the steady state: `B' = fv·fp + n·k·A² − fv·B` for every `t ≥ 0` -/
theorem binary_irrev_cstr_above_ode_product (t k r p fr fp fv n : ℝ) (hk : 0 < k) (hr : 0 ≤ r) (hfv : 0 < fv) (hfr : 0 ≤ fr)
    (habove : fv * fr < 2 * k * r ^ 2 + fv * r) (ht : 0 ≤ t) :
    HasDerivAt (fun s => (binaryIrrevCstrAbove s k r p fr fp fv n).2)
      (fv * fp + n * k * (binaryIrrevCstrAbove t k r p fr fp fv n).1 ^ 2 - fv * (binaryIrrevCstrAbove t k r p fr fp fv n).2) t := by
  have hrad : 0 < fv + fr * (8 * k) := by positivity
  exact cstrAbove_snd_hasDerivAt _ _ _ t k r p fr fp fv n hk.ne' (Real.sq_sqrt hfv.le) (Real.sq_sqrt hrad.le)
    (cstrAbove_tanh_ne t k r fr fv hk hr hfv hfr habove ht)

/-- initial values above the steady state: `(A, B)(0) = (r, p)` -/
theorem binary_irrev_cstr_above_init (k r p fr fp fv n : ℝ) (hk : 0 < k) (hr : 0 ≤ r) (hfv : 0 < fv) (hfr : 0 ≤ fr)
    (habove : fv * fr < 2 * k * r ^ 2 + fv * r) :
    binaryIrrevCstrAbove 0 k r p fr fp fv n = (r, p) := by
  have hrad : 0 < fv + fr * (8 * k) := by positivity
  have hmem := cstrAbove_arg_mem k r fr fv hk hr hfv hfr habove
  have hq : fv + 4 * k * r ≠ 0 := by positivity
  exact cstrAbove_init _ _ k r p fr fp fv n hk.ne' (Real.sqrt_pos.mpr hfv).ne' (Real.sqrt_pos.mpr hrad).ne' hq _
    ⟨hmem.1, lt_trans hmem.2 one_pos⟩ rfl

/-- the coordinator's witness of the known finding `binary_irrev_cstr(t, 2.0, 1.0, 0.5, 0.2, 1.5, 2.5)` is in this region -/
example : binaryIrrevCstrAbove (0:ℝ) 2 1 0.5 0.2 1.5 2.5 1 = (1, 0.5) :=
  binary_irrev_cstr_above_init 2 1 0.5 0.2 1.5 2.5 1 (by norm_num) (by norm_num) (by norm_num) (by norm_num) (by norm_num)
example : HasDerivAt (fun s : ℝ => (binaryIrrevCstrAbove s 2 1 0.5 0.2 1.5 2.5 1).1)
    (2.5 * 0.2 - 2.5 * (binaryIrrevCstrAbove (1:ℝ) 2 1 0.5 0.2 1.5 2.5 1).1 - 2 * 2 * (binaryIrrevCstrAbove (1:ℝ) 2 1 0.5 0.2 1.5 2.5 1).1 ^ 2) 1 :=
  binary_irrev_cstr_above_ode_reactant 1 2 1 0.5 0.2 1.5 2.5 1 (by norm_num) (by norm_num) (by norm_num) (by norm_num) (by norm_num)
    (by norm_num)

/-! ## no growing exponential on the documented domain

`…ExpArgs` (generated with the same `let`-chain as the value function) lists the argument of every `be.exp` call.  On the documented
domain (non-negative rate constants, concentrations and times; `minor ≤ major` for `binary_irrev`) every one of them is `≤ 0`, so
`exp` stays in (0, 1] and cannot overflow.  The value theorems above are about real numbers and cannot see overflow: an algebraically
identical rewrite with `exp(+kf·t·(major − minor))` keeps them provable, but breaks the theorem below (it returns nan / raises
OverflowError for kf·(major−minor)·t > 709 — the class of the repaired defect b386ccb). -/

theorem pseudo_irrev_exp_args_nonpos (t kf prod major minor : ℝ) (hkf : 0 ≤ kf) (hmajor : 0 ≤ major) (ht : 0 ≤ t) :
    ∀ a ∈ pseudoIrrevExpArgs t kf prod major minor, a ≤ 0 := by
  have h := mul_nonneg (mul_nonneg hkf hmajor) ht
  simp only [pseudoIrrevExpArgs, List.forall_mem_cons, List.not_mem_nil, false_imp_iff, implies_true, and_true]
  and_intros <;> nlinarith

theorem pseudo_rev_exp_args_nonpos (t kf kb prod major minor : ℝ) (hkf : 0 ≤ kf) (hkb : 0 ≤ kb) (hmajor : 0 ≤ major) (ht : 0 ≤ t) :
    ∀ a ∈ pseudoRevExpArgs t kf kb prod major minor, a ≤ 0 := by
  have h1 := mul_nonneg ht hkb
  have h2 := mul_nonneg ht (mul_nonneg hkf hmajor)
  simp only [pseudoRevExpArgs, List.forall_mem_cons, List.not_mem_nil, false_imp_iff, implies_true, and_true]
  and_intros <;> nlinarith

/-- needs the documented labelling `minor ≤ major` ("major: the more abundant reactant") -/
theorem binary_irrev_exp_args_nonpos (t kf prod major minor : ℝ) (hkf : 0 ≤ kf) (hle : minor ≤ major) (ht : 0 ≤ t) :
    ∀ a ∈ binaryIrrevExpArgs t kf prod major minor, a ≤ 0 := by
  have h := mul_nonneg (mul_nonneg hkf ht) (sub_nonneg.mpr hle)
  simp only [binaryIrrevExpArgs, List.forall_mem_cons, List.not_mem_nil, false_imp_iff, implies_true, and_true]
  and_intros <;> nlinarith

theorem binary_rev_exp_args_nonpos (t kf kb prod major minor : ℝ) (ht : 0 ≤ t) :
    ∀ a ∈ binaryRevExpArgs t kf kb prod major minor, a ≤ 0 := by
  simp only [binaryRevExpArgs, NumReal.sqrt_def, List.forall_mem_cons, List.not_mem_nil, false_imp_iff, implies_true, and_true,
    neg_mul]
  and_intros <;> exact neg_nonpos.mpr (mul_nonneg ht (Real.sqrt_nonneg _))

theorem unary_irrev_cstr_exp_args_nonpos (t k r p fr fp fv : ℝ) (hk : 0 ≤ k) (hfv : 0 ≤ fv) (ht : 0 ≤ t) :
    ∀ a ∈ unaryIrrevCstrExpArgs t k r p fr fp fv, a ≤ 0 := by
  have h1 := mul_nonneg hfv ht
  have h2 := mul_nonneg hk ht
  simp only [unaryIrrevCstrExpArgs, List.forall_mem_cons, List.not_mem_nil, false_imp_iff, implies_true, and_true]
  and_intros <;> nlinarith

/-- since the repair b386ccb: the only exponential of `binary_irrev_cstr` is `exp(−fv·t)` -/
theorem binary_irrev_cstr_exp_args_nonpos (t k r p fr fp fv n : ℝ) (hfv : 0 ≤ fv) (ht : 0 ≤ t) :
    ∀ a ∈ binaryIrrevCstrExpArgs t k r p fr fp fv n, a ≤ 0 := by
  have h1 := mul_nonneg hfv ht
  simp only [binaryIrrevCstrExpArgs, List.forall_mem_cons, List.not_mem_nil, false_imp_iff, implies_true, and_true]
  and_intros <;> nlinarith

/-- `dimerization_irrev` calls no exponential at all -/
example (t kf c t0 : ℝ) : dimerizationIrrevExpArgs t kf c t0 = [] := rfl

example : ∀ a ∈ binaryIrrevExpArgs (2:ℝ) 3 5 13 11, a ≤ 0 :=
  binary_irrev_exp_args_nonpos 2 3 5 13 11 (by norm_num) (by norm_num) (by norm_num)
/-- non-vacuity: the list is not empty and really holds the decaying exponent -/
example : (-12:ℝ) ∈ binaryIrrevExpArgs (2:ℝ) 3 5 13 11 := by
  simp only [binaryIrrevExpArgs]; norm_num

/-! ## signature guards

The value functions above are specialisations of the source (arguments passed explicitly, one backend-independent text).  What a
specialisation cannot see is pinned here: parameters and defaults (`t0=0`, `P0=1`, `n=1`, `backend=None`), decorators, how the backend
module is obtained and which of its attributes are called (`be = get_backend(backend)`, `be.exp`, the `atanh` alias), and the code
not visited.  A source edit that changes any of it opens the guard (the failing-input search then decides whether it matters). -/

theorem dimerization_irrev_sig_guard : dimerizationIrrevSig =
    [("t", "<required>"), ("kf", "<required>"), ("initial_C", "<required>"), ("P0", "1"), ("t0", "0"), ("@decorators", ""),
     ("@args", "t kf initial_C t0"), ("@fixed", ""), ("@objects", ""), ("@warn", ""), ("@backend", ""), ("@skipped", "")] := by rfl

theorem pseudo_irrev_sig_guard : pseudoIrrevSig =
    [("t", "<required>"), ("kf", "<required>"), ("prod", "<required>"), ("major", "<required>"), ("minor", "<required>"),
     ("backend", "None"), ("@decorators", ""), ("@args", "t kf prod major minor"), ("@fixed", ""), ("@objects", ""), ("@warn", ""),
     ("@backend", "get_backend(backend) ; be = get_backend(backend) ; be.exp"), ("@skipped", "")] := by rfl

theorem pseudo_rev_sig_guard : pseudoRevSig =
    [("t", "<required>"), ("kf", "<required>"), ("kb", "<required>"), ("prod", "<required>"), ("major", "<required>"),
     ("minor", "<required>"), ("backend", "None"), ("@decorators", ""), ("@args", "t kf kb prod major minor"), ("@fixed", ""),
     ("@objects", ""), ("@warn", ""), ("@backend", "get_backend(backend) ; be = get_backend(backend) ; be.exp"), ("@skipped", "")] := by rfl

theorem binary_irrev_sig_guard : binaryIrrevSig =
    [("t", "<required>"), ("kf", "<required>"), ("prod", "<required>"), ("major", "<required>"), ("minor", "<required>"),
     ("backend", "None"), ("@decorators", ""), ("@args", "t kf prod major minor"), ("@fixed", ""), ("@objects", ""), ("@warn", ""),
     ("@backend", "get_backend(backend) ; be = get_backend(backend) ; be.exp"), ("@skipped", "")] := by rfl

theorem binary_rev_sig_guard : binaryRevSig =
    [("t", "<required>"), ("kf", "<required>"), ("kb", "<required>"), ("prod", "<required>"), ("major", "<required>"),
     ("minor", "<required>"), ("backend", "None"), ("@decorators", ""), ("@args", "t kf kb prod major minor"), ("@fixed", ""),
     ("@objects", ""), ("@warn", ""), ("@backend", "get_backend(backend) ; be = get_backend(backend) ; be.sqrt ; be.exp"),
     ("@skipped", "")] := by rfl

theorem unary_irrev_cstr_sig_guard : unaryIrrevCstrSig =
    [("t", "<required>"), ("k", "<required>"), ("r", "<required>"), ("p", "<required>"), ("fr", "<required>"), ("fp", "<required>"),
     ("fv", "<required>"), ("backend", "None"), ("@decorators", ""), ("@args", "t k r p fr fp fv"), ("@fixed", ""), ("@objects", ""),
     ("@warn", ""), ("@backend", "get_backend(backend) ; be = get_backend(backend) ; be.exp"), ("@skipped", "")] := by rfl

theorem binary_irrev_cstr_sig_guard : binaryIrrevCstrSig =
    [("t", "<required>"), ("k", "<required>"), ("r", "<required>"), ("p", "<required>"), ("fr", "<required>"), ("fp", "<required>"),
     ("fv", "<required>"), ("n", "1"), ("backend", "None"), ("@decorators", ""), ("@args", "t k r p fr fp fv n"), ("@fixed", ""),
     ("@objects", ""), ("@warn", ""),
     ("@backend", "get_backend(backend) ; be = get_backend(backend) ; be.atanh ; be.arctanh ; atanh = be.atanh if hasattr(be, 'atanh') else be.arctanh ; be.cos ; be.sqrt ; be.exp ; be.tanh"),
     ("@skipped", "")] := by rfl

/-! ## the hypotheses are satisfiable: every theorem family applied to concrete, non-trivial parameters -/

example : HasDerivAt (fun s : ℝ => dimerizationIrrev s 3 2 1) (-2 * 3 * (dimerizationIrrev (4:ℝ) 3 2 1) ^ 2) 4 :=
  dimerization_ode 4 3 2 1 (by norm_num) (by norm_num) (by norm_num)
example : dimerizationIrrev (1:ℝ) 3 2 1 = 2 := dimerization_init 3 2 1 (by norm_num)

example : HasDerivAt (fun s : ℝ => pseudoRev s 3 7 5 11 13)
    (3 * 11 * (13 - (pseudoRev (2:ℝ) 3 7 5 11 13 - 5)) - 7 * pseudoRev (2:ℝ) 3 7 5 11 13) 2 :=
  pseudo_rev_ode 2 3 7 5 11 13 (by norm_num)
example : pseudoRev (0:ℝ) 3 7 5 11 13 = 5 := pseudo_rev_init 3 7 5 11 13 (by norm_num)

/-- `binary_irrev_ode` with non-zero initial product -/
example : HasDerivAt (fun s : ℝ => binaryIrrev s 3 5 13 11)
    (3 * (13 - (binaryIrrev (2:ℝ) 3 5 13 11 - 5)) * (11 - (binaryIrrev (2:ℝ) 3 5 13 11 - 5))) 2 :=
  binary_irrev_ode 2 3 5 13 11 (by norm_num) (by norm_num) (by norm_num) (by norm_num)
/-- the parameter point of chempy's own test (major = 11 < minor = 13) -/
example : HasDerivAt (fun s : ℝ => binaryIrrev s 3 0 11 13)
    (3 * (11 - (binaryIrrev (2:ℝ) 3 0 11 13 - 0)) * (13 - (binaryIrrev (2:ℝ) 3 0 11 13 - 0))) 2 :=
  binary_irrev_ode_minor_excess 2 3 0 11 13 (by norm_num) (by norm_num) (by norm_num) (by norm_num)
example : binaryIrrev (0:ℝ) 3 5 13 11 = 5 := binary_irrev_init 3 5 13 11 (by norm_num) (by norm_num)

example : HasDerivAt (fun s : ℝ => binaryRev s 3 7 5 11 13)
    (3 * (11 - (binaryRev (2:ℝ) 3 7 5 11 13 - 5)) * (13 - (binaryRev (2:ℝ) 3 7 5 11 13 - 5)) - 7 * binaryRev (2:ℝ) 3 7 5 11 13) 2 :=
  binary_rev_ode 2 3 7 5 11 13 (by norm_num) (by norm_num) (by norm_num) (by norm_num) (by norm_num) (by norm_num)
example : binaryRev (0:ℝ) 3 7 5 11 13 = 5 :=
  binary_rev_init 3 7 5 11 13 (by norm_num) (by norm_num) (by norm_num) (by norm_num) (by norm_num)

example : unaryIrrevCstr (0:ℝ) 2 0.1 0.2 3 0.3 0.25 = (0.1, 0.2) := unary_irrev_cstr_init 2 0.1 0.2 3 0.3 0.25 (by norm_num)
example : HasDerivAt (fun s : ℝ => (unaryIrrevCstr s 2 0.1 0.2 3 0.3 0.25).2)
    (2 * (unaryIrrevCstr (1:ℝ) 2 0.1 0.2 3 0.3 0.25).1 + 0.25 * (0.3 - (unaryIrrevCstr (1:ℝ) 2 0.1 0.2 3 0.3 0.25).2)) 1 :=
  unary_irrev_cstr_ode_product 1 2 0.1 0.2 3 0.3 0.25 (by norm_num)

/-- below the steady state: k = 2, r = 0.1, fv = 0.25, fr = 3 (2·2·0.01 + 0.025 < 0.75), n = 2 -/
example : binaryIrrevCstr (0:ℝ) 2 0.1 0.2 3 0.3 0.25 2 = (0.1, 0.2) :=
  binary_irrev_cstr_init 2 0.1 0.2 3 0.3 0.25 2 (by norm_num) (by norm_num) (by norm_num) (by norm_num) (by norm_num)
example : HasDerivAt (fun s : ℝ => (binaryIrrevCstr s 2 0.1 0.2 3 0.3 0.25 2).1)
    (0.25 * 3 - 0.25 * (binaryIrrevCstr (1:ℝ) 2 0.1 0.2 3 0.3 0.25 2).1 - 2 * 2 * (binaryIrrevCstr (1:ℝ) 2 0.1 0.2 3 0.3 0.25 2).1 ^ 2) 1 :=
  binary_irrev_cstr_ode_reactant 1 2 0.1 0.2 3 0.3 0.25 2 (by norm_num) (by norm_num) (by norm_num) (by norm_num) (by norm_num)
/-- the domain criterion decides concrete points: the coordinator's witness of the known finding is outside -/
example : cstrArg (2:ℝ) 1 0.2 2.5 ∉ Set.Ioo (-1) 1 := by
  rw [binary_irrev_cstr_domain 2 1 0.2 2.5 (by norm_num) (by norm_num) (by norm_num) (by norm_num)]; norm_num

end ChemModel.C17
