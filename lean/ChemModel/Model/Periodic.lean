/-
Model of chempy/util/periodic.py (atomic_number, relative_atomic_masses,
mass_from_composition) and of chempy.chemistry.mass_fractions, exact on ℚ.
Import-free apart from the generated table.

Python semantics mirrored:
* `mass_from_composition` iterates over the dict items, accumulating left to right;
  key 0 subtracts `v * 5.489e-4` (literal extracted), key k>0 adds
  `v * relative_atomic_masses[k-1]`; an index past the table raises IndexError (`none`).
  Keys are modelled as `Nat` (negative keys, which Python would silently wrap around,
  are outside the model's domain and never produced by the parser).
* `atomic_number(name)`: `symbols.index(name.capitalize()) + 1`, falling back to
  `lower_names.index(name.lower()) + 1`, else ValueError (`none`). ASCII only.
-/
import ChemModel.Gen.Periodic

namespace ChemModel.Periodic
open ChemModel.Gen

abbrev Comp := List (Nat × Rat)

def electronMass : Rat := (electronMassNum : Rat) / (electronMassDen : Rat)

/-- standard atomic weight of atomic number `z` (1-based); `none` past the table -/
def weight? (z : Nat) : Option Rat :=
  if z = 0 then none else (massTab[z - 1]?).map fun m => (m : Rat) / (massScale : Rat)

def massTerm (k : Nat) (v : Rat) : Option Rat :=
  if k = 0 then some (-(v * electronMass)) else (weight? k).map fun w => v * w

/-- the accumulating loop of `mass_from_composition` -/
def massLoop (acc : Rat) : Comp → Option Rat
  | [] => some acc
  | (k, v) :: r => match massTerm k v with
    | none => none
    | some t => massLoop (acc + t) r

def massFromComposition (c : Comp) : Option Rat := massLoop 0 c

/-- spec form: Σ over the entries (order-free) -/
def massSum : Comp → Option Rat
  | [] => some 0
  | (k, v) :: r => match massTerm k v, massSum r with
    | some t, some m => some (t + m)
    | _, _ => none

/-- `d[k] += v` (insert when absent): how the formula parser accumulates a composition -/
def addKey (k : Nat) (v : Rat) : Comp → Comp
  | [] => [(k, v)]
  | (k', v') :: r => if k' = k then (k', v' + v) :: r else (k', v') :: addKey k v r

/-- per-key sum of two compositions -/
def addComp (a b : Comp) : Comp := b.foldl (fun acc p => addKey p.1 p.2 acc) a

def scaleComp (n : Rat) (a : Comp) : Comp := a.map fun p => (p.1, n * p.2)

/-- Python's `str.index` on a tuple of strings -/
def indexOf? (l : List String) (s : String) : Option Nat :=
  let i := l.findIdx (· == s)
  if i < l.length then some i else none

def lowerStr (s : String) : String := String.ofList (s.toList.map Char.toLower)

/-- `str.capitalize()` restricted to ASCII -/
def capitalizeStr (s : String) : String :=
  match s.toList with
  | [] => ""
  | c :: r => String.ofList (c.toUpper :: r.map Char.toLower)

def lowerNames : List String := names.map lowerStr

def atomicNumber (name : String) : Option Nat :=
  match indexOf? symbols (capitalizeStr name) with
  | some i => some (i + 1)
  | none => match indexOf? lowerNames (lowerStr name) with
    | some i => some (i + 1)
    | none => none

/-- `mass_fractions`: per entry `mass * v / tot_mass`; (mass, v) pairs in dict order.
    Division by a zero total raises ZeroDivisionError in Python (`none`). -/
def massFractions (mv : List (Rat × Rat)) : Option (List Rat) :=
  let tot := (mv.map fun p => p.1 * p.2).foldl (· + ·) 0
  if tot = 0 then none else some (mv.map fun p => p.1 * p.2 / tot)

/-- period / group tables as computed at import time of periodic.py -/
def groupMembers (g : Nat) : List Nat :=
  if 13 ≤ g ∧ g ≤ 17 then (accumPeriodLengths.drop 1).map fun x => x + g - 18
  else if g = 1 then 1 :: (accumPeriodLengths.dropLast).map (· + 1)
  else if g = 2 then (accumPeriodLengths.dropLast).map (· + 2)
  else if g = 18 then accumPeriodLengths
  else []

end ChemModel.Periodic
