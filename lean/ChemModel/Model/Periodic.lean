/-
Model of chempy/util/periodic.py (atomic_number, relative_atomic_masses,
mass_from_composition) and of chempy.chemistry.mass_fractions, exact on ℚ.
Import-free apart from the generated table.

Python semantics mirrored:
* `mass_from_composition` iterates over the dict items, accumulating left to right;
  key 0 subtracts `v * 5.489e-4` (literal extracted), key k>0 adds
  `v * relative_atomic_masses[k-1]`; an index past the table raises IndexError (`none`).
  Keys are modelled as `Nat` (negative keys, which Python would silently wrap around,
  are outside the model's domain and never produced by the parser).
* `atomic_number(name)`: `symbols.index(name.capitalize()) + 1`, falling back to
  `lower_names.index(name.lower()) + 1`, else ValueError (`none`). ASCII only
  (`str.capitalize` / `str.lower` on non-ASCII text, e.g. 'ſ'.capitalize() == 'S', are outside the model).
* `Substance.from_formula(s).mass` = `mass_from_composition(formula_to_composition(s))` (chemistry.py `Substance.mass`,
  no `data['mass']` given); `Species.from_formula(s, phases)` passes `suffixes = tuple(phases) + ("(aq)",)` to the parser.
  The parser model is the one of C01 (Model/Formula.lean).
-/
import ChemModel.Gen.Periodic
import ChemModel.Model.Formula

namespace ChemModel.Periodic
open ChemModel.Gen

abbrev Comp := List (Nat × Rat)

def electronMass : Rat := (electronMassNum : Rat) / (electronMassDen : Rat)

/-- standard atomic weight of atomic number `z` (1-based); `none` past the table -/
def weight? (z : Nat) : Option Rat :=
  if z = 0 then none else (massTab[z - 1]?).map fun m => (m : Rat) / (massScale : Rat)

def massTerm (k : Nat) (v : Rat) : Option Rat :=
  if k = 0 then some (-(v * electronMass)) else (weight? k).map fun w => v * w

/-- the accumulating loop of `mass_from_composition` -/
def massLoop (acc : Rat) : Comp → Option Rat
  | [] => some acc
  | (k, v) :: r => match massTerm k v with
    | none => none
    | some t => massLoop (acc + t) r

def massFromComposition (c : Comp) : Option Rat := massLoop 0 c

/-- spec form: Σ over the entries (order-free) -/
def massSum : Comp → Option Rat
  | [] => some 0
  | (k, v) :: r => match massTerm k v, massSum r with
    | some t, some m => some (t + m)
    | _, _ => none

/-- `d[k] += v` (insert when absent): how the formula parser accumulates a composition -/
def addKey (k : Nat) (v : Rat) : Comp → Comp
  | [] => [(k, v)]
  | (k', v') :: r => if k' = k then (k', v' + v) :: r else (k', v') :: addKey k v r

/-- per-key sum of two compositions -/
def addComp (a b : Comp) : Comp := b.foldl (fun acc p => addKey p.1 p.2 acc) a

def scaleComp (n : Rat) (a : Comp) : Comp := a.map fun p => (p.1, n * p.2)

/-- Python's `str.index` on a tuple of strings -/
def indexOf? (l : List String) (s : String) : Option Nat :=
  let i := l.findIdx (· == s)
  if i < l.length then some i else none

def lowerStr (s : String) : String := String.ofList (s.toList.map Char.toLower)

/-- `str.capitalize()` restricted to ASCII -/
def capitalizeStr (s : String) : String :=
  match s.toList with
  | [] => ""
  | c :: r => String.ofList (c.toUpper :: r.map Char.toLower)

def lowerNames : List String := names.map lowerStr

def atomicNumber (name : String) : Option Nat :=
  match indexOf? symbols (capitalizeStr name) with
  | some i => some (i + 1)
  | none => match indexOf? lowerNames (lowerStr name) with
    | some i => some (i + 1)
    | none => none

/-- `mass_fractions` (chemistry.py): `tot_mass = sum([m*v ...])`, then the dict comprehension
    `{k: m*v/tot_mass ...}` over the (mass, v) pairs in dict order. The division happens once per entry, so a zero
    total raises ZeroDivisionError (`none`) only when there is at least one entry: `mass_fractions({}) == {}`. -/
def massFractions (mv : List (Rat × Rat)) : Option (List Rat) :=
  let tot := (mv.map fun p => p.1 * p.2).foldl (· + ·) 0
  mv.mapM fun p => if tot = 0 then none else some (p.1 * p.2 / tot)

/-- outcome of `Substance.from_formula(s).mass`: a parser exception, IndexError from the table lookup, or the mass -/
inductive MassErr
  | parse (e : Formula.ErrKind)
  | index
deriving DecidableEq, Repr

def MassErr.pyName : MassErr → String
  | .parse e => e.pyName
  | .index => "IndexError"

/-- `mass_from_composition(formula_to_composition(s, prefixes, suffixes))` -/
def formulaMassWith (prefixes suffixes : List (List Char)) (s : List Char) : Except MassErr Rat :=
  match Formula.formulaToCompositionWith prefixes suffixes s with
  | .error e => .error (.parse e)
  | .ok c => match massFromComposition c with
    | none => .error .index
    | some m => .ok m

/-- `Substance.from_formula(s).mass` (default prefixes and suffixes) -/
def formulaMass (s : String) : Except MassErr Rat :=
  formulaMassWith Gen.prefixesL Gen.suffixesL s.toList

/-- the phases `Species.from_formula` uses by default: `("(s)", "(l)", "(g)")` -/
def defaultPhases : List (List Char) := [['(', 's', ')'], ['(', 'l', ')'], ['(', 'g', ')']]

/-- the suffixes `Species.from_formula` appends to `tuple(phases)` — `("(aq)",)` in the source — taken from the
    generated constants (same expression as `speciesExtraSuffixes` of Model/FormulaFormat.lean, C13);
    Props/C14 `species_extra_suffix_guard` pins its value. -/
def speciesExtraSuffixes : List (List Char) := Gen.speciesSuffixesL.drop Gen.speciesPhases.length

/-- `Species.from_formula(s, phases).mass`: the composition is parsed with `suffixes = tuple(phases) + ("(aq)",)` -/
def speciesMass (phases : List (List Char)) (s : String) : Except MassErr Rat :=
  formulaMassWith Gen.prefixesL (phases ++ speciesExtraSuffixes) s.toList

/-- `Solute.from_formula(s).mass` (deprecated class): `Substance.__init__` with
    `composition=formula_to_composition(formula)` — default prefixes and suffixes — plus the `precipitate` flag,
    which has no influence on the mass -/
def soluteMass (s : String) : Except MassErr Rat :=
  formulaMassWith Gen.prefixesL Gen.suffixesL s.toList

/-- one entry of the mixture: `(Substance.from_formula(key).mass, coefficient)` -/
def massPair (kv : String × Rat) : Except MassErr (Rat × Rat) :=
  match formulaMass kv.1 with
  | .ok m => .ok (m, kv.2)
  | .error e => .error e

/-- `mass_fractions(stoichiometries)` with the default `substances=None, substance_factory=Substance.from_formula`
    for a dict `{formula text: coefficient}`: first every key is turned into a substance (a parser exception of the
    first bad key escapes), then `massFractions` runs on the (mass, coefficient) pairs (`none` = ZeroDivisionError).
    A composition produced by the parser never has a key past the table, so the IndexError branch of `formulaMass` is dead here.
    This is the composition of the two driver ops `formula_mass` and `mass_fractions` (the harness composes them the same way). -/
def mixtureFractions (st : List (String × Rat)) : Except MassErr (Option (List Rat)) :=
  match st.mapM massPair with
  | .error e => .error e
  | .ok mv => .ok (massFractions mv)

/-! ### specification side (independent of the loop above; used in the statements of Props/C14.lean) -/

/-- standard atomic weight of atomic number `z` as a plain number, for use inside sums.
    Outside 1..118 the value is 0; every theorem using it also shows that no such `z` occurs
    (`weight?_eq_stdWeight`, `occurrence_keys_in_table`), so the default never carries a result. -/
def stdWeight (z : Nat) : Rat :=
  match weight? z with
  | some w => w
  | none => 0

/-- contribution of one dict entry `(key, amount)`: key 0 is the net charge, every other key an atomic number -/
def entryMass (p : Nat × Rat) : Rat :=
  if p.1 = 0 then -(p.2 * electronMass) else p.2 * stdWeight p.1

/-- the mass a written formula *should* have: Σ over every element occurrence of
    (product of the enclosing multipliers, hydrate count included) × standard weight, minus signed charge × mₑ.
    Defined on the AST only (`Formula.occurrences`, `Formula.denote f 0`); no parser, no dict. -/
def occurrenceMass (f : Formula.Formula) : Rat :=
  (f.occurrences.map fun p => p.2 * stdWeight p.1).sum - f.denote 0 * electronMass

/-- a formula consisting of one part with the given terms and nothing else (no prefix, charge, suffix) -/
def bareFormula (ts : Formula.Terms) : Formula.Formula :=
  { prefixes := [], sep := .dots, parts := [⟨none, ts⟩], charge := none, suffix := none }

/-- period / group tables as computed at import time of periodic.py -/
def groupMembers (g : Nat) : List Nat :=
  if 13 ≤ g ∧ g ≤ 17 then (accumPeriodLengths.drop 1).map fun x => x + g - 18
  else if g = 1 then 1 :: (accumPeriodLengths.dropLast).map (· + 1)
  else if g = 2 then (accumPeriodLengths.dropLast).map (· + 2)
  else if g = 18 then accumPeriodLengths
  else []

end ChemModel.Periodic
