/-
C16 — executable model of chempy's expression trees (`chempy/util/_expr.py`), of the rate / equilibrium expression
classes built on them (`chempy/kinetics/rates.py`, `chempy/thermodynamics/expressions.py`, `chempy/kinetics/_rates.py`)
and of the hand-written part of `ArrheniusParam` / `EyringParam` (`as_RateExpr`).

The model mirrors the code AS IT IS:
* `Val`            a Python value that can occur as an operand / argument: a number, a `str`, or an `Expr` instance
                   (class `Kind`, `args` (possibly `None`), `unique_keys` (possibly `None`)).
* `mkNode`         `Expr.__init__` (defaults appended, scalar argument wrapped, the two `ValueError` checks).
* `pyAdd … pyNeg`  the overloaded operators INCLUDING their short-cut branches and the `UnaryWrapper` (= `MassAction`)
                   variants and the reflected forms.
* `eval`           `Expr.__call__` for every class, through `argAt` (= `Expr.arg`: unique key → variables, else stored
                   argument, else default with Python's negative-index wrap-around), `allArgs`, parameter look-ups.
Python exceptions are values of `Err`; nothing is totalised (`x / 0` is `ZeroDivisionError`, a missing key `KeyError`, …).

Import-free apart from `Basic/Num`.  Generic over the number type: `Rat` (exact), `Float`, `ℝ` (proofs).
-/
import ChemModel.Basic.Num
set_option autoImplicit false
namespace ChemModel.PyExpr

/-- Python exceptions (by class) and the three non-exceptional outcomes that are not a number of the model. -/
inductive Err
  | keyError | indexError | valueError | typeError | zeroDivision | attributeError | notImplemented | overflow
  /-- `x ** y` with x < 0 and non-integer y: Python returns a complex number -/
  | complexResult
  /-- `Rat` instantiation only: Python would return a float (exp, log10, sin, non-integer power) -/
  | inexact
  /-- the call returns `None` (a polynomial without coefficients) -/
  | returnsNone
  /-- the call returns an object that is not a number (`Constant` holding a str / an Expr) -/
  | notANumber
deriving DecidableEq, Repr, Inhabited

def Err.name : Err → String
  | .keyError => "KeyError" | .indexError => "IndexError" | .valueError => "ValueError" | .typeError => "TypeError"
  | .zeroDivision => "ZeroDivisionError" | .attributeError => "AttributeError" | .notImplemented => "NotImplementedError"
  | .overflow => "OverflowError" | .complexResult => "complex" | .inexact => "inexact" | .returnsNone => "None"
  | .notANumber => "not-a-number"

/-- What Python needs from a number beyond `+ - * / neg` and integer literals.  `pow`, `exp`, `log10`, `sin` carry
their own error behaviour (they are backend / type specific); `/` is guarded generically by `pyDiv`. -/
class PyNum (α : Type) where
  /-- `x == y` -/
  beq : α → α → Bool
  /-- `x <= y` -/
  le : α → α → Bool
  /-- `isinstance(x, (int, float))` (a `Fraction` is not) -/
  isScalar : α → Bool
  /-- `x ** y` (`operator.pow`) -/
  pow : α → α → Except Err α
  exp : α → Except Err α
  log10 : α → Except Err α
  sin : α → Except Err α

/-- The classes.  `poly param reciprocal shift` = `create_Poly(param, reciprocal, shift=…)` (`TPoly`, `RTPoly`,
`ShiftedTPoly`, …), `piecewise param` = `create_Piecewise(param)`, `radiolytic names` = `mk_Radiolytic(*names)`
(after the `('',)` default). -/
inductive Kind
  | const | symbol | neg | add | sub | mul | div | pow | log10 | exp
  | poly (param : String) (reciprocal shift : Bool)
  | piecewise (param : String)
  | massAction | arrhenius | eyring | eyringHS
  | radiolytic (names : List String)
  | rampedTemp | sinTemp | massActionEq | gibbsEqConst
deriving DecidableEq, Repr, Inhabited

/-- A Python value occurring as operand or argument.  `node k na args uks`: an instance of class `k` with
`self.args = None` when `na` (then `args = []`) else `self.args = args`, and `self.unique_keys = uks`. -/
inductive Val (α : Type)
  | num (x : α)
  | str (s : String)
  | node (kind : Kind) (na : Bool) (args : List (Val α)) (uks : Option (List String))
deriving Repr, Inhabited

/-- the `reaction=` keyword as seen by a `__call__`: not passed, passed as `None`, or a `Reaction` (its `reac` dict in
insertion order; `order()` is the sum of its values) -/
inductive RxnArg
  | absent | none | some (reac : List (String × Int))
deriving Repr, Inhabited

/-- `variables` (numbers only) and the `reaction` keyword -/
structure Ctx (α : Type) where
  vars : String → Option α
  rxn : RxnArg

variable {α : Type}

/-- `variables[k]` -/
def Ctx.get (c : Ctx α) (k : String) : Except Err α :=
  match c.vars k with
  | some v => .ok v
  | none => .error .keyError

/-! ### class attributes -/

/-- class attribute `nargs` (`None` = unset) -/
def Kind.nargsCls : Kind → Option Int
  | .const | .symbol | .log10 | .exp => some 1
  | _ => none

/-- `argument_names` as (how many names before a possible trailing `Ellipsis`, ends with `Ellipsis`) -/
def Kind.argNames : Kind → Option (Nat × Bool)
  | .poly _ _ true => some (1, true)         -- (shift, Ellipsis)
  | .massAction => some (1, false)           -- ('rate_constant',)
  | .arrhenius => some (2, false)            -- ('A', 'Ea_over_R')
  | .eyring => some (3, false)               -- ('kB_h_times_exp_dS_R', 'dH_over_R', 'conc0')
  | .eyringHS => some (3, false)             -- ('dH', 'dS', 'c0')
  | .radiolytic names => some (names.length, false)
  | .rampedTemp => some (2, false)           -- ('T0', 'dTdt')
  | .sinTemp => some (4, false)              -- ('Tbase', 'Tamp', 'angvel', 'phase')
  | .massActionEq => some (1, false)         -- ('equilibrium_constant',)
  | .gibbsEqConst => some (2, false)         -- ('dH_over_R', 'dS_over_R')
  | _ => none

/-- `self.nargs` after `__init__` (_expr.py l.130-135): the number of argument names unless they end with `Ellipsis` -/
def Kind.nargs (k : Kind) : Option Int :=
  match k.argNames, k.nargsCls with
  | some (n, false), none => some n
  | _, c => c

/-- `argument_defaults` (magnitudes: `1 * molar` is modelled as the number 1) -/
def Kind.defaults [NatCast α] : Kind → Option (List α)
  | .eyring | .eyringHS => some [((1 : Nat) : α)]
  | _ => none

/-- the suffix `"" | "_" + name` of `mk_Radiolytic` -/
def radSuffix (n : String) : String := if n == "" then "" else "_" ++ n

/-- `parameter_keys` -/
def Kind.paramKeys : Kind → List String
  | .poly p _ _ => [p]
  | .piecewise p => [p]
  | .arrhenius | .eyring | .gibbsEqConst => ["temperature"]
  | .eyringHS => ["temperature", "molar_gas_constant", "Boltzmann_constant", "Planck_constant"]
  | .radiolytic names => "density" :: names.map (fun n => "doserate" ++ radSuffix n)
  | .rampedTemp | .sinTemp => ["time"]
  | _ => []

/-! ### `Expr.__init__` -/

/-- the `args` parameter of `__init__`: `None`, a list / tuple, or a bare object (number, str, Expr) -/
inductive InitArgs (α : Type)
  | none
  | list (l : List (Val α))
  | scalar (v : Val α)

/-- `l[-n:]` for n > 0 -/
def lastN {β : Type} (l : List β) (n : Nat) : List β := l.drop (l.length - n)

/-- `Expr.__init__(self, args, unique_keys)` (_expr.py l.127-178; dict arguments are not modelled). -/
def mkNode [NatCast α] [PyNum α] (k : Kind) (args : InitArgs α) (uks : Option (List String)) : Except Err (Val α) := do
  -- l.128: a str is wrapped into a tuple
  let args : InitArgs α := match args with
    | .scalar (.str s) => .list [.str s]
    | a => a
  let nargs := k.nargs
  -- l.136-146: defaults are appended to a too short argument list
  let args ← match (k.defaults : Option (List α)) with
    | some d =>
      match args with
      | .none => pure args
      | .scalar _ => throw Err.typeError                 -- len() of a number / Expr
      | .list l =>
        match nargs with
        | some n =>
          let missing : Int := n - l.length
          if missing > 0 then pure (InitArgs.list (l ++ (lastN d missing.toNat).map Val.num)) else pure args
        | none => throw Err.typeError
    | none => pure args
  -- l.148-158
  let (na, l) ← match args with
    | .scalar v =>      -- wrapped only when nargs == 1 and it is an int / float or an Expr; otherwise len() raises
        let wrap := match v with
          | .num x => PyNum.isScalar x
          | .node .. => true
          | .str _ => false
        if nargs == some 1 && wrap then pure (false, [v]) else throw Err.typeError
    | .none => pure (true, [])
    | .list l => pure (false, l)
  -- l.160-163
  match nargs with
  | some n => if n != -1 && !na && (l.length : Int) != n then throw Err.valueError
  | none => pure ()
  -- l.164-172
  match uks, nargs with
  | some u, some n => if (u.length : Int) > n then throw Err.valueError
  | _, _ => pure ()
  return .node k na l uks

/-! ### operators -/

def constNode (x : α) : Val α := .node .const false [.num x] none
def symbolNode (s : String) : Val α := .node .symbol true [] (some [s])

/-- `_implicit_conversion` (numbers, Expr, str; sympy objects are not modelled) -/
def conv [PyNum α] : Val α → Except Err (Val α)
  | .num x => if PyNum.isScalar x then .ok (constNode x) else .error .notImplemented
  | .str s => .ok (symbolNode s)
  | v => .ok v

def Val.isNode : Val α → Bool
  | .node .. => true
  | _ => false

/-- `Constant.trivially_zero` is `self.args[0] == 0`: a `Constant` built without arguments (`Constant()`, `Constant.fk('c')`) raises
`TypeError` ('NoneType' is not subscriptable), one with an empty argument list `IndexError` -/
def constErr : Val α → Option Err
  | .node .const na args _ => if na then some .typeError else if args.isEmpty then some .indexError else none
  | _ => none

/-- the property `trivially_zero`: `Constant`: `args[0] == 0`; `_MulExpr`: `args[0].trivially_zero or args[1].trivially_zero`
with every exception (an argument that is not an Expr, a missing argument) turned into `False`; otherwise `False`. -/
def trivZero [NatCast α] [PyNum α] : Val α → Bool
  | .node .const _ (.num x :: _) _ => PyNum.beq x ((0 : Nat) : α)
  | .node .mul _ (a :: b :: _) _ =>
      match a with
      | .node .. =>
          if constErr a != none then false            -- `Constant().trivially_zero` raises: caught by the try/except -> False
          else if trivZero a then true
          else (match b with
                | .node .. => if constErr b != none then false else trivZero b
                | _ => false)
      | _ => false
  | _ => false

/-- `-self` (l.510-513) for an Expr `self` -/
def exprNeg (self : Val α) : Except Err (Val α) :=
  match self with
  | .node .neg _ args _ =>
      match args with
      | a :: _ => .ok a
      | [] => .error .indexError
  | _ => .ok (.node .neg false [self] none)

/-- `Expr.__add__` (l.485-489) -/
def exprAdd [NatCast α] [PyNum α] (self other : Val α) : Except Err (Val α) := do
  let o ← conv other
  match constErr o with          -- `_other.trivially_zero` of a Constant without arguments raises (outside a _MulExpr nothing catches it)
  | some e => throw e
  | none => pure ()
  if trivZero o then return self
  return .node .add false [self, o] none

/-- `UnaryWrapper.__checks` and `(arg,) = self.args` for a `MassAction` instance -/
def uwArg (self : Val α) : Except Err (Val α) :=
  match self with
  | .node _ na args uks =>
      if uks.isSome then .error .valueError
      else if na then .error .typeError
      else match args with
        | [a] => .ok a
        | _ => .error .valueError
  | _ => .error .typeError

/-- `Expr.__sub__` (l.491-494).  The test `other == other * 0` is `x == x*0` for a number and `s == ""` for a str.
For an Expr it is always `False` (`other * 0` is one level deeper than `other`; `Expr.__eq__` compares classes and then
arguments) — but `other * 0` IS evaluated, and so is the comparison of the first arguments of two `_MulExpr`s: for a `MassAction` operand this is `UnaryWrapper.__mul__` with its checks
(`ValueError` when it has unique_keys, `TypeError` without args), and the comparison `MassAction == MassAction` runs
`compare_equality(arg, _MulExpr(arg, 0))`, whose `arg + …` is `NotImplementedError` for a bare non-int/float number. -/
def subShort [Mul α] [NatCast α] [PyNum α] (other : Val α) : Except Err Bool :=
  match other with
  | .num x => pure (PyNum.beq x (x * ((0 : Nat) : α)))
  | .str s => pure (s == "")
  | .node .massAction .. => do
      match ← uwArg other with
      | .num x => if PyNum.isScalar x then pure false else throw Err.notImplemented
      | _ => pure false
  | .node .mul false [.num x, _] _ =>
      -- `other * 0` is again a two-argument `_MulExpr`: `Expr.__eq__` compares the first arguments with
      -- `compare_equality(x, other)`, whose `x + other` is `NotImplementedError` for a bare non-int/float number
      if PyNum.isScalar x then pure false else throw Err.notImplemented
  | _ => pure false

def exprSub [Mul α] [NatCast α] [PyNum α] (self other : Val α) : Except Err (Val α) := do
  if ← subShort other then return self
  return .node .sub false [self, ← conv other] none

def Val.isMassAction : Val α → Bool
  | .node .massAction .. => true
  | _ => false

def isOne [NatCast α] [PyNum α] : Val α → Bool
  | .num x => PyNum.beq x ((1 : Nat) : α)
  | _ => false

/-- `self * other` for an Expr `self`: `UnaryWrapper.__mul__` (l.541-544) for `MassAction`, else `Expr.__mul__`
(l.496-501; `NotImplemented` for a `MassAction` operand makes Python call `other.__rmul__(self) = other * self`). -/
def exprMul [NatCast α] [PyNum α] (self other : Val α) : Except Err (Val α) := do
  if self.isMassAction then
    let a ← uwArg self
    return .node .massAction false [.node .mul false [a, ← conv other] none] none
  if isOne other then return self
  if other.isMassAction then
    let a ← uwArg other
    return .node .massAction false [.node .mul false [a, ← conv self] none] none
  return .node .mul false [self, ← conv other] none

/-- `other / self` through `__rtruediv__` (l.524-525, l.553-556) -/
def exprRDiv [PyNum α] (self other : Val α) : Except Err (Val α) := do
  if self.isMassAction then
    let a ← uwArg self
    return .node .massAction false [.node .div false [← conv other, a] none] none
  return .node .div false [← conv other, self] none

/-- `self / other` for an Expr `self` (l.503-508, l.546-551) -/
def exprDiv [NatCast α] [PyNum α] (self other : Val α) : Except Err (Val α) := do
  if isOne other then return self
  if self.isMassAction then
    let a ← uwArg self
    return .node .massAction false [.node .div false [a, ← conv other] none] none
  if other.isMassAction then exprRDiv other self
  else return .node .div false [self, ← conv other] none

/-- Python's `l + r` when at least one operand is an Expr (`__radd__` is `self + other`) -/
def pyAdd [NatCast α] [PyNum α] (l r : Val α) : Except Err (Val α) :=
  if l.isNode then exprAdd l r else if r.isNode then exprAdd r l else .error .typeError

/-- `l - r`; `__rsub__` is `(-self) + other` -/
def pySub [Mul α] [NatCast α] [PyNum α] (l r : Val α) : Except Err (Val α) :=
  if l.isNode then exprSub l r
  else if r.isNode then do exprAdd (← exprNeg r) l
  else .error .typeError

/-- `l * r`; `__rmul__` is `self * other` -/
def pyMul [NatCast α] [PyNum α] (l r : Val α) : Except Err (Val α) :=
  if l.isNode then exprMul l r else if r.isNode then exprMul r l else .error .typeError

/-- `l / r` -/
def pyDivOp [NatCast α] [PyNum α] (l r : Val α) : Except Err (Val α) :=
  if l.isNode then exprDiv l r else if r.isNode then exprRDiv r l else .error .typeError

/-- `l ** r` (l.527-531; no short-cut, no `UnaryWrapper` variant) -/
def pyPow [PyNum α] (l r : Val α) : Except Err (Val α) :=
  if l.isNode then do return .node .pow false [l, ← conv r] none
  else if r.isNode then do return .node .pow false [← conv l, r] none
  else .error .typeError

/-- `-v` -/
def pyNeg (v : Val α) : Except Err (Val α) :=
  if v.isNode then exprNeg v else .error .typeError

/-! ### evaluation -/

section eval
variable [Add α] [Sub α] [Mul α] [Div α] [Neg α] [NatCast α] [PyNum α]

/-- `x / y` with Python's `ZeroDivisionError` -/
def pyDiv (x y : α) : Except Err α :=
  if PyNum.beq y ((0 : Nat) : α) then .error .zeroDivision else .ok (x / y)

/-- Python list indexing with a possibly negative index -/
def pyIndex {β : Type} (l : List β) (i : Int) : Option β :=
  if i < 0 then (if -i ≤ l.length then l[(l.length - (-i).toNat)]? else none) else l[i.toNat]?

/-- `Expr.arg(variables, index)` (l.277-323) for an int index.  `vals` are the evaluated stored arguments
(`self.args[j]`, a str looked up in `variables`, an Expr called); `nStored = len(self.args)`. -/
def argAt (ctx : Ctx α) (k : Kind) (na : Bool) (nStored : Nat) (vals : List (Except Err α))
    (uks : Option (List String)) (i : Nat) : Except Err α :=
  let stored : Except Err α :=
    if na then .error .typeError
    else match vals[i]? with
      | some r => r
      | none => .error .indexError
  match uks with
  | none => stored
  | some uk =>
    match uk[i]? with
    | some key =>
      match ctx.vars key with
      | some v => .ok v
      | none => if na then .error .keyError else stored
    | none =>
      if na || i > nStored then
        match (k.defaults : Option (List α)), k.nargs with
        | some d, some n =>
          match pyIndex d ((i : Int) - n + d.length) with
          | some x => .ok x
          | none => .error .indexError
        | _, _ => .error .typeError
      else stored

/-- `Expr.all_args` (l.325-332) -/
def allArgs (ctx : Ctx α) (k : Kind) (na : Bool) (nStored : Nat) (vals : List (Except Err α))
    (uks : Option (List String)) : Except Err (List α) := do
  let n ← match k.nargs with
    | some n => if n == -1 then (if na then throw Err.typeError else pure nStored) else pure n.toNat
    | none => if na then throw Err.typeError else pure nStored
  (List.range n).mapM (argAt ctx k na nStored vals uks)

/-- the loop of `_poly` (l.776-788): `res` starts as `None`, `cur` as 1; `cur` is updated after EVERY coefficient -/
def polyLoop (reciprocal : Bool) (x0 : α) : List α → Option α → α → Except Err (Option α)
  | [], res, _ => .ok res
  | c :: cs, res, cur => do
      let res' := match res with
        | none => c * cur
        | some r => r + c * cur
      let cur' ← if reciprocal then pyDiv cur x0 else pure (cur * x0)
      polyLoop reciprocal x0 cs (some res') cur'

/-- `_poly(args, x)` of `create_Poly` -/
def polyBody (reciprocal shift : Bool) (args : List α) (x : α) : Except Err α := do
  let (coeffs, x0) ← if shift then
      (match args with
       | a0 :: rest => pure (rest, x - a0)
       | [] => throw Err.indexError)
    else pure (args, x)
  match ← polyLoop reciprocal x0 coeffs none ((1 : Nat) : α) with
  | some r => pure r
  | none => throw Err.returnsNone

/-- the selection loop of `_pw` for a backend without `Piecewise` (l.723-727) over `lo, ex, up, ex', up', …` -/
def pwSelect (x : α) : List α → Except Err α
  | lo :: ex :: up :: rest =>
      if PyNum.le lo x && PyNum.le x up then .ok ex else pwSelect x (up :: rest)
  | _ => .error .valueError
termination_by l => l.length

/-- `_pw(bounds_exprs, x)` of `create_Piecewise` (math / numpy backends) -/
def pwBody (b : List α) (x : α) : Except Err α :=
  if b.length < 3 then .error .valueError
  else if b.length % 2 != 1 then .error .valueError
  else pwSelect x b

/-- `Reaction.order()` -/
def order (reac : List (String × Int)) : Int := (reac.map (·.2)).foldl (· + ·) 0

/-- `MassAction.active_conc_prod` (rates.py l.191-195): `result = 1; result = result * variables[k] ** v` (not in place) -/
def concProd (ctx : Ctx α) : List (String × Int) → α → Except Err α
  | [], acc => .ok acc
  | (k, v) :: rest, acc => do
      let c ← ctx.get k
      let p ← PyNum.pow c (Num.ofInt v)
      concProd ctx rest (acc * p)

/-- the `Reaction` behind `reaction.…` / `kwargs["reaction"].…` -/
def rxnOf (ctx : Ctx α) (viaKwargs : Bool) : Except Err (List (String × Int)) :=
  match ctx.rxn with
  | .some r => .ok r
  | .none => .error .attributeError
  | .absent => if viaKwargs then .error .keyError else .error .attributeError

/-- `reduce(add, [variables[k] * g for k, g in zip(keys, gs)])` of `Radiolytic.__call__` -/
def radSum (ctx : Ctx α) : List String → List α → Option α → Except Err (Option α)
  | k :: ks, g :: gs, acc => do
      let d ← ctx.get k
      radSum ctx ks gs (some (match acc with | none => d * g | some a => a + d * g))
  | _, _, acc => .ok acc

/-- the `reaction` keyword seen by the arguments of an instance of class `k` when they are evaluated:
`MassAction.rate_coeff` passes `reaction=reaction` explicitly; `_poly/_pw` bodies, `GibbsEqConst`, `EyringHS`,
`Radiolytic` do not forward it; everything else forwards `**kwargs`. -/
def childCtx (k : Kind) (ctx : Ctx α) : Ctx α :=
  match k with
  | .massAction => { ctx with rxn := match ctx.rxn with | .absent => .none | r => r }
  | .poly .. | .piecewise _ | .gibbsEqConst | .eyringHS | .radiolytic _ => { ctx with rxn := .absent }
  | _ => ctx

/-- `self.__call__(variables, backend, **kwargs)` given the raw stored arguments and their evaluations -/
def call (ctx : Ctx α) (k : Kind) (na : Bool) (args : List (Val α)) (vals : List (Except Err α))
    (uks : Option (List String)) : Except Err α :=
  let aa := allArgs ctx k na args.length vals uks
  match k with
  | .const =>      -- Constant.__call__: `return self.args[0]`
      if na then .error .typeError
      else match args with
        | .num x :: _ => .ok x
        | _ :: _ => .error .notANumber
        | [] => .error .indexError
  | .symbol =>     -- `(uk,) = self.unique_keys; return variables[uk]`
      match uks with
      | none => .error .typeError
      | some [uk] => ctx.get uk
      | some _ => .error .valueError
  | .neg => do
      match ← aa with
      | [a] => pure (-a)
      | _ => throw Err.valueError
  | .add => do
      match ← aa with
      | [a, b] => pure (a + b)
      | _ => throw Err.valueError
  | .sub => do
      match ← aa with
      | [a, b] => pure (a - b)
      | _ => throw Err.valueError
  | .mul => do
      match ← aa with
      | [a, b] => pure (a * b)
      | _ => throw Err.valueError
  | .div => do
      match ← aa with
      | [a, b] => pyDiv a b
      | _ => throw Err.valueError
  | .pow => do
      match ← aa with
      | [a, b] => PyNum.pow a b
      | _ => throw Err.valueError
  | .log10 => do   -- `getattr(backend, 'log10')(arg)`, or `backend.log(arg) / backend.log(10)` for a backend without log10 (sympy)
      match ← aa with
      | [a] => PyNum.log10 a
      | _ => throw Err.valueError
  | .exp => do
      match ← aa with
      | [a] => PyNum.exp a
      | _ => throw Err.valueError
  | .poly p reciprocal shift => do
      let a ← aa
      let x ← ctx.get p
      polyBody reciprocal shift a x
  | .piecewise p => do
      let a ← aa
      let x ← ctx.get p
      pwBody a x
  | .massAction => do      -- rate_coeff * active_conc_prod
      match ← aa with
      | [kc] =>
          let r ← rxnOf ctx false
          let p ← concProd ctx r ((1 : Nat) : α)
          pure (kc * p)
      | _ => throw Err.valueError
  | .arrhenius => do       -- A * backend.exp(-Ea_over_R / variables["temperature"])
      match ← aa with
      | [a, e] =>
          let t ← ctx.get "temperature"
          let q ← pyDiv (-e) t
          pure (a * (← PyNum.exp q))
      | _ => throw Err.valueError
  | .eyring => do          -- c0 * T * backend.exp(-c1 / T) * conc0 ** (1 - kwargs["reaction"].order())
                           -- (`c1.simplified` first when c1 is a quantity, as in Arrhenius: no effect on plain numbers)
      match ← aa with
      | [c0, c1, conc0] =>
          let t ← ctx.get "temperature"
          let q ← pyDiv (-c1) t
          let lhs := c0 * t * (← PyNum.exp q)
          let r ← rxnOf ctx true
          let p ← PyNum.pow conc0 (Num.ofInt (1 - order r))
          pure (lhs * p)
      | _ => throw Err.valueError
  | .eyringHS => do        -- kB / h * T * backend.exp(-(dH - T * dS) / (R * T)) * c0 ** (1 - reaction.order())
                           -- (the exponent is `.simplified` first when it is a quantity: no effect on plain numbers)
      match ← aa with
      | [dH, dS, c0] =>
          let t ← ctx.get "temperature"
          let r ← ctx.get "molar_gas_constant"
          let kB ← ctx.get "Boltzmann_constant"
          let h ← ctx.get "Planck_constant"
          let q ← pyDiv (-(dH - t * dS)) (r * t)      -- `exponent = …` is computed first
          let f ← pyDiv kB h
          let lhs := f * t * (← PyNum.exp q)
          let rx ← rxnOf ctx false
          let p ← PyNum.pow c0 (Num.ofInt (1 - order rx))
          pure (lhs * p)
      | _ => throw Err.valueError
  | .radiolytic names => do  -- variables["density"] * reduce(add, [variables[k] * gval …])
      let d ← ctx.get "density"
      let g ← aa
      match ← radSum ctx (names.map (fun n => "doserate" ++ radSuffix n)) g none with
      | some s => pure (d * s)
      | none => throw Err.typeError       -- reduce() of an empty sequence
  | .rampedTemp => do      -- T0 + dTdt * variables["time"]
      match ← aa with
      | [t0, dTdt] => pure (t0 + dTdt * (← ctx.get "time"))
      | _ => throw Err.valueError
  | .sinTemp => do         -- Tbase + Tamp * backend.sin(angvel * variables["time"] + phase)
      match ← aa with
      | [tb, ta, w, ph] =>
          let t ← ctx.get "time"
          pure (tb + ta * (← PyNum.sin (w * t + ph)))
      | _ => throw Err.valueError
  | .massActionEq => do    -- eq_const
      match ← aa with
      | [kc] => pure kc
      | _ => throw Err.valueError
  | .gibbsEqConst => do    -- backend.exp(dS_over_R - dH_over_R / T)  (exponent `.simplified` first when a quantity)
      match ← aa with
      | [dH, dS] =>
          let t ← ctx.get "temperature"
          PyNum.exp (dS - (← pyDiv dH t))
      | _ => throw Err.valueError

/-- an argument that evaluates to `None` (an empty polynomial) meets arithmetic in its parent: `TypeError`
(`MassActionEq` hands its argument through unchanged; an unselected `None` branch of a Piecewise is not modelled). -/
def noneArg (k : Kind) : Except Err α → Except Err α
  | .error .returnsNone => if k == .massActionEq then .error .returnsNone else .error .typeError
  | r => r

mutual
/-- the value of an operand / argument: a number is itself, a str is looked up in `variables` (l.315-316), an Expr is
called (l.320-321) -/
def eval (ctx : Ctx α) : Val α → Except Err α
  | .num x => .ok x
  | .str s => ctx.get s
  | .node k na args uks => call ctx k na args ((evalList (childCtx k ctx) args).map (noneArg k)) uks
/-- the stored arguments evaluated one by one (evaluation is pure: `argAt` picks the one Python would evaluate) -/
def evalList (ctx : Ctx α) : List (Val α) → List (Except Err α)
  | [] => []
  | a :: as => eval ctx a :: evalList ctx as
end

end eval

/-! ### `MassActionEq.equilibrium_equation` (thermodynamics/expressions.py l.13-35) -/

section equilibrium
variable [Add α] [Sub α] [Mul α] [Div α] [Neg α] [NatCast α] [PyNum α]

/-- `MassActionEq.active_conc_prod`: `result = None`; over the products with exponent `+v`, then the reactants with exponent `−v`:
`result = variables[k] ** e` the first time, `result *= variables[k] ** e` afterwards -/
def eqConcProd (ctx : Ctx α) : List (String × Int) → Option α → Except Err (Option α)
  | [], acc => .ok acc
  | (k, e) :: rest, acc => do
      let c ← ctx.get k
      let p ← PyNum.pow c (Num.ofInt e)
      eqConcProd ctx rest (some (match acc with | none => p | some a => a * p))

/-- the signed exponents in the order of the code: products first, then reactants -/
def eqExponents (prod reac : List (String × Int)) : List (String × Int) :=
  prod ++ reac.map (fun p => (p.1, -p.2))

/-- `self.equilibrium_equation(variables, equilibrium=eq)` = `eq_const − active_conc_prod` for an instance `v` of `MassActionEq` /
`GibbsEqConst` (whose `__call__` is `eq_const`); an equilibrium without any substance gives `K − None`: `TypeError` -/
def equilibriumEquation (ctx : Ctx α) (v : Val α) (prod reac : List (String × Int)) : Except Err α := do
  let k ← eval ctx v
  match ← eqConcProd ctx (eqExponents prod reac) none with
  | some q => pure (k - q)
  | none => throw Err.typeError

end equilibrium

/-! ### `ArrheniusParam.as_RateExpr`, `EyringParam.as_RateExpr` (hand-modelled structure; the numbers `Ea / R`,
`kB/h · exp(dS/R)`, `dH / R` come from the generated `Gen/FnRateConst.lean`) -/

/-- `MassAction(Arrhenius([A, Ea_over_R], unique_keys))` (arrhenius.py l.226-230) -/
def arrheniusRateExpr [NatCast α] [PyNum α] (a eaOverR : α) (uks : Option (List String)) : Except Err (Val α) := do
  let inner ← mkNode .arrhenius (.list [.num a, .num eaOverR]) uks
  mkNode .massAction (.scalar inner) none

/-- `MassAction(Eyring([kB_h_times_exp_dS_R, dH_over_R], unique_keys))` (eyring.py l.146-153; `conc0` takes its default) -/
def eyringRateExpr [NatCast α] [PyNum α] (c0 dHOverR : α) (uks : Option (List String)) : Except Err (Val α) := do
  let inner ← mkNode .eyring (.list [.num c0, .num dHOverR]) uks
  mkNode .massAction (.scalar inner) none

/-! ### executable number types

`Rat`: the exact instantiation (Python `int` / `fractions.Fraction`); a result that Python would compute as a float is
the outcome `inexact` (the harness never generates such a case for the exact comparison).
`Float`: Python floats under the `math` backend (`OverflowError`, `ValueError` of `math.log10`, `ZeroDivisionError` and
the complex result of a negative base with a non-integer exponent are outcomes, not numbers). -/

instance : PyNum Rat where
  beq x y := x == y
  le x y := decide (x ≤ y)
  isScalar x := x.den == 1
  pow x y :=
    if y.den == 1 then
      (if x == 0 && y.num < 0 then .error .zeroDivision else .ok (x ^ y.num))
    else .error .inexact
  exp _ := .error .inexact
  log10 _ := .error .inexact
  sin _ := .error .inexact

instance : PyNum Float where
  beq x y := x == y
  le x y := x ≤ y
  isScalar _ := true
  pow x y :=
    if x == 0 && y < 0 then .error .zeroDivision
    else if x < 0 && y != y.floor then .error .complexResult
    else
      let r := Float.pow x y
      if r.isInf && !x.isInf && !y.isInf then .error .overflow else .ok r
  exp x :=
    let r := Float.exp x
    if r.isInf && !x.isInf then .error .overflow else .ok r
  log10 x := if x ≤ 0 then .error .valueError else .ok (Float.log10 x)
  sin x := if x.isInf then .error .valueError else .ok (Float.sin x)      -- math.sin(±inf): ValueError (math domain error)

end ChemModel.PyExpr
