/-
Float-faithful executable mirror of `_float_str_w_uncert` (chempy/printing/numbers.py), used ONLY by the
correspondence driver.  No theorem is about this file: the theorems of C20 are about the exact-rational
model `floatStrWUncert` (Model/NumFmt.lean).  Here the Python float operations are reproduced with Lean's
IEEE-754 `Float`:  `math.log10` → `Float.log10` (same libm), `10 ** (-k)` → `Float.pow 10.0 (-k)` (what CPython's
`int ** negative int` evaluates), `float * int` → correctly rounded int→float conversion (`PyLong_AsDouble`,
OverflowError beyond the double range) followed by `*`, `round(float)` → round-half-even on the exact value of the
double, `'%.{w}f' % float` → correctly rounded (half-even) decimal expansion of the exact value of the double.
Import-free apart from the exact model.
-/
import ChemModel.Model.NumFmt

namespace ChemModel.NumFmt.F
open ChemModel.NumFmt

/-- exact value of a finite double -/
def toRat (f : Float) : Rat :=
  let b : Nat := f.toBits.toNat
  let e : Nat := (b >>> 52) % 2048
  let m : Nat := b % 2 ^ 52
  let mag : Rat :=
    if e = 0 then mkRat m (2 ^ 1074)
    else if 1075 ≤ e then (((2 ^ 52 + m) * 2 ^ (e - 1075) : Nat) : Rat)
    else mkRat (2 ^ 52 + m) (2 ^ (1075 - e))
  if b >>> 63 = 1 then -mag else mag

/-- `float(n)` for a Python int `n ≥ 0`: round to nearest, ties to even; `none` = OverflowError -/
def ofNatRN (n : Nat) : Option Float :=
  if n < 2 ^ 53 then some n.toUInt64.toFloat else
  let s := n.log2 + 1 - 53
  let q := n >>> s
  let rem := n - (q <<< s)
  let half := 1 <<< (s - 1)
  let q := if half < rem || (rem == half && q % 2 == 1) then q + 1 else q
  let (q, s) := if q == 2 ^ 53 then (2 ^ 52, s + 1) else (q, s)
  let e := s + 52 + 1023
  if 2047 ≤ e then none else some (Float.ofBits (UInt64.ofNat ((e <<< 52) + (q - 2 ^ 52))))

def ofIntRN (i : Int) : Option Float :=
  (ofNatRN i.natAbs).map fun f => if i < 0 then -f else f

abbrev R := Except String

def orOverflow : Option Float → R Float
  | some f => pure f
  | none => throw "OverflowError"

/-- the right operand of `x * 10 ** k` as the float it is multiplied with -/
def pow10F (k : Int) : R Float :=
  if 0 ≤ k then orOverflow (ofNatRN (10 ^ k.toNat)) else pure (Float.pow 10.0 (Float.ofInt k))

/-- `int * 10 ** k` for a Python int: an int when `k ≥ 0`, else `float(int) * 10.0 ** k`; returned as the exact value
    that `'%.{w}f'` then receives (an int is converted to float by `%f`) -/
def intTimesPow10 (n : Int) (k : Int) : R Rat := do
  if 0 ≤ k then
    pure (toRat (← orOverflow (ofIntRN (n * (10 ^ k.toNat : Nat)))))
  else
    pure (toRat ((← orOverflow (ofIntRN n)) * Float.pow 10.0 (Float.ofInt k)))

/-- `round(f)`: round-half-even on the exact value; `round(inf)` raises OverflowError -/
def roundF (f : Float) : R Int :=
  if f.isInf || f.isNaN then throw "OverflowError" else pure (roundHalfEven (toRat f))

/-- `'%.{w}f' % v` for the exact value `v` of a double -/
def fmtFixed (v : Rat) (w : Nat) : List Char := fixedStr (roundHalfEven (v * ((10 ^ w : Nat) : Rat))) w

/-- `int(floor(log10(abs(x))))` -/
def mag (x : Float) : Int := (toRat (Float.log10 x.abs)).floor

/-- `_float_str_w_uncert(x, xe, precision)` with float semantics -/
def floatStrWUncertF (x xe : Float) (prec : Int) : Res := do
  if x == 0 || xe == 0 then throw "ValueError"
  let xExp := mag x
  let xeExp := mag xe
  let unExp := xeExp - prec + 1
  let unInt ← roundF (xe * (← pow10F (-unExp)))
  let noExp := unExp
  let noInt ← roundF (x * (← pow10F (-noExp)))
  let fieldw := xExp - noExp
  let v1 ← intTimesPow10 noInt (-fieldw)
  let u1 ← intTimesPow10 unInt 0
  if fieldw < 0 then throw "ValueError"
  let r1 := fmtFixed v1 fieldw.toNat ++ '(' :: fmtFixed u1 0 ++ ')' :: 'e' :: intStr xExp
  let w2 := (max 0 (-noExp)).toNat
  let v2 ← intTimesPow10 noInt noExp
  let u2 ← intTimesPow10 (unInt * (10 ^ (max 0 unExp).toNat : Nat)) 0
  let r2 := fmtFixed v2 w2 ++ '(' :: fmtFixed u2 0 ++ [')']
  pure (shortest r1 r2)

/-- `number_to_scientific_X(number, uncertainty, unit, fmt)` with float semantics for the uncertainty notation -/
def numberToXUncertF (f : Fmt) (fmt : Option Int) (mag unc : Float) (unit : Option (List Char)) : Res := do
  let flt ← floatStrWUncertF mag unc (fmt.getD (Gen.PrintingNumbers.defaultUncertPrecision : Int))
  renderX f flt (unitSuffix f unit)

end ChemModel.NumFmt.F
