/-
C06 — executable model of the logic chempy itself contributes to "integrated kinetics stay physically admissible":

* `max_euler_step_cb` inside `get_odesys`      (chempy/kinetics/ode.py:405-421)
* the right-hand side the callback evaluates    (`odesys.f_cb` = the lambdified `ReactionSystem.rates`, model: `Kinetics.sysRates`)
* `ReactionSystem.upper_conc_bounds`            (chempy/reactionsystem.py:780-836; the model is `EqSolve.upperConcBounds`, shared
                                                 with C08 — imported, not repeated)
* the gate `if rsys.check_balance(strict=True)` (ode.py:405; model: `Kinetics.checkBalance`)
* `firstOrderMatrix` — NOT chempy code: the explicit matrix `M` of a first-order network, the object of the theorem
  `first_order_is_linear` and of the matrix-exponential reference solution used by the harness.

The adaptive integrator (pyodesys → scipy LSODA) is NOT modelled: its accuracy is runtime behaviour sampled by tools/harness/c06.py.

Number-generic: `Rat` in the driver (exact), any linearly ordered field in the proofs.  Python floats `inf` are `none`.
-/
import ChemModel.Model.Kinetics
import ChemModel.Model.EqSolve

namespace ChemModel.EulerStep
open ChemModel.Kinetics

/-- the Python exception classes the modelled code can raise -/
inductive Err where
  /-- `min([])`, `as_per_substance_array`: "Incorrect size", pyodesys: "Callback returned unexpected number of expressions" -/
  | valueError
  /-- `upper_bounds[idx]` / `_y[idx]` out of range (unreachable from the callback: lengths are checked before) -/
  | indexError
  /-- exact `x / 0` -/
  | zeroDivisionError
  /-- `set.union(*(… for ratex in r_exprs))` with no reaction at all (ode.py:187): "unbound method set.union() needs an argument" -/
  | typeError
  /-- a variable the rate expressions read is neither a substance nor a passed parameter -/
  | keyError
  deriving DecidableEq, Repr

def Err.name : Err → String
  | .valueError => "ValueError"
  | .indexError => "IndexError"
  | .zeroDivisionError => "ZeroDivisionError"
  | .typeError => "TypeError"
  | .keyError => "KeyError"

section Step
variable {α : Type} [NatCast α] [Sub α] [Div α] [Neg α] [LT α] [DecidableLT α] [DecidableEq α]

/-- one step of Python's `min(iterable)` with `float('inf')` = `none`: the running minimum `best` is replaced only by a
    strictly smaller item -/
def minInf2 (best item : Option α) : Option α :=
  match best, item with
  | none, none => none
  | none, some y => some y
  | some x, none => some x
  | some x, some y => if y < x then some y else some x

/-- `min(h)` (ode.py:420); outer `none` = `ValueError` ("min() arg is an empty sequence") -/
def minInf : List (Option α) → Option (Option α)
  | [] => none
  | a :: t => some (t.foldl minInf2 a)

/-- body of the loop `for idx, fcomp in enumerate(fvec)` (ode.py:413-419):
    `fcomp == 0` → `inf` (no indexing at all); `fcomp > 0` → `(upper_bounds[idx] - _y[idx]) / fcomp`
    (an infinite bound gives `inf`); else (`fcomp < 0`) → `-_y[idx] / fcomp`.
    A component sitting ON the bound it moves towards yields `0`, hence a zero step for the whole state. -/
def stepBoundAt (y : List α) (ub : List (Option α)) (idx : Nat) (fcomp : α) : Except Err (Option α) :=
  if fcomp = ((0 : Nat) : α) then .ok none
  else if ((0 : Nat) : α) < fcomp then
    match ub[idx]?, y[idx]? with
    | some u, some yi =>
      .ok (match u with
           | none => none
           | some u => some ((u - yi) / fcomp))
    | _, _ => .error .indexError
  else
    match y[idx]? with
    | some yi => .ok (some (-yi / fcomp))
    | none => .error .indexError

/-- the list `h` built by the loop; `idx` = position of the head of the remaining `fvec` -/
def stepBounds (y : List α) (ub : List (Option α)) : Nat → List α → Except Err (List (Option α))
  | _, [] => .ok []
  | idx, fc :: t =>
    match stepBoundAt y ub idx fc with
    | .error e => .error e
    | .ok b =>
      match stepBounds y ub (idx + 1) t with
      | .error e => .error e
      | .ok bs => .ok (b :: bs)

/-- `min_h = min(h); return min(min_h, 1)` (ode.py:420-421): Python's two-argument `min(a, b)` returns `a` unless `b < a` -/
def capAtOne (minH : Option α) : α :=
  match minH with
  | none => ((1 : Nat) : α)
  | some v => if ((1 : Nat) : α) < v then ((1 : Nat) : α) else v

/-- the arithmetic of `max_euler_step_cb` (ode.py:412-421) given the state `_y`, the bounds and `fvec` -/
def maxEulerStep (y : List α) (ub : List (Option α)) (fvec : List α) : Except Err α :=
  match stepBounds y ub 0 fvec with
  | .error e => .error e
  | .ok h =>
    match minInf h with
    | none => .error .valueError
    | some m => .ok (capAtOne m)

end Step

section Pipeline
variable {σ α : Type} [DecidableEq σ] [NatCast α] [IntCast α] [Add α] [Sub α] [Mul α] [Div α] [Neg α]
  [LT α] [DecidableLT α] [DecidableEq α]

/-- the concentration function an array in substance order denotes (`dict(zip(names, y))`); the default is unreachable
    for keys of the system when `y.length = keys.length` -/
def stateFn (keys : List σ) (y : List α) (s : σ) : α :=
  match indexOf? keys s with
  | some i =>
    match y[i]? with
    | some v => v
    | none => ((0 : Nat) : α)
  | none => ((0 : Nat) : α)

/-- `odesys.f_cb(x, y, p)`: `dydt` = `rsys.rates(variables)` (ode.py:346-358, `substance_keys=None`, no CSTR) read in the
    order of `names`.  A substance that takes part in no reaction has no entry in the rate dict; pyodesys then refuses
    the system (`ValueError`: "Callback returned unexpected number of expressions") — at `get_odesys` time. -/
def fvec (keys : List σ) (rs : List (Reaction σ α)) (y : List α) : Except Err (List α) :=
  let d := sysRates (stateFn keys y) rs none none
  keys.mapM fun s =>
    match dget? d s with
    | some v => .ok v
    | none => .error .valueError

/-- compositions with `Nat` keys (as `EqSolve.upperConcBounds` reads them) as the substance dict of `Kinetics.checkBalance` -/
def toSubstances (keys : List σ) (comps : List (EqSolve.Comp α)) : Substances σ α :=
  List.zipWith (fun k c => (k, some (c.map fun p => (((p.1 : Nat) : Int), p.2)))) keys comps

/-- `if rsys.check_balance(strict=True):` (ode.py:405) — otherwise `extra['max_euler_step_cb'] is None` -/
def callbackAvailable (keys : List σ) (comps : List (EqSolve.Comp α)) (rs : List (Reaction σ α)) : Bool :=
  decide (checkBalance (toSubstances keys comps) rs true = BalanceResult.ok)

/-- errors of `upper_conc_bounds` as the callback sees them -/
def liftErr : EqSolve.Err → Err
  | .zeroDivisionError => .zeroDivisionError
  | .indexError => .indexError
  | _ => .valueError

/-- `extra['max_euler_step_cb'](x, y)` (ode.py:408-421) for a system whose substances (in order `keys`) have the
    compositions `comps`: `upper_bounds = rsys.upper_conc_bounds(_y)` — the bounds are those of the CURRENT state —,
    `fvec = odesys.f_cb(_x[0], _y, _p)`, then the loop.  `to_arrays` has already rejected a `y` of the wrong length.
    A system without reactions never gets that far: `get_odesys` raises `TypeError`. -/
def maxEulerStepCb (keys : List σ) (comps : List (EqSolve.Comp α)) (rs : List (Reaction σ α)) (y : List α) : Except Err α :=
  if rs.isEmpty then .error .typeError        -- `get_odesys` itself fails for a system without reactions
  else
  match EqSolve.upperConcBounds comps y with
  | .error e => .error (liftErr e)
  | .ok ub =>
    match fvec keys rs y with
    | .error e => .error e
    | .ok f => maxEulerStep y ub f

/-! ### stirred tank (`get_odesys(rsys, cstr=True)`): feed ratio and feed concentrations are parameters of the callback -/

/-- `variables = dict(chain(y.items(), p.items()))` (ode.py:347): the state by substance name, then the parameters (a parameter
    named like a substance would win) -/
def variablesDict (keys : List σ) (y : List α) (p : List (σ × α)) : List (σ × α) :=
  dictOf (List.zip keys y ++ p)

/-- `odesys.f_cb(x, y, p)` for a system built with `cstr=True`: `rsys.rates(variables, cstr_fr_fc=(fr_key, fc))`
    (`Kinetics.ratesDict`: a variable that is looked up but absent is a `KeyError`), read in the order of `names` -/
def fvecCstr (keys : List σ) (rs : List (Reaction σ α)) (cs : Cstr σ) (p : List (σ × α)) (y : List α) : Except Err (List α) :=
  match ratesDict (variablesDict keys y p) rs none (some cs) with
  | none => .error .keyError
  | some d =>
    keys.mapM fun s =>
      match dget? d s with
      | some v => .ok v
      | none => .error .valueError

/-- `extra['max_euler_step_cb'](x, y, p)` of a system built with `cstr=True`.  The bounds are still the ELEMENTAL bounds of the
    current state (`rsys.upper_conc_bounds(_y)`), although a stirred tank is an open system: the step keeps `y + h·f` inside
    them by construction, they are just not a physical limit any more. -/
def maxEulerStepCbCstr (keys : List σ) (comps : List (EqSolve.Comp α)) (rs : List (Reaction σ α)) (cs : Cstr σ)
    (p : List (σ × α)) (y : List α) : Except Err α :=
  if rs.isEmpty then .error .typeError
  else
  match EqSolve.upperConcBounds comps y with
  | .error e => .error (liftErr e)
  | .ok ub =>
    match fvecCstr keys rs cs p y with
    | .error e => .error e
    | .ok f => maxEulerStep y ub f

/-- the explicit Euler step `y + h·f` the callback is advertised for -/
def eulerNext (y : List α) (h : α) (f : List α) : List α :=
  List.zipWith (fun yi fi => yi + h * fi) y f

/-- `n` explicit Euler steps `y ← y + h·f(y)`, each of the length `h = max_euler_step_cb(x, y)` the callback advertises at the
    current state (the use the callback is advertised for; not chempy code) -/
def eulerIter (keys : List σ) (comps : List (EqSolve.Comp α)) (rs : List (Reaction σ α)) : Nat → List α → Except Err (List α)
  | 0, y => .ok y
  | n + 1, y =>
    match maxEulerStepCb keys comps rs y with
    | .error e => .error e
    | .ok h =>
      match fvec keys rs y with
      | .error e => .error e
      | .ok f => eulerIter keys comps rs n (eulerNext y h f)

end Pipeline

section Linear
variable {σ α : Type} [DecidableEq σ] [Add α] [Mul α] [NatCast α] [IntCast α]

/-- the single active reactant of order one of a first-order reaction (`reac == {j: 1}`), if the reaction is one -/
def firstOrderReactant (r : Reaction σ α) : Option σ :=
  match r.reac with
  | [(j, 1)] => some j
  | _ => none

/-- entry `M[s][j] = Σ_{r : reactant r = j} net r s · k_r` -/
def firstOrderEntry (rs : List (Reaction σ α)) (s j : σ) : α :=
  rs.foldl (fun acc r =>
    if firstOrderReactant r = some j then acc + ((netStoich r s : Int) : α) * r.param else acc) ((0 : Nat) : α)

/-- the matrix `M` with `dc/dt = M·c` of a first-order network, rows and columns in substance order -/
def firstOrderMatrix (keys : List σ) (rs : List (Reaction σ α)) : List (List α) :=
  keys.map fun s => keys.map fun j => firstOrderEntry rs s j

/-- `(M·c)[s]` for `c` given as a function on substances -/
def matVecEntry (keys : List σ) (rs : List (Reaction σ α)) (c : σ → α) (s : σ) : α :=
  keys.foldl (fun acc j => acc + firstOrderEntry rs s j * c j) ((0 : Nat) : α)

end Linear

end ChemModel.EulerStep
