/-
C08 — executable model of the logic chempy itself contributes to "the reported equilibrium
composition is genuine whenever the solver claims success":

* `ReactionSystem.upper_conc_bounds`            (chempy/reactionsystem.py:776-832)
* `EqSystem._result_is_sane`                    (chempy/equilibria.py:269-278)
* `Reaction.net_stoich/_xprecipitate_stoich/precipitate_stoich/non_precipitate_stoich/has_precipitates`
                                                (chempy/chemistry.py:657-725)
* `equilibrium_quotient`, `Equilibrium.Q`        (chempy/chemistry.py:991-1017, 1162-1165)
* `EqSystem.dissolved`, `_fw_cond_factory`, `_bw_cond_factory`, `phase_transfer_reaction_idxs`,
  `non_precip_rids`                             (chempy/equilibria.py:89-147, 262-267)
* `equilibrium_residual`, `_get_rc_interval`, the masking of `_solve_equilibrium_coord` and the
  result expression of `solve_equilibrium`      (chempy/_equilibrium.py)

The root finders themselves (pyneqsys, scipy.optimize.brentq) are NOT modelled: their convergence is
runtime behaviour sampled by tools/harness/c08.py.

Number-generic: instantiated with `Rat` in the driver (exact; the Python side is driven with
`fractions.Fraction` / dyadic floats) and with an arbitrary linearly ordered field in the proofs.
Errors of the Python code are modelled explicitly (`Except Err`), with the semantics the code has when it
is driven with exact numbers (`Fraction(0) ** -1`, `x / 0` raise `ZeroDivisionError`; numpy float arrays
would produce inf/nan and a RuntimeWarning instead — outside the model).
-/
import ChemModel.Basic.Num
import ChemModel.Gen.EqSolveDefaults

namespace ChemModel.EqSolve

/-- the Python exception classes that the modelled code can raise -/
inductive Err where
  | valueError | zeroDivisionError | notImplementedError | indexError | keyError | typeError
  deriving DecidableEq, Repr

def Err.name : Err → String
  | .valueError => "ValueError"
  | .zeroDivisionError => "ZeroDivisionError"
  | .notImplementedError => "NotImplementedError"
  | .indexError => "IndexError"
  | .keyError => "KeyError"
  | .typeError => "TypeError"

/-- Python sequence indexing `l[i]` with an `int` (negative counts from the end); `none` = IndexError -/
def pyIndex {β : Type} (l : List β) (i : Int) : Option β :=
  if 0 ≤ i then l[i.toNat]?
  else if i.natAbs ≤ l.length then l[l.length - i.natAbs]? else none

/-- `d.get(k, 0)` on a dict given in insertion order (keys: substance indices) -/
def dictGet (d : List (Nat × Int)) (k : Nat) : Int :=
  match d.lookup k with
  | some v => v
  | none => 0

/-- a reaction: the four stoichiometry dicts of `chempy.Reaction`, keys = index of the substance in
    `substances` (the harness maps names to indices) -/
structure Rxn where
  reac : List (Nat × Int)
  prod : List (Nat × Int)
  inactReac : List (Nat × Int)
  inactProd : List (Nat × Int)
  deriving Repr

/-- entry `k` of `Reaction.net_stoich` (chemistry.py:657-665): `prod - reac + inact_prod - inact_reac` -/
def Rxn.net (r : Rxn) (k : Nat) : Int :=
  dictGet r.prod k - dictGet r.reac k + dictGet r.inactProd k - dictGet r.inactReac k

/-- `Reaction.net_stoich(substances)` — one entry per substance -/
def netStoich (ns : Nat) (r : Rxn) : List Int := (List.range ns).map r.net

/-- the expression used by `_xprecipitate_stoich` (chemistry.py:692-695): `prod + inact_prod - reac - inact_reac` -/
def Rxn.netX (r : Rxn) (k : Nat) : Int :=
  dictGet r.prod k + dictGet r.inactProd k - dictGet r.reac k - dictGet r.inactReac k

/-- `Reaction._xprecipitate_stoich(substances, xor)` (chemistry.py:687-698).
    `phases[k]` is `getattr(substances[k], 'phase_idx', 0)`. -/
def xprecipitateStoich (phases : List Nat) (r : Rxn) (xor : Bool) : List Int :=
  (List.range phases.length).map fun k =>
    match phases[k]? with
    | some p => if (xor ^^ decide (p > 0)) then 0 else r.netX k
    | none => 0   -- unreachable: k < phases.length

/-- `non_precipitate_stoich` (chemistry.py:712-714) -/
def nonPrecipitateStoich (phases : List Nat) (r : Rxn) : List Int := xprecipitateStoich phases r false

/-- the loop of `precipitate_stoich` (chemistry.py:703-709): index of the single non-zero entry, `-1` when there
    is none, `NotImplementedError` when there are two -/
def findNonzero : List Int → Nat → Int → Except Err Int
  | [], _, found => pure found
  | n :: rest, i, found =>
    if n ≠ 0 then
      if found = -1 then findNonzero rest (i + 1) (i : Int) else throw .notImplementedError
    else findNonzero rest (i + 1) found

/-- `Reaction.precipitate_stoich(substances)` → `(net, net[found1], found1)`.  When no precipitate has a non-zero
    coefficient Python evaluates `net[-1]` (the last entry — necessarily 0), or raises IndexError on an empty tuple. -/
def precipitateStoich (phases : List Nat) (r : Rxn) : Except Err (List Int × Int × Int) := do
  let net := xprecipitateStoich phases r true
  let f ← findNonzero net 0 (-1)
  match pyIndex net f with
  | none => throw .indexError
  | some s => pure (net, s, f)

/-- the keys visited by `has_precipitates` in order: `chain(reac, prod, inact_reac, inact_prod)` -/
def Rxn.keys (r : Rxn) : List Nat :=
  r.reac.map (·.1) ++ r.prod.map (·.1) ++ r.inactReac.map (·.1) ++ r.inactProd.map (·.1)

/-- the loop of `has_precipitates`: returns at the first key whose substance has `phase_idx > 0`;
    a key that is not a substance is a KeyError (only if reached) -/
def hasPrecipitatesGo (phases : List Nat) : List Nat → Except Err Bool
  | [] => pure false
  | k :: ks =>
    match phases[k]? with
    | none => throw .keyError
    | some p => if p > 0 then pure true else hasPrecipitatesGo phases ks

/-- `Reaction.has_precipitates(substances)` (chemistry.py:716-725) -/
def hasPrecipitates (phases : List Nat) (r : Rxn) : Except Err Bool := hasPrecipitatesGo phases r.keys

/-- `EqSystem.phase_transfer_reaction_idxs()` (equilibria.py:89-94) -/
def phaseTransferIdxsGo (phases : List Nat) : List Rxn → Nat → Except Err (List Nat)
  | [], _ => pure []
  | r :: rs, i => do
    let b ← hasPrecipitates phases r
    let rest ← phaseTransferIdxsGo phases rs (i + 1)
    pure (if b then i :: rest else rest)

def phaseTransferIdxs (phases : List Nat) (rxns : List Rxn) : Except Err (List Nat) :=
  phaseTransferIdxsGo phases rxns 0

/-- the comprehension of `non_precip_rids`: `[idx for idx, precip in zip(idxs, precipitates) if not precip]` -/
def zipNotPrecip : List Nat → List Bool → List Nat
  | i :: is, p :: ps => if p then zipNotPrecip is ps else i :: zipNotPrecip is ps
  | _, _ => []

/-- `EqSystem.non_precip_rids(precipitates)` (equilibria.py:262-267) -/
def nonPrecipRids (phases : List Nat) (rxns : List Rxn) (precipitates : List Bool) : Except Err (List Nat) := do
  pure (zipNotPrecip (← phaseTransferIdxs phases rxns) precipitates)

section numeric
variable {α : Type} [NatCast α] [IntCast α] [Add α] [Sub α] [Mul α] [Div α] [Neg α]
  [LT α] [DecidableLT α] [DecidableEq α]

/-- default `rtol` of `_result_is_sane` (equilibria.py:269), EXTRACTED from the source text on every run (`Gen/EqSolveDefaults.lean`) -/
def saneRtolDefault : α := Num.frac Gen.EqSolveDefaults.saneRtolNum Gen.EqSolveDefaults.saneRtolDen

/-- default `rtol` of `_fw_cond_factory` (equilibria.py:119), extracted likewise -/
def fwRtolDefault : α := Num.frac Gen.EqSolveDefaults.fwRtolNum Gen.EqSolveDefaults.fwRtolDen

/-- Python `x ** n` for an int `n` on exact numbers: `Fraction(0) ** -1` raises ZeroDivisionError -/
def pyPow (x : α) (n : Int) : Except Err α :=
  if 0 ≤ n then pure (Num.npow x n.toNat)
  else if x = ((0 : Nat) : α) then throw .zeroDivisionError
  else pure (((1 : Nat) : α) / Num.npow x n.natAbs)

/-- `equilibrium_quotient(concs, stoich)` for 1-d `concs` (chemistry.py:991-1017):
    `tot = 1; for nr, conc in zip(stoich, concs): tot *= conc ** nr` (zip truncates) -/
def eqQuotientGo (tot : α) : List Int → List α → Except Err α
  | nr :: ss, conc :: cs => do
    let p ← pyPow conc nr
    eqQuotientGo (tot * p) ss cs
  | _, _ => pure tot

def eqQuotient (concs : List α) (stoich : List Int) : Except Err α :=
  eqQuotientGo ((1 : Nat) : α) stoich concs

/-- `Equilibrium.Q(substances, concs)` (chemistry.py:1162-1165): quotient over the non-precipitate species -/
def rxnQ (phases : List Nat) (r : Rxn) (concs : List α) : Except Err α :=
  eqQuotient concs (nonPrecipitateStoich phases r)

/-- one iteration of the loop of `EqSystem.dissolved` (equilibria.py:112-116):
    `new_concs -= new_concs[s_idx] / s_stoich * net_stoich` -/
def dissolveStep (phases : List Nat) (c : List α) (r : Rxn) : Except Err (List α) := do
  if (← hasPrecipitates phases r) then
    let net := netStoich phases.length r
    let (_, sStoich, sIdx) ← precipitateStoich phases r
    match pyIndex c sIdx with
    | none => throw .indexError
    | some cs =>
      if sStoich = 0 then throw .zeroDivisionError
      else if c.length ≠ net.length then throw .valueError      -- numpy: operands could not be broadcast
      else
        let f := cs / ((sStoich : Int) : α)
        pure (List.zipWith (fun ci ni => ci - f * ((ni : Int) : α)) c net)
  else pure c

/-- `EqSystem.dissolved(concs)` (equilibria.py:109-117): every phase-transfer reaction in turn moves all of its
    solid into the other species -/
def dissolved (phases : List Nat) : List Rxn → List α → Except Err (List α)
  | [], c => pure c
  | r :: rs, c => do
    let c' ← dissolveStep phases c r
    dissolved phases rs c'

/-- `fw_cond(x, p)` of `_fw_cond_factory(ri, rtol)` (equilibria.py:119-135); `r = rxns[ri]`, `k = r.equilibrium_constant()`.
    `true` = "treat the solid as present". -/
def fwCond (rtol : α) (phases : List Nat) (rxns : List Rxn) (r : Rxn) (k : α) (x : List α) : Except Err Bool := do
  let (_, coeff, _) ← precipitateStoich phases r
  let d ← dissolved phases rxns x
  let q ← rxnQ phases r d
  if coeff > 0 then pure (decide (q * (((1 : Nat) : α) + rtol) < k))
  else if coeff < 0 then pure (decide (k * (((1 : Nat) : α) + rtol) < q))
  else throw .notImplementedError

/-- `bw_cond(x, p)` of `_bw_cond_factory(ri, small)` (equilibria.py:137-147) -/
def bwCond (small : α) (phases : List Nat) (r : Rxn) (x : List α) : Except Err Bool := do
  let (_, _, idx) ← precipitateStoich phases r
  match pyIndex x idx with
  | none => throw .indexError
  | some xi => pure (if xi < small then false else true)

/-! ### upper bounds and the sanity check -/

/-- a composition dict in insertion order: key (0 = charge, else atomic number) ↦ coefficient -/
abbrev Comp (α : Type) := List (Nat × α)

def listSum (l : List α) : α := l.foldr (· + ·) ((0 : Nat) : α)

/-- `composition_conc[k]` after the first loop of `upper_conc_bounds` (reactionsystem.py:815-820), read per key:
    the sum of `coeff * conc` over all substances and all of their composition items with that key, skipping the
    keys in `skip_keys = (0,)`; a key never touched reads as `0.0` (defaultdict).  (The order of the float additions
    is not modelled.) -/
def compositionConc (comps : List (Comp α)) (concs : List α) (k : Nat) : α :=
  listSum ((List.zip concs comps).map fun (conc, comp) =>
    listSum (comp.map fun (key, coeff) => if key = k ∧ key ≠ 0 then coeff * conc else ((0 : Nat) : α)))

/-- Python `min(l)` for a non-empty list -/
def listMin : α → List α → α
  | a, [] => a
  | a, b :: l => listMin (if b < a then b else a) l

/-- second loop of `upper_conc_bounds` (reactionsystem.py:822-831) for one substance: `none` = `float('inf')` -/
def boundOf (tot : Nat → α) (comp : Comp α) : Except Err (Option α) := do
  let choose ← (comp.filter fun p => p.1 ≠ 0).mapM fun (key, coeff) =>
    if coeff = ((0 : Nat) : α) then (throw .zeroDivisionError : Except Err α) else pure (tot key / coeff)
  match choose with
  | [] => pure none
  | a :: l => pure (some (listMin a l))

/-- `ReactionSystem.upper_conc_bounds(init_concs)` with the defaults `min_=min, skip_keys=(0,)`;
    `as_per_substance_array` raises ValueError("Incorrect size") on a wrong length -/
def upperConcBounds (comps : List (Comp α)) (init : List α) : Except Err (List (Option α)) :=
  if init.length ≠ comps.length then throw .valueError
  else comps.mapM (boundOf (compositionConc comps init))

/-- `np.any(x > sc_upper_bounds * (1 + rtol))` -/
def tooMuch (rtol : α) : List α → List (Option α) → Bool
  | x :: xs, b :: bs =>
    (match b with
     | none => false
     | some b => decide (b * (((1 : Nat) : α) + rtol) < x)) || tooMuch rtol xs bs
  | _, _ => false

/-- `EqSystem._result_is_sane(init_concs, x, rtol)` (equilibria.py:269-278).  Any strictly negative entry —
    however tiny — makes the result insane; there is no tolerance on that side. -/
def resultIsSane (rtol : α) (comps : List (Comp α)) (init x : List α) : Except Err Bool := do
  let ub ← upperConcBounds comps init
  if x.length ≠ ub.length then throw .valueError      -- numpy broadcasting error
  else
    let negConc := x.any fun xi => decide (xi < ((0 : Nat) : α))
    let too := tooMuch rtol x ub
    pure (!(negConc || too))

/-! ### the scalar (single equilibrium) solver -/

/-- `limits = c0 / stoich` (elementwise, after numpy's shape check; a zero coefficient is a ZeroDivisionError on
    exact numbers) -/
def rcLimitsGo : List Int → List α → Except Err (List α)
  | s :: ss, c :: cs =>
    if s = 0 then throw .zeroDivisionError
    else do
      let rest ← rcLimitsGo ss cs
      pure (c / ((s : Int) : α) :: rest)
  | _, _ => pure []

def rcLimits (stoich : List Int) (c0 : List α) : Except Err (List α) :=
  if stoich.length ≠ c0.length then throw .valueError      -- numpy: operands could not be broadcast
  else rcLimitsGo stoich c0

def listMax : α → List α → α
  | a, [] => a
  | a, b :: l => listMax (if a < b then b else a) l

/-- `_get_rc_interval(stoich, c0)` (chempy/_equilibrium.py:37-53) → `(lower, upper)` -/
def getRcInterval (stoich : List Int) (c0 : List α) : Except Err (α × α) := do
  let limits ← rcLimits stoich c0
  let zero := ((0 : Nat) : α)
  let upper := match limits.filter (fun l => decide (l < zero)) with
    | [] => zero
    | a :: l => -(listMax a l)
  let lower := match limits.filter (fun l => decide (zero < l)) with
    | [] => zero
    | a :: l => -(listMin a l)
  if lower = zero ∧ upper = zero then throw .valueError else pure (lower, upper)

/-- `c = c0 + stoich * rc` -/
def extentState (c0 : List α) (stoich : List Int) (rc : α) : List α :=
  List.zipWith (fun c s => c + ((s : Int) : α) * rc) c0 stoich

/-- `equilibrium_residual(rc, c0, stoich, K)` for 1-d stoich and no activity product (chempy/_equilibrium.py:11-34) -/
def equilibriumResidual (rc : α) (c0 : List α) (stoich : List Int) (K : α) : Except Err α := do
  if c0.length ≠ stoich.length then throw .valueError
  else
    let q ← eqQuotient (extentState c0 stoich rc) stoich
    pure (K - q)

/-- the bracket handed to `brentq` by `_solve_equilibrium_coord`: species with a zero coefficient are masked out -/
def solveBracket (c0 : List α) (stoich : List Int) : Except Err (α × α) :=
  if c0.length ≠ stoich.length then throw .valueError
  else
    let m := (List.zip stoich c0).filter fun p => p.1 ≠ 0
    getRcInterval (m.map (·.1)) (m.map (·.2))

end numeric

/-! ### `ReactionSystem.per_substance_varied` — the grid of initial compositions behind `EqSystem.solve(init, varied)` / `roots`
(chempy/reactionsystem.py:606-645).  Substances are indices `0 … ns-1`; `varied` is the user's dict in ITS insertion order:
`(substance index, levels)`; an index `≥ ns` stands for a key that is not a substance. -/

/-- `tuple.index(k)` (`none` = ValueError) -/
def pyListIndex : List Nat → Nat → Option Nat
  | [], _ => none
  | a :: l, k => if a = k then some 0 else (pyListIndex l k).map (· + 1)

/-- `varied_keys = tuple(k for k in self.substances if k in varied)` — substance order, NOT the user's order -/
def variedKeys {β : Type} (ns : Nat) (varied : List (Nat × β)) : List Nat :=
  (List.range ns).filter fun j => varied.any fun kv => kv.1 == j

/-- `shape = tuple(len(varied[k]) for k in self.substances if k in varied)` -/
def variedShape {β : Type} (ns : Nat) (varied : List (Nat × List β)) : List Nat :=
  (variedKeys ns varied).map fun j => match varied.lookup j with
    | some vals => vals.length
    | none => 0

/-- all multi-indices of an nd-array of the given shape, in C order -/
def multiIdx : List Nat → List (List Nat)
  | [] => [[]]
  | n :: rest => (List.range n).flatMap fun i => (multiIdx rest).map (i :: ·)

section grid
variable {α : Type}

/-- what the assignment loop for one `(k, vals)` of `varied` does to the row at grid point `idx`:
    `varied_axis = varied_keys.index(k)`; `result[..., idx[axis] on that axis, ..., k] = vals[idx[axis]]` -/
def gridStep (keys idx : List Nat) (row : List α) (kv : Nat × List α) : Except Err (List α) :=
  match pyListIndex keys kv.1 with
  | none => throw .valueError
  | some a =>
    match idx[a]? with
    | none => throw .indexError
    | some i =>
      match kv.2[i]? with
      | none => throw .indexError
      | some v => pure (row.set kv.1 v)

/-- the row of the grid at multi-index `idx`: the base composition overwritten by every varied substance in the user's order -/
def gridPoint (keys idx : List Nat) : List α → List (Nat × List α) → Except Err (List α)
  | row, [] => pure row
  | row, kv :: rest => do
    let row' ← gridStep keys idx row kv
    gridPoint keys idx row' rest

/-- a key of `varied` that is not a substance: `n_varied = len(varied)` then exceeds the number of axes, so the first assignment of a
    known key raises IndexError (too many indices), and reaching the unknown key raises ValueError (`tuple.index`) -/
def unknownKeyError (ns : Nat) : List (Nat × List α) → Err
  | [] => .valueError
  | kv :: rest => if kv.1 ≥ ns then .valueError else if kv.2.isEmpty then unknownKeyError ns rest else .indexError

/-- `per_substance_varied(per_substance, varied)` → `(varied_keys, shape, rows of the grid in C order)` -/
def perSubstanceVaried (ns : Nat) (base : List α) (varied : List (Nat × List α)) :
    Except Err (List Nat × List Nat × List (List α)) :=
  if base.length ≠ ns then throw .valueError            -- as_per_substance_array: "Incorrect size"
  else if varied.any (fun kv => decide (kv.1 ≥ ns)) then throw (unknownKeyError ns varied)
  else do
    let keys := variedKeys ns varied
    let shape := variedShape ns varied
    let rows ← (multiIdx shape).mapM fun idx => gridPoint keys idx base varied
    pure (keys, shape, rows)

end grid

/-! ### what `EqSystem.root` / `_solve` hand to the root finder (equilibria.py:280-339) -/

/-- `(x0, params)` of the call `neqsys.solve(x0, params)`: the starting guess is `x0` when given, else the initial composition;
    the parameter vector is ALWAYS `init_concs ++ [float(K) for K in eq_constants()]` — the conservation equations refer to the
    initial composition, never to the guess -/
def rootArgs {α : Type} (init : List α) (x0 : Option (List α)) (consts : List α) : List α × List α :=
  (match x0 with
   | none => init
   | some g => g,
   init ++ consts)

/-! ### remaining branches of `equilibrium_quotient` / `equilibrium_residual` (round 7) -/

section numeric2
variable {α : Type} [NatCast α] [IntCast α] [Add α] [Sub α] [Mul α] [Div α] [Neg α]
  [LT α] [DecidableLT α] [DecidableEq α]

/-- `equilibrium_quotient(concs, stoich)` for 2-d `concs` (chemistry.py: `tot = np.ones(concs.shape[0]); concs = concs.T`): one quotient per
    row (state) of `concs`.  (numpy float arrays give inf/nan instead of ZeroDivisionError: outside the model.) -/
def eqQuotientRows (concs : List (List α)) (stoich : List Int) : Except Err (List α) :=
  concs.mapM fun row => eqQuotient row stoich

/-- `equilibrium_residual(rc, c0, stoich, K, activity_product)` with 1-d `stoich` and an activity-product callback `act`:
    `Q = equilibrium_quotient(c, stoich); Q *= activity_product(c); return K - Q` -/
def equilibriumResidualWith (act : List α → Except Err α) (rc : α) (c0 : List α) (stoich : List Int) (K : α) : Except Err α := do
  if c0.length ≠ stoich.length then throw .valueError
  else
    let c := extentState c0 stoich rc
    let q ← eqQuotient c stoich
    let g ← act c
    pure (K - q * g)

/-- `np.dot(stoich, rc)[i]` for row `i` of a 2-d `stoich` (species × reactions) -/
def dotRowInt (row : List Int) (rc : List α) : α :=
  listSum (List.zipWith (fun (n : Int) r => ((n : Int) : α) * r) row rc)

/-- `c = c0 + np.dot(stoich, rc)` (2-d `stoich`: one row per species, one column per reaction; `rc` one coordinate per reaction) -/
def extentStateMulti (c0 : List α) (stoich : List (List Int)) (rc : List α) : List α :=
  List.zipWith (fun c row => c + dotRowInt row rc) c0 stoich

/-- column `r` of the 2-d stoichiometry: the exponents of reaction `r` -/
def stoichColumn (stoich : List (List Int)) (r : Nat) : List Int := stoich.map fun row => row.getD r 0

/-- `equilibrium_residual(rc, c0, stoich, K)` for 2-d `stoich` (chempy/_equilibrium.py:29-34): `equilibrium_quotient(c, stoich)` then
    multiplies `conc ** row` (a vector over the reactions) species by species, i.e. `Q_r = ∏_i c_i ^ stoich[i][r]`; result `K - Q`
    (one entry per reaction).  Shapes that numpy cannot align are ValueError. -/
def equilibriumResidualMulti (rc c0 : List α) (stoich : List (List Int)) (K : List α) : Except Err (List α) :=
  if c0.length ≠ stoich.length ∨ stoich.any (fun row => decide (row.length ≠ rc.length)) ∨ K.length ≠ rc.length then throw .valueError
  else
    let c := extentStateMulti c0 stoich rc
    (List.zip (List.range rc.length) K).mapM fun (r, k) => do
      let q ← eqQuotient c (stoichColumn stoich r)
      pure (k - q)

end numeric2

/-! ### numpy-specific behaviour of `_result_is_sane` and `dissolved` (round 9, review 2-F) -/

section nan
variable {α : Type} [NatCast α] [IntCast α] [Add α] [Sub α] [Mul α] [Div α] [Neg α]
  [LT α] [DecidableLT α] [DecidableEq α]

/-- `np.any(x > bounds*(1+rtol))` when `x` may contain NaN (`none`): every comparison with NaN is False -/
def tooMuchNan (rtol : α) : List (Option α) → List (Option α) → Bool
  | x :: xs, b :: bs =>
    (match x, b with
     | some v, some b => decide (b * (((1 : Nat) : α) + rtol) < v)
     | _, _ => false) || tooMuchNan rtol xs bs
  | _, _ => false

/-- `_result_is_sane(init, x, rtol)` on a float array with NaN entries (`none`): `nan < 0` and `nan > bound` are both False, so a NaN entry
    is never a reason to call the result insane — the real code returns True for `[5, 6, nan]` and even for `[nan, nan, nan]` -/
def resultIsSaneNan (rtol : α) (comps : List (Comp α)) (init : List α) (x : List (Option α)) : Except Err Bool := do
  let ub ← upperConcBounds comps init
  if x.length ≠ ub.length then throw .valueError
  else
    let negConc := x.any fun xi => match xi with
      | some v => decide (v < ((0 : Nat) : α))
      | none => false
    pure (!(negConc || tooMuchNan rtol x ub))

end nan

/-- `EqSystem.dissolved(concs)` for an INTEGER numpy array: `new_concs -= <float array>` cannot be cast back (`UFuncTypeError`, a TypeError)
    as soon as one phase-transfer reaction is processed; without one the copy is returned unchanged.  (Not reachable through `root`, which
    converts to float64; reachable by calling `dissolved` / `fw_cond` directly.) -/
def dissolvedIntArray (phases : List Nat) : List Rxn → List Int → Except Err (List Int)
  | [], c => pure c
  | r :: rs, c => do
    if (← hasPrecipitates phases r) then
      let (_, _, sIdx) ← precipitateStoich phases r
      match pyIndex c sIdx with
      | none => throw .indexError
      | some _ => throw .typeError
    else dissolvedIntArray phases rs c

/-- `NumSysLin.internal_x0_cb(init_concs, params)` (chempy/_eqsys.py:169-171): the internal starting point of the linear formulation,
    `(99 * init_concs + self.eqsys.dissolved(init_concs)) / 100` ("reduce risk of stationary starting point") -/
def linInternalX0 {α : Type} [NatCast α] [IntCast α] [Add α] [Sub α] [Mul α] [Div α] [Neg α] [LT α] [DecidableLT α] [DecidableEq α]
    (phases : List Nat) (rxns : List Rxn) (c0 : List α) : Except Err (List α) := do
  let d ← dissolved phases rxns c0
  pure (List.zipWith (fun c dv => (((99 : Nat) : α) * c + dv) / ((100 : Nat) : α)) c0 d)

end ChemModel.EqSolve
